(* Proofs about Model/Writer.v (property C12): the buffered writers leave exactly the serialization of
   the vector that the same pushes build in memory.

   Key idea: the in-memory vector is always  lift F buf = (64*|F| + len buf,  F ++ words buf)  where F are the
   words already appended to the file after the header and buf is the writer's buffer. Pushing into
   lift F buf is pushing into buf (the word operations only touch indices >= |F|), a safe flush moves whole
   words from buf to F (buf_len is a multiple of 64, the carried overflow is < 64 bits and is the whole last word
   because the unused bits of a RawVector are zero). *)
From Coq Require Import NArith List Lia ZArith Bool.
Require Import SDS.Model.Mach SDS.Model.Bits SDS.Model.Raw SDS.Model.IntVec SDS.Model.Writer.
Require Import SDS.gen.Consts SDS.gen.Funs SDS.Proofs.BitsProof.
Import ListNotations.
Open Scope N_scope.
Require Import ZifyBool ZifyN ZifyNat.
Ltac Zify.zify_post_hook ::= Z.div_mod_to_equations.
Arguments N.add : simpl never. Arguments N.sub : simpl never. Arguments N.mul : simpl never.
Arguments N.eqb : simpl never. Arguments N.ltb : simpl never. Arguments N.leb : simpl never.
Arguments N.pow : simpl never. Arguments N.shiftl : simpl never. Arguments N.shiftr : simpl never.
Arguments N.land : simpl never. Arguments N.lor : simpl never. Arguments N.div : simpl never.
Arguments N.modulo : simpl never. Arguments N.ones : simpl never. Arguments N.testbit : simpl never.
Arguments N.max : simpl never.

(* ---- lists: an untouched prefix ---- *)

Lemma w12_lenN_app {A} (a b : list A) : lenN (a ++ b) = lenN a + lenN b.
Proof. unfold lenN. rewrite app_length. lia. Qed.

Lemma w12_lenN_cons {A} (x : A) t : lenN (x :: t) = lenN t + 1.
Proof. unfold lenN. cbn [length]. lia. Qed.

Lemma w12_nthN_app_shift {A} (F d : list A) i : nthN (F ++ d) (lenN F + i) = nthN d i.
Proof.
  induction F as [|x t IH]; cbn [app nthN].
  - replace (lenN (@nil A) + i) with i by (unfold lenN; cbn [length]; lia). reflexivity.
  - rewrite w12_lenN_cons. replace (lenN t + 1 + i =? 0) with false by lia.
    replace (lenN t + 1 + i - 1) with (lenN t + i) by lia. exact IH.
Qed.

Lemma w12_setN_app_shift {A} (F d : list A) i v : setN (F ++ d) (lenN F + i) v = F ++ setN d i v.
Proof.
  induction F as [|x t IH]; cbn [app setN].
  - replace (lenN (@nil A) + i) with i by (unfold lenN; cbn [length]; lia). reflexivity.
  - rewrite w12_lenN_cons. replace (lenN t + 1 + i =? 0) with false by lia.
    replace (lenN t + 1 + i - 1) with (lenN t + i) by lia. rewrite IH. reflexivity.
Qed.

Lemma w12_idx_app_shift {A} (F d : list A) i : idx (F ++ d) (lenN F + i) = idx d i.
Proof. unfold idx. rewrite w12_nthN_app_shift. reflexivity. Qed.

Lemma w12_upd_app_shift {A} (F d : list A) i v :
  upd (F ++ d) (lenN F + i) v = rmap (app F) (upd d i v).
Proof.
  unfold upd. rewrite w12_lenN_app. destruct (N.ltb_spec i (lenN d)) as [H|H].
  - replace (lenN F + i <? lenN F + lenN d) with true by lia. cbn [rmap bind].
    rewrite w12_setN_app_shift. reflexivity.
  - replace (lenN F + i <? lenN F + lenN d) with false by lia. reflexivity.
Qed.

(* ---- the word operations of a push do not see a prefix of whole words ---- *)

Lemma w12_write_int_shift F d o v w :
  write_int (F ++ d) (64 * lenN F + o) v w = rmap (app F) (write_int d o v w).
Proof.
  unfold write_int. rewrite !split_offset_spec.
  replace ((64 * lenN F + o) / 64) with (lenN F + o / 64) by lia.
  replace ((64 * lenN F + o) mod 64) with (o mod 64) by lia.
  set (index := o / 64). set (offset := o mod 64).
  destruct (low_set w) as [ls|k|s]; cbn [bind rmap]; try reflexivity.
  destruct (offset + w <=? bits_WORD_BITS).
  - destruct (high_set_unchecked (bits_WORD_BITS - w - offset)) as [hs|k|s]; cbn [bind]; try reflexivity.
    destruct (low_set_unchecked offset) as [lo|k|s]; cbn [bind]; try reflexivity.
    rewrite w12_idx_app_shift. destruct (idx d index) as [w0|k|s]; cbn [bind]; try reflexivity.
    rewrite w12_upd_app_shift. reflexivity.
  - destruct (low_set_unchecked offset) as [lo|k|s]; cbn [bind]; try reflexivity.
    rewrite w12_idx_app_shift. destruct (idx d index) as [w0|k|s]; cbn [bind]; try reflexivity.
    rewrite w12_upd_app_shift.
    destruct (upd d index _) as [a1|k|s]; cbn [bind rmap]; try reflexivity.
    destruct (high_set (2 * bits_WORD_BITS - w - offset)) as [hs|k|s]; cbn [bind]; try reflexivity.
    replace (lenN F + index + 1) with (lenN F + (index + 1)) by lia.
    rewrite w12_idx_app_shift. destruct (idx a1 (index + 1)) as [w1|k|s]; cbn [bind]; try reflexivity.
    rewrite w12_upd_app_shift. reflexivity.
Qed.

(* the vector in memory: F whole words followed by the buffer *)
Definition lift (F : list N) (r : raw) : raw := mkraw (64 * lenN F + rlen r) (F ++ rdata r).

Lemma w12_push_int_shift F r v w :
  raw_push_int (lift F r) v w = rmap (lift F) (raw_push_int r v w).
Proof.
  unfold raw_push_int, lift. cbn [rlen rdata]. destruct (w =? 0); [reflexivity|].
  unfold words_to_bits. change bits_WORD_BITS with 64. rewrite w12_lenN_app.
  replace ((lenN F + lenN (rdata r)) * 64 <? 64 * lenN F + rlen r + w)
    with (lenN (rdata r) * 64 <? rlen r + w) by lia.
  destruct (lenN (rdata r) * 64 <? rlen r + w).
  - rewrite <- app_assoc, w12_write_int_shift.
    destruct (write_int (rdata r ++ [0]) (rlen r) v w) as [a|k|s]; cbn [bind rmap]; try reflexivity.
    cbn [rlen rdata]. f_equal. f_equal. lia.
  - rewrite w12_write_int_shift.
    destruct (write_int (rdata r) (rlen r) v w) as [a|k|s]; cbn [bind rmap]; try reflexivity.
    cbn [rlen rdata]. f_equal. f_equal. lia.
Qed.

Lemma w12_push_bit_shift F r b :
  raw_push_bit (lift F r) b = rmap (lift F) (raw_push_bit r b).
Proof.
  unfold raw_push_bit, lift. cbn [rlen rdata]. rewrite !split_offset_spec.
  replace ((64 * lenN F + rlen r) / 64) with (lenN F + rlen r / 64) by lia.
  replace ((64 * lenN F + rlen r) mod 64) with (rlen r mod 64) by lia.
  rewrite w12_lenN_app.
  replace (lenN F + rlen r / 64 =? lenN F + lenN (rdata r)) with (rlen r / 64 =? lenN (rdata r)) by lia.
  destruct (rlen r / 64 =? lenN (rdata r)).
  - rewrite <- app_assoc, w12_idx_app_shift.
    destruct (idx (rdata r ++ [0]) (rlen r / 64)) as [w0|k|s]; cbn [bind rmap]; try reflexivity.
    rewrite w12_upd_app_shift.
    destruct (upd (rdata r ++ [0]) (rlen r / 64) _) as [a|k|s]; cbn [bind rmap]; try reflexivity.
    cbn [rlen rdata]. f_equal. f_equal. lia.
  - rewrite w12_idx_app_shift.
    destruct (idx (rdata r) (rlen r / 64)) as [w0|k|s]; cbn [bind rmap]; try reflexivity.
    rewrite w12_upd_app_shift.
    destruct (upd (rdata r) (rlen r / 64) _) as [a|k|s]; cbn [bind rmap]; try reflexivity.
    cbn [rlen rdata]. f_equal. f_equal. lia.
Qed.

Lemma w12_mem_step_shift F r o : mem_step (lift F r) o = rmap (lift F) (mem_step r o).
Proof. destruct o; cbn [mem_step]; [apply w12_push_bit_shift|apply w12_push_int_shift]. Qed.

(* ---- the RawVector invariant: whole words, exact word count, zero unused bits ---- *)

Definition raw_inv (r : raw) : Prop :=
  wf (rdata r) /\ lenN (rdata r) = bits_to_words (rlen r) /\
  forall p, rlen r <= p -> bit (rdata r) p = false.

Lemma w12_btw n : bits_to_words n = (n + 63) / 64.
Proof. reflexivity. Qed.

Lemma w12_raw_inv_new : raw_inv raw_new.
Proof.
  unfold raw_inv, raw_new. cbn [rdata rlen]. split; [constructor|]. split; [reflexivity|].
  intros p _. unfold bit, getw. cbn [nthN]. apply N.bits_0.
Qed.

Lemma w12_getw_app_zero d i : getw (d ++ [0]) i = getw d i.
Proof.
  unfold getw. revert i. induction d as [|x t IH]; intros i; cbn [app nthN].
  - destruct (i =? 0); reflexivity.
  - destruct (i =? 0); [reflexivity|apply IH].
Qed.

Lemma w12_bit_app_zero d p : bit (d ++ [0]) p = bit d p.
Proof. unfold bit. rewrite w12_getw_app_zero. reflexivity. Qed.

Lemma w12_wf_app_zero d : wf d -> wf (d ++ [0]).
Proof. intros H. unfold wf. apply Forall_app. split; [exact H|]. constructor; [reflexivity|constructor]. Qed.

Lemma w12_push_int_inv r v w : raw_inv r -> 1 <= w <= 64 ->
  exists r', raw_push_int r v w = Ok r' /\ raw_inv r' /\ rlen r' = rlen r + w /\
    forall p, bit (rdata r') p =
      if (rlen r <=? p) && (p <? rlen r + w) then N.testbit v (p - rlen r) else bit (rdata r) p.
Proof.
  intros (Hwf & Hlen & Hz) Hw. unfold raw_push_int. replace (w =? 0) with false by lia.
  rewrite w12_btw in Hlen.
  set (d0 := if words_to_bits (lenN (rdata r)) <? rlen r + w then rdata r ++ [0] else rdata r).
  assert (Hwf0 : wf d0) by (subst d0; destruct (_ <? _); [apply w12_wf_app_zero|]; assumption).
  assert (Hb0 : forall p, bit d0 p = bit (rdata r) p)
    by (intros p; subst d0; destruct (_ <? _); [apply w12_bit_app_zero|reflexivity]).
  assert (Hl0 : lenN d0 = (rlen r + w + 63) / 64).
  { subst d0. unfold words_to_bits. change bits_WORD_BITS with 64.
    destruct (N.ltb_spec (lenN (rdata r) * 64) (rlen r + w)) as [H|H].
    - rewrite w12_lenN_app. change (lenN [0]) with 1. lia.
    - lia. }
  destruct (write_int_bits d0 (rlen r) v w Hwf0 Hw) as (a' & Hwr & Hwf' & Hlen' & Hbits); [lia|].
  rewrite Hwr. cbn [bind]. eexists. split; [reflexivity|]. unfold raw_inv. cbn [rlen rdata].
  split; [|split; [reflexivity|]].
  - split; [assumption|]. split.
    + rewrite w12_btw. unfold lenN in *. rewrite Hlen'. exact Hl0.
    + intros p Hp. rewrite Hbits. replace (p <? rlen r + w) with false by lia.
      rewrite andb_false_r. rewrite Hb0. apply Hz. lia.
  - intros p. rewrite Hbits, Hb0. reflexivity.
Qed.

Lemma w12_testbit_b2n (b : bool) j : N.testbit (if b then 1 else 0) j = b && (j =? 0).
Proof.
  destruct b; cbn [andb]; [|apply N.bits_0].
  destruct (N.eqb_spec j 0) as [->|H]; [reflexivity|].
  change 1 with (N.ones 1). rewrite testbit_ones. lia.
Qed.

Lemma w12_push_bit_inv r b : raw_inv r ->
  exists r', raw_push_bit r b = Ok r' /\ raw_inv r' /\ rlen r' = rlen r + 1.
Proof.
  intros (Hwf & Hlen & Hz). unfold raw_push_bit. rewrite split_offset_spec. rewrite w12_btw in Hlen.
  set (index := rlen r / 64). set (offset := rlen r mod 64).
  set (d0 := if index =? lenN (rdata r) then rdata r ++ [0] else rdata r).
  assert (Hwf0 : wf d0) by (subst d0; destruct (_ =? _); [apply w12_wf_app_zero|]; assumption).
  assert (Hb0 : forall p, bit d0 p = bit (rdata r) p)
    by (intros p; subst d0; destruct (_ =? _); [apply w12_bit_app_zero|reflexivity]).
  assert (Hl0 : lenN d0 = (rlen r + 1 + 63) / 64).
  { subst d0. destruct (N.eqb_spec index (lenN (rdata r))) as [H|H].
    - rewrite w12_lenN_app. change (lenN [0]) with 1. subst index. lia.
    - subst index. lia. }
  assert (Hi : index < lenN d0) by (subst index; lia).
  rewrite (idx_getw d0 index Hi). cbn [bind]. rewrite upd_ok by assumption. cbn [bind].
  eexists. split; [reflexivity|]. unfold raw_inv. cbn [rlen rdata]. split; [|reflexivity].
  set (nw := N.lor (getw d0 index) (N.shiftl (if b then 1 else 0) offset)).
  pose proof (getw_lt d0 index Hwf0) as Hg.
  assert (Hoff : offset < 64) by (subst offset; lia).
  assert (Hnb : forall k, N.testbit nw k = N.testbit (getw d0 index) k || (b && (k =? offset))).
  { intros k. subst nw. rewrite N.lor_spec, testbit_shiftl, w12_testbit_b2n. f_equal.
    destruct b; cbn [andb]; [|apply andb_false_r]. lia. }
  assert (Hnlt : nw < 2 ^ 64).
  { apply lt_pow2_of_bits. intros k Hk. rewrite Hnb. rewrite (testbit_high _ k Hg Hk).
    replace (k =? offset) with false by lia. rewrite andb_false_r. reflexivity. }
  split; [apply wf_setN; assumption|]. split.
  - rewrite lenN_setN, w12_btw. exact Hl0.
  - intros p Hp. unfold bit. destruct (N.eq_dec (p / 64) index) as [E|E].
    + rewrite E, getw_setN_eq by assumption. rewrite Hnb.
      replace (p mod 64 =? offset) with false by (subst index offset; lia). rewrite andb_false_r, orb_false_r.
      rewrite <- E. fold (bit d0 p). rewrite Hb0. apply Hz. lia.
    + rewrite getw_setN_neq by congruence. fold (bit d0 p). rewrite Hb0. apply Hz. lia.
Qed.

(* ---- the file ---- *)

Lemma w12_file_write_end disk ws : file_write disk (lenN disk) ws = (disk ++ ws, lenN disk + lenN ws).
Proof.
  unfold file_write, lenN. rewrite Nat2N.id, firstn_all, Nat.sub_diag. cbn [repeatN app].
  rewrite skipn_all2 by lia. rewrite app_nil_r. reflexivity.
Qed.

Lemma w12_file_write_start disk ws t :
  length ws = length disk -> file_write (disk ++ t) 0 ws = (ws ++ t, lenN ws).
Proof.
  intros H. unfold file_write. change (N.to_nat 0) with 0%nat. cbn [firstn Nat.sub repeatN app Nat.add].
  rewrite H, skipn_app, skipn_all, Nat.sub_diag. cbn [skipn app]. rewrite N.add_0_l. reflexivity.
Qed.

Lemma w12_split_last (l : list N) k : lenN l = k + 1 -> l = firstn (N.to_nat k) l ++ [getw l k].
Proof.
  revert k. induction l as [|x t IH]; intros k H.
  - unfold lenN in H. cbn [length] in H. lia.
  - rewrite w12_lenN_cons in H. destruct (N.eq_dec k 0) as [->|Hk].
    + destruct t; [reflexivity|]. rewrite w12_lenN_cons in H. lia.
    + replace (N.to_nat k) with (S (N.to_nat (k - 1))) by lia. cbn [firstn app].
      unfold getw. cbn [nthN]. replace (k =? 0) with false by lia.
      f_equal. apply IH. lia.
Qed.

(* ---- pieces of a safe flush with an overflow ---- *)

(* the overflow word: unused bits are zero, so the last word is below 2^n *)
Lemma w12_last_word_small b bl : raw_inv b -> bl mod 64 = 0 -> bl < rlen b < bl + 64 ->
  getw (rdata b) (bl / 64) < 2 ^ (rlen b - bl).
Proof.
  intros (Hwf & Hlen & Hz) Hmod Hr. apply lt_pow2_of_bits. intros j Hj.
  destruct (N.lt_ge_cases j 64) as [Hj64|Hj64].
  - specialize (Hz (bl + j)). unfold bit in Hz.
    replace ((bl + j) / 64) with (bl / 64) in Hz by lia.
    replace ((bl + j) mod 64) with j in Hz by lia. apply Hz. lia.
  - apply testbit_high; [apply getw_lt; assumption|assumption].
Qed.

Lemma w12_overflow_int b bl : raw_inv b -> bl mod 64 = 0 -> bl < rlen b < bl + 64 ->
  raw_int b bl (rlen b - bl) = Ok (getw (rdata b) (bl / 64)).
Proof.
  intros Hinv Hmod Hr. pose proof (w12_last_word_small b bl Hinv Hmod Hr) as Hsm.
  destruct Hinv as (Hwf & Hlen & Hz). rewrite w12_btw in Hlen.
  unfold raw_int. replace (rlen b - bl =? 0) with false by lia.
  unfold read_int. rewrite split_offset_spec, Hmod.
  rewrite idx_getw by lia. cbn [bind]. change bits_WORD_BITS with 64.
  replace (0 + (rlen b - bl) <=? 64) with true by lia.
  rewrite low_set_unchecked_ok by lia. cbn [bind].
  rewrite N.shiftr_0_r, N.land_ones, N.mod_small by assumption. reflexivity.
Qed.

Lemma w12_overflow_resize b bl : lenN (rdata b) = bl / 64 + 1 -> bl mod 64 = 0 -> bl < rlen b ->
  raw_resize b bl false = Ok (mkraw bl (firstn (N.to_nat (bl / 64)) (rdata b))).
Proof.
  intros Hlen Hmod Hr. unfold raw_resize. replace (rlen b <? bl) with false by lia. cbn [bind].
  unfold set_unused_bits. cbn [rlen rdata]. rewrite split_offset_spec, Hmod.
  change (0 <? 0) with false. cbv iota. f_equal. f_equal.
  unfold vec_resize. rewrite w12_btw. replace ((bl + 63) / 64) with (bl / 64) by lia.
  replace (N.to_nat (bl / 64) - length (rdata b))%nat with 0%nat by (unfold lenN in Hlen; lia).
  cbn [repeatN]. apply app_nil_r.
Qed.

Lemma w12_overflow_push x n : 1 <= n <= 64 -> x < 2 ^ n -> raw_push_int raw_new x n = Ok (mkraw n [x]).
Proof.
  intros Hn Hx. unfold raw_push_int, raw_new. cbn [rlen rdata]. replace (n =? 0) with false by lia.
  change (words_to_bits (lenN (@nil N))) with 0. replace (0 <? 0 + n) with true by lia. cbn [app].
  unfold write_int. rewrite low_set_ok by lia. cbn [bind]. rewrite split_offset_spec.
  change (0 / 64) with 0. change (0 mod 64) with 0. change bits_WORD_BITS with 64.
  replace (0 + n <=? 64) with true by lia.
  rewrite high_set_unchecked_ok by lia. cbn [bind]. rewrite low_set_unchecked_ok by lia. cbn [bind].
  change (idx [0] 0) with (Ok (A := N) 0). cbn [bind].
  change (upd [0] 0 ?v) with (Ok [v]). cbn [bind].
  rewrite N.land_0_l, N.lor_0_l, N.shiftl_0_r, N.land_ones, (N.mod_small x) by assumption.
  unfold wrap. rewrite N.mod_small.
  - rewrite N.add_0_l. reflexivity.
  - apply N.lt_le_trans with (2 ^ n); [assumption|]. apply N.pow_le_mono_r; lia.
Qed.

Lemma w12_raw_inv_single x n : 1 <= n < 64 -> x < 2 ^ n -> raw_inv (mkraw n [x]).
Proof.
  intros Hn Hx. unfold raw_inv. cbn [rlen rdata].
  assert (Hx64 : x < 2 ^ 64).
  { apply N.lt_le_trans with (2 ^ n); [assumption|]. apply N.pow_le_mono_r; lia. }
  split; [constructor; [assumption|constructor]|]. split.
  - rewrite w12_btw. change (lenN [x]) with 1. lia.
  - intros p Hp. unfold bit, getw. cbn [nthN]. destruct (N.eqb_spec (p / 64) 0) as [E|E].
    + destruct (N.eq_dec x 0) as [->|Hnz]; [apply N.bits_0|].
      apply N.bits_above_log2. apply N.log2_lt_pow2 in Hx; lia.
    + destruct (p / 64 - 1 =? 0); apply N.bits_0.
Qed.

(* ---- the writer invariant ---- *)

Record sync (hd F : list N) (w : writer) : Prop := mksync {
  sy_pos : wpos w = Some (lenN hd + lenN F);
  sy_disk : wdisk w = hd ++ F;
  sy_inv : raw_inv (wbuf w);
  sy_lt : rlen (wbuf w) < wbuf_len w;
  sy_mod : wbuf_len w mod 64 = 0;
  sy_len : wlen w = 64 * lenN F + rlen (wbuf w) }.

Lemma w12_flush_safe hd F w :
  wpos w = Some (lenN hd + lenN F) -> wdisk w = hd ++ F -> raw_inv (wbuf w) ->
  wbuf_len w mod 64 = 0 -> wbuf_len w <= rlen (wbuf w) < wbuf_len w + 64 -> 0 < wbuf_len w ->
  exists F' b',
    w_flush true w = Ok (mkw (wlen w) (wbuf_len w) b' (Some (lenN hd + lenN F')) (hd ++ F')) /\
    raw_inv b' /\ rlen b' < wbuf_len w /\ lift F' b' = lift F (wbuf w).
Proof.
  intros Hpos Hdisk Hinv Hmod Hr Hbl. unfold w_flush. rewrite Hpos. cbn [andb].
  pose proof Hinv as (Hwf & Hlen & Hz). rewrite w12_btw in Hlen.
  assert (Hend : lenN hd + lenN F = lenN (wdisk w)) by (rewrite Hdisk, w12_lenN_app; reflexivity).
  destruct (N.ltb_spec (wbuf_len w) (rlen (wbuf w))) as [Hov|Hno].
  - assert (Hr' : wbuf_len w < rlen (wbuf w) < wbuf_len w + 64) by lia.
    assert (Hl1 : lenN (rdata (wbuf w)) = wbuf_len w / 64 + 1) by lia.
    rewrite (w12_overflow_int _ _ Hinv Hmod Hr'). cbn [bind].
    rewrite (w12_overflow_resize _ _ Hl1 Hmod Hov). cbn [bind fst snd rdata].
    rewrite Hend, w12_file_write_end. unfold raw_clear.
    replace (0 <? rlen (wbuf w) - wbuf_len w) with true by lia.
    pose proof (w12_last_word_small _ _ Hinv Hmod Hr') as Hsm.
    rewrite w12_overflow_push by (assumption || lia). cbn [bind].
    exists (F ++ firstn (N.to_nat (wbuf_len w / 64)) (rdata (wbuf w))). eexists.
    split; [|split; [|split]].
    + f_equal. f_equal; [|rewrite Hdisk, app_assoc; reflexivity].
      f_equal. rewrite <- Hend, !w12_lenN_app. lia.
    + apply w12_raw_inv_single; [lia|assumption].
    + cbn [rlen]. lia.
    + unfold lift. cbn [rlen rdata]. rewrite <- app_assoc, <- (w12_split_last _ _ Hl1). f_equal.
      rewrite w12_lenN_app. unfold lenN at 2. rewrite firstn_length_le by (unfold lenN in Hl1; lia). lia.
  - assert (Heq : rlen (wbuf w) = wbuf_len w) by lia. cbn [bind fst snd].
    rewrite Hend, w12_file_write_end. change (0 <? 0) with false. cbn [bind]. unfold raw_clear.
    exists (F ++ rdata (wbuf w)), raw_new. split; [|split; [|split]].
    + f_equal. f_equal; [|rewrite Hdisk, app_assoc; reflexivity].
      f_equal. rewrite <- Hend, !w12_lenN_app. lia.
    + apply w12_raw_inv_new.
    + cbn [rlen raw_new]. assumption.
    + unfold lift, raw_new. cbn [rlen rdata]. rewrite app_nil_r. f_equal.
      rewrite w12_lenN_app. lia.
Qed.

Definition op_ok (o : wop) : Prop := match o with PBit _ => True | PInt _ width => width <= 64 end.

Lemma w12_after_push hd F w b' k :
  sync hd F w -> raw_inv b' -> rlen b' = rlen (wbuf w) + k -> 1 <= k <= 64 ->
  exists F' w',
    (let w1 := mkw (wlen w + k) (wbuf_len w) b' (wpos w) (wdisk w) in
     if wbuf_len w1 <=? rlen (wbuf w1) then w_flush true w1 else Ok w1) = Ok w' /\
    sync hd F' w' /\ lift F' (wbuf w') = lift F b' /\ wbuf_len w' = wbuf_len w /\ wlen w' = wlen w + k.
Proof.
  intros [Hpos Hdisk Hinv Hlt Hmod Hlen] Hinv' Hl' Hk. cbn [wbuf_len wbuf].
  destruct (N.leb_spec (wbuf_len w) (rlen b')) as [Hfl|Hnf].
  - destruct (w12_flush_safe hd F (mkw (wlen w + k) (wbuf_len w) b' (wpos w) (wdisk w)))
      as (F' & b'' & Hfl' & Hinv'' & Hlt'' & Hlift); cbn [wpos wdisk wbuf wbuf_len wlen]; try assumption; try lia.
    cbn [wlen wbuf_len wbuf] in Hfl', Hlt'', Hlift. exists F'. eexists. split; [exact Hfl'|]. cbn [wbuf wbuf_len wlen].
    split; [|split; [exact Hlift|split; reflexivity]].
    constructor; cbn [wpos wdisk wbuf wbuf_len wlen]; try assumption; try reflexivity.
    pose proof (f_equal rlen Hlift) as Hrl. unfold lift in Hrl. cbn [rlen] in Hrl. lia.
  - exists F. eexists. split; [reflexivity|]. cbn [wbuf wbuf_len wlen].
    split; [|split; [reflexivity|split; reflexivity]].
    constructor; cbn [wpos wdisk wbuf wbuf_len wlen]; try assumption; lia.
Qed.

Lemma w12_step hd F w o : sync hd F w -> op_ok o ->
  exists F' w', w_step w o = Ok w' /\ sync hd F' w' /\
    mem_step (lift F (wbuf w)) o = Ok (lift F' (wbuf w')) /\
    wbuf_len w' = wbuf_len w /\ wlen w' = wlen w + op_bits o.
Proof.
  intros Hs Hok. rewrite w12_mem_step_shift. destruct o as [b|v width]; cbn [w_step mem_step op_bits].
  - unfold w_push_bit. destruct (w12_push_bit_inv (wbuf w) b (sy_inv _ _ _ Hs)) as (b' & Hp & Hinv' & Hl').
    rewrite Hp. cbn [bind rmap].
    destruct (w12_after_push hd F w b' 1 Hs Hinv' Hl') as (F' & w' & H1 & H2 & H3 & H4 & H5); [lia|].
    exists F', w'. split; [exact H1|]. split; [exact H2|]. split; [rewrite H3; reflexivity|]. split; assumption.
  - unfold w_push_int. cbn [op_ok] in Hok. destruct (N.eqb_spec width 0) as [->|Hnz].
    + exists F, w. split; [reflexivity|]. split; [exact Hs|].
      split; [reflexivity|]. split; [reflexivity|lia].
    + destruct (w12_push_int_inv (wbuf w) v width (sy_inv _ _ _ Hs)) as (b' & Hp & Hinv' & Hl' & _); [lia|].
      rewrite Hp. cbn [bind rmap].
      destruct (w12_after_push hd F w b' width Hs Hinv' Hl') as (F' & w' & H1 & H2 & H3 & H4 & H5); [lia|].
      exists F', w'. split; [exact H1|]. split; [exact H2|]. split; [rewrite H3; reflexivity|]. split; assumption.
Qed.

Lemma w12_run hd ops : forall F w, sync hd F w -> Forall op_ok ops ->
  exists F' w', w_run w ops = Ok w' /\ sync hd F' w' /\
    mem_run (lift F (wbuf w)) ops = Ok (lift F' (wbuf w')) /\
    wbuf_len w' = wbuf_len w /\ wlen w' = wlen w + ops_bits ops.
Proof.
  induction ops as [|o t IH]; intros F w Hs Hok.
  - exists F, w. cbn [w_run mem_run]. split; [reflexivity|]. split; [exact Hs|]. split; [reflexivity|].
    split; [reflexivity|]. change (ops_bits []) with 0. lia.
  - inversion Hok as [|? ? Ho Ht]; subst.
    destruct (w12_step hd F w o Hs Ho) as (F1 & w1 & E1 & Hs1 & M1 & B1 & L1).
    destruct (IH F1 w1 Hs1 Ht) as (F2 & w2 & E2 & Hs2 & M2 & B2 & L2).
    exists F2, w2. cbn [w_run mem_run]. rewrite E1, M1. cbn [bind].
    split; [exact E2|]. split; [exact Hs2|]. split; [exact M2|]. split; [congruence|].
    change (ops_bits (o :: t)) with (op_bits o + ops_bits t). lia.
Qed.

(* ---- creation and close ---- *)

Lemma w12_create_sync bl h0 : bl mod 64 = 0 -> 0 < bl ->
  sync (h0 ++ [0; 0]) [] (w_create bl h0) /\ wbuf (w_create bl h0) = raw_new /\
  wlen (w_create bl h0) = 0 /\ wbuf_len (w_create bl h0) = bl.
Proof.
  intros Hmod Hbl. unfold w_create, w_write_header, raw_with_capacity. cbn [wpos wlen wdisk wbuf wbuf_len].
  change (bits_to_words 0) with 0.
  pose proof (w12_file_write_end [] (h0 ++ [0; 0])) as Hfw. change (lenN (@nil N)) with 0 in Hfw.
  rewrite Hfw. cbn [fst app wbuf wlen wbuf_len]. split; [|repeat split].
  constructor; cbn [wpos wdisk wbuf wbuf_len wlen rlen raw_new].
  - f_equal. change (lenN (@nil N)) with 0. lia.
  - rewrite app_nil_r. reflexivity.
  - apply w12_raw_inv_new.
  - assumption.
  - assumption.
  - reflexivity.
Qed.

Lemma w12_close h0 a b F w h1 : sync (h0 ++ [a; b]) F w -> length h1 = length h0 ->
  exists w', w_close_with_header w h1 = Ok w' /\ wpos w' = None /\
    wdisk w' = h1 ++ raw_serialize (lift F (wbuf w)) /\ wlen w' = wlen w /\ wbuf_len w' = wbuf_len w.
Proof.
  intros [Hpos Hdisk Hinv Hlt Hmod Hlen] Hh. unfold w_close_with_header, w_is_open. rewrite Hpos.
  unfold w_flush. rewrite Hpos. cbn [andb bind fst snd].
  assert (Hend : lenN (h0 ++ [a; b]) + lenN F = lenN (wdisk w)) by (rewrite Hdisk; symmetry; apply w12_lenN_app).
  rewrite Hend, w12_file_write_end. cbn [bind]. unfold w_write_header. cbn [wpos wlen wdisk wbuf wbuf_len].
  rewrite Hdisk, <- app_assoc.
  rewrite w12_file_write_start by (rewrite !app_length, Hh; reflexivity).
  eexists. split; [reflexivity|]. cbn [wpos wdisk wlen wbuf_len]. split; [reflexivity|]. split; [|split; reflexivity].
  rewrite <- app_assoc. f_equal. unfold raw_serialize, lift. cbn [rlen rdata app].
  destruct Hinv as (_ & Hl & _). rewrite w12_btw in Hl.
  f_equal; [assumption|]. f_equal. rewrite w12_btw, w12_lenN_app, Hl, Hlen. lia.
Qed.

(* the buffer size a successful creation ends up with: a positive multiple of 64, in both build modes
   (with overflow checks off the rounding may wrap, the result is still a multiple of 64) *)
Lemma w12_round_up_mod m n r : f_round_up_to_word_bits m n = Ok r -> r mod 64 = 0.
Proof.
  unfold f_round_up_to_word_bits, f_bits_to_words, f_words_to_bits, uadd, usub, umul, udiv.
  change bits_WORD_BITS with 64. cbn [bind]. change (1 <=? 64) with true. cbn [bind].
  change (64 =? 0) with false.
  destruct (n + (64 - 1) <? 2 ^ 64); destruct m; cbn [bind]; try discriminate;
    match goal with |- context [?x * 64 <? 2 ^ 64] => destruct (x * 64 <? 2 ^ 64) end;
    try discriminate; intros [= <-]; lia.
Qed.

Lemma w12_with_buf_len_shape m h0 n w0 : w_with_buf_len m h0 n = Ok w0 ->
  exists bl, w0 = w_create bl h0 /\ bl mod 64 = 0 /\ 64 <= bl.
Proof.
  unfold w_with_buf_len. destruct (f_round_up_to_word_bits m n) as [r|k|s] eqn:E; cbn [bind]; try discriminate.
  apply w12_round_up_mod in E. change bits_WORD_BITS with 64.
  destruct (uadd m (N.max r 64) 64) as [c|k|s]; cbn [bind]; try discriminate.
  intros [= <-]. exists (N.max r 64). split; [reflexivity|]. lia.
Qed.

Lemma w12_with_buf_len_ok m h0 n : n + 127 < 2 ^ 64 -> exists w0, w_with_buf_len m h0 n = Ok w0.
Proof.
  intros H. unfold w_with_buf_len.
  destruct (round_up_to_word_bits_spec m n) as (r & E & Hr & _); [lia|]. rewrite E. cbn [bind].
  change bits_WORD_BITS with 64. unfold uadd. replace (N.max r 64 + 64 <? 2 ^ 64) with true by lia.
  cbn [bind]. eexists. reflexivity.
Qed.

(* ---- the raw writer: every mix of pushes, every buffer size ---- *)

Definition raw_exact (w0 : writer) (h1 : list N) (ops : list wop) : Prop :=
  exists r w1 w2,
    mem_run raw_new ops = Ok r /\ w_run w0 ops = Ok w1 /\ w_close_with_header w1 h1 = Ok w2 /\
    wdisk w2 = h1 ++ raw_serialize r /\ w_is_open w2 = false /\
    wlen w1 = ops_bits ops /\ wlen w2 = ops_bits ops /\ rlen r = ops_bits ops.

Lemma w12_exact_create bl h0 h1 ops :
  bl mod 64 = 0 -> 0 < bl -> length h1 = length h0 -> Forall op_ok ops ->
  raw_exact (w_create bl h0) h1 ops.
Proof.
  intros Hmod Hbl Hh Hok.
  destruct (w12_create_sync bl h0 Hmod Hbl) as (Hs & Hb & Hl & _).
  destruct (w12_run _ ops [] _ Hs Hok) as (F & w1 & Er & Hs1 & Em & _ & Hl1).
  rewrite Hb in Em. change (lift [] raw_new) with raw_new in Em.
  destruct (w12_close h0 0 0 F w1 h1 Hs1 Hh) as (w2 & Ec & Hp2 & Hd2 & Hl2 & _).
  exists (lift F (wbuf w1)), w1, w2.
  split; [exact Em|]. split; [exact Er|]. split; [exact Ec|]. split; [exact Hd2|].
  split; [unfold w_is_open; rewrite Hp2; reflexivity|].
  pose proof (sy_len _ _ _ Hs1) as Hsl. unfold lift. cbn [rlen]. lia.
Qed.

Theorem w12_writer_exact_raw m h0 h1 buf_len w0 ops :
  w_with_buf_len m h0 buf_len = Ok w0 -> length h1 = length h0 -> Forall op_ok ops ->
  raw_exact w0 h1 ops.
Proof.
  intros Hc Hh Hok. destruct (w12_with_buf_len_shape _ _ _ _ Hc) as (bl & -> & Hmod & Hbl).
  apply w12_exact_create; (assumption || lia).
Qed.

Theorem w12_writer_exact_raw_new h0 h1 ops :
  length h1 = length h0 -> Forall op_ok ops -> raw_exact (w_new h0) h1 ops.
Proof. intros Hh Hok. apply w12_exact_create; (assumption || reflexivity). Qed.

(* ---- the integer writer ---- *)

Definition int_ops (width : N) (xs : list N) : list wop := map (fun x => PInt x width) xs.

Lemma w12_int_ops_ok width xs : width <= 64 -> Forall op_ok (int_ops width xs).
Proof. intros H. unfold int_ops. apply Forall_forall. intros o Ho. apply in_map_iff in Ho. destruct Ho as (x & <- & _). exact H. Qed.

Lemma w12_int_ops_bits width xs : ops_bits (int_ops width xs) = lenN xs * width.
Proof.
  induction xs as [|x t IH]; [reflexivity|].
  change (ops_bits (int_ops width (x :: t))) with (width + ops_bits (int_ops width t)).
  rewrite IH, w12_lenN_cons. lia.
Qed.

Lemma w12_iv_push_all xs : forall v,
  iv_push_all v xs =
  rmap (fun d => mkiv (ilen v + lenN xs) (iwidth v) d) (mem_run (idata v) (int_ops (iwidth v) xs)).
Proof.
  induction xs as [|x t IH]; intros v.
  - cbn [iv_push_all int_ops map mem_run rmap bind]. destruct v as [l wd d]. cbn [ilen iwidth idata].
    change (lenN (@nil N)) with 0. rewrite N.add_0_r. reflexivity.
  - cbn [iv_push_all int_ops map mem_run mem_step]. unfold iv_push.
    destruct (raw_push_int (idata v) x (iwidth v)) as [d|k|s]; cbn [bind rmap]; try reflexivity.
    rewrite IH. cbn [ilen iwidth idata]. rewrite w12_lenN_cons. unfold rmap, int_ops.
    replace (ilen v + 1 + lenN t) with (ilen v + (lenN t + 1)) by lia. reflexivity.
Qed.

Lemma w12_iw_extend xs : forall iw,
  iw_extend iw xs =
  rmap (fun w => mkiw (iwlen iw + lenN xs) (iwwidth iw) w) (w_run (iww iw) (int_ops (iwwidth iw) xs)).
Proof.
  induction xs as [|x t IH]; intros iw.
  - cbn [iw_extend int_ops map w_run rmap bind]. destruct iw as [l wd w]. cbn [iwlen iwwidth iww].
    change (lenN (@nil N)) with 0. rewrite N.add_0_r. reflexivity.
  - cbn [iw_extend int_ops map w_run w_step]. unfold iw_push.
    destruct (w_push_int (iww iw) x (iwwidth iw)) as [w|k|s]; cbn [bind rmap]; try reflexivity.
    rewrite IH. cbn [iwlen iwwidth iww]. rewrite w12_lenN_cons. unfold rmap, int_ops.
    replace (iwlen iw + 1 + lenN t) with (iwlen iw + (lenN t + 1)) by lia. reflexivity.
Qed.

Definition int_exact (width : N) (iw0 : iwriter) (xs : list N) : Prop :=
  exists v0 v iw1 iw2,
    iv_new width = Some v0 /\ iv_push_all v0 xs = Ok v /\
    iw_extend iw0 xs = Ok iw1 /\ iw_close iw1 = Ok iw2 /\
    wdisk (iww iw2) = iv_serialize v /\ w_is_open (iww iw2) = false /\
    iwlen iw1 = lenN xs /\ iwlen iw2 = lenN xs /\ ilen v = lenN xs /\
    wlen (iww iw2) = lenN xs * width.

Lemma w12_width_ok width : ((width =? 0) || (bits_WORD_BITS <? width)) = false <-> 1 <= width <= 64.
Proof. change bits_WORD_BITS with 64. lia. Qed.

Lemma w12_exact_int_of_raw width w0 xs :
  1 <= width <= 64 -> raw_exact w0 [lenN xs; width] (int_ops width xs) ->
  int_exact width (mkiw 0 width w0) xs.
Proof.
  intros Hw (r & w1 & w2 & Em & Er & Ec & Hd & Ho & Hl1 & Hl2 & Hlr).
  unfold int_exact, iv_new, width_ok. apply w12_width_ok in Hw. rewrite Hw. cbn [negb].
  eexists. eexists. eexists. eexists. split; [reflexivity|].
  rewrite w12_iv_push_all, w12_iw_extend. cbn [ilen iwidth idata iwlen iwwidth iww].
  rewrite Em, Er. cbn [rmap bind]. split; [reflexivity|]. split; [reflexivity|].
  unfold iw_close. cbn [iwlen iwwidth iww]. rewrite N.add_0_l, Ec. cbn [bind].
  split; [reflexivity|]. cbn [iwlen iwwidth iww]. rewrite Hd. unfold iv_serialize. cbn [ilen iwidth idata app].
  repeat split; try assumption; try reflexivity.
  rewrite Hl2. apply w12_int_ops_bits.
Qed.

Theorem w12_writer_exact_int m width buf_len iw0 xs :
  iw_with_buf_len m width buf_len = Some (Ok iw0) -> int_exact width iw0 xs.
Proof.
  unfold iw_with_buf_len. destruct ((width =? 0) || (bits_WORD_BITS <? width)) eqn:Ew; [discriminate|].
  apply w12_width_ok in Ew. intros [= H].
  destruct (umul m buf_len width) as [bits|k|s]; cbn [bind] in H; try discriminate.
  destruct (w_with_buf_len m [0; 0] bits) as [w0|k|s] eqn:Ec; cbn [bind] in H; try discriminate.
  injection H as <-. apply w12_exact_int_of_raw; [assumption|].
  eapply w12_writer_exact_raw; [exact Ec|reflexivity|apply w12_int_ops_ok; lia].
Qed.

Theorem w12_writer_exact_int_new width iw0 xs : iw_new width = Some iw0 -> int_exact width iw0 xs.
Proof.
  unfold iw_new. destruct ((width =? 0) || (bits_WORD_BITS <? width)) eqn:Ew; [discriminate|].
  apply w12_width_ok in Ew. intros [= <-]. apply w12_exact_int_of_raw; [assumption|].
  apply w12_writer_exact_raw_new; [reflexivity|apply w12_int_ops_ok; lia].
Qed.

(* creation succeeds on every buffer size that does not overflow the rounding (any size with overflow checks off
   as far as the arithmetic goes; memory for the buffer is outside the model) *)
Theorem w12_iw_with_buf_len_ok m width buf_len :
  1 <= width <= 64 -> buf_len * width + 127 < 2 ^ 64 ->
  exists iw0, iw_with_buf_len m width buf_len = Some (Ok iw0).
Proof.
  intros Hw Hb. unfold iw_with_buf_len. apply w12_width_ok in Hw. rewrite Hw.
  unfold umul. replace (buf_len * width <? 2 ^ 64) with true by lia. cbn [bind].
  destruct (w12_with_buf_len_ok m [0; 0] (buf_len * width) Hb) as (w0 & ->). cbn [bind].
  eexists. reflexivity.
Qed.

Theorem w12_with_buf_len_release h0 n : exists w0, w_with_buf_len Release h0 n = Ok w0.
Proof.
  unfold w_with_buf_len, f_round_up_to_word_bits, f_bits_to_words, f_words_to_bits, uadd, usub, umul, udiv.
  change bits_WORD_BITS with 64. cbn [bind]. change (1 <=? 64) with true. cbn [bind]. change (64 =? 0) with false.
  destruct (n + (64 - 1) <? 2 ^ 64); cbn [bind];
    match goal with |- context [?x * 64 <? 2 ^ 64] => destruct (x * 64 <? 2 ^ 64) end; cbn [bind];
    match goal with |- context [?x + 64 <? 2 ^ 64] => destruct (x + 64 <? 2 ^ 64) end; cbn [bind];
    eexists; reflexivity.
Qed.

(* ---- close is idempotent; drop ---- *)

Lemma w12_close_closed w h : w_is_open w = false -> w_close_with_header w h = Ok w.
Proof. intros H. unfold w_close_with_header. rewrite H. reflexivity. Qed.

Lemma w12_close_result_closed w h w' : w_close_with_header w h = Ok w' -> w_is_open w' = false.
Proof.
  unfold w_close_with_header. destruct (w_is_open w) eqn:E.
  - destruct (w_flush false w) as [w1|k|s]; cbn [bind]; try discriminate.
    destruct (w_write_header w1 h) as [w2 hh]. intros [= <-]. reflexivity.
  - intros [= <-]. exact E.
Qed.

Theorem w12_close_idempotent w h h' w' :
  w_close_with_header w h = Ok w' -> w_close_with_header w' h' = Ok w'.
Proof. intros H. apply w12_close_closed. eapply w12_close_result_closed. exact H. Qed.

Theorem w12_iw_close_idempotent iw iw' : iw_close iw = Ok iw' -> iw_close iw' = Ok iw'.
Proof.
  unfold iw_close. destruct (w_close_with_header (iww iw) _) as [w|k|s] eqn:E; cbn [bind]; try discriminate.
  intros [= <-]. cbn [iwlen iwwidth iww]. rewrite (w12_close_idempotent _ _ _ _ E). reflexivity.
Qed.

Theorem w12_drop_closed w : w_is_open w = false -> w_drop w = Ok w.
Proof. intros H. apply w12_close_closed. exact H. Qed.

(* dropping an IntVectorWriter runs its own close and then the Drop of the inner RawVectorWriter
   (a close with an EMPTY parent header, which would overwrite the start of the file if it ran): it never runs *)
Theorem w12_iw_drop_is_close iw : iw_drop iw = iw_close iw.
Proof.
  unfold iw_drop. destruct (iw_close iw) as [iw1|k|s] eqn:E; cbn [bind]; try reflexivity.
  unfold iw_close in E.
  destruct (w_close_with_header (iww iw) _) as [w|k|s] eqn:Ec; cbn [bind] in E; try discriminate.
  injection E as <-. cbn [iwlen iwwidth iww].
  rewrite (w12_drop_closed w (w12_close_result_closed _ _ _ Ec)). reflexivity.
Qed.

(* pushes into a closed writer never reach the file *)
Lemma w12_flush_closed safe w : wpos w = None -> w_flush safe w = Ok w.
Proof. intros H. unfold w_flush. rewrite H. reflexivity. Qed.

Theorem w12_closed_push w o w' : w_is_open w = false -> w_step w o = Ok w' ->
  wdisk w' = wdisk w /\ w_is_open w' = false /\ wlen w' = wlen w + op_bits o.
Proof.
  intros Hc. assert (Hp : wpos w = None) by (unfold w_is_open in Hc; destruct (wpos w); [discriminate|reflexivity]).
  destruct o as [b|v width]; cbn [w_step op_bits].
  - unfold w_push_bit. destruct (raw_push_bit (wbuf w) b) as [b'|k|s]; cbn [bind]; try discriminate.
    cbn [wbuf_len wbuf]. destruct (_ <=? _).
    + rewrite w12_flush_closed by exact Hp. intros [= <-]. cbn [wdisk wlen]. unfold w_is_open. cbn [wpos]. rewrite Hp. auto.
    + intros [= <-]. cbn [wdisk wlen]. unfold w_is_open. cbn [wpos]. rewrite Hp. auto.
  - unfold w_push_int. destruct (N.eqb_spec width 0) as [->|Hnz].
    + intros [= <-]. rewrite N.add_0_r. auto.
    + destruct (raw_push_int (wbuf w) v width) as [b'|k|s]; cbn [bind]; try discriminate.
      cbn [wbuf_len wbuf]. destruct (_ <=? _).
      * rewrite w12_flush_closed by exact Hp. intros [= <-]. cbn [wdisk wlen]. unfold w_is_open. cbn [wpos]. rewrite Hp. auto.
      * intros [= <-]. cbn [wdisk wlen]. unfold w_is_open. cbn [wpos]. rewrite Hp. auto.
Qed.

(* the side condition on pushes in the form the property theorems state it *)
Lemma w12_ops_ok_of_in ops : (forall v width, In (PInt v width) ops -> width <= 64) -> Forall op_ok ops.
Proof.
  intros H. apply Forall_forall. intros o Ho. destruct o as [b|v width]; cbn [op_ok]; [exact I|].
  exact (H v width Ho).
Qed.

Theorem w12_len_counts_raw m h0 buf_len w0 ops :
  w_with_buf_len m h0 buf_len = Ok w0 -> (forall v width, In (PInt v width) ops -> width <= 64) ->
  exists w1, w_run w0 ops = Ok w1 /\ wlen w1 = ops_bits ops.
Proof.
  intros Hc Hok.
  destruct (w12_writer_exact_raw m h0 h0 buf_len w0 ops Hc eq_refl (w12_ops_ok_of_in _ Hok))
    as (r & w1 & w2 & _ & Er & _ & _ & _ & Hl & _).
  exists w1. split; assumption.
Qed.

Theorem w12_len_counts_int m width buf_len iw0 xs :
  iw_with_buf_len m width buf_len = Some (Ok iw0) ->
  exists iw1, iw_extend iw0 xs = Ok iw1 /\ iwlen iw1 = lenN xs.
Proof.
  intros Hc. destruct (w12_writer_exact_int m width buf_len iw0 xs Hc)
    as (v0 & v & iw1 & iw2 & _ & _ & Ee & _ & _ & _ & Hl & _).
  exists iw1. split; assumption.
Qed.

(* dropping the open writer after the pushes leaves the complete file *)
Theorem w12_drop_exact_raw m buf_len w0 ops :
  w_with_buf_len m [] buf_len = Ok w0 -> (forall v width, In (PInt v width) ops -> width <= 64) ->
  exists r w1 w2, mem_run raw_new ops = Ok r /\ w_run w0 ops = Ok w1 /\ w_drop w1 = Ok w2 /\
    wdisk w2 = raw_serialize r /\ w_is_open w2 = false.
Proof.
  intros Hc Hok.
  destruct (w12_writer_exact_raw m [] [] buf_len w0 ops Hc eq_refl (w12_ops_ok_of_in _ Hok))
    as (r & w1 & w2 & Em & Er & Ec & Hd & Ho & _).
  exists r, w1, w2. repeat split; assumption.
Qed.

Theorem w12_drop_exact_int m width buf_len iw0 xs :
  iw_with_buf_len m width buf_len = Some (Ok iw0) ->
  exists v0 v iw1 iw2, iv_new width = Some v0 /\ iv_push_all v0 xs = Ok v /\
    iw_extend iw0 xs = Ok iw1 /\ iw_drop iw1 = Ok iw2 /\
    wdisk (iww iw2) = iv_serialize v /\ w_is_open (iww iw2) = false.
Proof.
  intros Hc. destruct (w12_writer_exact_int m width buf_len iw0 xs Hc)
    as (v0 & v & iw1 & iw2 & H0 & Hv & He & Hcl & Hd & Ho & _).
  exists v0, v, iw1, iw2. rewrite w12_iw_drop_is_close. repeat split; assumption.
Qed.
