(* The sparse vector end to end: construction (Proofs/SparseBuild.v) followed by the queries
   (Proofs/SparseProof.v), for sets (C02) and multisets (C15). *)
From Coq Require Import NArith List Lia ZArith Bool.
Require Import SDS.Model.Mach SDS.Model.Bits SDS.Model.Raw SDS.Model.IntVec SDS.Model.BitVec SDS.Model.Sparse.
Require Import SDS.Spec.BitSeq SDS.Spec.ValSeq SDS.Proofs.BitsProof SDS.Proofs.BVCommon SDS.Proofs.SparseSeq.
Require Import SDS.Proofs.SparseProof SDS.Proofs.SparseBuild SDS.Proofs.SparseLow SDS.Proofs.SparseIter SDS.Proofs.SparseZero SDS.gen.Consts.
Import ListNotations.
Open Scope N_scope.
Require Import ZifyBool ZifyN ZifyNat.

(* what every well-formed vector answers (sets and multisets alike) *)
Definition present_queries_ok (sp : selpath) (md : mode) (sv : sparse) (n : N) (Vs : list N) : Prop :=
  sv_len sv = n /\ sv_count_ones sv = lenN Vs /\ sv_count_zeros sv = n - lenN Vs /\
  (forall i, i < n -> sv_get sp md sv i = Ok (vs_get Vs i)) /\
  (forall i, sv_rank sp md sv i = Ok (vs_rank Vs i)) /\
  (forall r, sv_select sp md sv r = Ok (vs_select Vs r)) /\
  (forall v, it_first md sv (sv_predecessor sp md sv v) = Ok (hd_error (vs_pred Vs v))) /\
  (forall v, it_first md sv (sv_successor sp md sv v) = Ok (hd_error (vs_succ Vs v))) /\
  sv_is_multiset md sv = Ok (has_dup Vs).

Lemma sv_ok_present sp md sv n w Vs H : sv_ok sp md sv n w Vs H -> present_queries_ok sp md sv n Vs.
Proof.
  intros Hok. unfold present_queries_ok.
  split; [apply Hok|]. split; [apply (q_ones sp md sv n w Vs H Hok)|]. split.
  - unfold sv_count_zeros. rewrite (q_ones sp md sv n w Vs H Hok).
    replace (sv_len sv) with n by (symmetry; apply Hok). destruct (N.leb_spec n (lenN Vs)); lia.
  - split; [intros i Hi; apply (q_get_ok sp md sv n w Vs H Hok i Hi)|].
    split; [intros i; apply (q_rank_ok sp md sv n w Vs H Hok i)|].
    split; [intros r; apply (q_select sp md sv n w Vs H Hok r)|].
    split; [intros v; apply (q_predecessor_first sp md sv n w Vs H Hok v)|].
    split; [intros v; apply (q_successor_first sp md sv n w Vs H Hok v)|].
    apply (q_is_multiset sp md sv n w Vs H Hok).
Qed.

(* the set-bit iterators (one_iter, and the iterators returned by successor / predecessor / select_iter) under ANY
   sequence of next() / next_back() calls yield what a double-ended iterator over the reference list yields *)
Definition iter_queries_ok (sp : selpath) (md : mode) (sv : sparse) (n : N) (Vs : list N) : Prop :=
  (forall pat, (let* s := sv_iter_new md sv in sbi_drive md sv pat s) = Ok (deque_run (vs_bits Vs n) pat)) /\
  (forall pat, it_drive md sv pat (sv_one_iter sv) = Ok (deque_run (vs_ranked Vs) pat)) /\
  (forall r pat, (let* it := sv_select_iter sp md sv r in it_drive md sv pat it) = Ok (deque_run (skipN (vs_ranked Vs) r) pat)) /\
  (forall v pat, (let* it := sv_predecessor sp md sv v in it_drive md sv pat it) = Ok (deque_run (vs_pred Vs v) pat)) /\
  (forall v pat, (let* it := sv_successor sp md sv v in it_drive md sv pat it) = Ok (deque_run (vs_succ Vs v) pat)).

Lemma sv_ok_iters sp md sv n w Vs H : sv_ok sp md sv n w Vs H -> iter_queries_ok sp md sv n Vs.
Proof.
  intros Hok. unfold iter_queries_ok.
  split; [intros pat; apply (q_bits_drive sp md sv n w Vs H Hok pat)|].
  split; [intros pat; apply (q_one_iter_drive sp md sv n w Vs H Hok pat)|].
  split; [intros r pat; apply (q_select_iter_drive sp md sv n w Vs H Hok r pat)|].
  split; [intros v pat; apply (q_predecessor_drive sp md sv n w Vs H Hok v pat)|].
  intros v pat; apply (q_successor_drive sp md sv n w Vs H Hok v pat).
Qed.

(* the high part is the unary bucket code *)
Definition high_code_ok (sp : selpath) (md : mode) (sv : sparse) (n w : N) (Vs : list N) (H : list bool) : Prop :=
  bv_select_ok sp md (sv_high sv) H /\
  lenB H = lenN Vs + (n + 2 ^ w - 1) / 2 ^ w /\
  (forall i, i < lenN Vs -> select1 H i = Some (nthd Vs i / 2 ^ w + i)) /\
  (forall b, b < (n + 2 ^ w - 1) / 2 ^ w -> select0 H b = Some (b + vs_rank Vs ((b + 1) * 2 ^ w))).

Lemma sv_ok_high sp md sv n w Vs H : sv_ok sp md sv n w Vs H -> high_code_ok sp md sv n w Vs H.
Proof.
  intros Hok. destruct Hok as [Hn [Hw [Hs [Hb [Hl [HH [Hhi Hlo]]]]]]]. unfold high_code_ok.
  split; [exact Hhi|]. split; [apply HH|].
  split; [intros i Hi; apply (H_select1 n w Vs H Hw Hs Hb HH i Hi)|].
  intros b Hb'. apply (H_select0 n w Vs H Hw Hs Hb HH b Hb').
Qed.

(* queries about unset bits, for sets *)
Definition zero_queries_ok (sp : selpath) (md : mode) (sv : sparse) (n : N) (P : list N) : Prop :=
  (forall i, sv_rank_zero sp md sv i = Ok (i - vs_rank P i)) /\
  (forall r, sv_select_zero sp md sv r = Ok (vs_select_zero P n r)) /\
  (forall k, (let* z := sv_zero_iter md sv in zi_take md sv k z) = Ok (vs_zeros_from P n 0 k)) /\
  (forall r k, (let* z := sv_select_zero_iter sp md sv r in zi_take md sv k z) = Ok (vs_zeros_from P n r k)) /\
  (forall r, n - lenN P <= r -> sv_select_zero sp md sv r = Ok None) /\
  (forall r, r < n - lenN P -> exists z, sv_select_zero sp md sv r = Ok (Some z) /\
     z < n /\ vs_get P z = false /\ vs_rank P z + r = z).

Lemma sv_ok_zero sp md sv n w P H : sv_ok sp md sv n w P H -> sorted_lt P -> zero_queries_ok sp md sv n P.
Proof.
  intros Hok Hs. unfold zero_queries_ok.
  split; [intros i; apply (q_rank_zero_ok sp md sv n w P H Hok i Hs)|].
  split; [intros r; apply (q_select_zero_exec sp md sv n w P H Hok Hs r)|].
  split.
  { intros k. destruct (zi_zero_iter_ok sp md sv n w P H Hok Hs) as [zi [Hz Hinv]]. rewrite Hz. cbn [bind].
    apply (zi_take_ok sp md sv n w P H Hok Hs k zi 0 0 0 Hinv). }
  split.
  { intros r k. destruct (N.lt_ge_cases r (n - lenN P)) as [Hr|Hr].
    - destruct (zi_select_zero_iter_ok sp md sv n w P H Hok Hs r Hr) as [zi [z [j [Hz Hinv]]]]. rewrite Hz. cbn [bind].
      apply (zi_take_ok sp md sv n w P H Hok Hs k zi r z j Hinv).
    - unfold sv_select_zero_iter. rewrite (q_count_zeros sp md sv n w P H Hok Hs).
      replace (n - lenN P <=? r) with true by lia. cbn [bind]. rewrite zi_empty_take.
      destruct k; [reflexivity|]. cbn [vs_zeros_from]. unfold vs_select_zero.
      rewrite (vs_select_zero_from_none P 0 n r Hs); [reflexivity|intros; lia|apply Hok|lia|lia]. }
  split; intros r Hr; destruct (q_select_zero_ok sp md sv n w P H Hok Hs r) as [H1 H2]; auto.
Qed.

Theorem sparse_set_exact sp md w' n P :
  high_contract sp md ->
  n < 2 ^ 64 -> 1 <= w' <= 63 -> increasing P = true -> all_below n P = true ->
  lenN P + buckets_of n (eff_width w' n (lenN P)) < 2 ^ 64 ->
  exists sv H,
    sv_build_set sp md w' n P = Ok (inl sv) /\
    high_code_ok sp md sv n (eff_width w' n (lenN P)) P H /\
    present_queries_ok sp md sv n P /\
    zero_queries_ok sp md sv n P /\
    iter_queries_ok sp md sv n P.
Proof.
  intros Hhc Hn Hw' Hinc Hbel Hfit.
  destruct low_contract_holds as [R [Rnew [Rset Rget]]].
  destruct (build_set_ok sp md Hhc R Rnew Rset Rget w' n P Hn Hw' Hinc Hbel Hfit) as [sv [H [Hb Hok]]].
  exists sv, H. split; [exact Hb|]. split; [apply sv_ok_high; exact Hok|].
  split; [apply (sv_ok_present _ _ _ _ _ _ _ Hok)|].
  split; [apply (sv_ok_zero _ _ _ _ _ _ _ Hok); apply increasing_sorted; exact Hinc|].
  apply (sv_ok_iters _ _ _ _ _ _ _ Hok).
Qed.

Theorem sparse_multiset_exact sp md w' n Vs :
  high_contract sp md ->
  n < 2 ^ 64 -> 1 <= w' <= 63 -> nondecreasing Vs = true -> all_below n Vs = true ->
  lenN Vs + buckets_of n (eff_width w' n (lenN Vs)) < 2 ^ 64 ->
  exists sv H,
    sv_build_multiset sp md w' n Vs = Ok (inl sv) /\
    high_code_ok sp md sv n (eff_width w' n (lenN Vs)) Vs H /\
    present_queries_ok sp md sv n Vs /\
    iter_queries_ok sp md sv n Vs.
Proof.
  intros Hhc Hn Hw' Hnd Hbel Hfit.
  destruct low_contract_holds as [R [Rnew [Rset Rget]]].
  destruct (build_multiset_ok sp md Hhc R Rnew Rset Rget w' n Vs Hn Hw' Hnd Hbel Hfit) as [sv [H [Hb Hok]]].
  exists sv, H. split; [exact Hb|]. split; [apply sv_ok_high; exact Hok|].
  split; [apply (sv_ok_present _ _ _ _ _ _ _ Hok)|apply (sv_ok_iters _ _ _ _ _ _ _ Hok)].
Qed.

Theorem sparse_try_from_iter_accepts sp md w' Vs :
  high_contract sp md ->
  1 <= w' <= 63 -> nondecreasing Vs = true ->
  (forall v, last_opt Vs = Some v -> v + 1 < 2 ^ 64) ->
  let n := match last_opt Vs with Some v => v + 1 | None => 0 end in
  lenN Vs + buckets_of n (eff_width w' n (lenN Vs)) < 2 ^ 64 ->
  exists sv, sv_try_from_iter sp md w' Vs = Ok (inl sv) /\ present_queries_ok sp md sv n Vs /\ iter_queries_ok sp md sv n Vs.
Proof.
  intros Hhc Hw' Hnd Hlast n Hfit.
  destruct low_contract_holds as [R [Rnew [Rset Rget]]].
  destruct (try_from_iter_ok sp md Hhc R Rnew Rset Rget w' Vs Hw' Hnd Hlast Hfit) as [sv [H [Hb Hok]]].
  exists sv. split; [exact Hb|]. split; [apply (sv_ok_present _ _ _ _ _ _ _ Hok)|apply (sv_ok_iters _ _ _ _ _ _ _ Hok)].
Qed.

Theorem sparse_try_from_iter_rejects sp md w' Vs :
  1 <= w' <= 63 -> nondecreasing Vs = false ->
  (forall v, last_opt Vs = Some v -> v + 1 < 2 ^ 64) ->
  let n := match last_opt Vs with Some v => v + 1 | None => 0 end in
  lenN Vs + buckets_of n (eff_width w' n (lenN Vs)) < 2 ^ 64 ->
  exists e, sv_try_from_iter sp md w' Vs = Ok (inr e).
Proof.
  intros Hw' Hnd Hlast n Hfit. destruct low_contract_holds as [R [Rnew [Rset Rget]]].
  apply (try_from_iter_rejects sp md R Rnew Rset Rget w' Vs Hw' Hnd Hlast Hfit).
Qed.
