(* The one-pass evaluation of the builder (Check/SparseFast.v) IS the builder of the model.

   For every mode, oracle width 1..63, universe below 2^64 and every value list the builder accepts (sorted -
   strictly for SparseBuilder::new - and inside the universe), [fast_builder] returns exactly the builder state
   that Model/Sparse.v reaches by SparseBuilder::new / multiset followed by try_set for every value: same
   universe, same low IntVector (length, width, words), same high RawVector (length, words), same len and
   increment; only b_next is reset, and TryFrom does not read it. Consequently [model_build_checked] returns the
   result of the pure model build on all four construction routes whenever its flag is true.

   Route of the proof: both sides are characterised bit by bit.
   - model: the builder invariant [b_inv] of Proofs/SparseBuild.v, instantiated with the canonical IntVector
     invariant of Proofs/IntVecProof.v, gives the items of low and the set positions of high;
   - one pass: accumulator invariants for [fl_go] / [fh_go] give the same bits;
   - equal bits + canonical form (exact word count, 64-bit words, nothing set beyond the length) = equal words. *)
From Coq Require Import NArith List Lia ZArith Bool.
Require Import SDS.Model.Mach SDS.Model.Bits SDS.Model.Raw SDS.Model.IntVec SDS.Model.BitVec SDS.Model.Sparse.
Require Import SDS.Spec.BitSeq SDS.Spec.SeqSpec SDS.Spec.ValSeq.
Require Import SDS.Proofs.BitsProof SDS.Proofs.RawProof SDS.Proofs.IntVecProof SDS.Proofs.BVCommon.
Require Import SDS.Proofs.SparseSeq SDS.Proofs.SparseProof SDS.Proofs.SparseBuild.
Require Import SDS.Check.SparseFast SDS.gen.Consts.
Import ListNotations.
Open Scope N_scope.
Require Import ZifyBool ZifyN ZifyNat.
Ltac Zify.zify_post_hook ::= Z.div_mod_to_equations.
Arguments N.add : simpl never. Arguments N.sub : simpl never. Arguments N.mul : simpl never.
Arguments N.eqb : simpl never. Arguments N.ltb : simpl never. Arguments N.leb : simpl never.
Arguments N.pow : simpl never. Arguments N.shiftl : simpl never. Arguments N.shiftr : simpl never.
Arguments N.land : simpl never. Arguments N.lor : simpl never. Arguments N.div : simpl never.
Arguments N.modulo : simpl never. Arguments N.ones : simpl never. Arguments N.testbit : simpl never.

(* ---------------------------------------------------------------- word lists *)

Lemma lenN_nil {A} : lenN (@nil A) = 0. Proof. reflexivity. Qed.
Lemma lenN_rev {A} (l : list A) : lenN (rev l) = lenN l.
Proof. unfold lenN. rewrite rev_length. reflexivity. Qed.
Lemma wf_rev a : wf a -> wf (rev a).
Proof. unfold wf. intros H. apply Forall_rev. exact H. Qed.
Lemma wf_cons x a : x < 2 ^ 64 -> wf a -> wf (x :: a).
Proof. intros Hx Ha. constructor; assumption. Qed.
Lemma wf_single x : x < 2 ^ 64 -> wf [x].
Proof. intros H. apply wf_cons; [exact H|apply wf_nil]. Qed.

(* two word lists with the same bits are equal *)
Lemma words_ext a b : lenN a = lenN b -> wf a -> wf b -> (forall p, bit a p = bit b p) -> a = b.
Proof.
  intros Hl Ha Hb H. apply list_ext_getw; [exact Hl|]. intros i. apply N.bits_inj. intros k.
  destruct (N.ltb_spec k 64) as [Hk|Hk].
  - specialize (H (64 * i + k)). unfold bit in H.
    replace ((64 * i + k) / 64) with i in H by lia. replace ((64 * i + k) mod 64) with k in H by lia. exact H.
  - rewrite !testbit_high; auto using getw_lt.
Qed.

Lemma bit_app a b p : bit (a ++ b) p = if p <? 64 * lenN a then bit a p else bit b (p - 64 * lenN a).
Proof.
  unfold bit. rewrite getw_app. destruct (N.ltb_spec (p / 64) (lenN a)) as [H|H].
  - replace (p <? 64 * lenN a) with true by lia. reflexivity.
  - replace (p <? 64 * lenN a) with false by lia. f_equal; [f_equal|]; lia.
Qed.

Lemma bit_nil p : bit [] p = false.
Proof. unfold bit. rewrite getw_nil. apply N.bits_0. Qed.

Lemma bit_single x p : bit [x] p = (p <? 64) && N.testbit x p.
Proof. rewrite bit_cons, bit_nil. destruct (p <? 64); reflexivity. Qed.

Lemma bit_repeat0 k p : bit (repeatN 0 k) p = false.
Proof. unfold bit. rewrite SparseBuild.getw_repeatN. apply N.bits_0. Qed.

Lemma testbit_above x n k : x < 2 ^ n -> n <= k -> N.testbit x k = false.
Proof.
  intros Hx Hk. rewrite <- (N.mod_small x (2 ^ n)) by exact Hx. apply N.mod_pow2_bits_high. exact Hk.
Qed.

(* ---------------------------------------------------------------- push_zeros, rev' *)

Lemma rev'_rev {A} (l : list A) : rev' l = rev l.
Proof. unfold rev'. symmetry. apply rev_alt. Qed.

Lemma rev_push_zeros k : forall acc, rev (push_zeros k acc) = rev acc ++ repeatN 0 k.
Proof.
  induction k as [|k IH]; intros acc; cbn [push_zeros repeatN]; [rewrite app_nil_r; reflexivity|].
  rewrite IH. cbn [rev]. rewrite <- app_assoc. reflexivity.
Qed.

Lemma lenN_push_zeros k : forall acc, lenN (push_zeros k acc) = N.of_nat k + lenN acc.
Proof.
  induction k as [|k IH]; intros acc; cbn [push_zeros]; [lia|]. rewrite IH, RawProof.lenN_cons. lia.
Qed.

Lemma wf_push_zeros k : forall acc, wf acc -> wf (push_zeros k acc).
Proof.
  induction k as [|k IH]; intros acc H; cbn [push_zeros]; [exact H|]. apply IH. apply wf_cons; [reflexivity|exact H].
Qed.

(* ================================================================ the low words *)

(* the bits spelled by the accumulator: the finished words, then the (possibly wider than 64 bits) current one *)
Definition xbit (done : list N) (cur p : N) : bool :=
  if p <? 64 * lenN done then bit (rev done) p else N.testbit cur (p - 64 * lenN done).

Lemma xbit_words done cur p : cur < 2 ^ 64 -> bit (rev done ++ [cur]) p = xbit done cur p.
Proof.
  intros Hc. unfold xbit. rewrite bit_app, lenN_rev. destruct (N.ltb_spec p (64 * lenN done)) as [H|H]; [reflexivity|].
  rewrite bit_single. destruct (N.ltb_spec (p - 64 * lenN done) 64) as [H1|H1]; [reflexivity|].
  symmetry. apply testbit_high; assumption.
Qed.

(* moving the low 64 bits of the current word to the finished ones *)
Lemma xbit_carry done cur p :
  xbit (N.land cur (N.ones 64) :: done) (N.shiftr cur 64) p = xbit done cur p.
Proof.
  unfold xbit. rewrite RawProof.lenN_cons. cbn [rev]. rewrite bit_app, lenN_rev.
  destruct (N.ltb_spec p (64 * lenN done)) as [H|H].
  - replace (p <? 64 * (lenN done + 1)) with true by lia. reflexivity.
  - destruct (N.ltb_spec p (64 * (lenN done + 1))) as [H1|H1].
    + rewrite bit_single, N.land_spec, testbit_ones. replace (p - 64 * lenN done <? 64) with true by lia.
      rewrite andb_true_r. reflexivity.
    + rewrite N.shiftr_spec'. f_equal. lia.
Qed.

(* one value: its w low bits go to bit positions off .. off + w - 1 of the current word *)
Lemma fl_step_bits off cur v w r : cur < 2 ^ off ->
  N.testbit (N.lor cur (N.shiftl (N.land v (N.ones w)) off)) r =
  if r <? off then N.testbit cur r else (r - off <? w) && N.testbit v (r - off).
Proof.
  intros Hc. rewrite N.lor_spec, testbit_shiftl, N.land_spec, testbit_ones.
  destruct (N.ltb_spec r off) as [H|H].
  - replace (off <=? r) with false by lia. cbn [andb]. apply orb_false_r.
  - rewrite (testbit_above cur off r Hc H). replace (off <=? r) with true by lia. cbn [orb andb].
    apply andb_comm.
Qed.

Lemma fl_step_lt off cur v w : cur < 2 ^ off -> N.lor cur (N.shiftl (N.land v (N.ones w)) off) < 2 ^ (off + w).
Proof.
  intros Hc. apply lt_pow2_of_bits. intros k Hk. rewrite fl_step_bits by exact Hc.
  replace (k <? off) with false by lia. replace (k - off <? w) with false by lia. reflexivity.
Qed.

Lemma shiftr_lt x a b : x < 2 ^ (a + b) -> N.shiftr x a < 2 ^ b.
Proof.
  intros Hx. apply lt_pow2_of_bits. intros k Hk. rewrite N.shiftr_spec'. apply (testbit_above x (a + b)); [exact Hx|lia].
Qed.

Lemma land_ones_lt x n : N.land x (N.ones n) < 2 ^ n.
Proof. rewrite N.land_ones. apply N.mod_lt. apply N.pow_nonzero. lia. Qed.

Lemma fl_go_spec w : 1 <= w <= 64 -> forall vals off cur done,
  off < 64 -> cur < 2 ^ off -> wf done ->
  match fl_go w vals off cur done with
  | (off', cur', done') =>
      off' < 64 /\ cur' < 2 ^ off' /\ wf done' /\
      64 * lenN done' + off' = 64 * lenN done + off + lenN vals * w /\
      forall p, xbit done' cur' p =
                if p <? 64 * lenN done + off then xbit done cur p
                else nthb (bits_of_items w vals) (p - (64 * lenN done + off))
  end.
Proof.
  intros Hw vals. induction vals as [|v t IH]; intros off cur done Hoff Hcur Hdone; cbn [fl_go].
  - split; [exact Hoff|]. split; [exact Hcur|]. split; [exact Hdone|]. split; [rewrite (@lenN_nil N); lia|].
    intros p. destruct (N.ltb_spec p (64 * lenN done + off)) as [H|H]; [reflexivity|].
    rewrite boi_nil, nthb_nil. unfold xbit. replace (p <? 64 * lenN done) with false by lia.
    apply (testbit_above cur off); [exact Hcur|lia].
  - set (cur1 := N.lor cur (N.shiftl (N.land v (N.ones w)) off)).
    assert (Hc1 : cur1 < 2 ^ (off + w)) by (apply fl_step_lt; exact Hcur).
    assert (Hb1 : forall p, xbit done cur1 p =
                  if p <? 64 * lenN done + off then xbit done cur p
                  else nthb (vbits v w) (p - (64 * lenN done + off))).
    { intros p. unfold xbit. destruct (N.ltb_spec p (64 * lenN done)) as [H|H].
      - replace (p <? 64 * lenN done + off) with true by lia. reflexivity.
      - unfold cur1. rewrite fl_step_bits by exact Hcur. rewrite nthb_vbits by lia.
        destruct (N.ltb_spec p (64 * lenN done + off)) as [H1|H1].
        + replace (p - 64 * lenN done <? off) with true by lia. reflexivity.
        + replace (p - 64 * lenN done <? off) with false by lia.
          replace (p - 64 * lenN done - off) with (p - (64 * lenN done + off)) by lia. reflexivity. }
    rewrite RawProof.lenN_cons.
    destruct (N.ltb_spec (off + w) 64) as [Hfit|Hcarry].
    + specialize (IH (off + w) cur1 done Hfit Hc1 Hdone).
      destruct (fl_go w t (off + w) cur1 done) as [[off' cur'] done'].
      destruct IH as [H1 [H2 [H3 [H4 H5]]]]. split; [exact H1|]. split; [exact H2|]. split; [exact H3|].
      split; [lia|]. intros p. rewrite H5, Hb1, boi_cons, nthb_app, lenL_vbits by lia.
      destruct (N.ltb_spec p (64 * lenN done + off)) as [Ha|Ha].
      * replace (p <? 64 * lenN done + (off + w)) with true by lia. reflexivity.
      * destruct (N.ltb_spec p (64 * lenN done + (off + w))) as [Hb|Hb].
        -- replace (p - (64 * lenN done + off) <? w) with true by lia. reflexivity.
        -- replace (p - (64 * lenN done + off) <? w) with false by lia. f_equal. lia.
    + assert (Hlo : N.land cur1 (N.ones 64) < 2 ^ 64) by apply land_ones_lt.
      assert (Hhi : N.shiftr cur1 64 < 2 ^ (off + w - 64)).
      { apply shiftr_lt. replace (64 + (off + w - 64)) with (off + w) by lia. exact Hc1. }
      specialize (IH (off + w - 64) (N.shiftr cur1 64) (N.land cur1 (N.ones 64) :: done) ltac:(lia) Hhi
                     (wf_cons _ _ Hlo Hdone)).
      destruct (fl_go w t (off + w - 64) (N.shiftr cur1 64) (N.land cur1 (N.ones 64) :: done)) as [[off' cur'] done'].
      rewrite RawProof.lenN_cons in IH.
      destruct IH as [H1 [H2 [H3 [H4 H5]]]]. split; [exact H1|]. split; [exact H2|]. split; [exact H3|].
      split; [lia|]. intros p. rewrite H5, xbit_carry, Hb1, boi_cons, nthb_app, lenL_vbits by lia.
      destruct (N.ltb_spec p (64 * lenN done + off)) as [Ha|Ha].
      * replace (p <? 64 * (lenN done + 1) + (off + w - 64)) with true by lia. reflexivity.
      * destruct (N.ltb_spec p (64 * (lenN done + 1) + (off + w - 64))) as [Hb|Hb].
        -- replace (p - (64 * lenN done + off) <? w) with true by lia. reflexivity.
        -- replace (p - (64 * lenN done + off) <? w) with false by lia. f_equal. lia.
Qed.

(* the low words: exact word count, 64-bit words, and they spell the w-bit fields of the values *)
Lemma fast_low_spec w vals : 1 <= w <= 64 ->
  wf (fast_low_words w vals) /\
  lenN (fast_low_words w vals) = bits_to_words (lenN vals * w) /\
  forall p, bit (fast_low_words w vals) p = nthb (bits_of_items w vals) p.
Proof.
  intros Hw. unfold fast_low_words.
  pose proof (fl_go_spec w Hw vals 0 0 [] ltac:(lia) ltac:(cbn; lia) wf_nil) as H.
  destruct (fl_go w vals 0 0 []) as [[off cur] done]. rewrite (@lenN_nil N) in H.
  destruct H as [H1 [H2 [H3 [H4 H5]]]]. rewrite rev'_rev, bits_to_words_eq.
  assert (Hx : forall p, xbit done cur p = nthb (bits_of_items w vals) p).
  { intros p. rewrite H5. replace (p <? 64 * 0 + 0) with false by lia. f_equal. lia. }
  destruct (N.eqb_spec off 0) as [E|E].
  - subst off. assert (cur = 0) by (cbn in H2; lia). subst cur.
    split; [apply wf_rev; exact H3|]. split; [rewrite lenN_rev; lia|].
    intros p. rewrite <- Hx. unfold xbit. destruct (N.ltb_spec p (64 * lenN done)) as [Hp|Hp]; [reflexivity|].
    rewrite N.bits_0. apply bit_hi. rewrite lenN_rev. exact Hp.
  - assert (Hc : cur < 2 ^ 64).
    { assert (2 ^ off <= 2 ^ 64) by (apply N.pow_le_mono_r; lia). lia. }
    cbn [rev]. split; [apply wf_app; [apply wf_rev; exact H3|apply wf_single; exact Hc]|].
    split; [rewrite lenN_app, lenN_rev; change (lenN [cur]) with 1; lia|].
    intros p. rewrite xbit_words by exact Hc. apply Hx.
Qed.

(* ================================================================ the high words *)

(* the positions of the ones: value number i (counted from i0) with high part v >> w sets bit (v >> w) + i *)
Fixpoint hpos (w : N) (vals : list N) (i : N) : list N :=
  match vals with
  | [] => []
  | v :: t => (N.shiftr v w + i) :: hpos w t (i + 1)
  end.

(* strictly increasing, starting at lo or later *)
Fixpoint inc_list (lo : N) (l : list N) : Prop :=
  match l with
  | [] => True
  | x :: t => lo <= x /\ inc_list (x + 1) t
  end.

Lemma inc_list_weaken l : forall lo lo', lo' <= lo -> inc_list lo l -> inc_list lo' l.
Proof. destruct l as [|x t]; intros lo lo' Hle H; cbn [inc_list] in *; [exact I|]. destruct H as [H1 H2]. split; [lia|exact H2]. Qed.

Definition mem (p : N) (l : list N) : bool := existsb (N.eqb p) l.

Lemma testbit_one_shl o r : N.testbit (N.shiftl 1 o) r = (r =? o).
Proof.
  rewrite testbit_shiftl, RawProof.testbit_1. destruct (N.leb_spec o r) as [H|H]; cbn [andb].
  - destruct (N.eqb_spec (r - o) 0), (N.eqb_spec r o); try reflexivity; lia.
  - symmetry. apply N.eqb_neq. lia.
Qed.

Lemma one_shl_lt o : o < 64 -> N.shiftl 1 o < 2 ^ 64.
Proof. intros H. rewrite N.shiftl_1_l. apply N.pow_lt_mono_r; lia. Qed.

Lemma lor_lt64 a b : a < 2 ^ 64 -> b < 2 ^ 64 -> N.lor a b < 2 ^ 64.
Proof.
  intros Ha Hb. apply lt_pow2_of_bits. intros k Hk. rewrite N.lor_spec, (testbit_high a), (testbit_high b) by assumption. reflexivity.
Qed.

Lemma fh_go_spec w : forall vals i ci cur done,
  lenN done = ci -> wf done -> cur < 2 ^ 64 -> inc_list (64 * ci) (hpos w vals i) ->
  match fh_go w vals i ci cur done with
  | (ci', cur', done') =>
      lenN done' = ci' /\ wf done' /\ cur' < 2 ^ 64 /\
      (ci' = ci \/ exists q, In q (hpos w vals i) /\ ci' = q / 64) /\
      forall p, bit (rev done' ++ [cur']) p = bit (rev done ++ [cur]) p || mem p (hpos w vals i)
  end.
Proof.
  induction vals as [|v t IH]; intros i ci cur done Hlen Hdone Hcur Hinc; cbn [fh_go hpos].
  - split; [exact Hlen|]. split; [exact Hdone|]. split; [exact Hcur|]. split; [left; reflexivity|].
    intros p. cbn [mem existsb]. rewrite orb_false_r. reflexivity.
  - cbn [hpos inc_list] in Hinc. destruct Hinc as [Hlo Hrest].
    set (q := N.shiftr v w + i) in *. rewrite split_offset_spec.
    assert (Ho : q mod 64 < 64) by lia.
    destruct (N.eqb_spec (q / 64) ci) as [Hsame|Hnew].
    + (* the same word *)
      assert (Hc1 : N.lor cur (N.shiftl 1 (q mod 64)) < 2 ^ 64) by (apply lor_lt64; [exact Hcur|apply one_shl_lt; exact Ho]).
      specialize (IH (i + 1) ci _ done Hlen Hdone Hc1 (inc_list_weaken _ (q + 1) (64 * ci) ltac:(lia) Hrest)).
      destruct (fh_go w t (i + 1) ci (N.lor cur (N.shiftl 1 (q mod 64))) done) as [[ci' cur'] done'].
      destruct IH as [H1 [H2 [H3 [H4 H5]]]]. split; [exact H1|]. split; [exact H2|]. split; [exact H3|]. split.
      * destruct H4 as [H4|[q' [Hq1 Hq2]]]; [left; exact H4|right; exists q'; split; [right; exact Hq1|exact Hq2]].
      * intros p. rewrite H5. cbn [mem existsb]. fold (mem p (hpos w t (i + 1))). rewrite orb_assoc. f_equal.
        rewrite !bit_app, lenN_rev, Hlen. destruct (N.ltb_spec p (64 * ci)) as [Hp|Hp].
        -- replace (p =? q) with false by lia. rewrite orb_false_r. reflexivity.
        -- rewrite !bit_single, N.lor_spec, testbit_one_shl.
           destruct (N.ltb_spec (p - 64 * ci) 64) as [Hp1|Hp1]; cbn [andb].
           ++ f_equal. destruct (N.eqb_spec (p - 64 * ci) (q mod 64)), (N.eqb_spec p q); try reflexivity; lia.
           ++ symmetry. apply N.eqb_neq. lia.
    + (* a later word: finish the current one, skip the empty ones *)
      assert (Hgt : ci < q / 64) by lia.
      set (k := N.to_nat (q / 64 - ci - 1)).
      assert (Hk : N.of_nat k = q / 64 - ci - 1) by (unfold k; lia).
      assert (Hlen2 : lenN (push_zeros k (cur :: done)) = q / 64) by (rewrite lenN_push_zeros, RawProof.lenN_cons; lia).
      assert (Hwf2 : wf (push_zeros k (cur :: done))) by (apply wf_push_zeros, wf_cons; assumption).
      specialize (IH (i + 1) (q / 64) (N.shiftl 1 (q mod 64)) _ Hlen2 Hwf2 (one_shl_lt _ Ho)
                     (inc_list_weaken _ (q + 1) (64 * (q / 64)) ltac:(lia) Hrest)).
      destruct (fh_go w t (i + 1) (q / 64) (N.shiftl 1 (q mod 64)) (push_zeros k (cur :: done))) as [[ci' cur'] done'].
      destruct IH as [H1 [H2 [H3 [H4 H5]]]]. split; [exact H1|]. split; [exact H2|]. split; [exact H3|]. split.
      * right. destruct H4 as [H4|[q' [Hq1 Hq2]]]; [exists q; split; [left; reflexivity|exact H4]|exists q'; split; [right; exact Hq1|exact Hq2]].
      * intros p. rewrite H5. cbn [mem existsb]. fold (mem p (hpos w t (i + 1))). rewrite orb_assoc. f_equal.
        rewrite rev_push_zeros. cbn [rev]. rewrite <- (app_assoc (rev done ++ [cur])).
        rewrite (bit_app (rev done ++ [cur])), (bit_app (repeatN 0 k)), lenN_app, lenN_rev, Hlen, lenN_repeatN, Hk.
        change (lenN [cur]) with 1.
        destruct (N.ltb_spec p (64 * (ci + 1))) as [Hp|Hp].
        -- replace (p =? q) with false by lia. rewrite orb_false_r. reflexivity.
        -- rewrite (bit_hi (rev done ++ [cur])) by (rewrite lenN_app, lenN_rev, Hlen; change (lenN [cur]) with 1; exact Hp).
           cbn [orb]. destruct (N.ltb_spec (p - 64 * (ci + 1)) (64 * (q / 64 - ci - 1))) as [Hp1|Hp1].
           ++ rewrite bit_repeat0. symmetry. apply N.eqb_neq. lia.
           ++ rewrite bit_single, testbit_one_shl.
              destruct (N.ltb_spec (p - 64 * (ci + 1) - 64 * (q / 64 - ci - 1)) 64) as [Hp2|Hp2]; cbn [andb].
              ** destruct (N.eqb_spec (p - 64 * (ci + 1) - 64 * (q / 64 - ci - 1)) (q mod 64)), (N.eqb_spec p q); try reflexivity; lia.
              ** symmetry. apply N.eqb_neq. lia.
Qed.

Lemma mem_In p l : mem p l = true <-> In p l.
Proof.
  unfold mem. rewrite existsb_exists. split.
  - intros [x [Hx He]]. apply N.eqb_eq in He. subst x. exact Hx.
  - intros H. exists p. split; [exact H|apply N.eqb_refl].
Qed.

(* the high words: exact word count, 64-bit words, set exactly at the positions *)
Lemma fast_high_spec w vals hlen :
  inc_list 0 (hpos w vals 0) -> (forall q, In q (hpos w vals 0) -> q < hlen) ->
  wf (fast_high_words w vals hlen) /\
  lenN (fast_high_words w vals hlen) = bits_to_words hlen /\
  forall p, bit (fast_high_words w vals hlen) p = mem p (hpos w vals 0).
Proof.
  intros Hinc Hlt. unfold fast_high_words. rewrite bits_to_words_eq.
  destruct (N.eqb_spec ((hlen + 63) / 64) 0) as [Hz|Hnz].
  - split; [apply wf_nil|]. split; [rewrite (@lenN_nil N); lia|]. intros p. rewrite bit_nil.
    destruct vals as [|v t]; [reflexivity|]. exfalso. specialize (Hlt _ (or_introl eq_refl)). lia.
  - pose proof (fh_go_spec w vals 0 0 0 [] eq_refl wf_nil ltac:(cbn; lia) Hinc) as H.
    destruct (fh_go w vals 0 0 0 []) as [[ci cur] done].
    destruct H as [H1 [H2 [H3 [H4 H5]]]]. rewrite rev'_rev, rev_push_zeros. cbn [rev].
    assert (Hci : ci < (hlen + 63) / 64).
    { destruct H4 as [->|[q [Hq ->]]]; [lia|]. specialize (Hlt q Hq). lia. }
    split; [apply wf_app; [apply wf_app; [apply wf_rev; exact H2|apply wf_single; exact H3]|apply wf_repeatN; reflexivity]|].
    split; [rewrite !lenN_app, lenN_rev, lenN_repeatN; change (lenN [cur]) with 1; lia|].
    assert (H6 : forall p, bit (rev done ++ [cur]) p = mem p (hpos w vals 0)).
    { intros p. rewrite H5. cbn [rev app]. rewrite bit_single, N.bits_0, andb_false_r. reflexivity. }
    intros p. rewrite bit_app, bit_repeat0.
    destruct (N.ltb_spec p (64 * lenN (rev done ++ [cur]))) as [Hp|Hp]; [apply H6|].
    (* beyond the current word there is no position *)
    rewrite <- H6. symmetry. apply bit_hi. exact Hp.
Qed.

(* ================================================================ the model's builder, with canonical arrays *)

(* the low contract of Proofs/SparseBuild.v, instantiated with the canonical invariant of Proofs/IntVecProof.v:
   exact word count, nothing set beyond the length, and the items are L *)
Definition iv_can (v : intvec) (w : N) (L : list N) : Prop := iv_inv v /\ iwidth v = w /\ abs_iv v = L.

Lemma repeatN_repeat {A} (x : A) k : repeatN x k = repeat x k.
Proof. induction k as [|k IH]; cbn [repeatN repeat]; [reflexivity|]. rewrite IH. reflexivity. Qed.

Lemma nthn_nthd l i : nthn l i = nthd l i.
Proof.
  unfold nthn, nthd. rewrite nthN_nth_error. rewrite <- nth_default_eq. unfold nth_default. reflexivity.
Qed.

Lemma setN_split (l : list N) : forall i x, i < lenN l -> setN l i x = takeN i l ++ [x] ++ dropN (i + 1) l.
Proof.
  induction l as [|a t IH]; intros i x Hi; [rewrite (@lenN_nil N) in Hi; lia|].
  rewrite RawProof.lenN_cons in Hi. cbn [setN]. destruct (N.eqb_spec i 0) as [->|Hn].
  - reflexivity.
  - rewrite IH by lia. unfold takeN, dropN.
    replace (N.to_nat i) with (S (N.to_nat (i - 1))) by lia.
    replace (N.to_nat (i + 1)) with (S (N.to_nat (i - 1 + 1))) by lia. reflexivity.
Qed.

Lemma iv_can_new len w : 1 <= w <= 64 ->
  exists v, iv_with_len len w 0 = Some (Ok v) /\ iv_can v w (repeatN 0 (N.to_nat len)).
Proof.
  intros Hw. destruct (iv_with_len_ok len w 0 Hw) as [v [E [Hinv Ha]]]. exists v. split; [exact E|].
  unfold abs_is in Ha. injection Ha as Hw' Hl. split; [exact Hinv|]. split; [exact Hw'|].
  rewrite Hl. unfold repN, trunc. rewrite N.mod_0_l by (apply N.pow_nonzero; lia). symmetry. apply repeatN_repeat.
Qed.

Lemma iv_can_set v w L i x : iv_can v w L -> i < lenN L -> x < 2 ^ w ->
  exists v', iv_set v i x = Ok v' /\ iv_can v' w (setN L i x).
Proof.
  intros [Hinv [Hw HL]] Hi Hx. destruct (iv_repr v Hinv) as [_ [Hlen _]].
  assert (Hi' : i < ilen v) by (rewrite <- Hlen, HL; exact Hi).
  destruct (iv_set_ok v i x Hinv Hi') as [v' [E [Hinv' [Hw' Ha]]]]. exists v'. split; [exact E|].
  split; [exact Hinv'|]. split; [congruence|]. rewrite Ha, HL, Hw, trunc_small by exact Hx.
  symmetry. apply setN_split. exact Hi.
Qed.

Lemma iv_can_get v w L : iv_can v w L -> low_ok v w L.
Proof.
  intros [Hinv [Hw HL]]. destruct (iv_repr v Hinv) as [_ [Hlen _]]. unfold low_ok.
  split; [rewrite <- Hlen, HL; reflexivity|]. split; [exact Hw|].
  intros i Hi. rewrite iv_get_ok by (try exact Hinv; rewrite <- Hlen, HL; exact Hi). rewrite HL, nthn_nthd. reflexivity.
Qed.

(* a list is determined by its length and its elements *)
Lemma list_ext_nthd (a b : list N) : lenN a = lenN b -> (forall i, i < lenN a -> nthd a i = nthd b i) -> a = b.
Proof.
  revert b. induction a as [|x t IH]; intros b Hl H.
  - destruct b; [reflexivity|]. rewrite RawProof.lenN_cons, (@lenN_nil N) in Hl. lia.
  - destruct b as [|y u]; [rewrite RawProof.lenN_cons, (@lenN_nil N) in Hl; lia|].
    rewrite !RawProof.lenN_cons in Hl. f_equal.
    + specialize (H 0 ltac:(rewrite RawProof.lenN_cons; lia)). rewrite !nthd_cons in H. exact H.
    + apply IH; [lia|]. intros i Hi. specialize (H (i + 1) ltac:(rewrite RawProof.lenN_cons; lia)).
      rewrite !nthd_cons in H. replace (i + 1 =? 0) with false in H by lia. replace (i + 1 - 1) with i in H by lia. exact H.
Qed.

Lemma boi_map_trunc w vals : w <= 64 -> bits_of_items w (map (trunc w) vals) = bits_of_items w vals.
Proof.
  intros Hw. induction vals as [|v t IH]; [reflexivity|]. cbn [map]. rewrite !boi_cons, vbits_trunc, IH by exact Hw. reflexivity.
Qed.

(* ---------------------------------------------------------------- the accepted inputs *)

Lemma shiftr_mono a b w : a <= b -> N.shiftr a w <= N.shiftr b w.
Proof. intros H. rewrite !N.shiftr_div_pow2. apply N.div_le_mono; [apply N.pow_nonzero; lia|exact H]. Qed.

Lemma sorted_from_inc_list w inc vals : forall prev k lo,
  sorted_from inc prev vals = true -> lo <= N.shiftr prev w + k -> inc_list lo (hpos w vals k).
Proof.
  induction vals as [|v t IH]; intros prev k lo Hs Hlo; cbn [hpos inc_list]; [exact I|].
  cbn [sorted_from] in Hs. apply andb_true_iff in Hs. destruct Hs as [Hpv Ht].
  pose proof (shiftr_mono prev v w ltac:(lia)) as Hm.
  split; [lia|]. apply (IH (v + inc) (k + 1)); [exact Ht|].
  pose proof (shiftr_mono v (v + inc) w ltac:(lia)). lia.
Qed.

Lemma sorted_from_ord inc vals : forall prev, sorted_from inc prev vals = true ->
  (0 < lenN vals -> prev <= nthd vals 0) /\
  forall k, 0 < k -> k < lenN vals -> nthd vals (k - 1) + inc <= nthd vals k.
Proof.
  induction vals as [|v t IH]; intros prev Hs.
  - rewrite (@lenN_nil N). split; intros; lia.
  - cbn [sorted_from] in Hs. apply andb_true_iff in Hs. destruct Hs as [Hpv Ht].
    destruct (IH _ Ht) as [IH1 IH2]. rewrite RawProof.lenN_cons. split.
    + intros _. rewrite nthd_cons. change (0 =? 0) with true. cbv iota. lia.
    + intros k Hk0 Hk. rewrite !nthd_cons. replace (k =? 0) with false by lia.
      destruct (N.eqb_spec (k - 1) 0) as [E|E].
      * replace (k - 1) with 0 by lia. specialize (IH1 ltac:(lia)). lia.
      * specialize (IH2 (k - 1) ltac:(lia) ltac:(lia)). exact IH2.
Qed.

Lemma fast_valid_spec inc n vals : fast_valid inc n vals = true ->
  bounded n vals /\ (forall k, 0 < k -> k < lenN vals -> nthd vals (k - 1) + inc <= nthd vals k) /\
  sorted_from inc 0 vals = true.
Proof.
  unfold fast_valid. intros H. apply andb_true_iff in H. destruct H as [Hs Hb].
  split; [apply all_below_bounded; exact Hb|]. split; [apply (sorted_from_ord inc vals 0 Hs)|exact Hs].
Qed.

(* membership among the positions, by index *)
Lemma In_hpos w vals : forall k q, In q (hpos w vals k) <-> exists i, i < lenN vals /\ q = nthd vals i / 2 ^ w + (k + i).
Proof.
  induction vals as [|v t IH]; intros k q; cbn [hpos In].
  - rewrite (@lenN_nil N). split; [tauto|intros [i [Hi _]]; lia].
  - rewrite IH, RawProof.lenN_cons. split.
    + intros [H|[i [Hi Hq]]].
      * exists 0. split; [lia|]. rewrite nthd_cons. change (0 =? 0) with true. cbv iota. rewrite <- N.shiftr_div_pow2. rewrite <- H. f_equal. lia.
      * exists (i + 1). split; [lia|]. rewrite nthd_cons. replace (i + 1 =? 0) with false by lia.
        replace (i + 1 - 1) with i by lia. rewrite Hq. lia.
    + intros [i [Hi Hq]]. rewrite nthd_cons in Hq. destruct (N.eqb_spec i 0) as [->|Hn].
      * left. rewrite Hq, N.shiftr_div_pow2. f_equal. lia.
      * right. exists (i - 1). split; [lia|]. rewrite Hq. lia.
Qed.

(* ================================================================ the builders are equal *)

Lemma forget_next_try_from sp md b : sv_try_from sp md (forget_next b) = sv_try_from sp md b.
Proof. reflexivity. Qed.

Section Core.
Variables (md : mode) (w' n inc : N) (vals : list N).
Hypothesis Hn : n < 2 ^ 64.
Hypothesis Hw' : 1 <= w' <= 63.
Hypothesis Hinc : inc <= 1.
Hypothesis Hval : fast_valid inc n vals = true.
Local Notation m := (lenN vals).
Local Notation w := (eff_width w' n (lenN vals)).
Local Notation nb := (buckets_of n (eff_width w' n (lenN vals))).
Hypothesis Hfit : m + nb < 2 ^ 64.

(* the one-pass low vector is the canonical vector with items v mod 2^w *)
Lemma fast_low_can : 1 <= w <= 63 ->
  iv_can (mkiv m w (mkraw (m * w) (fast_low_words w vals))) w (map (trunc w) vals).
Proof.
  intros Hw. destruct (fast_low_spec w vals ltac:(lia)) as [Hwf [Hlen Hbit]].
  destruct (raw_of_bits (m * w) (fast_low_words w vals) (bits_of_items w vals) Hwf Hlen
              ltac:(rewrite lenL_boi by lia; reflexivity) Hbit) as [Hrinv Hrabs].
  destruct (iv_of_bits m w (mkraw (m * w) (fast_low_words w vals)) (map (trunc w) vals) ltac:(lia) Hrinv
              ltac:(rewrite boi_map_trunc by lia; exact Hrabs) (Forall_map_trunc w vals)
              ltac:(rewrite lenL_map; reflexivity)) as [Hiinv Hiabs].
  split; [exact Hiinv|]. split; [reflexivity|exact Hiabs].
Qed.

(* the model replays SparseBuilder::new / multiset and every try_set; the one-pass builder is its final state *)
Lemma fast_core : exists low high b',
  get_params md w' n m = Ok (w, m + nb) /\
  iv_with_len m w 0 = Some (Ok low) /\
  raw_with_len (m + nb) false = Ok high /\
  sb_try_set_all md (mkb n low high 0 0 inc) vals = Ok (inl b') /\
  b_len b' = ilen (b_low b') /\
  fast_builder md w' n inc vals = Ok (forget_next b').
Proof.
  destruct (fast_valid_spec inc n vals Hval) as [Hb [Hord Hs]].
  pose proof (eff_width_range w' n m Hw') as Hw.
  destruct (init_ok md iv_can iv_can_new iv_can_set iv_can_get w' n inc vals Hn Hw' Hfit) as [low [high [Hgp [Hiv [Hraw Hinv]]]]].
  destruct (b_all md n w inc vals iv_can iv_can_set iv_can_get Hn Hw m (N.le_refl _) Hb Hinc Hord Hfit vals 0 _ Hinv
              ltac:(lia) ltac:(intros i Hi; f_equal; lia)) as [b' [Hall Hb']].
  exists low, high, b'. split; [exact Hgp|]. split; [exact Hiv|]. split; [exact Hraw|]. split; [exact Hall|].
  destruct Hb' as [Hu [Hl [Hi [Hnx [[L [[HLinv [HLw HLabs]] [HLm HL]]] [Hwf [Hrl Hbits]]]]]]].
  destruct (iv_repr _ HLinv) as [_ [HLlen _]].
  split; [rewrite Hl, <- HLlen, HLabs; symmetry; exact HLm|].
  unfold fast_builder. rewrite Hgp. cbn [bind]. f_equal. unfold forget_next. rewrite Hu, Hl, Hi. f_equal.
  - (* low *)
    destruct (fast_low_can Hw) as [Hfinv [_ Hfabs]]. symmetry. apply iv_canonical; [exact HLinv|exact Hfinv|].
    unfold abs_is. rewrite HLw, HLabs, Hfabs. cbn [iwidth]. f_equal.
    apply list_ext_nthd; [rewrite HLm, RawProof.lenN_map; reflexivity|].
    intros i Hi'. rewrite HLm in Hi'. rewrite HL, nthd_map by exact Hi'. reflexivity.
  - (* high *)
    destruct Hwf as [Hhl [Hhwf _]]. destruct (b_high b') as [hl hd]. cbn [rlen rdata] in *. subst hl. f_equal.
    assert (Hinc0 : inc_list 0 (hpos w vals 0)) by (apply (sorted_from_inc_list w inc vals 0 0 0 Hs); lia).
    assert (Hlt : forall q, In q (hpos w vals 0) -> q < m + nb).
    { intros q Hq. apply In_hpos in Hq. destruct Hq as [i [Hi' ->]].
      pose proof (hi_lt_nb_val n w Hw (nthd vals i) (Hb i Hi')). lia. }
    destruct (fast_high_spec w vals (m + nb) Hinc0 Hlt) as [Hfwf [Hflen Hfbit]].
    symmetry. apply words_ext; [rewrite Hhl, Hflen; reflexivity|exact Hhwf|exact Hfwf|].
    intros p. apply eq_true_iff_eq. rewrite Hbits, Hfbit, mem_In, In_hpos. unfold one_pos.
    split; intros [i [Hi' Hq]]; exists i; (split; [exact Hi'|]); rewrite Hq; f_equal; lia.
Qed.

End Core.

(* a strictly increasing list below n has at most n elements *)
Lemma sorted_from_1_len n vals : forall prev, sorted_from 1 prev vals = true -> forallb (fun v => v <? n) vals = true ->
  prev <= n -> prev + lenN vals <= n.
Proof.
  induction vals as [|v t IH]; intros prev Hs Hb Hp; [rewrite (@lenN_nil N); lia|].
  cbn [sorted_from forallb] in *. apply andb_true_iff in Hs, Hb. destruct Hs as [Hpv Ht], Hb as [Hvn Hbt].
  specialize (IH (v + 1) Ht Hbt ltac:(lia)). rewrite RawProof.lenN_cons. lia.
Qed.

Lemma fast_valid_1_len n vals : fast_valid 1 n vals = true -> lenN vals <= n.
Proof.
  unfold fast_valid. intros H. apply andb_true_iff in H. destruct H as [Hs Hb].
  pose proof (sorted_from_1_len n vals 0 Hs Hb ltac:(lia)). lia.
Qed.

(* fewer than 2^63 values: the high part is addressable *)
Lemma fit_of_small u w m : u < 2 ^ 64 -> 1 <= w <= 63 -> m < 2 ^ 63 -> m + buckets_of u w < 2 ^ 64.
Proof.
  intros Hu Hw Hm. unfold buckets_of.
  assert (HP : 2 <= 2 ^ w) by (change 2 with (2 ^ 1) at 1; apply N.pow_le_mono_r; lia).
  set (P := 2 ^ w) in *. set (q := (u + P - 1) / P).
  assert (Hq : q * P <= u + P - 1) by (unfold q; pose proof (N.div_mod (u + P - 1) P ltac:(lia)); nia).
  change (2 ^ 64) with 18446744073709551616 in *. change (2 ^ 63) with 9223372036854775808 in *. nia.
Qed.

(* ---------------------------------------------------------------- the builder, as a statement about [replay_builder] *)

Theorem fast_builder_exact md w' n inc vals :
  n < 2 ^ 64 -> 1 <= w' <= 63 -> inc <= 1 -> fast_valid inc n vals = true ->
  lenN vals + buckets_of n (eff_width w' n (lenN vals)) < 2 ^ 64 ->
  exists b, replay_builder md w' n inc vals = Ok (inl b) /\
            b_len b = ilen (b_low b) /\
            fast_builder md w' n inc vals = Ok (forget_next b).
Proof.
  intros Hn Hw' Hinc Hval Hfit.
  destruct (fast_core md w' n inc vals Hn Hw' Hinc Hval Hfit) as [low [high [b' [Hgp [Hiv [Hraw [Hall [Hfull Hfast]]]]]]]].
  exists b'. split; [|split; [exact Hfull|exact Hfast]].
  unfold replay_builder. destruct (N.eqb_spec inc 1) as [->|Hne].
  - unfold sb_new. pose proof (fast_valid_1_len n vals Hval). replace (n <? lenN vals) with false by lia.
    rewrite Hgp. cbn [bind]. rewrite Hiv. cbn [unwrap_iv bind]. rewrite Hraw. cbn [bind]. exact Hall.
  - assert (inc = 0) by lia. subst inc. unfold sb_multiset.
    rewrite Hgp. cbn [bind]. rewrite Hiv. cbn [unwrap_iv bind]. rewrite Hraw. cbn [bind]. exact Hall.
Qed.

(* ---------------------------------------------------------------- the four construction routes *)

Lemma try_all_unchecked md : forall xs b b', sb_try_set_all md b xs = Ok (inl b') -> sb_set_unchecked_all md b xs = Ok b'.
Proof.
  induction xs as [|x t IH]; intros b b' H; cbn [sb_try_set_all sb_set_unchecked_all] in *; [congruence|].
  unfold sb_try_set in H.
  destruct (b_len b =? ilen (b_low b)); [cbn [bind] in H; discriminate|].
  destruct (x <? b_next b); [cbn [bind] in H; discriminate|].
  destruct (b_universe b <=? x); [cbn [bind] in H; discriminate|].
  destruct (sb_set_unchecked md b x) as [b1|k|s]; cbn [bind] in *; [apply IH; exact H|discriminate|discriminate].
Qed.

Lemma unwrap_try_from sp md b : b_len b = ilen (b_low b) ->
  (let* s := unwrap_sum (sv_try_from sp md b) in Ok (inl s)) = sv_try_from sp md b.
Proof.
  intros H. unfold sv_try_from, unwrap_sum. rewrite H, N.eqb_refl. cbn [negb].
  destruct (bv_enable_select_t sp md Identity (bv_from_raw (b_high b))) as [h1|k|s]; cbn [bind]; try reflexivity.
  destruct (bv_enable_select_t sp md Complement h1) as [h2|k|s]; cbn [bind]; reflexivity.
Qed.

Section Routes.
Variables (sp : selpath) (md : mode) (w' : N) (vals : list N).
Hypothesis Hw' : 1 <= w' <= 63.
Hypothesis Hsmall : lenN vals < 2 ^ 63.

Lemma route_set n : n < 2 ^ 64 -> fast_valid 1 n vals = true ->
  (let* b := fast_builder md w' n 1 vals in sv_try_from sp md b) = sv_build_set sp md w' n vals.
Proof.
  intros Hn Hval. pose proof (fit_of_small n _ _ Hn (eff_width_range w' n (lenN vals) Hw') Hsmall) as Hfit.
  destruct (fast_core md w' n 1 vals Hn Hw' ltac:(lia) Hval Hfit) as [low [high [b' [Hgp [Hiv [Hraw [Hall [Hfull Hfast]]]]]]]].
  rewrite Hfast. cbn [bind]. rewrite forget_next_try_from.
  unfold sv_build_set, sb_new. pose proof (fast_valid_1_len n vals Hval). replace (n <? lenN vals) with false by lia.
  rewrite Hgp. cbn [bind]. rewrite Hiv. cbn [unwrap_iv bind]. rewrite Hraw. cbn [bind]. rewrite Hall. reflexivity.
Qed.

Lemma route_multiset n : n < 2 ^ 64 -> fast_valid 0 n vals = true ->
  (let* b := fast_builder md w' n 0 vals in sv_try_from sp md b) = sv_build_multiset sp md w' n vals.
Proof.
  intros Hn Hval. pose proof (fit_of_small n _ _ Hn (eff_width_range w' n (lenN vals) Hw') Hsmall) as Hfit.
  destruct (fast_core md w' n 0 vals Hn Hw' ltac:(lia) Hval Hfit) as [low [high [b' [Hgp [Hiv [Hraw [Hall [Hfull Hfast]]]]]]]].
  rewrite Hfast. cbn [bind]. rewrite forget_next_try_from.
  unfold sv_build_multiset, sb_multiset.
  rewrite Hgp. cbn [bind]. rewrite Hiv. cbn [unwrap_iv bind]. rewrite Hraw. cbn [bind]. rewrite Hall. reflexivity.
Qed.

Lemma route_copy n : n < 2 ^ 64 -> fast_valid 1 n vals = true ->
  (let* b := fast_builder md w' n 1 vals in sv_try_from sp md b) = (let* s := sv_copy sp md w' n vals in Ok (inl s)).
Proof.
  intros Hn Hval. pose proof (fit_of_small n _ _ Hn (eff_width_range w' n (lenN vals) Hw') Hsmall) as Hfit.
  destruct (fast_core md w' n 1 vals Hn Hw' ltac:(lia) Hval Hfit) as [low [high [b' [Hgp [Hiv [Hraw [Hall [Hfull Hfast]]]]]]]].
  rewrite Hfast. cbn [bind]. rewrite forget_next_try_from.
  unfold sv_copy, sb_new. pose proof (fast_valid_1_len n vals Hval). replace (n <? lenN vals) with false by lia.
  rewrite Hgp. cbn [bind]. rewrite Hiv. cbn [unwrap_iv bind]. rewrite Hraw. cbn [bind unwrap_sum].
  rewrite (try_all_unchecked md _ _ _ Hall). cbn [bind]. symmetry. apply unwrap_try_from. exact Hfull.
Qed.

Lemma fast_last_app pre (x : N) : fast_last (pre ++ [x]) = Some x.
Proof.
  induction pre as [|a t IH]; [reflexivity|]. cbn [app fast_last]. rewrite IH.
  destruct t; reflexivity.
Qed.

Lemma route_iter : vals <> [] ->
  let u := match fast_last vals with None => 0 | Some last => last + 1 end in
  u < 2 ^ 64 -> fast_valid 0 u vals = true ->
  (let* b := fast_builder md w' u 0 vals in sv_try_from sp md b) = sv_try_from_iter sp md w' vals.
Proof.
  intros Hne. destruct (exists_last Hne) as [pre [lst Heq]]. rewrite Heq in *. rewrite fast_last_app. cbv zeta.
  intros Hu Hval. pose proof (fit_of_small (lst + 1) _ _ Hu (eff_width_range w' (lst + 1) (lenN (pre ++ [lst])) Hw') Hsmall) as Hfit.
  destruct (fast_core md w' (lst + 1) 0 (pre ++ [lst]) Hu Hw' ltac:(lia) Hval Hfit)
    as [low [high [b' [Hgp [Hiv [Hraw [Hall [Hfull Hfast]]]]]]]].
  rewrite Hfast. cbn [bind]. rewrite forget_next_try_from.
  rewrite (try_from_iter_unfold sp md iv_can iv_can_new iv_can_set iv_can_get w' pre lst Hu).
  unfold sb_multiset. rewrite Hgp. cbn [bind]. rewrite Hiv. cbn [unwrap_iv bind]. rewrite Hraw. cbn [bind]. rewrite Hall. reflexivity.
Qed.

End Routes.

Lemma route_other sp md route w n vals : route <> 0 -> route <> 1 -> route <> 2 ->
  model_build sp md route w n vals = sv_try_from_iter sp md w vals /\
  fast_params route n vals =
    (let u := match fast_last vals with None => 0 | Some last => last + 1 end in
     if fast_valid 0 u vals && (u <? 2 ^ 64) then Some (0, u) else None).
Proof.
  intros H0 H1 H2. destruct route as [|[[p|p|]|[p|p|]|]]; try contradiction; split; reflexivity.
Qed.

(* the check uses the model's own result: whenever the flag of [model_build_checked] is true (a case is only ever
   accepted then), its first component is what the pure model build returns - on every route, for every input *)
Theorem fast_checked_exact sp md route w n vals :
  snd (model_build_checked sp md route w n vals) = true ->
  fst (model_build_checked sp md route w n vals) = model_build sp md route w n vals.
Proof.
  unfold model_build_checked. destruct (fast_params route n vals) as [[inc u]|] eqn:Efp; [|reflexivity].
  destruct ((FAST_FROM <=? lenN vals) && fast_domain w u vals) eqn:Ed; [|reflexivity].
  destruct (fast_too_large md w u vals); cbn [fst snd]; [discriminate|]. intros _.
  apply andb_true_iff in Ed. destruct Ed as [Hlarge Hdom]. unfold fast_domain in Hdom.
  apply andb_true_iff in Hdom. destruct Hdom as [Hdom Hsmall]. apply andb_true_iff in Hdom. destruct Hdom as [Hdom Hu].
  apply andb_true_iff in Hdom. destruct Hdom as [Hw1 Hw2].
  assert (Hw : 1 <= w <= 63) by lia. assert (Hu' : u < 2 ^ 64) by lia. assert (Hs' : lenN vals < 2 ^ 63) by lia.
  assert (Hne : vals <> []).
  { intros ->. unfold FAST_FROM in Hlarge. rewrite (@lenN_nil N) in Hlarge. discriminate. }
  clear Hw1 Hw2 Hu Hsmall Hlarge.
  destruct (N.eq_dec route 0) as [->|H0].
  { cbn [fast_params model_build] in *. destruct (fast_valid 1 n vals) eqn:Ev; [|discriminate].
    injection Efp as <- <-. apply route_set; assumption. }
  destruct (N.eq_dec route 1) as [->|H1].
  { cbn [fast_params model_build] in *. destruct (fast_valid 0 n vals) eqn:Ev; [|discriminate].
    injection Efp as <- <-. apply route_multiset; assumption. }
  destruct (N.eq_dec route 2) as [->|H2].
  { cbn [fast_params model_build] in *. destruct (fast_valid 1 n vals) eqn:Ev; [|discriminate].
    injection Efp as <- <-. apply route_copy; assumption. }
  destruct (route_other sp md route w n vals H0 H1 H2) as [Emb Efp']. rewrite Emb. rewrite Efp' in Efp. cbv zeta in Efp.
  destruct (fast_valid 0 _ vals) eqn:Ev; [|discriminate]. cbn [andb] in Efp.
  destruct (_ <? 2 ^ 64) eqn:El; [|discriminate]. injection Efp as <- <-.
  apply route_iter; try assumption.
Qed.

(* ---------------------------------------------------------------- the same, with the input predicates of Spec/ValSeq.v *)

Lemma sorted_from_1 l : forall prev,
  sorted_from 1 prev l = match l with [] => true | v :: _ => (prev <=? v) && increasing l end.
Proof.
  induction l as [|v t IH]; intros prev; [reflexivity|]. cbn [sorted_from]. rewrite IH. f_equal.
  destruct t as [|b u]; [reflexivity|]. cbn [increasing]. f_equal. lia.
Qed.

Lemma sorted_from_0 l : forall prev,
  sorted_from 0 prev l = match l with [] => true | v :: _ => (prev <=? v) && nondecreasing l end.
Proof.
  induction l as [|v t IH]; intros prev; [reflexivity|]. cbn [sorted_from]. rewrite IH. f_equal.
  destruct t as [|b u]; [reflexivity|]. cbn [nondecreasing]. f_equal. lia.
Qed.

Lemma fast_valid_set n vals : fast_valid 1 n vals = increasing vals && all_below n vals.
Proof.
  unfold fast_valid, all_below. rewrite sorted_from_1. destruct vals as [|v t]; [reflexivity|].
  replace (0 <=? v) with true by lia. reflexivity.
Qed.

Lemma fast_valid_multiset n vals : fast_valid 0 n vals = nondecreasing vals && all_below n vals.
Proof.
  unfold fast_valid, all_below. rewrite sorted_from_0. destruct vals as [|v t]; [reflexivity|].
  replace (0 <=? v) with true by lia. reflexivity.
Qed.

(* SparseBuilder::new(n, |P|) and try_set for every element of a strictly increasing list below n *)
Theorem fast_builder_set_exact md w n P :
  n < 2 ^ 64 -> 1 <= w <= 63 -> increasing P = true -> all_below n P = true ->
  lenN P + buckets_of n (eff_width w n (lenN P)) < 2 ^ 64 ->
  exists b,
    (let* r := sb_new md w n (lenN P) in
     match r with inr e => Ok (inr e) | inl b0 => sb_try_set_all md b0 P end) = Ok (inl b) /\
    b_len b = ilen (b_low b) /\
    fast_builder md w n 1 P = Ok (mkb (b_universe b) (b_low b) (b_high b) (b_len b) 0 (b_inc b)).
Proof.
  intros Hn Hw Hi Hb Hfit.
  destruct (fast_builder_exact md w n 1 P Hn Hw ltac:(lia) ltac:(rewrite fast_valid_set, Hi, Hb; reflexivity) Hfit)
    as [b [H1 [H2 H3]]].
  exists b. split; [exact H1|]. split; [exact H2|exact H3].
Qed.

(* SparseBuilder::multiset(n, |V|) and try_set for every element of a non-decreasing list below n *)
Theorem fast_builder_multiset_exact md w n V :
  n < 2 ^ 64 -> 1 <= w <= 63 -> nondecreasing V = true -> all_below n V = true ->
  lenN V + buckets_of n (eff_width w n (lenN V)) < 2 ^ 64 ->
  exists b,
    (let* b0 := sb_multiset md w n (lenN V) in sb_try_set_all md b0 V) = Ok (inl b) /\
    b_len b = ilen (b_low b) /\
    fast_builder md w n 0 V = Ok (mkb (b_universe b) (b_low b) (b_high b) (b_len b) 0 (b_inc b)).
Proof.
  intros Hn Hw Hi Hb Hfit.
  destruct (fast_builder_exact md w n 0 V Hn Hw ltac:(lia) ltac:(rewrite fast_valid_multiset, Hi, Hb; reflexivity) Hfit)
    as [b [H1 [H2 H3]]].
  exists b. split; [|split; [exact H2|exact H3]].
  unfold replay_builder in H1. change (0 =? 1) with false in H1. cbv iota in H1.
  destruct (sb_multiset md w n (lenN V)) as [b0|k|s]; cbn [bind] in *; exact H1.
Qed.

(* inside its domain the one-pass route is taken and its flag is true *)
Theorem fast_checked_total sp md route w n vals inc u :
  fast_params route n vals = Some (inc, u) -> FAST_FROM <= lenN vals ->
  1 <= w <= 63 -> u < 2 ^ 64 -> lenN vals < 2 ^ 63 -> fast_too_large md w u vals = false ->
  model_build_checked sp md route w n vals = (model_build sp md route w n vals, true).
Proof.
  intros Efp Hl Hw Hu Hs Etl.
  assert (Hsnd : snd (model_build_checked sp md route w n vals) = true).
  { unfold model_build_checked. rewrite Efp. unfold fast_domain.
    replace (FAST_FROM <=? lenN vals) with true by lia. replace (1 <=? w) with true by lia.
    replace (w <=? 63) with true by lia. replace (u <? 2 ^ 64) with true by lia.
    replace (lenN vals <? 2 ^ 63) with true by lia. cbn [andb]. rewrite Etl. reflexivity. }
  pose proof (fast_checked_exact sp md route w n vals Hsnd) as Hfst.
  destruct (model_build_checked sp md route w n vals) as [r f]. cbn [fst snd] in *. subst. reflexivity.
Qed.
