(* Proofs about Model/Builders.v: every step of both builders refines the specification of
   Spec/BuilderSpec.v, never panics on arithmetic in either build mode, and a refused call leaves the
   whole model state unchanged. By induction the same holds for every finite history. *)
From Coq Require Import NArith List Lia ZArith Bool.
Require Import SDS.Model.Mach SDS.Model.Builders SDS.Spec.BuilderSpec.
Import ListNotations.
Open Scope N_scope.
Require Import ZifyBool ZifyN ZifyNat.
Ltac Zify.zify_post_hook ::= Z.div_mod_to_equations.
Arguments N.add : simpl never. Arguments N.sub : simpl never. Arguments N.mul : simpl never.
Arguments N.eqb : simpl never. Arguments N.ltb : simpl never. Arguments N.leb : simpl never.
Arguments N.pow : simpl never.

(* ---- machine arithmetic that stays in range *)

Lemma MAXU_val : MAXU = MAXW.
Proof. reflexivity. Qed.

Lemma uadd_ok m a b : a + b <= MAXW -> uadd m a b = Ok (a + b).
Proof. intros H. unfold uadd. unfold MAXW in H. replace (a + b <? 2 ^ 64) with true by lia. reflexivity. Qed.

Lemma usub_ok m a b : b <= a -> usub m a b = Ok (a - b).
Proof. intros H. unfold usub. replace (b <=? a) with true by lia. reflexivity. Qed.

Definition sout_of (o : outcome) : sout := match o with Accepted => SAccepted | Rejected => SRejected end.
Definition out_of_bool (a : bool) : outcome := if a then Accepted else Rejected.

(* ------------------------------------------------------------------ RLBuilder *)

(* the active run, if it is not empty *)
Definition pending (b : rlb) : list (N * N) := if snd (brun b) =? 0 then [] else [brun b].
(* abstraction: flushed runs followed by the active one, and the length *)
Definition rl_abs (b : rlb) : rl_spec := (bruns b ++ pending b, blen b).

Record RLInv (b : rlb) : Prop := mkRLInv {
  i_run : fst (brun b) + snd (brun b) = blen b;          (* also when the active run is empty *)
  i_tail : btail b <= fst (brun b);
  i_tail_end : btail b = last_end (bruns b);             (* tail = position after the last flushed run *)
  i_sep : snd (brun b) = 0 -> bruns b = [] \/ btail b < blen b;
  i_ones : bones b = run_sum (fst (rl_abs b));
  i_ok : runs_ok (fst (rl_abs b)) (blen b) }.

Lemma rl_inv_init : RLInv rl_init.
Proof.
  split; [reflexivity|reflexivity|reflexivity|intros _; left; reflexivity|reflexivity|exact runs_ok_init].
Qed.

Lemma rl_inv_bounds b : RLInv b -> bones b <= blen b /\ blen b <= MAXW /\ snd (brun b) <= blen b.
Proof.
  intros H. pose proof (runs_ok_sum _ _ (i_ok b H)) as Hs. destruct (i_ok b H) as (_ & _ & He & Hn).
  rewrite (i_ones b H). pose proof (i_run b H). lia.
Qed.

Lemma add_run_sep rs n s l : rs = [] \/ last_end rs < n -> n <= s -> add_run rs s l = rs ++ [(s, l)].
Proof.
  intros Hsep Hle. destruct (snoc_cases rs) as [->|(rs' & [s0 l0] & ->)]; [reflexivity|].
  destruct Hsep as [E|Hlt]; [destruct rs'; discriminate|].
  unfold last_end in Hlt. rewrite lastO_snoc in Hlt. cbn [fst snd] in Hlt.
  rewrite add_run_snoc. replace (s0 + l0 =? s) with false by lia. rewrite <- app_assoc. reflexivity.
Qed.

(* flush never fails; afterwards the active run is (len, 0) and the abstraction is unchanged *)
Lemma rl_flush_ok m b : RLInv b ->
  rl_flush m b = Ok (mkRL (blen b) (bones b) (if snd (brun b) =? 0 then btail b else blen b) (blen b, 0)
                          (bruns b ++ pending b)).
Proof.
  intros H. pose proof (rl_inv_bounds b H) as (Hb1 & Hb2 & Hb3).
  pose proof (i_run b H) as H1. pose proof (i_tail b H) as H2.
  destruct b as [n ones tail [r0 r1] rs]. cbn [brun blen bruns bones btail fst snd] in *.
  unfold rl_flush, pending. cbn [brun blen bruns bones btail fst snd].
  destruct (N.eqb_spec r1 0) as [E|E].
  - subst r1. replace (0 <=? 0) with true by lia. rewrite app_nil_r. replace r0 with n by lia. reflexivity.
  - replace (r1 <=? 0) with false by lia.
    rewrite (usub_ok m r0 tail) by lia. rewrite (usub_ok m r1 1) by lia. rewrite (uadd_ok m r0 r1) by lia.
    cbn [bind]. replace (tail + (r0 - tail)) with r0 by lia. replace (r1 - 1 + 1) with r1 by lia.
    replace (r0 + r1) with n by lia. reflexivity.
Qed.

Lemma last_end_flushed b : RLInv b ->
  (if snd (brun b) =? 0 then btail b else blen b) = last_end (bruns b ++ pending b).
Proof.
  intros H. pose proof (i_run b H) as H1. pose proof (i_tail_end b H) as H3.
  unfold pending. destruct (N.eqb_spec (snd (brun b)) 0) as [E|E].
  - rewrite app_nil_r. exact H3.
  - unfold last_end. rewrite lastO_snoc. lia.
Qed.

Lemma last_end_abs_le b : RLInv b ->
  last_end (bruns b ++ pending b) <= blen b /\ (if snd (brun b) =? 0 then btail b else blen b) <= blen b.
Proof.
  intros H. rewrite (last_end_flushed b H). destruct (i_ok b H) as (_ & _ & He & _).
  cbn [rl_abs fst] in He. lia.
Qed.

(* the step with exact arithmetic, as a function of the state alone *)
Definition ftail (b : rlb) : N := if snd (brun b) =? 0 then btail b else blen b.
Definition rl_next (b : rlb) (o : rlop) : rlb :=
  match o with
  | TrySet s l =>
    if rl_spec_accepts (rl_abs b) o && negb (l =? 0) then
      if s =? blen b
      then mkRL (blen b + l) (bones b + l) (btail b) (fst (brun b), snd (brun b) + l) (bruns b)
      else mkRL (s + l) (bones b + l) (ftail b) (s, l) (bruns b ++ pending b)
    else b
  | SetLen k => if blen b <? k then mkRL k (bones b) (ftail b) (k, 0) (bruns b ++ pending b) else b
  end.
Definition rl_delta (st : rl_spec) (o : rlop) : N :=
  match o with TrySet s l => if rl_spec_accepts st o then l else 0 | SetLen _ => 0 end.

Lemma rl_next_rejected b o : rl_spec_accepts (rl_abs b) o = false -> rl_next b o = b.
Proof. intros E. destruct o as [s l|k]; [|discriminate]. unfold rl_next. rewrite E. reflexivity. Qed.

(* the machine step never fails and is the exact step; its outcome is the specification's *)
Lemma rl_step_eq m b o : RLInv b -> rlop_wf o ->
  rl_step m b o = Ok (rl_next b o, out_of_bool (rl_spec_accepts (rl_abs b) o)).
Proof.
  intros H Hw. pose proof (rl_inv_bounds b H) as (Hb1 & Hb2 & Hb3).
  pose proof (rl_flush_ok m b H) as Hfl. fold (ftail b) in Hfl.
  destruct o as [s l|k]; cbn [rlop_wf] in Hw; unfold rl_step, rl_step_with, rl_next.
  - destruct Hw as [Hws Hwl]. unfold rl_try_set, rl_spec_accepts, rl_abs. cbn [snd].
    destruct (N.ltb_spec s (blen b)) as [Hs|Hs].
    { replace (blen b <=? s) with false by lia. reflexivity. }
    replace (blen b <=? s) with true by lia. cbn [andb].
    rewrite MAXU_val. rewrite (usub_ok m MAXW l) by lia. cbn [bind].
    destruct (N.ltb_spec (MAXW - l) s) as [Hm|Hm].
    { replace (s + l <=? MAXW) with false by lia. reflexivity. }
    replace (s + l <=? MAXW) with true by lia. cbn [andb out_of_bool].
    unfold rl_set_run. destruct (N.eqb_spec l 0) as [E|E].
    { subst l. replace (0 <=? 0) with true by lia. reflexivity. }
    replace (l <=? 0) with false by lia. cbn [negb].
    destruct (N.eqb_spec s (blen b)) as [E2|E2].
    + rewrite (uadd_ok m (blen b) l), (uadd_ok m (bones b) l), (uadd_ok m (snd (brun b)) l) by lia. reflexivity.
    + rewrite Hfl. cbn [bind bones btail bruns]. rewrite (uadd_ok m s l), (uadd_ok m (bones b) l) by lia. reflexivity.
  - unfold rl_set_len. cbn [rl_spec_accepts out_of_bool]. destruct (blen b <? k); [|reflexivity].
    rewrite Hfl. reflexivity.
Qed.

Lemma rl_next_abs b o : RLInv b -> rlop_wf o -> rl_abs (rl_next b o) = rl_spec_step (rl_abs b) o.
Proof.
  intros H Hw. pose proof (last_end_abs_le b H) as (Hle1 & _).
  pose proof (i_run b H) as H1. pose proof (i_tail_end b H) as H3. pose proof (i_sep b H) as H4.
  destruct b as [n ones tail [r0 r1] rs].
  unfold rl_next, rl_spec_step, ftail, rl_abs, pending in *. cbn [brun blen bruns bones btail fst snd] in *.
  destruct o as [s l|k].
  - destruct (rl_spec_accepts (rs ++ (if r1 =? 0 then [] else [(r0, r1)]), n) (TrySet s l)) eqn:Ea; cbn [andb]; [|reflexivity].
    unfold rl_spec_accepts in Ea. cbn [snd] in Ea.
    destruct (N.eqb_spec l 0) as [E|E]; cbn [negb]; [reflexivity|].
    destruct (N.eqb_spec s n) as [E2|E2]; cbn [brun blen bruns bones btail fst snd].
    + subst s. replace (r1 + l =? 0) with false by lia. destruct (N.eqb_spec r1 0) as [E3|E3].
      * rewrite app_nil_r. rewrite (add_run_sep rs n n l); [|rewrite <- H3; apply H4; exact E3|lia].
        replace r0 with n by lia. subst r1. replace (0 + l) with l by lia. reflexivity.
      * rewrite add_run_snoc. replace (r0 + r1 =? n) with true by lia. reflexivity.
    + replace (l =? 0) with false by lia.
      rewrite (add_run_sep _ (n + 1) s l); [reflexivity|right; lia|lia].
  - destruct (n <? k); cbn [brun blen bruns bones btail fst snd]; [|reflexivity].
    replace (0 =? 0) with true by reflexivity. rewrite app_nil_r. reflexivity.
Qed.

Lemma rl_spec_step_sum st o : run_sum (fst (rl_spec_step st o)) = run_sum (fst st) + rl_delta st o.
Proof.
  destruct o as [s l|k]; cbn [rl_spec_step rl_delta].
  - destruct (rl_spec_accepts st (TrySet s l)); [|lia]. destruct (N.eqb_spec l 0) as [E|E]; [lia|].
    cbn [fst]. apply run_sum_add_run.
  - destruct (snd st <? k); cbn [fst]; lia.
Qed.

Lemma rl_next_ones b o : bones (rl_next b o) = bones b + rl_delta (rl_abs b) o.
Proof.
  destruct o as [s l|k]; cbn [rl_next rl_delta].
  - destruct (rl_spec_accepts (rl_abs b) (TrySet s l)); cbn [andb]; [|lia].
    destruct (N.eqb_spec l 0) as [E|E]; cbn [negb]; [lia|]. destruct (s =? blen b); reflexivity.
  - destruct (blen b <? k); cbn [bones]; lia.
Qed.

Lemma rl_next_inv b o : RLInv b -> rlop_wf o -> RLInv (rl_next b o).
Proof.
  intros H Hw.
  pose proof (rl_next_abs b o H Hw) as Ha.
  pose proof (rl_spec_step_ok (rl_abs b) o (i_ok b H) Hw) as Hok. rewrite <- Ha in Hok.
  assert (Hones : bones (rl_next b o) = run_sum (fst (rl_abs (rl_next b o)))).
  { rewrite Ha, rl_spec_step_sum, rl_next_ones, (i_ones b H). reflexivity. }
  pose proof (last_end_flushed b H) as Hle. pose proof (last_end_abs_le b H) as (Hle1 & Hle2).
  fold (ftail b) in Hle, Hle2.
  pose proof (i_run b H) as H1. pose proof (i_tail b H) as H2. pose proof (i_tail_end b H) as H3.
  pose proof (i_sep b H) as H4.
  split; [| | | |exact Hones|exact Hok]; clear Ha Hok Hones.
  - destruct o as [s l|k]; cbn [rl_next].
    + destruct (rl_spec_accepts (rl_abs b) (TrySet s l) && negb (l =? 0)); [|exact H1].
      destruct (s =? blen b); cbn [brun blen fst snd]; lia.
    + destruct (blen b <? k); cbn [brun blen fst snd]; lia.
  - destruct o as [s l|k]; cbn [rl_next].
    + destruct (rl_spec_accepts (rl_abs b) (TrySet s l) && negb (l =? 0)) eqn:Ea; [|exact H2].
      unfold rl_spec_accepts, rl_abs in Ea. cbn [snd] in Ea.
      destruct (N.eqb_spec s (blen b)); cbn [brun btail fst snd]; lia.
    + destruct (N.ltb_spec (blen b) k); cbn [brun btail fst snd]; lia.
  - destruct o as [s l|k]; cbn [rl_next].
    + destruct (rl_spec_accepts (rl_abs b) (TrySet s l) && negb (l =? 0)); [|exact H3].
      destruct (s =? blen b); cbn [bruns btail]; [exact H3|exact Hle].
    + destruct (blen b <? k); cbn [bruns btail]; [exact Hle|exact H3].
  - destruct o as [s l|k]; cbn [rl_next].
    + destruct (rl_spec_accepts (rl_abs b) (TrySet s l) && negb (l =? 0)) eqn:Ea; [|exact H4].
      destruct (s =? blen b); cbn [brun snd]; lia.
    + destruct (N.ltb_spec (blen b) k); cbn [brun btail bruns blen snd]; [|exact H4].
      intros _. right. lia.
Qed.

(* one step: never fails, refines the specification step, the outcome is the specification's,
   and a refused call returns the very same state *)
Lemma rl_step_refines m b o : RLInv b -> rlop_wf o ->
  exists b', rl_step m b o = Ok (b', out_of_bool (rl_spec_accepts (rl_abs b) o)) /\
             RLInv b' /\ rl_abs b' = rl_spec_step (rl_abs b) o /\
             (rl_spec_accepts (rl_abs b) o = false -> b' = b).
Proof.
  intros H Hw. exists (rl_next b o). split; [exact (rl_step_eq m b o H Hw)|].
  split; [exact (rl_next_inv b o H Hw)|]. split; [exact (rl_next_abs b o H Hw)|exact (rl_next_rejected b o)].
Qed.


(* conversion and observables of a state that satisfies the invariant *)
Lemma rl_finish_ok m b : RLInv b -> rl_finish m b = Ok (rl_spec_final (rl_abs b)).
Proof.
  intros H. unfold rl_finish. rewrite (rl_flush_ok m b H). cbn [bind bruns blen bones].
  unfold rl_spec_final, rl_abs. cbn [fst snd]. rewrite (i_ones b H). reflexivity.
Qed.

Lemma rl_obs_ok m b : RLInv b -> rl_obs m b = Ok (rl_spec_obs (rl_abs b)).
Proof.
  intros H. pose proof (rl_inv_bounds b H) as (Hb1 & _). unfold rl_obs.
  rewrite (usub_ok m (blen b) (bones b)) by lia. rewrite (rl_finish_ok m b H). cbn [bind].
  unfold rl_spec_obs, rl_spec_final, rl_abs. cbn [fst snd]. rewrite (i_ones b H). reflexivity.
Qed.

Definition strip (x : outcome * rl_obs_t) : sout * rl_obs_t := (sout_of (fst x), snd x).

Lemma sout_of_bool a : sout_of (out_of_bool a) = if a then SAccepted else SRejected.
Proof. destruct a; reflexivity. Qed.

(* all histories, from any state that satisfies the invariant *)
Lemma rl_history_from m ops : forall b, RLInv b -> Forall rlop_wf ops ->
  exists b' tr, rl_run m b ops = Ok b' /\ RLInv b' /\
    rl_abs b' = fold_left rl_spec_step ops (rl_abs b) /\
    rl_trace m b ops = Ok tr /\ map strip tr = rl_spec_trace (rl_abs b) ops.
Proof.
  induction ops as [|o t IH]; intros b H Hw.
  - exists b, []. cbn. auto.
  - apply Forall_tail in Hw. destruct Hw as [Hw Hw'].
    destruct (rl_step_refines m b o H Hw) as (b1 & Hst & Hi & Ha & _).
    destruct (IH b1 Hi Hw') as (b' & tr & Hr & Hi' & Ha' & Ht & Hm).
    exists b', ((out_of_bool (rl_spec_accepts (rl_abs b) o), rl_spec_obs (rl_abs b1)) :: tr).
    unfold rl_run in *. cbn [rl_run_with rl_trace fold_left rl_spec_trace map].
    fold rl_step. rewrite Hst. cbn [bind]. rewrite (rl_obs_ok m b1 Hi), Ht. cbn [bind].
    rewrite <- Ha, Hm. unfold strip at 1. cbn [fst snd]. rewrite sout_of_bool.
    split; [exact Hr|]. split; [exact Hi'|]. split; [exact Ha'|]. split; reflexivity.
Qed.

Theorem rl_builder_history m ops : Forall rlop_wf ops ->
  exists b tr,
    rl_run m rl_init ops = Ok b /\
    rl_trace m rl_init ops = Ok tr /\ map strip tr = rl_spec_trace rl_spec_init ops /\
    let st := fold_left rl_spec_step ops rl_spec_init in
    rl_finish m b = Ok (fst st, snd st, run_sum (fst st)) /\ blen b = snd st /\ bones b = run_sum (fst st) /\
    runs_ok (fst st) (snd st) /\ run_sum (fst st) <= snd st /\ snd st <= MAXW /\
    forall p, in_runs (fst st) p = in_runs (rl_accepted rl_spec_init ops) p.
Proof.
  intros Hw. destruct (rl_history_from m ops rl_init rl_inv_init Hw) as (b & tr & Hr & Hi & Ha & Ht & Hm).
  exists b, tr. change (rl_abs rl_init) with rl_spec_init in *.
  split; [exact Hr|]. split; [exact Ht|]. split; [exact Hm|]. cbv zeta. rewrite <- Ha.
  pose proof (rl_inv_bounds b Hi) as (Hb1 & Hb2 & _).
  split; [exact (rl_finish_ok m b Hi)|]. split; [reflexivity|]. split; [exact (i_ones b Hi)|].
  split; [exact (i_ok b Hi)|]. split; [rewrite <- (i_ones b Hi); exact Hb1|]. split; [exact Hb2|].
  intros p. rewrite Ha, rl_spec_history_bits. reflexivity.
Qed.

(* the same with the well-formedness of the run list spelled out *)
Theorem rl_builder_history_full : forall (m : mode) (ops : list rlop),
  Forall rlop_wf ops ->
  exists b tr,
    rl_run m rl_init ops = Ok b /\
    rl_trace m rl_init ops = Ok tr /\
    map (fun x => (sout_of (fst x), snd x)) tr = rl_spec_trace rl_spec_init ops /\
    let st := fold_left rl_spec_step ops rl_spec_init in
    rl_finish m b = Ok (fst st, snd st, run_sum (fst st)) /\
    blen b = snd st /\ bones b = run_sum (fst st) /\
    chain (fun r q => fst r + snd r < fst q) (fst st) /\
    Forall (fun r => 0 < snd r /\ fst r + snd r <= snd st) (fst st) /\
    run_sum (fst st) <= snd st /\ snd st <= MAXW /\
    forall p, in_runs (fst st) p = in_runs (rl_accepted rl_spec_init ops) p.
Proof.
  intros m ops Hw. destruct (rl_builder_history m ops Hw) as (b & tr & H1 & H2 & H3 & H4 & H5 & H6 & H7 & H8 & H9 & H10).
  exists b, tr. repeat (split; [assumption|]). split; [exact (proj1 H7)|].
  split; [exact (runs_ok_within _ _ H7)|]. repeat (split; [assumption|]). exact H10.
Qed.

(* what one more call does in a reachable state *)
Theorem rl_rejected_no_effect m ops s l :
  Forall rlop_wf ops -> s <= MAXW -> l <= MAXW ->
  exists b, rl_run m rl_init ops = Ok b /\
    ((s < blen b \/ MAXW < s + l) -> rl_step m b (TrySet s l) = Ok (b, Rejected)) /\
    (~ (s < blen b \/ MAXW < s + l) ->
       exists b', rl_step m b (TrySet s l) = Ok (b', Accepted) /\
                  blen b' = (if l =? 0 then blen b else s + l) /\ bones b' = bones b + l /\
                  (l = 0 -> b' = b)) /\
    forall n, n <= MAXW ->
       exists b', rl_step m b (SetLen n) = Ok (b', Accepted) /\ blen b' = N.max (blen b) n /\
                  bones b' = bones b /\ (n <= blen b -> b' = b).
Proof.
  intros Hw Hs Hl. destruct (rl_history_from m ops rl_init rl_inv_init Hw) as (b & tr & Hr & Hi & _).
  exists b. split; [exact Hr|]. split; [|split].
  - intros Hrej. destruct (rl_step_refines m b (TrySet s l) Hi (conj Hs Hl)) as (b' & Hst & _ & _ & Hsame).
    assert (E : rl_spec_accepts (rl_abs b) (TrySet s l) = false).
    { unfold rl_spec_accepts, rl_abs. cbn [snd]. lia. }
    rewrite E in Hst. rewrite (Hsame E) in Hst. exact Hst.
  - intros Hacc. destruct (rl_step_refines m b (TrySet s l) Hi (conj Hs Hl)) as (b' & Hst & Hi' & Ha & _).
    assert (E : rl_spec_accepts (rl_abs b) (TrySet s l) = true).
    { unfold rl_spec_accepts, rl_abs. cbn [snd]. lia. }
    rewrite E in Hst. exists b'. split; [exact Hst|].
    assert (Hn : blen b' = snd (rl_abs b')) by reflexivity.
    assert (Ho : bones b' = run_sum (fst (rl_abs b'))) by exact (i_ones b' Hi').
    rewrite Ha in Hn, Ho. cbn [rl_spec_step] in Hn, Ho. rewrite E in Hn, Ho.
    rewrite (i_ones b Hi). destruct (N.eqb_spec l 0) as [E0|E0].
    + split; [exact Hn|]. split; [rewrite Ho; subst l; lia|]. intros _.
      (* a zero-length run is accepted and changes nothing at all *)
      clear - Hst E0 Hs. subst l. unfold rl_step, rl_step_with, rl_try_set in Hst.
      destruct (s <? blen b); [congruence|].
      destruct (usub m MAXU 0) as [room| |]; cbn [bind] in Hst; try discriminate.
      destruct (room <? s); [congruence|]. unfold rl_set_run in Hst.
      replace (0 <=? 0) with true in Hst by lia. cbn [bind] in Hst. congruence.
    + cbn [fst snd] in Hn, Ho. rewrite run_sum_add_run in Ho. split; [exact Hn|]. split; [exact Ho|]. intros; lia.
  - intros n Hn. destruct (rl_step_refines m b (SetLen n) Hi Hn) as (b' & Hst & Hi' & Ha & _).
    cbn [rl_spec_accepts out_of_bool] in Hst. exists b'. split; [exact Hst|].
    assert (Hlen : blen b' = snd (rl_abs b')) by reflexivity.
    assert (Ho : bones b' = run_sum (fst (rl_abs b'))) by exact (i_ones b' Hi').
    rewrite Ha in Hlen, Ho. cbn [rl_spec_step] in Hlen, Ho. rewrite (i_ones b Hi).
    change (snd (rl_abs b)) with (blen b) in *.
    destruct (N.ltb_spec (blen b) n) as [Hlt|Hge]; cbn [fst snd] in Hlen, Ho.
    + split; [lia|]. split; [exact Ho|]. intros; lia.
    + split; [change (snd (rl_abs b)) with (blen b) in Hlen; lia|]. split; [exact Ho|]. intros _.
      clear - Hst Hge. unfold rl_step, rl_step_with, rl_set_len in Hst.
      replace (blen b <? n) with false in Hst by lia. cbn [bind] in Hst. congruence.
Qed.

(* the set_len of before the repair breaks the correspondence: two calls suffice (finding F5) *)
Lemma rl_set_len_old_refuted :
  exists ops, Forall rlop_wf ops /\
    forall m, exists b, rl_run_with rl_set_len_old m rl_init ops = Ok b /\
      rl_finish m b <> Ok (rl_spec_final (fold_left rl_spec_step ops rl_spec_init)).
Proof.
  exists [SetLen 10; TrySet 10 5]. split.
  - constructor; [cbn; unfold MAXW; lia|]. constructor; [cbn; unfold MAXW; lia|constructor].
  - intros m. destruct m; eexists; (split; [vm_compute; reflexivity|vm_compute; discriminate]).
Qed.

(* ------------------------------------------------------------------ SparseBuilder *)

(* the only builder state with parameters P and accepted positions ps *)
Definition sb_of (P : sparams) (ps : list N) : spb :=
  mkSB (p_univ P) (p_cap P) (if p_multi P then 0 else 1) (lenL ps) (sp_next P ps) ps.

Definition sparams_wf (P : sparams) : Prop := p_univ P <= MAXW /\ p_cap P <= MAXW.
Definition sctor_wf (c : sctor) : Prop :=
  match c with NewS u o | MultisetS u o => u <= MAXW /\ o <= MAXW end.

Definition sout_res (s : sout) : res outcome :=
  match s with SAccepted => Ok Accepted | SRejected => Ok Rejected | SPanicked => Panic PUnwrap end.

Lemma sb_make_ok c : sb_make c = option_map (fun P => sb_of P []) (sp_params c).
Proof. destruct c as [u o|u o]; cbn [sb_make sp_params]; [destruct (u <? o)|]; reflexivity. Qed.

Lemma sp_params_wf c P : sctor_wf c -> sp_params c = Some P -> sparams_wf P.
Proof.
  destruct c as [u o|u o]; cbn [sctor_wf sp_params]; intros Hw E; [destruct (u <? o); [discriminate|]|];
    injection E as <-; exact Hw.
Qed.

Lemma sb_try_set_ok m P ps i : sparams_wf P -> pos_ok P ps ->
  sb_try_set m (sb_of P ps) i =
  if sp_accepts P ps i then (sb_of P (ps ++ [i]), Ok Accepted) else (sb_of P ps, Ok Rejected).
Proof.
  intros [Hu Hc] (Hch & Hfa & Hlen). destruct P as [[u cap] multi].
  unfold p_univ, p_cap, p_multi in *. cbn [fst snd] in *.
  unfold sb_try_set, sp_accepts, sb_is_full, sb_of. unfold p_univ, p_cap, p_multi. cbn [fst snd suniv scap sincr slen snext spos].
  destruct (N.eqb_spec (lenL ps) cap) as [E1|E1].
  { replace (lenL ps <? cap) with false by lia. reflexivity. }
  replace (lenL ps <? cap) with true by lia. cbn [andb].
  assert (Hnext : (i <? sp_next (u, cap, multi) ps) =
                  negb (match lastO ps with Some p => if multi then p <=? i else p <? i | None => true end)).
  { unfold sp_next, p_multi. cbn [snd]. destruct (lastO ps) as [p|]; [destruct multi|]; cbn [negb]; lia. }
  rewrite Hnext.
  destruct (match lastO ps with Some p => if multi then p <=? i else p <? i | None => true end) eqn:E2;
    cbn [negb]; [|rewrite andb_false_r; reflexivity].
  rewrite andb_true_r.
  destruct (N.ltb_spec i u) as [E3|E3].
  2:{ replace (u <=? i) with true by lia. reflexivity. }
  replace (u <=? i) with false by lia.
  unfold sb_set_unchecked. cbn [suniv scap sincr slen snext spos].
  rewrite (uadd_ok m (lenL ps) 1) by lia.
  rewrite (uadd_ok m i (if multi then 0 else 1)) by (destruct multi; lia).
  cbn [fst snd rmap bind]. f_equal. rewrite lenL_snoc. f_equal.
  unfold sp_next, p_multi. cbn [snd]. rewrite lastO_snoc. destruct multi; lia.
Qed.

Lemma sb_set_ok m P ps i : sparams_wf P -> pos_ok P ps ->
  sb_set m (sb_of P ps) i =
  if sp_accepts P ps i then (sb_of P (ps ++ [i]), Ok Accepted) else (sb_of P ps, Panic PUnwrap).
Proof.
  intros Hw Hp. unfold sb_set. rewrite (sb_try_set_ok m P ps i Hw Hp).
  destruct (sp_accepts P ps i); reflexivity.
Qed.

Lemma sb_extend_ok m P l : forall ps, sparams_wf P -> pos_ok P ps ->
  sb_extend m (sb_of P ps) l =
  (sb_of P (fst (sp_extend P ps l)), if snd (sp_extend P ps l) then Ok Accepted else Panic PUnwrap).
Proof.
  induction l as [|i t IH]; intros ps Hw Hp; cbn [sb_extend sp_extend]; [reflexivity|].
  rewrite (sb_set_ok m P ps i Hw Hp). destruct (sp_accepts P ps i) eqn:E; cbn [fst snd]; [|reflexivity].
  apply IH; [exact Hw|apply pos_ok_accept; assumption].
Qed.

(* one call: the whole new state and the result are those of the specification *)
Lemma sb_step_ok m P ps o : sparams_wf P -> pos_ok P ps ->
  sb_step m (sb_of P ps) o = (sb_of P (fst (sp_step P ps o)), sout_res (snd (sp_step P ps o))).
Proof.
  intros Hw Hp. destruct o as [i|i|l]; cbn [sb_step sp_step].
  - rewrite (sb_try_set_ok m P ps i Hw Hp). destruct (sp_accepts P ps i); reflexivity.
  - rewrite (sb_set_ok m P ps i Hw Hp). destruct (sp_accepts P ps i); reflexivity.
  - rewrite (sb_extend_ok m P l ps Hw Hp). cbn [fst snd]. destruct (snd (sp_extend P ps l)); reflexivity.
Qed.

Lemma sb_obs_ok P ps : sb_obs (sb_of P ps) = sp_obs P ps.
Proof.
  unfold sb_obs, sp_obs, sb_of, sb_is_full, sb_is_multiset. cbn [suniv scap sincr slen snext spos].
  destruct (p_multi P); reflexivity.
Qed.

Lemma sb_finish_ok P ps : sb_finish (sb_of P ps) = sp_finish P ps.
Proof.
  unfold sb_finish, sp_finish, sb_is_full, sb_of. cbn [suniv scap sincr slen snext spos].
  destruct (N.eqb_spec (lenL ps) (p_cap P)) as [E|E]; [rewrite E|]; reflexivity.
Qed.

Definition sstrip (x : sout * sp_obs_t) : res outcome * sp_obs_t := (sout_res (fst x), snd x).

Lemma sb_history_from m P ops : forall ps, sparams_wf P -> pos_ok P ps ->
  sb_run m (sb_of P ps) ops = sb_of P (sp_run P ps ops) /\
  sb_trace m (sb_of P ps) ops = map sstrip (sp_trace P ps ops).
Proof.
  induction ops as [|o t IH]; intros ps Hw Hp; cbn [sb_run sp_run sb_trace sp_trace map]; [split; reflexivity|].
  rewrite (sb_step_ok m P ps o Hw Hp). cbn [fst snd].
  destruct (IH (fst (sp_step P ps o)) Hw (sp_step_ok P ps o Hp)) as [Hr Ht].
  split; [exact Hr|]. rewrite Ht, sb_obs_ok. reflexivity.
Qed.

Theorem sparse_builder_history m c ops : sctor_wf c ->
  match sp_params c with
  | None => sb_make c = None
  | Some P =>
    let ps := sp_run P [] ops in
    sb_make c = Some (sb_of P []) /\
    sb_run m (sb_of P []) ops = sb_of P ps /\
    sb_trace m (sb_of P []) ops = map sstrip (sp_trace P [] ops) /\
    pos_ok P ps /\
    sb_finish (sb_of P ps) = (if lenL ps =? p_cap P then Some (p_univ P, lenL ps, ps) else None)
  end.
Proof.
  intros Hw. rewrite sb_make_ok. destruct (sp_params c) as [P|] eqn:E; [|reflexivity].
  pose proof (sp_params_wf c P Hw E) as HP. cbv zeta. cbn [option_map].
  destruct (sb_history_from m P ops [] HP (pos_ok_nil P)) as [Hr Ht].
  split; [reflexivity|]. split; [exact Hr|]. split; [exact Ht|].
  split; [apply sp_run_ok; apply pos_ok_nil|]. apply sb_finish_ok.
Qed.

Theorem sparse_builder_history_full : forall (m : mode) (c : sctor) (ops : list sop),
  sctor_wf c ->
  match sp_params c with
  | None => sb_make c = None /\ exists u o, c = NewS u o /\ u < o
  | Some P =>
    let ps := sp_run P [] ops in
    sb_make c = Some (sb_of P []) /\
    sb_run m (sb_of P []) ops = sb_of P ps /\
    sb_trace m (sb_of P []) ops = map (fun x => (sout_res (fst x), snd x)) (sp_trace P [] ops) /\
    chain (fun a b => if p_multi P then a <= b else a < b) ps /\
    Forall (fun p => p < p_univ P) ps /\
    lenL ps <= p_cap P
  end.
Proof.
  intros m c ops Hw. pose proof (sparse_builder_history m c ops Hw) as H.
  destruct (sp_params c) as [P|] eqn:E.
  - cbv zeta in *. destruct H as (H1 & H2 & H3 & (H4 & H5 & H6) & _). repeat (split; [assumption|]). exact H6.
  - split; [exact H|]. destruct c as [u o|u o]; cbn [sp_params] in E; [|discriminate].
    exists u, o. split; [reflexivity|]. destruct (N.ltb_spec u o); [assumption|discriminate].
Qed.

(* the acceptance rule in plain arithmetic *)
Lemma sparse_accepts_meaning : forall (P : sparams) (ps : list N) (i : N),
  sp_accepts P ps i = true <->
  lenL ps < p_cap P /\ i < p_univ P /\
  match lastO ps with None => True | Some p => if p_multi P then p <= i else p < i end.
Proof.
  intros P ps i. unfold sp_accepts. rewrite !andb_true_iff, N.ltb_lt, N.ltb_lt.
  destruct (lastO ps) as [p|]; [destruct (p_multi P); [rewrite N.leb_le|rewrite N.ltb_lt]|]; tauto.
Qed.

(* a refused call in a reachable state: the whole state is unchanged; extend stops at the first
   refused element, having applied exactly the elements before it *)
Theorem sparse_rejected_no_effect m c P ops : sctor_wf c -> sp_params c = Some P ->
  let b := sb_run m (sb_of P []) ops in
  let ps := sp_run P [] ops in
  b = sb_of P ps /\
  (forall i, sp_accepts P ps i = false ->
     sb_step m b (TrySetS i) = (b, Ok Rejected) /\ sb_step m b (SetS i) = (b, Panic PUnwrap)) /\
  (forall i, sp_accepts P ps i = true ->
     sb_step m b (TrySetS i) = (sb_of P (ps ++ [i]), Ok Accepted) /\
     sb_step m b (SetS i) = (sb_of P (ps ++ [i]), Ok Accepted)) /\
  (forall l, exists pre post, l = pre ++ post /\
     sb_step m b (ExtendS pre) = (sb_of P (ps ++ pre), Ok Accepted) /\
     ((post = [] /\ sb_step m b (ExtendS l) = (sb_of P (ps ++ pre), Ok Accepted)) \/
      (exists x post', post = x :: post' /\ sp_accepts P (ps ++ pre) x = false /\
         sb_step m b (ExtendS l) = (sb_of P (ps ++ pre), Panic PUnwrap)))).
Proof.
  intros Hw E. cbv zeta. pose proof (sp_params_wf c P Hw E) as HP.
  destruct (sb_history_from m P ops [] HP (pos_ok_nil P)) as [Hr _].
  pose proof (sp_run_ok P ops [] (pos_ok_nil P)) as Hp.
  split; [exact Hr|]. rewrite Hr. set (ps := sp_run P [] ops) in *.
  split; [|split].
  - intros i Hi. rewrite !(sb_step_ok m P ps _ HP Hp). cbn [sp_step]. rewrite Hi. split; reflexivity.
  - intros i Hi. rewrite !(sb_step_ok m P ps _ HP Hp). cbn [sp_step]. rewrite Hi. split; reflexivity.
  - intros l. destruct (sp_extend_prefix P l ps) as (pre & post & El & H1 & H2 & H3 & H4).
    exists pre, post. split; [exact El|].
    rewrite !(sb_step_ok m P ps _ HP Hp). cbn [sp_step]. rewrite H2, H1. cbn [fst snd sout_res].
    split; [reflexivity|]. destruct (snd (sp_extend P ps l)) eqn:Es.
    + left. split; [apply H3; reflexivity|reflexivity].
    + right. destruct (H4 eq_refl) as (x & post' & Ep & Hx). exists x, post'. repeat split; assumption.
Qed.

(* conversion succeeds exactly for a full builder and returns exactly the accepted positions *)
Theorem sparse_conversion m c P ops : sctor_wf c -> sp_params c = Some P ->
  let b := sb_run m (sb_of P []) ops in
  let ps := sp_run P [] ops in
  slen b = lenL ps /\ scap b = p_cap P /\ suniv b = p_univ P /\ spos b = ps /\ slen b <= scap b /\
  (slen b = scap b -> sb_finish b = Some (p_univ P, lenL ps, ps)) /\
  (slen b <> scap b -> sb_finish b = None).
Proof.
  intros Hw E. cbv zeta. pose proof (sp_params_wf c P Hw E) as HP.
  destruct (sb_history_from m P ops [] HP (pos_ok_nil P)) as [Hr _].
  pose proof (sp_run_ok P ops [] (pos_ok_nil P)) as (_ & _ & Hl).
  rewrite Hr. rewrite sb_finish_ok. unfold sb_of, sp_finish. cbn [suniv scap sincr slen snext spos].
  repeat split; [exact Hl| |].
  - intros Ef. rewrite Ef. rewrite N.eqb_refl. reflexivity.
  - intros Ef. replace (lenL (sp_run P [] ops) =? p_cap P) with false by lia. reflexivity.
Qed.
