(* C04 closed: the two interface premises of the wavelet-matrix theorems (Proofs/WMProof.v) are discharged with
   the bitvector theorems of Proofs/BVFull.v (bv_from_bits + bv_enable_all answer every query of their ideal
   column, for every query mode / select path) and the IntVector refinement of Proofs/IntVecProof.v
   (collect with width 64, pack, get). Hence for every vector V of 64-bit items with |V| < 2^64 and
   max V + 1 < 2^64 the model's From<Vec<T>> returns, and its result answers every query exactly. *)
From Coq Require Import NArith List Lia ZArith Bool.
Require Import SDS.Model.Mach SDS.Model.Bits SDS.Model.Raw SDS.Model.IntVec SDS.Model.BitVec SDS.Model.WM.
Require Import SDS.Spec.BitSeq SDS.Spec.SeqSpec SDS.Spec.Seq.
Require Import SDS.Proofs.BitsProof SDS.Proofs.BVCommon SDS.Proofs.BVFull SDS.Proofs.IntVecProof.
Require Import SDS.Proofs.WMSeq SDS.Proofs.WMOffsets SDS.Proofs.WMProof.
Import ListNotations.
Open Scope N_scope.
Require Import ZifyBool ZifyN ZifyNat.
Ltac Zify.zify_post_hook ::= Z.div_mod_to_equations.
Arguments N.add : simpl never. Arguments N.sub : simpl never. Arguments N.mul : simpl never.
Arguments N.eqb : simpl never. Arguments N.ltb : simpl never. Arguments N.leb : simpl never.
Arguments N.pow : simpl never. Arguments N.min : simpl never. Arguments N.max : simpl never.

(* ---------------------------------------------------------------- premise 1: the level bitvectors *)

(* the level as a function of its column: bv_from_bits, then the three supports *)
Theorem level_built sp m (col : list bool) : lenB col < 2 ^ 64 ->
  exists r b, bv_from_bits col = Ok r /\ bv_enable_all sp m r = Ok b /\
    (forall sp' m', bv_queries_ok sp' m' b col).
Proof.
  intros HL. destruct (bv_from_bits_ok col HL) as (r & Er & Hr & N1 & N2 & N3).
  destruct (bv_enable_all_ok_any sp m r col Hr N1 N2 N3) as (b & Eb & _ & _ & _ & _ & Hq & _).
  exists r, b. split; [exact Er|]. split; [exact Eb|exact Hq].
Qed.

(* ---------------------------------------------------------------- premise 2: the offsets IntVector *)

Lemma nthN_nthn (F : list N) v x : nthN F v = Some x -> nthn F v = x.
Proof. rewrite nthN_nth_error. unfold nthn. intros H. apply nth_error_nth. exact H. Qed.

(* collect (width 64) + pack + get returns the offsets, whatever they are (below 2^64) *)
Theorem first_built (F : list N) : Forall (fun x => x < 2 ^ 64) F ->
  exists iv first, iv_from 64 F = Ok iv /\ iv_pack iv = Ok first /\ first_ok first F /\
    iv_inv first /\ abs_iv first = F /\
    iwidth first = (if lenL F =? 0 then 64 else digits (list_maxN F)).
Proof.
  intros HF. destruct (iv_from_ok 64 F ltac:(lia)) as (iv & E1 & Hi1 & Ha1).
  unfold abs_is in Ha1. injection Ha1 as Hw1 Ha1. rewrite (map_trunc_fits 64 F HF) in Ha1.
  destruct (iv_pack_ok iv Hi1) as (first & E2 & Hi2 & Ha2 & Hw2). rewrite Ha1 in Ha2, Hw2. rewrite Hw1 in Hw2.
  exists iv, first. split; [exact E1|]. split; [exact E2|].
  destruct (iv_repr first Hi2) as (_ & Hlen & _). rewrite Ha2 in Hlen.
  split; [|split; [exact Hi2|split; [exact Ha2|exact Hw2]]].
  split; [unfold lenL, lenN in *; lia|].
  intros v x Hx. rewrite (iv_get_ok first v Hi2).
  - rewrite Ha2. f_equal. apply nthN_nthn. exact Hx.
  - apply nthN_Some_lt in Hx. unfold lenL, lenN in *. lia.
Qed.

(* ---------------------------------------------------------------- the build is independent of the mode's arithmetic *)

Lemma first_offsets_mode m m' V len mx : mx + 1 < 2 ^ 64 -> first_offsets m V len mx = first_offsets m' V len mx.
Proof.
  intros H. unfold first_offsets, uadd. replace (mx + 1 <? 2 ^ 64) with true by lia. reflexivity.
Qed.

(* ---------------------------------------------------------------- the core *)

Section Closed.
Variables (sp : selpath) (m : mode) (V : list N).
Hypothesis HV : Forall (fun x => x < 2 ^ 64) V.
Hypothesis Hn : lenN V < 2 ^ 64.

Lemma col_len col : In col (wm_columns V) -> lenB col < 2 ^ 64.
Proof.
  intros Hc. pose proof (wm_columns_lens V HV) as HL. rewrite Forall_forall in HL. rewrite (HL col Hc). exact Hn.
Qed.

(* WMCore::from returns; each level is the bitvector built from its ideal column and answers every query of it
   in every query mode and select path *)
Theorem wm_core_from_closed :
  exists levels, wm_core_from sp m V = Ok (mkcore levels) /\
    Forall2 (fun b col => exists r, bv_from_bits col = Ok r /\ bv_enable_all sp m r = Ok b) levels (wm_columns V) /\
    (forall sp' m', Forall2 (bv_queries_ok sp' m') levels (wm_columns V)).
Proof.
  destruct (core_levels_total (N.to_nat (bit_len (list_max V))) (bit_len (list_max V)) 0 V) as [raws Hraws].
  { intros c Hc. fold (wm_columns V) in Hc. destruct (level_built sp m c (col_len c Hc)) as (r & _ & Hr & _). eauto. }
  pose proof (core_levels_shape _ _ _ _ _ Hraws) as Hshape. fold (wm_columns V) in Hshape.
  destruct (init_support_total sp m raws) as [levels Hlevels].
  { intros r Hr. destruct (Forall2_in_r _ _ _ _ Hshape Hr) as (c & Hc & Hcr).
    destruct (level_built sp m c (col_len c Hc)) as (r' & b & H1 & H2 & _). exists b. congruence. }
  pose proof (init_support_shape _ _ _ _ Hlevels) as Hsup.
  exists levels. split; [|split].
  - unfold wm_core_from. rewrite Hraws. cbn [bind]. rewrite Hlevels. reflexivity.
  - eapply Forall2_compose; [exact Hshape|exact Hsup|]. intros c r b _ Hr Hb. exists r. split; assumption.
  - intros sp' m'. eapply Forall2_compose; [exact Hshape|exact Hsup|]. intros c r b Hc Hr Hb.
    destruct (level_built sp m c (col_len c Hc)) as (r' & b' & H1 & H2 & H3).
    assert (r' = r) by congruence. subst r'. assert (b' = b) by congruence. subst b'. apply H3.
Qed.

(* ---------------------------------------------------------------- the matrix *)

Hypothesis Hmax : list_max V + 1 < 2 ^ 64.

Theorem wm_from_closed :
  exists levels first F,
    wm_from sp m V = Ok (mkwm (lenN V) (mkcore levels) first) /\
    wm_core_from sp m V = Ok (mkcore levels) /\
    (forall sp' m', Forall2 (bv_queries_ok sp' m') levels (wm_columns V)) /\
    (forall m', first_offsets m' V (lenN V) (list_max V) = Ok F) /\ first_ok first F /\
    iv_inv first /\ abs_iv first = F /\ lenN F = list_max V + 1 /\
    (exists iv, iv_from 64 F = Ok iv /\ iv_pack iv = Ok first).
Proof.
  destruct wm_core_from_closed as (levels & Hc & _ & Hq).
  destruct (first_offsets_ok m V HV Hmax) as (F & HF & HF2 & _).
  destruct (offsets_bounded m V F HV Hn Hmax HF) as [HFl HFb].
  destruct (first_built F) as (iv & first & E1 & E2 & Hok & Hinv & Habs & _).
  { rewrite Forall_forall in *. intros x Hx. specialize (HFb x Hx). lia. }
  exists levels, first, F. split; [|split; [exact Hc|split; [exact Hq|]]].
  - unfold wm_from, start_offsets. rewrite HF. cbn [bind]. rewrite E1. cbn [bind]. rewrite E2. cbn [bind].
    rewrite Hc. reflexivity.
  - split; [intros m'; rewrite <- HF; apply first_offsets_mode; exact Hmax|].
    split; [exact Hok|]. split; [exact Hinv|]. split; [exact Habs|]. split; [exact HFl|]. eauto.
Qed.

End Closed.

(* ---------------------------------------------------------------- the closed statements of C04 *)

(* the core mapping of a built core, for every query mode and select path *)
Theorem core_mapping_closed sp m V :
  Forall (fun x => x < 2 ^ 64) V -> lenN V < 2 ^ 64 ->
  exists core, wm_core_from sp m V = Ok core /\
  forall sp' m',
  wc_len core = Ok (lenS V) /\ wc_width core = width_v V /\
  (forall i, i < 2 ^ 64 -> wc_map_down m' core i = Ok (map_down_v V i)) /\
  (forall i v, i < 2 ^ 64 -> wc_map_down_with m' core i v = Ok (map_down_with_v V i (v mod 2 ^ width_v V))) /\
  (forall i1 i2 v, i1 < 2 ^ 64 -> i2 < 2 ^ 64 ->
     wc_map_down_with_two m' core i1 i2 v =
     Ok (map_down_with_v V i1 (v mod 2 ^ width_v V), map_down_with_v V i2 (v mod 2 ^ width_v V))) /\
  (forall j v, j < 2 ^ 64 -> wc_map_up_with sp' m' core j v = Ok (map_up_v V j (v mod 2 ^ width_v V))) /\
  (forall i x, nth_opt V i = Some x ->
     exists j, j < lenS V /\ wc_map_down m' core i = Ok (Some (j, x)) /\
               wc_map_down_with m' core i x = Ok j /\ wc_map_up_with sp' m' core j x = Ok (Some i)).
Proof.
  intros HV Hn. destruct (wm_core_from_closed sp m V HV Hn) as (levels & Hc & _ & Hq).
  exists (mkcore levels). split; [exact Hc|]. intros sp' m'. exact (core_mapping sp' m' V levels HV Hn (Hq sp' m')).
Qed.

(* the matrix built by From<Vec<T>> answers exactly, for every query mode and select path *)
Theorem wm_exact_closed sp m V :
  Forall (fun x => x < 2 ^ 64) V -> lenN V < 2 ^ 64 -> list_max V + 1 < 2 ^ 64 ->
  exists wm, wm_from sp m V = Ok wm /\ wm_core_from sp m V = Ok (wm_data wm) /\
  forall sp' m',
  wm_len wm = lenS V /\ wm_width wm = width_v V /\ wm_width wm = bit_len (list_max V) /\
  (forall i, i < 2 ^ 64 -> wm_get m' wm i = match get_v V i with Some x => Ok x | None => Panic PUnwrap end) /\
  (forall i v, i < 2 ^ 64 -> wm_rank m' wm i v = Ok (rank_v V i v)) /\
  (forall r v, r < 2 ^ 64 -> wm_select sp' m' wm r v = Ok (select_v V r v)) /\
  (forall i, i < 2 ^ 64 -> wm_inverse_select m' wm i = Ok (inverse_select_v V i)) /\
  (forall v, wm_contains wm v = Ok (contains_v V v)) /\
  (forall v, vi_items sp' m' wm (wm_value_iter v) = Ok (value_iter_v V v) /\ wm_value_of (wm_value_iter v) = v) /\
  (forall r v, r < 2 ^ 64 -> vi_items sp' m' wm (wm_select_iter r v) = Ok (select_iter_v V r v)) /\
  (forall i v, i < 2 ^ 64 -> (let* it := wm_predecessor m' wm i v in vi_items sp' m' wm it) = Ok (pred_v V i v)) /\
  (forall i v, i < 2 ^ 64 -> (let* it := wm_successor m' wm i v in vi_items sp' m' wm it) = Ok (succ_v V i v)) /\
  wm_into_iter m' wm = Ok V.
Proof.
  intros HV Hn Hmax. destruct (wm_from_closed sp m V HV Hn Hmax) as (levels & first & F & Hw & Hc & Hq & HF & Hok & _).
  exists (mkwm (lenN V) (mkcore levels) first). split; [exact Hw|]. split; [exact Hc|]. intros sp' m'.
  exact (wm_exact sp' m' V levels first F HV Hn Hmax (Hq sp' m') (HF m') Hok).
Qed.

(* From<Vec<T>> returns and establishes the hypotheses of wm_exact / core_mapping: no premise left *)
Theorem wm_from_vec_closed sp m V :
  Forall (fun x => x < 2 ^ 64) V -> lenN V < 2 ^ 64 -> list_max V + 1 < 2 ^ 64 ->
  exists levels first F,
    wm_from sp m V = Ok (mkwm (lenN V) (mkcore levels) first) /\
    wm_core_from sp m V = Ok (mkcore levels) /\
    (forall sp' m', Forall2 (bv_queries_ok sp' m') levels (wm_columns V)) /\
    (forall m', first_offsets m' V (lenN V) (list_max V) = Ok F) /\ first_ok first F.
Proof.
  intros HV Hn Hmax. destruct (wm_from_closed sp m V HV Hn Hmax) as (levels & first & F & Hw & Hc & Hq & HF & Hok & _).
  exists levels, first, F. tauto.
Qed.
