(* Tie lemmas, src/raw_vector.rs, src/int_vector.rs, src/serialize.rs: the size helpers translated from the CURRENT
   source (gen/Funs2.v) are the functions the models use. The models compute these sizes in exact N; the
   hypotheses are exactly the bounds under which the machine arithmetic does not overflow. *)
From Coq Require Import NArith List Lia ZArith Bool.
Require Import ZifyBool ZifyN ZifyNat.
Ltac Zify.zify_post_hook ::= Z.div_mod_to_equations.
Arguments N.add : simpl never.
Arguments N.sub : simpl never.
Arguments N.mul : simpl never.
Arguments N.div : simpl never.
Arguments N.modulo : simpl never.
Arguments N.pow : simpl never.
Arguments N.eqb : simpl never.
Arguments N.ltb : simpl never.
Arguments N.leb : simpl never.
Arguments N.shiftl : simpl never.
Arguments N.shiftr : simpl never.
Arguments N.land : simpl never.
Arguments N.lor : simpl never.
Open Scope N_scope.

Require Import SDS.Model.Mach SDS.Model.Bits SDS.Model.Raw SDS.Model.IntVec SDS.Model.Ser.
Require Import SDS.gen.Consts SDS.gen.Funs SDS.gen.Funs2 SDS.Proofs.BitsProof.

(* RawVector::size_by_params(capacity) = 2 + bits_to_words(capacity) *)
Theorem tie_raw_size_by_params : forall m capacity, capacity + 63 < 2 ^ 64 ->
  f2_raw_size_by_params m capacity = Ok (raw_size_by_params capacity).
Proof.
  intros m c H. unfold f2_raw_size_by_params, raw_size_by_params.
  destruct (bits_to_words_spec m c H) as [_ ->]. cbn [bind]. unfold uadd, bits_to_words. change bits_WORD_BITS with 64.
  replace (2 + (c + (64 - 1)) / 64 <? 2 ^ 64) with true by lia. reflexivity.
Qed.

(* IntVector::size_by_params(capacity, width) = 2 + RawVector::size_by_params(capacity * width) *)
Theorem tie_iv_size_by_params : forall m capacity width, capacity * width + 63 < 2 ^ 64 ->
  f2_iv_size_by_params m capacity width = Ok (iv_size_by_params capacity width).
Proof.
  intros m c w H. unfold f2_iv_size_by_params, iv_size_by_params, umul.
  replace (c * w <? 2 ^ 64) with true by lia. cbn [bind].
  rewrite (tie_raw_size_by_params m (c * w) H). cbn [bind]. unfold uadd, raw_size_by_params, bits_to_words.
  change bits_WORD_BITS with 64.
  replace (2 + (2 + (c * w + (64 - 1)) / 64) <? 2 ^ 64) with true by lia. reflexivity.
Qed.

(* serialize::absent_option_size() = 1 *)
Theorem tie_absent_option_size : forall m, f2_absent_option_size m = Ok absent_option_size.
Proof. reflexivity. Qed.
