(* C07, READ direction for the core types: a file produced from SERIALIZATION.md alone (the document's writer
   F.doc_encode_T of Spec/Format.v: no support structures, any admissible width) is loaded by the byte-level model of
   the crate's loaders (Model/Ser.v) into a value whose content is the content the writer was given.
   Method: the element list the document's writer produces IS the element list the model's serializer writes for a
   canonical model value (raw_of B, iv_of w items, bv_of B: the words are the document's packing of the bits, so the
   equalities hold by computation); those values are well-formed for their codecs; hence the codecs' round-trip
   theorems (Proofs/SerTypes.v) apply to the document's bytes. *)
From Coq Require Import NArith List Lia ZArith Bool.
Require Import SDS.Model.Mach SDS.Model.Bits SDS.Model.Raw SDS.Model.IntVec SDS.Model.BitVec SDS.Model.Ser SDS.Model.SerBV.
Require Import SDS.gen.Consts.
Require Import SDS.Spec.BitSeq SDS.Spec.SeqSpec SDS.Spec.Stream.
Require Import SDS.Proofs.BitsProof SDS.Proofs.RawProof SDS.Proofs.IntVecProof SDS.Proofs.SerProof SDS.Proofs.SerTypes.
Require Import SDS.Proofs.BVCommon SDS.Proofs.BVFull SDS.Proofs.SerSupports.
Require SDS.Spec.Format SDS.Proofs.FormatProof SDS.Proofs.FormatConform.
Import ListNotations.
Open Scope N_scope.
Require Import ZifyBool ZifyN ZifyNat.
Ltac Zify.zify_post_hook ::= Z.div_mod_to_equations.
Arguments N.add : simpl never. Arguments N.sub : simpl never. Arguments N.mul : simpl never.
Arguments N.eqb : simpl never. Arguments N.ltb : simpl never. Arguments N.leb : simpl never.
Arguments N.pow : simpl never. Arguments N.shiftl : simpl never. Arguments N.shiftr : simpl never.
Arguments N.land : simpl never. Arguments N.lor : simpl never. Arguments N.div : simpl never.
Arguments N.modulo : simpl never. Arguments N.ones : simpl never. Arguments N.testbit : simpl never.

Module F := SDS.Spec.Format.
Module FP := SDS.Proofs.FormatProof.
Module FC := SDS.Proofs.FormatConform.

(* ================================================================ RawVector *)

(* the model value whose serialization is the document's encoding of B *)
Definition raw_of (B : list bool) : raw := mkraw (F.lenN B) (F.words_of_bits B).

Lemma raw_of_serialize B : raw_serialize (raw_of B) = F.doc_encode_raw B.
Proof. reflexivity. Qed.

Lemma nth_app_repeat_false (B : list bool) k i : nth i (B ++ repeat false k) false = nth i B false.
Proof.
  destruct (Nat.lt_ge_cases i (length B)) as [H|H].
  - apply app_nth1. exact H.
  - rewrite app_nth2 by exact H. rewrite (nth_overflow B) by exact H.
    destruct (Nat.lt_ge_cases (i - length B) k) as [H2|H2].
    + apply nth_repeat.
    + apply nth_overflow. rewrite repeat_length. exact H2.
Qed.

Lemma words_wf B : wf (F.words_of_bits B).
Proof. apply FC.Forall_of_file_ok. apply FP.pack_words_ok. Qed.

Lemma raw_of_inv B : raw_inv (raw_of B) /\ abs_raw (raw_of B) = B.
Proof.
  unfold raw_of. apply raw_of_bits.
  - apply words_wf.
  - rewrite bits_to_words_eq. exact (FP.words_of_bits_len B).
  - reflexivity.
  - intros p. rewrite <- nthb_bits_of_words. destruct (FP.words_of_bits_spec B) as (pad & E & _ & _).
    rewrite E. unfold nthb. apply nth_app_repeat_false.
Qed.

Lemma raw_of_ok B : F.lenN B + 63 < 2 ^ 64 -> raw_ok (raw_of B).
Proof.
  intros HB. unfold raw_ok, raw_of. cbn [rlen rdata]. split; [exact HB|]. split.
  - rewrite bits_to_words_eq. exact (FP.words_of_bits_len B).
  - apply words_wf.
Qed.

Lemma raw_of_wf B : F.lenN B < 2 ^ 64 -> raw_wf (raw_of B).
Proof. intros HB. apply raw_inv_wf; [apply raw_of_inv|exact HB]. Qed.

(* RawVector::load on the document's bytes *)
Theorem read_raw m B rest : F.lenN B + 63 < 2 ^ 64 ->
  c_dec (raw_codec m) (flat_map le64 (F.doc_encode_raw B) ++ rest) = IoOk (raw_of B, rest) /\
  raw_inv (raw_of B) /\ abs_raw (raw_of B) = B.
Proof.
  intros HB. split; [|apply raw_of_inv].
  rewrite <- raw_of_serialize, <- (raw_enc_elems m). apply (ok_rt _ (raw_codec_ok m)). exact (raw_of_ok B HB).
Qed.

(* ================================================================ IntVector *)

Definition iv_of (w : N) (items : list N) : intvec := mkiv (F.lenN items) w (raw_of (flat_map (F.vbits w) items)).

Lemma iv_of_serialize w items : iv_serialize (iv_of w items) = F.doc_encode_int w items.
Proof. reflexivity. Qed.

Lemma firstn_map_seq {A} (f : nat -> A) k n : (k <= n)%nat -> firstn k (map f (seq 0 n)) = map f (seq 0 k).
Proof.
  intros H. rewrite firstn_map. f_equal. replace n with (k + (n - k))%nat by lia. rewrite seq_app.
  rewrite <- (seq_length k 0) at 1. apply FP.firstn_app_exact.
Qed.

Lemma vbits_same w v : w <= 64 -> F.vbits w v = vbits v w.
Proof.
  intros Hw. unfold F.vbits, vbits, takeN, wbits. symmetry. apply firstn_map_seq. lia.
Qed.

Lemma flat_vbits_boi w items : w <= 64 -> flat_map (F.vbits w) items = bits_of_items w items.
Proof.
  intros Hw. unfold bits_of_items. induction items as [|x t IH]; [reflexivity|].
  cbn [flat_map]. rewrite IH, vbits_same by exact Hw. reflexivity.
Qed.

Lemma iv_of_inv w items : 1 <= w <= 64 -> Forall (fun v => v < 2 ^ w) items ->
  iv_inv (iv_of w items) /\ abs_iv (iv_of w items) = items.
Proof.
  intros Hw Hf. unfold iv_of. apply iv_of_bits.
  - exact Hw.
  - apply raw_of_inv.
  - rewrite (proj2 (raw_of_inv _)). apply flat_vbits_boi. lia.
  - exact Hf.
  - reflexivity.
Qed.

Lemma iv_of_ok w items : 1 <= w <= 64 -> F.lenN items * w + 63 < 2 ^ 64 -> iv_ok (iv_of w items).
Proof.
  intros Hw Hb. unfold iv_ok, iv_of. cbn [ilen iwidth idata].
  assert (Hl : F.lenN (flat_map (F.vbits w) items) = F.lenN items * w) by apply FP.flat_vbits_len.
  split; [nia|]. split; [lia|]. split.
  - unfold raw_of. cbn [rlen]. symmetry. exact Hl.
  - apply raw_of_ok. rewrite Hl. exact Hb.
Qed.

(* IntVector::load on the document's bytes: ANY width 1..64 that holds the items *)
Theorem read_int m w items rest : 1 <= w <= 64 -> F.lenN items * w + 63 < 2 ^ 64 -> Forall (fun v => v < 2 ^ w) items ->
  c_dec (iv_codec m) (flat_map le64 (F.doc_encode_int w items) ++ rest) = IoOk (iv_of w items, rest) /\
  iv_inv (iv_of w items) /\ iwidth (iv_of w items) = w /\ abs_iv (iv_of w items) = items.
Proof.
  intros Hw Hb Hf. destruct (iv_of_inv w items Hw Hf) as [Hinv Habs].
  split; [|split; [exact Hinv|split; [reflexivity|exact Habs]]].
  rewrite <- iv_of_serialize, <- (iv_enc_elems m). apply (ok_rt _ (iv_codec_ok m)). exact (iv_of_ok w items Hw Hb).
Qed.

(* ================================================================ BitVector *)

Definition bv_of (B : list bool) : bitvec := mkbv (count B) (raw_of B) None None None.

Lemma bv_of_serialize B : bv_serialize (bv_of B) = F.doc_encode_bv F.no_sup B.
Proof. reflexivity. Qed.

Lemma bv_of_from_raw B : bv_of B = bv_from_raw (raw_of B).
Proof.
  unfold bv_of, bv_from_raw. f_equal. destruct (raw_of_inv B) as [Hinv Habs].
  rewrite (raw_count_ones_spec _ Hinv), Habs. reflexivity.
Qed.

Lemma bv_of_repr B : F.lenN B < 2 ^ 64 -> bv_repr (bv_of B) B.
Proof.
  intros HB. rewrite bv_of_from_raw. destruct (raw_of_inv B) as [Hinv Habs].
  rewrite <- Habs at 2. apply bv_from_raw_inv_repr; [exact Hinv|exact HB].
Qed.

Lemma bv_of_no_supports B : no_supports (bv_of B).
Proof. repeat split. Qed.

Lemma bv_of_ok B : F.lenN B + select_SUPERBLOCK_SIZE < 2 ^ 64 -> bv_ok (bv_of B).
Proof.
  intros HB. change select_SUPERBLOCK_SIZE with 4096 in *. unfold bv_ok, bv_of. cbn [bv_ones bv_data bv_rank bv_select bv_select_zero].
  split; [exact (count_le_length B)|]. split; [exact HB|]. split; [apply raw_of_ok; lia|]. repeat split.
Qed.

(* BitVector::load on the document's bytes (support structures absent) *)
Theorem read_bv m B rest : F.lenN B + select_SUPERBLOCK_SIZE < 2 ^ 64 ->
  c_dec (bv_codec m) (flat_map le64 (F.doc_encode_bv F.no_sup B) ++ rest) = IoOk (bv_of B, rest).
Proof.
  intros HB. pose proof (bv_of_ok B HB) as Hok.
  rewrite <- bv_of_serialize, <- (bv_enc_elems m _ Hok). apply (ok_rt _ (bv_codec_ok m)). exact Hok.
Qed.

(* ================================================================ loaded values answer exactly *)

(* raw vector: invariant + content (every operation of C05 is stated over these two), and the reads spelled out *)
Theorem read_raw_exact m B rest : F.lenN B + 63 < 2 ^ 64 ->
  exists r, c_dec (raw_codec m) (flat_map le64 (F.doc_encode_raw B) ++ rest) = IoOk (r, rest) /\
    raw_inv r /\ abs_raw r = B /\ rlen r = F.lenN B /\
    (forall i, i < F.lenN B -> raw_bit r i = Ok (nthb B i)) /\
    (forall off w, w <= 64 -> off + w <= F.lenN B -> raw_int r off w = Ok (bits_val (takeN w (dropN off B)))).
Proof.
  intros HB. destruct (read_raw m B rest HB) as (Hd & Hinv & Habs). exists (raw_of B).
  split; [exact Hd|]. split; [exact Hinv|]. split; [exact Habs|]. split; [reflexivity|]. split.
  - intros i Hi. rewrite <- Habs at 2. apply raw_bit_ok; [exact Hinv|exact Hi].
  - intros off w Hw Ho. rewrite <- Habs at 2. apply raw_int_ok; [exact Hinv|exact Hw|exact Ho].
Qed.

Theorem read_int_exact m w items rest : 1 <= w <= 64 -> F.lenN items * w + 63 < 2 ^ 64 -> Forall (fun v => v < 2 ^ w) items ->
  exists v, c_dec (iv_codec m) (flat_map le64 (F.doc_encode_int w items) ++ rest) = IoOk (v, rest) /\
    iv_inv v /\ iwidth v = w /\ ilen v = F.lenN items /\ abs_iv v = items /\
    (forall i, i < F.lenN items -> iv_get v i = Ok (nthn items i)) /\
    iv_items v = Ok items.
Proof.
  intros Hw Hb Hf. destruct (read_int m w items rest Hw Hb Hf) as (Hd & Hinv & Hwd & Habs). exists (iv_of w items).
  split; [exact Hd|]. split; [exact Hinv|]. split; [exact Hwd|]. split; [reflexivity|]. split; [exact Habs|]. split.
  - intros i Hi. rewrite <- Habs at 2. apply iv_get_ok; [exact Hinv|exact Hi].
  - rewrite <- Habs at 2. apply iv_items_ok. exact Hinv.
Qed.

(* bitvector: the file carries no support structure; the loaded value has none, stores B, and once the application
   enables them (enable_rank / enable_select / enable_select_zero, any select path and mode) every query of C01 is
   exact on any query path / mode *)
Theorem read_bv_exact m sp mb sp' m' B rest : F.lenN B + select_SUPERBLOCK_SIZE < 2 ^ 64 ->
  exists b0, c_dec (bv_codec m) (flat_map le64 (F.doc_encode_bv F.no_sup B) ++ rest) = IoOk (b0, rest) /\
    bv_rank b0 = None /\ bv_select b0 = None /\ bv_select_zero b0 = None /\
    bv_repr b0 B /\ abs_raw (bv_data b0) = B /\ bv_ones b0 = count B /\
    exists b, bv_enable_all sp mb b0 = Ok b /\
      bv_len b = lenB B /\ bv_count_ones b = count B /\ bv_count_zeros b = lenB B - count B /\
      (forall i, i < lenB B -> exists x, bv_get b i = Ok x /\ getb B i = Some x) /\
      (forall i, bv_rank_q b i = Ok (rank1 B i)) /\
      (forall i, bv_rank_zero m' b i = Ok (i - rank1 B i) /\
                 (i <= lenB B -> i - rank1 B i = rank1 (map negb B) i)) /\
      (forall r, bv_select_t sp' m' Identity b r = Ok (select1 B r)) /\
      (forall r, bv_select_t sp' m' Complement b r = Ok (select0 B r)) /\
      (forall v, v < 2 ^ 64 -> exists it it',
         bv_successor sp' m' b v = Ok it /\ oi_next_f Identity b it = Ok (it', succ1 B v)) /\
      (forall v, v < 2 ^ 64 -> exists it it',
         bv_predecessor sp' m' b v = Ok it /\ oi_next_f Identity b it = Ok (it', pred1 B v)).
Proof.
  intros HB. exists (bv_of B). split; [exact (read_bv m B rest HB)|].
  change select_SUPERBLOCK_SIZE with 4096 in HB.
  assert (HL : lenB B < 2 ^ 64) by (change (lenB B) with (F.lenN B); lia).
  destruct (raw_of_inv B) as [Hinv Habs].
  split; [reflexivity|]. split; [reflexivity|]. split; [reflexivity|].
  split; [apply bv_of_repr; exact HL|]. split; [exact Habs|]. split; [reflexivity|].
  apply (bv_plain_exact sp mb sp' m' B HL). right. left. exists (raw_of B).
  split; [exact Hinv|]. split; [exact Habs|apply bv_of_from_raw].
Qed.

(* ================================================================ basic structures: vectors, byte vectors, optionals *)

Theorem read_vec items rest : F.lenN items * 8 < 2 ^ 63 -> Forall (fun x => x < 2 ^ 64) items ->
  c_dec vec_u64_codec (flat_map le64 (F.doc_encode_vec items) ++ rest) = IoOk (items, rest).
Proof.
  intros Hl Hf. change (F.doc_encode_vec items) with (lenN items :: items). rewrite <- vec_u64_enc_elems.
  apply (ok_rt _ vec_u64_codec_ok). split; [exact Hf|]. unfold ISIZE_MAX. change bits_WORD_BYTES with 8.
  change (F.lenN items) with (lenN items) in Hl. lia.
Qed.

Theorem read_pairs (items : list (N * N)) rest : F.lenN items * 16 < 2 ^ 63 ->
  Forall (fun p : N * N => fst p < 2 ^ 64 /\ snd p < 2 ^ 64) items ->
  c_dec vec_pair_codec (flat_map le64 (F.doc_encode_pairs items) ++ rest) = IoOk (items, rest).
Proof.
  intros Hl Hf. change (F.doc_encode_pairs items) with (rs_serialize (mkrs items)). rewrite <- rs_enc_elems.
  change (c_enc rs_codec (mkrs items)) with (c_enc vec_pair_codec items).
  apply (ok_rt _ vec_pair_codec_ok). split; [exact Hf|]. unfold ISIZE_MAX. change bits_WORD_BYTES with 8.
  change (F.lenN items) with (lenN items) in Hl. lia.
Qed.

(* bytes back from elements: the inverse of the document's first sentence *)
Lemma le_bytes_le_value l : Forall (fun b => b < 256) l -> le_bytes (length l) (F.le_value l) = l.
Proof.
  induction 1 as [|b t Hb Ht IH]; [reflexivity|]. cbn [length le_bytes F.le_value].
  replace ((b + 256 * F.le_value t) mod 256) with b by lia.
  replace ((b + 256 * F.le_value t) / 256) with (F.le_value t) by lia. rewrite IH. reflexivity.
Qed.

Lemma le64_of_elems : forall n bs es, (length bs <= n)%nat -> Forall (fun b => b < 256) bs ->
  F.elems_of_bytes bs = Some es -> flat_map le64 es = bs.
Proof.
  induction n as [|n IH]; intros bs es Hn Hb E.
  - destruct bs; [|cbn [length] in Hn; lia]. cbn in E. injection E as <-. reflexivity.
  - destruct bs as [|b0 [|b1 [|b2 [|b3 [|b4 [|b5 [|b6 [|b7 t]]]]]]]]; cbn [F.elems_of_bytes] in E; try discriminate.
    + injection E as <-. reflexivity.
    + destruct (F.elems_of_bytes t) as [es'|] eqn:Et; [|discriminate]. injection E as <-.
      assert (H8 : Forall (fun b => b < 256) [b0; b1; b2; b3; b4; b5; b6; b7]).
      { repeat (apply Forall_cons_iff in Hb; destruct Hb as [? Hb]). repeat constructor; assumption. }
      assert (Ht : Forall (fun b => b < 256) t) by (repeat (apply Forall_cons_iff in Hb; destruct Hb as [_ Hb]); exact Hb).
      change (b0 + 256 * (b1 + 256 * (b2 + 256 * (b3 + 256 * (b4 + 256 * (b5 + 256 * (b6 + 256 * (b7 + 256 * 0))))))))
        with (F.le_value [b0; b1; b2; b3; b4; b5; b6; b7]).
      cbn [flat_map]. change (le64 (F.le_value [b0; b1; b2; b3; b4; b5; b6; b7])) with (le_bytes (length [b0; b1; b2; b3; b4; b5; b6; b7]) (F.le_value [b0; b1; b2; b3; b4; b5; b6; b7])). rewrite (le_bytes_le_value _ H8).
      rewrite (IH t es' ltac:(cbn [length] in Hn; lia) Ht Et). reflexivity.
Qed.

Theorem read_bytes m bs rest : F.lenN bs < 2 ^ 63 -> Forall (fun b => b < 256) bs ->
  c_dec (bytes_codec m) (flat_map le64 (F.doc_encode_bytes bs) ++ rest) = IoOk (bs, rest).
Proof.
  intros Hl Hb.
  assert (Hwf : c_wf (bytes_codec m) bs).
  { split; [exact Hb|]. unfold ISIZE_MAX. change (F.lenN bs) with (lenN bs) in Hl. lia. }
  destruct (FC.conform_bytes m bs Hwf) as (E & _).
  assert (Hbytes : Forall (fun b => b < 256) (c_enc (bytes_codec m) bs)).
  { cbn [bytes_codec c_enc]. apply Forall_app. split; [|apply Forall_app; split; [exact Hb|]].
    - pose proof (FC.bytes_ok_le64 [lenN bs]) as H. cbn [flat_map] in H. rewrite app_nil_r in H.
      unfold F.bytes_ok in H. rewrite forallb_forall in H. apply Forall_forall. intros x Hx. specialize (H x Hx). lia.
    - rewrite FC.repeatN_repeat. apply Forall_forall. intros x Hx. apply repeat_spec in Hx. subst x. lia. }
  rewrite (le64_of_elems _ _ _ (le_n _) Hbytes E). apply (ok_rt _ (bytes_codec_ok m)). exact Hwf.
Qed.

(* Option<T> around any type whose loader reads the document's encoding [ser x] of its values *)
Theorem read_opt {A} (c : codec A) (ser : A -> list N) (o : option A) rest :
  codec_ok c -> (forall x, c_enc c x = flat_map le64 (ser x)) ->
  match o with None => True | Some x => c_wf c x /\ 0 < c_size c x < 2 ^ 61 /\ F.lenN (ser x) = c_size c x end ->
  c_dec (option_codec c) (flat_map le64 (F.doc_encode_opt (option_map ser o)) ++ rest) = IoOk (o, rest).
Proof.
  intros Hc Henc Ho.
  assert (E : flat_map le64 (F.doc_encode_opt (option_map ser o)) = c_enc (option_codec c) o).
  { destruct o as [x|]; cbn [option_map F.doc_encode_opt option_codec c_enc]; [|reflexivity].
    destruct Ho as (_ & _ & Hl). cbn [flat_map]. rewrite Hl, Henc. reflexivity. }
  rewrite E. apply (ok_rt _ (option_codec_ok c Hc)). destruct o as [x|]; [|exact I].
  cbn [option_codec c_wf]. destruct Ho as (H1 & H2 & _). split; assumption.
Qed.
