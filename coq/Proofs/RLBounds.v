(* The bounds that justify the exact (unchecked) N arithmetic of RunIter and the scan loops in Model/RL.v:
   in every reachable iterator state rank <= offset <= len < 2^64, the next run starts at or after the offset and
   ends at or before len, so `offset + gap`, `start + len + 1`, `rank + (len + 1)` do not exceed len, and the
   subtractions `offset - rank`, `rank - (offset - index)`, `offset - (rank - r)` have ordered operands whenever
   index / r lie in the run just consumed. *)
From Coq Require Import NArith List Lia ZArith Bool.
Require Import SDS.Model.Mach SDS.Model.RL SDS.Spec.Runs.
Require Import SDS.Proofs.RLRep SDS.Proofs.RunsLemmas SDS.Proofs.RLIter SDS.Proofs.RLQuery.
Import ListNotations.
Open Scope N_scope.
Require Import ZifyBool ZifyN ZifyNat.
Arguments N.add : simpl never. Arguments N.sub : simpl never. Arguments N.mul : simpl never. Arguments N.pow : simpl never.

Theorem runiter_bounds v BS L it dn todo :
  rl_ok v BS L -> Abs BS it dn todo ->
  ri_rank it <= ri_off it /\ ri_off it <= L /\ L < 2 ^ 64 /\
  match todo with
  | [] => True
  | r :: _ => ri_off it <= fst r /\ 1 <= snd r /\ fst r + snd r <= L /\ ri_rank it + snd r <= fst r + snd r
  end.
Proof.
  intros Hok Ha. destruct (abs_ok v BS L Hok _ _ _ Ha) as (HF & Hr & Ho & Hdn & Htd).
  pose proof (rones_le_end _ _ _ Hdn) as Hle. pose proof (ok_L _ _ _ Hok) as HL.
  pose proof (ok_end _ _ _ Hok) as He. rewrite HF, runs_end_from_app in He.
  pose proof (runs_ok_end _ _ _ Htd) as Hge.
  rewrite Hr, Ho. split; [lia|]. split; [lia|]. split; [exact HL|].
  destruct todo as [|r t]; [exact I|].
  destruct (runs_bound v BS L Hok dn r t HF) as (H1 & H2 & H3 & _). repeat split; lia.
Qed.
