(* Proofs about Model/Mapped.v (property C13). *)
From Coq Require Import NArith List Lia ZArith Bool.
Require Import ZifyBool ZifyN ZifyNat.
Require Import SDS.Model.Mach SDS.Model.Bits SDS.Model.Raw SDS.Model.IntVec SDS.Model.Mapped.
Require Import SDS.gen.Consts SDS.gen.Funs SDS.Proofs.BitsProof.
Import ListNotations.
Open Scope N_scope.
Ltac Zify.zify_post_hook ::= Z.div_mod_to_equations.
Arguments N.add : simpl never. Arguments N.sub : simpl never. Arguments N.mul : simpl never.
Arguments N.eqb : simpl never. Arguments N.ltb : simpl never. Arguments N.leb : simpl never.
Arguments N.pow : simpl never. Arguments N.div : simpl never. Arguments N.modulo : simpl never.
Arguments N.shiftl : simpl never. Arguments N.shiftr : simpl never. Arguments N.land : simpl never.
Arguments N.lor : simpl never. Arguments N.ones : simpl never. Arguments N.testbit : simpl never.

(* ---- an offset at or beyond the end of the file is refused by every view, in both modes ---- *)

Lemma ms_new_out m e file off : lenN file <= off -> ms_new m e file off = VErr UnexpectedEof.
Proof. intros H. unfold ms_new. replace (lenN file <=? off) with true by lia. reflexivity. Qed.
Lemma mb_new_out m file off : lenN file <= off -> mb_new m file off = VErr UnexpectedEof.
Proof. intros H. unfold mb_new. replace (lenN file <=? off) with true by lia. reflexivity. Qed.
Lemma mstr_new_out m file off : lenN file <= off -> mstr_new m file off = VErr UnexpectedEof.
Proof. intros H. unfold mstr_new. rewrite mb_new_out by exact H. reflexivity. Qed.
Lemma rm_new_out m file off : lenN file <= off -> rm_new m file off = VErr UnexpectedEof.
Proof. intros H. unfold rm_new. replace (lenN file <=? off) with true by lia. reflexivity. Qed.
Lemma im_new_out m file off : lenN file <= off -> im_new m file off = VErr UnexpectedEof.
Proof. intros H. unfold im_new. replace (lenN file <=? off) with true by lia. reflexivity. Qed.
Lemma mo_new_out {V} (nt : N -> vres V) m file off : lenN file <= off -> mo_new nt m file off = VErr UnexpectedEof.
Proof. intros H. unfold mo_new. replace (lenN file <=? off) with true by lia. reflexivity. Qed.

Theorem view_new_out m t file off : lenN file <= off -> view_new m t file off = VErr UnexpectedEof.
Proof.
  intros H. destruct t; cbn [view_new].
  - rewrite ms_new_out by exact H. reflexivity.
  - rewrite ms_new_out by exact H. reflexivity.
  - rewrite mb_new_out by exact H. reflexivity.
  - rewrite mstr_new_out by exact H. reflexivity.
  - rewrite rm_new_out by exact H. reflexivity.
  - rewrite im_new_out by exact H. reflexivity.
  - rewrite mo_new_out by exact H. reflexivity.
Qed.

(* ---- the check before the repair ---- *)

Lemma im_new_old_debug file : im_new_old Debug file (2 ^ 64 - 1) = VPanic POverflow.
Proof. reflexivity. Qed.

Lemma im_new_old_release file : 0 < lenN file < 2 ^ 64 - 1 -> im_new_old Release file (2 ^ 64 - 1) = VPanic PIndex.
Proof.
  intros H. unfold im_new_old.
  change (uadd Release (2 ^ 64 - 1) 1) with (@Ok N 0). cbn [vlift vbind].
  replace (lenN file <=? 0) with false by lia.
  unfold idx. destruct (nthN file (2 ^ 64 - 1)) eqn:E; [|reflexivity].
  apply nthN_Some_lt in E. lia.
Qed.

Theorem intvec_old_refuted :
  (forall file, im_new_old Debug file (2 ^ 64 - 1) = VPanic POverflow) /\
  (forall file, 0 < lenN file < 2 ^ 64 - 1 -> im_new_old Release file (2 ^ 64 - 1) = VPanic PIndex) /\
  (forall m file, lenN file < 2 ^ 64 -> im_new m file (2 ^ 64 - 1) = VErr UnexpectedEof).
Proof.
  split; [exact im_new_old_debug|]. split; [exact im_new_old_release|].
  intros m file H. apply im_new_out. lia.
Qed.

(* ================================================================== lists *)

Lemma lenN_app {A} (a b : list A) : lenN (a ++ b) = lenN a + lenN b.
Proof. unfold lenN. rewrite app_length. lia. Qed.
Lemma lenN_cons {A} (x : A) l : lenN (x :: l) = 1 + lenN l.
Proof. unfold lenN. cbn [length]. lia. Qed.
Lemma lenN_nil {A} : lenN (@nil A) = 0.
Proof. reflexivity. Qed.

Lemma nthN_cons_0 {A} (x : A) t : nthN (x :: t) 0 = Some x.
Proof. reflexivity. Qed.
Lemma nthN_cons_S {A} (x : A) t i : nthN (x :: t) (1 + i) = nthN t i.
Proof.
  cbn [nthN]. destruct (N.eqb_spec (1 + i) 0) as [E|E]; [lia|]. f_equal. lia.
Qed.
Lemma nthN_cons_pos {A} (x : A) t i : 0 < i -> nthN (x :: t) i = nthN t (i - 1).
Proof. intros H. cbn [nthN]. destruct (N.eqb_spec i 0); [lia|reflexivity]. Qed.

Lemma nthN_app_l {A} (a b : list A) i : i < lenN a -> nthN (a ++ b) i = nthN a i.
Proof. unfold lenN. intros H. rewrite !nthN_nth_error. apply nth_error_app1. lia. Qed.
Lemma nthN_app_r {A} (a b : list A) i : nthN (a ++ b) (lenN a + i) = nthN b i.
Proof.
  unfold lenN. rewrite !nthN_nth_error. rewrite nth_error_app2 by lia. f_equal. lia.
Qed.

Lemma nthN_ext {A} (a b : list A) :
  lenN a = lenN b -> (forall i, i < lenN a -> nthN a i = nthN b i) -> a = b.
Proof.
  revert b. induction a as [|x t IH]; intros [|y u] Hl H; rewrite ?lenN_cons, ?lenN_nil in *; try lia.
  - reflexivity.
  - assert (E : Some x = Some y) by (apply (H 0); lia). injection E as ->. f_equal.
    apply IH; [lia|]. intros i Hi. specialize (H (1 + i)). rewrite !nthN_cons_S in H. apply H. lia.
Qed.

Lemma nthN_firstn {A} (l : list A) n i : i < N.of_nat n -> nthN (firstn n l) i = nthN l i.
Proof.
  revert l i. induction n as [|n IH]; intros l i H; [lia|].
  destruct l as [|x t]; [reflexivity|]. cbn [firstn].
  destruct (N.eqb_spec i 0) as [->|Hn]; [reflexivity|].
  rewrite !nthN_cons_pos by lia. apply IH. lia.
Qed.
Lemma lenN_firstn {A} (l : list A) n : lenN (firstn n l) = N.min (N.of_nat n) (lenN l).
Proof. unfold lenN. rewrite firstn_length. lia. Qed.

Lemma nthN_dropN {A} (l : list A) p i : nthN (dropN l p) i = nthN l (p + i).
Proof.
  revert p. induction l as [|x t IH]; intros p; cbn [dropN]; [reflexivity|].
  destruct (N.eqb_spec p 0) as [->|Hn]; [reflexivity|].
  rewrite IH. rewrite (nthN_cons_pos x t (p + i)) by lia. f_equal. lia.
Qed.
Lemma lenN_dropN {A} (l : list A) p : lenN (dropN l p) = lenN l - p.
Proof.
  revert p. induction l as [|x t IH]; intros p; cbn [dropN]; [reflexivity|].
  destruct (N.eqb_spec p 0) as [->|Hn]; [lia|]. rewrite IH, lenN_cons. lia.
Qed.

Lemma takeN_ok {A} (l : list A) n : n <= lenN l ->
  exists r, takeN l n = Some r /\ lenN r = n /\ forall i, i < n -> nthN r i = nthN l i.
Proof.
  revert n. induction l as [|x t IH]; intros n H; cbn [takeN].
  - rewrite lenN_nil in H. replace (n =? 0) with true by lia. exists []. split; [reflexivity|]. split; [rewrite lenN_nil; lia|]. intros; lia.
  - destruct (N.eqb_spec n 0) as [->|Hn].
    + exists []. split; [reflexivity|]. split; [reflexivity|]. intros; lia.
    + rewrite lenN_cons in H. destruct (IH (n - 1)) as (r & -> & Hl & Hr); [lia|].
      exists (x :: r). split; [reflexivity|]. split; [rewrite lenN_cons; lia|].
      intros i Hi. destruct (N.eqb_spec i 0) as [->|Hi0]; [reflexivity|].
      rewrite !nthN_cons_pos by lia. apply Hr. lia.
Qed.

Lemma mem_read_ok l p n : p + n <= lenN l ->
  exists r, mem_read l p n = Ok r /\ lenN r = n /\ forall i, i < n -> nthN r i = nthN l (p + i).
Proof.
  intros H. unfold mem_read. destruct (takeN_ok (dropN l p) n) as (r & -> & Hl & Hr).
  - rewrite lenN_dropN. lia.
  - exists r. split; [reflexivity|]. split; [exact Hl|]. intros i Hi. rewrite Hr by exact Hi. apply nthN_dropN.
Qed.

Lemma mem_read_eq l p n r :
  lenN r = n -> p + n <= lenN l -> (forall i, i < n -> nthN l (p + i) = nthN r i) -> mem_read l p n = Ok r.
Proof.
  intros Hl Hn H. destruct (mem_read_ok l p n Hn) as (r' & -> & Hl' & Hr'). f_equal.
  apply nthN_ext; [lia|]. intros i Hi. rewrite Hr' by lia. apply H. lia.
Qed.

Lemma takeN_app {A} (a b : list A) : takeN (a ++ b) (lenN a) = Some a.
Proof.
  destruct (takeN_ok (a ++ b) (lenN a)) as (r & -> & Hl & Hr); [rewrite lenN_app; lia|].
  f_equal. apply nthN_ext; [exact Hl|]. intros i Hi. rewrite Hr by lia. apply nthN_app_l. lia.
Qed.

(* [file] holds the elements of [e] from offset [off] on, as far as the file goes *)
Definition agrees (file : list N) (off : N) (e : list N) : Prop :=
  forall i, i < lenN e -> off + i < lenN file -> nthN file (off + i) = nthN e i.

Lemma agrees_hd file off x e : agrees file off (x :: e) -> off < lenN file -> nthN file off = Some x.
Proof.
  intros H Ho. specialize (H 0). rewrite N.add_0_r in H. apply H; [rewrite lenN_cons; lia|exact Ho].
Qed.
Lemma agrees_tl file off x e : agrees file off (x :: e) -> agrees file (off + 1) e.
Proof.
  intros H i Hi Ho. specialize (H (1 + i)). rewrite nthN_cons_S in H.
  replace (off + 1 + i) with (off + (1 + i)) by lia. apply H; [rewrite lenN_cons; lia|lia].
Qed.
Lemma agrees_app_l file off a b : agrees file off (a ++ b) -> agrees file off a.
Proof.
  intros H i Hi Ho. rewrite H; [apply nthN_app_l; exact Hi|rewrite lenN_app; lia|exact Ho].
Qed.
Lemma agrees_app_r file off a b : agrees file off (a ++ b) -> agrees file (off + lenN a) b.
Proof.
  intros H i Hi Ho. replace (off + lenN a + i) with (off + (lenN a + i)) by lia.
  rewrite H; [apply nthN_app_r|rewrite lenN_app; lia|lia].
Qed.

Lemma agrees_concat pre e post : agrees (pre ++ e ++ post) (lenN pre) e.
Proof.
  intros i Hi _. rewrite nthN_app_r. apply nthN_app_l. exact Hi.
Qed.

Lemma agrees_firstn file off e n : agrees file off e -> agrees (firstn n file) off e.
Proof.
  intros H i Hi Ho. rewrite lenN_firstn in Ho. rewrite nthN_firstn by lia. apply H; [exact Hi|lia].
Qed.

(* the part of the mapping that holds e is read back as e *)
Lemma mem_read_agrees file off e :
  agrees file off e -> off + lenN e <= lenN file -> mem_read file off (lenN e) = Ok e.
Proof.
  intros H Hl. apply mem_read_eq; [reflexivity|exact Hl|]. intros i Hi. apply H; [exact Hi|lia].
Qed.

(* ================================================================== each `new`, by lengths *)

Lemma idx_some {A} (l : list A) i x : nthN l i = Some x -> idx l i = Ok x.
Proof. intros H. unfold idx. rewrite H. reflexivity. Qed.

Lemma uadd_ok m a b : a + b < 2 ^ 64 -> uadd m a b = Ok (a + b).
Proof. intros H. unfold uadd. replace (a + b <? 2 ^ 64) with true by lia. reflexivity. Qed.
Lemma umul_ok m a b : a * b < 2 ^ 64 -> umul m a b = Ok (a * b).
Proof. intros H. unfold umul. replace (a * b <? 2 ^ 64) with true by lia. reflexivity. Qed.
Lemma usub_ok m a b : b <= a -> usub m a b = Ok (a - b).
Proof. intros H. unfold usub. replace (b <=? a) with true by lia. reflexivity. Qed.

Lemma udiv_ok m a b : b <> 0 -> udiv m a b = Ok (a / b).
Proof. intros H. unfold udiv. replace (b =? 0) with false by lia. reflexivity. Qed.

Lemma ms_new_ok m e file off len :
  e <> 0 -> nthN file off = Some len -> off + 1 + len * e <= lenN file -> lenN file < 2 ^ 64 ->
  ms_new m e file off = VOk (mkms file off len).
Proof.
  intros He Hn Hl Hf. pose proof (nthN_Some_lt _ _ _ Hn) as Ho. unfold ms_new.
  replace (lenN file <=? off) with false by lia.
  rewrite (idx_some _ _ _ Hn). cbn [vlift vbind].
  rewrite usub_ok by lia. cbn [vlift vbind]. rewrite usub_ok by lia. cbn [vlift vbind].
  rewrite udiv_ok by exact He. cbn [vlift vbind].
  assert (Hq : len <= (lenN file - off - 1) / e) by (apply N.div_le_lower_bound; [exact He|lia]).
  replace ((lenN file - off - 1) / e <? len) with false by lia.
  rewrite uadd_ok by lia. cbn [vlift vbind].
  replace (lenN file <? off + 1) with false by lia. reflexivity.
Qed.

Lemma ms_new_short m e file off len :
  e <> 0 -> nthN file off = Some len -> lenN file < off + 1 + len * e ->
  ms_new m e file off = VErr UnexpectedEof.
Proof.
  intros He Hn Hl. pose proof (nthN_Some_lt _ _ _ Hn) as Ho. unfold ms_new.
  replace (lenN file <=? off) with false by lia.
  rewrite (idx_some _ _ _ Hn). cbn [vlift vbind].
  rewrite usub_ok by lia. cbn [vlift vbind]. rewrite usub_ok by lia. cbn [vlift vbind].
  rewrite udiv_ok by exact He. cbn [vlift vbind].
  assert (Hq : (lenN file - off - 1) / e < len) by (apply N.div_lt_upper_bound; [exact He|lia]).
  replace ((lenN file - off - 1) / e <? len) with true by lia. reflexivity.
Qed.

Lemma ms_map_len_ok m e f o len : len * e + 1 < 2 ^ 64 -> ms_map_len m e (mkms f o len) = Ok (len * e + 1).
Proof.
  intros H. unfold ms_map_len. cbn [ms_len]. rewrite umul_ok by lia. cbn [bind]. apply uadd_ok. exact H.
Qed.

Lemma words_to_bytes_ok m n : n < 2 ^ 61 -> f_words_to_bytes m n = Ok (n * 8).
Proof.
  intros H. unfold f_words_to_bytes. cbn [bind]. change bits_WORD_BYTES with 8. apply umul_ok. lia.
Qed.

Lemma mb_new_ok m file off len :
  nthN file off = Some len -> off + 1 + (len + 7) / 8 <= lenN file -> lenN file < 2 ^ 61 ->
  mb_new m file off = VOk (mkmb file off len).
Proof.
  intros Hn Hl Hf. pose proof (nthN_Some_lt _ _ _ Hn) as Ho. unfold mb_new.
  replace (lenN file <=? off) with false by lia.
  rewrite (idx_some _ _ _ Hn). cbn [vlift vbind].
  rewrite usub_ok by lia. cbn [vlift vbind]. rewrite usub_ok by lia. cbn [vlift vbind].
  rewrite words_to_bytes_ok by lia. cbn [vlift vbind].
  replace ((lenN file - off - 1) * 8 <? len) with false by lia.
  rewrite uadd_ok by lia. cbn [vlift vbind].
  replace (lenN file <? off + 1) with false by lia. reflexivity.
Qed.

Lemma mb_new_short m file off len :
  nthN file off = Some len -> lenN file < off + 1 + (len + 7) / 8 -> lenN file < 2 ^ 61 ->
  mb_new m file off = VErr UnexpectedEof.
Proof.
  intros Hn Hl Hf. pose proof (nthN_Some_lt _ _ _ Hn) as Ho. unfold mb_new.
  replace (lenN file <=? off) with false by lia.
  rewrite (idx_some _ _ _ Hn). cbn [vlift vbind].
  rewrite usub_ok by lia. cbn [vlift vbind]. rewrite usub_ok by lia. cbn [vlift vbind].
  rewrite words_to_bytes_ok by lia. cbn [vlift vbind].
  replace ((lenN file - off - 1) * 8 <? len) with true by lia. reflexivity.
Qed.

Lemma mb_map_len_ok m f o len : len + 7 < 2 ^ 64 -> mb_map_len m (mkmb f o len) = Ok ((len + 7) / 8 + 1).
Proof.
  intros H. unfold mb_map_len. cbn [mb_len]. rewrite bytes_to_words_spec by lia. cbn [bind]. apply uadd_ok. lia.
Qed.

Lemma rm_new_ok m file off len nw :
  nthN file off = Some len -> nthN file (off + 1) = Some nw -> off + 2 + nw <= lenN file -> lenN file < 2 ^ 64 ->
  rm_new m file off = VOk (mkrm len (mkms file (off + 1) nw)).
Proof.
  intros Hn Hw Hl Hf. pose proof (nthN_Some_lt _ _ _ Hn) as Ho. unfold rm_new.
  replace (lenN file <=? off) with false by lia.
  rewrite (idx_some _ _ _ Hn). cbn [vlift vbind]. rewrite uadd_ok by lia. cbn [vlift vbind].
  rewrite (ms_new_ok m 1 file (off + 1) nw ltac:(lia) Hw) by lia. reflexivity.
Qed.

(* cut after the bit length, or inside the words *)
Lemma rm_new_short1 m file off : lenN file = off + 1 -> lenN file < 2 ^ 64 -> rm_new m file off = VErr UnexpectedEof.
Proof.
  intros Hl Hf. unfold rm_new. replace (lenN file <=? off) with false by lia.
  destruct (nthN_lt_Some file off) as [len Hn]; [lia|].
  rewrite (idx_some _ _ _ Hn). cbn [vlift vbind]. rewrite uadd_ok by lia. cbn [vlift vbind].
  rewrite ms_new_out by lia. reflexivity.
Qed.
Lemma rm_new_short2 m file off nw :
  nthN file (off + 1) = Some nw -> lenN file < off + 2 + nw -> off + 2 + nw < 2 ^ 64 ->
  rm_new m file off = VErr UnexpectedEof.
Proof.
  intros Hw Hl Hf. pose proof (nthN_Some_lt _ _ _ Hw) as Ho. unfold rm_new.
  replace (lenN file <=? off) with false by lia.
  destruct (nthN_lt_Some file off) as [len Hn]; [lia|].
  rewrite (idx_some _ _ _ Hn). cbn [vlift vbind]. rewrite uadd_ok by lia. cbn [vlift vbind].
  rewrite (ms_new_short m 1 file (off + 1) nw ltac:(lia) Hw) by lia. reflexivity.
Qed.

Lemma rm_map_ok m len f o nw : 1 <= o -> nw + 2 < 2 ^ 64 ->
  rm_map_offset m (mkrm len (mkms f o nw)) = Ok (o - 1) /\ rm_map_len m (mkrm len (mkms f o nw)) = Ok (nw + 2).
Proof.
  intros Ho Hn. unfold rm_map_offset, rm_map_len, ms_map_offset. cbn [rm_data ms_off]. split.
  - apply usub_ok. exact Ho.
  - rewrite ms_map_len_ok by lia. cbn [bind]. rewrite uadd_ok by lia. f_equal. lia.
Qed.

Lemma im_new_eq m file off len width :
  nthN file off = Some len -> nthN file (off + 1) = Some width -> lenN file < 2 ^ 64 -> 1 <= width <= 64 ->
  im_new m file off = vbind (rm_new m file (off + 2)) (fun d => VOk (mkim len width d)).
Proof.
  intros Hn Hw Hf Hwd. pose proof (nthN_Some_lt _ _ _ Hw) as Ho. unfold im_new.
  replace (lenN file <=? off) with false by lia.
  rewrite uadd_ok by lia. cbn [vlift vbind]. replace (lenN file <=? off + 1) with false by lia.
  rewrite (idx_some _ _ _ Hn). cbn [vlift vbind]. rewrite (idx_some _ _ _ Hw). cbn [vlift vbind].
  change bits_WORD_BITS with 64. replace (width =? 0) with false by lia. replace (64 <? width) with false by lia.
  cbn [orb]. rewrite uadd_ok by lia. reflexivity.
Qed.
(* a width element no IntVector has: refused, whatever follows *)
Lemma im_new_badwidth m file off width :
  nthN file (off + 1) = Some width -> lenN file < 2 ^ 64 -> width = 0 \/ 64 < width ->
  im_new m file off = VErr InvalidData.
Proof.
  intros Hw Hf Hwd. pose proof (nthN_Some_lt _ _ _ Hw) as Ho. unfold im_new.
  replace (lenN file <=? off) with false by lia.
  rewrite uadd_ok by lia. cbn [vlift vbind]. replace (lenN file <=? off + 1) with false by lia.
  destruct (nthN_lt_Some file off ltac:(lia)) as [len Hn].
  rewrite (idx_some _ _ _ Hn). cbn [vlift vbind]. rewrite (idx_some _ _ _ Hw). cbn [vlift vbind].
  change bits_WORD_BITS with 64. replace ((width =? 0) || (64 <? width)) with true by lia. reflexivity.
Qed.
Lemma im_new_short1 m file off : lenN file = off + 1 -> lenN file < 2 ^ 64 -> im_new m file off = VErr UnexpectedEof.
Proof.
  intros Hl Hf. unfold im_new. replace (lenN file <=? off) with false by lia.
  rewrite uadd_ok by lia. cbn [vlift vbind]. replace (lenN file <=? off + 1) with true by lia. reflexivity.
Qed.

(* ================================================================== bytes packed into elements *)

Definition bytes_ok (bs : list N) : Prop := Forall (fun b => b < 256) bs.

Lemma le_bytes_n_zero k : le_bytes_n k 0 = repeat 0 k.
Proof.
  induction k as [|k IH]; cbn [le_bytes_n repeat]; [reflexivity|].
  change (0 / 256) with 0. change (0 mod 256) with 0. rewrite IH. reflexivity.
Qed.

Lemma le_bytes_n_word bs k : bytes_ok bs -> le_bytes_n (length bs + k) (le_word bs) = bs ++ repeat 0 k.
Proof.
  induction 1 as [|b t Hb Ht IH]; cbn [length le_word fold_right app plus].
  - apply le_bytes_n_zero.
  - cbn [le_bytes_n]. fold (le_word t).
    replace ((b + 256 * le_word t) mod 256) with b by lia.
    replace ((b + 256 * le_word t) / 256) with (le_word t) by lia.
    rewrite IH. reflexivity.
Qed.

Lemma pack_ind (P : list N -> Prop) :
  P [] -> (forall r, (0 < length r < 8)%nat -> P r) ->
  (forall b0 b1 b2 b3 b4 b5 b6 b7 t, P t -> P (b0 :: b1 :: b2 :: b3 :: b4 :: b5 :: b6 :: b7 :: t)) ->
  forall l, P l.
Proof.
  intros H0 Hs H8. fix IH 1. intros l.
  destruct l as [|b0 [|b1 [|b2 [|b3 [|b4 [|b5 [|b6 [|b7 t]]]]]]]];
    [exact H0|apply Hs; cbn [length]; lia ..|apply H8; apply IH].
Qed.

Lemma pack_short r : (0 < length r < 8)%nat -> pack_bytes r = [le_word r].
Proof.
  intros H. destruct r as [|b0 [|b1 [|b2 [|b3 [|b4 [|b5 [|b6 [|b7 t]]]]]]]]; cbn [length] in H; try lia; reflexivity.
Qed.

Lemma lenN_pack bs : lenN (pack_bytes bs) = (lenN bs + 7) / 8.
Proof.
  induction bs as [| r Hr | b0 b1 b2 b3 b4 b5 b6 b7 t IH] using pack_ind.
  - reflexivity.
  - rewrite pack_short by exact Hr. unfold lenN. cbn [length]. lia.
  - cbn [pack_bytes]. rewrite !lenN_cons, IH. lia.
Qed.

Lemma unpack_pack bs : bytes_ok bs -> exists rest, flat_map le_bytes (pack_bytes bs) = bs ++ rest.
Proof.
  induction bs as [| r Hr | b0 b1 b2 b3 b4 b5 b6 b7 t IH] using pack_ind; intros Hb.
  - exists []. reflexivity.
  - rewrite pack_short by exact Hr. cbn [flat_map]. rewrite app_nil_r. unfold le_bytes.
    exists (repeat 0 (8 - length r)).
    replace 8%nat with (length r + (8 - length r))%nat at 1 by lia. apply le_bytes_n_word. exact Hb.
  - assert (Ht : bytes_ok t) by (do 8 (apply Forall_inv_tail in Hb); exact Hb).
    destruct (IH Ht) as [rest E]. exists rest. cbn [pack_bytes flat_map]. rewrite E.
    assert (H8 : bytes_ok [b0; b1; b2; b3; b4; b5; b6; b7]).
    { unfold bytes_ok in *. rewrite Forall_forall in *. intros x Hx. apply Hb.
      cbn [In] in *. intuition. }
    unfold le_bytes. pose proof (le_bytes_n_word [b0; b1; b2; b3; b4; b5; b6; b7] 0 H8) as E8.
    cbn [length plus repeat] in E8. rewrite app_nil_r in E8. rewrite E8. reflexivity.
Qed.

(* the bytes behind a byte view whose memory holds pack_bytes bs *)
Lemma mb_bytes_ok file off bs :
  bytes_ok bs -> agrees file (off + 1) (pack_bytes bs) -> off + 1 + lenN (pack_bytes bs) <= lenN file ->
  mb_bytes (mkmb file off (lenN bs)) = Ok bs.
Proof.
  intros Hb Ha Hl. unfold mb_bytes. cbn [mb_file mb_off mb_len].
  unfold bytes_to_words. change bits_WORD_BYTES with 8. change (8 - 1) with 7.
  rewrite <- lenN_pack. rewrite (mem_read_agrees file (off + 1) (pack_bytes bs) Ha) by lia. cbn [bind].
  destruct (unpack_pack bs Hb) as [rest ->]. rewrite takeN_app. reflexivity.
Qed.

(* ================================================================== well-formed values, what a view exposes *)

(* a raw vector as the crate builds it: exactly ceil(len / 64) words of 64 bits *)
Definition raw_ok (r : raw) : Prop :=
  lenN (rdata r) = (rlen r + 63) / 64 /\ wf (rdata r) /\ rlen r < 2 ^ 64.

Fixpoint wf_tval (tv : tval) : Prop :=
  match tv with
  | TVec _ | TPairs _ => True
  | TBytes bs => bytes_ok bs
  | TStr bs => bytes_ok bs /\ mp_utf8_valid bs = true
  | TRaw r => raw_ok r
  | TInt v => 1 <= iwidth v <= 64 /\ ilen v * iwidth v = rlen (idata v) /\ raw_ok (idata v)
  | TNone _ => True
  | TSome x => wf_tval x
  end.

(* the raw-vector view answers every AccessRaw call, on every argument, like the loaded RawVector *)
Definition raw_exposes (v : rmapper) (r : raw) : Prop :=
  rm_len v = rlen r /\
  ms_items1 (rm_data v) = Ok (rdata r) /\
  (forall bo, rm_bit v bo = raw_bit r bo) /\
  (forall bo w, rm_int v bo w = raw_int r bo w) /\
  (forall i, rm_word v i = raw_word r i) /\
  rm_count_ones v = Ok (raw_count_ones r) /\
  (forall p, p < rlen r -> rm_bit v p = Ok (bit (rdata r) p)).

(* the integer-vector view: same header, and get(j) is item j of the loaded IntVector, whose bits are
   bits j*width .. j*width + width - 1 of the data *)
Definition int_exposes (m : mode) (v : imapper) (iv : intvec) : Prop :=
  im_len v = ilen iv /\ im_width v = iwidth iv /\
  (forall j, im_get m v j = iv_get iv j) /\
  (forall j, j < ilen iv -> exists x, im_get m v j = Ok x /\ x < 2 ^ 64 /\
     forall k, N.testbit x k = (k <? iwidth iv) && bit (rdata (idata iv)) (j * iwidth iv + k)).

Fixpoint exposes (m : mode) (v : view) (tv : tval) {struct tv} : Prop :=
  match tv with
  | TVec xs => match v with
               | VwVec s => ms_len s = lenN xs /\ ms_items1 s = Ok xs /\ forall i, ms_get1 s i = idx xs i
               | _ => False end
  | TPairs ps => match v with
                 | VwPairs s => ms_len s = lenN ps /\ ms_items2 s = Ok ps /\ forall i, ms_get2 s i = idx ps i
                 | _ => False end
  | TBytes bs => match v with
                 | VwBytes b => mb_len b = lenN bs /\ mb_bytes b = Ok bs /\ forall i, mb_get b i = idx bs i
                 | _ => False end
  | TStr bs => match v with
               | VwStr b => mb_len b = lenN bs /\ mb_bytes b = Ok bs
               | _ => False end
  | TRaw r => match v with VwRaw rv => raw_exposes rv r | _ => False end
  | TInt iv => match v with VwInt i => int_exposes m i iv | _ => False end
  | TNone _ => match v with VwOpt o => mo_data o = None | _ => False end
  | TSome x => match v with
               | VwOpt o => match mo_data o with Some v' => exposes m v' x | None => False end
               | _ => False end
  end.

(* ---- slices ---- *)

Lemma idx_unchecked_idx {A} s (l : list A) i : i < lenN l -> idx_unchecked s l i = idx l i.
Proof. intros H. unfold idx_unchecked, idx. destruct (nthN_lt_Some l i H) as [x ->]. reflexivity. Qed.

Lemma ms_get1_ok s xs : ms_len s = lenN xs -> ms_items1 s = Ok xs -> forall i, ms_get1 s i = idx xs i.
Proof.
  intros Hl Hi i. unfold ms_get1. rewrite Hl, Hi. cbn [bind].
  destruct (N.ltb_spec i (lenN xs)) as [H|H]; [apply idx_unchecked_idx; exact H|].
  symmetry. apply idx_panics. exact H.
Qed.
Lemma ms_get2_ok s ps : ms_len s = lenN ps -> ms_items2 s = Ok ps -> forall i, ms_get2 s i = idx ps i.
Proof.
  intros Hl Hi i. unfold ms_get2. rewrite Hl, Hi. cbn [bind].
  destruct (N.ltb_spec i (lenN ps)) as [H|H]; [apply idx_unchecked_idx; exact H|].
  symmetry. apply idx_panics. exact H.
Qed.
Lemma mb_get_ok b bs : mb_len b = lenN bs -> mb_bytes b = Ok bs -> forall i, mb_get b i = idx bs i.
Proof.
  intros Hl Hi i. unfold mb_get. rewrite Hl, Hi. cbn [bind].
  destruct (N.ltb_spec i (lenN bs)) as [H|H]; [apply idx_unchecked_idx; exact H|].
  symmetry. apply idx_panics. exact H.
Qed.

Definition flat_pairs (ps : list (N * N)) : list N := flat_map (fun p => [fst p; snd p]) ps.
Lemma pair_up_flat ps : pair_up (flat_pairs ps) = ps.
Proof.
  induction ps as [|[a b] t IH]; [reflexivity|]. unfold flat_pairs in *. cbn [flat_map fst snd app pair_up].
  rewrite IH. reflexivity.
Qed.
Lemma lenN_flat_pairs ps : lenN (flat_pairs ps) = lenN ps * 2.
Proof.
  induction ps as [|[a b] t IH]; [reflexivity|]. unfold flat_pairs in *. cbn [flat_map app].
  rewrite !lenN_cons, IH. lia.
Qed.

(* ---- raw vector ---- *)

Lemma raw_bit_bit r p : p / 64 < lenN (rdata r) -> raw_bit r p = Ok (bit (rdata r) p).
Proof.
  intros H. unfold raw_bit. rewrite split_offset_spec. rewrite (idx_getw _ _ H). cbn [bind]. f_equal.
  unfold bit. change 1 with (N.ones 1) at 1. rewrite N.land_ones. change (2 ^ 1) with 2.
  rewrite <- N.bit0_eqb, N.shiftr_spec'. reflexivity.
Qed.

Lemma raw_view_exposes len f o r :
  ms_items1 (mkms f o (lenN (rdata r))) = Ok (rdata r) -> len = rlen r -> raw_ok r ->
  raw_exposes (mkrm len (mkms f o (lenN (rdata r)))) r.
Proof.
  intros Hi -> (Hw & Hwf & Hlen). unfold raw_exposes. cbn [rm_len rm_data].
  assert (Hg : forall i, ms_get1 (mkms f o (lenN (rdata r))) i = idx (rdata r) i)
    by (apply ms_get1_ok; [reflexivity|exact Hi]).
  assert (Hb : forall bo, rm_bit (mkrm (rlen r) (mkms f o (lenN (rdata r)))) bo = raw_bit r bo).
  { intros bo. unfold rm_bit, raw_bit. destruct (split_offset bo) as [index offset]. cbn [rm_data].
    rewrite Hg. reflexivity. }
  split; [reflexivity|]. split; [exact Hi|]. split; [exact Hb|]. split.
  { intros bo w. unfold rm_int, raw_int. cbn [rm_data]. rewrite Hi. reflexivity. }
  split; [intros i; unfold rm_word, raw_word; cbn [rm_data]; apply Hg|].
  split; [unfold rm_count_ones, raw_count_ones; cbn [rm_data]; rewrite Hi; reflexivity|].
  intros p Hp. rewrite Hb. apply raw_bit_bit. lia.
Qed.

(* ---- integer vector ---- *)

Lemma int_view_exposes m f o iv :
  wf_tval (TInt iv) ->
  raw_exposes (mkrm (rlen (idata iv)) (mkms f o (lenN (rdata (idata iv))))) (idata iv) ->
  int_exposes m (mkim (ilen iv) (iwidth iv) (mkrm (rlen (idata iv)) (mkms f o (lenN (rdata (idata iv)))))) iv.
Proof.
  intros (Hw & Hlw & Hlen & Hwf & Hr) (_ & _ & _ & Hint & _).
  assert (Hget : forall j, im_get m (mkim (ilen iv) (iwidth iv) (mkrm (rlen (idata iv)) (mkms f o (lenN (rdata (idata iv)))))) j
                           = iv_get iv j).
  { intros j. unfold im_get, iv_get. cbn [im_len im_width im_data].
    destruct (N.ltb_spec j (ilen iv)) as [Hj|Hj]; [|reflexivity].
    rewrite umul_ok by nia. cbn [bind]. apply Hint. }
  unfold int_exposes. cbn [im_len im_width]. split; [reflexivity|]. split; [reflexivity|]. split; [exact Hget|].
  intros j Hj.
  assert (Hbnd : (j * iwidth iv + iwidth iv - 1) / 64 < lenN (rdata (idata iv))).
  { rewrite Hlen. assert (j * iwidth iv + iwidth iv <= rlen (idata iv)) by nia. lia. }
  destruct (read_int_bits (rdata (idata iv)) (j * iwidth iv) (iwidth iv) 0 Hwf Hw Hbnd) as (x & Hx & Hlt & _).
  exists x. rewrite Hget. unfold iv_get, raw_int. replace (j <? ilen iv) with true by lia.
  replace (iwidth iv =? 0) with false by lia. split; [exact Hx|]. split; [exact Hlt|].
  intros k. destruct (read_int_bits (rdata (idata iv)) (j * iwidth iv) (iwidth iv) k Hwf Hw Hbnd) as (x' & Hx' & _ & Hk).
  rewrite Hx in Hx'. injection Hx' as <-. exact Hk.
Qed.

(* ================================================================== the view of a structure inside a file *)

Lemma enc_nonempty tv : 1 <= lenN (enc tv).
Proof.
  destruct tv; cbn [enc]; unfold enc_vec, enc_pairs, enc_bytes, raw_serialize, iv_serialize; rewrite ?lenN_cons; lia.
Qed.

Definition view_good (m : mode) (tv : tval) (file : list N) (off : N) : Prop :=
  exists v, view_new m (ty_of tv) file off = VOk v /\
            view_map_offset m v = Ok off /\
            view_map_len m v = Ok (lenN (enc tv)) /\
            exposes m v tv.

Lemma vec_view_ok m xs file off :
  agrees file off (enc (TVec xs)) -> off + lenN (enc (TVec xs)) <= lenN file -> lenN file < 2 ^ 61 ->
  view_good m (TVec xs) file off.
Proof.
  unfold view_good. cbn [enc]. unfold enc_vec. rewrite !lenN_cons. intros Ha Hl Hf.
  pose proof (agrees_hd _ _ _ _ Ha ltac:(lia)) as Hn.
  cbn [ty_of view_new]. rewrite (ms_new_ok m 1 file off (lenN xs) ltac:(lia) Hn) by lia.
  eexists. split; [reflexivity|]. cbn [view_map_offset view_map_len ms_map_offset ms_off]. split; [reflexivity|].
  split; [rewrite ms_map_len_ok by lia; f_equal; lia|].
  assert (Hi : ms_items1 (mkms file off (lenN xs)) = Ok xs).
  { unfold ms_items1, ms_words. cbn [ms_file ms_off ms_len]. rewrite N.mul_1_r.
    apply mem_read_agrees; [exact (agrees_tl _ _ _ _ Ha)|lia]. }
  cbn [exposes]. split; [reflexivity|]. split; [exact Hi|]. apply ms_get1_ok; [reflexivity|exact Hi].
Qed.

Lemma pairs_view_ok m ps file off :
  agrees file off (enc (TPairs ps)) -> off + lenN (enc (TPairs ps)) <= lenN file -> lenN file < 2 ^ 61 ->
  view_good m (TPairs ps) file off.
Proof.
  unfold view_good. cbn [enc]. unfold enc_pairs. fold (flat_pairs ps). rewrite !lenN_cons. intros Ha Hl Hf.
  pose proof (lenN_flat_pairs ps) as Hfp.
  pose proof (agrees_hd _ _ _ _ Ha ltac:(lia)) as Hn.
  cbn [ty_of view_new]. rewrite (ms_new_ok m 2 file off (lenN ps) ltac:(lia) Hn) by lia.
  eexists. split; [reflexivity|]. cbn [view_map_offset view_map_len ms_map_offset ms_off]. split; [reflexivity|].
  split; [rewrite ms_map_len_ok by lia; f_equal; lia|].
  assert (Hi : ms_items2 (mkms file off (lenN ps)) = Ok ps).
  { unfold ms_items2, ms_words. cbn [ms_file ms_off ms_len]. rewrite <- Hfp.
    rewrite mem_read_agrees; [|exact (agrees_tl _ _ _ _ Ha)|lia]. cbn [rmap bind]. rewrite pair_up_flat. reflexivity. }
  cbn [exposes]. split; [reflexivity|]. split; [exact Hi|]. apply ms_get2_ok; [reflexivity|exact Hi].
Qed.

Lemma bytes_new_ok m bs file off :
  bytes_ok bs -> agrees file off (enc_bytes bs) -> off + lenN (enc_bytes bs) <= lenN file -> lenN file < 2 ^ 61 ->
  mb_new m file off = VOk (mkmb file off (lenN bs)) /\
  mb_map_len m (mkmb file off (lenN bs)) = Ok (lenN (enc_bytes bs)) /\
  mb_bytes (mkmb file off (lenN bs)) = Ok bs.
Proof.
  unfold enc_bytes. rewrite lenN_cons. intros Hb Ha Hl Hf. pose proof (lenN_pack bs) as Hp.
  pose proof (agrees_hd _ _ _ _ Ha ltac:(lia)) as Hn.
  split; [apply mb_new_ok; [exact Hn|lia|exact Hf]|].
  split; [rewrite mb_map_len_ok by lia; f_equal; lia|].
  apply mb_bytes_ok; [exact Hb|exact (agrees_tl _ _ _ _ Ha)|lia].
Qed.

Lemma bytes_view_ok m bs file off :
  wf_tval (TBytes bs) ->
  agrees file off (enc (TBytes bs)) -> off + lenN (enc (TBytes bs)) <= lenN file -> lenN file < 2 ^ 61 ->
  view_good m (TBytes bs) file off.
Proof.
  unfold view_good. cbn [enc wf_tval]. intros Hb Ha Hl Hf. destruct (bytes_new_ok m bs file off Hb Ha Hl Hf) as (Hn & Hm & Hc).
  cbn [ty_of view_new]. rewrite Hn. eexists. split; [reflexivity|].
  cbn [view_map_offset view_map_len mb_map_offset mb_off]. split; [reflexivity|]. split; [exact Hm|].
  cbn [exposes]. split; [reflexivity|]. split; [exact Hc|]. apply mb_get_ok; [reflexivity|exact Hc].
Qed.

Lemma str_view_ok m bs file off :
  wf_tval (TStr bs) ->
  agrees file off (enc (TStr bs)) -> off + lenN (enc (TStr bs)) <= lenN file -> lenN file < 2 ^ 61 ->
  view_good m (TStr bs) file off.
Proof.
  unfold view_good. cbn [enc wf_tval]. intros (Hb & Hu) Ha Hl Hf. destruct (bytes_new_ok m bs file off Hb Ha Hl Hf) as (Hn & Hm & Hc).
  cbn [ty_of view_new]. unfold mstr_new. rewrite Hn. cbn [vbind]. rewrite Hc. cbn [vlift vbind].
  rewrite Hu. eexists. split; [reflexivity|].
  cbn [view_map_offset view_map_len mb_map_offset mb_off]. split; [reflexivity|]. split; [exact Hm|].
  cbn [exposes]. split; [reflexivity|]. exact Hc.
Qed.

Lemma raw_new_ok m r file off :
  raw_ok r -> agrees file off (raw_serialize r) -> off + lenN (raw_serialize r) <= lenN file -> lenN file < 2 ^ 61 ->
  rm_new m file off = VOk (mkrm (rlen r) (mkms file (off + 1) (lenN (rdata r)))) /\
  raw_exposes (mkrm (rlen r) (mkms file (off + 1) (lenN (rdata r)))) r.
Proof.
  unfold raw_serialize. rewrite !lenN_cons. intros Hr Ha Hl Hf.
  pose proof (agrees_hd _ _ _ _ Ha ltac:(lia)) as Hn.
  pose proof (agrees_tl _ _ _ _ Ha) as Ha1.
  pose proof (agrees_hd _ _ _ _ Ha1 ltac:(lia)) as Hw.
  split; [apply rm_new_ok; [exact Hn|exact Hw|lia|lia]|].
  apply raw_view_exposes; [|reflexivity|exact Hr].
  unfold ms_items1, ms_words. cbn [ms_file ms_off ms_len]. rewrite N.mul_1_r.
  apply mem_read_agrees; [exact (agrees_tl _ _ _ _ Ha1)|lia].
Qed.

Lemma raw_view_ok m r file off :
  wf_tval (TRaw r) ->
  agrees file off (enc (TRaw r)) -> off + lenN (enc (TRaw r)) <= lenN file -> lenN file < 2 ^ 61 ->
  view_good m (TRaw r) file off.
Proof.
  unfold view_good. cbn [enc wf_tval]. intros Hr Ha Hl Hf. destruct (raw_new_ok m r file off Hr Ha Hl Hf) as (Hn & He).
  unfold raw_serialize in Hl. rewrite !lenN_cons in Hl.
  cbn [ty_of view_new]. rewrite Hn. eexists. split; [reflexivity|].
  cbn [view_map_offset view_map_len].
  destruct (rm_map_ok m (rlen r) file (off + 1) (lenN (rdata r))) as (Ho & Hm); [lia|lia|].
  split; [rewrite Ho; f_equal; lia|]. split; [rewrite Hm; unfold raw_serialize; rewrite !lenN_cons; f_equal; lia|].
  exact He.
Qed.

Lemma int_view_ok m iv file off :
  wf_tval (TInt iv) ->
  agrees file off (enc (TInt iv)) -> off + lenN (enc (TInt iv)) <= lenN file -> lenN file < 2 ^ 61 ->
  view_good m (TInt iv) file off.
Proof.
  unfold view_good. intros Hwf. pose proof Hwf as (Hw & Hlw & Hr). cbn [enc]. unfold iv_serialize. rewrite !lenN_cons. intros Ha Hl Hf.
  pose proof (enc_nonempty (TRaw (idata iv))) as Hne. cbn [enc] in Hne.
  pose proof (agrees_hd _ _ _ _ Ha ltac:(lia)) as Hn.
  pose proof (agrees_tl _ _ _ _ Ha) as Ha1.
  pose proof (agrees_hd _ _ _ _ Ha1 ltac:(lia)) as Hwd.
  pose proof (agrees_tl _ _ _ _ Ha1) as Ha2. replace (off + 1 + 1) with (off + 2) in Ha2 by lia.
  destruct (raw_new_ok m (idata iv) file (off + 2) Hr Ha2) as (Hrn & He); [lia|exact Hf|].
  cbn [ty_of view_new]. rewrite (im_new_eq m file off _ _ Hn Hwd) by lia. rewrite Hrn. cbn [vbind vmap].
  eexists. split; [reflexivity|]. cbn [view_map_offset view_map_len]. unfold im_map_offset, im_map_len. cbn [im_data].
  unfold raw_serialize in Hl. rewrite !lenN_cons in Hl.
  destruct (rm_map_ok m (rlen (idata iv)) file (off + 2 + 1) (lenN (rdata (idata iv)))) as (Ho & Hm); [lia|lia|].
  rewrite Ho, Hm. cbn [bind]. split; [rewrite usub_ok by lia; f_equal; lia|].
  split; [rewrite uadd_ok by lia; unfold raw_serialize; rewrite !lenN_cons; f_equal; lia|].
  cbn [exposes]. apply int_view_exposes; [exact Hwf|exact He].
Qed.

Theorem view_ok m tv : forall file off,
  wf_tval tv -> agrees file off (enc tv) -> off + lenN (enc tv) <= lenN file -> lenN file < 2 ^ 61 ->
  view_good m tv file off.
Proof.
  induction tv as [xs|ps|bs|bs|r|iv|t|x IH]; intros file off Hwf Ha Hl Hf.
  - apply vec_view_ok; assumption.
  - apply pairs_view_ok; assumption.
  - apply bytes_view_ok; assumption.
  - apply str_view_ok; assumption.
  - apply raw_view_ok; assumption.
  - apply int_view_ok; assumption.
  - cbn [enc] in *. rewrite lenN_cons, lenN_nil in Hl.
    pose proof (agrees_hd _ _ _ _ Ha ltac:(lia)) as Hn.
    unfold view_good. cbn [ty_of view_new]. unfold mo_new. replace (lenN file <=? off) with false by lia.
    rewrite (idx_some _ _ _ Hn). cbn [vlift vbind]. change (0 <? 0) with false. cbv iota. cbn [vmap vbind].
    eexists. split; [reflexivity|]. cbn [view_map_offset view_map_len mo_map_offset mo_off]. split; [reflexivity|].
    split; [unfold mo_map_len; cbn [mo_dlen]; rewrite uadd_ok by lia; reflexivity|]. reflexivity.
  - cbn [enc wf_tval] in *. rewrite lenN_cons in Hl. pose proof (enc_nonempty x) as Hne.
    pose proof (agrees_hd _ _ _ _ Ha ltac:(lia)) as Hn.
    destruct (IH file (off + 1) Hwf (agrees_tl _ _ _ _ Ha)) as (v' & Hv & _ & _ & He); [lia|exact Hf|].
    unfold view_good. cbn [ty_of view_new]. unfold mo_new. replace (lenN file <=? off) with false by lia.
    rewrite (idx_some _ _ _ Hn). cbn [vlift vbind]. replace (0 <? lenN (enc x)) with true by lia.
    rewrite uadd_ok by lia. cbn [vlift vbind]. rewrite Hv. cbn [vmap vbind].
    eexists. split; [reflexivity|]. cbn [view_map_offset view_map_len mo_map_offset mo_off]. split; [reflexivity|].
    split; [unfold mo_map_len; cbn [mo_dlen enc]; rewrite uadd_ok by lia; rewrite lenN_cons; f_equal; lia|].
    cbn [exposes mo_data]. exact He.
Qed.

(* ================================================================== a file that ends inside the structure *)

Lemma raw_new_cut m r file off :
  agrees file off (raw_serialize r) -> lenN file < off + lenN (raw_serialize r) ->
  off + lenN (raw_serialize r) < 2 ^ 61 -> rm_new m file off = VErr UnexpectedEof.
Proof.
  unfold raw_serialize. rewrite !lenN_cons. intros Ha Hl Hf.
  destruct (N.le_gt_cases (lenN file) off) as [Ho|Ho]; [apply rm_new_out; exact Ho|].
  destruct (N.eq_dec (lenN file) (off + 1)) as [E|E]; [apply rm_new_short1; [exact E|lia]|].
  pose proof (agrees_hd _ _ _ _ (agrees_tl _ _ _ _ Ha) ltac:(lia)) as Hw.
  apply (rm_new_short2 m file off _ Hw); lia.
Qed.

Theorem view_cut m tv : forall file off,
  wf_tval tv ->
  agrees file off (enc tv) -> lenN file < off + lenN (enc tv) -> off + lenN (enc tv) < 2 ^ 61 ->
  view_new m (ty_of tv) file off = VErr UnexpectedEof.
Proof.
  induction tv as [xs|ps|bs|bs|r|iv|t|x IH]; intros file off Hwf Ha Hl Hf;
    (destruct (N.le_gt_cases (lenN file) off) as [Ho|Ho]; [apply view_new_out; exact Ho|]);
    cbn [enc ty_of view_new] in *.
  - unfold enc_vec in *. rewrite lenN_cons in *. pose proof (agrees_hd _ _ _ _ Ha Ho) as Hn.
    rewrite (ms_new_short m 1 file off _ ltac:(lia) Hn) by lia. reflexivity.
  - unfold enc_pairs in *. fold (flat_pairs ps) in *. rewrite lenN_cons, lenN_flat_pairs in *.
    pose proof (agrees_hd _ _ _ _ Ha Ho) as Hn.
    rewrite (ms_new_short m 2 file off _ ltac:(lia) Hn) by lia. reflexivity.
  - unfold enc_bytes in *. rewrite lenN_cons, lenN_pack in *. pose proof (agrees_hd _ _ _ _ Ha Ho) as Hn.
    rewrite (mb_new_short m file off _ Hn) by lia. reflexivity.
  - unfold enc_bytes in *. rewrite lenN_cons, lenN_pack in *. pose proof (agrees_hd _ _ _ _ Ha Ho) as Hn.
    unfold mstr_new. rewrite (mb_new_short m file off _ Hn) by lia. reflexivity.
  - rewrite (raw_new_cut m r file off Ha Hl Hf). reflexivity.
  - unfold iv_serialize in *. rewrite !lenN_cons in *.
    destruct (N.eq_dec (lenN file) (off + 1)) as [E|E]; [rewrite im_new_short1 by lia; reflexivity|].
    pose proof (agrees_hd _ _ _ _ Ha Ho) as Hn.
    pose proof (agrees_tl _ _ _ _ Ha) as Ha1.
    pose proof (agrees_hd _ _ _ _ Ha1 ltac:(lia)) as Hw.
    pose proof (agrees_tl _ _ _ _ Ha1) as Ha2. replace (off + 1 + 1) with (off + 2) in Ha2 by lia.
    rewrite (im_new_eq m file off _ _ Hn Hw) by (try apply Hwf; lia).
    rewrite (raw_new_cut m (idata iv) file (off + 2) Ha2) by lia. reflexivity.
  - rewrite lenN_cons, lenN_nil in *. lia.
  - rewrite lenN_cons in *. pose proof (enc_nonempty x) as Hne. pose proof (agrees_hd _ _ _ _ Ha Ho) as Hn.
    unfold mo_new. replace (lenN file <=? off) with false by lia.
    rewrite (idx_some _ _ _ Hn). cbn [vlift vbind]. replace (0 <? lenN (enc x)) with true by lia.
    rewrite uadd_ok by lia. cbn [vlift vbind].
    rewrite (IH file (off + 1) Hwf (agrees_tl _ _ _ _ Ha)) by lia. reflexivity.
Qed.

(* ================================================================== files made of several structures *)

(* offset of structure k in the file pre ++ enc v0 ++ enc v1 ++ ... *)
Definition start (pre : list N) (vals : list tval) (k : nat) : N :=
  lenN pre + lenN (flat_map enc (firstn k vals)).

Lemma start_0 pre vals : start pre vals 0 = lenN pre.
Proof. unfold start. cbn [firstn flat_map]. rewrite lenN_nil. lia. Qed.
Lemma start_end pre vals : start pre vals (length vals) = lenN (pre ++ flat_map enc vals).
Proof. unfold start. rewrite firstn_all, lenN_app. reflexivity. Qed.

Lemma structure_in_file pre vals k tv :
  nth_error vals k = Some tv ->
  agrees (pre ++ flat_map enc vals) (start pre vals k) (enc tv) /\
  start pre vals k + lenN (enc tv) = start pre vals (S k) /\
  start pre vals (S k) <= lenN (pre ++ flat_map enc vals).
Proof.
  intros H. destruct (nth_error_split vals k H) as (l1 & l2 & -> & <-).
  assert (E1 : firstn (length l1) (l1 ++ tv :: l2) = l1).
  { rewrite firstn_app, Nat.sub_diag, firstn_all. cbn [firstn]. apply app_nil_r. }
  assert (E2 : firstn (S (length l1)) (l1 ++ tv :: l2) = l1 ++ [tv]).
  { replace (S (length l1)) with (length (l1 ++ [tv])) by (rewrite app_length; cbn [length]; lia).
    replace (l1 ++ tv :: l2) with ((l1 ++ [tv]) ++ l2) by (rewrite <- app_assoc; reflexivity).
    rewrite firstn_app, Nat.sub_diag, firstn_all. cbn [firstn]. apply app_nil_r. }
  unfold start. rewrite E1, E2.
  rewrite !flat_map_app. cbn [flat_map]. rewrite app_nil_r. rewrite !lenN_app. split; [|lia].
  intros i Hi _. replace (lenN pre + lenN (flat_map enc l1) + i) with (lenN pre + (lenN (flat_map enc l1) + i)) by lia.
  rewrite nthN_app_r. rewrite nthN_app_r. apply nthN_app_l. exact Hi.
Qed.

Lemma wf_nth vals k tv : Forall wf_tval vals -> nth_error vals k = Some tv -> wf_tval tv.
Proof. intros Hf H. rewrite Forall_forall in Hf. apply Hf. eapply nth_error_In. exact H. Qed.

Theorem views_tile : forall m pre vals k tv,
  Forall wf_tval vals -> nth_error vals k = Some tv ->
  let file := pre ++ flat_map enc vals in
  lenN file < 2 ^ 61 ->
  (exists v, view_new m (ty_of tv) file (start pre vals k) = VOk v /\
             view_map_offset m v = Ok (start pre vals k) /\
             view_map_len m v = Ok (lenN (enc tv)) /\
             exposes m v tv) /\
  start pre vals k + lenN (enc tv) = start pre vals (S k) /\
  start pre vals 0 = lenN pre /\ start pre vals (length vals) = lenN file.
Proof.
  intros m pre vals k tv Hwf Hk file Hf.
  destruct (structure_in_file pre vals k tv Hk) as (Ha & Hs & Hl).
  split; [|split; [exact Hs|split; [apply start_0|apply start_end]]].
  apply (view_ok m tv file (start pre vals k) (wf_nth _ _ _ Hwf Hk) Ha); [fold file in Hl; lia|exact Hf].
Qed.

Theorem truncation : forall m pre vals k tv cut,
  Forall wf_tval vals -> nth_error vals k = Some tv ->
  let file := pre ++ flat_map enc vals in
  lenN file < 2 ^ 61 -> cut < lenN file ->
  let tfile := firstn (N.to_nat cut) file in
  (cut = 0 -> mm_new tfile = None) /\
  (start pre vals (S k) <= cut ->
     exists v, view_new m (ty_of tv) tfile (start pre vals k) = VOk v /\
               view_map_offset m v = Ok (start pre vals k) /\
               view_map_len m v = Ok (lenN (enc tv)) /\
               exposes m v tv) /\
  (cut < start pre vals (S k) -> view_new m (ty_of tv) tfile (start pre vals k) = VErr UnexpectedEof).
Proof.
  intros m pre vals k tv cut Hwf Hk file Hf Hc tfile.
  destruct (structure_in_file pre vals k tv Hk) as (Ha & Hs & Hl). fold file in Ha, Hl.
  assert (Hlt : lenN tfile = cut) by (unfold tfile; rewrite lenN_firstn; lia).
  pose proof (agrees_firstn file (start pre vals k) (enc tv) (N.to_nat cut) Ha) as Hat. fold tfile in Hat.
  split; [|split].
  - intros ->. unfold mm_new. rewrite Hlt. reflexivity.
  - intros Hin. apply (view_ok m tv tfile (start pre vals k) (wf_nth _ _ _ Hwf Hk) Hat); lia.
  - intros Hin. apply (view_cut m tv tfile (start pre vals k) (wf_nth _ _ _ Hwf Hk) Hat); lia.
Qed.

(* ================================================================== the length check before the repair 5f925c7 *)

Definition f12_file : list N := [4; 3; 2; 2 ^ 64 - 3; 2 ^ 64 - 3].   (* the serialized Vec<u64> [3, 2, 2^64-3, 2^64-3] *)

Theorem len_overflow_old_refuted :
  ms_new_old Debug 1 f12_file 3 = VPanic POverflow /\
  ms_new_old Release 1 f12_file 3 = VOk (mkms f12_file 3 (2 ^ 64 - 3)) /\
  ms_items1 (mkms f12_file 3 (2 ^ 64 - 3)) = OOB SITE_MAP_WORD /\
  mb_new_old Debug [2 ^ 64 - 1] 0 = VPanic POverflow /\
  mb_new_old Release [2 ^ 64 - 1] 0 = VOk (mkmb [2 ^ 64 - 1] 0 (2 ^ 64 - 1)) /\
  (forall m, ms_new m 1 f12_file 3 = VErr UnexpectedEof) /\
  (forall m, mb_new m [2 ^ 64 - 1] 0 = VErr UnexpectedEof).
Proof.
  split; [reflexivity|]. split; [reflexivity|]. split; [reflexivity|]. split; [reflexivity|]. split; [reflexivity|].
  split; intros []; reflexivity.
Qed.

(* ================================================================== ANY file: no panic, views inside the file *)

Definition ms_inside (e : N) (file : list N) (s : mslice) : Prop :=
  ms_file s = file /\ ms_off s + 1 + ms_len s * e <= lenN file.
Definition mb_inside (file : list N) (b : mbytes) : Prop :=
  mb_file b = file /\ mb_off b + 1 + (mb_len b + 7) / 8 <= lenN file.

(* the element range a view borrows lies inside the file *)
Fixpoint view_inside (file : list N) (v : view) : Prop :=
  match v with
  | VwVec s => ms_inside 1 file s
  | VwPairs s => ms_inside 2 file s
  | VwBytes b | VwStr b => mb_inside file b
  | VwRaw r => ms_inside 1 file (rm_data r)
  | VwInt i => ms_inside 1 file (rm_data (im_data i))
  | VwOpt o => mo_off o < lenN file /\ match mo_data o with Some v' => view_inside file v' | None => True end
  end.

(* every read through the view finds its memory: the borrowed range is read back in full *)
Fixpoint view_backed (v : view) : Prop :=
  match v with
  | VwVec s => exists l, ms_words 1 s = Ok l /\ lenN l = ms_len s
  | VwPairs s => exists l, ms_words 2 s = Ok l /\ lenN l = ms_len s * 2
  | VwBytes b | VwStr b => exists l, mb_bytes b = Ok l /\ lenN l = mb_len b
  | VwRaw r => exists l, ms_words 1 (rm_data r) = Ok l /\ lenN l = ms_len (rm_data r)
  | VwInt i => exists l, ms_words 1 (rm_data (im_data i)) = Ok l /\ lenN l = ms_len (rm_data (im_data i))
  | VwOpt o => match mo_data o with Some v' => view_backed v' | None => True end
  end.

Lemma ms_inside_backed e file s : ms_inside e file s -> exists l, ms_words e s = Ok l /\ lenN l = ms_len s * e.
Proof.
  intros (Hf & Hl). unfold ms_words. rewrite Hf.
  destruct (mem_read_ok file (ms_off s + 1) (ms_len s * e)) as (l & Hr & Hn & _); [lia|].
  exists l. split; assumption.
Qed.

Lemma length_le_bytes_n n w : length (le_bytes_n n w) = n.
Proof. revert w. induction n as [|n IH]; intros w; cbn [le_bytes_n length]; [reflexivity|]. rewrite IH. reflexivity. Qed.
Lemma lenN_flat_le_bytes ws : lenN (flat_map le_bytes ws) = 8 * lenN ws.
Proof.
  induction ws as [|w t IH]; [reflexivity|]. cbn [flat_map]. rewrite lenN_app, IH, lenN_cons.
  unfold le_bytes, lenN at 1. rewrite length_le_bytes_n. lia.
Qed.

Lemma mb_inside_backed file b : mb_inside file b -> exists l, mb_bytes b = Ok l /\ lenN l = mb_len b.
Proof.
  intros (Hf & Hl). unfold mb_bytes. rewrite Hf.
  unfold bytes_to_words. change bits_WORD_BYTES with 8. change (8 - 1) with 7.
  destruct (mem_read_ok file (mb_off b + 1) ((mb_len b + 7) / 8)) as (ws & -> & Hn & _); [lia|]. cbn [bind].
  destruct (takeN_ok (flat_map le_bytes ws) (mb_len b)) as (l & -> & Hll & _); [rewrite lenN_flat_le_bytes; lia|].
  exists l. split; [reflexivity|exact Hll].
Qed.

Lemma view_inside_backed file v : view_inside file v -> view_backed v.
Proof.
  revert v. fix IH 1. intros [s|s|b|b|r|i|[[v'|] o d]]; cbn [view_inside view_backed mo_data].
  - intros H. destruct (ms_inside_backed 1 file s H) as (l & E & Hl). exists l. split; [exact E|lia].
  - intros H. exact (ms_inside_backed 2 file s H).
  - apply mb_inside_backed.
  - apply mb_inside_backed.
  - intros H. destruct (ms_inside_backed 1 file _ H) as (l & E & Hl). exists l. split; [exact E|lia].
  - intros H. destruct (ms_inside_backed 1 file _ H) as (l & E & Hl). exists l. split; [exact E|lia].
  - intros (_ & H). apply IH. exact H.
  - intros _. exact I.
Qed.

(* what `new` can do on an arbitrary file *)
Definition new_safe {V} (r : vres V) (P : V -> Prop) : Prop :=
  match r with VOk v => P v | VErr _ => True | VPanic _ => False | VOOB _ => False end.

Lemma ms_new_any m e file off :
  e <> 0 -> lenN file < 2 ^ 64 ->
  new_safe (ms_new m e file off) (fun s => s = mkms file off (ms_len s) /\ off + 1 + ms_len s * e <= lenN file).
Proof.
  intros He Hf. unfold ms_new. destruct (N.leb_spec (lenN file) off) as [Ho|Ho]; [exact I|].
  destruct (nthN_lt_Some file off Ho) as [len Hn]. rewrite (idx_some _ _ _ Hn). cbn [vlift vbind].
  rewrite usub_ok by lia. cbn [vlift vbind]. rewrite usub_ok by lia. cbn [vlift vbind].
  rewrite udiv_ok by exact He. cbn [vlift vbind].
  destruct (N.ltb_spec ((lenN file - off - 1) / e) len) as [Hq|Hq]; [exact I|].
  rewrite uadd_ok by lia. cbn [vlift vbind]. replace (lenN file <? off + 1) with false by lia.
  cbn [new_safe ms_len]. split; [reflexivity|].
  assert (e * len <= lenN file - off - 1).
  { etransitivity; [apply N.mul_le_mono_l; exact Hq|]. apply N.mul_div_le. exact He. }
  lia.
Qed.

Lemma mb_new_any m file off :
  lenN file < 2 ^ 61 ->
  new_safe (mb_new m file off) (fun b => b = mkmb file off (mb_len b) /\ off + 1 + (mb_len b + 7) / 8 <= lenN file).
Proof.
  intros Hf. unfold mb_new. destruct (N.leb_spec (lenN file) off) as [Ho|Ho]; [exact I|].
  destruct (nthN_lt_Some file off Ho) as [len Hn]. rewrite (idx_some _ _ _ Hn). cbn [vlift vbind].
  rewrite usub_ok by lia. cbn [vlift vbind]. rewrite usub_ok by lia. cbn [vlift vbind].
  rewrite words_to_bytes_ok by lia. cbn [vlift vbind].
  destruct (N.ltb_spec ((lenN file - off - 1) * 8) len) as [Hq|Hq]; [exact I|].
  rewrite uadd_ok by lia. cbn [vlift vbind]. replace (lenN file <? off + 1) with false by lia.
  cbn [new_safe mb_len]. split; [reflexivity|lia].
Qed.

Lemma mstr_new_any m file off :
  lenN file < 2 ^ 61 ->
  new_safe (mstr_new m file off) (fun b => b = mkmb file off (mb_len b) /\ off + 1 + (mb_len b + 7) / 8 <= lenN file).
Proof.
  intros Hf. unfold mstr_new. pose proof (mb_new_any m file off Hf) as H.
  destruct (mb_new m file off) as [b| | |]; cbn [new_safe vbind] in *; try exact H.
  destruct H as (Hb & Hl).
  destruct (mb_inside_backed file b) as (l & -> & _); [split; [rewrite Hb; reflexivity|rewrite Hb; cbn [mb_off mb_len]; exact Hl]|].
  cbn [vlift vbind]. destruct (mp_utf8_valid l); cbn [new_safe]; [split; assumption|exact I].
Qed.

Lemma rm_new_any m file off :
  lenN file < 2 ^ 64 ->
  new_safe (rm_new m file off)
    (fun r => rm_data r = mkms file (off + 1) (ms_len (rm_data r)) /\ off + 2 + ms_len (rm_data r) <= lenN file).
Proof.
  intros Hf. unfold rm_new. destruct (N.leb_spec (lenN file) off) as [Ho|Ho]; [exact I|].
  destruct (nthN_lt_Some file off Ho) as [len Hn]. rewrite (idx_some _ _ _ Hn). cbn [vlift vbind].
  rewrite uadd_ok by lia. cbn [vlift vbind].
  pose proof (ms_new_any m 1 file (off + 1) ltac:(lia) Hf) as H.
  destruct (ms_new m 1 file (off + 1)) as [s| | |]; cbn [new_safe vbind] in *; try exact H.
  destruct H as (Hs & Hl). cbn [rm_data]. split; [exact Hs|lia].
Qed.

Lemma im_new_any m file off :
  lenN file < 2 ^ 64 ->
  new_safe (im_new m file off)
    (fun i => rm_data (im_data i) = mkms file (off + 3) (ms_len (rm_data (im_data i))) /\
              off + 4 + ms_len (rm_data (im_data i)) <= lenN file).
Proof.
  intros Hf. unfold im_new. destruct (N.leb_spec (lenN file) off) as [Ho|Ho]; [exact I|].
  rewrite uadd_ok by lia. cbn [vlift vbind].
  destruct (N.leb_spec (lenN file) (off + 1)) as [Ho1|Ho1]; [exact I|].
  destruct (nthN_lt_Some file off Ho) as [len Hn]. rewrite (idx_some _ _ _ Hn). cbn [vlift vbind].
  rewrite uadd_ok by lia. cbn [vlift vbind].
  destruct (nthN_lt_Some file (off + 1) Ho1) as [w Hw]. rewrite (idx_some _ _ _ Hw). cbn [vlift vbind].
  destruct ((w =? 0) || (bits_WORD_BITS <? w)); [exact I|].
  pose proof (rm_new_any m file (off + 2) Hf) as H.
  destruct (rm_new m file (off + 2)) as [r| | |]; cbn [new_safe vbind] in *; try exact H.
  destruct H as (Hs & Hl). cbn [im_data]. split; [rewrite Hs; f_equal; lia|lia].
Qed.

(* an integer-vector view that `new` returned has a width the mask table covers (repair ed19660) *)
Lemma im_new_width m file off i : im_new m file off = VOk i -> 1 <= im_width i <= 64.
Proof.
  unfold im_new. destruct (lenN file <=? off); [discriminate|].
  destruct (uadd m off 1) as [o1|k|s]; cbn [vlift vbind]; try discriminate.
  destruct (lenN file <=? o1); [discriminate|].
  destruct (idx file off) as [len|k|s]; cbn [vlift vbind]; try discriminate.
  destruct (idx file o1) as [w|k|s]; cbn [vlift vbind]; try discriminate.
  change bits_WORD_BITS with 64.
  destruct (N.eqb_spec w 0) as [->|Hw0]; cbn [orb]; [discriminate|].
  destruct (N.ltb_spec 64 w) as [Hgt|Hle]; [discriminate|].
  destruct (uadd m off 2) as [o2|k|s]; cbn [vlift vbind]; try discriminate.
  destruct (rm_new m file o2) as [d|k|k|s]; cbn [vbind]; try discriminate.
  intros E. injection E as <-. cbn [im_width]. lia.
Qed.

Fixpoint view_int_widths (v : view) : Prop :=
  match v with
  | VwInt i => 1 <= im_width i <= 64
  | VwOpt o => match mo_data o with Some v' => view_int_widths v' | None => True end
  | _ => True
  end.

(* no size bound on the file is needed for this one *)
Theorem any_file_int_width : forall m t file offset,
  match view_new m t file offset with VOk v => view_int_widths v | _ => True end.
Proof.
  intros m t. induction t as [| | | | | |t' IH]; intros file offset; cbn [view_new].
  - destruct (ms_new m 1 file offset); exact I.
  - destruct (ms_new m 2 file offset); exact I.
  - destruct (mb_new m file offset); exact I.
  - destruct (mstr_new m file offset); exact I.
  - destruct (rm_new m file offset); exact I.
  - destruct (im_new m file offset) as [i| | |] eqn:E; cbn [vmap vbind]; try exact I.
    cbn [view_int_widths]. exact (im_new_width m file offset i E).
  - unfold mo_new. destruct (lenN file <=? offset); [exact I|].
    destruct (idx file offset) as [dl|k|s]; cbn [vlift vbind vmap]; try exact I.
    destruct (0 <? dl); [|exact I].
    destruct (uadd m offset 1) as [o1|k|s]; cbn [vlift vbind]; try exact I.
    specialize (IH file o1). destruct (view_new m t' file o1) as [v'| | |]; cbn [vbind]; try exact I.
    cbn [view_int_widths mo_data]. exact IH.
Qed.

Definition is_opt (t : vtype) : bool := match t with TyOpt _ => true | _ => false end.

Theorem any_file_no_panic : forall m t file offset,
  lenN file < 2 ^ 61 -> offset < 2 ^ 64 ->
  new_safe (view_new m t file offset) (fun v =>
    view_inside file v /\ view_backed v /\
    view_map_offset m v = Ok offset /\
    (is_opt t = false -> exists l, view_map_len m v = Ok l /\ offset + l <= lenN file)).
Proof.
  intros m t. induction t as [| | | | | |t' IH]; intros file offset Hf _; cbn [view_new is_opt].
  - pose proof (ms_new_any m 1 file offset ltac:(lia) ltac:(lia)) as H.
    destruct (ms_new m 1 file offset) as [s| | |]; cbn [new_safe vmap vbind] in *; try exact H.
    destruct H as (Hs & Hl). assert (Hi : ms_inside 1 file s) by (rewrite Hs; split; [reflexivity|exact Hl]).
    split; [exact Hi|]. split; [exact (view_inside_backed file (VwVec s) Hi)|].
    rewrite Hs. cbn [view_map_offset view_map_len ms_map_offset ms_off]. split; [reflexivity|]. intros _.
    rewrite ms_map_len_ok by lia. eexists. split; [reflexivity|lia].
  - pose proof (ms_new_any m 2 file offset ltac:(lia) ltac:(lia)) as H.
    destruct (ms_new m 2 file offset) as [s| | |]; cbn [new_safe vmap vbind] in *; try exact H.
    destruct H as (Hs & Hl). assert (Hi : ms_inside 2 file s) by (rewrite Hs; split; [reflexivity|exact Hl]).
    split; [exact Hi|]. split; [exact (view_inside_backed file (VwPairs s) Hi)|].
    rewrite Hs. cbn [view_map_offset view_map_len ms_map_offset ms_off]. split; [reflexivity|]. intros _.
    rewrite ms_map_len_ok by lia. eexists. split; [reflexivity|lia].
  - pose proof (mb_new_any m file offset Hf) as H.
    destruct (mb_new m file offset) as [b| | |]; cbn [new_safe vmap vbind] in *; try exact H.
    destruct H as (Hs & Hl). assert (Hi : mb_inside file b) by (rewrite Hs; split; [reflexivity|exact Hl]).
    split; [exact Hi|]. split; [exact (view_inside_backed file (VwBytes b) Hi)|].
    rewrite Hs. cbn [view_map_offset view_map_len mb_map_offset mb_off]. split; [reflexivity|]. intros _.
    rewrite mb_map_len_ok by lia. eexists. split; [reflexivity|lia].
  - pose proof (mstr_new_any m file offset Hf) as H.
    destruct (mstr_new m file offset) as [b| | |]; cbn [new_safe vmap vbind] in *; try exact H.
    destruct H as (Hs & Hl). assert (Hi : mb_inside file b) by (rewrite Hs; split; [reflexivity|exact Hl]).
    split; [exact Hi|]. split; [exact (view_inside_backed file (VwStr b) Hi)|].
    rewrite Hs. cbn [view_map_offset view_map_len mb_map_offset mb_off]. split; [reflexivity|]. intros _.
    rewrite mb_map_len_ok by lia. eexists. split; [reflexivity|lia].
  - pose proof (rm_new_any m file offset ltac:(lia)) as H.
    destruct (rm_new m file offset) as [[len s]| | |]; cbn [new_safe vmap vbind rm_data] in *; try exact H.
    destruct H as (Hs & Hl). assert (Hi : ms_inside 1 file s) by (rewrite Hs; split; [reflexivity|cbn [ms_off ms_len]; lia]).
    split; [exact Hi|]. split; [exact (view_inside_backed file (VwRaw (mkrm len s)) Hi)|].
    rewrite Hs. cbn [view_map_offset view_map_len].
    destruct (rm_map_ok m len file (offset + 1) (ms_len s)) as (Eo & El); [lia|lia|]. rewrite Eo, El.
    split; [f_equal; lia|]. intros _. eexists. split; [reflexivity|lia].
  - pose proof (im_new_any m file offset ltac:(lia)) as H.
    destruct (im_new m file offset) as [[len w [rl s]]| | |]; cbn [new_safe vmap vbind rm_data im_data] in *; try exact H.
    destruct H as (Hs & Hl). assert (Hi : ms_inside 1 file s) by (rewrite Hs; split; [reflexivity|cbn [ms_off ms_len]; lia]).
    split; [exact Hi|]. split; [exact (view_inside_backed file (VwInt (mkim len w (mkrm rl s))) Hi)|].
    rewrite Hs. cbn [view_map_offset view_map_len]. unfold im_map_offset, im_map_len. cbn [im_data].
    destruct (rm_map_ok m rl file (offset + 3) (ms_len s)) as (Eo & El); [lia|lia|]. rewrite Eo, El. cbn [bind].
    split; [rewrite usub_ok by lia; f_equal; lia|]. intros _. rewrite uadd_ok by lia. eexists. split; [reflexivity|lia].
  - unfold mo_new. destruct (N.leb_spec (lenN file) offset) as [Ho|Ho]; [exact I|].
    destruct (nthN_lt_Some file offset Ho) as [dl Hn]. rewrite (idx_some _ _ _ Hn). cbn [vlift vbind].
    destruct (0 <? dl).
    + rewrite uadd_ok by lia. cbn [vlift vbind].
      specialize (IH file (offset + 1) Hf ltac:(lia)).
      destruct (view_new m t' file (offset + 1)) as [v'| | |]; cbn [new_safe vmap vbind] in *; try exact IH.
      destruct IH as (Hi & Hb & _). cbn [view_inside view_backed mo_data mo_off].
      split; [split; assumption|]. split; [exact Hb|]. split; [reflexivity|]. intros H; discriminate H.
    + cbn [new_safe vmap vbind view_inside view_backed mo_data mo_off].
      split; [split; [exact Ho|exact I]|]. split; [exact I|]. split; [reflexivity|]. intros H; discriminate H.
Qed.
