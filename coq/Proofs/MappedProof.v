(* Proofs about Model/Mapped.v (property C13). *)
From Coq Require Import NArith List Lia ZArith Bool.
Require Import ZifyBool ZifyN ZifyNat.
Require Import SDS.Model.Mach SDS.Model.Bits SDS.Model.Raw SDS.Model.IntVec SDS.Model.Mapped.
Require Import SDS.gen.Consts SDS.gen.Funs SDS.Proofs.BitsProof.
Import ListNotations.
Open Scope N_scope.
Ltac Zify.zify_post_hook ::= Z.div_mod_to_equations.
Arguments N.add : simpl never. Arguments N.sub : simpl never. Arguments N.mul : simpl never.
Arguments N.eqb : simpl never. Arguments N.ltb : simpl never. Arguments N.leb : simpl never.
Arguments N.pow : simpl never. Arguments N.div : simpl never. Arguments N.modulo : simpl never.
Arguments N.shiftl : simpl never. Arguments N.shiftr : simpl never. Arguments N.land : simpl never.
Arguments N.lor : simpl never. Arguments N.ones : simpl never. Arguments N.testbit : simpl never.

(* ---- an offset at or beyond the end of the file is refused by every view, in both modes ---- *)

Lemma ms_new_out m e file off : lenN file <= off -> ms_new m e file off = VErr UnexpectedEof.
Proof. intros H. unfold ms_new. replace (lenN file <=? off) with true by lia. reflexivity. Qed.
Lemma mb_new_out m file off : lenN file <= off -> mb_new m file off = VErr UnexpectedEof.
Proof. intros H. unfold mb_new. replace (lenN file <=? off) with true by lia. reflexivity. Qed.
Lemma mstr_new_out m file off : lenN file <= off -> mstr_new m file off = VErr UnexpectedEof.
Proof. intros H. unfold mstr_new. rewrite mb_new_out by exact H. reflexivity. Qed.
Lemma rm_new_out m file off : lenN file <= off -> rm_new m file off = VErr UnexpectedEof.
Proof. intros H. unfold rm_new. replace (lenN file <=? off) with true by lia. reflexivity. Qed.
Lemma im_new_out m file off : lenN file <= off -> im_new m file off = VErr UnexpectedEof.
Proof. intros H. unfold im_new. replace (lenN file <=? off) with true by lia. reflexivity. Qed.
Lemma mo_new_out {V} (nt : N -> vres V) m file off : lenN file <= off -> mo_new nt m file off = VErr UnexpectedEof.
Proof. intros H. unfold mo_new. replace (lenN file <=? off) with true by lia. reflexivity. Qed.

Theorem view_new_out m t file off : lenN file <= off -> view_new m t file off = VErr UnexpectedEof.
Proof.
  intros H. destruct t; cbn [view_new].
  - rewrite ms_new_out by exact H. reflexivity.
  - rewrite ms_new_out by exact H. reflexivity.
  - rewrite mb_new_out by exact H. reflexivity.
  - rewrite mstr_new_out by exact H. reflexivity.
  - rewrite rm_new_out by exact H. reflexivity.
  - rewrite im_new_out by exact H. reflexivity.
  - rewrite mo_new_out by exact H. reflexivity.
Qed.

(* ---- the check before the repair ---- *)

Lemma im_new_old_debug file : im_new_old Debug file (2 ^ 64 - 1) = VPanic POverflow.
Proof. reflexivity. Qed.

Lemma im_new_old_release file : 0 < lenN file < 2 ^ 64 - 1 -> im_new_old Release file (2 ^ 64 - 1) = VPanic PIndex.
Proof.
  intros H. unfold im_new_old.
  change (uadd Release (2 ^ 64 - 1) 1) with (@Ok N 0). cbn [vlift vbind].
  replace (lenN file <=? 0) with false by lia.
  unfold idx. destruct (nthN file (2 ^ 64 - 1)) eqn:E; [|reflexivity].
  apply nthN_Some_lt in E. lia.
Qed.

Theorem intvec_old_refuted :
  (forall file, im_new_old Debug file (2 ^ 64 - 1) = VPanic POverflow) /\
  (forall file, 0 < lenN file < 2 ^ 64 - 1 -> im_new_old Release file (2 ^ 64 - 1) = VPanic PIndex) /\
  (forall m file, lenN file < 2 ^ 64 -> im_new m file (2 ^ 64 - 1) = VErr UnexpectedEof).
Proof.
  split; [exact im_new_old_debug|]. split; [exact im_new_old_release|].
  intros m file H. apply im_new_out. lia.
Qed.
