(* The rank support built by RankSupport::new passes the loader's checks: one sample per 512-bit block, every
   sample a pair of 64-bit words. (Used by C19 to discharge the rank half of its hypothesis; that the samples are
   the right ranks is C01's business, not needed here.) *)
From Coq Require Import NArith List Lia ZArith Bool.
Require Import SDS.Model.Mach SDS.Model.Bits SDS.Model.Raw SDS.Model.IntVec SDS.Model.BitVec SDS.Model.Ser.
Require Import SDS.gen.Consts SDS.Spec.Stream SDS.Proofs.BitsProof SDS.Proofs.SerProof SDS.Proofs.SerTypes SDS.Proofs.SerSupports.
Import ListNotations.
Open Scope list_scope.
Open Scope N_scope.
Require Import ZifyBool ZifyN ZifyNat.
Ltac Zify.zify_post_hook ::= Z.div_mod_to_equations.
Arguments N.add : simpl never. Arguments N.sub : simpl never. Arguments N.mul : simpl never.
Arguments N.div : simpl never. Arguments N.modulo : simpl never. Arguments N.pow : simpl never.
Arguments N.leb : simpl never. Arguments N.ltb : simpl never. Arguments N.eqb : simpl never.
Arguments N.land : simpl never. Arguments N.lor : simpl never. Arguments N.shiftl : simpl never.

Lemma idx_wf data i w : wf data -> idx data i = Ok w -> w < 2 ^ 64.
Proof.
  intros Hd E. unfold idx in E. destruct (nthN data i) as [x|] eqn:En; [|discriminate].
  injection E as <-. exact (wf_nthN data i x Hd En).
Qed.

Lemma rank_words_bound data base n j bo rel bo' rel' :
  wf data -> rank_words data base n j bo rel = Ok (bo', rel') -> bo' <= bo + 64 * N.of_nat n.
Proof.
  intros Hd. revert j bo rel. induction n as [|k IH]; intros j bo rel E; cbn [rank_words] in E.
  - injection E as <- <-. lia.
  - destruct (idx data (base + j)) as [w| |] eqn:Ew; cbn [bind] in E; try discriminate.
    apply IH in E. pose proof (popcount_le_64 w (idx_wf data _ w Hd Ew)). lia.
Qed.

Lemma rank_blocks_spec data words n block ones s :
  wf data -> rank_blocks data words n block ones = Ok s -> ones <= 512 * block ->
  length s = n /\ Forall (fun p => fst p <= 512 * (block + N.of_nat n) /\ snd p < 2 ^ 64) s.
Proof.
  intros Hd. revert block ones s. induction n as [|k IH]; intros block ones s E Ho; cbn [rank_blocks] in E.
  - injection E as <-. split; [reflexivity|constructor].
  - destruct (rank_words data (block * rank_WORDS_PER_BLOCK)
                (N.to_nat (N.min rank_WORDS_PER_BLOCK (words - block * rank_WORDS_PER_BLOCK))) 0 0 0)
      as [[bo rel]| |] eqn:Ew; cbn [bind] in E; try discriminate.
    change ((rank_WORDS_PER_BLOCK - 1) * rank_RELATIVE_RANK_BITS) with 63 in E.
    rewrite low_set_ok in E by lia. cbn [bind] in E.
    destruct (rank_blocks data words k (block + 1) (ones + bo)) as [rest| |] eqn:Er; cbn [bind] in E; try discriminate.
    injection E as <-.
    apply rank_words_bound in Ew; [|exact Hd]. change rank_WORDS_PER_BLOCK with 8 in Ew.
    apply IH in Er; [|lia]. destruct Er as [Hl Hf]. split; [cbn [length]; now rewrite Hl|].
    constructor.
    + cbn [fst snd]. split; [lia|]. rewrite N.land_ones.
      assert (rel mod 2 ^ 63 < 2 ^ 63) by (apply N.mod_lt; lia). lia.
    + eapply Forall_impl; [|exact Hf]. cbv beta. intros p [A B]. split; [lia|exact B].
Qed.

Lemma rank_new_ok b rs :
  raw_ok (bv_data b) -> rlen (bv_data b) + 512 < 2 ^ 64 -> rank_new b = Ok rs ->
  rs_ok rs /\ rs_blocks rs = ceil_div (rlen (bv_data b)) rank_BLOCK_SIZE.
Proof.
  intros [Hl [Hw Hd]] Hlen E. unfold rank_new in E. unfold bv_len in E. change rank_BLOCK_SIZE with 512 in *.
  destruct (rank_blocks (rdata (bv_data b)) (bits_to_words (rlen (bv_data b)))
              (N.to_nat ((rlen (bv_data b) + 512 - 1) / 512)) 0 0) as [s| |] eqn:Es; cbn [bind] in E; try discriminate.
  injection E as <-. apply rank_blocks_spec in Es; [|exact Hd|lia]. destruct Es as [Hn Hf].
  unfold rs_ok, rs_blocks, ceil_div. cbn [rs_samples c_wf vec_pair_codec vec_codec].
  assert (Hlen' : lenN s = (rlen (bv_data b) + 512 - 1) / 512) by (unfold lenN; rewrite Hn; lia).
  split; [|exact Hlen']. split.
  - eapply Forall_impl; [|exact Hf]. cbv beta. intros p [A B]. cbn [c_wf pair_codec]. split; [lia|exact B].
  - rewrite Hlen'. unfold ISIZE_MAX. change bits_WORD_BYTES with 8. lia.
Qed.

(* the hypothesis C19 really needs: the two select supports pass the loader's checks *)
Definition select_supports_ok (bf : bitvec) : Prop :=
  match bv_select bf with None => True
  | Some v => ss_ok v /\ ss_superblocks v = ceil_div (bv_ones bf) select_SUPERBLOCK_SIZE end /\
  match bv_select_zero bf with None => True
  | Some v => ss_ok v /\ ss_superblocks v = ceil_div (rlen (bv_data bf) - bv_ones bf) select_SUPERBLOCK_SIZE end.

Lemma built_bv_ok sp m b0 bf :
  no_supports b0 -> raw_ok (bv_data b0) -> bv_ones b0 <= rlen (bv_data b0) ->
  rlen (bv_data b0) + select_SUPERBLOCK_SIZE < 2 ^ 64 ->
  bv_enable_all sp m b0 = Ok bf -> select_supports_ok bf -> bv_ok bf.
Proof.
  intros H0 Hraw Ho Hl E [Hs Hz].
  destruct (enable_all_full sp m b0 bf H0 E) as [[rs [s1 [s0 [Er [Es [Ez [Br _]]]]]]] [Co Cd]].
  change select_SUPERBLOCK_SIZE with 4096 in Hl.
  unfold bv_ok. rewrite <- Co, <- Cd. split; [exact Ho|]. split; [exact Hl|]. split; [exact Hraw|].
  rewrite Co, Cd. split; [|split; assumption].
  rewrite Er. apply rank_new_ok; [rewrite <- Cd; exact Hraw|rewrite <- Cd; lia|exact Br].
Qed.
