(* Proofs about Model/Ser.v, per type: the layouts regenerated from the source are the field orders the
   codecs implement; RawVector, IntVector, RankSupport, SelectSupport and BitVector satisfy codec_ok; so does
   every type of the closed universe [ty]; size_by_params; agreement with the element-level encoders of SerBV. *)
From Coq Require Import String NArith List Lia ZArith Bool.
Require Import SDS.Model.Mach SDS.Model.Bits SDS.Model.Raw SDS.Model.IntVec SDS.Model.BitVec SDS.Model.Ser SDS.Model.SerBV.
Require Import SDS.gen.Consts SDS.gen.Funs SDS.gen.Layout SDS.Spec.Stream SDS.Proofs.BitsProof SDS.Proofs.SerProof.
Import ListNotations.
Open Scope list_scope.
Open Scope N_scope.
Require Import ZifyBool ZifyN ZifyNat.
Ltac Zify.zify_post_hook ::= Z.div_mod_to_equations.
Arguments N.add : simpl never. Arguments N.sub : simpl never. Arguments N.mul : simpl never.
Arguments N.div : simpl never. Arguments N.modulo : simpl never. Arguments N.pow : simpl never.
Arguments N.leb : simpl never. Arguments N.ltb : simpl never. Arguments N.eqb : simpl never.

(* ------------------------------------------------------------------ the tie to the source: field orders *)

Lemma layout_RawVector_ok :
  mklayout layout_RawVector_serialize_header layout_RawVector_serialize_body layout_RawVector_load
           layout_RawVector_load_checks layout_RawVector_size_in_elements = expected_RawVector.
Proof. reflexivity. Qed.
Lemma layout_IntVector_ok :
  mklayout layout_IntVector_serialize_header layout_IntVector_serialize_body layout_IntVector_load
           layout_IntVector_load_checks layout_IntVector_size_in_elements = expected_IntVector.
Proof. reflexivity. Qed.
Lemma layout_RankSupport_ok :
  mklayout layout_RankSupport_serialize_header layout_RankSupport_serialize_body layout_RankSupport_load
           layout_RankSupport_load_checks layout_RankSupport_size_in_elements = expected_RankSupport.
Proof. reflexivity. Qed.
Lemma layout_SelectSupport_ok :
  mklayout layout_SelectSupport_T_serialize_header layout_SelectSupport_T_serialize_body layout_SelectSupport_T_load
           layout_SelectSupport_T_load_checks layout_SelectSupport_T_size_in_elements = expected_SelectSupport.
Proof. reflexivity. Qed.
Lemma layout_BitVector_ok :
  mklayout layout_BitVector_serialize_header layout_BitVector_serialize_body layout_BitVector_load
           layout_BitVector_load_checks layout_BitVector_size_in_elements = expected_BitVector.
Proof. reflexivity. Qed.
Lemma layout_RLVector_ok :
  mklayout layout_RLVector_serialize_header layout_RLVector_serialize_body layout_RLVector_load
           layout_RLVector_load_checks layout_RLVector_size_in_elements = expected_RLVector.
Proof. reflexivity. Qed.
Lemma layout_V_ok :
  mklayout layout_V_serialize_header layout_V_serialize_body layout_V_load
           layout_V_load_checks layout_V_size_in_elements = expected_V.
Proof. reflexivity. Qed.
Lemma layout_Vec_V_ok :
  mklayout layout_Vec_V_serialize_header layout_Vec_V_serialize_body layout_Vec_V_load
           layout_Vec_V_load_checks layout_Vec_V_size_in_elements = expected_Vec_V.
Proof. reflexivity. Qed.
Lemma layout_Vec_u8_ok :
  mklayout layout_Vec_u8_serialize_header layout_Vec_u8_serialize_body layout_Vec_u8_load
           layout_Vec_u8_load_checks layout_Vec_u8_size_in_elements = expected_Vec_u8.
Proof. reflexivity. Qed.
Lemma layout_String_ok :
  mklayout layout_String_serialize_header layout_String_serialize_body layout_String_load
           layout_String_load_checks layout_String_size_in_elements = expected_String.
Proof. reflexivity. Qed.
Lemma layout_Option_V_ok :
  mklayout layout_Option_V_serialize_header layout_Option_V_serialize_body layout_Option_V_load
           layout_Option_V_load_checks layout_Option_V_size_in_elements = expected_Option_V.
Proof. reflexivity. Qed.

(* a struct's `serialize` is serialize_header then serialize_body; "x:serialize_header" closing the header and
   "x:serialize_body" opening the body are one "x:serialize". The flattened call list must be the field order of
   the codec, and load / size_in_elements must visit the same fields in the same order. *)
Definition field_of (call : string) : string :=
  match index 0 ":" call with Some i => substring 0 i call | None => call end.
Definition field_of_load (call : string) : string :=
  match index 0 "=" call with Some i => substring 0 i call | None => call end.
Definition is_suffix (suf s : string) : bool :=
  let n := String.length suf in let k := String.length s in
  Nat.leb n k && String.eqb (substring (k - n) n s) suf.

Definition flatten (header body : list string) : list string :=
  match rev header, body with
  | h :: hr, b :: bt =>
      if is_suffix ":serialize_header" h && is_suffix ":serialize_body" b && String.eqb (field_of h) (field_of b)
      then map field_of (rev hr) ++ field_of h :: map field_of bt
      else map field_of header ++ map field_of body
  | _, _ => map field_of header ++ map field_of body
  end.

Definition fields_consistent (l : layout) (fields : list string) : Prop :=
  flatten (l_header l) (l_body l) = fields /\ map field_of_load (l_load l) = fields /\ l_size l = fields.

Lemma fields_RawVector : fields_consistent expected_RawVector ["len"; "data"]%string.
Proof. repeat split. Qed.
Lemma fields_IntVector : fields_consistent expected_IntVector ["len"; "width"; "data"]%string.
Proof. repeat split. Qed.
Lemma fields_RankSupport : fields_consistent expected_RankSupport ["samples"]%string.
Proof. repeat split. Qed.
Lemma fields_SelectSupport : fields_consistent expected_SelectSupport ["samples"; "long"; "short"]%string.
Proof. repeat split. Qed.
Lemma fields_BitVector :
  fields_consistent expected_BitVector ["ones"; "data"; "rank"; "select"; "select_zero"]%string.
Proof. repeat split. Qed.

Lemma fields_RLVector : fields_consistent expected_RLVector ["len"; "ones"; "samples"; "data"]%string.
Proof. repeat split. Qed.

(* ------------------------------------------------------------------ RawVector *)

Lemma raw_ok_wf m r : raw_ok r ->
  c_wf (conv_codec (seq_codec usize_codec vec_u64_codec) (fun r => (rlen r, rdata r)) (raw_from m)) r.
Proof.
  intros [Hl [Hw Hd]]. split.
  - cbn [c_wf seq_codec fst snd usize_codec u64_codec vec_u64_codec vec_codec].
    split; [lia|]. split; [exact Hd|].
    rewrite Hw. unfold bits_to_words, ISIZE_MAX. change bits_WORD_BITS with 64. change bits_WORD_BYTES with 8. lia.
  - unfold raw_from. destruct (bits_to_words_spec m (rlen r) Hl) as [_ E]. rewrite E. cbn [io_of_res iobind].
    rewrite Hw, N.eqb_refl. cbn [negb]. now destruct r.
Qed.

Lemma raw_codec_ok m : codec_ok (raw_codec m).
Proof.
  apply with_wf_ok.
  - apply conv_codec_ok. apply seq_codec_ok; [exact usize_codec_ok|exact vec_u64_codec_ok].
  - intros r. apply raw_ok_wf.
Qed.

Lemma raw_size m r : c_size (raw_codec m) r = 2 + lenN (rdata r).
Proof. cbn. lia. Qed.

(* ------------------------------------------------------------------ IntVector *)

Lemma iv_codec_ok m : codec_ok (iv_codec m).
Proof.
  apply with_wf_ok.
  - apply conv_codec_ok. apply seq_codec_ok; [exact usize_codec_ok|].
    apply seq_codec_ok; [exact usize_codec_ok|exact (raw_codec_ok m)].
  - intros v [Hl [Hw [Hp Hr]]]. split.
    + cbn [c_wf seq_codec fst snd usize_codec u64_codec raw_codec with_wf]. auto.
    + unfold iv_from_fields, umul. destruct Hr as [Hr _].
      replace (ilen v * iwidth v <? 2 ^ 64) with true by lia. cbn [io_of_res iobind].
      rewrite Hp, N.eqb_refl. cbn [negb]. now destruct v.
Qed.

Lemma iv_size m v : c_size (iv_codec m) v = 4 + lenN (rdata (idata v)).
Proof. cbn. lia. Qed.

(* ------------------------------------------------------------------ RankSupport *)

Lemma rs_codec_ok : codec_ok rs_codec.
Proof.
  apply with_wf_ok.
  - apply conv_codec_ok. exact vec_pair_codec_ok.
  - intros r H. split; [exact H|]. now destruct r.
Qed.

(* ------------------------------------------------------------------ SelectSupport *)

Lemma ss_codec_ok m : codec_ok (ss_codec m).
Proof.
  pose proof (iv_codec_ok m) as Hi.
  apply with_wf_ok.
  - apply conv_codec_ok. repeat apply seq_codec_ok; exact Hi.
  - intros s [H1 [H2 [H3 [B1 [B2 E]]]]]. split.
    + cbn [c_wf seq_codec fst snd iv_codec with_wf]. auto.
    + unfold ss_from, uadd, usub.
      replace (ilen (ss_long s) + select_SUPERBLOCK_SIZE <? 2 ^ 64) with true by lia. cbn [io_of_res iobind].
      change select_SUPERBLOCK_SIZE with 4096 in *. change select_BLOCKS_IN_SUPERBLOCK with 64 in *.
      replace (1 <=? ilen (ss_long s) + 4096) with true by lia. cbn [io_of_res iobind].
      replace (ilen (ss_short s) + 64 <? 2 ^ 64) with true by lia. cbn [io_of_res iobind].
      replace (1 <=? ilen (ss_short s) + 64) with true by lia. cbn [io_of_res iobind].
      replace ((ilen (ss_long s) + 4096 - 1) / 4096 + (ilen (ss_short s) + 64 - 1) / 64 <? 2 ^ 64) with true by lia.
      cbn [io_of_res iobind].
      unfold ss_superblocks, ss_long_superblocks, ss_short_superblocks in E.
      change select_SUPERBLOCK_SIZE with 4096 in E. change select_BLOCKS_IN_SUPERBLOCK with 64 in E.
      rewrite E, N.eqb_refl. cbn [negb]. now destruct s.
Qed.

(* ------------------------------------------------------------------ BitVector *)

Lemma check_blocks_ok {A} m (o : option A) (count : A -> N) n u :
  1 <= u -> n + u < 2 ^ 64 ->
  match o with None => True | Some v => count v = ceil_div n u end ->
  check_blocks m o count n u = IoOk tt.
Proof.
  intros Hu Hn H. destruct o as [v|]; cbn [check_blocks]; [|reflexivity].
  destruct (div_round_up_spec m n u Hu Hn) as [E _]. rewrite E. cbn [io_of_res iobind].
  unfold ceil_div in H. rewrite H, N.eqb_refl. reflexivity.
Qed.

Lemma opt_wf {A} (c : codec A) (P : A -> Prop) (o : option A) :
  (forall v, o = Some v -> c_wf c v /\ 0 < c_size c v < 2 ^ 61) -> c_wf (option_codec c) o.
Proof. intros H. destruct o as [v|]; cbn [c_wf option_codec]; [now apply H|exact I]. Qed.

(* sizes of the supports stay far below 2^61 elements: they are bounded by the vectors they hold *)
Definition small_sizes (m : mode) (b : bitvec) : Prop :=
  match bv_rank b with Some v => c_size rs_codec v < 2 ^ 61 | None => True end /\
  match bv_select b with Some v => c_size (ss_codec m) v < 2 ^ 61 | None => True end /\
  match bv_select_zero b with Some v => c_size (ss_codec m) v < 2 ^ 61 | None => True end.

Lemma rs_size_small v : rs_ok v -> 0 < c_size rs_codec v < 2 ^ 61.
Proof.
  intros [_ H]. cbn [c_size rs_codec with_wf conv_codec vec_pair_codec vec_codec].
  unfold ISIZE_MAX in H. change bits_WORD_BYTES with 8 in H. lia.
Qed.

Lemma raw_words_small r : raw_ok r -> lenN (rdata r) < 2 ^ 58.
Proof. intros [Hl [Hw _]]. rewrite Hw. unfold bits_to_words. change bits_WORD_BITS with 64. lia. Qed.

Lemma ss_size_small m v : ss_ok v -> 0 < c_size (ss_codec m) v < 2 ^ 61.
Proof.
  intros [[_ [_ [_ H1]]] [[_ [_ [_ H2]]] [[_ [_ [_ H3]]] _]]].
  apply raw_words_small in H1, H2, H3.
  cbn [c_size ss_codec with_wf conv_codec seq_codec iv_codec raw_codec usize_codec u64_codec vec_u64_codec vec_codec fst snd].
  lia.
Qed.

Lemma bv_opts_wf m b : bv_ok b ->
  c_wf (option_codec rs_codec) (bv_rank b) /\ c_wf (option_codec (ss_codec m)) (bv_select b) /\
  c_wf (option_codec (ss_codec m)) (bv_select_zero b).
Proof.
  intros [_ [_ [_ [Hr [Hs Hz]]]]]. repeat split.
  - destruct (bv_rank b) as [v|]; cbn [c_wf option_codec]; [|exact I].
    destruct Hr as [Hr _]. split; [exact Hr|now apply rs_size_small].
  - destruct (bv_select b) as [v|]; cbn [c_wf option_codec]; [|exact I].
    destruct Hs as [Hs _]. split; [exact Hs|now apply ss_size_small].
  - destruct (bv_select_zero b) as [v|]; cbn [c_wf option_codec]; [|exact I].
    destruct Hz as [Hz _]. split; [exact Hz|now apply ss_size_small].
Qed.

Lemma bv_codec_ok m : codec_ok (bv_codec m).
Proof.
  pose proof (raw_codec_ok m) as HR.
  pose proof (option_codec_ok rs_codec rs_codec_ok) as HK.
  pose proof (option_codec_ok (ss_codec m) (ss_codec_ok m)) as HS.
  constructor.
  - intros b rest W. destruct (bv_opts_wf m b W) as [W1 [W2 W3]].
    destruct W as [Ho [Hl [Hraw [Hr [Hs Hz]]]]].
    change select_SUPERBLOCK_SIZE with 4096 in Hl.
    cbn [c_enc c_dec bv_codec]. unfold bv_enc, bv_dec.
    rewrite <- !app_assoc. rewrite dec_elem_app by (destruct Hraw; lia). cbn [iobind].
    rewrite (ok_rt _ HR) by exact Hraw. cbn [iobind].
    replace (rlen (bv_data b) <? bv_ones b) with false by lia.
    rewrite (ok_rt _ HK) by exact W1. cbn [iobind].
    rewrite check_blocks_ok; [|change rank_BLOCK_SIZE with 512; lia..|destruct (bv_rank b); [apply Hr|exact I]].
    cbn [iobind].
    rewrite (ok_rt _ HS) by exact W2. cbn [iobind].
    rewrite check_blocks_ok; [|change select_SUPERBLOCK_SIZE with 4096; lia..|destruct (bv_select b); [apply Hs|exact I]].
    cbn [iobind].
    rewrite (ok_rt _ HS) by exact W3. cbn [iobind].
    rewrite check_blocks_ok; [|change select_SUPERBLOCK_SIZE with 4096; lia..|destruct (bv_select_zero b); [apply Hz|exact I]].
    cbn [iobind]. now destruct b.
  - intros b W. destruct (bv_opts_wf m b W) as [W1 [W2 W3]].
    destruct W as [Ho [Hl [Hraw _]]].
    cbn [c_enc c_size bv_codec]. unfold bv_enc.
    rewrite !lenN_app, le64_lenN, (ok_size _ HR), (ok_size _ HK), !(ok_size _ HS) by assumption. lia.
  - intros b W. destruct (bv_opts_wf m b W) as [W1 [W2 W3]].
    destruct W as [Ho [Hl [Hraw [Hr [Hs Hz]]]]].
    change select_SUPERBLOCK_SIZE with 4096 in Hl.
    assert (Wn : c_wf u64_codec (bv_ones b)) by (cbn [c_wf u64_codec]; destruct Hraw; lia).
    cbn [c_enc c_dec bv_codec]. unfold bv_enc, bv_dec.
    change dec_elem with (c_dec u64_codec). change (le64 (bv_ones b)) with (c_enc u64_codec (bv_ones b)).
    apply (prefix_bind u64_codec (bv_ones b) _ _ u64_codec_ok Wn).
    apply (prefix_bind (raw_codec m) (bv_data b) _ _ HR Hraw).
    replace (rlen (bv_data b) <? bv_ones b) with false by lia.
    apply (prefix_bind (option_codec rs_codec) (bv_rank b) _ _ HK W1).
    rewrite check_blocks_ok; [|change rank_BLOCK_SIZE with 512; lia..|destruct (bv_rank b); [apply Hr|exact I]].
    cbn [iobind].
    apply (prefix_bind (option_codec (ss_codec m)) (bv_select b) _ _ HS W2).
    rewrite check_blocks_ok; [|change select_SUPERBLOCK_SIZE with 4096; lia..|destruct (bv_select b); [apply Hs|exact I]].
    cbn [iobind].
    apply (prefix_bind_last (option_codec (ss_codec m)) (bv_select_zero b) _ HS W3).
Qed.

(* ------------------------------------------------------------------ RLVector *)

(* by composition: four fields, then the loader's check and the rebuilt indexes ([c_wf] asks that the loader
   rebuilds the record itself; Proofs/SerRL.v shows that every vector built by RLVector::from meets it) *)
Lemma rl_codec_ok m : codec_ok (rl_codec m).
Proof.
  apply conv_codec_ok. apply seq_codec_ok; [exact usize_codec_ok|].
  apply seq_codec_ok; [exact usize_codec_ok|]. apply seq_codec_ok; exact (iv_codec_ok m).
Qed.

Lemma rl_size m v : c_size (rl_codec m) v = 10 + lenN (rdata (idata (RL.rl_samples v))) + lenN (rdata (idata (RL.rl_data v))).
Proof. cbn. lia. Qed.

(* ------------------------------------------------------------------ every type of the universe *)

Theorem codec_of_ok m t : codec_ok (codec_of m t).
Proof.
  induction t; cbn [codec_of].
  - exact u64_codec_ok.
  - exact usize_codec_ok.
  - exact pair_codec_ok.
  - exact vec_u64_codec_ok.
  - exact vec_pair_codec_ok.
  - exact (bytes_codec_ok m).
  - exact (string_codec_ok m).
  - now apply option_codec_ok.
  - exact (raw_codec_ok m).
  - exact (iv_codec_ok m).
  - exact rs_codec_ok.
  - exact (ss_codec_ok m).
  - exact (bv_codec_ok m).
  - exact (rl_codec_ok m).
Qed.

(* ------------------------------------------------------------------ size_by_params *)

Lemma raw_size_by_params_ok m r : raw_ok r -> raw_size_by_params (rlen r) = c_size (raw_codec m) r.
Proof. intros [_ [Hw _]]. rewrite raw_size. unfold raw_size_by_params. now rewrite Hw. Qed.

Lemma iv_size_by_params_ok m v : iv_ok v -> iv_size_by_params (ilen v) (iwidth v) = c_size (iv_codec m) v.
Proof.
  intros [_ [_ [Hp [_ [Hw _]]]]]. rewrite iv_size. unfold iv_size_by_params, raw_size_by_params.
  rewrite Hp, Hw. lia.
Qed.

(* ------------------------------------------------------------------ agreement with the element-level encoders (SerBV.v) *)

Lemma flat_le64_app a b : flat_map le64 (a ++ b) = flat_map le64 a ++ flat_map le64 b.
Proof. apply flat_map_app. Qed.

Lemma vec_u64_enc_elems l : c_enc vec_u64_codec l = flat_map le64 (lenN l :: l).
Proof. reflexivity. Qed.

Lemma raw_enc_elems m r : c_enc (raw_codec m) r = flat_map le64 (raw_serialize r).
Proof. reflexivity. Qed.

Lemma iv_enc_elems m v : c_enc (iv_codec m) v = flat_map le64 (iv_serialize v).
Proof. reflexivity. Qed.

Lemma rs_enc_elems r : c_enc rs_codec r = flat_map le64 (rs_serialize r).
Proof.
  cbn [c_enc rs_codec with_wf conv_codec vec_pair_codec vec_codec]. unfold rs_serialize.
  cbn [flat_map]. f_equal. induction (rs_samples r) as [|[a b] t IH]; cbn [flat_map]; [reflexivity|].
  rewrite IH. cbn [c_enc pair_codec fst snd app flat_map]. rewrite <- !app_assoc. reflexivity.
Qed.

Lemma ss_enc_elems m s : c_enc (ss_codec m) s = flat_map le64 (ss_serialize s).
Proof.
  unfold ss_serialize. rewrite !flat_le64_app. reflexivity.
Qed.

Lemma elems_len l : lenN (flat_map le64 l) = 8 * lenN l.
Proof. induction l as [|x t IH]; cbn [flat_map]; [reflexivity|]. rewrite lenN_app, le64_lenN, IH, lenN_cons. lia. Qed.

Lemma opt_enc_elems {A} (c : codec A) (f : A -> list N) (o : option A) :
  codec_ok c -> c_wf (option_codec c) o ->
  (forall x, c_enc c x = flat_map le64 (f x)) ->
  c_enc (option_codec c) o = flat_map le64 (opt_serialize f o).
Proof.
  intros Hc W E. destruct o as [x|]; cbn [c_enc option_codec opt_serialize]; [|reflexivity].
  cbn [flat_map]. rewrite <- E. f_equal. f_equal.
  destruct W as [Wx _]. generalize (ok_size c Hc x Wx). rewrite E, elems_len. lia.
Qed.

Theorem bv_enc_elems m b : bv_ok b -> c_enc (bv_codec m) b = flat_map le64 (bv_serialize b).
Proof.
  intros W. destruct (bv_opts_wf m b W) as [W1 [W2 W3]].
  cbn [c_enc bv_codec]. unfold bv_enc, bv_serialize. cbn [flat_map]. rewrite !flat_le64_app.
  rewrite (opt_enc_elems rs_codec rs_serialize _ rs_codec_ok W1 rs_enc_elems).
  rewrite !(opt_enc_elems (ss_codec m) ss_serialize _ (ss_codec_ok m)) by (auto using ss_enc_elems).
  reflexivity.
Qed.

(* RLVector: the byte-level encoder is the little-endian image of the element list of Model/RL.v (rl_serialize) *)
Lemma rl_enc_elems m v : c_enc (rl_codec m) v = flat_map le64 (RL.rl_serialize v).
Proof.
  unfold RL.rl_serialize. rewrite !flat_le64_app. cbn [flat_map app]. rewrite app_nil_r.
  rewrite <- !iv_enc_elems with (m := m). reflexivity.
Qed.

(* ------------------------------------------------------------------ HOW TO ADD A COMPOSITE TYPE (by composition)
   (RLVector above - rl_codec, rl_codec_ok - is a worked instance: conv_codec over seq_codec of its four fields)

   Record sparse := mksparse { sv_len : N; sv_high : bitvec; sv_low : intvec }.
   (* the loader's checks and rebuilding, in the order of the Rust; every failed check is IoErr InvalidData *)
   Definition sparse_from (sp : selpath) (m : mode) (p : N * (bitvec * intvec)) : io sparse :=
     let '(len, (high, low)) := p in
     if negb (ilen low =? bv_count_ones high) then IoErr InvalidData else
     let+ h1 := io_of_res (bv_enable_select_t sp m Identity high) in
     let+ h2 := io_of_res (bv_enable_select_t sp m Complement h1) in
     IoOk (mksparse len h2 low).
   Definition sparse_ok sp m (s : sparse) : Prop := ... (* what the builder guarantees *)
   (* fields in layout order (state expected_SparseVector : layout next to it and prove layout_SparseVector_ok
      and fields_consistent by reflexivity) *)
   Definition sparse_codec sp m : codec sparse :=
     with_wf (conv_codec (seq_codec usize_codec (seq_codec (bv_codec m) (iv_codec m)))
                         (fun s => (sv_len s, (sv_high s, sv_low s))) (sparse_from sp m)) (sparse_ok sp m).
   Lemma sparse_codec_ok sp m : codec_ok (sparse_codec sp m).
   Proof.
     apply with_wf_ok.
     - apply conv_codec_ok. repeat apply seq_codec_ok;
         [exact usize_codec_ok|exact (bv_codec_ok m)|exact (iv_codec_ok m)].
     - (* the only real obligation: sparse_ok s -> fields well-formed /\ sparse_from (fields of s) = IoOk s *)
   Qed.

   codec_ok gives ok_rt (round trip, exact consumption), ok_size, ok_prefix (truncation) for the new type, and the
   generic theorems apply to it at once: option_codec_ok (Option<T>), dec_all_app / dec_all_prefix (streams of
   several structures), skip_option_app / skip_option_prefix. Use dseq_codec when a later field's format depends
   on an earlier one and rep_codec n c for n structures without a length prefix (WMCore: width, checked to be
   1..64 BEFORE anything is sized by it, then width bitvectors:
   dseq_codec (conv_codec usize_codec (fun w => w) (fun w => if (w =? 0) || (64 <? w) then IoErr InvalidData else IoOk w))
              (fun w => rep_codec (N.to_nat w) (bv_codec m))). When checks are
   interleaved with reads (BitVector::load) write c_dec by hand and chain prefix_bind / prefix_bind_last as in
   bv_codec_ok. On the harness side add a generator returning G<T> (harness/src/c06.rs), a constructor of [ty],
   a [recipe] and a case of [build] (Check/SerCommon.v). *)
