(* The wavelet matrix as iterated stable partitions of a list: reversed-bit keys, the position maps
   through k levels (down with a value, down reading the bits, up with a value), and the proof that the
   final order is the stable sort by reversed bits. Pure list level; no model here. *)
From Coq Require Import NArith List Lia ZArith Bool Permutation Sorted.
Require Import SDS.Spec.BitSeq SDS.Spec.Seq SDS.Proofs.WMSeq.
Import ListNotations.
Open Scope N_scope.
Require Import ZifyBool ZifyN ZifyNat.
Ltac Zify.zify_post_hook ::= Z.div_mod_to_equations.
Arguments N.add : simpl never. Arguments N.sub : simpl never. Arguments N.mul : simpl never.
Arguments N.eqb : simpl never. Arguments N.ltb : simpl never. Arguments N.leb : simpl never.
Arguments N.pow : simpl never. Arguments N.shiftl : simpl never. Arguments N.shiftr : simpl never.
Arguments N.land : simpl never. Arguments N.lor : simpl never. Arguments N.div : simpl never.
Arguments N.modulo : simpl never. Arguments N.ones : simpl never. Arguments N.testbit : simpl never.
Arguments N.div2 : simpl never. Arguments N.odd : simpl never.

(* ---------------------------------------------------------------- reversed bits *)

Lemma pow2_S j : 2 ^ N.of_nat (S j) = 2 * 2 ^ N.of_nat j.
Proof. rewrite Nat2N.inj_succ, N.pow_succ_r'. reflexivity. Qed.

Lemma pow2_pos k : 0 < 2 ^ k.
Proof. apply N.neq_0_lt_0. apply N.pow_nonzero. discriminate. Qed.

Lemma b2n_le1 b : N.b2n b <= 1. Proof. destruct b; cbn; lia. Qed.

Lemma krev_from_acc k v acc : krev_from k v acc = acc * 2 ^ N.of_nat k + krev k v.
Proof.
  unfold krev. revert v acc. induction k as [|j IH]; intros v acc.
  - cbn [krev_from]. change (N.of_nat 0) with 0. rewrite N.pow_0_r. lia.
  - cbn [krev_from]. rewrite (IH (N.div2 v) (2 * acc + N.b2n (N.odd v))), (IH (N.div2 v) (2 * 0 + N.b2n (N.odd v))).
    rewrite pow2_S. lia.
Qed.

Lemma krev_0 v : krev 0 v = 0. Proof. reflexivity. Qed.

(* peeling the lowest bit: it becomes the most significant one *)
Lemma krev_S_low j v : krev (S j) v = N.b2n (N.odd v) * 2 ^ N.of_nat j + krev j (N.div2 v).
Proof.
  unfold krev at 1. cbn [krev_from]. rewrite krev_from_acc. lia.
Qed.

Lemma krev_lt k v : krev k v < 2 ^ N.of_nat k.
Proof.
  revert v. induction k as [|j IH]; intros v.
  - rewrite krev_0. change (N.of_nat 0) with 0. rewrite N.pow_0_r. lia.
  - rewrite krev_S_low, pow2_S. specialize (IH (N.div2 v)). pose proof (b2n_le1 (N.odd v)). nia.
Qed.

(* peeling the highest bit: it becomes the least significant one *)
Lemma krev_S_top j v : krev (S j) v = 2 * krev j v + N.b2n (N.testbit v (N.of_nat j)).
Proof.
  revert v. induction j as [|j IH]; intros v.
  - rewrite krev_S_low, !krev_0. change (N.of_nat 0) with 0. rewrite N.pow_0_r, N.bit0_odd. lia.
  - rewrite krev_S_low, (IH (N.div2 v)), (krev_S_low j v), pow2_S.
    rewrite N.div2_div, N.div2_bits, <- Nat2N.inj_succ. lia.
Qed.

Lemma mod_pow2_S x j : x mod 2 ^ N.of_nat (S j) = x mod 2 ^ N.of_nat j + 2 ^ N.of_nat j * N.b2n (N.testbit x (N.of_nat j)).
Proof.
  rewrite pow2_S, (N.mul_comm 2), N.mod_mul_r by (try apply N.pow_nonzero; discriminate).
  rewrite N.testbit_spec'. reflexivity.
Qed.

Lemma mod_pow2_S_eq x y j :
  x mod 2 ^ N.of_nat (S j) = y mod 2 ^ N.of_nat (S j) <->
  N.testbit x (N.of_nat j) = N.testbit y (N.of_nat j) /\ x mod 2 ^ N.of_nat j = y mod 2 ^ N.of_nat j.
Proof.
  rewrite !mod_pow2_S.
  assert (Hp : 2 ^ N.of_nat j <> 0) by (apply N.pow_nonzero; discriminate).
  pose proof (N.mod_upper_bound x (2 ^ N.of_nat j) Hp) as Hx. pose proof (N.mod_upper_bound y (2 ^ N.of_nat j) Hp) as Hy.
  split.
  - intros H0. destruct (N.testbit x (N.of_nat j)), (N.testbit y (N.of_nat j)); cbn [N.b2n] in H0;
      (split; [try reflexivity; exfalso; nia|nia]).
  - intros [-> ->]. reflexivity.
Qed.

(* the key of the low k bits identifies them *)
Lemma krev_inj k x y : krev k x = krev k y <-> x mod 2 ^ N.of_nat k = y mod 2 ^ N.of_nat k.
Proof.
  induction k as [|j IH].
  - rewrite !krev_0. change (N.of_nat 0) with 0. rewrite N.pow_0_r, !N.mod_1_r. tauto.
  - rewrite mod_pow2_S_eq, <- IH, !krev_S_top. split.
    + intros H0. destruct (N.testbit x (N.of_nat j)), (N.testbit y (N.of_nat j)); cbn [N.b2n] in H0;
        (split; [try reflexivity; exfalso; lia|lia]).
    + intros [-> ->]. reflexivity.
Qed.

Lemma krev_mod k x : krev k (x mod 2 ^ N.of_nat k) = krev k x.
Proof. apply krev_inj. apply N.mod_mod. apply N.pow_nonzero. discriminate. Qed.

Lemma krev_zero k : krev k 0 = 0.
Proof. induction k as [|j IH]; [reflexivity|]. rewrite krev_S_top, IH. rewrite N.bits_0. reflexivity. Qed.

Lemma krev_add a b x : krev (a + b) x = krev a x * 2 ^ N.of_nat b + krev b (x / 2 ^ N.of_nat a).
Proof.
  revert x. induction a as [|a IH]; intros x.
  - cbn [Nat.add]. rewrite krev_0. change (N.of_nat 0) with 0. rewrite N.pow_0_r, N.div_1_r. lia.
  - cbn [Nat.add]. rewrite !krev_S_low, (IH (N.div2 x)). rewrite Nat2N.inj_add, N.pow_add_r.
    rewrite N.div2_div, N.div_div by (try apply N.pow_nonzero; discriminate).
    rewrite pow2_S. lia.
Qed.

(* the 64-bit key of a value below 2^w is its w-bit key shifted up *)
Lemma revkey_small w x : (w <= 64)%nat -> x < 2 ^ N.of_nat w -> revkey x = krev w x * 2 ^ N.of_nat (64 - w).
Proof.
  intros Hw Hx. unfold revkey. replace 64%nat with (w + (64 - w))%nat at 1 by lia.
  rewrite krev_add, N.div_small by exact Hx. rewrite krev_zero. lia.
Qed.

Lemma revkey_lt_small w x y : (w <= 64)%nat -> x < 2 ^ N.of_nat w -> y < 2 ^ N.of_nat w ->
  (revkey x <? revkey y) = (krev w x <? krev w y).
Proof.
  intros Hw Hx Hy. rewrite (revkey_small w x), (revkey_small w y) by assumption.
  pose proof (pow2_pos (N.of_nat (64 - w))).
  destruct (N.ltb_spec (krev w x) (krev w y)); destruct (N.ltb_spec (krev w x * 2 ^ N.of_nat (64 - w)) (krev w y * 2 ^ N.of_nat (64 - w))); try reflexivity; nia.
Qed.

Lemma revkey_eq_small w x y : (w <= 64)%nat -> x < 2 ^ N.of_nat w -> y < 2 ^ N.of_nat w ->
  revkey x = revkey y <-> x = y.
Proof.
  intros Hw Hx Hy. rewrite (revkey_small w x), (revkey_small w y) by assumption.
  pose proof (pow2_pos (N.of_nat (64 - w))). split; [|intros ->; reflexivity].
  intros H0. assert (H1 : krev w x = krev w y) by nia. apply krev_inj in H1.
  rewrite !N.mod_small in H1 by assumption. exact H1.
Qed.

(* ---------------------------------------------------------------- sortedness toolkit *)

Lemma SS_impl_in {A} (R1 R2 : A -> A -> Prop) l :
  (forall a b, In a l -> In b l -> R1 a b -> R2 a b) -> StronglySorted R1 l -> StronglySorted R2 l.
Proof.
  induction l as [|x t IH]; intros Himp H; [constructor|].
  apply StronglySorted_inv in H. destruct H as [Ht Hx]. constructor.
  - apply IH; [|exact Ht]. intros a b Ha Hb. apply Himp; right; assumption.
  - rewrite Forall_forall in *. intros y Hy. apply Himp; [left; reflexivity|right; exact Hy|apply Hx; exact Hy].
Qed.

Lemma SS_filter {A} (R : A -> A -> Prop) g l : StronglySorted R l -> StronglySorted R (filter g l).
Proof.
  induction l as [|x t IH]; intros H; [constructor|].
  apply StronglySorted_inv in H. destruct H as [Ht Hx]. cbn [filter]. destruct (g x); [|apply IH; exact Ht].
  constructor; [apply IH; exact Ht|]. rewrite Forall_forall in *. intros y Hy. apply filter_In in Hy. apply Hx. tauto.
Qed.

Lemma SS_app {A} (R : A -> A -> Prop) l1 l2 :
  StronglySorted R l1 -> StronglySorted R l2 -> (forall a b, In a l1 -> In b l2 -> R a b) -> StronglySorted R (l1 ++ l2).
Proof.
  induction l1 as [|x t IH]; intros H1 H2 H12; [exact H2|].
  apply StronglySorted_inv in H1. destruct H1 as [Ht Hx]. cbn [app]. constructor.
  - apply IH; [exact Ht|exact H2|]. intros a b Ha Hb. apply H12; [right; exact Ha|exact Hb].
  - rewrite Forall_forall in *. intros y Hy. apply in_app_or in Hy. destruct Hy as [Hy|Hy]; [apply Hx; exact Hy|].
    apply H12; [left; reflexivity|exact Hy].
Qed.

Lemma SS_map {A B} (g : A -> B) (R : B -> B -> Prop) l :
  StronglySorted (fun x y => R (g x) (g y)) l -> StronglySorted R (map g l).
Proof.
  induction l as [|x t IH]; intros H; [constructor|].
  apply StronglySorted_inv in H. destruct H as [Ht Hx]. cbn [map]. constructor; [apply IH; exact Ht|].
  rewrite Forall_forall in *. intros y Hy. apply in_map_iff in Hy. destruct Hy as (z & <- & Hz). apply Hx. exact Hz.
Qed.

(* a strict order has at most one sorted arrangement of a given multiset *)
Lemma SS_unique {A} (R : A -> A -> Prop) l1 l2 :
  (forall a, ~ R a a) -> (forall a b c, R a b -> R b c -> R a c) ->
  StronglySorted R l1 -> StronglySorted R l2 -> Permutation l1 l2 -> l1 = l2.
Proof.
  intros Hirr Htr. revert l2. induction l1 as [|a t1 IH]; intros l2 H1 H2 HP.
  - apply Permutation_nil in HP. congruence.
  - destruct l2 as [|b t2]; [apply Permutation_sym, Permutation_nil in HP; discriminate|].
    apply StronglySorted_inv in H1. destruct H1 as [Ht1 Ha]. apply StronglySorted_inv in H2. destruct H2 as [Ht2 Hb].
    rewrite Forall_forall in Ha, Hb.
    assert (Hab : a = b).
    { assert (Hin1 : In a (b :: t2)) by (eapply Permutation_in; [exact HP|left; reflexivity]).
      assert (Hin2 : In b (a :: t1)) by (eapply Permutation_in; [apply Permutation_sym; exact HP|left; reflexivity]).
      destruct Hin1 as [E|Hin1]; [congruence|]. destruct Hin2 as [E|Hin2]; [congruence|].
      exfalso. apply (Hirr a). apply (Htr a b a); [apply Ha; exact Hin2|apply Hb; exact Hin1]. }
    subst b. f_equal. apply IH; [exact Ht1|exact Ht2|]. eapply Permutation_cons_inv. exact HP.
Qed.

(* ---- the stable insertion sort of the specification *)

Section Insertion.
Context {A : Type}.
Variable R0 : A -> A -> Prop.
Definition lexR (x y : N * A) : Prop := fst x < fst y \/ (fst x = fst y /\ R0 (snd x) (snd y)).

Lemma insert_key_perm (x : N * A) l : Permutation (insert_key x l) (x :: l).
Proof.
  induction l as [|y t IH]; cbn [insert_key]; [constructor; constructor|].
  destruct (fst x <=? fst y); [apply Permutation_refl|].
  eapply Permutation_trans; [apply perm_skip; exact IH|]. apply perm_swap.
Qed.

Lemma stable_sort_key_perm (l : list (N * A)) : Permutation (stable_sort_key l) l.
Proof.
  induction l as [|x t IH]; [constructor|]. unfold stable_sort_key in *. cbn [fold_right].
  eapply Permutation_trans; [apply insert_key_perm|]. constructor. exact IH.
Qed.

Lemma insert_key_sorted (x : N * A) l :
  StronglySorted lexR l -> (forall y, In y l -> R0 (snd x) (snd y)) -> StronglySorted lexR (insert_key x l).
Proof.
  induction l as [|y t IH]; intros Hs Hx; cbn [insert_key]; [constructor; constructor|].
  apply StronglySorted_inv in Hs. destruct Hs as [Ht Hy]. rewrite Forall_forall in Hy.
  destruct (N.leb_spec (fst x) (fst y)) as [Hle|Hgt].
  - constructor; [constructor; [exact Ht|rewrite Forall_forall; exact Hy]|].
    rewrite Forall_forall. intros z [<-|Hz].
    + unfold lexR. destruct (N.eq_dec (fst x) (fst y)) as [E|E]; [right; split; [exact E|apply Hx; left; reflexivity]|left; lia].
    + specialize (Hy z Hz). assert (Hxz : R0 (snd x) (snd z)) by (apply Hx; right; exact Hz).
      unfold lexR in *. destruct (N.eq_dec (fst x) (fst z)) as [E|E]; [right; tauto|left; lia].
  - constructor.
    + apply IH; [exact Ht|]. intros z Hz. apply Hx. right. exact Hz.
    + rewrite Forall_forall. intros z Hz. apply (Permutation_in _ (insert_key_perm x t)) in Hz.
      destruct Hz as [<-|Hz]; [left; lia|apply Hy; exact Hz].
Qed.

Lemma stable_sort_key_sorted (l : list (N * A)) :
  StronglySorted (fun x y => R0 (snd x) (snd y)) l -> StronglySorted lexR (stable_sort_key l).
Proof.
  induction l as [|x t IH]; intros Hs; [constructor|]. unfold stable_sort_key in *. cbn [fold_right].
  apply StronglySorted_inv in Hs. destruct Hs as [Ht Hx]. rewrite Forall_forall in Hx.
  apply insert_key_sorted; [apply IH; exact Ht|]. intros y Hy. apply Hx.
  eapply Permutation_in; [apply stable_sort_key_perm|exact Hy].
Qed.
End Insertion.

(* ---------------------------------------------------------------- k levels *)

Section Levels.
Context {A : Type}.
Variable val : A -> N.

Definition fbit (j : nat) (a : A) : bool := N.testbit (val a) (N.of_nat j).

(* the list after the levels for bits k-1, ..., 0 *)
Fixpoint sortk (k : nat) (L : list A) : list A :=
  match k with O => L | S j => sortk j (part (fbit j) L) end.
(* the bit column of each of those levels *)
Fixpoint colsk (k : nat) (L : list A) : list (list bool) :=
  match k with O => [] | S j => map (fbit j) L :: colsk j (part (fbit j) L) end.
(* map down with a value *)
Fixpoint downk (k : nat) (L : list A) (v idx : N) : N :=
  match k with
  | O => idx
  | S j => downk j (part (fbit j) L) v (step_down (map (fbit j) L) (N.testbit v (N.of_nat j)) idx)
  end.
(* map up with a value: through the lower levels first *)
Fixpoint upk (k : nat) (L : list A) (v idx : N) : option N :=
  match k with
  | O => Some idx
  | S j => match upk j (part (fbit j) L) v idx with
           | None => None
           | Some mid => step_up (map (fbit j) L) (N.testbit v (N.of_nat j)) mid
           end
  end.

Lemma sortk_perm k L : Permutation (sortk k L) L.
Proof.
  revert L. induction k as [|j IH]; intros L; [apply Permutation_refl|]. cbn [sortk].
  eapply Permutation_trans; [apply IH|apply part_perm].
Qed.

Lemma sortk_length k L : length (sortk k L) = length L.
Proof. apply Permutation_length. apply sortk_perm. Qed.

Lemma downk_le k L v idx : idx <= N.of_nat (length L) -> downk k L v idx <= N.of_nat (length L).
Proof.
  revert L idx. induction k as [|j IH]; intros L idx Hi; [exact Hi|]. cbn [downk].
  rewrite <- (part_length (fbit j) L). apply IH. rewrite part_length. apply step_down_le. exact Hi.
Qed.

Lemma cnt_true {B} (l : list B) : cnt (fun _ => true) l = N.of_nat (length l).
Proof. induction l as [|x t IH]; [reflexivity|]. rewrite cnt_cons, IH. cbn [length]. lia. Qed.

(* map down with a value = items whose key is smaller + items before idx agreeing on the low k bits *)
Lemma downk_count k L v idx :
  idx <= N.of_nat (length L) ->
  downk k L v idx = cnt (fun a => krev k (val a) <? krev k v) L
                    + cnt (fun a => val a mod 2 ^ N.of_nat k =? v mod 2 ^ N.of_nat k) (firstn (N.to_nat idx) L).
Proof.
  revert L idx. induction k as [|j IH]; intros L idx Hi.
  - cbn [downk]. rewrite cnt_false by (intros x _; rewrite !krev_0; reflexivity).
    rewrite (cnt_ext _ (fun _ => true)) by (intros x; change (N.of_nat 0) with 0; rewrite N.pow_0_r, !N.mod_1_r; reflexivity).
    rewrite cnt_true, firstn_length. lia.
  - cbn [downk]. set (f := fbit j). set (c := N.testbit v (N.of_nat j)).
    rewrite IH by (rewrite part_length; apply step_down_le; exact Hi).
    rewrite part_firstn by exact Hi. rewrite (cnt_perm _ _ _ (part_perm f L)).
    set (F := firstn (N.to_nat idx) L).
    set (K := fun a : A => krev j (val a) <? krev j v).
    set (M := fun a : A => val a mod 2 ^ N.of_nat j =? v mod 2 ^ N.of_nat j).
    assert (HM : forall a, M a = (krev j (val a) =? krev j v)).
    { intros a. unfold M. destruct (N.eqb_spec (val a mod 2 ^ N.of_nat j) (v mod 2 ^ N.of_nat j)) as [E|E];
        destruct (N.eqb_spec (krev j (val a)) (krev j v)) as [E'|E']; try reflexivity; exfalso;
        [apply E'; apply krev_inj; exact E|apply E; apply krev_inj; exact E']. }
    assert (HM1 : forall a, (val a mod 2 ^ N.of_nat (S j) =? v mod 2 ^ N.of_nat (S j)) = Bool.eqb (f a) c && M a).
    { intros a. unfold M, f, fbit, c.
      destruct (N.eqb_spec (val a mod 2 ^ N.of_nat (S j)) (v mod 2 ^ N.of_nat (S j))) as [E|E].
      - apply mod_pow2_S_eq in E. destruct E as [E1 E2]. rewrite E1, E2, N.eqb_refl, Bool.eqb_reflx. reflexivity.
      - destruct (Bool.eqb (N.testbit (val a) (N.of_nat j)) (N.testbit v (N.of_nat j))) eqn:Eb; [|reflexivity].
        apply Bool.eqb_prop in Eb. destruct (N.eqb_spec (val a mod 2 ^ N.of_nat j) (v mod 2 ^ N.of_nat j)) as [E2|E2]; [|reflexivity].
        exfalso. apply E. apply mod_pow2_S_eq. split; assumption. }
    assert (HK1 : forall a, (krev (S j) (val a) <? krev (S j) v) = K a || (M a && negb (f a) && c)).
    { intros a. rewrite HM. unfold K, f, fbit, c. rewrite !krev_S_top.
      destruct (N.testbit (val a) (N.of_nat j)), (N.testbit v (N.of_nat j)); cbn [N.b2n negb andb];
        destruct (N.ltb_spec (krev j (val a)) (krev j v)); destruct (N.eqb_spec (krev j (val a)) (krev j v));
        cbn [orb andb]; lia. }
    rewrite (cnt_ext _ _ L HK1). rewrite (cnt_ext _ _ F HM1).
    assert (Hor : forall l, cnt (fun a => K a || (M a && negb (f a) && c)) l = cnt K l + cnt (fun a => M a && negb (f a) && c) l).
    { intros l. induction l as [|x t IHt]; [reflexivity|]. rewrite !cnt_cons, IHt. rewrite HM. unfold K.
      destruct (N.ltb_spec (krev j (val x)) (krev j v)); destruct (N.eqb_spec (krev j (val x)) (krev j v));
        destruct (negb (f x)), c; cbn [orb andb]; lia. }
    rewrite (Hor L). clear Hor. destruct c.
    + rewrite cnt_app, !cnt_filter.
      rewrite (cnt_ext (fun a => M a && negb (f a) && true) (fun x => negb (f x) && M x)) by (intros a; destruct (M a), (f a); reflexivity).
      rewrite (cnt_ext (fun a => Bool.eqb (f a) true && M a) (fun x => f x && M x)) by (intros a; destruct (M a), (f a); reflexivity).
      fold F. lia.
    + rewrite cnt_filter.
      rewrite (cnt_false (fun a => M a && negb (f a) && false)) by (intros a _; destruct (M a), (f a); reflexivity).
      change (cnt (fun a => Bool.eqb (f a) false && M a) F) with (cnt (fun x => negb (f x) && M x) F). lia.
Qed.

(* the element at idx ends at downk (its own value) idx *)
Lemma downk_nth k L idx a :
  nth_opt L idx = Some a -> nth_opt (sortk k L) (downk k L (val a) idx) = Some a.
Proof.
  revert L idx. induction k as [|j IH]; intros L idx Ha; [exact Ha|]. cbn [sortk downk].
  apply IH. change (N.testbit (val a) (N.of_nat j)) with (fbit j a). apply part_nth. exact Ha.
Qed.

(* downk only looks at the low k bits of the value *)
Lemma downk_mod k L v v' idx :
  v mod 2 ^ N.of_nat k = v' mod 2 ^ N.of_nat k -> downk k L v idx = downk k L v' idx.
Proof.
  revert L idx. induction k as [|j IH]; intros L idx Hv; [reflexivity|]. cbn [downk].
  apply mod_pow2_S_eq in Hv. destruct Hv as [H1 H2]. rewrite H1. apply IH. exact H2.
Qed.

Lemma upk_mod k L v v' idx :
  v mod 2 ^ N.of_nat k = v' mod 2 ^ N.of_nat k -> upk k L v idx = upk k L v' idx.
Proof.
  revert L idx. induction k as [|j IH]; intros L idx Hv; [reflexivity|]. cbn [upk].
  apply mod_pow2_S_eq in Hv. destruct Hv as [H1 H2]. rewrite H1, (IH _ _ H2). reflexivity.
Qed.

Lemma upk_sound k L v idx i :
  (k = O -> idx < N.of_nat (length L)) ->
  upk k L v idx = Some i ->
  exists a, nth_opt L i = Some a /\ val a mod 2 ^ N.of_nat k = v mod 2 ^ N.of_nat k /\ downk k L v i = idx.
Proof.
  revert L idx i. induction k as [|j IH]; intros L idx i Hk H.
  - cbn [upk] in H. injection H as <-. cbn [downk].
    destruct (nth_opt_lt_Some L idx (Hk eq_refl)) as [a Ha]. exists a.
    change (N.of_nat 0) with 0. rewrite N.pow_0_r, !N.mod_1_r. split; [exact Ha|split; reflexivity].
  - cbn [upk] in H. destruct (upk j (part (fbit j) L) v idx) as [mid|] eqn:Emid; [|discriminate].
    apply step_up_sound in H. destruct H as (a & Ha & Hfa & Hsd).
    assert (Hmid : nth_opt (part (fbit j) L) mid = Some a).
    { rewrite <- Hsd, <- Hfa. apply part_nth. exact Ha. }
    apply IH in Emid.
    + destruct Emid as (a' & Ha' & Hm & Hd). rewrite Hmid in Ha'. injection Ha' as <-.
      exists a. split; [exact Ha|]. split.
      * apply mod_pow2_S_eq. split; [exact Hfa|exact Hm].
      * cbn [downk]. rewrite Hsd. exact Hd.
    + intros ->. cbn [upk] in Emid. injection Emid as ->. eapply nth_opt_Some_lt. exact Hmid.
Qed.

Lemma upk_complete k L v i a :
  nth_opt L i = Some a -> val a mod 2 ^ N.of_nat k = v mod 2 ^ N.of_nat k ->
  upk k L v (downk k L v i) = Some i.
Proof.
  revert L i. induction k as [|j IH]; intros L i Ha Hm; [reflexivity|].
  apply mod_pow2_S_eq in Hm. destruct Hm as [Hb Hm]. cbn [upk downk].
  assert (Hc : N.testbit v (N.of_nat j) = fbit j a) by (unfold fbit; congruence).
  rewrite Hc. rewrite (IH (part (fbit j) L) _ (part_nth (fbit j) L i a Ha) Hm).
  apply step_up_complete. exact Ha.
Qed.

(* map down reading the bits of the column: follows the value of the element and rebuilds its low k bits *)
Fixpoint mdk (k : nat) (L : list A) (idx value : N) : option (N * N) :=
  match k with
  | O => Some (idx, value)
  | S j =>
      match getb (map (fbit j) L) idx with
      | None => None
      | Some c => mdk j (part (fbit j) L) (step_down (map (fbit j) L) c idx)
                      (if c then value + 2 ^ N.of_nat j else value)
      end
  end.

Lemma mdk_spec k L idx value a :
  nth_opt L idx = Some a ->
  mdk k L idx value = Some (downk k L (val a) idx, value + val a mod 2 ^ N.of_nat k).
Proof.
  revert L idx value. induction k as [|j IH]; intros L idx value Ha.
  - cbn [mdk downk]. change (N.of_nat 0) with 0. rewrite N.pow_0_r, N.mod_1_r. f_equal. f_equal. lia.
  - cbn [mdk downk]. rewrite getb_nth_opt, nth_opt_map, Ha. cbn [option_map].
    rewrite (IH _ _ _ (part_nth (fbit j) L idx a Ha)). unfold fbit at 2 4. f_equal. f_equal.
    rewrite mod_pow2_S. unfold fbit. destruct (N.testbit (val a) (N.of_nat j)); cbn [N.b2n]; lia.
Qed.

(* ---- the final order is sorted by the reversed low k bits, ties in the order of L *)

Definition lexb (f : A -> bool) (R : A -> A -> Prop) (a b : A) : Prop :=
  (f a = false /\ f b = true) \/ (f a = f b /\ R a b).

Lemma part_sorted f R L : StronglySorted R L -> StronglySorted (lexb f R) (part f L).
Proof.
  intros H. unfold part. apply SS_app.
  - apply SS_impl_in with (R1 := R); [|apply SS_filter; exact H].
    intros a b Ha Hb Hab. apply filter_In in Ha, Hb. right. split; [|exact Hab].
    destruct (f a), (f b); cbn [negb] in *; try reflexivity; destruct Ha, Hb; discriminate.
  - apply SS_impl_in with (R1 := R); [|apply SS_filter; exact H].
    intros a b Ha Hb Hab. apply filter_In in Ha, Hb. right. split; [|exact Hab]. destruct Ha as [_ ->], Hb as [_ ->]. reflexivity.
  - intros a b Ha Hb. apply filter_In in Ha, Hb. left. destruct Ha as [_ Ha], Hb as [_ Hb].
    split; [destruct (f a); [discriminate|reflexivity]|exact Hb].
Qed.

Definition keylex (k : nat) (R : A -> A -> Prop) (a b : A) : Prop :=
  krev k (val a) < krev k (val b) \/ (krev k (val a) = krev k (val b) /\ R a b).

Lemma sortk_sorted k R L : StronglySorted R L -> StronglySorted (keylex k R) (sortk k L).
Proof.
  revert R L. induction k as [|j IH]; intros R L H.
  - cbn [sortk]. eapply SS_impl_in; [|exact H]. intros a b _ _ Hab. right. split; [reflexivity|exact Hab].
  - cbn [sortk]. eapply SS_impl_in; [|apply (IH (lexb (fbit j) R)); apply part_sorted; exact H].
    intros a b _ _ Hab. unfold keylex in *. rewrite !krev_S_top. unfold lexb, fbit in Hab.
    destruct Hab as [Hlt|[Heq [[Ha Hb]|[Hf HR]]]].
    + left. pose proof (b2n_le1 (N.testbit (val a) (N.of_nat j))). pose proof (b2n_le1 (N.testbit (val b) (N.of_nat j))). lia.
    + left. rewrite Ha, Hb. cbn [N.b2n]. lia.
    + right. rewrite Hf, Heq. split; [reflexivity|exact HR].
Qed.

End Levels.
