(* Lemmas about the naive vector specification Spec/Seq.v: occurrences as rank/select of an indicator
   sequence, and the reordered vector as the result of the level-by-level stable partitions. *)
From Coq Require Import NArith List Lia ZArith Bool Permutation Sorted.
Require Import SDS.Spec.BitSeq SDS.Spec.Seq SDS.Proofs.WMSeq SDS.Proofs.WMLevels.
Import ListNotations.
Open Scope N_scope.
Require Import ZifyBool ZifyN ZifyNat.
Ltac Zify.zify_post_hook ::= Z.div_mod_to_equations.
Arguments N.add : simpl never. Arguments N.sub : simpl never. Arguments N.mul : simpl never.
Arguments N.eqb : simpl never. Arguments N.ltb : simpl never. Arguments N.leb : simpl never.
Arguments N.pow : simpl never. Arguments N.div : simpl never. Arguments N.modulo : simpl never.
Arguments N.testbit : simpl never.

(* ---------------------------------------------------------------- index_from *)

Lemma index_from_length {A} (l : list A) s : length (index_from l s) = length l.
Proof. revert s. induction l as [|x t IH]; intros s; cbn [index_from length]; [reflexivity|rewrite IH; reflexivity]. Qed.

Lemma index_from_snd {A} (l : list A) s : map snd (index_from l s) = l.
Proof. revert s. induction l as [|x t IH]; intros s; cbn [index_from map snd]; [reflexivity|rewrite IH; reflexivity]. Qed.

Lemma index_from_nth {A} (l : list A) s i :
  nth_opt (index_from l s) i = option_map (fun x => (s + i, x)) (nth_opt l i).
Proof.
  revert s i. induction l as [|x t IH]; intros s i; cbn [index_from nth_opt]; [reflexivity|].
  destruct (N.eqb_spec i 0) as [->|Hi]; [cbn [option_map]; f_equal; f_equal; lia|].
  rewrite IH. destruct (nth_opt t (i - 1)); cbn [option_map]; [f_equal; f_equal; lia|reflexivity].
Qed.

Lemma index_from_in {A} (l : list A) s p x :
  In (p, x) (index_from l s) -> s <= p /\ nth_opt l (p - s) = Some x.
Proof.
  revert s. induction l as [|y t IH]; intros s; cbn [index_from]; [intros []|].
  intros [E|H].
  - injection E as <- <-. replace (s - s) with 0 by lia. split; [lia|reflexivity].
  - apply IH in H. destruct H as [H1 H2]. split; [lia|]. cbn [nth_opt]. replace (p - s =? 0) with false by lia.
    replace (p - s - 1) with (p - (s + 1)) by lia. exact H2.
Qed.

Lemma index_from_sorted {A} (l : list A) s :
  StronglySorted (fun a b : N * A => fst a < fst b) (index_from l s).
Proof.
  revert s. induction l as [|x t IH]; intros s; cbn [index_from]; constructor; [apply IH|].
  rewrite Forall_forall. intros [p y] Hy. apply index_from_in in Hy. cbn [fst]. lia.
Qed.

Lemma nth_opt_in {A} (l : list A) i x : nth_opt l i = Some x -> In x l.
Proof. rewrite nth_opt_nth_error. apply nth_error_In. Qed.

Lemma in_nth_opt {A} (l : list A) x : In x l -> exists i, nth_opt l i = Some x.
Proof.
  intros H. apply In_nth_error in H. destruct H as [n Hn]. exists (N.of_nat n).
  rewrite nth_opt_nth_error, Nat2N.id. exact Hn.
Qed.

(* ---------------------------------------------------------------- the reordered vector *)

Definition pos_lt (a b : N * N) : Prop := fst a < fst b.
(* the order of the reordered vector: reversed 64-bit key, ties by original position *)
Definition rev_lex (a b : N * N) : Prop :=
  revkey (snd a) < revkey (snd b) \/ (revkey (snd a) = revkey (snd b) /\ fst a < fst b).

Lemma reordered_perm V : Permutation (reordered V) (index_from V 0).
Proof.
  unfold reordered. eapply Permutation_trans; [apply Permutation_map; apply stable_sort_key_perm|].
  rewrite map_map. cbn [snd]. rewrite map_id. apply Permutation_refl.
Qed.

Lemma reordered_sorted V : StronglySorted rev_lex (reordered V).
Proof.
  unfold reordered. set (E := map (fun pv : N * N => (revkey (snd pv), pv)) (index_from V 0)).
  apply SS_map. eapply SS_impl_in; [|apply (stable_sort_key_sorted pos_lt E)].
  - intros x y Hx Hy Hxy.
    assert (Hkey : forall z, In z (stable_sort_key E) -> fst z = revkey (snd (snd z))).
    { intros z Hz. apply (Permutation_in _ (stable_sort_key_perm E)) in Hz. unfold E in Hz.
      apply in_map_iff in Hz. destruct Hz as (pv & <- & _). reflexivity. }
    unfold lexR, pos_lt in Hxy. unfold rev_lex. rewrite <- !Hkey by assumption. exact Hxy.
  - unfold E. apply SS_map. cbn [snd]. apply index_from_sorted.
Qed.

Lemma rev_lex_irrefl a : ~ rev_lex a a.
Proof. unfold rev_lex. lia. Qed.
Lemma rev_lex_trans a b c : rev_lex a b -> rev_lex b c -> rev_lex a c.
Proof. unfold rev_lex. lia. Qed.

(* the level-by-level partitions of the wavelet matrix produce exactly the reordered vector *)
Theorem reordered_sortk V w :
  (w <= 64)%nat -> Forall (fun x => x < 2 ^ N.of_nat w) V ->
  reordered V = sortk snd w (index_from V 0).
Proof.
  intros Hw HV. rewrite Forall_forall in HV.
  apply (SS_unique rev_lex); [exact rev_lex_irrefl|exact rev_lex_trans|apply reordered_sorted| |].
  - eapply SS_impl_in; [|apply (sortk_sorted snd w pos_lt); apply index_from_sorted].
    intros a b Ha Hb Hab.
    assert (Hval : forall z, In z (sortk snd w (index_from V 0)) -> snd z < 2 ^ N.of_nat w).
    { intros [p x] Hz. apply (Permutation_in _ (sortk_perm snd w _)) in Hz. apply index_from_in in Hz.
      destruct Hz as [_ Hz]. apply HV. eapply nth_opt_in. exact Hz. }
    specialize (Hval a Ha) as Hva. specialize (Hval b Hb) as Hvb.
    unfold keylex, pos_lt in Hab. unfold rev_lex.
    rewrite (revkey_small w (snd a)), (revkey_small w (snd b)) by assumption.
    pose proof (pow2_pos (N.of_nat (64 - w))). destruct Hab as [Hlt|[Heq Hp]]; [left; nia|right; split; [rewrite Heq; reflexivity|exact Hp]].
  - eapply Permutation_trans; [apply reordered_perm|]. apply Permutation_sym. apply sortk_perm.
Qed.

(* ---------------------------------------------------------------- occurrences *)

Definition ind (v : N) (V : list N) : list bool := map (fun x => x =? v) V.

Lemma occ_from_ones V v pos : occ_from V v pos = ones_from (ind v V) pos.
Proof.
  revert pos. induction V as [|x t IH]; intros pos; cbn [occ_from ind map ones_from]; [reflexivity|].
  fold (ind v t). rewrite IH. reflexivity.
Qed.

Lemma select_v_select1 V r v : select_v V r v = select1 (ind v V) r.
Proof. unfold select_v, occ, select1, ones. rewrite occ_from_ones. reflexivity. Qed.

Lemma rank_v_rank1 V i v : rank_v V i v = rank1 (ind v V) i.
Proof.
  revert i. induction V as [|x t IH]; intros i; cbn [rank_v ind map rank1]; [reflexivity|].
  fold (ind v t). rewrite IH. destruct (x =? v); reflexivity.
Qed.

Lemma rank_v_cnt V i v : rank_v V i v = cnt (fun x => x =? v) (firstn (N.to_nat i) V).
Proof. rewrite rank_v_rank1. unfold ind. apply rank1_map. Qed.

Lemma rank_v_min V i v : rank_v V (N.min i (lenS V)) v = rank_v V i v.
Proof.
  rewrite !rank_v_cnt. unfold lenS. destruct (N.le_ge_cases i (N.of_nat (length V))) as [H|H].
  - rewrite N.min_l by exact H. reflexivity.
  - rewrite N.min_r by exact H. rewrite !firstn_all2 by lia. reflexivity.
Qed.

Lemma rank_v_le V i v : rank_v V i v <= i.
Proof. rewrite rank_v_rank1. apply rank1_le_index. Qed.

Lemma select_v_sound V r v p : select_v V r v = Some p -> nth_opt V p = Some v /\ rank_v V p v = r.
Proof.
  rewrite select_v_select1, rank_v_rank1. intros H. apply select1_sound in H. destruct H as [H1 H2].
  split; [|exact H2]. unfold ind in H1. rewrite getb_nth_opt, nth_opt_map in H1.
  destruct (nth_opt V p) as [x|]; [|discriminate]. cbn [option_map] in H1. injection H1 as H1.
  apply N.eqb_eq in H1. congruence.
Qed.

Lemma select_v_complete V v p : nth_opt V p = Some v -> select_v V (rank_v V p v) v = Some p.
Proof.
  intros H. rewrite select_v_select1, rank_v_rank1. apply select1_complete.
  unfold ind. rewrite getb_nth_opt, nth_opt_map, H. cbn [option_map]. rewrite N.eqb_refl. reflexivity.
Qed.

Lemma contains_v_in V v : contains_v V v = true <-> In v V.
Proof.
  unfold contains_v. rewrite existsb_exists. split.
  - intros (x & Hx & E). apply N.eqb_eq in E. subst. exact Hx.
  - intros H. exists v. split; [exact H|apply N.eqb_refl].
Qed.

Lemma rank_v_absent V i v : contains_v V v = false -> rank_v V i v = 0.
Proof.
  intros H. rewrite rank_v_cnt. apply cnt_false. intros x Hx.
  destruct (N.eqb_spec x v) as [->|]; [|reflexivity]. exfalso.
  assert (In v V) by (rewrite <- (firstn_skipn (N.to_nat i) V); apply in_or_app; left; exact Hx).
  apply contains_v_in in H0. congruence.
Qed.

Lemma select_v_absent V r v : contains_v V v = false -> select_v V r v = None.
Proof.
  intros H. destruct (select_v V r v) as [p|] eqn:E; [|reflexivity]. apply select_v_sound in E.
  destruct E as [E _]. apply nth_opt_in in E. apply contains_v_in in E. congruence.
Qed.

Lemma less_v_cnt V v : less_v V v = cnt (fun x => revkey x <? revkey v) V.
Proof. unfold less_v, less_k, keys_v. change (N.of_nat (length (filter ?P ?l))) with (cnt P l). apply cnt_map. Qed.

(* a present value: fewer than n items sort before it; together with its occurrences they fit in n *)
Lemma less_rank_le V i v : less_v V v + rank_v V i v <= lenS V.
Proof.
  rewrite less_v_cnt, rank_v_cnt. unfold lenS.
  assert (H1 : cnt (fun x => x =? v) (firstn (N.to_nat i) V) <= cnt (fun x => x =? v) V).
  { rewrite <- (firstn_skipn (N.to_nat i) V) at 2. rewrite cnt_app. lia. }
  assert (H2 : cnt (fun x => revkey x <? revkey v) V + cnt (fun x => x =? v) V <= N.of_nat (length V)).
  { clear. induction V as [|x t IH]; [cbn; lia|]. rewrite !cnt_cons. cbn [length].
    destruct (N.ltb_spec (revkey x) (revkey v)); destruct (N.eqb_spec x v); subst; lia. }
  lia.
Qed.

Lemma less_v_lt V v : In v V -> less_v V v < lenS V.
Proof.
  intros H. pose proof (less_rank_le V (lenS V) v) as H1.
  assert (0 < rank_v V (lenS V) v); [|lia].
  rewrite rank_v_cnt. unfold lenS. rewrite Nat2N.id, firstn_all.
  apply in_split in H. destruct H as (l1 & l2 & ->). rewrite cnt_app, cnt_cons, N.eqb_refl. lia.
Qed.
