(* C07, write direction for SparseVector: the element list [sv_serialize sv] that the model of the crate writes for a
   built sparse vector is accepted by the reader written from SERIALIZATION.md (Spec/Format.v, p_sparse) and decodes
   to (universe, the value list). From C02's representation invariant [sv_ok]: the high part is the unary bucket code
   with exactly ceil(n / 2^w) unset bits, the last of which closes the last bucket; its i-th set bit is at
   (v_i >> w) + i; the low part holds v_i mod 2^w; so the document's reconstruction low[i] + ((select(i) - i) << w)
   gives back v_i. The embedded BitVector and IntVector are read by the document's readers of those types
   (Proofs/FormatConform.v), the support structures of the high part passing through as opaque optionals. *)
From Coq Require Import NArith List Lia ZArith Bool.
Require Import SDS.Model.Mach SDS.Model.Bits SDS.Model.Raw SDS.Model.IntVec SDS.Model.BitVec SDS.Model.Ser SDS.Model.SerBV.
Require Import SDS.Model.Sparse SDS.Model.SerSparse SDS.gen.Consts.
Require Import SDS.Spec.BitSeq SDS.Spec.ValSeq SDS.Spec.SeqSpec SDS.Spec.Stream.
Require Import SDS.Proofs.BitsProof SDS.Proofs.RawProof SDS.Proofs.IntVecProof SDS.Proofs.BVCommon SDS.Proofs.OneIterProof.
Require Import SDS.Proofs.SerProof SDS.Proofs.SerTypes SDS.Proofs.SparseSeq SDS.Proofs.SparseProof SDS.Proofs.SparseBuild.
Require Import SDS.Proofs.SerSparse.
Require SDS.Spec.Format SDS.Proofs.FormatProof SDS.Proofs.FormatConform SDS.Proofs.ConvertProof SDS.Proofs.BVFull.
Import ListNotations.
Open Scope N_scope.
Require Import ZifyBool ZifyN ZifyNat.
Ltac Zify.zify_post_hook ::= Z.div_mod_to_equations.
Arguments N.add : simpl never. Arguments N.sub : simpl never. Arguments N.mul : simpl never.
Arguments N.eqb : simpl never. Arguments N.ltb : simpl never. Arguments N.leb : simpl never.
Arguments N.pow : simpl never. Arguments N.shiftl : simpl never. Arguments N.shiftr : simpl never.
Arguments N.land : simpl never. Arguments N.lor : simpl never. Arguments N.div : simpl never.
Arguments N.modulo : simpl never. Arguments N.ones : simpl never. Arguments N.testbit : simpl never.

Module F := SDS.Spec.Format.
Module FP := SDS.Proofs.FormatProof.
Module FC := SDS.Proofs.FormatConform.

(* ================================================================ 1. lists *)

Lemma last_getb (l : list bool) : l <> [] -> getb l (lenB l - 1) = Some (last l false).
Proof.
  induction l as [|a t IH]; intros Hne; [congruence|]. destruct t as [|b u].
  - reflexivity.
  - assert (E : lenB (a :: b :: u) - 1 = lenB (b :: u)) by (unfold lenB; cbn [length]; lia).
    rewrite E. change (getb (a :: b :: u) (lenB (b :: u)))
      with (if lenB (b :: u) =? 0 then Some a else getb (b :: u) (lenB (b :: u) - 1)).
    replace (lenB (b :: u) =? 0) with false by (unfold lenB; cbn [length]; lia).
    rewrite IH by discriminate. reflexivity.
Qed.

Lemma fsorted_le_eq l : F.sorted_le l = nondecreasing l.
Proof. reflexivity. Qed.

(* the document's reconstruction of the items from the positions of the set bits and the low parts *)
Lemma sparse_items_spec w : forall Vs sel low i0,
  lenN sel = lenN Vs -> lenN low = lenN Vs ->
  (forall k, k < lenN Vs -> nth_opt sel k = Some (nthd Vs k / 2 ^ w + (i0 + k))) ->
  (forall k, k < lenN Vs -> nth_opt low k = Some (nthd Vs k mod 2 ^ w)) ->
  F.sparse_items w i0 sel low = Vs.
Proof.
  induction Vs as [|v t IH]; intros sel low i0 Hs Hl Hsel Hlow.
  - destruct sel; [reflexivity|]. unfold lenN in Hs. cbn [length] in Hs. lia.
  - destruct sel as [|s sel']; [unfold lenN in Hs; cbn [length] in Hs; lia|].
    destruct low as [|l low']; [unfold lenN in Hl; cbn [length] in Hl; lia|].
    rewrite !lenN_cons in *. cbn [F.sparse_items].
    pose proof (Hsel 0 ltac:(lia)) as S0. pose proof (Hlow 0 ltac:(lia)) as L0.
    cbn [nth_opt] in S0, L0. rewrite nthd_cons in S0, L0. change (0 =? 0) with true in S0, L0. cbv iota in S0, L0.
    injection S0 as ->. injection L0 as ->. f_equal.
    + replace (v / 2 ^ w + (i0 + 0) - i0) with (v / 2 ^ w) by (generalize (v / 2 ^ w); intros d; lia).
      rewrite <- N.shiftr_div_pow2. apply FP.split_low_high.
    + apply IH; [lia|lia| |].
      * intros k Hk. specialize (Hsel (k + 1) ltac:(lia)). cbn [nth_opt] in Hsel. rewrite nthd_cons in Hsel.
        replace (k + 1 =? 0) with false in Hsel by lia. replace (k + 1 - 1) with k in Hsel by lia.
        rewrite Hsel. do 2 f_equal. generalize (nthd t k / 2 ^ w). intros d. lia.
      * intros k Hk. specialize (Hlow (k + 1) ltac:(lia)). cbn [nth_opt] in Hlow. rewrite nthd_cons in Hlow.
        replace (k + 1 =? 0) with false in Hlow by lia. replace (k + 1 - 1) with k in Hlow by lia. exact Hlow.
Qed.

Lemma nth_opt_nth (l : list N) k : k < lenN l -> nth_opt l k = Some (nth (N.to_nat k) l 0).
Proof.
  revert k. induction l as [|x t IH]; intros k Hk; [unfold lenN in Hk; cbn [length] in Hk; lia|].
  rewrite lenN_cons in Hk. cbn [nth_opt]. destruct (N.eqb_spec k 0) as [->|Hne]; [reflexivity|].
  rewrite IH by lia. replace (N.to_nat k) with (S (N.to_nat (k - 1))) by lia. reflexivity.
Qed.

(* ================================================================ 2. a well-formed vector *)

Section Conform.
Variables (sp : selpath) (md : mode) (sv : sparse) (n w : N) (Vs : list N) (H : list bool) (L : list N).
Hypothesis Hok : sv_ok sp md sv n w Vs H.
Hypothesis HL : ivS (sv_low sv) w L.
Hypothesis HLm : lenN L = lenN Vs.
Hypothesis HLv : forall i, i < lenN Vs -> nthd L i = nthd Vs i mod 2 ^ w.
Hypothesis Hnd : nondecreasing Vs = true.
Hypothesis Hbel : all_below n Vs = true.

Local Notation m := (lenN Vs).
Local Notation nb := (buckets_of n w).

Let Hn : n < 2 ^ 64. Proof. apply Hok. Qed.
Let Hw : 1 <= w <= 63. Proof. apply Hok. Qed.
Let Hsorted : sorted_le Vs. Proof. apply Hok. Qed.
Let Hbound : bounded n Vs. Proof. apply Hok. Qed.
Let HH : ef_high_ok H Vs w nb. Proof. apply Hok. Qed.
Let Hrep : bv_repr (sv_high sv) H. Proof. destruct Hok as (_ & _ & _ & _ & _ & _ & (Hr & _) & _). exact Hr. Qed.

Lemma high_abs : abs_raw (bv_data (sv_high sv)) = H.
Proof. destruct Hrep as (_ & -> & _). reflexivity. Qed.

Lemma high_raw_inv : raw_inv (bv_data (sv_high sv)).
Proof. destruct Hrep as (Hwf & _). exact (proj1 (BVFull.raw_wf_inv _ Hwf)). Qed.

Lemma high_ones : bv_ones (sv_high sv) = count (abs_raw (bv_data (sv_high sv))).
Proof. rewrite high_abs. apply Hrep. Qed.

Lemma low_items : abs_iv (sv_low sv) = map (fun v => v mod 2 ^ w) Vs.
Proof.
  pose proof (ivS_iv_inv _ _ _ HL) as Hinv. pose proof (ivS_low_ok _ _ _ HL) as (Hil & Hiw & Hget).
  destruct (iv_repr _ Hinv) as (_ & Hlen & _).
  apply (nth_ext _ _ 0 0).
  - rewrite map_length. unfold lenL, lenN in *. lia.
  - intros k Hk. assert (Hlt : N.of_nat k < ilen (sv_low sv)) by (unfold lenL in Hlen; lia).
    pose proof (iv_get_ok _ (N.of_nat k) Hinv Hlt) as G1. unfold nthn in G1. rewrite Nat2N.id in G1.
    rewrite (Hget (N.of_nat k)) in G1 by (rewrite <- Hil; exact Hlt). injection G1 as G1. rewrite <- G1.
    rewrite HLv by (rewrite <- HLm, <- Hil; exact Hlt).
    assert (Hkm : (k < length Vs)%nat) by (unfold lenN in *; lia).
    rewrite (nth_indep _ 0 (0 mod 2 ^ w)) by (rewrite map_length; exact Hkm).
    rewrite (map_nth (fun v => v mod 2 ^ w)). f_equal. unfold nthd.
    rewrite nthN_nth_error, Nat2N.id. destruct (nth_error Vs k) eqn:E; [symmetry; apply nth_error_nth; exact E|].
    apply nth_error_None in E. lia.
Qed.

Lemma high_last : last H false = false.
Proof.
  assert (Hcases : H = [] \/ (H <> [] /\ 0 < lenB H)).
  { clear. destruct H; [left; reflexivity|right]. split; [discriminate|]. unfold lenB. cbn [length]. lia. }
  destruct Hcases as [E|[Hne Hpos]]; [rewrite E; reflexivity|].
  pose proof (last_getb H Hne) as G. destruct HH as (Hlen & _ & Hzero).
  rewrite Hzero in G; [injection G as <-; reflexivity|lia|].
  intros i Hi. pose proof (hi_lt_nb n w Vs Hw Hbound i Hi). unfold one_pos. lia.
Qed.

Lemma high_sel k : k < m -> nth_opt (ones H) k = Some (nthd Vs k / 2 ^ w + (0 + k)).
Proof. intros Hk. replace (0 + k) with k by lia. exact (H_select1 n w Vs H Hw Hsorted Hbound HH k Hk). Qed.

Theorem sparse_reads : FP.reads F.p_sparse (sv_serialize sv) (n, Vs).
Proof.
  assert (Hlen : sv_len sv = n) by apply Hok.
  pose proof (ivS_iv_inv _ _ _ HL) as Hinv. pose proof (ivS_low_ok _ _ _ HL) as (Hil & Hiw & _).
  pose proof (high_count n w Vs H Hw Hsorted Hbound HH) as Hcnt.
  unfold sv_serialize, F.p_sparse. rewrite Hlen. change (n :: ?b) with ([n] ++ b).
  eapply FP.reads_bind; [apply FP.reads_elem|].
  eapply FP.reads_bind; [apply FC.reads_bv_model; [exact high_raw_inv|exact high_ones]|].
  rewrite <- (app_nil_r (iv_serialize _)). eapply FP.reads_bind; [apply FC.reads_int_model; exact Hinv|].
  unfold abs_is. cbv beta iota zeta. rewrite high_abs, low_items, Hiw.
  assert (Hml : F.lenN (map (fun v => v mod 2 ^ w) Vs) = m) by (unfold F.lenN, lenN; rewrite map_length; reflexivity).
  apply FP.reads_must; [rewrite Hml, Hcnt; apply N.eqb_refl|].
  apply FP.reads_must.
  { rewrite count_map_negb, Hcnt. destruct HH as (Hlh & _). rewrite Hlh. unfold F.doc_buckets, buckets_of.
    replace (m + (n + 2 ^ w - 1) / 2 ^ w - m) with ((n + 2 ^ w - 1) / 2 ^ w) by lia. apply N.eqb_refl. }
  apply FP.reads_must; [rewrite high_last; reflexivity|].
  assert (Ei : F.sparse_items w 0 (ones H) (map (fun v => v mod 2 ^ w) Vs) = Vs).
  { apply sparse_items_spec.
    - rewrite <- Hcnt. exact (ConvertProof.ones_from_len H 0).
    - unfold lenN. rewrite map_length. reflexivity.
    - exact high_sel.
    - intros k Hk. rewrite nth_opt_nth by (unfold lenN in *; rewrite map_length; exact Hk).
      rewrite (nth_indep _ 0 (0 mod 2 ^ w)) by (rewrite map_length; unfold lenN in Hk; lia).
      rewrite (map_nth (fun v => v mod 2 ^ w)). do 2 f_equal. unfold nthd. rewrite nthN_nth_error.
      destruct (nth_error Vs (N.to_nat k)) eqn:E; [first [apply nth_error_nth; exact E|symmetry; apply nth_error_nth; exact E]|].
      apply nth_error_None in E. unfold lenN in Hk. lia. }
  rewrite Ei. apply FP.reads_must; [|apply FP.reads_ret].
  rewrite fsorted_le_eq, Hnd. exact Hbel.
Qed.
End Conform.

(* ================================================================ 3. assembled over the builders *)

Lemma conform_of_facts sp md n w Vs sv : built_facts sp md n w Vs sv ->
  nondecreasing Vs = true -> all_below n Vs = true ->
  (forall sp' m', F.elems_of_bytes (c_enc (sparse_codec sp' m') sv) = Some (sv_serialize sv)) /\
  F.doc_valid_sparse (sv_serialize sv) = true /\ F.doc_content_sparse (sv_serialize sv) = Some (n, Vs).
Proof.
  intros ((H & Hok) & Wf & _ & (L & HL & HLm & HLv)) Hnd Hbel.
  destruct (Wf Pdep Debug) as ((Hlen & Hbv & Hiv) & _).
  cbn [sparse_codec conv_codec seq_codec c_wf usize_codec u64_codec bv_codec iv_codec with_wf fst snd] in Hlen, Hbv, Hiv.
  assert (Hf : F.file_ok (sv_serialize sv) = true).
  { unfold sv_serialize. rewrite FP.file_ok_cons, FP.file_ok_app, FP.elem_ok_lt by exact Hlen.
    rewrite (FC.file_ok_bv_model _ Hbv), (FC.file_ok_iv_model _ Hiv). reflexivity. }
  split.
  - intros sp' m'. rewrite (sparse_enc_elems sp' m' sv Hbv). apply FC.elems_of_le64. apply FC.Forall_of_file_ok. exact Hf.
  - apply FP.roundtrip_of; [|exact Hf]. exact (sparse_reads sp md sv n w Vs H L Hok HL HLm HLv Hnd Hbel).
Qed.

Lemma increasing_nondecreasing l : increasing l = true -> nondecreasing l = true.
Proof. intros Hi. apply sorted_nondecreasing, sorted_lt_le, increasing_sorted. exact Hi. Qed.

Theorem sparse_conform_bytes sp md w' n P :
  n < 2 ^ 64 -> 1 <= w' <= 63 -> increasing P = true -> all_below n P = true ->
  let w := eff_width w' n (lenN P) in
  lenN P + buckets_of n w + select_SUPERBLOCK_SIZE < 2 ^ 64 -> lenN P * w + 63 < 2 ^ 64 ->
  exists sv, sv_build_set sp md w' n P = Ok (inl sv) /\
    (forall sp' m', F.elems_of_bytes (c_enc (sparse_codec sp' m') sv) = Some (sv_serialize sv)) /\
    F.doc_valid_sparse (sv_serialize sv) = true /\ F.doc_content_sparse (sv_serialize sv) = Some (n, P).
Proof.
  intros Hn Hw Hi Hb w Hfit Hbits.
  destruct (sparse_set_facts sp md w' n P Hn Hw Hi Hb Hfit Hbits) as (sv & E & Hf). exists sv. split; [exact E|].
  exact (conform_of_facts sp md n _ P sv Hf (increasing_nondecreasing P Hi) Hb).
Qed.

Theorem sparse_multiset_conform_bytes sp md w' n Vs :
  n < 2 ^ 64 -> 1 <= w' <= 63 -> nondecreasing Vs = true -> all_below n Vs = true ->
  let w := eff_width w' n (lenN Vs) in
  lenN Vs + buckets_of n w + select_SUPERBLOCK_SIZE < 2 ^ 64 -> lenN Vs * w + 63 < 2 ^ 64 ->
  exists sv, sv_build_multiset sp md w' n Vs = Ok (inl sv) /\
    (forall sp' m', F.elems_of_bytes (c_enc (sparse_codec sp' m') sv) = Some (sv_serialize sv)) /\
    F.doc_valid_sparse (sv_serialize sv) = true /\ F.doc_content_sparse (sv_serialize sv) = Some (n, Vs).
Proof.
  intros Hn Hw Hi Hb w Hfit Hbits.
  destruct (sparse_multiset_facts sp md w' n Vs Hn Hw Hi Hb Hfit Hbits) as (sv & E & Hf). exists sv. split; [exact E|].
  exact (conform_of_facts sp md n _ Vs sv Hf Hi Hb).
Qed.
