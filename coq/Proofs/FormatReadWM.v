(* C07, READ direction for WMCore and WaveletMatrix: a file written from the document alone - ANY width 1..64 that
   holds the items (the crate's constructor would pick the minimal one; the document only asks first[] to be
   minimal), every level bitvector WITHOUT support structures - is loaded by the models of WMCore::load /
   WaveletMatrix::load (width check, common-length check, init_support on every level, data.len() check) and the
   loaded structure answers every query of C04 exactly, on every query path and in every mode.
   Route: the document's level columns F.wm_levels are the model's ideal columns level_columns (both are the stable
   partition by bit, most significant level first); Proofs/SerComposite.levels_rebuild loads support-free levels;
   BVFull.bv_enable_all_ok_any gives the level interface bv_queries_ok; the document's first[] is shown to be the
   crate's offset table (first occurrence in the reordered vector = number of smaller reversed keys); the query
   theorems for an arbitrary sufficient width are Proofs/WMWide.v. *)
From Coq Require Import NArith List Lia ZArith Bool.
Require Import SDS.Model.Mach SDS.Model.Bits SDS.Model.Raw SDS.Model.IntVec SDS.Model.BitVec SDS.Model.Ser SDS.Model.SerBV.
Require Import SDS.Model.WM SDS.Model.SerComposite SDS.Model.SerWM.
Require Import SDS.gen.Consts.
Require Import SDS.Spec.BitSeq SDS.Spec.SeqSpec SDS.Spec.Seq SDS.Spec.Stream.
Require Import SDS.Proofs.BitsProof SDS.Proofs.RawProof SDS.Proofs.IntVecProof SDS.Proofs.BVCommon SDS.Proofs.BVFull.
Require Import SDS.Proofs.WMSeq SDS.Proofs.WMSpec SDS.Proofs.WMLevels SDS.Proofs.WMOffsets SDS.Proofs.WMProof SDS.Proofs.WMTotal.
Require Import SDS.Proofs.SerProof SDS.Proofs.SerTypes SDS.Proofs.SerSupports SDS.Proofs.SerComposite SDS.Proofs.SerWM.
Require Import SDS.Proofs.FormatWMModel SDS.Proofs.FormatRead.
Require SDS.Proofs.WMWide.
Require SDS.Spec.Format SDS.Proofs.FormatProof SDS.Proofs.FormatRL SDS.Proofs.FormatWM SDS.Proofs.FormatConform.
Import ListNotations.
Open Scope N_scope.
Require Import ZifyBool ZifyN ZifyNat.
Ltac Zify.zify_post_hook ::= Z.div_mod_to_equations.
Arguments N.add : simpl never. Arguments N.sub : simpl never. Arguments N.mul : simpl never.
Arguments N.eqb : simpl never. Arguments N.ltb : simpl never. Arguments N.leb : simpl never.
Arguments N.pow : simpl never. Arguments N.shiftl : simpl never. Arguments N.shiftr : simpl never.
Arguments N.land : simpl never. Arguments N.lor : simpl never. Arguments N.div : simpl never.
Arguments N.modulo : simpl never. Arguments N.ones : simpl never. Arguments N.testbit : simpl never.
Arguments N.min : simpl never. Arguments N.max : simpl never. Arguments N.log2 : simpl never.

Module F := SDS.Spec.Format.
Module FP := SDS.Proofs.FormatProof.
Module FR := SDS.Proofs.FormatRL.
Module FW := SDS.Proofs.FormatWM.
Module WW := SDS.Proofs.WMWide.

(* ================================================================ 1. the document's levels are the model's columns *)

Lemma doc_levels_colsk k : forall items, fst (F.wm_levels k items) = colsk (fun x => x) k items.
Proof.
  induction k as [|k IH]; intros items; [reflexivity|].
  rewrite FW.wm_levels_S. cbn [fst colsk]. f_equal. rewrite IH. reflexivity.
Qed.

Lemma doc_final_sortk k : forall items, snd (F.wm_levels k items) = sortk (fun x => x) k items.
Proof.
  induction k as [|k IH]; intros items; [reflexivity|].
  rewrite FW.wm_levels_S. cbn [snd sortk]. rewrite IH. reflexivity.
Qed.

Lemma doc_levels_columns width V :
  fst (F.wm_levels (N.to_nat width) V) = level_columns (N.to_nat width) width 0 V.
Proof. rewrite doc_levels_colsk. symmetry. apply level_columns_colsk. lia. Qed.

(* ================================================================ 2. support-free records of bit sequences *)

Lemma repr_sub b B : bv_repr b B -> sub_of (bv_of B) b.
Proof.
  intros Hrep. destruct (bv_repr_abs b B Hrep) as (Hinv & Habs & _). destruct Hrep as (_ & _ & Hones).
  destruct (raw_of_inv B) as [Hinv' Habs'].
  split; [split|].
  - cbn [bv_of bv_ones]. symmetry. exact Hones.
  - cbn [bv_of bv_data]. apply raw_canonical; [exact Hinv'|exact Hinv|]. rewrite Habs', Habs. reflexivity.
  - repeat split; left; reflexivity.
Qed.

Lemma reprs_of Bs : Forall (fun B => F.lenN B < 2 ^ 64) Bs -> Forall2 bv_repr (map bv_of Bs) Bs.
Proof. induction 1 as [|B t HB Ht IH]; cbn [map]; constructor; [apply bv_of_repr; exact HB|exact IH]. Qed.

Lemma no_supports_of Bs : Forall no_supports (map bv_of Bs).
Proof. induction Bs as [|B t IH]; cbn [map]; constructor; [apply bv_of_no_supports|exact IH]. Qed.

Lemma oks_of Bs : Forall (fun B => F.lenN B + 4096 < 2 ^ 64) Bs -> Forall bv_ok (map bv_of Bs).
Proof. induction 1 as [|B t HB Ht IH]; cbn [map]; constructor; [apply bv_of_ok; exact HB|exact IH]. Qed.

Lemma subs_of Bs : forall lsf, Forall2 bv_repr lsf Bs -> Forall2 sub_of (map bv_of Bs) lsf.
Proof. intros lsf H. induction H as [|b B lsf Bs Hb Ht IH]; cbn [map]; constructor; [apply repr_sub; exact Hb|exact IH]. Qed.

(* the level interface of C04 for what init_support makes of them, on every query path / mode *)
Lemma init_queries sp m sp' m' : forall Bs lsf, Forall (fun B => F.lenN B < 2 ^ 64) Bs ->
  init_support sp m (map bv_of Bs) = Ok lsf -> Forall2 (bv_queries_ok sp' m') lsf Bs.
Proof.
  induction Bs as [|B t IH]; intros lsf HB E; cbn [map init_support] in E.
  - injection E as <-. constructor.
  - inversion HB as [|? ? H1 H2]; subst.
    destruct (bv_enable_all_ok_any sp m (bv_of B) B (bv_of_repr B H1) eq_refl eq_refl eq_refl) as (b' & Eb & _ & _ & _ & _ & Hq & _).
    rewrite Eb in E. cbn [bind] in E. destruct (init_support sp m (map bv_of t)) as [t'| |] eqn:Et; cbn [bind] in E; try discriminate.
    injection E as <-. constructor; [apply Hq|apply IH; [exact H2|reflexivity]].
Qed.

Lemma flat_serialize_of Bs : flat_map bv_serialize (map bv_of Bs) = flat_map (F.doc_encode_bv F.no_sup) Bs.
Proof. induction Bs as [|B t IH]; [reflexivity|]. cbn [map flat_map]. rewrite IH, bv_of_serialize. reflexivity. Qed.

(* ================================================================ 3. the document's walk and first[] at any width *)

Section WalkW.
Variables (V : list N) (width : N).
Hypothesis Hn : lenN V < 2 ^ 64.
Hypothesis Hwd : 1 <= width <= 64.
Hypothesis Hsmall : Forall (fun x => x < 2 ^ width) V.

Let w := N.to_nat width.
Let cols := level_columns w width 0 V.

Lemma walk_ok_w i x : nth_opt V i = Some x ->
  F.wm_walk cols width i = (x, less_v V x + rank_v V i x).
Proof.
  intros Hx. destruct (WW.core_width_range V width Hn Hwd) as (Hw & Hwn & _). fold w in Hwn.
  pose proof (mdk_spec snd w (index_from V 0) i 0 (i, x) (L0_nth V i x Hx)) as Hm.
  rewrite mdk_cmd in Hm. unfold w in Hm. rewrite <- (WW.core_columns V width Hn Hwd) in Hm. fold w in Hm. fold cols in Hm.
  cbn [snd] in Hm.
  destruct (walk_cmd w cols i 0 _ _ Hm) as (u & Ew & Eu).
  { unfold cols, w. rewrite (WW.core_columns V width Hn Hwd). apply colsk_length. }
  rewrite Hwn in Ew. rewrite Ew. f_equal.
  - pose proof (WW.core_values_small V width Hn Hwd Hsmall) as Hs. rewrite Forall_forall in Hs.
    specialize (Hs x (nth_opt_in _ _ _ Hx)). fold w in Hs. rewrite N.mod_small in Eu by exact Hs. lia.
  - pose proof (WW.down_spec V width Hn Hwd Hsmall i x Hx) as H1. rewrite (WW.map_down_v_pos V width Hn Hwd Hsmall i x Hx) in H1.
    injection H1 as H1. fold w in H1. symmetry. exact H1.
Qed.

Lemma walk_all_w :
  map (F.wm_walk cols width) (F.nrange (length V) 0) =
  map (fun i => (FW.nthd V i, less_v V (FW.nthd V i) + rank_v V i (FW.nthd V i))) (F.nrange (length V) 0).
Proof.
  apply map_ext_in. intros i Hi. apply FW.in_nrange in Hi. destruct (lt_nth_opt V i) as [x Hx]; [unfold F.lenN; lia|].
  rewrite (walk_ok_w i x Hx), (nthd_nth_opt V i x Hx). reflexivity.
Qed.

(* the document's first[]: first occurrence in the reordered vector, or len *)
Lemma first_pos_ok_w v :
  F.first_pos (map (F.wm_walk cols width) (F.nrange (length V) 0)) (lenN V) v =
  if contains_v V v then less_v V v else lenN V.
Proof.
  rewrite walk_all_w. set (vp := map _ _).
  assert (Hin : forall y, In y vp -> exists i, i < lenN V /\ nth_opt V i = Some (fst y) /\ snd y = less_v V (fst y) + rank_v V i (fst y)).
  { intros y Hy. unfold vp in Hy. apply in_map_iff in Hy. destruct Hy as (i & <- & Hi). apply FW.in_nrange in Hi.
    assert (Hi' : i < lenN V) by (unfold lenN; lia). destruct (lt_nth_opt V i Hi') as [x Hx].
    exists i. cbn [fst snd]. rewrite (nthd_nth_opt V i x Hx). auto. }
  destruct (contains_v V v) eqn:Ec.
  - apply contains_v_in in Ec. pose proof (less_v_lt V v Ec) as Hlt.
    destruct (in_nth_opt V v Ec) as [i0 Hi0].
    assert (Hsel : exists p, select_v V 0 v = Some p).
    { apply spec_select_within. pose proof (select_v_complete V v i0 Hi0) as Hc.
      destruct (N.ltb_spec 0 (count_v V v)) as [Hpos|Hz]; [exact Hpos|].
      rewrite spec_select_beyond in Hc by lia. discriminate. }
    destruct Hsel as [p Hp]. apply select_v_sound in Hp. destruct Hp as [Hp1 Hp2].
    assert (Hmem : In (v, less_v V v + 0) vp).
    { unfold vp. apply in_map_iff. exists p. split.
      - rewrite (nthd_nth_opt V p v Hp1), Hp2. reflexivity.
      - apply FW.in_nrange. apply nth_opt_Some_lt in Hp1. lia. }
    pose proof (FW.first_pos_lower vp (lenN V) v _ Hmem eq_refl) as Hup. cbn [snd] in Hup.
    destruct (FW.first_pos_witness vp (lenN V) v) as [E|(y & Hy & Hf & Hs)].
    + unfold lenS, lenN in *. lia.
    + destruct (Hin y Hy) as (i & _ & _ & Hsnd). rewrite Hf in Hsnd. lia.
  - destruct (FW.first_pos_witness vp (lenN V) v) as [E|(y & Hy & Hf & Hs)]; [exact E|].
    destruct (Hin y Hy) as (i & _ & Hnth & _). rewrite Hf in Hnth. apply nth_opt_in in Hnth.
    apply contains_v_in in Hnth. congruence.
Qed.

(* ... which is what the document's writer stores: the index of the first occurrence in its reordered vector *)
Lemma doc_first_entry v :
  F.index_of v (snd (F.wm_levels w V)) 0 (lenN V) = if contains_v V v then less_v V v else lenN V.
Proof.
  rewrite <- first_pos_ok_w. unfold cols, w. rewrite <- doc_levels_columns. fold w.
  set (ls := fst (F.wm_levels w V)). set (final := snd (F.wm_levels w V)).
  destruct (FW.wm_levels_shape w V) as (S1 & S2 & S3). fold ls in S1, S2. fold final in S3.
  assert (Hwalk : forall i, i < lenN V ->
            F.wm_walk ls width i = (FW.nthd V i, snd (F.wm_walk ls width i)) /\
            snd (F.wm_walk ls width i) < lenN V /\ FW.nthd final (snd (F.wm_walk ls width i)) = FW.nthd V i).
  { intros i Hi. destruct (FW.wm_walk_levels w V i Hi) as (W1 & W2 & W3). unfold w in W1, W2, W3. rewrite N2Nat.id in W1, W2, W3.
    fold w ls final in W1, W2, W3. split; [|split; assumption].
    rewrite N.mod_small in W1 by (rewrite Forall_forall in Hsmall; apply Hsmall; unfold FW.nthd; apply nth_In; unfold lenN, F.lenN in Hi; lia).
    destruct (F.wm_walk ls width i) as [v' p]. cbn [fst snd] in *. rewrite W1. reflexivity. }
  symmetry. apply (FW.first_pos_index_of V final (fun i => snd (F.wm_walk ls width i))).
  - exact S3.
  - apply map_ext_in. intros i Hi. apply FW.in_nrange in Hi. apply Hwalk. unfold lenN. lia.
  - intros i Hi. destruct (Hwalk i Hi) as (_ & H2 & H3). split; assumption.
  - intros q Hq. destruct (FW.wm_pos_surj w V q Hq) as (i & Hi & Ei). exists i. split; [exact Hi|].
    unfold w in Ei. rewrite N2Nat.id in Ei. exact Ei.
Qed.

End WalkW.

(* ================================================================ 4. WMCore::load / WaveletMatrix::load *)

Lemma nth_map_nrange (f : N -> N) n v : v < N.of_nat n -> nth (N.to_nat v) (map f (F.nrange n 0)) 0 = f v.
Proof.
  intros Hv. rewrite (nth_indep _ 0 (f 0)) by (rewrite map_length, FW.nrange_length; lia).
  rewrite map_nth. f_equal. apply (FW.nthd_nrange n v Hv).
Qed.

Section Load.
Variables (sp : selpath) (m : mode) (width : N) (V : list N).
Hypothesis Hwd : 1 <= width <= 64.
Hypothesis Hn : lenN V + 4096 < 2 ^ 64.
Hypothesis Hsmall : Forall (fun x => x < 2 ^ width) V.

Let Bs := fst (F.wm_levels (N.to_nat width) V).

Lemma Bs_shape : length Bs = N.to_nat width /\ Forall (fun B => F.lenN B = lenN V) Bs.
Proof. destruct (FW.wm_levels_shape (N.to_nat width) V) as (S1 & S2 & _). split; assumption. Qed.

Lemma V_64 : Forall (fun x => x < 2 ^ 64) V.
Proof.
  eapply Forall_impl; [|exact Hsmall]. cbv beta. intros x Hx.
  assert (2 ^ width <= 2 ^ 64) by (apply N.pow_le_mono_r; lia). lia.
Qed.

(* the levels: loaded, all supports built, answering the queries of the document's columns *)
Lemma load_levels : exists lsf,
  (forall sp' m', Forall2 (bv_queries_ok sp' m') lsf (level_columns (N.to_nat width) width 0 V)) /\
  (forall rest, wmcore_dec sp m (flat_map le64 (F.doc_encode_wmcore (width, V)) ++ rest) = IoOk (mkcore lsf, rest)) /\
  (forall first rest, iv_ok first ->
     wm_dec sp m (flat_map le64 (lenN V :: F.doc_encode_wmcore (width, V) ++ iv_serialize first) ++ rest)
     = IoOk (mkwm (lenN V) (mkcore lsf) first, rest)).
Proof.
  destruct Bs_shape as [S1 S2].
  assert (HB64 : Forall (fun B => F.lenN B < 2 ^ 64) Bs) by (eapply Forall_impl; [|exact S2]; cbv beta; intros B HB; lia).
  assert (HB4096 : Forall (fun B => F.lenN B + 4096 < 2 ^ 64) Bs) by (eapply Forall_impl; [|exact S2]; cbv beta; intros B HB; lia).
  destruct (levels_rebuild sp m Bs (map bv_of Bs) (reprs_of Bs HB64) (no_supports_of Bs)) as (lsf & Ei & R & _ & _ & Hws).
  { change select_SUPERBLOCK_SIZE with 4096. exact HB4096. }
  destruct (Hws (map bv_of Bs) (subs_of Bs lsf R)) as (_ & Hcore & Hwm).
  exists lsf. split.
  { intros sp' m'. rewrite <- doc_levels_columns. fold Bs. exact (init_queries sp m sp' m' Bs lsf HB64 Ei). }
  assert (Hlen0 : 1 <= lenN (map bv_of Bs) <= 64) by (unfold lenN; rewrite map_length, S1; lia).
  assert (HlenB : Forall (fun B => lenB B = lenN V) Bs) by exact S2.
  assert (Hoks : Forall bv_ok (map bv_of Bs)) by exact (oks_of Bs HB4096).
  assert (Eser : wc_serialize (mkcore (map bv_of Bs)) = F.doc_encode_wmcore (width, V)).
  { unfold wc_serialize, F.doc_encode_wmcore. cbn [wc_levels]. fold Bs. rewrite flat_serialize_of. f_equal.
    unfold wc_width, lenN. cbn [wc_levels]. rewrite map_length, S1. lia. }
  split.
  - intros rest. specialize (Hcore sp m (lenN V) rest Hlen0 HlenB).
    rewrite (wmcore_enc_elems m (mkcore (map bv_of Bs)) Hoks), Eser in Hcore. exact Hcore.
  - intros first rest Hf. specialize (Hwm sp m (lenN V) first rest Hlen0 HlenB Hf).
    rewrite (wm_enc_elems m (mkwm (lenN V) (mkcore (map bv_of Bs)) first) Hoks) in Hwm. unfold wm_serialize in Hwm. cbn [wm_len wm_data wm_first] in Hwm.
    rewrite Eser in Hwm. exact Hwm.
Qed.

(* WMCore *)
Theorem read_wmcore_exact rest :
  exists levels,
    c_dec (wmcore_codec sp m) (flat_map le64 (F.doc_encode_wmcore (width, V)) ++ rest) = IoOk (mkcore levels, rest) /\
    forall sp' m',
    let core := mkcore levels in
    wc_len core = Ok (lenS V) /\ wc_width core = width /\
    (forall i, i < 2 ^ 64 -> wc_map_down m' core i = Ok (map_down_v V i)) /\
    (forall i v, i < 2 ^ 64 -> wc_map_down_with m' core i v = Ok (map_down_with_v V i (v mod 2 ^ width))) /\
    (forall i1 i2 v, i1 < 2 ^ 64 -> i2 < 2 ^ 64 ->
       wc_map_down_with_two m' core i1 i2 v =
       Ok (map_down_with_v V i1 (v mod 2 ^ width), map_down_with_v V i2 (v mod 2 ^ width))) /\
    (forall j v, j < 2 ^ 64 -> wc_map_up_with sp' m' core j v = Ok (map_up_v V j (v mod 2 ^ width))) /\
    (forall i x, nth_opt V i = Some x ->
       exists j, j < lenS V /\ wc_map_down m' core i = Ok (Some (j, x)) /\
                 wc_map_down_with m' core i x = Ok j /\ wc_map_up_with sp' m' core j x = Ok (Some i)).
Proof.
  destruct load_levels as (lsf & Hq & Hcore & _). exists lsf. split; [exact (Hcore rest)|].
  intros sp' m'. apply (WW.core_mapping_wide sp' m' V lsf width V_64 ltac:(lia) Hwd Hsmall (Hq sp' m')).
Qed.

(* WaveletMatrix: first[] over the alphabet 0..=max, minimally packed *)
Hypothesis Halpha : F.alphabet_size V < 2 ^ 58.

Let len := lenN V.
Let final := snd (F.wm_levels (N.to_nat width) V).
Let D := map (fun v => F.index_of v final 0 len) (F.nrange (N.to_nat (F.alphabet_size V)) 0).
Let first := iv_of (F.min_width D) D.

Lemma doc_wm_unfold : F.doc_encode_wm (width, V) = lenN V :: F.doc_encode_wmcore (width, V) ++ iv_serialize first.
Proof. reflexivity. Qed.

Lemma D_len : F.lenN D = list_max V + 1.
Proof. unfold D, F.lenN. rewrite map_length, FW.nrange_length. unfold F.alphabet_size. change (F.list_max V) with (list_max V). lia. Qed.

Lemma D_width : 1 <= F.min_width D <= 64.
Proof.
  assert (Hle : Forall (fun x => x <= len) D).
  { apply Forall_forall. intros x Hx. unfold D in Hx. apply in_map_iff in Hx. destruct Hx as (v & <- & _).
    apply FW.index_of_le. destruct (FW.wm_levels_shape (N.to_nat width) V) as (_ & _ & S3). fold final in S3. unfold len.
    unfold F.lenN, lenN in *. lia. }
  unfold F.min_width. apply FR.bitlen_range. pose proof (FR.list_max_bound D len Hle). unfold len in *. lia.
Qed.

Lemma first_iv_ok : iv_ok first.
Proof.
  apply iv_of_ok; [exact D_width|]. rewrite D_len. pose proof D_width.
  unfold F.alphabet_size in Halpha. change (F.list_max V) with (list_max V) in Halpha. nia.
Qed.

Lemma first_is_offsets m' Fo : first_offsets m' V (lenN V) (list_max V) = Ok Fo -> first_ok first Fo.
Proof.
  intros HFo. assert (Hmax : list_max V + 1 < 2 ^ 64).
  { unfold F.alphabet_size in Halpha. change (F.list_max V) with (list_max V) in Halpha. assert (2 ^ 58 < 2 ^ 64) by reflexivity. lia. }
  destruct (first_offsets_ok m' V V_64 Hmax) as (F' & H1 & H2 & H3). rewrite HFo in H1. injection H1 as <-.
  destruct (iv_of_inv (F.min_width D) D D_width (FR.fits_min_width D)) as [Hinv Habs].
  unfold first_ok. split.
  - unfold first, iv_of. cbn [ilen]. rewrite D_len. symmetry. exact H2.
  - intros v x Hx. pose proof (nthN_Some_lt _ _ _ Hx) as Hv. rewrite H2 in Hv.
    rewrite H3 in Hx by lia. injection Hx as <-.
    assert (Hil : ilen first = list_max V + 1) by (unfold first, iv_of; cbn [ilen]; exact D_len).
    rewrite (iv_get_ok first v Hinv) by lia. f_equal. fold first in Habs. rewrite Habs. unfold nthn, D.
    rewrite nth_map_nrange by (unfold F.alphabet_size; change (F.list_max V) with (list_max V); lia).
    unfold final, len. apply (doc_first_entry V width ltac:(lia) Hwd Hsmall).
Qed.

Theorem read_wm_exact rest :
  exists levels fst_iv,
    c_dec (wm_codec sp m) (flat_map le64 (F.doc_encode_wm (width, V)) ++ rest) = IoOk (mkwm (lenN V) (mkcore levels) fst_iv, rest) /\
    forall sp' m',
    let wm := mkwm (lenN V) (mkcore levels) fst_iv in
    wm_len wm = lenS V /\ wm_width wm = width /\
    (forall i, i < 2 ^ 64 -> wm_get m' wm i = match get_v V i with Some x => Ok x | None => Panic PUnwrap end) /\
    (forall i v, i < 2 ^ 64 -> wm_rank m' wm i v = Ok (rank_v V i v)) /\
    (forall r v, r < 2 ^ 64 -> wm_select sp' m' wm r v = Ok (select_v V r v)) /\
    (forall i, i < 2 ^ 64 -> wm_inverse_select m' wm i = Ok (inverse_select_v V i)) /\
    (forall v, wm_contains wm v = Ok (contains_v V v)) /\
    (forall v, vi_items sp' m' wm (wm_value_iter v) = Ok (value_iter_v V v) /\ wm_value_of (wm_value_iter v) = v) /\
    (forall r v, r < 2 ^ 64 -> vi_items sp' m' wm (wm_select_iter r v) = Ok (select_iter_v V r v)) /\
    (forall i v, i < 2 ^ 64 -> (let* it := wm_predecessor m' wm i v in vi_items sp' m' wm it) = Ok (pred_v V i v)) /\
    (forall i v, i < 2 ^ 64 -> (let* it := wm_successor m' wm i v in vi_items sp' m' wm it) = Ok (succ_v V i v)) /\
    wm_into_iter m' wm = Ok V.
Proof.
  destruct load_levels as (lsf & Hq & _ & Hwm). exists lsf, first. split.
  - rewrite doc_wm_unfold. exact (Hwm first rest first_iv_ok).
  - intros sp' m'.
    assert (Hmax : list_max V + 1 < 2 ^ 64).
    { unfold F.alphabet_size in Halpha. change (F.list_max V) with (list_max V) in Halpha. assert (2 ^ 58 < 2 ^ 64) by reflexivity. lia. }
    destruct (first_offsets_ok m' V V_64 Hmax) as (Fo & HFo & _ & _).
    exact (WW.wm_exact_wide sp' m' V lsf width first Fo V_64 ltac:(lia) Hmax Hwd Hsmall (Hq sp' m') HFo (first_is_offsets m' Fo HFo)).
Qed.

End Load.
