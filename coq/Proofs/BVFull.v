(* Composition of the pieces of C01 (and the support algebra needed by C19):
   1. RawProof's invariant [raw_inv] is BVCommon's [raw_wf] (plus the length bound);
   2. the three public construction routes (FromIterator<bool>, From<RawVector>, copy_bit_vec) give the
      SAME record, which represents the bit sequence and has no support;
   3. enable_rank / enable_select / enable_select_zero in closed form; [bv_enable_all] establishes every
      [*_ok] predicate and the two interfaces [bv_queries_ok] / [bv_select_ok], for a query select path
      and mode that may differ from the ones used to build;
   4. idempotence, commutation, any order, any subset of supports already present;
   5. the capstone statement of C01. *)
From Coq Require Import NArith List Lia ZArith Bool.
Require Import SDS.Model.Mach SDS.Model.Bits SDS.Model.Raw SDS.Model.IntVec SDS.Model.BitVec SDS.gen.Consts.
Require Import SDS.Spec.BitSeq SDS.Spec.SeqSpec SDS.Proofs.BitsProof SDS.Proofs.BVCommon.
Require Import SDS.Proofs.RawProof SDS.Proofs.RankProof SDS.Proofs.OneIterProof SDS.Proofs.SelectProof.
Import ListNotations.
Open Scope N_scope.
Require Import ZifyBool ZifyN ZifyNat.
Ltac Zify.zify_post_hook ::= Z.div_mod_to_equations.
Arguments N.add : simpl never. Arguments N.sub : simpl never. Arguments N.mul : simpl never.
Arguments N.eqb : simpl never. Arguments N.ltb : simpl never. Arguments N.leb : simpl never.
Arguments N.pow : simpl never. Arguments N.shiftl : simpl never. Arguments N.shiftr : simpl never.
Arguments N.land : simpl never. Arguments N.lor : simpl never. Arguments N.div : simpl never.
Arguments N.modulo : simpl never. Arguments N.ones : simpl never. Arguments N.testbit : simpl never.

(* ================================================================ 1. the two raw-vector invariants *)

Lemma raw_inv_wf : forall r, raw_inv r -> rlen r < 2 ^ 64 -> raw_wf r.
Proof.
  intros r (H1 & H2 & H3) H4. unfold raw_wf. rewrite <- bits_to_words_eq.
  split; [exact H1|]. split; [exact H2|]. split; [exact H3|exact H4].
Qed.

Lemma raw_wf_inv : forall r, raw_wf r -> raw_inv r /\ rlen r < 2 ^ 64.
Proof.
  intros r (H1 & H2 & H3 & H4). split; [|exact H4]. unfold raw_inv. rewrite bits_to_words_eq.
  split; [exact H1|]. split; [exact H2|exact H3].
Qed.

Lemma raw_wf_iff : forall r, raw_wf r <-> raw_inv r /\ rlen r < 2 ^ 64.
Proof. intros r. split; [apply raw_wf_inv|intros [H L]; apply raw_inv_wf; assumption]. Qed.

Lemma abs_raw_bits_of : forall r, abs_raw r = bits_of (rlen r) (rdata r).
Proof. reflexivity. Qed.

Lemma lenL_lenB (B : list bool) : lenL B = lenB B.
Proof. reflexivity. Qed.

Lemma abs_lenB r : raw_inv r -> rlen r = lenB (abs_raw r).
Proof. intros H. rewrite <- lenL_lenB. symmetry. apply abs_len, H. Qed.

(* From<RawVector> on a vector satisfying RawProof's invariant *)
Lemma bv_from_raw_inv_repr : forall r, raw_inv r -> rlen r < 2 ^ 64 -> bv_repr (bv_from_raw r) (abs_raw r).
Proof. intros r H L. exact (bv_from_raw_repr r (raw_inv_wf r H L)). Qed.

(* every representation is From<RawVector> of its data, up to the supports *)
Lemma bv_repr_abs : forall b B, bv_repr b B ->
  raw_inv (bv_data b) /\ abs_raw (bv_data b) = B /\ bv_ones b = raw_count_ones (bv_data b).
Proof.
  intros b B (Hwf & HB & Ho). destruct (raw_wf_inv _ Hwf) as [Hinv _].
  split; [exact Hinv|]. split; [symmetry; exact HB|].
  rewrite Ho, (raw_count_ones_spec _ Hinv). f_equal. exact HB.
Qed.

(* ================================================================ 2. construction routes *)

Lemma bitB_nthb B p : bitB B p = nthb B p.
Proof.
  unfold bitB, nthb. rewrite getb_nth_error. destruct (nth_error B (N.to_nat p)) as [x|] eqn:E.
  - symmetry. apply nth_error_nth. exact E.
  - symmetry. apply nth_overflow. apply nth_error_None. exact E.
Qed.

Lemma In_nth_opt {A} (l : list A) x : In x l <-> exists i, nth_opt l i = Some x.
Proof.
  induction l as [|a t IH]; cbn [In nth_opt].
  - split; [intros []|intros (i & H); discriminate].
  - split.
    + intros [->|H]; [exists 0; reflexivity|].
      apply IH in H. destruct H as (i & H). exists (i + 1).
      replace (i + 1 =? 0) with false by lia. replace (i + 1 - 1) with i by lia. exact H.
    + intros (i & H). destruct (N.eqb_spec i 0) as [_|_]; [left; congruence|].
      right. apply IH. exists (i - 1). exact H.
Qed.

Lemma In_ones B p : In p (ones B) <-> bitB B p = true.
Proof.
  rewrite In_nth_opt. split.
  - intros (r & H). apply nth_opt_ones_char in H. tauto.
  - intros H. exists (rank1 B p). apply nth_opt_ones_char. auto.
Qed.

(* --- FromIterator<bool>: push_bit for every element --- *)

Lemma push_bits_ok : forall bs r, raw_inv r ->
  exists r', push_bits r bs = Ok r' /\ raw_inv r' /\ abs_raw r' = abs_raw r ++ bs.
Proof.
  induction bs as [|b t IH]; intros r H; cbn [push_bits].
  - exists r. rewrite app_nil_r. auto.
  - destruct (raw_push_bit_ok r b H) as (r1 & E1 & H1 & A1). rewrite E1. cbn [bind].
    destruct (IH r1 H1) as (r' & E' & H' & A'). exists r'. split; [exact E'|]. split; [exact H'|].
    rewrite A', A1, <- app_assoc. reflexivity.
Qed.

Theorem bv_from_bits_raw : forall B,
  exists r, bv_from_bits B = Ok (bv_from_raw r) /\ raw_inv r /\ abs_raw r = B.
Proof.
  intros B. destruct raw_new_ok as [Hn An].
  destruct (push_bits_ok B raw_new Hn) as (r & E & H & A). exists r.
  unfold bv_from_bits. rewrite E. cbn [bind]. split; [reflexivity|]. split; [exact H|].
  rewrite A, An. reflexivity.
Qed.

(* --- copy_bit_vec: zeros, then set_bit at every listed position --- *)

Lemma nthb_set_true l p j : p < lenL l ->
  nthb (takeN p l ++ [true] ++ dropN (p + 1) l) j = nthb l j || (j =? p).
Proof.
  intros Hp. rewrite nthb_app, lenL_takeN, nthb_takeN. cbn [app]. rewrite nthb_cons, nthb_dropN.
  replace (N.min p (lenL l)) with p by lia.
  destruct (N.ltb_spec j p) as [H|H]; cbn [andb].
  - replace (j =? p) with false by lia. rewrite orb_false_r. reflexivity.
  - destruct (N.eqb_spec (j - p) 0) as [E|E].
    + replace (j =? p) with true by lia. rewrite orb_true_r. reflexivity.
    + replace (p + 1 + (j - p - 1)) with j by lia. replace (j =? p) with false by lia.
      rewrite orb_false_r. reflexivity.
Qed.

Lemma set_positions_ok : forall ps r, raw_inv r -> Forall (fun p => p < rlen r) ps ->
  exists r', set_positions r ps = Ok r' /\ raw_inv r' /\ rlen r' = rlen r /\
    forall j, nthb (abs_raw r') j = nthb (abs_raw r) j || existsb (N.eqb j) ps.
Proof.
  induction ps as [|p t IH]; intros r H HF; cbn [set_positions].
  - exists r. split; [reflexivity|]. split; [exact H|]. split; [reflexivity|].
    intros j. cbn [existsb]. rewrite orb_false_r. reflexivity.
  - inversion HF as [|p' t' Hp Ht]; subst p' t'.
    destruct (raw_set_bit_ok r p true H Hp) as (r1 & E1 & H1 & A1). rewrite E1. cbn [bind].
    pose proof (abs_len r H) as L0. pose proof (abs_len r1 H1) as L1.
    assert (Hlen : rlen r1 = rlen r).
    { rewrite <- L1, A1, lenL_app, lenL_takeN. cbn [app]. rewrite lenL_cons, lenL_dropN, L0. lia. }
    destruct (IH r1 H1) as (r' & E' & H' & L' & N').
    { rewrite Hlen. exact Ht. }
    exists r'. split; [exact E'|]. split; [exact H'|]. split; [congruence|].
    intros j. rewrite N', A1, nthb_set_true by (rewrite L0; exact Hp). cbn [existsb].
    rewrite orb_assoc. reflexivity.
Qed.

(* for ANY list of positions (any order, repetitions allowed) whose set is the set of ones of B *)
Theorem bv_copy_raw : forall B ps, (forall p, In p ps <-> bitB B p = true) ->
  exists r, bv_copy (lenB B) ps = Ok (bv_from_raw r) /\ raw_inv r /\ abs_raw r = B.
Proof.
  intros B ps Hps. destruct (raw_with_len_ok (lenB B) false) as (r0 & E0 & H0 & A0).
  assert (L0 : rlen r0 = lenB B).
  { rewrite <- (abs_len r0 H0), A0, lenL_repN. reflexivity. }
  destruct (set_positions_ok ps r0 H0) as (r & E & H & L & Nb).
  { apply Forall_forall. intros p Hin. rewrite L0. apply bitB_lt. apply Hps. exact Hin. }
  exists r. unfold bv_copy. rewrite E0. cbn [bind]. rewrite E. cbn [bind].
  split; [reflexivity|]. split; [exact H|].
  apply list_ext_nthb.
  - rewrite (abs_len r H), L, L0. reflexivity.
  - intros j. rewrite Nb, A0, nthb_repN, andb_false_r. cbn [orb]. rewrite <- bitB_nthb.
    apply eq_true_iff_eq. rewrite existsb_exists. split.
    + intros (x & Hin & Hx). apply N.eqb_eq in Hx. subst x. apply Hps. exact Hin.
    + intros Hj. exists j. split; [apply Hps; exact Hj|apply N.eqb_refl].
Qed.

(* all routes produce From<RawVector> of the ONE canonical raw vector of B (no bound on the length needed) *)
Theorem build_routes_equal : forall B,
  exists r, raw_inv r /\ abs_raw r = B /\
    bv_from_bits B = Ok (bv_from_raw r) /\
    bv_copy (lenB B) (ones B) = Ok (bv_from_raw r) /\
    (forall ps, (forall p, In p ps <-> bitB B p = true) -> bv_copy (lenB B) ps = Ok (bv_from_raw r)) /\
    (forall r', raw_inv r' -> abs_raw r' = B -> r' = r).
Proof.
  intros B. destruct (bv_from_bits_raw B) as (r & E & H & A). exists r.
  assert (Hc : forall ps, (forall p, In p ps <-> bitB B p = true) -> bv_copy (lenB B) ps = Ok (bv_from_raw r)).
  { intros ps Hps. destruct (bv_copy_raw B ps Hps) as (r2 & E2 & H2 & A2).
    rewrite E2. rewrite (raw_canonical r2 r H2 H) by congruence. reflexivity. }
  split; [exact H|]. split; [exact A|]. split; [exact E|].
  split; [apply Hc; intros p; apply In_ones|]. split; [exact Hc|].
  intros r' H' A'. apply raw_canonical; [exact H'|exact H|congruence].
Qed.

(* the named lemma of DESIGN section 8 C01: one record [b], reached by every route; it represents B, carries
   no support, and its cached count is count B *)
Theorem build_route_irrelevant : forall B, lenB B < 2 ^ 64 ->
  exists b, bv_from_bits B = Ok b /\
    bv_copy (lenB B) (ones B) = Ok b /\
    (forall ps, (forall p, In p ps <-> bitB B p = true) -> bv_copy (lenB B) ps = Ok b) /\
    (forall r, raw_inv r -> abs_raw r = B -> bv_from_raw r = b) /\
    bv_repr b B /\ bv_rank b = None /\ bv_select b = None /\ bv_select_zero b = None /\
    bv_ones b = count B /\ bv_len b = lenB B.
Proof.
  intros B HL. destruct (build_routes_equal B) as (r & H & A & E1 & E2 & E3 & E4).
  exists (bv_from_raw r). split; [exact E1|]. split; [exact E2|]. split; [exact E3|].
  split; [intros r' H' A'; rewrite (E4 r' H' A'); reflexivity|].
  assert (Hrep : bv_repr (bv_from_raw r) B).
  { rewrite <- A. apply bv_from_raw_inv_repr; [exact H|]. rewrite (abs_lenB r H), A. exact HL. }
  split; [exact Hrep|]. split; [reflexivity|]. split; [reflexivity|]. split; [reflexivity|].
  destruct (bv_counts_correct _ _ Hrep) as (Hl & Hc & _). split; [exact Hc|exact Hl].
Qed.

(* the three routes, each on its own *)
Corollary bv_from_bits_ok : forall B, lenB B < 2 ^ 64 ->
  exists b, bv_from_bits B = Ok b /\ bv_repr b B /\
            bv_rank b = None /\ bv_select b = None /\ bv_select_zero b = None.
Proof.
  intros B HL. destruct (build_route_irrelevant B HL) as (b & E & _ & _ & _ & Hr & H1 & H2 & H3 & _).
  exists b. auto.
Qed.

Corollary bv_from_raw_ok : forall B r, lenB B < 2 ^ 64 -> raw_inv r -> abs_raw r = B ->
  bv_repr (bv_from_raw r) B /\
  bv_rank (bv_from_raw r) = None /\ bv_select (bv_from_raw r) = None /\ bv_select_zero (bv_from_raw r) = None.
Proof.
  intros B r HL H A. destruct (build_route_irrelevant B HL) as (b & _ & _ & _ & E & Hr & H1 & H2 & H3 & _).
  rewrite (E r H A). auto.
Qed.

Corollary bv_copy_ok : forall B, lenB B < 2 ^ 64 ->
  exists b, bv_copy (lenB B) (ones B) = Ok b /\ bv_repr b B /\
            bv_rank b = None /\ bv_select b = None /\ bv_select_zero b = None.
Proof.
  intros B HL. destruct (build_route_irrelevant B HL) as (b & _ & E & _ & _ & Hr & H1 & H2 & H3 & _).
  exists b. auto.
Qed.

Corollary bv_copy_any_ok : forall B ps, lenB B < 2 ^ 64 -> (forall p, In p ps <-> bitB B p = true) ->
  exists b, bv_copy (lenB B) ps = Ok b /\ bv_repr b B /\
            bv_rank b = None /\ bv_select b = None /\ bv_select_zero b = None.
Proof.
  intros B ps HL Hps. destruct (build_route_irrelevant B HL) as (b & _ & _ & E & _ & Hr & H1 & H2 & H3 & _).
  exists b. split; [exact (E ps Hps)|]. auto.
Qed.

(* ================================================================ 3. the interfaces from the [*_ok] predicates *)

(* the supports may have been built on any select path / mode; the query may use any other *)
Lemma bv_select_ok_intro : forall sp1 m1 sp0 m0 b B,
  bv_repr b B -> select_ok sp1 m1 Identity b B -> select_ok sp0 m0 Complement b B ->
  forall sp m, bv_select_ok sp m b B.
Proof.
  intros sp1 m1 sp0 m0 b B Hrep H1 H0 sp m. split; [exact Hrep|].
  split; [intros i Hi; exact (bv_get_correct b B i Hrep Hi)|]. split.
  - intros r _. exact (bv_select_t_spec sp1 m1 sp m Identity b B r Hrep (fun _ => H1)).
  - intros r _. exact (bv_select_t_spec sp0 m0 sp m Complement b B r Hrep (fun _ => H0)).
Qed.

Lemma bv_queries_ok_intro : forall sp1 m1 sp0 m0 b B,
  bv_repr b B -> rank_ok b B -> select_ok sp1 m1 Identity b B -> select_ok sp0 m0 Complement b B ->
  forall sp m, bv_queries_ok sp m b B.
Proof.
  intros sp1 m1 sp0 m0 b B Hrep Hr H1 H0 sp m. split; [exact Hrep|].
  split; [intros i Hi; exact (bv_get_correct b B i Hrep Hi)|].
  split; [intros i _; exact (bv_rank_q_correct b B Hrep Hr i)|]. split.
  - intros r _. exact (bv_select_t_spec sp1 m1 sp m Identity b B r Hrep (fun _ => H1)).
  - intros r _. exact (bv_select_t_spec sp0 m0 sp m Complement b B r Hrep (fun _ => H0)).
Qed.

Lemma bv_queries_select_ok : forall sp m b B, bv_queries_ok sp m b B -> bv_select_ok sp m b B.
Proof. intros sp m b B (H1 & H2 & _ & H4 & H5). split; [exact H1|]. split; [exact H2|]. split; assumption. Qed.

(* rank_ok survives every change of the other fields *)
Lemma rank_ok_same : forall b b' B, bv_same b b' -> bv_rank b' = bv_rank b -> rank_ok b B -> rank_ok b' B.
Proof.
  intros b b' B [Hd _] Hr (rs & E & Hn). exists rs. split; [congruence|].
  rewrite (rank_new_same_data b b') by (symmetry; exact Hd). exact Hn.
Qed.

(* ================================================================ 4. enable_* in closed form *)

Definition opt_or {A} (o : option A) (d : A) : A := match o with Some x => x | None => d end.

(* what the builders return (they never fail on a representation: rank_new_rk / select_new_sel) *)
Definition rk_of (b : bitvec) : rank_support :=
  match rank_new b with Ok rs => rs | _ => mkrs [] end.
Definition sel_of (sp : selpath) (m : mode) (t : transf) (b : bitvec) : select_support :=
  match select_new sp m t b with Ok s => s | _ => mkss iv_default iv_default iv_default end.

Lemma rank_new_rk b B : bv_repr b B -> rank_new b = Ok (rk_of b).
Proof. intros H. destruct (rank_new_ok b B H) as (rs & E & _). unfold rk_of. rewrite E. reflexivity. Qed.

Lemma select_new_sel sp m t b B : bv_repr b B -> select_new sp m t b = Ok (sel_of sp m t b).
Proof. intros H. destruct (select_new_spec sp m t b B H) as (s & E & _). unfold sel_of. rewrite E. reflexivity. Qed.

Lemma rk_of_same b b' : bv_same b b' -> rk_of b' = rk_of b.
Proof. intros [Hd _]. unfold rk_of. rewrite (rank_new_same_data b b') by (symmetry; exact Hd). reflexivity. Qed.

Lemma sel_of_same sp m t b b' : bv_same b b' -> sel_of sp m t b' = sel_of sp m t b.
Proof. intros H. unfold sel_of. rewrite (same_select_new sp m t b b' H). reflexivity. Qed.

Lemma rank_ok_rk b B : rank_ok b B -> bv_rank b = Some (rk_of b).
Proof. intros (rs & E & Hn). unfold rk_of. rewrite Hn. exact E. Qed.

Lemma select_ok_sel sp m t b B : select_ok sp m t b B -> t_support t b = Some (sel_of sp m t b).
Proof. intros (s & E & Hn). unfold sel_of. rewrite Hn. exact E. Qed.

(* the three operations and lists of them *)
Inductive enop := ERank | ESelect | ESelectZero.
Definition enop_eqb (a b : enop) : bool :=
  match a, b with ERank, ERank | ESelect, ESelect | ESelectZero, ESelectZero => true | _, _ => false end.

Definition enable_op (sp : selpath) (m : mode) (o : enop) (b : bitvec) : res bitvec :=
  match o with
  | ERank => bv_enable_rank b
  | ESelect => bv_enable_select_t sp m Identity b
  | ESelectZero => bv_enable_select_t sp m Complement b
  end.
Fixpoint enable_ops (sp : selpath) (m : mode) (ops : list enop) (b : bitvec) : res bitvec :=
  match ops with
  | [] => Ok b
  | o :: t => let* b' := enable_op sp m o b in enable_ops sp m t b'
  end.
Definition has_op (o : enop) (ops : list enop) : bool := existsb (enop_eqb o) ops.

(* b with the supports selected by the flags present: an existing support is kept, a missing one is built *)
Definition bv_with (sp : selpath) (m : mode) (hr hs hz : bool) (b : bitvec) : bitvec :=
  mkbv (bv_ones b) (bv_data b)
    (if hr then Some (opt_or (bv_rank b) (rk_of b)) else bv_rank b)
    (if hs then Some (opt_or (bv_select b) (sel_of sp m Identity b)) else bv_select b)
    (if hz then Some (opt_or (bv_select_zero b) (sel_of sp m Complement b)) else bv_select_zero b).
Definition bv_full (sp : selpath) (m : mode) (b : bitvec) : bitvec := bv_with sp m true true true b.
(* b without supports *)
Definition bv_strip (b : bitvec) : bitvec := mkbv (bv_ones b) (bv_data b) None None None.

Lemma bv_with_same sp m hr hs hz b : bv_same b (bv_with sp m hr hs hz b).
Proof. split; reflexivity. Qed.
Lemma bv_strip_same b : bv_same b (bv_strip b).
Proof. split; reflexivity. Qed.

Lemma bv_with_none sp m b : bv_with sp m false false false b = b.
Proof. destruct b; reflexivity. Qed.

Lemma enable_op_closed sp m o b B : bv_repr b B ->
  enable_op sp m o b = Ok (bv_with sp m (enop_eqb ERank o) (enop_eqb ESelect o) (enop_eqb ESelectZero o) b).
Proof.
  intros H. destruct o; cbn [enable_op enop_eqb].
  - unfold bv_enable_rank. rewrite (rank_new_rk b B H). cbn [bind].
    unfold bv_with. destruct b as [o d r s z]. cbn [bv_ones bv_data bv_rank bv_select bv_select_zero].
    destruct r; reflexivity.
  - unfold bv_enable_select_t. rewrite (select_new_sel sp m Identity b B H). cbn [bind t_support].
    unfold bv_with. destruct b as [o d r s z]. cbn [bv_ones bv_data bv_rank bv_select bv_select_zero].
    destruct s; reflexivity.
  - unfold bv_enable_select_t. rewrite (select_new_sel sp m Complement b B H). cbn [bind t_support].
    unfold bv_with. destruct b as [o d r s z]. cbn [bv_ones bv_data bv_rank bv_select bv_select_zero].
    destruct z; reflexivity.
Qed.

Lemma bv_with_compose sp m a1 a2 a3 c1 c2 c3 b :
  bv_with sp m c1 c2 c3 (bv_with sp m a1 a2 a3 b) = bv_with sp m (a1 || c1) (a2 || c2) (a3 || c3) b.
Proof.
  pose proof (bv_with_same sp m a1 a2 a3 b) as Hs.
  unfold bv_with at 1. rewrite (rk_of_same _ _ Hs), !(sel_of_same sp m _ _ _ Hs).
  unfold bv_with. cbn [bv_ones bv_data bv_rank bv_select bv_select_zero]. f_equal.
  - destruct a1, c1, (bv_rank b); reflexivity.
  - destruct a2, c2, (bv_select b); reflexivity.
  - destruct a3, c3, (bv_select_zero b); reflexivity.
Qed.

(* ANY sequence of enable operations (any order, any repetition) succeeds, and its result depends only on
   the SET of operations performed *)
Theorem enable_ops_closed : forall sp m B ops b, bv_repr b B ->
  enable_ops sp m ops b =
  Ok (bv_with sp m (has_op ERank ops) (has_op ESelect ops) (has_op ESelectZero ops) b).
Proof.
  intros sp m B. induction ops as [|o t IH]; intros b H; cbn [enable_ops].
  - cbn [has_op existsb]. rewrite bv_with_none. reflexivity.
  - rewrite (enable_op_closed sp m o b B H). cbn [bind].
    rewrite IH by (exact (bv_repr_same _ _ B (bv_with_same sp m _ _ _ b) H)).
    rewrite bv_with_compose. reflexivity.
Qed.

Lemma bind_ret {A} (e : res A) : bind e (fun a => Ok a) = e.
Proof. destruct e; reflexivity. Qed.

Lemma bv_enable_all_ops sp m b : bv_enable_all sp m b = enable_ops sp m [ERank; ESelect; ESelectZero] b.
Proof.
  unfold bv_enable_all. cbn [enable_ops enable_op]. apply bind_ext. intros b1. apply bind_ext. intros b2.
  symmetry. apply bind_ret.
Qed.

Theorem bv_enable_all_closed : forall sp m b B, bv_repr b B -> bv_enable_all sp m b = Ok (bv_full sp m b).
Proof. intros sp m b B H. rewrite bv_enable_all_ops, (enable_ops_closed sp m B _ b H). reflexivity. Qed.

(* --- order and repetition --- *)

Theorem enable_ops_set : forall sp m B ops ops' b, bv_repr b B ->
  (forall o, has_op o ops = has_op o ops') -> enable_ops sp m ops b = enable_ops sp m ops' b.
Proof.
  intros sp m B ops ops' b H E. rewrite (enable_ops_closed sp m B ops b H), (enable_ops_closed sp m B ops' b H), !E.
  reflexivity.
Qed.

(* every list of operations containing all three - the six orders, with or without repetitions - is enable_all *)
Theorem enable_ops_any_order : forall sp m B ops b, bv_repr b B ->
  (forall o, has_op o ops = true) -> enable_ops sp m ops b = bv_enable_all sp m b.
Proof.
  intros sp m B ops b H E. rewrite bv_enable_all_ops. apply (enable_ops_set sp m B); [exact H|].
  intros o. rewrite E. destruct o; reflexivity.
Qed.

Theorem enable_op_commute : forall sp m B o1 o2 b, bv_repr b B ->
  enable_ops sp m [o1; o2] b = enable_ops sp m [o2; o1] b.
Proof.
  intros sp m B o1 o2 b H. apply (enable_ops_set sp m B); [exact H|].
  intros o. cbn [has_op existsb]. rewrite !orb_false_r. apply orb_comm.
Qed.

Theorem enable_op_twice : forall sp m B o b, bv_repr b B ->
  enable_ops sp m [o; o] b = enable_ops sp m [o] b.
Proof.
  intros sp m B o b H. apply (enable_ops_set sp m B); [exact H|].
  intros o'. cbn [has_op existsb]. rewrite !orb_false_r. apply orb_diag.
Qed.

(* the six orders spelled out *)
Theorem bv_enable_orders : forall sp m b B, bv_repr b B ->
  let r := bv_enable_rank in
  let s := bv_enable_select_t sp m Identity in
  let z := bv_enable_select_t sp m Complement in
  let seq3 (f g h : bitvec -> res bitvec) := let* b1 := f b in let* b2 := g b1 in h b2 in
  seq3 r s z = Ok (bv_full sp m b) /\ seq3 r z s = Ok (bv_full sp m b) /\
  seq3 s r z = Ok (bv_full sp m b) /\ seq3 s z r = Ok (bv_full sp m b) /\
  seq3 z r s = Ok (bv_full sp m b) /\ seq3 z s r = Ok (bv_full sp m b).
Proof.
  intros sp m b B H r s z seq3.
  assert (G : forall o1 o2 o3, (forall o, has_op o [o1; o2; o3] = true) ->
              (let* b1 := enable_op sp m o1 b in let* b2 := enable_op sp m o2 b1 in enable_op sp m o3 b2)
              = Ok (bv_full sp m b)).
  { intros o1 o2 o3 E. rewrite <- (bv_enable_all_closed sp m b B H), <- (enable_ops_any_order sp m B [o1; o2; o3] b H E).
    cbn [enable_ops]. apply bind_ext. intros b1. apply bind_ext. intros b2. symmetry. apply bind_ret. }
  subst r s z seq3. cbv beta.
  split; [apply (G ERank ESelect ESelectZero); intros []; reflexivity|].
  split; [apply (G ERank ESelectZero ESelect); intros []; reflexivity|].
  split; [apply (G ESelect ERank ESelectZero); intros []; reflexivity|].
  split; [apply (G ESelect ESelectZero ERank); intros []; reflexivity|].
  split; [apply (G ESelectZero ERank ESelect); intros []; reflexivity|].
  apply (G ESelectZero ESelect ERank); intros []; reflexivity.
Qed.

(* --- facts that need no invariant at all: an enable that returns never changes data / count, only ever
       adds its own support, and is idempotent (on any select path and in any mode the second time) --- *)

Lemma bv_enable_rank_frame : forall b b', bv_enable_rank b = Ok b' ->
  bv_same b b' /\ bv_select b' = bv_select b /\ bv_select_zero b' = bv_select_zero b /\
  bv_rank b' <> None /\ (bv_rank b <> None -> b' = b).
Proof.
  intros b b'. unfold bv_enable_rank. destruct (bv_rank b) as [rs|] eqn:E.
  - intros H. injection H as <-. rewrite E. repeat split; try reflexivity; discriminate.
  - destruct (rank_new b) as [rs| |]; cbn [bind]; try discriminate. intros H. injection H as <-.
    cbn [bv_rank bv_select bv_select_zero]. repeat split; try reflexivity; try discriminate.
    intros F. exfalso. apply F. reflexivity.
Qed.

Lemma bv_enable_select_t_frame : forall sp m t b b', bv_enable_select_t sp m t b = Ok b' ->
  bv_same b b' /\ bv_rank b' = bv_rank b /\
  t_support (match t with Identity => Complement | Complement => Identity end) b' =
    t_support (match t with Identity => Complement | Complement => Identity end) b /\
  t_support t b' <> None /\ (t_support t b <> None -> b' = b).
Proof.
  intros sp m t b b'. unfold bv_enable_select_t. destruct (t_support t b) as [s|] eqn:E.
  - intros H. injection H as <-. rewrite E. repeat split; try reflexivity; discriminate.
  - destruct (select_new sp m t b) as [s| |]; cbn [bind]; try discriminate. intros H. injection H as <-.
    destruct t; cbn [t_support bv_rank bv_select bv_select_zero]; repeat split; try reflexivity; try discriminate;
      intros F; exfalso; apply F; reflexivity.
Qed.

Theorem bv_enable_rank_idem : forall b b', bv_enable_rank b = Ok b' -> bv_enable_rank b' = Ok b'.
Proof.
  intros b b' H. destruct (bv_enable_rank_frame b b' H) as (_ & _ & _ & Hn & _).
  unfold bv_enable_rank. destruct (bv_rank b'); [reflexivity|exfalso; apply Hn; reflexivity].
Qed.

Theorem bv_enable_select_t_idem : forall sp m t b b', bv_enable_select_t sp m t b = Ok b' ->
  forall sp' m', bv_enable_select_t sp' m' t b' = Ok b'.
Proof.
  intros sp m t b b' H sp' m'. destruct (bv_enable_select_t_frame sp m t b b' H) as (_ & _ & _ & Hn & _).
  unfold bv_enable_select_t. destruct (t_support t b'); [reflexivity|exfalso; apply Hn; reflexivity].
Qed.

Theorem bv_enable_all_frame : forall sp m b b', bv_enable_all sp m b = Ok b' ->
  bv_same b b' /\ bv_rank b' <> None /\ bv_select b' <> None /\ bv_select_zero b' <> None.
Proof.
  intros sp m b b'. unfold bv_enable_all.
  destruct (bv_enable_rank b) as [b1| |] eqn:E1; cbn [bind]; try discriminate.
  destruct (bv_enable_select_t sp m Identity b1) as [b2| |] eqn:E2; cbn [bind]; try discriminate.
  intros E3.
  destruct (bv_enable_rank_frame _ _ E1) as (S1 & _ & _ & N1 & _).
  destruct (bv_enable_select_t_frame _ _ _ _ _ E2) as (S2 & R2 & _ & N2 & _).
  destruct (bv_enable_select_t_frame _ _ _ _ _ E3) as (S3 & R3 & Z3 & N3 & _).
  cbn [t_support] in *.
  split; [exact (bv_same_trans _ _ _ (bv_same_trans _ _ _ S1 S2) S3)|].
  split; [rewrite R3, R2; exact N1|]. split; [rewrite Z3; exact N2|exact N3].
Qed.

Theorem bv_enable_all_idem : forall sp m b b', bv_enable_all sp m b = Ok b' ->
  forall sp' m', bv_enable_all sp' m' b' = Ok b'.
Proof.
  intros sp m b b' H sp' m'. destruct (bv_enable_all_frame sp m b b' H) as (_ & Nr & Ns & Nz).
  unfold bv_enable_all, bv_enable_rank, bv_enable_select_t.
  destruct (bv_rank b'); [|exfalso; apply Nr; reflexivity]. cbn [bind t_support].
  destruct (bv_select b'); [|exfalso; apply Ns; reflexivity]. cbn [bind t_support].
  destruct (bv_select_zero b'); [reflexivity|exfalso; apply Nz; reflexivity].
Qed.

(* --- any subset of supports already present --- *)

(* every support that is present is the one the builder produces *)
Definition supports_ok (sp : selpath) (m : mode) (b : bitvec) (B : list bool) : Prop :=
  (bv_rank b <> None -> rank_ok b B) /\
  (bv_select b <> None -> select_ok sp m Identity b B) /\
  (bv_select_zero b <> None -> select_ok sp m Complement b B).

Lemma supports_ok_none sp m b B :
  bv_rank b = None -> bv_select b = None -> bv_select_zero b = None -> supports_ok sp m b B.
Proof. intros H1 H2 H3. repeat split; intros F; exfalso; apply F; assumption. Qed.

Lemma bv_full_strip sp m b B : supports_ok sp m b B -> bv_full sp m b = bv_full sp m (bv_strip b).
Proof.
  intros (Hr & Hs & Hz). pose proof (bv_strip_same b) as Hsm.
  unfold bv_full, bv_with. rewrite (rk_of_same _ _ Hsm), !(sel_of_same sp m _ _ _ Hsm).
  cbn [bv_strip bv_ones bv_data bv_rank bv_select bv_select_zero opt_or]. f_equal.
  - destruct (bv_rank b) as [rs|] eqn:E; [|reflexivity].
    assert (G : rank_ok b B) by (apply Hr; try rewrite E; discriminate).
    apply rank_ok_rk in G. rewrite E in G. injection G as ->. reflexivity.
  - destruct (bv_select b) as [s|] eqn:E; [|reflexivity].
    assert (G : select_ok sp m Identity b B) by (apply Hs; try rewrite E; discriminate).
    apply select_ok_sel in G. cbn [t_support] in G. rewrite E in G. injection G as ->. reflexivity.
  - destruct (bv_select_zero b) as [s|] eqn:E; [|reflexivity].
    assert (G : select_ok sp m Complement b B) by (apply Hz; try rewrite E; discriminate).
    apply select_ok_sel in G. cbn [t_support] in G. rewrite E in G. injection G as ->. reflexivity.
Qed.

(* whatever subset of (valid) supports b carries, enable_all gives the record obtained from the support-free
   vector *)
Theorem bv_enable_all_subset : forall sp m b B, bv_repr b B -> supports_ok sp m b B ->
  bv_enable_all sp m b = bv_enable_all sp m (bv_strip b).
Proof.
  intros sp m b B H Hok.
  rewrite (bv_enable_all_closed sp m b B H).
  rewrite (bv_enable_all_closed sp m (bv_strip b) B (bv_repr_same _ _ B (bv_strip_same b) H)).
  rewrite (bv_full_strip sp m b B Hok). reflexivity.
Qed.

(* two representations of the same sequence, with whatever valid supports, become EQUAL records *)
Theorem bv_enable_all_canonical : forall sp m b1 b2 B,
  bv_repr b1 B -> bv_repr b2 B -> supports_ok sp m b1 B -> supports_ok sp m b2 B ->
  bv_enable_all sp m b1 = bv_enable_all sp m b2.
Proof.
  intros sp m b1 b2 B H1 H2 K1 K2.
  rewrite (bv_enable_all_subset sp m b1 B H1 K1), (bv_enable_all_subset sp m b2 B H2 K2). f_equal.
  destruct (bv_repr_abs _ _ H1) as (I1 & A1 & O1). destruct (bv_repr_abs _ _ H2) as (I2 & A2 & O2).
  assert (E : bv_data b1 = bv_data b2) by (apply raw_canonical; congruence).
  unfold bv_strip. rewrite O1, O2, E. reflexivity.
Qed.

(* ================================================================ 5. enable_all establishes everything *)

Lemma bv_full_ok sp m b B : bv_repr b B -> supports_ok sp m b B ->
  bv_repr (bv_full sp m b) B /\ rank_ok (bv_full sp m b) B /\
  select_ok sp m Identity (bv_full sp m b) B /\ select_ok sp m Complement (bv_full sp m b) B.
Proof.
  intros H Hok. rewrite (bv_full_strip sp m b B Hok).
  pose proof (bv_repr_same _ _ B (bv_strip_same b) H) as H0. set (b0 := bv_strip b) in *.
  pose proof (bv_with_same sp m true true true b0) as Hs. fold (bv_full sp m b0) in Hs.
  split; [exact (bv_repr_same _ _ B Hs H0)|]. split; [|split].
  - exists (rk_of b0). split; [reflexivity|].
    rewrite (rank_new_same_data b0 (bv_full sp m b0)) by reflexivity. exact (rank_new_rk b0 B H0).
  - exists (sel_of sp m Identity b0). split; [reflexivity|].
    rewrite <- (same_select_new sp m Identity _ _ Hs). exact (select_new_sel sp m Identity b0 B H0).
  - exists (sel_of sp m Complement b0). split; [reflexivity|].
    rewrite <- (same_select_new sp m Complement _ _ Hs). exact (select_new_sel sp m Complement b0 B H0).
Qed.

(* general form: any valid subset of supports present; queries on any select path / mode *)
Theorem bv_enable_all_gen : forall sp m b B, bv_repr b B -> supports_ok sp m b B ->
  exists b', bv_enable_all sp m b = Ok b' /\ b' = bv_full sp m (bv_strip b) /\ bv_same b b' /\
    bv_repr b' B /\ rank_ok b' B /\ select_ok sp m Identity b' B /\ select_ok sp m Complement b' B /\
    (forall sp' m', bv_queries_ok sp' m' b' B) /\ (forall sp' m', bv_select_ok sp' m' b' B).
Proof.
  intros sp m b B H Hok. exists (bv_full sp m b).
  destruct (bv_full_ok sp m b B H Hok) as (H1 & H2 & H3 & H4).
  split; [exact (bv_enable_all_closed sp m b B H)|]. split; [exact (bv_full_strip sp m b B Hok)|].
  split; [apply bv_with_same|]. split; [exact H1|]. split; [exact H2|]. split; [exact H3|]. split; [exact H4|].
  split; intros sp' m'.
  - exact (bv_queries_ok_intro sp m sp m _ B H1 H2 H3 H4 sp' m').
  - exact (bv_select_ok_intro sp m sp m _ B H1 H3 H4 sp' m').
Qed.

(* the requested form, on a vector without supports *)
Theorem bv_enable_all_ok : forall sp m b B,
  bv_repr b B -> bv_rank b = None -> bv_select b = None -> bv_select_zero b = None ->
  exists b', bv_enable_all sp m b = Ok b' /\ bv_repr b' B /\ rank_ok b' B /\
    select_ok sp m Identity b' B /\ select_ok sp m Complement b' B /\
    bv_queries_ok sp m b' B /\ bv_select_ok sp m b' B.
Proof.
  intros sp m b B H N1 N2 N3.
  destruct (bv_enable_all_gen sp m b B H (supports_ok_none sp m b B N1 N2 N3))
    as (b' & E & _ & _ & H1 & H2 & H3 & H4 & H5 & H6).
  exists b'. split; [exact E|]. split; [exact H1|]. split; [exact H2|]. split; [exact H3|]. split; [exact H4|].
  split; [apply H5|apply H6].
Qed.

(* the same with the query select path / mode independent of the build's *)
Theorem bv_enable_all_ok_any : forall sp m b B,
  bv_repr b B -> bv_rank b = None -> bv_select b = None -> bv_select_zero b = None ->
  exists b', bv_enable_all sp m b = Ok b' /\ bv_repr b' B /\ rank_ok b' B /\
    select_ok sp m Identity b' B /\ select_ok sp m Complement b' B /\
    (forall sp' m', bv_queries_ok sp' m' b' B) /\ (forall sp' m', bv_select_ok sp' m' b' B).
Proof.
  intros sp m b B H N1 N2 N3.
  destruct (bv_enable_all_gen sp m b B H (supports_ok_none sp m b B N1 N2 N3))
    as (b' & E & _ & _ & H1 & H2 & H3 & H4 & H5 & H6).
  exists b'. auto 10.
Qed.

(* the Elias-Fano high part: only enable_select and enable_select_zero (the rank field, whatever it is, stays) *)
Theorem bv_enable_selects_ok : forall sp m b B,
  bv_repr b B -> bv_select b = None -> bv_select_zero b = None ->
  exists b1 b', bv_enable_select_t sp m Identity b = Ok b1 /\ bv_enable_select_t sp m Complement b1 = Ok b' /\
    bv_repr b' B /\ bv_same b b' /\ bv_rank b' = bv_rank b /\
    select_ok sp m Identity b' B /\ select_ok sp m Complement b' B /\
    (forall sp' m', bv_select_ok sp' m' b' B).
Proof.
  intros sp m b B H N2 N3.
  destruct (bv_enable_both_select sp m b B H N2 N3) as (b1 & b' & E1 & E2 & Hr & Hs & Hk & S1 & S0).
  exists b1, b'. split; [exact E1|]. split; [exact E2|]. split; [exact Hr|]. split; [exact Hs|].
  split; [exact Hk|]. split; [exact S1|]. split; [exact S0|].
  intros sp' m'. exact (bv_select_ok_intro sp m sp m b' B Hr S1 S0 sp' m').
Qed.

(* rank_ok is kept by the two select enables *)
Theorem bv_enable_select_t_rank_ok : forall sp m t b b' B,
  bv_enable_select_t sp m t b = Ok b' -> rank_ok b B -> rank_ok b' B.
Proof.
  intros sp m t b b' B E Hr. destruct (bv_enable_select_t_frame sp m t b b' E) as (Hs & Hk & _).
  exact (rank_ok_same b b' B Hs Hk Hr).
Qed.

(* ================================================================ 6. the capstone of C01 *)

Theorem bv_plain_exact : forall sp m sp' m' (B : list bool), lenB B < 2 ^ 64 ->
  forall b0, (bv_from_bits B = Ok b0 \/
              (exists r, raw_inv r /\ abs_raw r = B /\ b0 = bv_from_raw r) \/
              bv_copy (lenB B) (ones B) = Ok b0) ->
  exists b, bv_enable_all sp m b0 = Ok b /\
    bv_len b = lenB B /\ bv_count_ones b = count B /\ bv_count_zeros b = lenB B - count B /\
    (forall i, i < lenB B -> exists x, bv_get b i = Ok x /\ getb B i = Some x) /\
    (forall i, bv_rank_q b i = Ok (rank1 B i)) /\
    (forall i, bv_rank_zero m' b i = Ok (i - rank1 B i) /\
               (i <= lenB B -> i - rank1 B i = rank1 (map negb B) i)) /\
    (forall r, bv_select_t sp' m' Identity b r = Ok (select1 B r)) /\
    (forall r, bv_select_t sp' m' Complement b r = Ok (select0 B r)) /\
    (forall v, v < 2 ^ 64 -> exists it it',
       bv_successor sp' m' b v = Ok it /\ oi_next_f Identity b it = Ok (it', succ1 B v)) /\
    (forall v, v < 2 ^ 64 -> exists it it',
       bv_predecessor sp' m' b v = Ok it /\ oi_next_f Identity b it = Ok (it', pred1 B v)).
Proof.
  intros sp m sp' m' B HL b0 Hroute.
  destruct (build_route_irrelevant B HL) as (bc & E1 & E2 & _ & E3 & Hrep0 & N1 & N2 & N3 & _).
  assert (Hb0 : b0 = bc).
  { destruct Hroute as [H|[(r & Hi & Ha & ->)|H]]; [congruence|exact (E3 r Hi Ha)|congruence]. }
  subst b0.
  destruct (bv_enable_all_ok_any sp m bc B Hrep0 N1 N2 N3) as (b & E & Hrep & Hr & S1 & S0 & _ & _).
  destruct (bv_counts_correct b B Hrep) as (Hlen & Hc1 & Hc0).
  assert (Hrq : forall i, bv_rank_q b i = Ok (rank1 B i)) by exact (bv_rank_q_correct b B Hrep Hr).
  exists b. split; [exact E|]. split; [exact Hlen|]. split; [exact Hc1|]. split; [exact Hc0|].
  split; [intros i Hi; apply (bv_get_correct b B i Hrep); rewrite Hlen; exact Hi|].
  split; [exact Hrq|].
  split.
  { intros i. split; [exact (bv_rank_zero_value m' b B Hrep Hr i)|].
    intros Hi. apply (bv_rank_zero_correct m' b B Hrep Hr i). rewrite Hlen. exact Hi. }
  split; [intros r; exact (bv_select_t_spec sp m sp' m' Identity b B r Hrep (fun _ => S1))|].
  split; [intros r; exact (bv_select_t_spec sp m sp' m' Complement b B r Hrep (fun _ => S0))|].
  split.
  - intros v Hv. exact (bv_successor_first sp m sp' m' b B v Hrep S1 (fun i _ => Hrq i) Hv).
  - intros v Hv. exact (bv_predecessor_first sp m sp' m' b B v Hrep S1 (fun i _ => Hrq i) Hv).
Qed.

(* ================================================================ 7. the builder does not depend on the select path / mode *)

(* SelectSupport::new calls bits::select (through OneIter::nth) and does checked subtractions; on a
   representation both select paths return the same offsets and no subtraction underflows, so the support
   built is the SAME record on either path and in either mode. Hence [select_ok], [supports_ok] and the
   result of [bv_enable_all] do not depend on (sp, m) either. *)

Lemma oi_nth_shape sp m t b it n it' v : oi_nth sp m t b it n = Ok (it', v) ->
  it' = match v with
        | Some r => mkoi (fst r + 1, snd r + 1) (oi_limit it)
        | None => mkoi (oi_limit it) (oi_limit it)
        end.
Proof.
  unfold oi_nth. destruct (usub m _ _) as [rem| |]; cbn [bind]; try discriminate.
  destruct (rem <=? n). { intros H. injection H as <- <-. reflexivity. }
  destruct (split_offset _) as [index offset].
  destruct (t_word_unchecked t b index) as [w0| |]; cbn [bind]; try discriminate.
  destruct (low_set_unchecked offset) as [ls| |]; cbn [bind]; try discriminate.
  destruct (scan_rank _ _ _ _ _ _) as [[[i' w] rr]| |]; cbn [bind]; try discriminate.
  destruct (word_select _ _ _ _) as [off| |]; cbn [bind]; try discriminate.
  cbv zeta. intros H. injection H as <- <-. reflexivity.
Qed.

Lemma oi_nth_path sp m sp' m' t b B it n : bv_repr b B -> oi_inv t B it ->
  oi_nth sp m t b it n = oi_nth sp' m' t b it n.
Proof.
  intros H I. destruct (oi_nth_spec sp m t b B it n H I) as (i1 & E1 & _).
  destruct (oi_nth_spec sp' m' t b B it n H I) as (i2 & E2 & _).
  pose proof (oi_nth_shape _ _ _ _ _ _ _ _ E1) as S1. pose proof (oi_nth_shape _ _ _ _ _ _ _ _ E2) as S2.
  rewrite E1, E2, S1, S2. reflexivity.
Qed.

Lemma fill_long_inv t b B : bv_repr b B -> forall n s1 long it v l' it' v',
  oi_inv t B it -> fill_long t b n s1 long it v = Ok (l', it', v') -> oi_inv t B it'.
Proof.
  intros H. induction n as [|n IH]; intros s1 long it v l' it' v' I; cbn [fill_long].
  - intros E. injection E as _ <- _. exact I.
  - destruct (opt_unwrap v) as [x| |]; cbn [bind]; try discriminate.
    destruct (iv_push long _) as [long1| |]; cbn [bind]; try discriminate.
    destruct (oi_next_spec t b B it H I) as (i1 & E1 & I1 & _). rewrite E1. cbn [bind].
    apply IH. exact I1.
Qed.

Lemma fill_short_path sp m sp' m' t b B : bv_repr b B -> forall n s1 short it v,
  oi_inv t B it ->
  fill_short sp m t b n s1 short it v = fill_short sp' m' t b n s1 short it v /\
  forall sh' it' v', fill_short sp m t b n s1 short it v = Ok (sh', it', v') -> oi_inv t B it'.
Proof.
  intros H. induction n as [|n IH]; intros s1 short it v I; cbn [fill_short].
  - split; [reflexivity|]. intros sh' it' v' E. injection E as _ <- _. exact I.
  - destruct (opt_unwrap v) as [x| |]; cbn [bind]; try (split; [reflexivity|discriminate]).
    destruct (iv_push short _) as [short1| |]; cbn [bind]; try (split; [reflexivity|discriminate]).
    rewrite <- (oi_nth_path sp m sp' m' t b B it _ H I).
    destruct (oi_nth_spec sp m t b B it (select_BLOCK_SIZE - 1) H I) as (i1 & E1 & I1 & _).
    rewrite E1. cbn [bind]. apply IH. exact I1.
Qed.

Lemma ss_loop_path sp m sp' m' t b B : bv_repr b B -> forall fuel l4 st,
  oi_inv t B (sb_sample_iter st) -> oi_inv t B (sb_iter st) ->
  ss_loop sp m t b fuel l4 st = ss_loop sp' m' t b fuel l4 st.
Proof.
  intros H. induction fuel as [|fuel IH]; intros l4 st I1 I2; cbn [ss_loop]; [reflexivity|].
  destruct (sb_sample st) as [start|]; [|reflexivity].
  rewrite <- (oi_nth_path sp m sp' m' t b B _ _ H I1).
  destruct (oi_nth_spec sp m t b B (sb_sample_iter st) (select_SUPERBLOCK_SIZE - 1) H I1) as (si & E & Isi & _).
  rewrite E. cbn [bind].
  destruct (iv_push (sb_samples st) (snd start)) as [s1| |]; cbn [bind]; try reflexivity.
  destruct (_ <=? _).
  - destruct (iv_push s1 _) as [s2| |]; cbn [bind]; try reflexivity.
    destruct (fill_long _ _ _ _ _ _ _) as [[[l' i'] v']| |] eqn:EF; cbn [bind]; try reflexivity.
    apply IH; cbn [sb_sample_iter sb_iter]; [exact Isi|].
    exact (fill_long_inv t b B H _ _ _ _ _ _ _ _ I2 EF).
  - destruct (iv_push s1 _) as [s2| |]; cbn [bind]; try reflexivity.
    match goal with |- context [fill_short sp m t b ?n ?s ?sh ?it ?v] =>
      destruct (fill_short_path sp m sp' m' t b B H n s sh it v I2) as [P Q] end.
    rewrite <- P.
    destruct (fill_short sp m t b _ _ _ _ _) as [[[l' i'] v']| |] eqn:EF; cbn [bind]; try reflexivity.
    apply IH; cbn [sb_sample_iter sb_iter]; [exact Isi|]. exact (Q _ _ _ eq_refl).
Qed.

Theorem select_new_path : forall sp m sp' m' t b B, bv_repr b B ->
  select_new sp m t b = select_new sp' m' t b.
Proof.
  intros sp m sp' m' t b B H. unfold select_new. destruct (oi_start_inv t b B H) as [I0 _].
  destruct (oi_next_spec t b B _ H I0) as (i1 & E1 & I1 & _). rewrite E1. cbn [bind].
  rewrite (ss_loop_path sp m sp' m' t b B H) by (cbn [sb_sample_iter sb_iter]; exact I1). reflexivity.
Qed.

Lemma sel_of_path sp m sp' m' t b B : bv_repr b B -> sel_of sp m t b = sel_of sp' m' t b.
Proof. intros H. unfold sel_of. rewrite (select_new_path sp m sp' m' t b B H). reflexivity. Qed.

Theorem select_ok_path : forall sp m sp' m' t b B, bv_repr b B -> select_ok sp m t b B -> select_ok sp' m' t b B.
Proof.
  intros sp m sp' m' t b B H (s & E & Hn). exists s. split; [exact E|].
  rewrite <- (select_new_path sp m sp' m' t b B H). exact Hn.
Qed.

Theorem supports_ok_path : forall sp m sp' m' b B, bv_repr b B -> supports_ok sp m b B -> supports_ok sp' m' b B.
Proof.
  intros sp m sp' m' b B H (Hr & Hs & Hz). split; [exact Hr|].
  split; intros N; apply (select_ok_path sp m sp' m' _ b B H); auto.
Qed.

Theorem bv_enable_select_t_path : forall sp m sp' m' t b B, bv_repr b B ->
  bv_enable_select_t sp m t b = bv_enable_select_t sp' m' t b.
Proof.
  intros sp m sp' m' t b B H. unfold bv_enable_select_t.
  rewrite (select_new_path sp m sp' m' t b B H). reflexivity.
Qed.

Lemma bv_with_path sp m sp' m' hr hs hz b B : bv_repr b B ->
  bv_with sp m hr hs hz b = bv_with sp' m' hr hs hz b.
Proof.
  intros H. unfold bv_with.
  rewrite (sel_of_path sp m sp' m' Identity b B H), (sel_of_path sp m sp' m' Complement b B H). reflexivity.
Qed.

Theorem enable_ops_path : forall sp m sp' m' B ops b, bv_repr b B ->
  enable_ops sp m ops b = enable_ops sp' m' ops b.
Proof.
  intros sp m sp' m' B ops b H.
  rewrite (enable_ops_closed sp m B ops b H), (enable_ops_closed sp' m' B ops b H).
  rewrite (bv_with_path sp m sp' m' _ _ _ b B H). reflexivity.
Qed.

Theorem bv_enable_all_path : forall sp m sp' m' b B, bv_repr b B ->
  bv_enable_all sp m b = bv_enable_all sp' m' b.
Proof. intros sp m sp' m' b B H. rewrite !bv_enable_all_ops. exact (enable_ops_path sp m sp' m' B _ b H). Qed.

(* strongest forms of the two canonicity theorems: the supports present may have been built on any select
   path / in any mode (sp0, m0), the two enable_all may run on different ones *)
Theorem bv_enable_all_subset_any : forall sp0 m0 sp m sp' m' b B, bv_repr b B -> supports_ok sp0 m0 b B ->
  bv_enable_all sp m b = bv_enable_all sp' m' (bv_strip b).
Proof.
  intros sp0 m0 sp m sp' m' b B H Hok.
  rewrite (bv_enable_all_subset sp m b B H (supports_ok_path sp0 m0 sp m b B H Hok)).
  exact (bv_enable_all_path sp m sp' m' _ B (bv_repr_same _ _ B (bv_strip_same b) H)).
Qed.

Theorem bv_enable_all_canonical_any : forall sp1 m1 sp2 m2 sp m sp' m' b1 b2 B,
  bv_repr b1 B -> bv_repr b2 B -> supports_ok sp1 m1 b1 B -> supports_ok sp2 m2 b2 B ->
  bv_enable_all sp m b1 = bv_enable_all sp' m' b2.
Proof.
  intros sp1 m1 sp2 m2 sp m sp' m' b1 b2 B H1 H2 K1 K2.
  rewrite (bv_enable_all_path sp' m' sp m b2 B H2).
  exact (bv_enable_all_canonical sp m b1 b2 B H1 H2 (supports_ok_path sp1 m1 sp m b1 B H1 K1)
           (supports_ok_path sp2 m2 sp m b2 B H2 K2)).
Qed.

(* every support set of a valid vector is a sub-record of the canonical full one: enabling the missing
   operations in any order, on any path, reaches it *)
Theorem enable_ops_reach_full : forall sp0 m0 sp m sp' m' B ops b, bv_repr b B -> supports_ok sp0 m0 b B ->
  (forall o, has_op o ops = true) ->
  enable_ops sp m ops b = Ok (bv_full sp' m' (bv_strip b)).
Proof.
  intros sp0 m0 sp m sp' m' B ops b H Hok Hall.
  rewrite (enable_ops_any_order sp m B ops b H Hall).
  rewrite (bv_enable_all_subset_any sp0 m0 sp m sp' m' b B H Hok).
  exact (bv_enable_all_closed sp' m' _ B (bv_repr_same _ _ B (bv_strip_same b) H)).
Qed.

(* general form of [bv_enable_all_gen]: the supports present were built on (sp0, m0), enable_all runs on (sp, m),
   the queries on (sp', m') *)
Theorem bv_enable_all_gen_any : forall sp0 m0 sp m b B, bv_repr b B -> supports_ok sp0 m0 b B ->
  exists b', bv_enable_all sp m b = Ok b' /\ b' = bv_full sp m (bv_strip b) /\ bv_same b b' /\
    bv_repr b' B /\ rank_ok b' B /\ select_ok sp m Identity b' B /\ select_ok sp m Complement b' B /\
    (forall sp' m', bv_queries_ok sp' m' b' B) /\ (forall sp' m', bv_select_ok sp' m' b' B).
Proof.
  intros sp0 m0 sp m b B H Hok.
  exact (bv_enable_all_gen sp m b B H (supports_ok_path sp0 m0 sp m b B H Hok)).
Qed.
