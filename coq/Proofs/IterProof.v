(* Proofs about Model/Iters.v: every iterator model refines the deque specification of Spec/Deque.v
   call by call, hence (lifting theorem) over every finite call sequence.
     - slices of a list by N positions
     - the std default nth / nth_back over any refining next / next_back
     - AccessIter over anything whose get agrees with a list (IntVector instance), IntoIter
     - bit_vector::Iter over a represented bit sequence
     - bit_vector::OneIter<T> from the four one-step facts about oi_next_f / oi_nth / oi_next_back / oi_len *)
From Coq Require Import NArith List Lia ZArith Bool.
Require Import SDS.Model.Mach SDS.Model.Bits SDS.Model.Raw SDS.Model.IntVec SDS.Model.BitVec SDS.Model.Iters.
Require Import SDS.Spec.BitSeq SDS.Spec.SeqSpec SDS.Spec.Deque SDS.Spec.IterRefs.
Require Import SDS.Proofs.BitsProof SDS.Proofs.RawProof SDS.Proofs.IntVecProof SDS.Proofs.BVCommon SDS.Proofs.RankProof.
Import ListNotations.
Open Scope N_scope.
Require Import ZifyBool ZifyN ZifyNat.
Ltac Zify.zify_post_hook ::= Z.div_mod_to_equations.
Arguments N.add : simpl never. Arguments N.sub : simpl never. Arguments N.mul : simpl never.
Arguments N.eqb : simpl never. Arguments N.ltb : simpl never. Arguments N.leb : simpl never.
Arguments N.pow : simpl never. Arguments N.min : simpl never. Arguments N.max : simpl never.

(* ================================================================ 1. slices *)

(* the items at positions a .. b-1 *)
Definition slice {A} (l : list A) (a b : N) : list A := firstn (N.to_nat (b - a)) (skipn (N.to_nat a) l).

Lemma slice_empty {A} (l : list A) a b : b <= a -> slice l a b = [].
Proof. intros H. unfold slice. replace (N.to_nat (b - a)) with 0%nat by lia. reflexivity. Qed.

Lemma slice_all {A} (l : list A) : slice l 0 (lenA l) = l.
Proof. unfold slice, lenA. cbn [N.to_nat skipn]. apply firstn_all2. lia. Qed.

Lemma lenA_slice {A} (l : list A) a b : b <= lenA l -> lenA (slice l a b) = b - a.
Proof. unfold slice, lenA. rewrite firstn_length, skipn_length. lia. Qed.

Lemma firstn_add {A} (l : list A) : forall m1 m2,
  firstn (m1 + m2) l = firstn m1 l ++ firstn m2 (skipn m1 l).
Proof.
  induction l as [|x t IH]; intros m1 m2.
  - rewrite !firstn_nil, skipn_nil, firstn_nil. reflexivity.
  - destruct m1 as [|m1]; [reflexivity|].
    cbn [Nat.add firstn skipn app]. rewrite IH. reflexivity.
Qed.

Lemma skipn_skipn_add {A} (l : list A) : forall m n, skipn n (skipn m l) = skipn (m + n) l.
Proof.
  induction l as [|x t IH]; intros m n.
  - rewrite !skipn_nil. reflexivity.
  - destruct m as [|m]; [reflexivity|]. cbn [Nat.add skipn]. apply IH.
Qed.

Lemma slice_app {A} (l : list A) a c b : a <= c -> c <= b -> slice l a b = slice l a c ++ slice l c b.
Proof.
  intros H1 H2. unfold slice.
  replace (N.to_nat (b - a)) with (N.to_nat (c - a) + N.to_nat (b - c))%nat by lia.
  rewrite firstn_add. f_equal. f_equal. rewrite skipn_skipn_add. f_equal. lia.
Qed.

Lemma slice_cons {A} (l : list A) c b x :
  c < b -> nth_error l (N.to_nat c) = Some x -> slice l c b = x :: slice l (c + 1) b.
Proof.
  intros H Hx. unfold slice. rewrite (skipn_nth_error l _ x Hx).
  replace (N.to_nat (b - c)) with (S (N.to_nat (b - (c + 1)))) by lia.
  cbn [firstn]. f_equal. f_equal. f_equal. lia.
Qed.

Lemma slice_split {A} (l : list A) a c b x :
  a <= c -> c < b -> nth_error l (N.to_nat c) = Some x ->
  slice l a b = slice l a c ++ x :: slice l (c + 1) b.
Proof.
  intros H1 H2 Hx. rewrite (slice_app l a c b) by lia. rewrite (slice_cons l c b x) by assumption. reflexivity.
Qed.

Lemma slice_snoc {A} (l : list A) a b x :
  a < b -> nth_error l (N.to_nat (b - 1)) = Some x -> slice l a b = slice l a (b - 1) ++ [x].
Proof.
  intros H Hx. rewrite (slice_split l a (b - 1) b x) by (lia || assumption).
  rewrite (slice_empty l (b - 1 + 1) b) by lia. reflexivity.
Qed.

Lemma hd_error_skipn {A} (l : list A) : forall n, hd_error (skipn n l) = nth_error l n.
Proof.
  induction l as [|x t IH]; intros [|n]; try reflexivity. cbn [skipn nth_error]. apply IH.
Qed.

Lemma tl_skipn {A} (l : list A) : forall n, tl (skipn n l) = skipn (S n) l.
Proof.
  induction l as [|x t IH]; intros [|n]; try reflexivity. cbn [skipn]. rewrite IH. reflexivity.
Qed.

Lemma removelast_rev_tl {A} (l : list A) : removelast l = rev (tl (rev l)).
Proof.
  induction l as [|x t _] using rev_ind; [reflexivity|].
  rewrite removelast_last, rev_app_distr. cbn [rev app tl]. rewrite rev_involutive. reflexivity.
Qed.

(* ================================================================ 2. the std default nth *)

Section StdNth.
Context {St A : Type}.
Variable nx : St -> res (St * option A).
Variable rep : St -> list A -> Prop.
Hypothesis Hnx : forall s l, rep s l -> exists s', nx s = Ok (s', hd_error l) /\ rep s' (tl l).

Lemma std_advance_ok : forall fuel s l n, rep s l -> (length l < fuel)%nat ->
  exists s', std_advance nx fuel s n = Ok (s', n <=? lenA l) /\ rep s' (skipn (N.to_nat n) l).
Proof.
  induction fuel as [|f IH]; intros s l n Hr Hf; [lia|].
  cbn [std_advance]. destruct (N.eqb_spec n 0) as [->|Hn].
  - exists s. replace (0 <=? lenA l) with true by lia. split; [reflexivity|exact Hr].
  - destruct (Hnx s l Hr) as (s1 & E & Hr1). rewrite E. cbn [bind].
    destruct l as [|x t]; cbn [hd_error tl] in *.
    + exists s1. replace (n <=? lenA []) with false by (unfold lenA; cbn [length]; lia).
      rewrite skipn_nil. split; [reflexivity|exact Hr1].
    + destruct (IH s1 t (n - 1) Hr1 ltac:(cbn [length] in Hf; lia)) as (s2 & E2 & Hr2).
      exists s2. rewrite E2. split.
      * f_equal. f_equal. rewrite lenA_cons. lia.
      * replace (N.to_nat n) with (S (N.to_nat (n - 1))) by lia. exact Hr2.
Qed.

(* with enough fuel (more than the number of items left) nth(n) is: drop n, pop the next one *)
Lemma std_nth_ok fuel s l n : rep s l -> (length l < fuel)%nat ->
  exists s', std_nth nx fuel s n = Ok (s', snd (dq_front l n)) /\ rep s' (fst (dq_front l n)).
Proof.
  intros Hr Hf. unfold std_nth.
  destruct (std_advance_ok fuel s l n Hr Hf) as (s1 & E & Hr1). rewrite E. cbn [bind].
  rewrite dq_front_spec. cbn [fst snd].
  destruct (N.leb_spec n (lenA l)) as [H|H].
  - destruct (Hnx s1 _ Hr1) as (s2 & E2 & Hr2). exists s2. rewrite E2.
    rewrite hd_error_skipn in *. rewrite tl_skipn in Hr2. split; [reflexivity|exact Hr2].
  - exists s1. unfold lenA in H.
    replace (nth_error l (N.to_nat n)) with (@None A) by (symmetry; apply nth_error_None; lia).
    rewrite skipn_all2 in Hr1 by lia. rewrite skipn_all2 by lia. split; [reflexivity|exact Hr1].
Qed.
End StdNth.

(* ================================================================ 3. AccessIter and IntoIter *)

Section CursorProof.
Context {A : Type}.
Variable get : N -> res A.
Variable L : list A.
(* parent.get agrees with the item list on every valid index *)
Hypothesis Hget : forall i, i < lenA L -> exists x, get i = Ok x /\ nth_error L (N.to_nat i) = Some x.

Definition cur_inv (it : cursor) : Prop := c_next it <= c_limit it /\ c_limit it <= lenA L.
Definition cur_abs (it : cursor) : list A := slice L (c_next it) (c_limit it).

Lemma cur_start_ok : cur_inv (cur_start (lenA L)) /\ cur_abs (cur_start (lenA L)) = L.
Proof. unfold cur_inv, cur_abs, cur_start. cbn [c_next c_limit]. split; [lia|apply slice_all]. Qed.

Lemma cur_next_ok it : cur_inv it ->
  exists it', cur_next get it = Ok (it', snd (dq_front (cur_abs it) 0)) /\ cur_inv it' /\
              cur_abs it' = fst (dq_front (cur_abs it) 0).
Proof.
  destruct it as [a b]. unfold cur_inv, cur_abs, cur_next. cbn [c_next c_limit]. intros [H1 H2].
  destruct (N.leb_spec b a) as [H|H].
  - exists (mkcur a b). rewrite slice_empty by lia. rewrite dq_front_nil. cbn [fst snd c_next c_limit].
    split; [reflexivity|]. split; [lia|]. apply slice_empty. lia.
  - destruct (Hget a) as (x & E & Hx); [lia|]. rewrite E. cbn [bind]. exists (mkcur (a + 1) b).
    rewrite (slice_cons L a b x) by assumption. rewrite dq_front_cons. cbn [fst snd c_next c_limit].
    split; [reflexivity|]. split; [lia|reflexivity].
Qed.

Lemma cur_nth_ok it k : cur_inv it ->
  exists it', cur_nth get it k = Ok (it', snd (dq_front (cur_abs it) k)) /\ cur_inv it' /\
              cur_abs it' = fst (dq_front (cur_abs it) k).
Proof.
  destruct it as [a b]. intros [H1 H2]. cbn [c_next c_limit] in H1, H2. unfold cur_nth. cbn [c_next c_limit].
  destruct (cur_next_ok (mkcur (a + N.min k (b - a)) b)) as (it' & E & Hi & Ha).
  { split; cbn [c_next c_limit]; lia. }
  exists it'. rewrite E. unfold cur_abs in *. cbn [c_next c_limit] in *. rewrite Ha.
  assert (dq_front (slice L (a + N.min k (b - a)) b) 0 = dq_front (slice L a b) k) as ->; [|auto].
  destruct (N.ltb_spec k (b - a)) as [H|H].
  - replace (N.min k (b - a)) with k by lia. destruct (Hget (a + k)) as (x & _ & Hx); [lia|].
    rewrite (slice_split L a (a + k) b x) by (lia || assumption).
    rewrite (slice_cons L (a + k) b x) by (lia || assumption).
    rewrite dq_front_cons. symmetry. apply dq_front_app. rewrite lenA_slice by lia. lia.
  - replace (N.min k (b - a)) with (b - a) by lia. replace (a + (b - a)) with b by lia.
    rewrite slice_empty by lia. rewrite dq_front_nil. symmetry. apply dq_front_none.
    rewrite lenA_slice by lia. lia.
Qed.

Lemma cur_next_back_ok it : cur_inv it ->
  exists it', cur_next_back get it = Ok (it', snd (dq_front (rev (cur_abs it)) 0)) /\ cur_inv it' /\
              rev (cur_abs it') = fst (dq_front (rev (cur_abs it)) 0).
Proof.
  destruct it as [a b]. unfold cur_inv, cur_abs, cur_next_back. cbn [c_next c_limit]. intros [H1 H2].
  destruct (N.leb_spec b a) as [H|H].
  - exists (mkcur a b). rewrite slice_empty by lia. cbn [rev]. rewrite dq_front_nil. cbn [fst snd c_next c_limit].
    split; [reflexivity|]. split; [lia|]. rewrite slice_empty by lia. reflexivity.
  - destruct (Hget (b - 1)) as (x & E & Hx); [lia|]. rewrite E. cbn [bind]. exists (mkcur a (b - 1)).
    rewrite (slice_snoc L a b x) by assumption. rewrite rev_app_distr. cbn [rev app].
    rewrite dq_front_cons. cbn [fst snd c_next c_limit].
    split; [reflexivity|]. split; [lia|reflexivity].
Qed.

Lemma cur_nth_back_ok it k : cur_inv it ->
  exists it', cur_nth_back get it k = Ok (it', snd (dq_front (rev (cur_abs it)) k)) /\ cur_inv it' /\
              rev (cur_abs it') = fst (dq_front (rev (cur_abs it)) k).
Proof.
  destruct it as [a b]. intros [H1 H2]. cbn [c_next c_limit] in H1, H2. unfold cur_nth_back. cbn [c_next c_limit].
  destruct (cur_next_back_ok (mkcur a (b - N.min k (b - a)))) as (it' & E & Hi & Ha).
  { split; cbn [c_next c_limit]; lia. }
  exists it'. rewrite E. unfold cur_abs in *. cbn [c_next c_limit] in *. rewrite Ha.
  assert (dq_front (rev (slice L a (b - N.min k (b - a)))) 0 = dq_front (rev (slice L a b)) k) as ->; [|auto].
  destruct (N.ltb_spec k (b - a)) as [H|H].
  - replace (N.min k (b - a)) with k by lia. destruct (Hget (b - k - 1)) as (x & _ & Hx); [lia|].
    rewrite (slice_split L a (b - k - 1) b x) by (lia || assumption).
    rewrite (slice_snoc L a (b - k) x) by (try lia; replace (b - k - 1) with (b - k - 1) by lia; exact Hx).
    rewrite !rev_app_distr. cbn [rev app]. rewrite <- app_assoc. cbn [app].
    rewrite dq_front_cons. symmetry. apply dq_front_app. rewrite lenA_rev, lenA_slice by lia. lia.
  - replace (N.min k (b - a)) with (b - a) by lia. replace (b - (b - a)) with a by lia.
    rewrite slice_empty by lia. cbn [rev]. rewrite dq_front_nil. symmetry. apply dq_front_none.
    rewrite lenA_rev, lenA_slice by lia. lia.
Qed.

Lemma cur_len_ok it : cur_inv it -> cur_len it = lenA (cur_abs it).
Proof. intros [H1 H2]. unfold cur_len, cur_abs. rewrite lenA_slice by lia. reflexivity. Qed.

(* every call with every argument: the deque's output, the deque's remainder, the invariant again *)
Theorem cur_step_refines : step_refines (cur_step get) cur_abs cur_inv (fun _ => True).
Proof.
  intros it c Hinv _. destruct c as [| |k|k|]; cbn [cur_step dq_step].
  - destruct (cur_next_ok it Hinv) as (it' & E & Hi & Ha). rewrite E. cbn [bind].
    destruct (dq_front (cur_abs it) 0) as [l' o]. cbn [fst snd] in *. eauto.
  - destruct (cur_next_back_ok it Hinv) as (it' & E & Hi & Ha). rewrite E. cbn [bind].
    destruct (dq_front (rev (cur_abs it)) 0) as [l' o]. cbn [fst snd] in *.
    exists it'. split; [reflexivity|]. split; [exact Hi|]. rewrite <- Ha. symmetry. apply rev_involutive.
  - destruct (cur_nth_ok it k Hinv) as (it' & E & Hi & Ha). rewrite E. cbn [bind].
    destruct (dq_front (cur_abs it) k) as [l' o]. cbn [fst snd] in *. eauto.
  - destruct (cur_nth_back_ok it k Hinv) as (it' & E & Hi & Ha). rewrite E. cbn [bind].
    destruct (dq_front (rev (cur_abs it)) k) as [l' o]. cbn [fst snd] in *.
    exists it'. split; [reflexivity|]. split; [exact Hi|]. rewrite <- Ha. symmetry. apply rev_involutive.
  - exists it. rewrite (cur_len_ok it Hinv). auto.
Qed.

(* all call histories from iter() *)
Theorem cur_run_refines cs :
  exists it', it_run (cur_step get) (cur_start (lenA L)) cs = Ok (it', snd (dq_run L cs)) /\
              cur_inv it' /\ cur_abs it' = fst (dq_run L cs).
Proof.
  destruct cur_start_ok as [Hi Ha].
  destruct (lifting (cur_step get) cur_abs cur_inv (fun _ => True) cur_step_refines cs _ Hi) as (it' & E & Hi' & Ha').
  { apply Forall_forall. auto. }
  rewrite Ha in *. eauto.
Qed.

(* ---- IntoIter: the state is the index ---- *)

Definition into_inv (i : N) : Prop := i <= lenA L.
Definition into_abs (i : N) : list A := slice L i (lenA L).

Lemma into_next_ok i l : into_inv i /\ into_abs i = l ->
  exists i', into_next get (lenA L) i = Ok (i', hd_error l) /\ (into_inv i' /\ into_abs i' = tl l).
Proof.
  unfold into_inv, into_abs, into_next. intros [Hi <-].
  destruct (N.leb_spec (lenA L) i) as [H|H].
  - exists i. rewrite slice_empty by lia. cbn [hd_error tl]. auto.
  - destruct (Hget i) as (x & E & Hx); [lia|]. rewrite E. cbn [bind]. exists (i + 1).
    rewrite (slice_cons L i (lenA L) x) by assumption. cbn [hd_error tl]. split; [reflexivity|]. split; [lia|reflexivity].
Qed.

Theorem into_step_refines : step_refines (into_step get (lenA L)) into_abs into_inv call_fwd.
Proof.
  intros i c Hinv Hc. destruct c as [| |k|k|]; cbn [call_fwd] in Hc; try contradiction; cbn [into_step dq_step].
  - destruct (into_next_ok i _ (conj Hinv eq_refl)) as (i' & E & Hi & Ha). rewrite E. cbn [bind].
    rewrite dq_front_0. cbn [fst snd]. eauto.
  - destruct (std_nth_ok (into_next get (lenA L)) (fun i l => into_inv i /\ into_abs i = l) into_next_ok
                (S (N.to_nat (into_len (lenA L) i))) i (into_abs i) k (conj Hinv eq_refl))
      as (i' & E & Hi & Ha).
    { unfold into_len. pose proof (lenA_slice L i (lenA L) ltac:(lia)) as Hl. unfold into_abs.
      unfold lenA in Hl at 1. lia. }
    rewrite E. cbn [bind]. destruct (dq_front (into_abs i) k) as [l' o]. cbn [fst snd] in *. eauto.
  - exists i. unfold into_len, into_abs. rewrite lenA_slice by lia. auto.
Qed.

Theorem into_run_refines cs : Forall call_fwd cs ->
  exists i', it_run (into_step get (lenA L)) 0 cs = Ok (i', snd (dq_run L cs)) /\
             into_inv i' /\ into_abs i' = fst (dq_run L cs).
Proof.
  intros Hcs.
  destruct (lifting (into_step get (lenA L)) into_abs into_inv call_fwd into_step_refines cs 0) as (i' & E & Hi' & Ha');
    [unfold into_inv; lia|exact Hcs|].
  unfold into_abs in E, Ha' at 2. rewrite slice_all in *. eauto.
Qed.

End CursorProof.

(* ---- the IntVector instances ---- *)

Lemma iv_get_list v : iv_inv v ->
  forall i, i < lenA (abs_iv v) -> exists x, iv_get v i = Ok x /\ nth_error (abs_iv v) (N.to_nat i) = Some x.
Proof.
  intros Hinv i Hi. destruct (iv_repr v Hinv) as (_ & Hlen & _).
  unfold lenL in Hlen. unfold lenA in Hi.
  exists (nthn (abs_iv v) i). split; [apply iv_get_ok; [exact Hinv|lia]|].
  unfold nthn. apply nth_error_nth'. lia.
Qed.

Lemma iv_len_list v : iv_inv v -> ilen v = lenA (abs_iv v).
Proof. intros Hinv. destruct (iv_repr v Hinv) as (_ & Hlen & _). unfold lenL in Hlen. unfold lenA. lia. Qed.

Theorem ai_step_refines v : iv_inv v ->
  step_refines (ai_step v) (cur_abs (abs_iv v)) (cur_inv (abs_iv v)) (fun _ => True).
Proof. intros Hinv. apply cur_step_refines. apply iv_get_list. exact Hinv. Qed.

Theorem ai_run_refines v cs : iv_inv v ->
  exists it', it_run (ai_step v) (ai_start v) cs = Ok (it', snd (dq_run (abs_iv v) cs)) /\
              cur_inv (abs_iv v) it' /\ cur_abs (abs_iv v) it' = fst (dq_run (abs_iv v) cs).
Proof.
  intros Hinv. unfold ai_start, ai_step. rewrite (iv_len_list v Hinv).
  apply cur_run_refines. apply iv_get_list. exact Hinv.
Qed.

Theorem ivinto_run_refines v cs : iv_inv v -> Forall call_fwd cs ->
  exists i', it_run (ivinto_step v) 0 cs = Ok (i', snd (dq_run (abs_iv v) cs)) /\
             into_inv (abs_iv v) i' /\ into_abs (abs_iv v) i' = fst (dq_run (abs_iv v) cs).
Proof.
  intros Hinv Hcs. unfold ivinto_step. rewrite (iv_len_list v Hinv).
  apply into_run_refines; [apply iv_get_list; exact Hinv|exact Hcs].
Qed.

(* ================================================================ 4. bit_vector::Iter *)

Definition bi2cur (it : bit_iter) : cursor := mkcur (bi_next it) (bi_limit it).
Definition cur2bi (c : cursor) : bit_iter := mkbi (c_next c) (c_limit c).

(* the bit iterator IS the cursor iterator over bv_get *)
Lemma bi_step_cur b it c :
  bi_step b it c = let* (cu, o) := cur_step (bv_get b) (bi2cur it) c in Ok (cur2bi cu, o).
Proof.
  destruct it as [a l].
  assert (Hn : forall a0 l0, bi_next_f b (mkbi a0 l0) =
               let* (cu, o) := cur_next (bv_get b) (mkcur a0 l0) in Ok (cur2bi cu, o)).
  { intros a0 l0. unfold bi_next_f, cur_next. cbn [bi_next bi_limit c_next c_limit].
    destruct (l0 <=? a0); [reflexivity|]. destruct (bv_get b a0); reflexivity. }
  assert (Hb : forall a0 l0, bi_next_back b (mkbi a0 l0) =
               let* (cu, o) := cur_next_back (bv_get b) (mkcur a0 l0) in Ok (cur2bi cu, o)).
  { intros a0 l0. unfold bi_next_back, cur_next_back. cbn [bi_next bi_limit c_next c_limit].
    destruct (l0 <=? a0); [reflexivity|]. destruct (bv_get b (l0 - 1)); reflexivity. }
  destruct c as [| |k|k|]; unfold bi_step, cur_step, bi2cur, bi_nth, bi_nth_back, cur_nth, cur_nth_back;
    cbn [bi_next bi_limit c_next c_limit]; rewrite ?Hn, ?Hb.
  - destruct (cur_next (bv_get b) (mkcur a l)) as [[cu o]| |]; reflexivity.
  - destruct (cur_next_back (bv_get b) (mkcur a l)) as [[cu o]| |]; reflexivity.
  - destruct (cur_next (bv_get b) (mkcur (a + N.min k (l - a)) l)) as [[cu o]| |]; reflexivity.
  - destruct (cur_next_back (bv_get b) (mkcur a (l - N.min k (l - a)))) as [[cu o]| |]; reflexivity.
  - reflexivity.
Qed.

Definition bi_inv (B : list bool) (it : bit_iter) : Prop := bi_next it <= bi_limit it /\ bi_limit it <= lenB B.
Definition bi_abs (B : list bool) (it : bit_iter) : list bool := slice B (bi_next it) (bi_limit it).

Lemma bv_get_list b B : bv_repr b B ->
  forall i, i < lenA B -> exists x, bv_get b i = Ok x /\ nth_error B (N.to_nat i) = Some x.
Proof.
  intros Hr i Hi. pose proof (bv_len_lenB b B Hr) as Hl.
  destruct (bv_get_correct b B i Hr) as (x & E & Hx); [unfold lenB in Hl; unfold lenA in Hi; lia|].
  exists x. split; [exact E|]. rewrite <- getb_nth_error. exact Hx.
Qed.

Theorem bi_step_refines b B : bv_repr b B ->
  step_refines (bi_step b) (bi_abs B) (bi_inv B) (fun _ => True).
Proof.
  intros Hr it c Hinv _. rewrite bi_step_cur.
  destruct (cur_step_refines (bv_get b) B (bv_get_list b B Hr) (bi2cur it) c) as (cu & E & Hi & Ha);
    [exact Hinv|exact I|].
  rewrite E. cbn [bind]. exists (cur2bi cu). split; [reflexivity|]. split; [exact Hi|exact Ha].
Qed.

Theorem bi_run_refines b B cs : bv_repr b B ->
  exists it', it_run (bi_step b) (bi_start b) cs = Ok (it', snd (dq_run B cs)) /\
              bi_inv B it' /\ bi_abs B it' = fst (dq_run B cs).
Proof.
  intros Hr. pose proof (bv_len_lenB b B Hr) as Hl.
  destruct (lifting (bi_step b) (bi_abs B) (bi_inv B) (fun _ => True) (bi_step_refines b B Hr) cs (bi_start b))
    as (it' & E & Hi & Ha).
  - unfold bi_inv, bi_start. cbn [bi_next bi_limit]. lia.
  - apply Forall_forall. auto.
  - assert (H0 : bi_abs B (bi_start b) = B).
    { unfold bi_abs, bi_start. cbn [bi_next bi_limit]. rewrite Hl. apply slice_all. }
    rewrite H0 in *. eauto.
Qed.

(* ================================================================ 5. bit_vector::OneIter<T> from its one-step facts *)

Definition last_error {A} (l : list A) : option A := hd_error (rev l).

(* The four facts about the word-scanning iterator (proved in Proofs/OneIterProof.v for the relation
   "it is a valid iterator of the vector and its unvisited (rank, position) pairs are mid"). *)
Record oi_steps_ok (sp : selpath) (m : mode) (t : transf) (b : bitvec)
       (R : one_iter -> list (N * N) -> Prop) : Prop := {
  oso_next : forall it mid, R it mid ->
    exists it', oi_next_f t b it = Ok (it', hd_error mid) /\ R it' (tl mid);
  oso_next_back : forall it mid, R it mid ->
    exists it', oi_next_back m t b it = Ok (it', last_error mid) /\ R it' (removelast mid);
  oso_nth : forall it mid n, R it mid -> n < 2 ^ 64 ->
    exists it', oi_nth sp m t b it n = Ok (it', nth_error mid (N.to_nat n)) /\
                R it' (skipn (S (N.to_nat n)) mid);
  oso_len : forall it mid, R it mid -> oi_len it = lenA mid
}.

Section OneIter.
Variables (sp : selpath) (m : mode) (t : transf) (b : bitvec).
Variable R : one_iter -> list (N * N) -> Prop.
Hypothesis Hsteps : oi_steps_ok sp m t b R.

Lemma oi_back_as_front it l : R it (rev l) ->
  exists it', oi_next_back m t b it = Ok (it', hd_error l) /\ R it' (rev (tl l)).
Proof.
  intros Hr. destruct (oso_next_back _ _ _ _ _ Hsteps it _ Hr) as (it' & E & Hr').
  exists it'. unfold last_error in E. rewrite rev_involutive in E. split; [exact E|].
  rewrite removelast_rev_tl, rev_involutive in Hr'. exact Hr'.
Qed.

Theorem oi_step_refines : step_refines_rel (oi_step sp m t b) R call_fits.
Proof.
  intros it mid c Hr Hc. destruct c as [| |k|k|]; cbn [call_fits] in Hc; cbn [oi_step dq_step].
  - destruct (oso_next _ _ _ _ _ Hsteps it mid Hr) as (it' & E & Hr'). rewrite E. cbn [bind].
    rewrite dq_front_0. cbn [fst snd]. eauto.
  - destruct (oi_back_as_front it (rev mid)) as (it' & E & Hr'); [rewrite rev_involutive; exact Hr|].
    rewrite E. cbn [bind]. rewrite dq_front_0. cbn [fst snd]. eauto.
  - destruct (oso_nth _ _ _ _ _ Hsteps it mid k Hr Hc) as (it' & E & Hr'). rewrite E. cbn [bind].
    rewrite dq_front_spec. cbn [fst snd]. eauto.
  - destruct (std_nth_ok (oi_next_back m t b) (fun it l => R it (rev l)) oi_back_as_front
                (S (N.to_nat (oi_len it))) it (rev mid) k) as (it' & E & Hr').
    + rewrite rev_involutive. exact Hr.
    + rewrite (oso_len _ _ _ _ _ Hsteps it mid Hr). rewrite rev_length. unfold lenA. lia.
    + rewrite E. cbn [bind]. destruct (dq_front (rev mid) k) as [l' o]. cbn [fst snd] in *. eauto.
  - exists it. rewrite (oso_len _ _ _ _ _ Hsteps it mid Hr). auto.
Qed.

(* every finite interleaving of next / next_back / nth / nth_back / len on OneIter<T> *)
Theorem oi_run_refines cs it mid : R it mid -> Forall call_fits cs ->
  exists it', it_run (oi_step sp m t b) it cs = Ok (it', snd (dq_run mid cs)) /\ R it' (fst (dq_run mid cs)).
Proof. intros Hr Hcs. exact (lifting_rel (oi_step sp m t b) R call_fits oi_step_refines cs it mid Hr Hcs). Qed.

End OneIter.

(* ---- the record from theorems in the shape of Proofs/OneIterProof.v (invariant + abstraction function,
   N-indexed nth_opt / skipN, next_back as "empty or mid = mid' ++ [x]") ---- *)

Lemma nth_opt_nth_error {A} (l : list A) : forall n, nth_opt l n = nth_error l (N.to_nat n).
Proof.
  induction l as [|x t IH]; intros n; cbn [nth_opt].
  - destruct (N.to_nat n); reflexivity.
  - destruct (N.eqb_spec n 0) as [->|Hn]; [reflexivity|].
    replace (N.to_nat n) with (S (N.to_nat (n - 1))) by lia. cbn [nth_error]. apply IH.
Qed.

Lemma skipN_skipn {A} (l : list A) : forall n, skipN l n = skipn (N.to_nat n) l.
Proof.
  induction l as [|x t IH]; intros n; cbn [skipN].
  - rewrite skipn_nil. reflexivity.
  - destruct (N.eqb_spec n 0) as [->|Hn]; [reflexivity|].
    replace (N.to_nat n) with (S (N.to_nat (n - 1))) by lia. cbn [skipn]. apply IH.
Qed.

Lemma oi_steps_ok_intro sp m t b (inv : one_iter -> Prop) (mid : one_iter -> list (N * N)) :
  (forall it, inv it ->
     exists it', oi_next_f t b it = Ok (it', hd_error (mid it)) /\ inv it' /\ mid it' = tl (mid it)) ->
  (forall it n, inv it ->
     exists it', oi_nth sp m t b it n = Ok (it', nth_opt (mid it) n) /\ inv it' /\ mid it' = skipN (mid it) (n + 1)) ->
  (forall it, inv it ->
     (mid it = [] /\ oi_next_back m t b it = Ok (it, None)) \/
     (exists it' x, oi_next_back m t b it = Ok (it', Some x) /\ inv it' /\ mid it = mid it' ++ [x])) ->
  (forall it, inv it -> oi_len it = lenN (mid it)) ->
  oi_steps_ok sp m t b (fun it l => inv it /\ mid it = l).
Proof.
  intros Hn Hk Hb Hl. constructor.
  - intros it l [Hi <-]. destruct (Hn it Hi) as (it' & E & Hi' & Hm). eauto.
  - intros it l [Hi <-]. destruct (Hb it Hi) as [[Hm E]|(it' & x & E & Hi' & Hm)].
    + exists it. rewrite Hm, E. split; [reflexivity|]. cbn [removelast]. rewrite <- Hm. auto.
    + exists it'. rewrite E, Hm. unfold last_error. rewrite rev_app_distr. cbn [rev app hd_error].
      rewrite removelast_last. auto.
  - intros it l n [Hi <-] _. destruct (Hk it n Hi) as (it' & E & Hi' & Hm).
    exists it'. rewrite E, Hm, nth_opt_nth_error, skipN_skipn.
    replace (N.to_nat (n + 1)) with (S (N.to_nat n)) by lia. auto.
  - intros it l [Hi <-]. rewrite (Hl it Hi). reflexivity.
Qed.

(* ---- every entry point of the plain bitvector ---- *)

(* the facts about the initial states (also from Proofs/OneIterProof.v / SelectProof.v):
   R1 / R0 relate OneIter<Identity> / OneIter<Complement> states to their unvisited items *)
Definition oi_entries_ok (sp : selpath) (m : mode) (b : bitvec) (B : list bool)
           (R1 R0 : one_iter -> list (N * N) -> Prop) : Prop :=
  forall e tr it0 l, oi_entry sp m b e = Some (tr, it0) ->
    bitvec_ref B (ranked_ones B) e = Some l ->
    match e with ESelect x | ESelectZero x | EPred x | ESucc x => x < 2 ^ 64 | _ => True end ->
    exists it, it0 = Ok it /\ (match tr with Identity => R1 | Complement => R0 end) it l.

Theorem oi_entries_run_refine sp m b B R1 R0 :
  oi_steps_ok sp m Identity b R1 -> oi_steps_ok sp m Complement b R0 -> oi_entries_ok sp m b B R1 R0 ->
  forall e tr it0 l cs, oi_entry sp m b e = Some (tr, it0) ->
    bitvec_ref B (ranked_ones B) e = Some l ->
    match e with ESelect x | ESelectZero x | EPred x | ESucc x => x < 2 ^ 64 | _ => True end ->
    Forall call_fits cs ->
    exists it it', it0 = Ok it /\ it_run (oi_step sp m tr b) it cs = Ok (it', snd (dq_run l cs)).
Proof.
  intros H1 H0 He e tr it0 l cs Ee El Hx Hcs.
  destruct (He e tr it0 l Ee El Hx) as (it & -> & Hr). exists it.
  destruct tr.
  - destruct (oi_run_refines sp m Identity b R1 H1 cs it l Hr Hcs) as (it' & E & _). eauto.
  - destruct (oi_run_refines sp m Complement b R0 H0 cs it l Hr Hcs) as (it' & E & _). eauto.
Qed.

Lemma oi_entries_ok_intro sp m b B (inv1 inv0 : one_iter -> Prop) (mid1 mid0 : one_iter -> list (N * N)) :
  (inv1 (oi_start Identity b) /\ mid1 (oi_start Identity b) = ranked_ones B) ->
  (inv0 (oi_start Complement b) /\ mid0 (oi_start Complement b) = ranked_zeros B) ->
  (forall r, r < 2 ^ 64 -> exists it, bv_select_iter_t sp m Identity b r = Ok it /\ inv1 it /\
                                      mid1 it = skipN (ranked_ones B) r) ->
  (forall r, r < 2 ^ 64 -> exists it, bv_select_iter_t sp m Complement b r = Ok it /\ inv0 it /\
                                      mid0 it = skipN (ranked_zeros B) r) ->
  (forall v, v < 2 ^ 64 -> exists it, bv_predecessor sp m b v = Ok it /\ inv1 it /\ mid1 it = pred_suffix B v) ->
  (forall v, v < 2 ^ 64 -> exists it, bv_successor sp m b v = Ok it /\ inv1 it /\ mid1 it = succ_suffix B v) ->
  oi_entries_ok sp m b B (fun it l => inv1 it /\ mid1 it = l) (fun it l => inv0 it /\ mid0 it = l).
Proof.
  intros H1 H0 Hs1 Hs0 Hp Hs e tr it0 l Ee El Hx.
  destruct e; cbn [oi_entry] in Ee; try discriminate; injection Ee as <- <-;
    cbn [bitvec_ref ones_ref zeros_ref] in El; injection El as <-.
  - eexists. split; [reflexivity|exact H1].
  - eexists. split; [reflexivity|exact H0].
  - destruct (Hs1 r Hx) as (it & E & Hi & Hm). eauto.
  - destruct (Hs0 r Hx) as (it & E & Hi & Hm). eauto.
  - destruct (Hp v Hx) as (it & E & Hi & Hm). eauto.
  - destruct (Hs v Hx) as (it & E & Hi & Hm). eauto.
Qed.

(* ---- ranks of a suffix of the ranked positions are consecutive ---- *)

Lemma index_from_nth {A} (l : list A) : forall i k r x,
  nth_error (index_from l i) k = Some (r, x) -> r = i + N.of_nat k /\ nth_error l k = Some x.
Proof.
  induction l as [|y t IH]; intros i [|k] r x H; cbn [index_from nth_error] in H; try discriminate.
  - injection H as <- <-. split; [lia|reflexivity].
  - destruct (IH (i + 1) k r x H) as [H1 H2]. split; [lia|exact H2].
Qed.

Lemma skipN_index_from {A} (l : list A) : forall i n,
  skipN (index_from l i) n = index_from (skipN l n) (i + N.min n (lenA l)).
Proof.
  induction l as [|y t IH]; intros i n.
  - cbn [index_from skipN]. reflexivity.
  - cbn [index_from skipN]. destruct (N.eqb_spec n 0) as [->|Hn].
    + cbn [index_from]. replace (i + N.min 0 (lenA (y :: t))) with i by lia. reflexivity.
    + rewrite IH. rewrite lenA_cons. f_equal. lia.
Qed.
