(* C07, READ direction for RLVector: the file the document's writer produces for (len, maximal runs) - greedy packing
   into 64-unit blocks, padding, samples at the minimal width; the document leaves the writer no freedom here - is
   ELEMENT FOR ELEMENT the file the model of the crate writes for the vector built from those runs
   ([rl_doc_is_model]); the loader's round trip for built vectors (Proofs/SerRL.v: the three SampleIndexes are rebuilt
   from the samples) then applies to the document's bytes, and the loaded value is the built vector, for which C03
   proves every query exact. Integer vectors are canonical (IntVecProof.iv_canonical), which turns "same width and
   same items" into "same element list". *)
From Coq Require Import NArith List Lia ZArith Bool.
Require Import SDS.Model.Mach SDS.Model.Bits SDS.Model.Raw SDS.Model.IntVec SDS.Model.RL SDS.gen.Consts SDS.gen.Funs.
Require Import SDS.Spec.SeqSpec SDS.Spec.Runs SDS.Spec.Stream.
Require Import SDS.Proofs.BitsProof SDS.Proofs.RawProof SDS.Proofs.IntVecProof.
Require Import SDS.Proofs.RLIntVec SDS.Proofs.RLVarint SDS.Proofs.RLIndex SDS.Proofs.RLRep SDS.Proofs.RunsLemmas
               SDS.Proofs.RLBuild SDS.Proofs.RLGreedy.
Require SDS.Spec.Format SDS.Proofs.FormatProof SDS.Proofs.FormatRL SDS.Proofs.FormatConform SDS.Proofs.SerRL.
Require SDS.Model.Ser SDS.Proofs.SerProof SDS.Proofs.SerTypes SDS.Proofs.RLQuery SDS.Proofs.RLProof.
Require Import SDS.Proofs.FormatRLModel SDS.Proofs.FormatRead.
Import ListNotations.
Open Scope N_scope.
Require Import ZifyBool ZifyN ZifyNat.
Ltac Zify.zify_post_hook ::= Z.div_mod_to_equations.
Arguments N.add : simpl never. Arguments N.sub : simpl never. Arguments N.mul : simpl never.
Arguments N.eqb : simpl never. Arguments N.ltb : simpl never. Arguments N.leb : simpl never.
Arguments N.pow : simpl never. Arguments N.shiftl : simpl never. Arguments N.shiftr : simpl never.
Arguments N.land : simpl never. Arguments N.lor : simpl never. Arguments N.div : simpl never.
Arguments N.modulo : simpl never. Arguments N.ones : simpl never. Arguments N.testbit : simpl never.
Arguments N.min : simpl never. Arguments N.max : simpl never. Arguments N.log2 : simpl never.

Module F := SDS.Spec.Format.
Module FP := SDS.Proofs.FormatProof.
Module FR := SDS.Proofs.FormatRL.

(* ================================================================ 1. integer vectors are what the document writes *)

Lemma iv_is_iv_of v : iv_inv v -> v = iv_of (iwidth v) (abs_iv v).
Proof.
  intros H. pose proof (iv_items_fit v H) as Hf. pose proof H as (Hw & _).
  destruct (iv_of_inv (iwidth v) (abs_iv v) Hw Hf) as [Hinv Habs].
  apply iv_canonical; [exact H|exact Hinv|]. unfold abs_is. rewrite Habs. reflexivity.
Qed.

Lemma iv_serialize_doc v : iv_inv v -> iv_serialize v = F.doc_encode_int (iwidth v) (abs_iv v).
Proof. intros H. rewrite (iv_is_iv_of v H) at 1. apply iv_of_serialize. Qed.

(* ================================================================ 2. maximal runs *)

Lemma maximal_from_of_maximal t : forall s l, runs_maximal false (s + l) t -> maximal_from (s, l) t = (s, l) :: t.
Proof.
  induction t as [|[s' l'] t IH]; intros s l H; [reflexivity|].
  cbn [runs_maximal] in H. destruct H as (H1 & H2 & H3). cbn [maximal_from fst snd].
  replace (s + l =? s') with false by lia. f_equal. apply IH. exact H3.
Qed.

Lemma maximal_of_maximal runs first from : runs_maximal first from runs -> maximal runs = runs.
Proof.
  destruct runs as [|[s l] t]; [reflexivity|]. cbn [runs_maximal maximal]. intros (_ & _ & H).
  apply maximal_from_of_maximal. exact H.
Qed.

Lemma sorted_of_maximal runs : forall first from, runs_maximal first from runs -> runs_sorted from runs.
Proof.
  induction runs as [|[s l] t IH]; intros first from H; [exact I|].
  cbn [runs_maximal runs_sorted] in *. destruct H as (H1 & H2 & H3).
  split; [destruct first; lia|]. split; [exact H2|]. eapply IH. exact H3.
Qed.

(* ================================================================ 3. the document's file IS the model's file *)

Theorem rl_doc_is_model m R L :
  runs_sorted 0 R -> runs_end R <= L -> L <= 2 ^ 64 - 1 -> lenN R < 2 ^ 55 ->
  exists v,
    rl_build m (RLProof.rl_ops R L) = Ok (v, map (fun _ => true) R ++ [true]) /\
    Ser.c_wf (Ser.rl_codec m) v /\
    rl_serialize v = F.doc_encode_rl (L, maximal R).
Proof.
  intros Hs He HL Hn.
  destruct (SerRL.rl_built_wf m R L Hs He HL Hn) as (v0 & Hb0 & Hwf).
  pose proof (RLProof.maximal_spec R Hs) as (Hmax & Hmend & _).
  apply runs_srt_sorted in Hs. rewrite runs_end_spec in He.
  assert (H56 : lenN R < 2 ^ 56) by (assert (2 ^ 55 < 2 ^ 56) by reflexivity; lia).
  destruct (rl_build_g m R L Hs He ltac:(lia) H56) as (v & BS & Hb & Hok & HG & Hw & HF).
  assert (v0 = v) by (rewrite RLProof.rl_ops_build in Hb0; rewrite Hb in Hb0; inversion Hb0; reflexivity). subst v0.
  exists v. split; [exact Hb|]. split; [exact Hwf|].
  destruct (SerRL.rl_build_inv m _ v _ Hb) as [Hsi Hdi].
  destruct Hwf as [Hfw _]. cbn [Ser.c_wf Ser.seq_codec fst snd Ser.usize_codec Ser.u64_codec Ser.iv_codec Ser.with_wf] in Hfw.
  destruct Hfw as (Hl64 & Ho64 & Hsok & Hdok).
  destruct (ok_samples _ _ _ Hok) as (w & Hrep).
  pose proof (abs_iv_of_rep _ _ _ Hsi Hrep) as Esam.
  pose proof (abs_iv_of_rep _ _ _ Hdi (ok_data _ _ _ Hok)) as Edat.
  pose proof (ok_data _ _ _ Hok) as (Hdw & _).
  pose proof (ok_runs _ _ _ Hok) as HFok. pose proof (ok_end _ _ _ Hok) as HFend. pose proof (ok_L _ _ _ Hok) as HL64.
  set (runs := maximal R) in *. set (gaps := F.run_gaps 0 runs).
  rewrite HF in HFok, HFend.
  assert (Hbd : Forall bounded runs).
  { clear - HFok HFend HL64. revert HFok HFend. generalize true as first. generalize 0 as from.
    induction runs as [|r t IH]; intros from first Hk Hend; [constructor|].
    cbn [runs_ok runs_end_from] in *. destruct Hk as (H0 & H1 & H2). pose proof (runs_ok_end _ _ _ H2).
    constructor; [unfold bounded; lia|]. eapply IH; eauto. }
  pose proof (pack_all BS true (ok_nonempty _ _ _ Hok) (ok_units _ _ _ Hok) HG) as Hpack.
  rewrite HF in Hpack. specialize (Hpack HFok Hbd). fold gaps in Hpack.
  assert (Hmw : iwidth (rl_samples v) = F.min_width (flat_samples (annot 0 0 BS))).
  { rewrite Hw. unfold F.min_width.
    pose proof (rones_le_end _ _ _ (ok_runs _ _ _ Hok)) as Hro.
    assert (Hnd_t : nondec (map ab_tail (annot 0 0 BS))).
    { apply (annot_nondec (fun o t => t)) with (first := true); [|lia|exact (ok_runs _ _ _ Hok)].
      intros o t bl first _ Hb'. eapply runs_ok_end; eauto. }
    assert (Hot : Forall (fun x => ab_ones x <= ab_tail x) (annot 0 0 BS)).
    { apply annot_ones_le_tail with (first := true); [lia|exact (ok_runs _ _ _ Hok)]. }
    rewrite (list_max_flat_samples _ _ Hot Hnd_t eq_refl).
    apply bitlen_same.
    destruct Hsok as (_ & Hiw & _). destruct Hsi as (Hw1 & _).
    destruct (N.lt_ge_cases (last (map ab_tail (annot 0 0 BS)) 0) (2 ^ 64)) as [Hlt|Hge]; [exact Hlt|].
    exfalso.
    pose proof (tails_le_end BS true 0 0 (ok_runs _ _ _ Hok)) as Hall.
    assert (last (map ab_tail (annot 0 0 BS)) 0 <= runs_end_from 0 (concat BS)).
    { apply last_Forall; [|lia]. exact Hall. }
    pose proof (ok_end _ _ _ Hok). lia. }
  unfold rl_serialize, F.doc_encode_rl. fold gaps. rewrite Hpack.
  rewrite (iv_serialize_doc _ Hsi), (iv_serialize_doc _ Hdi), Esam, Edat, Hdw, Hmw.
  rewrite (RLQuery.len_L v BS L Hok), (RLQuery.ones_F v BS L Hok), HF.
  unfold gaps. rewrite run_ones_gaps. reflexivity.
Qed.

(* ================================================================ 4. RLVector::load on the document's bytes *)

Theorem read_rl m len runs rest :
  runs_maximal true 0 runs -> runs_end runs <= len -> len < 2 ^ 64 -> lenN runs < 2 ^ 55 ->
  exists v,
    Ser.c_dec (Ser.rl_codec m) (flat_map le64 (F.doc_encode_rl (len, runs)) ++ rest) = IoOk (v, rest) /\
    rl_build m (map (fun r => BTrySet (fst r) (snd r)) runs ++ [BSetLen len]) = Ok (v, map (fun _ => true) runs ++ [true]) /\
    maximal runs = runs /\ runs_sorted 0 runs.
Proof.
  intros Hmax He HL Hn.
  pose proof (sorted_of_maximal runs true 0 Hmax) as Hs. pose proof (maximal_of_maximal runs true 0 Hmax) as Hm.
  destruct (rl_doc_is_model m runs len Hs He ltac:(lia) Hn) as (v & Hb & Hwf & Eser).
  exists v. split; [|split; [exact Hb|split; [exact Hm|exact Hs]]].
  rewrite <- Hm at 1. rewrite <- Eser, <- (SerTypes.rl_enc_elems m).
  apply (SerProof.ok_rt _ (SerTypes.rl_codec_ok m)). exact Hwf.
Qed.

(* the loaded vector is the built one, so every query of C03 is exact (load and queries by the same binary: mode m) *)
Theorem read_rl_exact m len runs rest :
  runs_maximal true 0 runs -> runs_end runs <= len -> len < 2 ^ 64 -> lenN runs < 2 ^ 55 ->
  exists v,
    Ser.c_dec (Ser.rl_codec m) (flat_map le64 (F.doc_encode_rl (len, runs)) ++ rest) = IoOk (v, rest) /\
    rl_len v = len /\ rl_ones v = runs_ones runs /\ rl_count_zeros v = len - runs_ones runs /\
    rl_runs m v = Ok (runs_with_pos 0 runs) /\
    (forall i, i < len -> rl_get m v i = Ok (runs_get runs i)) /\
    (forall i, i < 2 ^ 64 -> rl_rank m v i = Ok (runs_rank runs i)) /\
    (forall i, i < 2 ^ 64 -> rl_rank_zero m v i = Ok (i - runs_rank runs i)) /\
    (forall r, r < 2 ^ 64 -> rl_select m v r = Ok (runs_select runs r)) /\
    (forall r, r < 2 ^ 64 -> rl_select_zero m v r = Ok (runs_select_zero runs len r)) /\
    (forall x, x < 2 ^ 64 -> oi_first m v (rl_predecessor m v x) = Ok (runs_pred runs x)) /\
    (forall x, x < 2 ^ 64 -> oi_first m v (rl_successor m v x) = Ok (runs_succ runs x)).
Proof.
  intros Hmax He HL Hn. destruct (read_rl m len runs rest Hmax He HL Hn) as (v & Hd & Hb & Hm & Hs).
  assert (H56 : lenN runs < 2 ^ 56) by (assert (2 ^ 55 < 2 ^ 56) by reflexivity; lia).
  destruct (RLProof.rl_exact m runs len Hs He ltac:(lia) H56) as (v' & Hb' & Hex).
  unfold RLProof.rl_ops in Hb'. rewrite Hb in Hb'. injection Hb' as <-. rewrite Hm in Hex.
  exists v. split; [exact Hd|exact Hex].
Qed.
