(* C09 for the run-length vector: every query of Model/RL.v is total on a built vector. Out-of-range and extreme
   arguments (any value below 2^64, both overflow-check modes) get the documented answer, and the wrappers
   return before they touch the sample indexes or the encoding:
     rank(i >= len) = count_ones, select(r >= count_ones) = None with the empty select_iter,
     select_zero(r >= count_zeros) = None with the empty select_zero_iter, successor(v >= len) = the empty
     iterator, predecessor(v >= len) = predecessor(len - 1).
   Corollaries of the query theorems of RLQuery*.v (the C03 cone) and of facts about the run-list specification. *)
From Coq Require Import NArith List Lia ZArith Bool.
Require Import SDS.Model.Mach SDS.Model.Bits SDS.Model.Raw SDS.Model.IntVec SDS.Model.RL SDS.gen.Consts SDS.gen.Funs.
Require Import SDS.Spec.Runs.
Require Import SDS.Proofs.BitsProof SDS.Proofs.RLIntVec SDS.Proofs.RLVarint SDS.Proofs.RLIndex SDS.Proofs.RLRep
               SDS.Proofs.RunsLemmas SDS.Proofs.RLBuild SDS.Proofs.RLIter SDS.Proofs.RLQuery SDS.Proofs.RLQuery2
               SDS.Proofs.RLQuery3 SDS.Proofs.RLQuery4 SDS.Proofs.RLProof.
Import ListNotations.
Open Scope N_scope.
Require Import ZifyBool ZifyN ZifyNat.
Ltac Zify.zify_post_hook ::= Z.div_mod_to_equations.
Arguments N.add : simpl never. Arguments N.sub : simpl never. Arguments N.mul : simpl never.
Arguments N.eqb : simpl never. Arguments N.ltb : simpl never. Arguments N.leb : simpl never.
Arguments N.pow : simpl never. Arguments N.min : simpl never.

(* the ZeroIter that select_zero_iter returns beyond the count: exhausted, positioned at (count_zeros, len) *)
Definition zi_empty (v : rlvec) : zeroiter := mkzi (ri_empty v) true (rl_count_zeros v, rl_len v).

(* ---- facts that hold for ANY vector value: the wrappers decide on len / count_ones alone ---- *)

Lemma oi_empty_next m v : oi_next m v (oi_empty v) = Ok (oi_empty v, None).
Proof. reflexivity. Qed.
Lemma oi_empty_hint v : oi_size_hint v (oi_empty v) = 0.
Proof. unfold oi_size_hint, oi_empty. cbn [oi_rank]. lia. Qed.

Lemma zi_empty_next m v : zi_next m v (zi_empty v) = Ok (zi_empty v, None).
Proof.
  unfold zi_next, zi_empty. cbn [zi_got_none negb andb bind zi_pos fst].
  replace (rl_count_zeros v <=? rl_count_zeros v) with true by lia. reflexivity.
Qed.
Lemma zi_empty_hint v : zi_size_hint v (zi_empty v) = 0.
Proof. unfold zi_size_hint, zi_empty. cbn [zi_pos fst]. lia. Qed.

Lemma select_beyond m v r : rl_ones v <= r ->
  rl_select m v r = Ok None /\ rl_select_iter m v r = Ok (oi_empty v).
Proof.
  intros H. unfold rl_select, rl_select_iter. replace (rl_ones v <=? r) with true by lia. split; reflexivity.
Qed.

Lemma select_zero_beyond m v r : rl_count_zeros v <= r ->
  rl_select_zero m v r = Ok None /\ rl_select_zero_iter m v r = Ok (zi_empty v).
Proof.
  intros H. unfold rl_select_zero, rl_select_zero_iter. replace (rl_count_zeros v <=? r) with true by lia.
  split; reflexivity.
Qed.

Lemma successor_beyond m v x : rl_len v <= x -> rl_successor m v x = Ok (oi_empty v).
Proof. intros H. unfold rl_successor. replace (rl_len v <=? x) with true by lia. reflexivity. Qed.

(* the clamping `min(value, len - 1)` *)
Lemma predecessor_beyond m v x : rl_len v <= x -> rl_predecessor m v x = rl_predecessor m v (rl_len v - 1).
Proof.
  intros H. unfold rl_predecessor. destruct (rl_len v =? 0); [reflexivity|].
  replace (N.min x (rl_len v - 1)) with (rl_len v - 1) by lia.
  replace (N.min (rl_len v - 1) (rl_len v - 1)) with (rl_len v - 1) by lia. reflexivity.
Qed.

(* ---- the specification beyond the end ---- *)

Lemma spec_rank_beyond first from R i : runs_ok first from R -> runs_end_from from R <= i -> runs_rank R i = runs_ones R.
Proof. intros H1 H2. rewrite (runs_rank_above _ _ _ _ H1 H2). apply rones_spec. Qed.

Lemma spec_select_beyond R r : runs_ones R <= r -> runs_select R r = None.
Proof. intros H. apply runs_select_none. rewrite rones_spec. exact H. Qed.

Lemma spec_succ_beyond first from R x : runs_ok first from R -> runs_end_from from R <= x -> runs_succ R x = None.
Proof.
  intros H1 H2. unfold runs_succ. rewrite (runs_rank_above _ _ _ _ H1 H2).
  rewrite runs_select_none by lia. reflexivity.
Qed.

Lemma spec_pred_beyond first from R x y :
  runs_ok first from R -> runs_end_from from R <= x + 1 -> runs_end_from from R <= y + 1 -> runs_pred R x = runs_pred R y.
Proof.
  intros H1 H2 H3. unfold runs_pred.
  rewrite (runs_rank_above _ _ _ _ H1 H2), (runs_rank_above _ _ _ _ H1 H3). reflexivity.
Qed.

(* ---- on a vector satisfying the block invariant ---- *)

Section Total.
  Variable m : mode.
  Variable v : rlvec.
  Variable BS : list (list run).
  Variable L : N.
  Hypothesis Hok : rl_ok v BS L.

  Let F := concat BS.

  Lemma F_ok' : runs_ok true 0 F. Proof. exact (ok_runs _ _ _ Hok). Qed.
  Lemma F_end' : runs_end_from 0 F <= L. Proof. exact (ok_end _ _ _ Hok). Qed.

  Lemma rank_beyond i : L <= i -> rl_rank m v i = Ok (rl_ones v) /\ rl_rank_zero m v i = Ok (i - rl_ones v).
  Proof.
    intros Hi. pose proof F_end' as He.
    rewrite (rank_spec m v BS L Hok i), (rank_zero_spec m v BS L Hok i), (ones_F v BS L Hok). fold F.
    rewrite (runs_rank_above _ _ _ _ F_ok') by lia. split; reflexivity.
  Qed.

  Lemma spec_select_zero_beyond r : L - rones F <= r -> runs_select_zero F L r = None.
  Proof. intros H. exact (sz_past v BS L Hok r H). Qed.

  Lemma zeros_eq : rl_count_zeros v = L - rones F.
  Proof. unfold rl_count_zeros. rewrite (ones_F v BS L Hok), (len_L v BS L Hok). reflexivity. Qed.
End Total.

(* ---- assembled over the builder, as in C03 ---- *)

Theorem rl_total m R L :
  runs_sorted 0 R -> runs_end R <= L -> L <= 2 ^ 64 - 1 -> lenN R < 2 ^ 56 ->
  exists v,
    rl_build m (rl_ops R L) = Ok (v, map (fun _ => true) R ++ [true]) /\
    rl_len v = L /\ rl_ones v = runs_ones (maximal R) /\ rl_count_zeros v = L - runs_ones (maximal R) /\
    (* every argument gets the specified answer: no panic, no exhausted fuel *)
    (forall i, i < 2 ^ 64 ->
       rl_rank m v i = Ok (runs_rank (maximal R) i) /\ rl_rank_zero m v i = Ok (i - runs_rank (maximal R) i)) /\
    (forall r, r < 2 ^ 64 ->
       rl_select m v r = Ok (runs_select (maximal R) r) /\
       rl_select_zero m v r = Ok (runs_select_zero (maximal R) L r)) /\
    (forall x, x < 2 ^ 64 ->
       oi_first m v (rl_predecessor m v x) = Ok (runs_pred (maximal R) x) /\
       oi_first m v (rl_successor m v x) = Ok (runs_succ (maximal R) x)) /\
    (* beyond the end / the counts *)
    (forall i, i < 2 ^ 64 -> L <= i ->
       rl_rank m v i = Ok (rl_ones v) /\ rl_rank_zero m v i = Ok (i - rl_ones v) /\
       runs_rank (maximal R) i = runs_ones (maximal R)) /\
    (forall r, r < 2 ^ 64 -> rl_ones v <= r ->
       rl_select m v r = Ok None /\ runs_select (maximal R) r = None /\ rl_select_iter m v r = Ok (oi_empty v)) /\
    (forall r, r < 2 ^ 64 -> rl_count_zeros v <= r ->
       rl_select_zero m v r = Ok None /\ runs_select_zero (maximal R) L r = None /\
       rl_select_zero_iter m v r = Ok (zi_empty v)) /\
    (forall x, x < 2 ^ 64 -> L <= x ->
       rl_successor m v x = Ok (oi_empty v) /\ runs_succ (maximal R) x = None) /\
    (forall x, x < 2 ^ 64 -> L <= x -> 0 < L ->
       rl_predecessor m v x = rl_predecessor m v (L - 1) /\ runs_pred (maximal R) x = runs_pred (maximal R) (L - 1)) /\
    (* the empty iterators yield nothing, stay as they are, and have length 0 *)
    oi_next m v (oi_empty v) = Ok (oi_empty v, None) /\ oi_size_hint v (oi_empty v) = 0 /\
    zi_next m v (zi_empty v) = Ok (zi_empty v, None) /\ zi_size_hint v (zi_empty v) = 0.
Proof.
  intros Hs He HL Hn. apply runs_srt_sorted in Hs. rewrite runs_end_spec in He.
  destruct (rl_build_ok m R L Hs He ltac:(lia) Hn) as (v & BS & Hb & Hok & HF).
  pose proof (ok_runs _ _ _ Hok) as HFok. pose proof (ok_end _ _ _ Hok) as HFend.
  pose proof (len_L v BS L Hok) as Hlen. pose proof (ones_F v BS L Hok) as Hones.
  rewrite HF in HFok, HFend, Hones. rewrite rones_spec in Hones.
  exists v. split; [exact Hb|]. split; [exact Hlen|]. split; [exact Hones|].
  split; [unfold rl_count_zeros; rewrite Hones, Hlen; reflexivity|].
  split; [intros i _; rewrite <- HF; split; [exact (rank_spec m v BS L Hok i)|exact (rank_zero_spec m v BS L Hok i)]|].
  split; [intros r _; rewrite <- HF; split; [exact (select_spec m v BS L Hok r)|exact (select_zero_spec m v BS L Hok r)]|].
  split; [intros x _; rewrite <- HF; split; [exact (predecessor_spec m v BS L Hok x)|exact (successor_spec m v BS L Hok x)]|].
  split.
  { intros i _ Hi. destruct (rank_beyond m v BS L Hok i Hi) as [H1 H2].
    split; [exact H1|]. split; [exact H2|]. apply (spec_rank_beyond _ _ _ _ HFok). lia. }
  split.
  { intros r _ Hr. destruct (select_beyond m v r Hr) as [H1 H2].
    split; [exact H1|]. split; [|exact H2]. apply spec_select_beyond. rewrite <- Hones. exact Hr. }
  split.
  { intros r _ Hr. destruct (select_zero_beyond m v r Hr) as [H1 H2].
    split; [exact H1|]. split; [|exact H2]. rewrite <- HF. apply (spec_select_zero_beyond v BS L Hok).
    rewrite <- (zeros_eq v BS L Hok). exact Hr. }
  split.
  { intros x _ Hx. split; [apply successor_beyond; rewrite Hlen; exact Hx|].
    apply (spec_succ_beyond _ _ _ _ HFok). lia. }
  split.
  { intros x _ Hx HL0. split.
    - rewrite <- Hlen. apply predecessor_beyond. rewrite Hlen. exact Hx.
    - apply (spec_pred_beyond _ _ _ _ _ HFok); lia. }
  split; [apply oi_empty_next|]. split; [apply oi_empty_hint|]. split; [apply zi_empty_next|apply zi_empty_hint].
Qed.
