(* C06 / C14 / C19 for the sparse vector: every vector that SparseBuilder (::new or ::multiset) + try_set +
   SparseVector::try_from construct is well-formed for [sparse_codec] (Model/SerSparse.v), i.e. SparseVector::load
   applied to its serialization reads the three fields back, re-enables the two select supports of the high part to
   exactly the ones the vector holds (Proofs/SerComposite.v high_rebuild), and passes the two sanity checks -
   ones = low.len() and high.len() = low.len() + get_buckets(len, low.width()) - because they are the builder's
   invariant (Proofs/SparseBuild.v b_inv). Hence (codec_ok) round trip with exact consumption, exact size, and an
   error on every strict prefix; and the same vector written with ANY subset of the supports of its high part
   (in particular none) loads as the native one (the statement C19 left open). *)
From Coq Require Import String NArith List Lia ZArith Bool.
Require Import SDS.Model.Mach SDS.Model.Bits SDS.Model.Raw SDS.Model.IntVec SDS.Model.BitVec SDS.Model.Ser.
Require Import SDS.Model.Sparse SDS.Model.SerComposite SDS.Model.SerSparse.
Require Import SDS.gen.Consts SDS.gen.Layout SDS.Spec.Stream SDS.Spec.BitSeq SDS.Spec.ValSeq.
Require Import SDS.Proofs.BitsProof SDS.Proofs.BVCommon SDS.Proofs.RankProof SDS.Proofs.SelectProof SDS.Proofs.BVFull.
Require SDS.Proofs.RawProof SDS.Proofs.IntVecProof.
Require Import SDS.Proofs.SerProof SDS.Proofs.SerTypes SDS.Proofs.SerSupports SDS.Proofs.SerMain SDS.Proofs.SerComposite.
Require Import SDS.Proofs.SparseSeq SDS.Proofs.SparseProof SDS.Proofs.SparseBuild SDS.Proofs.SparseLow SDS.Proofs.SparseHigh.
Import ListNotations.
Open Scope list_scope.
Open Scope N_scope.
Require Import ZifyBool ZifyN ZifyNat.
Ltac Zify.zify_post_hook ::= Z.div_mod_to_equations.
Arguments N.add : simpl never. Arguments N.sub : simpl never. Arguments N.mul : simpl never.
Arguments N.div : simpl never. Arguments N.modulo : simpl never. Arguments N.pow : simpl never.
Arguments N.leb : simpl never. Arguments N.ltb : simpl never. Arguments N.eqb : simpl never.
Arguments N.land : simpl never. Arguments N.lor : simpl never. Arguments N.shiftl : simpl never.
Arguments N.shiftr : simpl never. Arguments N.testbit : simpl never.

(* ================================================================ 1. the codec *)

Lemma sparse_codec_ok sp m : codec_ok (sparse_codec sp m).
Proof.
  apply conv_codec_ok. apply seq_codec_ok; [exact usize_codec_ok|].
  apply seq_codec_ok; [exact (bv_codec_ok m)|exact (iv_codec_ok m)].
Qed.

(* it is the encoder / loader of Model/SerComposite.v *)
Lemma sparse_codec_enc sp m v : c_enc (sparse_codec sp m) v = sparse_enc m v.
Proof. reflexivity. Qed.

Lemma sparse_codec_dec sp m s : c_dec (sparse_codec sp m) s = sparse_dec sp m s.
Proof.
  unfold sparse_dec. cbn [sparse_codec conv_codec seq_codec c_dec usize_codec u64_codec].
  destruct (dec_elem s) as [[len r1]| |]; cbn [iobind]; try reflexivity.
  destruct (c_dec (bv_codec m) r1) as [[high r2]| |]; cbn [iobind]; try reflexivity.
  destruct (c_dec (iv_codec m) r2) as [[low r3]| |]; cbn [iobind]; try reflexivity.
  unfold sparse_from.
  destruct (io_of_res (bv_enable_select_t sp m Identity high)) as [h1| |]; cbn [iobind]; try reflexivity.
  destruct (io_of_res (bv_enable_select_t sp m Complement h1)) as [h2| |]; cbn [iobind]; try reflexivity.
  destruct (negb (ilen low =? bv_count_ones h2)); [reflexivity|].
  destruct (io_of_res (get_buckets len (iwidth low))) as [bk| |]; cbn [iobind]; try reflexivity.
  destruct (io_of_res (uadd m (ilen low) bk)) as [tot| |]; cbn [iobind]; try reflexivity.
  destruct (negb (bv_len h2 =? tot)); reflexivity.
Qed.

Lemma layout_SparseVector_ok :
  mklayout layout_SparseVector_serialize_header layout_SparseVector_serialize_body layout_SparseVector_load
           layout_SparseVector_load_checks layout_SparseVector_size_in_elements = expected_SparseVector.
Proof. reflexivity. Qed.
Lemma fields_SparseVector : fields_consistent expected_SparseVector ["len"; "high"; "low"]%string.
Proof. repeat split. Qed.

(* size_in_elements = 1 (len) + high + low *)
Lemma sparse_size sp m v :
  c_size (sparse_codec sp m) v = 1 + c_size (bv_codec m) (sv_high v) + c_size (iv_codec m) (sv_low v).
Proof. cbn [sparse_codec conv_codec seq_codec c_size usize_codec u64_codec fst snd]. lia. Qed.

(* ================================================================ 2. the low part with the facts serialization needs *)

(* iv_seq (Proofs/SparseLow.v) + the exact bit and word counts of the underlying RawVector + its unused bits are 0 *)
Definition ivS (v : intvec) (w : N) (L : list N) : Prop :=
  iv_seq v w L /\ rlen (idata v) = lenN L * w /\ lenN (rdata (idata v)) = (rlen (idata v) + 63) / 64 /\
  forall p, rlen (idata v) <= p -> bit (rdata (idata v)) p = false.

Lemma ivS_with_len len w : 1 <= w <= 64 ->
  exists v, iv_with_len len w 0 = Some (Ok v) /\ ivS v w (repeatN 0 (N.to_nat len)).
Proof.
  intros Hw. destruct (iv_seq_with_len len w Hw) as (v & E & Hs). exists v. split; [exact E|]. split; [exact Hs|].
  unfold iv_with_len, width_ok in E. change bits_WORD_BITS with 64 in E.
  replace (w =? 0) with false in E by lia. replace (64 <? w) with false in E by lia. cbn [orb negb] in E.
  assert (Hz0 : zraw raw_new).
  { unfold zraw, raw_new. cbn [rdata rlen]. split; [constructor|]. split; [|reflexivity].
    intros p. unfold bit, getw. cbn [nthN]. apply N.bits_0. }
  destruct (zraw_push_n (N.to_nat len) raw_new w Hz0 Hw) as [r [Hp [[_ [Hzb Hl]] Hrl]]].
  rewrite Hp in E. cbn [bind] in E. injection E as <-. cbn [idata ilen]. cbn [rlen raw_new] in Hrl.
  rewrite lenN_repeatN, N2Nat.id. split; [rewrite Hrl; lia|]. split; [exact Hl|]. intros p _. apply Hzb.
Qed.

Lemma ivS_set v w L i x : ivS v w L -> i < lenN L -> x < 2 ^ w ->
  exists v', iv_set v i x = Ok v' /\ ivS v' w (setN L i x).
Proof.
  intros (Hs & Hb & Hwd & Hun) Hi Hx. destruct (iv_seq_set v w L i x Hs Hi Hx) as (v' & E & Hs'). exists v'. split; [exact E|].
  split; [exact Hs'|]. destruct Hs as [Hl [Hw [Hwr [Hwf [Hroom _]]]]].
  unfold iv_set in E. rewrite Hl in E. replace (i <? lenN L) with true in E by lia.
  unfold raw_set_int in E. rewrite Hw in E. replace (w =? 0) with false in E by lia.
  pose proof (field_in_range i (lenN L) w _ ltac:(lia) Hi Hroom) as Hr.
  destruct (write_read (rdata (idata v)) (i * w) x w Hwf Hwr Hr) as [a' [Hwi [_ [Hlen' [_ Hout]]]]].
  rewrite Hwi in E. cbn [bind] in E. injection E as <-. cbn [idata rlen rdata]. rewrite lenN_setN.
  split; [exact Hb|]. split; [unfold lenN in *; rewrite Hlen'; exact Hwd|].
  intros p Hp. rewrite Hout by nia. apply Hun. exact Hp.
Qed.

Lemma ivS_low_ok v w L : ivS v w L -> low_ok v w L.
Proof. intros (Hs & _). exact (iv_seq_low_ok v w L Hs). Qed.

Lemma ivS_iv_ok v w L : ivS v w L -> lenN L < 2 ^ 64 -> lenN L * w + 63 < 2 ^ 64 -> iv_ok v.
Proof.
  intros ([Hl [Hw [Hwr [Hwf _]]]] & Hb & Hwd & _) HL Hbits. unfold iv_ok, raw_ok. rewrite Hl, Hw, Hb.
  split; [exact HL|]. split; [lia|]. split; [reflexivity|]. split; [exact Hbits|].
  split; [rewrite Hwd, Hb; reflexivity|]. exact Hwf.
Qed.

Lemma ivS_iv_inv v w L : ivS v w L -> IntVecProof.iv_inv v.
Proof.
  intros ([Hl [Hw [Hwr [Hwf _]]]] & Hb & Hwd & Hun). unfold IntVecProof.iv_inv, RawProof.raw_inv. rewrite Hl, Hw.
  split; [exact Hwr|]. split; [exact Hb|]. split; [rewrite Hwd; reflexivity|]. split; [exact Hwf|exact Hun].
Qed.

(* ================================================================ 3. the builder's last state *)

Section Final.
Variables (sp : selpath) (md : mode).

(* SparseBuilder::new + try_set per value (sets) *)
Lemma set_state w' n Vs : n < 2 ^ 64 -> 1 <= w' <= 63 -> increasing Vs = true -> all_below n Vs = true ->
  let w := eff_width w' n (lenN Vs) in
  lenN Vs + buckets_of n w < 2 ^ 64 ->
  exists b', (let* r := sb_new md w' n (lenN Vs) in
              match r with inr e => Ok (inr e) | inl b => sb_try_set_all md b Vs end) = Ok (inl b') /\
             b_inv n w 1 Vs ivS (lenN Vs) b'.
Proof.
  intros Hn Hw' Hinc Hbel w Hfit. subst w.
  pose proof (increasing_sorted _ Hinc) as Hs. pose proof (all_below_bounded _ _ Hbel) as Hb.
  pose proof (sorted_lt_len_le Vs n Hs Hb) as Hmn.
  pose proof (eff_width_range w' n (lenN Vs) Hw') as Hw.
  destruct (init_ok md ivS ivS_with_len ivS_set ivS_low_ok w' n 1 Vs Hn Hw' Hfit) as [low [high [Hgp [Hiv [Hraw Hinv]]]]].
  unfold sb_new. replace (n <? lenN Vs) with false by lia.
  rewrite Hgp. cbn [bind]. rewrite Hiv. cbn [unwrap_iv bind]. rewrite Hraw. cbn [bind].
  apply (b_all md n _ 1 Vs ivS ivS_set ivS_low_ok Hn Hw (lenN Vs) ltac:(lia) Hb ltac:(lia) (ord_of_sorted_lt ivS ivS_with_len ivS_set ivS_low_ok Vs Hs) Hfit
               Vs 0 _ Hinv ltac:(lia)); intros i Hi; f_equal; lia.
Qed.

(* SparseBuilder::multiset + try_set per value *)
Lemma multiset_state w' n Vs : n < 2 ^ 64 -> 1 <= w' <= 63 -> nondecreasing Vs = true -> all_below n Vs = true ->
  let w := eff_width w' n (lenN Vs) in
  lenN Vs + buckets_of n w < 2 ^ 64 ->
  exists b', (let* b := sb_multiset md w' n (lenN Vs) in sb_try_set_all md b Vs) = Ok (inl b') /\
             b_inv n w 0 Vs ivS (lenN Vs) b'.
Proof.
  intros Hn Hw' Hnd Hbel w Hfit. subst w.
  pose proof (nondecreasing_sorted _ Hnd) as Hs. pose proof (all_below_bounded _ _ Hbel) as Hb.
  pose proof (eff_width_range w' n (lenN Vs) Hw') as Hw.
  destruct (init_ok md ivS ivS_with_len ivS_set ivS_low_ok w' n 0 Vs Hn Hw' Hfit) as [low [high [Hgp [Hiv [Hraw Hinv]]]]].
  unfold sb_multiset. rewrite Hgp. cbn [bind]. rewrite Hiv. cbn [unwrap_iv bind]. rewrite Hraw. cbn [bind].
  apply (b_all md n _ 0 Vs ivS ivS_set ivS_low_ok Hn Hw (lenN Vs) ltac:(lia) Hb ltac:(lia) (ord_of_sorted_le ivS ivS_with_len ivS_set ivS_low_ok Vs Hs) Hfit
               Vs 0 _ Hinv ltac:(lia)); intros i Hi; f_equal; lia.
Qed.

(* the number of set bits of the unary code is the number of values *)
Lemma high_count n w Vs H : 1 <= w <= 63 -> sorted_le Vs -> bounded n Vs ->
  ef_high_ok H Vs w (buckets_of n w) -> count H = lenN Vs.
Proof.
  intros Hw Hs Hb HH. rewrite <- (rank1_all H (lenB H)) by lia.
  rewrite <- (N2Nat.id (lenN Vs)). apply (H_rank_gap n w Vs H Hw Hs Hb HH); rewrite ?N2Nat.id; try lia.
  destruct (N.eq_dec (lenN Vs) 0) as [E|E]; [left; lia|right]. apply (op_lt_len n w Vs H Hw Hb HH). lia.
Qed.

(* From a full builder in its invariant: try_from returns a vector that is well-formed for the codec on every
   loader path / mode, and that loads back from a file written with any subset of the supports of its high part.
   [m + buckets + 4096 < 2^64], [m * w + 63 < 2^64]: the bit counts of high and low are addressable (with the
   margin SelectSupport's superblock arithmetic needs). *)
Lemma finish_wf n w inc Vs b' : n < 2 ^ 64 -> 1 <= w <= 63 -> inc <= 1 -> bounded n Vs ->
  (forall k, 0 < k -> k < lenN Vs -> nthd Vs (k - 1) + inc <= nthd Vs k) ->
  lenN Vs + buckets_of n w + select_SUPERBLOCK_SIZE < 2 ^ 64 -> lenN Vs * w + 63 < 2 ^ 64 ->
  b_inv n w inc Vs ivS (lenN Vs) b' ->
  exists sv H, sv_try_from sp md b' = Ok (inl sv) /\ sv_ok sp md sv n w Vs H /\
    (forall sp' m', c_wf (sparse_codec sp' m') sv) /\
    (forall wh, sub_of wh (sv_high sv) -> forall sp' m' rest,
       sparse_dec sp' m' (sparse_enc m' (mksv (sv_len sv) wh (sv_low sv)) ++ rest) = IoOk (sv, rest)) /\
    (exists L, ivS (sv_low sv) w L /\ lenN L = lenN Vs /\ forall i, i < lenN Vs -> nthd L i = nthd Vs i mod 2 ^ w).
Proof.
  change select_SUPERBLOCK_SIZE with 4096. intros Hn Hw Hinc Hb Hord Hfit Hbits Hinv.
  assert (Hfit' : lenN Vs + buckets_of n w < 2 ^ 64) by lia.
  destruct (b_finish sp md n w inc Vs ivS ivS_set ivS_low_ok Hn Hw (lenN Vs) ltac:(lia) Hb Hinc Hord Hfit' b'
              (high_contract_holds sp md) eq_refl Hinv) as (sv & H & E & Hok).
  exists sv, H. split; [exact E|]. split; [exact Hok|].
  destruct Hinv as [Hu [Hl [_ [_ [[L [HR [HLm HLv]]] [Hwf [Hrl _]]]]]]].
  pose proof (ivS_low_ok _ _ _ HR) as [Hilen [Hiw _]].
  (* what try_from computed *)
  unfold sv_try_from in E. rewrite Hl, Hilen, HLm, N.eqb_refl in E. cbn [negb] in E.
  destruct (bv_enable_select_t sp md Identity (bv_from_raw (b_high b'))) as [h1| |] eqn:E1; cbn [bind] in E; try discriminate.
  destruct (bv_enable_select_t sp md Complement h1) as [h2| |] eqn:E2; cbn [bind] in E; try discriminate.
  injection E as <-. cbn [sv_len sv_high sv_low]. rewrite Hu.
  (* the high part *)
  set (r := b_high b') in *. set (H0 := bits_of (rlen r) (rdata r)).
  pose proof (bv_from_raw_repr r Hwf) as Hrep0. fold H0 in Hrep0.
  assert (Hno : no_supports (bv_from_raw r)) by (repeat split).
  assert (HL0 : lenB H0 = lenN Vs + buckets_of n w).
  { unfold H0. rewrite bits_of_lenB by (apply raw_wf_room; exact Hwf). exact Hrl. }
  destruct (high_rebuild sp md H0 (bv_from_raw r) Hrep0 Hno ltac:(change select_SUPERBLOCK_SIZE with 4096; lia))
    as (h1' & hf & E1' & E2' & Rhf & _ & _ & _ & _ & Hall).
  assert (h1' = h1) by congruence. subst h1'. assert (hf = h2) by congruence. subst hf.
  (* bv_ok of the high part: it is a sub-vector of the fully enabled one *)
  destruct (level_built sp md H0 (bv_from_raw r) Hrep0 Hno ltac:(lia)) as (bf & _ & _ & Wf & C0 & F & _).
  assert (Hsub0 : sub_of (bv_from_raw r) bf) by (destruct Hno as (N1 & N2 & N3); split; [exact C0|]; auto).
  destruct (enable_ops_sub sp md [1; 2] (bv_from_raw r) bf (F sp md) Hsub0) as (b2 & Eo & S2 & _); [repeat constructor|].
  rewrite enable_ops_selects, E1 in Eo. cbn [bind] in Eo. rewrite E2 in Eo. injection Eo as <-.
  pose proof (sub_ok h2 bf Wf S2) as Hbvok.
  (* the low part *)
  assert (Hivok : iv_ok (b_low b')) by (apply (ivS_iv_ok _ _ _ HR); lia).
  (* the sanity checks *)
  assert (HH : H = H0).
  { destruct Hok as (_ & _ & _ & _ & _ & _ & (Hr & _) & _). cbn [sv_high] in Hr.
    destruct Hr as (_ & -> & _). destruct Rhf as (_ & -> & _). reflexivity. }
  assert (Hcnt : ilen (b_low b') = count H0).
  { rewrite Hilen, HLm. symmetry. rewrite <- HH. apply (high_count n w Vs H Hw); try apply Hok; try exact Hb. }
  assert (Hbk : get_buckets n (iwidth (b_low b')) = Ok (buckets_of n w)) by (rewrite Hiw; apply get_buckets_spec; exact Hw).
  assert (Htot : lenB H0 = ilen (b_low b') + buckets_of n w) by (rewrite Hilen, HLm; exact HL0).
  assert (Dec : forall wh, sub_of wh h2 -> forall sp' m' rest,
            sparse_dec sp' m' (sparse_enc m' (mksv n wh (b_low b')) ++ rest) = IoOk (mksv n h2 (b_low b'), rest)).
  { intros wh Hwh sp' m' rest. destruct (Hall wh Hwh) as [_ D]. exact (D sp' m' n (b_low b') _ rest Hn Hivok Hcnt Hbk Htot). }
  split; [|split; [exact Dec|exists L; auto]].
  intros sp' m'. cbn [sparse_codec conv_codec seq_codec c_wf usize_codec u64_codec bv_codec iv_codec with_wf fst snd sv_len sv_high sv_low].
  split; [split; [exact Hn|split; [exact Hbvok|exact Hivok]]|].
  (* the loader maps the fields to the record: read it off the round trip *)
  assert (Hself : sub_of h2 h2).
  { split; [apply same_core_refl|]. auto. }
  pose proof (Dec h2 Hself sp' m' []) as D. rewrite <- sparse_codec_dec, <- (sparse_codec_enc sp' m') in D.
  cbn [sparse_codec conv_codec c_dec c_enc sv_len sv_high sv_low] in D.
  assert (Wseq : c_wf (seq_codec usize_codec (seq_codec (bv_codec m') (iv_codec m'))) (n, (h2, b_low b'))).
  { cbn [seq_codec c_wf usize_codec u64_codec bv_codec iv_codec with_wf fst snd]. auto. }
  rewrite (ok_rt _ (seq_codec_ok _ _ usize_codec_ok (seq_codec_ok _ _ (bv_codec_ok m') (iv_codec_ok m'))) _ [] Wseq) in D.
  cbn [iobind] in D. destruct (sparse_from sp' m' (n, (h2, b_low b'))) as [x| |]; cbn [iobind] in D; try discriminate.
  injection D as ->. reflexivity.
Qed.
End Final.

(* ================================================================ 4. assembled over the builders *)

(* everything the serialization theorems need about a built vector *)
Definition built_facts (sp : selpath) (md : mode) (n w : N) (Vs : list N) (sv : sparse) : Prop :=
  (exists H, sv_ok sp md sv n w Vs H) /\
  (forall sp' m', c_wf (sparse_codec sp' m') sv) /\
  (forall wh, sub_of wh (sv_high sv) -> forall sp' m' rest,
     sparse_dec sp' m' (sparse_enc m' (mksv (sv_len sv) wh (sv_low sv)) ++ rest) = IoOk (sv, rest)) /\
  (exists L, ivS (sv_low sv) w L /\ lenN L = lenN Vs /\ forall i, i < lenN Vs -> nthd L i = nthd Vs i mod 2 ^ w).

Theorem sparse_set_facts sp md w' n Vs :
  n < 2 ^ 64 -> 1 <= w' <= 63 -> increasing Vs = true -> all_below n Vs = true ->
  let w := eff_width w' n (lenN Vs) in
  lenN Vs + buckets_of n w + select_SUPERBLOCK_SIZE < 2 ^ 64 -> lenN Vs * w + 63 < 2 ^ 64 ->
  exists sv, sv_build_set sp md w' n Vs = Ok (inl sv) /\ built_facts sp md n w Vs sv.
Proof.
  change select_SUPERBLOCK_SIZE with 4096. intros Hn Hw' Hinc Hbel w Hfit Hbits. subst w.
  pose proof (increasing_sorted _ Hinc) as Hs. pose proof (all_below_bounded _ _ Hbel) as Hb.
  pose proof (eff_width_range w' n (lenN Vs) Hw') as Hw.
  destruct (set_state md w' n Vs Hn Hw' Hinc Hbel ltac:(lia)) as (b' & Est & Hinv).
  destruct (finish_wf sp md n _ 1 Vs b' Hn Hw ltac:(lia) Hb (ord_of_sorted_lt ivS ivS_with_len ivS_set ivS_low_ok Vs Hs)
              ltac:(change select_SUPERBLOCK_SIZE with 4096; lia) Hbits Hinv) as (sv & H & E & Hok & Wf & D & HL).
  exists sv. split; [|split; [exists H; exact Hok|split; [exact Wf|split; [exact D|exact HL]]]].
  unfold sv_build_set. destruct (sb_new md w' n (lenN Vs)) as [[b0|e]| |]; cbn [bind] in Est |- *; try discriminate.
  rewrite Est. cbn [bind]. exact E.
Qed.

Theorem sparse_multiset_facts sp md w' n Vs :
  n < 2 ^ 64 -> 1 <= w' <= 63 -> nondecreasing Vs = true -> all_below n Vs = true ->
  let w := eff_width w' n (lenN Vs) in
  lenN Vs + buckets_of n w + select_SUPERBLOCK_SIZE < 2 ^ 64 -> lenN Vs * w + 63 < 2 ^ 64 ->
  exists sv, sv_build_multiset sp md w' n Vs = Ok (inl sv) /\ built_facts sp md n w Vs sv.
Proof.
  change select_SUPERBLOCK_SIZE with 4096. intros Hn Hw' Hnd Hbel w Hfit Hbits. subst w.
  pose proof (nondecreasing_sorted _ Hnd) as Hs. pose proof (all_below_bounded _ _ Hbel) as Hb.
  pose proof (eff_width_range w' n (lenN Vs) Hw') as Hw.
  destruct (multiset_state md w' n Vs Hn Hw' Hnd Hbel ltac:(lia)) as (b' & Est & Hinv).
  destruct (finish_wf sp md n _ 0 Vs b' Hn Hw ltac:(lia) Hb (ord_of_sorted_le ivS ivS_with_len ivS_set ivS_low_ok Vs Hs)
              ltac:(change select_SUPERBLOCK_SIZE with 4096; lia) Hbits Hinv) as (sv & H & E & Hok & Wf & D & HL).
  exists sv. split; [|split; [exists H; exact Hok|split; [exact Wf|split; [exact D|exact HL]]]].
  unfold sv_build_multiset. destruct (sb_multiset md w' n (lenN Vs)) as [b0| |]; cbn [bind] in Est |- *; try discriminate.
  rewrite Est. cbn [bind]. exact E.
Qed.

Theorem sparse_set_wf sp md w' n Vs :
  n < 2 ^ 64 -> 1 <= w' <= 63 -> increasing Vs = true -> all_below n Vs = true ->
  let w := eff_width w' n (lenN Vs) in
  lenN Vs + buckets_of n w + select_SUPERBLOCK_SIZE < 2 ^ 64 -> lenN Vs * w + 63 < 2 ^ 64 ->
  exists sv, sv_build_set sp md w' n Vs = Ok (inl sv) /\
    (forall sp' m', c_wf (sparse_codec sp' m') sv) /\
    (forall wh, sub_of wh (sv_high sv) -> forall sp' m' rest,
       sparse_dec sp' m' (sparse_enc m' (mksv (sv_len sv) wh (sv_low sv)) ++ rest) = IoOk (sv, rest)).
Proof.
  intros Hn Hw' Hinc Hbel w Hfit Hbits.
  destruct (sparse_set_facts sp md w' n Vs Hn Hw' Hinc Hbel Hfit Hbits) as (sv & E & _ & Wf & D & _).
  exists sv. auto.
Qed.

Theorem sparse_multiset_wf sp md w' n Vs :
  n < 2 ^ 64 -> 1 <= w' <= 63 -> nondecreasing Vs = true -> all_below n Vs = true ->
  let w := eff_width w' n (lenN Vs) in
  lenN Vs + buckets_of n w + select_SUPERBLOCK_SIZE < 2 ^ 64 -> lenN Vs * w + 63 < 2 ^ 64 ->
  exists sv, sv_build_multiset sp md w' n Vs = Ok (inl sv) /\
    (forall sp' m', c_wf (sparse_codec sp' m') sv) /\
    (forall wh, sub_of wh (sv_high sv) -> forall sp' m' rest,
       sparse_dec sp' m' (sparse_enc m' (mksv (sv_len sv) wh (sv_low sv)) ++ rest) = IoOk (sv, rest)).
Proof.
  intros Hn Hw' Hnd Hbel w Hfit Hbits.
  destruct (sparse_multiset_facts sp md w' n Vs Hn Hw' Hnd Hbel Hfit Hbits) as (sv & E & _ & Wf & D & _).
  exists sv. auto.
Qed.

(* the bytes written are the little-endian image of the element list [sv_serialize] of Model/Sparse.v (what the
   correspondence checks of C02 / C11 compare) *)
Lemma sparse_enc_elems sp m v : bv_ok (sv_high v) -> c_enc (sparse_codec sp m) v = flat_map le64 (sv_serialize v).
Proof.
  intros Hb. unfold sv_serialize. cbn [flat_map]. rewrite flat_le64_app.
  rewrite <- (bv_enc_elems m _ Hb), <- (iv_enc_elems m). reflexivity.
Qed.
