(* The model's reading of str::from_utf8 (byte-range table 3-7 of the Unicode standard, Model/Mapped.v) accepts
   exactly the byte strings that decode to Unicode scalar values in shortest form (Spec/Utf8.v). *)
From Coq Require Import NArith List Lia ZArith Bool.
Require Import ZifyBool ZifyN ZifyNat.
Require Import SDS.Model.Mapped SDS.Spec.Utf8.
Import ListNotations.
Open Scope N_scope.
Ltac Zify.zify_post_hook ::= Z.div_mod_to_equations.
Arguments N.add : simpl never. Arguments N.sub : simpl never. Arguments N.mul : simpl never.
Arguments N.eqb : simpl never. Arguments N.ltb : simpl never. Arguments N.leb : simpl never.

Ltac split_ifs :=
  repeat match goal with
  | |- context [if ?c then _ else _] => let E := fresh "E" in destruct c eqn:E
  end.

Lemma utf8_agree_n n : forall l, (length l <= n)%nat -> mp_utf8_valid l = sp_utf8 l.
Proof.
  induction n as [|n IH]; intros l Hl; destruct l as [|b0 t0]; try reflexivity; cbn [length] in Hl; [lia|].
  cbn [mp_utf8_valid sp_utf8]. unfold cont, inr, sp_cont, sp_scalar_ok.
  destruct (N.ltb_spec b0 128) as [H0|H0]; [apply IH; lia|].
  destruct (N.ltb_spec b0 192) as [H1|H1].
  { replace ((194 <=? b0) && (b0 <=? 223)) with false by lia.
    replace ((224 <=? b0) && (b0 <=? 239)) with false by lia.
    replace ((240 <=? b0) && (b0 <=? 244)) with false by lia. reflexivity. }
  destruct (N.ltb_spec b0 224) as [H2|H2].
  { replace ((224 <=? b0) && (b0 <=? 239)) with false by lia.
    replace ((240 <=? b0) && (b0 <=? 244)) with false by lia.
    destruct t0 as [|b1 t1]; [split_ifs; reflexivity|].
    rewrite (IH t1) by (cbn [length] in Hl; lia).
    destruct (sp_utf8 t1); rewrite ?andb_false_r, ?andb_true_r; split_ifs; try reflexivity; lia. }
  destruct (N.ltb_spec b0 240) as [H3|H3].
  { replace ((194 <=? b0) && (b0 <=? 223)) with false by lia.
    replace ((224 <=? b0) && (b0 <=? 239)) with true by lia.
    destruct t0 as [|b1 [|b2 t2]]; try reflexivity.
    rewrite (IH t2) by (cbn [length] in Hl; lia).
    destruct (sp_utf8 t2); rewrite ?andb_false_r, ?andb_true_r; [|reflexivity].
    split_ifs; lia. }
  destruct (N.ltb_spec b0 248) as [H4|H4].
  { replace ((194 <=? b0) && (b0 <=? 223)) with false by lia.
    replace ((224 <=? b0) && (b0 <=? 239)) with false by lia.
    destruct (N.le_gt_cases b0 244) as [H5|H5].
    - replace ((240 <=? b0) && (b0 <=? 244)) with true by lia.
      destruct t0 as [|b1 [|b2 [|b3 t3]]]; try reflexivity.
      rewrite (IH t3) by (cbn [length] in Hl; lia).
      destruct (sp_utf8 t3); rewrite ?andb_false_r, ?andb_true_r; [|reflexivity].
      split_ifs; lia.
    - replace ((240 <=? b0) && (b0 <=? 244)) with false by lia.
      destruct t0 as [|b1 [|b2 [|b3 t3]]]; try reflexivity.
      destruct (sp_utf8 t3); rewrite ?andb_false_r, ?andb_true_r; [|reflexivity].
      lia. }
  replace ((194 <=? b0) && (b0 <=? 223)) with false by lia.
  replace ((224 <=? b0) && (b0 <=? 239)) with false by lia.
  replace ((240 <=? b0) && (b0 <=? 244)) with false by lia. reflexivity.
Qed.

Theorem utf8_agree l : mp_utf8_valid l = sp_utf8 l.
Proof. apply (utf8_agree_n (length l)). lia. Qed.
