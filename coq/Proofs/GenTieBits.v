(* Tie lemmas, src/bits.rs: the definitions that tools/gen.py translates from the CURRENT source (gen/Funs2.v)
   are the hand-written model functions of Model/Bits.v, for every argument and both build modes. *)
From Coq Require Import NArith List Lia ZArith Bool.
Require Import ZifyBool ZifyN ZifyNat.
Ltac Zify.zify_post_hook ::= Z.div_mod_to_equations.
Arguments N.add : simpl never.
Arguments N.sub : simpl never.
Arguments N.mul : simpl never.
Arguments N.div : simpl never.
Arguments N.modulo : simpl never.
Arguments N.pow : simpl never.
Arguments N.eqb : simpl never.
Arguments N.ltb : simpl never.
Arguments N.leb : simpl never.
Arguments N.shiftl : simpl never.
Arguments N.shiftr : simpl never.
Arguments N.land : simpl never.
Arguments N.lor : simpl never.
Open Scope N_scope.

Require Import SDS.Model.Mach SDS.Model.Bits SDS.gen.Consts SDS.gen.Tables SDS.gen.Funs SDS.gen.Funs2.

(* LOW_SET[n] / HIGH_SET[n]: bounds-checked table reads *)
Theorem tie_low_set : forall m n, f2_low_set m n = low_set n.
Proof. reflexivity. Qed.

Theorem tie_high_set : forall m n, f2_high_set m n = high_set n.
Proof. reflexivity. Qed.

(* WORD_BITS - leading_zeros(n | 1): the subtraction never underflows, whatever n *)
Theorem tie_bit_len : forall m n, f2_bit_len m n = Ok (bit_len n).
Proof.
  intros m n. unfold f2_bit_len, bit_len, usub, leading_zeros. change bits_WORD_BITS with 64.
  replace (64 - N.size (N.lor n 1) <=? 64) with true by lia. reflexivity.
Qed.

(* n.reverse_bits() >> (WORD_BITS - bits): same underflow / shift-amount behaviour in both modes *)
Theorem tie_reverse_low : forall m n bits, f2_reverse_low m n bits = reverse_low m n bits.
Proof. reflexivity. Qed.

(* (bit_offset >> INDEX_SHIFT, bit_offset & OFFSET_MASK): the shift amount is the constant 6 *)
Theorem tie_split_offset : forall m bo, f2_split_offset m bo = Ok (split_offset bo).
Proof. intros m bo. unfold f2_split_offset, split_offset, ushr. reflexivity. Qed.
