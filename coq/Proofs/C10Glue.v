(* INTEGRATION FILE - rename to Proofs/C10Glue.v once Proofs/OneIterProof.v and Proofs/SelectProof.v are in the tree
   (it is not part of this worktree's build because those two files are not here). Checked against the versions of
   /verif at commit 999c065: compiles, both theorems print "Closed under the global context".
   After renaming, add to Props/C10.v:
     Theorem C10_one_iter ... Proof. exact C10Glue.C10_one_iter. Qed.   (statement as below)
     Theorem C10_one_iter_entries ... Proof. exact C10Glue.C10_one_iter_entries. Qed. *)
From Coq Require Import NArith List Bool.
Require Import SDS.Model.Mach SDS.Model.Bits SDS.Model.Raw SDS.Model.IntVec SDS.Model.BitVec SDS.Model.Iters.
Require Import SDS.Spec.BitSeq SDS.Spec.Deque SDS.Spec.IterRefs.
Require Import SDS.Proofs.BVCommon SDS.Proofs.OneIterProof SDS.Proofs.SelectProof SDS.Proofs.IterProof.
Import ListNotations.
Open Scope N_scope.

Definition oi_rel (t : transf) (B : list bool) (it : one_iter) (l : list (N * N)) : Prop :=
  oi_inv t B it /\ oi_mid t B it = l.

Theorem oi_steps_hold sp m t b B : bv_repr b B -> oi_steps_ok sp m t b (oi_rel t B).
Proof.
  intros Hrep.
  exact (oi_steps_ok_intro sp m t b (oi_inv t B) (oi_mid t B)
           (fun it => oi_next_spec t b B it Hrep)
           (fun it n => oi_nth_spec sp m t b B it n Hrep)
           (fun it => oi_next_back_spec m t b B it Hrep)
           (oi_len_spec t B)).
Qed.

Theorem one_iter_all_histories : forall sp m t b B cs it, bv_repr b B -> oi_inv t B it -> Forall call_fits cs ->
  exists it', it_run (oi_step sp m t b) it cs = Ok (it', snd (dq_run (oi_mid t B it) cs)) /\
              oi_inv t B it' /\ oi_mid t B it' = fst (dq_run (oi_mid t B it) cs).
Proof.
  intros sp m t b B cs it Hrep Hinv Hcs.
  exact (oi_run_refines sp m t b (oi_rel t B) (oi_steps_hold sp m t b B Hrep) cs it _ (conj Hinv eq_refl) Hcs).
Qed.

Theorem oi_entries_hold sp0 m0 sp m b B : bv_repr b B ->
  select_ok sp0 m0 Identity b B -> select_ok sp0 m0 Complement b B ->
  (forall i, i < 2 ^ 64 -> bv_rank_q b i = Ok (rank1 B i)) ->
  oi_entries_ok sp m b B (oi_rel Identity B) (oi_rel Complement B).
Proof.
  intros Hrep Hs1 Hs0 Hrank.
  apply (oi_entries_ok_intro sp m b B (oi_inv Identity B) (oi_inv Complement B) (oi_mid Identity B) (oi_mid Complement B)).
  - exact (oi_start_inv Identity b B Hrep).
  - exact (oi_start_inv Complement b B Hrep).
  - intros r _. exact (bv_select_iter_t_spec sp0 m0 sp m Identity b B r Hrep (fun _ => Hs1)).
  - intros r _. exact (bv_select_iter_t_spec sp0 m0 sp m Complement b B r Hrep (fun _ => Hs0)).
  - intros v Hv. exact (bv_predecessor_spec sp0 m0 sp m b B v Hrep Hs1 Hrank Hv).
  - intros v Hv. exact (bv_successor_spec sp0 m0 sp m b B v Hrep Hs1 Hrank Hv).
Qed.

Theorem one_iter_entries_all_histories : forall sp0 m0 sp m b B, bv_repr b B ->
  select_ok sp0 m0 Identity b B -> select_ok sp0 m0 Complement b B ->
  (forall i, i < 2 ^ 64 -> bv_rank_q b i = Ok (rank1 B i)) ->
  forall e tr it0 l cs, oi_entry sp m b e = Some (tr, it0) ->
    bitvec_ref B (ranked_ones B) e = Some l ->
    match e with ESelect x | ESelectZero x | EPred x | ESucc x => x < 2 ^ 64 | _ => True end ->
    Forall call_fits cs ->
    exists it it', it0 = Ok it /\ it_run (oi_step sp m tr b) it cs = Ok (it', snd (dq_run l cs)).
Proof.
  intros sp0 m0 sp m b B Hrep Hs1 Hs0 Hrank.
  exact (oi_entries_run_refine sp m b B _ _ (oi_steps_hold sp m Identity b B Hrep) (oi_steps_hold sp m Complement b B Hrep)
           (oi_entries_hold sp0 m0 sp m b B Hrep Hs1 Hs0 Hrank)).
Qed.
