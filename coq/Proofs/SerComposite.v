(* C19, composite structures: WMCore and SparseVector load and work from files in which the embedded plain
   bitvectors carry NO support structures (or any subset of them): the loaders enable what they need after
   loading, and what they build is exactly what the native construction built, on whichever bits::select path and
   in whichever mode either side runs. Vocabulary: [sub_of w bf] (SerSupports.v) = w has the bits of bf and some
   (possibly none) of its supports; [bv_strip b] (BVFull.v) = b without supports. *)
From Coq Require Import NArith List Lia ZArith Bool.
Require Import SDS.Model.Mach SDS.Model.Bits SDS.Model.Raw SDS.Model.IntVec SDS.Model.BitVec SDS.Model.Ser.
Require Import SDS.Model.WM SDS.Model.Sparse SDS.Model.SerComposite.
Require Import SDS.gen.Consts SDS.Spec.Stream SDS.Spec.BitSeq.
Require Import SDS.Proofs.BitsProof SDS.Proofs.BVCommon SDS.Proofs.OneIterProof SDS.Proofs.SelectProof SDS.Proofs.BVFull.
Require Import SDS.Proofs.SerProof SDS.Proofs.SerTypes SDS.Proofs.SerSupports SDS.Proofs.SerRank SDS.Proofs.SerMain.
Require Import SDS.Proofs.SerSelect.
Import ListNotations.
Open Scope list_scope.
Open Scope N_scope.
Require Import ZifyBool ZifyN ZifyNat.
Ltac Zify.zify_post_hook ::= Z.div_mod_to_equations.
Arguments N.add : simpl never. Arguments N.sub : simpl never. Arguments N.mul : simpl never.
Arguments N.div : simpl never. Arguments N.modulo : simpl never. Arguments N.pow : simpl never.
Arguments N.leb : simpl never. Arguments N.ltb : simpl never. Arguments N.eqb : simpl never.
Arguments N.land : simpl never. Arguments N.lor : simpl never. Arguments N.shiftl : simpl never.
Arguments N.shiftr : simpl never. Arguments N.testbit : simpl never.

(* ------------------------------------------------------------------ one embedded bitvector *)

Lemma strip_sub_of b : sub_of (bv_strip b) b.
Proof. split; [split; reflexivity|]. cbn [bv_strip bv_rank bv_select bv_select_zero]. auto. Qed.

Lemma sub_of_trans a b c : sub_of a b -> sub_of b c -> sub_of a c.
Proof.
  intros [C1 [R1 [S1 Z1]]] [C2 [R2 [S2 Z2]]]. split; [exact (same_core_trans _ _ _ C1 C2)|].
  split; [|split].
  - destruct R1 as [E|E]; [left; exact E|]. rewrite E. exact R2.
  - destruct S1 as [E|E]; [left; exact E|]. rewrite E. exact S2.
  - destruct Z1 as [E|E]; [left; exact E|]. rewrite E. exact Z2.
Qed.

Lemma supports_lt8 b : bv_supports b < 8.
Proof. unfold bv_supports. destruct (bv_rank b), (bv_select b), (bv_select_zero b); lia. Qed.

Lemma lor_all x : x < 8 -> N.lor (N.lor (N.lor x (2 ^ 0)) (2 ^ 1)) (2 ^ 2) = 7.
Proof.
  intros H. assert (C : x = 0 \/ x = 1 \/ x = 2 \/ x = 3 \/ x = 4 \/ x = 5 \/ x = 6 \/ x = 7) by lia.
  destruct C as [->|[->|[->|[->|[->|[->|[->| ->]]]]]]]; reflexivity.
Qed.

Lemma lor_selects x : x = 0 \/ x = 2 \/ x = 4 \/ x = 6 -> N.lor (N.lor x (2 ^ 1)) (2 ^ 2) = 6.
Proof. intros [->|[->|[->| ->]]]; reflexivity. Qed.

Lemma enable_ops_all sp m b : bv_enable_ops sp m [0; 1; 2] b = bv_enable_all sp m b.
Proof.
  cbn [bv_enable_ops]. unfold bv_enable_op, bv_enable_all.
  change (0 =? 0) with true. change (1 =? 0) with false. change (1 =? 1) with true.
  change (2 =? 0) with false. change (2 =? 1) with false. cbv iota.
  apply bind_ext. intros b1. apply bind_ext. intros b2. apply bind_ret.
Qed.

Lemma enable_ops_selects sp m b :
  bv_enable_ops sp m [1; 2] b =
  (let* h1 := bv_enable_select_t sp m Identity b in bv_enable_select_t sp m Complement h1).
Proof.
  cbn [bv_enable_ops]. unfold bv_enable_op.
  change (1 =? 0) with false. change (1 =? 1) with true. change (2 =? 0) with false. change (2 =? 1) with false.
  cbv iota. apply bind_ext. intros b1. apply bind_ret.
Qed.

(* what enable_all of a representation without supports gives, for every build path / mode *)
Lemma level_built sp m B b0 :
  bv_repr b0 B -> no_supports b0 -> lenB B + 4096 < 2 ^ 64 ->
  exists bf, bv_enable_all sp m b0 = Ok bf /\ bv_repr bf B /\ bv_ok bf /\ same_core b0 bf /\
             (forall sp' m', full_of sp' m' bf) /\ bv_supports bf = 7.
Proof.
  intros Hrep H0 HL. exists (bv_full sp m b0). pose proof (bv_enable_all_closed sp m b0 B Hrep) as E.
  split; [exact E|].
  split; [exact (proj1 (built_select_supports_ok sp m b0 _ B Hrep HL H0 E))|].
  split; [exact (built_repr_bv_ok sp m b0 _ B Hrep HL H0 E)|].
  split; [exact (proj2 (enable_all_full sp m b0 _ H0 E))|].
  assert (F : forall sp' m', full_of sp' m' (bv_full sp m b0)).
  { intros sp' m'. apply (enable_all_full sp' m' b0 _ H0).
    rewrite (bv_enable_all_path sp' m' sp m b0 B Hrep). exact E. }
  split; [exact F|]. exact (proj2 (sub_of_self sp m _ (F sp m))).
Qed.

(* a vector with some of bf's supports: enable_all rebuilds bf *)
Lemma sub_enable_all sp m bf w : full_of sp m bf -> sub_of w bf -> bv_enable_all sp m w = Ok bf.
Proof.
  intros Hf Hs.
  destruct (enable_ops_sub sp m [0; 1; 2] w bf Hf Hs) as (b' & E & S' & F').
  { repeat constructor. }
  rewrite enable_ops_all in E. rewrite E. f_equal. apply (sub_of_full sp m b' bf Hf S').
  rewrite F'. cbn [ops_flags fold_left]. apply lor_all. apply supports_lt8.
Qed.

(* ------------------------------------------------------------------ WMCore: lists of levels *)

Lemma init_support_sub sp m (lsf ws : list bitvec) :
  Forall (full_of sp m) lsf -> Forall2 sub_of ws lsf -> init_support sp m ws = Ok lsf.
Proof.
  intros Hf Hs. revert Hf. induction Hs as [|w bf ws lsf Hw Ht IH]; intros Hf; cbn [init_support]; [reflexivity|].
  inversion Hf as [|? ? F1 F2]; subst.
  rewrite (sub_enable_all sp m bf w F1 Hw). cbn [bind]. rewrite (IH F2). reflexivity.
Qed.

Lemma wm_levels_dec_app m l (ws : list bitvec) rest : Forall bv_ok ws -> Forall (fun w => bv_len w = l) ws ->
  forall len0, len0 = None \/ len0 = Some l ->
  wm_levels_dec m (length ws) len0 (flat_map (c_enc (bv_codec m)) ws ++ rest) = IoOk (ws, rest).
Proof.
  intros Hok. induction Hok as [|w t Hw Ht IH]; intros Hlen len0 Hl0; cbn [length flat_map wm_levels_dec]; [reflexivity|].
  inversion Hlen as [|? ? L1 L2]; subst.
  rewrite <- app_assoc. rewrite (ok_rt _ (bv_codec_ok m) w _ Hw). cbn [iobind].
  destruct Hl0 as [->| ->].
  - rewrite (IH L2 (Some (bv_len w)) (or_intror eq_refl)). reflexivity.
  - rewrite N.eqb_refl. cbn [negb]. rewrite (IH L2 (Some (bv_len w)) (or_intror eq_refl)). reflexivity.
Qed.

Lemma Forall2_length_eq {A C} (R : A -> C -> Prop) l1 l2 : Forall2 R l1 l2 -> length l1 = length l2.
Proof. induction 1; cbn [length]; congruence. Qed.

(* The levels of a wavelet-matrix core. ls0: what From<Vec<T>> builds before init_support (any records that
   represent the level sequences Bs without supports); lsf: the levels of the natively built core. Every list ws
   of records with the bits of the native levels and ANY subset of their supports (in particular none:
   map bv_strip lsf) gives the native levels back under init_support, on every path and in every mode; written as a
   WMCore it loads as the native core. *)
Theorem levels_rebuild sp m (Bs : list (list bool)) (ls0 : list bitvec) :
  Forall2 bv_repr ls0 Bs -> Forall no_supports ls0 ->
  Forall (fun B => lenB B + select_SUPERBLOCK_SIZE < 2 ^ 64) Bs ->
  exists lsf, init_support sp m ls0 = Ok lsf /\ Forall2 bv_repr lsf Bs /\
    Forall (fun b => bv_supports b = 7) lsf /\
    Forall2 sub_of (map bv_strip lsf) lsf /\
    forall ws, Forall2 sub_of ws lsf ->
      (forall sp' m', init_support sp' m' ws = Ok lsf) /\
      (forall sp' m' len rest, 1 <= lenN ls0 <= 64 -> Forall (fun B => lenB B = len) Bs ->
         wmcore_dec sp' m' (wmcore_enc m' (mkcore ws) ++ rest) = IoOk (mkcore lsf, rest)) /\
      (forall sp' m' len first rest, 1 <= lenN ls0 <= 64 -> Forall (fun B => lenB B = len) Bs -> iv_ok first ->
         wm_dec sp' m' (wm_enc m' (mkwm len (mkcore ws) first) ++ rest) = IoOk (mkwm len (mkcore lsf) first, rest)).
Proof.
  change select_SUPERBLOCK_SIZE with 4096. intros Hrep H0 HL.
  assert (G : exists lsf, init_support sp m ls0 = Ok lsf /\ Forall2 bv_repr lsf Bs /\
                Forall (fun b => bv_supports b = 7) lsf /\ Forall bv_ok lsf /\
                Forall (fun bf => forall sp' m', full_of sp' m' bf) lsf).
  { revert H0 HL. induction Hrep as [|b0 B ls0 Bs Hb Ht IH]; intros H0 HL.
    - exists []. repeat split; constructor.
    - inversion H0 as [|? ? N1 N2]; subst. inversion HL as [|? ? L1 L2]; subst.
      destruct (level_built sp m B b0 Hb N1 L1) as (bf & E & R & W & _ & F & S7).
      destruct (IH N2 L2) as (lsf & E' & R' & S' & W' & F').
      exists (bf :: lsf). cbn [init_support]. rewrite E. cbn [bind]. rewrite E'. cbn [bind].
      split; [reflexivity|]. repeat split; constructor; assumption. }
  destruct G as (lsf & E & R & S7 & W & F). exists lsf.
  split; [exact E|]. split; [exact R|]. split; [exact S7|].
  split. { clear. induction lsf as [|b t IH]; cbn [map]; constructor; [apply strip_sub_of|exact IH]. }
  intros ws Hs.
  assert (Core : forall sp' m' len rest, 1 <= lenN ls0 <= 64 -> Forall (fun B => lenB B = len) Bs ->
            wmcore_dec sp' m' (wmcore_enc m' (mkcore ws) ++ rest) = IoOk (mkcore lsf, rest)).
  2:{ split; [|split; [exact Core|]].
      - intros sp' m'. apply init_support_sub; [|exact Hs].
        eapply Forall_impl; [|exact F]. cbv beta. intros bf Hf. apply Hf.
      - intros sp' m' len first rest Hw Hlen Hfirst.
        pose proof (Forall2_length_eq _ _ _ Hrep) as Hl3.
        destruct R as [|bf B lsf' Bs' R1 R2]; [unfold lenN in Hw; cbn [length] in Hl3; rewrite Hl3 in Hw; cbn in Hw; lia|].
        inversion Hlen as [|? ? L1 L2]; subst. inversion HL as [|? ? B1 B2]; subst.
        unfold wm_enc, wm_dec. cbn [wm_len wm_data wm_first].
        rewrite <- !app_assoc. rewrite dec_elem_app by lia. cbn [iobind].
        rewrite (Core sp' m' (lenB B) _ Hw Hlen). cbn [iobind].
        unfold wc_len, idx. cbn [wc_levels nthN]. change (0 =? 0) with true. cbn [bind io_of_res iobind].
        destruct (repr_facts bf B R1) as (HB & _). rewrite <- HB, N.eqb_refl. cbn [negb].
        rewrite (ok_rt _ (iv_codec_ok m') first _ Hfirst). cbn [iobind]. reflexivity. }
  { intros sp' m' len rest Hw Hlen.
    pose proof (Forall2_length_eq _ _ _ Hs) as Hl1. pose proof (Forall2_length_eq _ _ _ R) as Hl2.
    pose proof (Forall2_length_eq _ _ _ Hrep) as Hl3.
    assert (Hwok : Forall bv_ok ws).
    { clear - Hs W. induction Hs as [|w bf ws lsf Hw Ht IH]; [constructor|].
      inversion W as [|? ? W1 W2]; subst. constructor; [exact (sub_ok w bf W1 Hw)|exact (IH W2)]. }
    assert (Hwlen : Forall (fun w => bv_len w = len) ws).
    { clear - Hs R Hlen. revert Bs R Hlen. induction Hs as [|w bf ws lsf Hw Ht IH]; intros Bs R Hlen; [constructor|].
      inversion R as [|? B ? Bs' R1 R2]; subst. inversion Hlen as [|? ? L1 L2]; subst. constructor; [|exact (IH _ R2 L2)].
      destruct Hw as [[_ Hd] _]. unfold bv_len. rewrite Hd.
      destruct (repr_facts bf B R1) as (HB & _). unfold bv_len in HB. rewrite <- HB. reflexivity. }
    assert (Hwidth : wc_width (mkcore ws) = lenN ls0).
    { unfold wc_width, lenN. cbn [wc_levels]. congruence. }
    unfold wmcore_enc, wmcore_dec. rewrite Hwidth. cbn [wc_levels].
    rewrite <- app_assoc. rewrite dec_elem_app by lia. cbn [iobind].
    change bits_WORD_BITS with 64.
    replace ((lenN ls0 =? 0) || (64 <? lenN ls0)) with false by lia.
    assert (Hn : N.to_nat (lenN ls0) = length ws) by (unfold lenN; rewrite Nat2N.id; congruence).
    rewrite Hn, (wm_levels_dec_app m' len ws rest Hwok Hwlen None (or_introl eq_refl)). cbn [iobind].
    rewrite (init_support_sub sp' m' lsf ws); [reflexivity| |exact Hs].
    eapply Forall_impl; [|exact F]. cbv beta. intros bf Hf. apply Hf. }
Qed.

(* ------------------------------------------------------------------ SparseVector: the high part *)

Lemma supports6_rank b : bv_supports b = 6 -> bv_rank b = None.
Proof. unfold bv_supports. destruct (bv_rank b), (bv_select b), (bv_select_zero b); intros H; try reflexivity; lia. Qed.

Lemma supports_no_rank b : bv_rank b = None ->
  bv_supports b = 0 \/ bv_supports b = 2 \/ bv_supports b = 4 \/ bv_supports b = 6.
Proof. unfold bv_supports. intros ->. destruct (bv_select b), (bv_select_zero b); cbn; auto. Qed.

(* The high part of an Elias-Fano vector. h0: From<RawVector> of the builder's high bits (any record that
   represents H without supports); hf: the high part of the natively built vector (enable_select, then
   enable_select_zero). Every record w with the bits of hf and any subset of its two select supports (in particular
   none) becomes hf again under the two enables of SparseVector::load, on every path and in every mode; and a
   sparse vector written with w in place of hf loads as the native one (low, len: whatever passes the loader's two
   sanity checks). *)
Theorem high_rebuild sp m (H : list bool) (h0 : bitvec) :
  bv_repr h0 H -> no_supports h0 -> lenB H + select_SUPERBLOCK_SIZE < 2 ^ 64 ->
  exists h1 hf, bv_enable_select_t sp m Identity h0 = Ok h1 /\ bv_enable_select_t sp m Complement h1 = Ok hf /\
    bv_repr hf H /\ bv_rank hf = None /\ bv_select hf <> None /\ bv_select_zero hf <> None /\
    sub_of (bv_strip hf) hf /\
    forall w, sub_of w hf ->
      (forall sp' m', exists h1', bv_enable_select_t sp' m' Identity w = Ok h1' /\
                                  bv_enable_select_t sp' m' Complement h1' = Ok hf) /\
      (forall sp' m' len low bk rest, len < 2 ^ 64 -> iv_ok low ->
         ilen low = count H -> get_buckets len (iwidth low) = Ok bk -> lenB H = ilen low + bk ->
         sparse_dec sp' m' (sparse_enc m' (mksv len w low) ++ rest) = IoOk (mksv len hf low, rest)).
Proof.
  change select_SUPERBLOCK_SIZE with 4096. intros Hrep H0 HL.
  destruct (level_built sp m H h0 Hrep H0 HL) as (bf & E & Rf & Wf & C0 & F & S7).
  assert (Hsub0 : sub_of h0 bf).
  { destruct H0 as (N1 & N2 & N3). split; [exact C0|]. auto. }
  assert (Sel : forall sp' m' w, sub_of w bf -> bv_rank w = None ->
            exists h1' hf', bv_enable_select_t sp' m' Identity w = Ok h1' /\
              bv_enable_select_t sp' m' Complement h1' = Ok hf' /\ sub_of hf' bf /\ bv_supports hf' = 6).
  { intros sp' m' w Hw Hr.
    destruct (enable_ops_sub sp' m' [1; 2] w bf (F sp' m') Hw) as (b' & Eo & S' & F'); [repeat constructor|].
    rewrite enable_ops_selects in Eo.
    destruct (bv_enable_select_t sp' m' Identity w) as [h1'| |] eqn:E1; cbn [bind] in Eo; try discriminate.
    exists h1', b'. split; [reflexivity|]. split; [exact Eo|]. split; [exact S'|].
    rewrite F'. cbn [ops_flags fold_left]. apply lor_selects. apply supports_no_rank. exact Hr. }
  destruct (Sel sp m h0 Hsub0 (proj1 H0)) as (h1 & hf & E1 & E2 & Shf & S6).
  exists h1, hf. split; [exact E1|]. split; [exact E2|].
  assert (Chf : same_core hf bf) by (destruct Shf as [Cc _]; exact Cc).
  assert (Rhf : bv_repr hf H).
  { apply (bv_repr_same bf hf H); [|exact Rf]. destruct Chf as [Co Cd]. split; congruence. }
  split; [exact Rhf|].
  pose proof (supports6_rank hf S6) as Rk. split; [exact Rk|].
  split. { unfold bv_supports in S6. rewrite Rk in S6. destruct (bv_select hf); [discriminate|].
           destruct (bv_select_zero hf); cbn in S6; lia. }
  split. { unfold bv_supports in S6. rewrite Rk in S6. destruct (bv_select_zero hf); [discriminate|].
           destruct (bv_select hf); cbn in S6; lia. }
  split; [apply strip_sub_of|].
  intros w Hw.
  assert (Hwf : sub_of w bf) by exact (sub_of_trans w hf bf Hw Shf).
  assert (Hwr : bv_rank w = None).
  { destruct Hw as (_ & [Rw|Rw] & _); [exact Rw|congruence]. }
  assert (Again : forall sp' m', exists h1', bv_enable_select_t sp' m' Identity w = Ok h1' /\
                                  bv_enable_select_t sp' m' Complement h1' = Ok hf).
  { intros sp' m'. destruct (Sel sp' m' w Hwf Hwr) as (h1' & hf' & A1 & A2 & A3 & A4).
    exists h1'. split; [exact A1|]. rewrite A2. f_equal. apply (sub_of_eq hf' hf bf A3 Shf). congruence. }
  split; [exact Again|].
  intros sp' m' len low bk rest Hlen Hlow Hcnt Hbk Htot.
  destruct (Again sp' m') as (h1' & A1 & A2).
  pose proof (sub_ok w bf Wf Hwf) as Wok.
  destruct (repr_facts hf H Rhf) as (HB & HBlt & _ & _ & _ & Ho).
  unfold sparse_enc, sparse_dec. cbn [sv_len sv_high sv_low].
  rewrite <- !app_assoc. rewrite dec_elem_app by exact Hlen. cbn [iobind].
  rewrite (ok_rt _ (bv_codec_ok m') w _ Wok). cbn [iobind].
  rewrite (ok_rt _ (iv_codec_ok m') low _ Hlow). cbn [iobind].
  rewrite A1. cbn [io_of_res iobind]. rewrite A2. cbn [io_of_res iobind].
  unfold bv_count_ones. rewrite Ho, Hcnt, N.eqb_refl. cbn [negb].
  rewrite Hbk. cbn [io_of_res iobind].
  unfold uadd. rewrite Hcnt in Htot. replace (count H + bk <? 2 ^ 64) with true by lia. cbn [io_of_res iobind].
  rewrite <- HB, Htot, N.eqb_refl. cbn [negb]. reflexivity.
Qed.
