(* The variable-length code of the run-length vector: a value below 2^64 is written as 1..22 four-bit code
   units (3 data bits, little endian, continuation flag); [rl_encode] appends exactly those units,
   [rl_code_len] is their number, and [rl_decode] started at the first unit returns the value and stops
   exactly after the last unit. *)
From Coq Require Import NArith List Lia ZArith Bool.
Require Import SDS.Model.Mach SDS.Model.Bits SDS.Model.Raw SDS.Model.IntVec SDS.Model.RL SDS.gen.Consts SDS.gen.Funs.
Require Import SDS.Proofs.BitsProof SDS.Proofs.RLIntVec.
Import ListNotations.
Open Scope N_scope.
Require Import ZifyBool ZifyN ZifyNat.
Ltac Zify.zify_post_hook ::= Z.div_mod_to_equations.
Arguments N.add : simpl never. Arguments N.sub : simpl never. Arguments N.mul : simpl never.
Arguments N.eqb : simpl never. Arguments N.ltb : simpl never. Arguments N.leb : simpl never.
Arguments N.pow : simpl never. Arguments N.shiftl : simpl never. Arguments N.shiftr : simpl never.
Arguments N.land : simpl never. Arguments N.lor : simpl never. Arguments N.div : simpl never.
Arguments N.modulo : simpl never. Arguments N.ones : simpl never. Arguments N.testbit : simpl never.

(* the constants this development relies on (a retuning shows up here first) *)
Lemma consts_rl_ok :
  rl_CODE_SIZE = 4 /\ rl_CODE_SHIFT = 3 /\ rl_CODE_FLAG = 8 /\ rl_CODE_MASK = 7 /\
  rl_BLOCK_SIZE = 64 /\ index_RATIO = 8.
Proof. repeat split; reflexivity. Qed.

(* ---- machine operations that do not overflow ---- *)
Lemma uadd_ok m a b : a + b < 2 ^ 64 -> uadd m a b = Ok (a + b).
Proof. intros H. unfold uadd. replace (a + b <? 2 ^ 64) with true by lia. reflexivity. Qed.
Lemma usub_ok m a b : b <= a -> usub m a b = Ok (a - b).
Proof. intros H. unfold usub. replace (b <=? a) with true by lia. reflexivity. Qed.
Lemma umul_ok m a b : a * b < 2 ^ 64 -> umul m a b = Ok (a * b).
Proof. intros H. unfold umul. replace (a * b <? 2 ^ 64) with true by lia. reflexivity. Qed.
Lemma udiv_ok m a b : b <> 0 -> udiv m a b = Ok (a / b).
Proof. intros H. unfold udiv. replace (b =? 0) with false by lia. reflexivity. Qed.
Lemma ushl_ok m a k : k < 64 -> a * 2 ^ k < 2 ^ 64 -> ushl m a k = Ok (a * 2 ^ k).
Proof.
  intros Hk H. unfold ushl. replace (k <? 64) with true by lia.
  rewrite N.shiftl_mul_pow2. rewrite N.mod_small by assumption. reflexivity.
Qed.

(* ---- the code units of a value ---- *)

Fixpoint enc_fuel (fuel : nat) (v : N) : list N :=
  match fuel with
  | O => []
  | S k => if 7 <? v then (v mod 8 + 8) :: enc_fuel k (v / 8) else [v]
  end.
Definition enc (v : N) : list N := enc_fuel 22 v.

Lemma small_cases a : a < 8 -> a = 0 \/ a = 1 \/ a = 2 \/ a = 3 \/ a = 4 \/ a = 5 \/ a = 6 \/ a = 7.
Proof. lia. Qed.

Lemma unit_small a : a < 8 ->
  N.land a 7 = a /\ N.land a 8 = 0 /\ N.lor a 8 = a + 8 /\ N.land (a + 8) 7 = a /\ N.land (a + 8) 8 = 8.
Proof.
  intros H. destruct (small_cases a H) as [->|[->|[->|[->|[->|[->|[->| ->]]]]]]]; repeat split; reflexivity.
Qed.

Lemma land7 v : N.land v 7 = v mod 8.
Proof. change 7 with (N.ones 3). rewrite N.land_ones. reflexivity. Qed.
Lemma shiftr3 v : N.shiftr v 3 = v / 8.
Proof. rewrite N.shiftr_div_pow2. reflexivity. Qed.

Lemma pow8_S k : 8 ^ N.of_nat (S k) = 8 * 8 ^ N.of_nat k.
Proof. rewrite Nat2N.inj_succ, N.pow_succ_r'. reflexivity. Qed.

Lemma enc_fuel_units fuel v : Forall (fun x => x < 2 ^ 4) (enc_fuel fuel v).
Proof.
  revert v. induction fuel as [|k IH]; intros v; cbn [enc_fuel]; [constructor|].
  destruct (N.ltb_spec 7 v).
  - constructor; [|apply IH]. change (2 ^ 4) with 16. lia.
  - constructor; [|constructor]. change (2 ^ 4) with 16. lia.
Qed.

Lemma enc_fuel_len fuel v : (1 <= fuel)%nat -> 1 <= lenN (enc_fuel fuel v) <= N.of_nat fuel.
Proof.
  revert v. induction fuel as [|k IH]; intros v Hf; [lia|]. cbn [enc_fuel].
  destruct (N.ltb_spec 7 v).
  - rewrite lenN_cons. destruct k as [|k'].
    + cbn [enc_fuel]. rewrite lenN_nil. lia.
    + specialize (IH (v / 8)). lia.
  - rewrite lenN_cons, lenN_nil. lia.
Qed.

Lemma enc_len v : 1 <= lenN (enc v) <= 22.
Proof. unfold enc. pose proof (enc_fuel_len 22 v). lia. Qed.

(* ---- encode ---- *)

Lemma encode_loop_spec fuel dv D v :
  iv_rep dv 4 D -> v < 8 ^ N.of_nat fuel -> (1 <= fuel)%nat ->
  exists dv', rl_encode_loop fuel dv v = Ok dv' /\ iv_rep dv' 4 (D ++ enc_fuel fuel v).
Proof.
  revert dv D v. induction fuel as [|k IH]; intros dv D v Hr Hv Hf; [lia|].
  cbn [rl_encode_loop enc_fuel]. change rl_CODE_MASK with 7. change rl_CODE_FLAG with 8. change rl_CODE_SHIFT with 3.
  destruct (N.ltb_spec 7 v) as [Hgt|Hle].
  - rewrite land7, shiftr3.
    destruct (unit_small (v mod 8)) as (_ & _ & Hlor & _); [lia|]. rewrite Hlor.
    destruct (iv_push_rep_small dv 4 D (v mod 8 + 8) Hr) as (d1 & Hp & Hr1); [change (2 ^ 4) with 16; lia|].
    rewrite Hp. cbn [bind].
    destruct k as [|k'].
    + change (8 ^ N.of_nat 1) with 8 in Hv. lia.
    + rewrite pow8_S in Hv. destruct (IH d1 _ (v / 8) Hr1) as (d2 & He & Hr2); [lia|lia|].
      exists d2. split; [assumption|]. rewrite <- app_assoc in Hr2. exact Hr2.
  - destruct (iv_push_rep_small dv 4 D v Hr) as (d1 & Hp & Hr1); [change (2 ^ 4) with 16; lia|].
    exists d1. split; assumption.
Qed.

Lemma pow8_22 : 2 ^ 64 < 8 ^ N.of_nat 22.
Proof. reflexivity. Qed.

Lemma rl_encode_spec dv D v :
  iv_rep dv 4 D -> v < 2 ^ 64 ->
  exists dv', rl_encode dv v = Ok dv' /\ iv_rep dv' 4 (D ++ enc v).
Proof.
  intros Hr Hv. unfold rl_encode, enc. apply encode_loop_spec; [assumption| |lia].
  pose proof pow8_22. lia.
Qed.

(* ---- decode ---- *)

Lemma decode_loop_spec fuel m dv D u value off shift pre post :
  iv_rep dv 4 D -> D = pre ++ enc_fuel fuel u ++ post -> off = lenN pre ->
  u < 8 ^ N.of_nat fuel -> value + u * 2 ^ shift < 2 ^ 64 -> (shift = 0 \/ 1 <= u) -> (1 <= fuel)%nat ->
  rl_decode_loop fuel m dv value off shift = Ok (value + u * 2 ^ shift, off + lenN (enc_fuel fuel u)).
Proof.
  revert u value off shift pre. induction fuel as [|k IH]; intros u value off shift pre Hr HD Hoff Hu Hfit Hsh Hf; [lia|].
  cbn [rl_decode_loop]. change rl_CODE_MASK with 7. change rl_CODE_FLAG with 8. change rl_CODE_SHIFT with 3.
  assert (Hshift : shift < 64).
  { destruct Hsh as [->|Hu1]; [lia|].
    destruct (N.lt_ge_cases shift 64) as [Hs|Hs]; [assumption|].
    assert (2 ^ 64 <= 2 ^ shift) by (apply N.pow_le_mono_r; lia). nia. }
  cbn [enc_fuel] in HD |- *.
  destruct (N.ltb_spec 7 u) as [Hgt|Hle].
  - (* continuation unit *)
    assert (Hget : iv_get dv off = Ok (u mod 8 + 8)).
    { eapply iv_get_rep; [exact Hr|]. subst D off.
      rewrite nthN_app_r by lia. replace (lenN pre - lenN pre) with 0 by lia. reflexivity. }
    rewrite Hget. cbn [bind].
    destruct (unit_small (u mod 8)) as (_ & _ & _ & Hl7 & Hl8); [lia|]. rewrite Hl7, Hl8.
    assert (Hpart : u mod 8 * 2 ^ shift <= u * 2 ^ shift) by (apply N.mul_le_mono_r; lia).
    rewrite ushl_ok by lia. cbn [bind]. rewrite uadd_ok by lia. cbn [bind].
    change (8 =? 0) with false. cbn iota.
    destruct k as [|k'].
    + change (8 ^ N.of_nat 1) with 8 in Hu. lia.
    + rewrite pow8_S in Hu.
      assert (Hsplit : u * 2 ^ shift = u mod 8 * 2 ^ shift + u / 8 * 2 ^ (shift + 3)).
      { rewrite N.pow_add_r. change (2 ^ 3) with 8.
        assert (E : u = 8 * (u / 8) + u mod 8) by (apply N.div_mod; lia).
        rewrite E at 1. ring. }
      rewrite (IH (u / 8) _ (off + 1) (shift + 3) (pre ++ [u mod 8 + 8])); try lia.
      * f_equal. f_equal; [lia|]. rewrite lenN_cons. lia.
      * exact Hr.
      * rewrite HD. rewrite <- app_assoc. reflexivity.
      * rewrite lenN_app. change (lenN [u mod 8 + 8]) with 1. lia.
  - (* last unit *)
    assert (Hget : iv_get dv off = Ok u).
    { eapply iv_get_rep; [exact Hr|]. subst D off.
      rewrite nthN_app_r by lia. replace (lenN pre - lenN pre) with 0 by lia. reflexivity. }
    rewrite Hget. cbn [bind].
    destruct (unit_small u) as (Hl7 & Hl8 & _); [lia|]. rewrite Hl7, Hl8.
    rewrite ushl_ok by lia. cbn [bind]. rewrite uadd_ok by lia. cbn [bind].
    change (0 =? 0) with true. cbn iota. reflexivity.
Qed.

(* decode at the first unit of [enc u]: returns u and the offset just after the units *)
Lemma rl_decode_spec m v D u pre post :
  iv_rep (rl_data v) 4 D -> D = pre ++ enc u ++ post -> u < 2 ^ 64 ->
  rl_decode m v (lenN pre) = Ok (u, lenN pre + lenN (enc u)).
Proof.
  intros Hr HD Hu. unfold rl_decode, enc.
  rewrite (decode_loop_spec 22 m (rl_data v) D u 0 (lenN pre) 0 pre post); try assumption; try reflexivity; try lia.
  change (2 ^ 0) with 1. f_equal. f_equal. lia.
Qed.

(* ---- code_len ---- *)

Lemma bit_len_div8 v : 8 <= v < 2 ^ 64 -> bit_len v = bit_len (v / 8) + 3.
Proof.
  intros Hv. rewrite !bit_len_spec by lia.
  replace (v =? 0) with false by lia. replace (v / 8 =? 0) with false by lia.
  rewrite <- shiftr3. rewrite N.log2_shiftr by lia.
  assert (3 <= N.log2 v) by (change 3 with (N.log2 8); apply N.log2_le_mono; lia). lia.
Qed.

Lemma bit_len_small v : v < 8 -> 1 <= bit_len v <= 3.
Proof.
  intros H. destruct (small_cases v H) as [->|[->|[->|[->|[->|[->|[->| ->]]]]]]]; vm_compute; split; discriminate.
Qed.

Lemma code_len_fuel fuel v :
  v < 8 ^ N.of_nat fuel -> v < 2 ^ 64 -> (1 <= fuel)%nat ->
  (bit_len v + 3 - 1) / 3 = lenN (enc_fuel fuel v).
Proof.
  revert v. induction fuel as [|k IH]; intros v Hv Hv64 Hf; [lia|]. cbn [enc_fuel].
  destruct (N.ltb_spec 7 v) as [Hgt|Hle].
  - rewrite lenN_cons. destruct k as [|k'].
    + change (8 ^ N.of_nat 1) with 8 in Hv. lia.
    + rewrite pow8_S in Hv. rewrite <- (IH (v / 8)) by lia.
      rewrite (bit_len_div8 v) by lia. lia.
  - rewrite lenN_cons, lenN_nil. pose proof (bit_len_small v). lia.
Qed.

Lemma bit_len_le_64 v : v < 2 ^ 64 -> 1 <= bit_len v <= 64.
Proof.
  intros H. rewrite bit_len_spec by assumption. destruct (N.eqb_spec v 0); [lia|].
  assert (N.log2 v < 64) by (apply N.log2_lt_pow2; lia). lia.
Qed.

Lemma rl_code_len_spec m v : v < 2 ^ 64 -> rl_code_len m v = Ok (lenN (enc v)).
Proof.
  intros Hv. unfold rl_code_len. change rl_CODE_SHIFT with 3.
  pose proof (bit_len_le_64 v Hv).
  destruct (div_round_up_spec m (bit_len v) 3) as (E & _); [lia|lia|]. rewrite E. f_equal.
  unfold enc. apply code_len_fuel; [|assumption|lia]. pose proof pow8_22. lia.
Qed.

(* the round trip, as one statement: encode v onto any data, decode at the old end gives v back and the new end *)
Theorem varint_roundtrip m v dv D u :
  iv_rep dv 4 D -> rl_data v = dv -> u < 2 ^ 64 ->
  forall pre post, D = pre ++ enc u ++ post ->
  rl_decode m v (lenN pre) = Ok (u, lenN pre + lenN (enc u)) /\ 1 <= lenN (enc u) <= 22.
Proof.
  intros Hr <- Hu pre post HD. split; [eapply rl_decode_spec; eauto|apply enc_len].
Qed.
