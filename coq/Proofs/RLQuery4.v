(* The iterators over unset bits (zero_iter, select_zero_iter) and over all bits (iter). *)
From Coq Require Import NArith List Lia ZArith Bool.
Require Import SDS.Model.Mach SDS.Model.Bits SDS.Model.Raw SDS.Model.IntVec SDS.Model.RL SDS.gen.Consts SDS.gen.Funs.
Require Import SDS.Spec.Runs.
Require Import SDS.Proofs.BitsProof SDS.Proofs.RLIntVec SDS.Proofs.RLVarint SDS.Proofs.RLIndex SDS.Proofs.RLRep
               SDS.Proofs.RunsLemmas SDS.Proofs.RLIter SDS.Proofs.RLQuery SDS.Proofs.RLQuery2.
Import ListNotations.
Open Scope N_scope.
Require Import ZifyBool ZifyN ZifyNat.
Ltac Zify.zify_post_hook ::= Z.div_mod_to_equations.
Arguments N.add : simpl never. Arguments N.sub : simpl never. Arguments N.mul : simpl never.
Arguments N.eqb : simpl never. Arguments N.ltb : simpl never. Arguments N.leb : simpl never.
Arguments N.pow : simpl never. Arguments N.min : simpl never.

(* zeros before the end of a prefix of the runs *)
Definition zb (dn : list run) : N := runs_end_from 0 dn - rones dn.

Section Query4.
  Variable m : mode.
  Variable v : rlvec.
  Variable BS : list (list run).
  Variable L : N.
  Hypothesis Hok : rl_ok v BS L.

  Let F := concat BS.
  Notation Abs := (RLIter.Abs BS).
  Local Notation abs_ok := (abs_ok v BS L Hok).
  Local Notation fuel_ok := (fuel_ok v BS L Hok).
  Local Notation F_ok := (F_ok v BS L Hok).

  Definition zitem (k : N) : option (N * N) :=
    match runs_select_zero F L k with Some p => Some (k, p) | None => None end.

  (* the k-th zero inside the gap before run r *)
  Lemma sz_in_gap dn' r rest k :
    F = dn' ++ r :: rest -> zb dn' <= k -> k < fst r - rones dn' ->
    runs_select_zero F L k = Some (k + rones dn').
  Proof.
    intros HF Hlo Hhi. pose proof F_ok as Hf. fold F in Hf. rewrite HF in Hf.
    apply runs_ok_app in Hf. destruct Hf as [Hd Hr]. pose proof (rones_le_end _ _ _ Hd) as Hle.
    unfold runs_select_zero. rewrite HF. unfold zb in Hlo.
    rewrite (sz_app dn' true 0 (r :: rest) L k Hd) by lia. rewrite sz_cons.
    cbn [runs_ok] in Hr. destruct Hr as (H0 & _).
    assert (runs_end_from 0 dn' <= fst r) by (destruct dn'; lia).
    replace (k - (runs_end_from 0 dn' - 0 - rones dn') <? fst r - runs_end_from 0 dn') with true by lia.
    f_equal. lia.
  Qed.

  (* the k-th zero after the last run *)
  Lemma sz_trailing k :
    zb F <= k -> k < L - rones F -> runs_select_zero F L k = Some (k + rones F).
  Proof.
    intros Hlo Hhi. pose proof F_ok as Hf. fold F in Hf. pose proof (rones_le_end _ _ _ Hf) as Hle.
    pose proof (F_end v BS L Hok) as He. fold F in He. unfold zb in Hlo.
    unfold runs_select_zero. rewrite <- (app_nil_r F) at 1.
    rewrite (sz_app F true 0 [] L k Hf) by lia. cbn [runs_select_zero_from].
    replace (k - (runs_end_from 0 F - 0 - rones F) <? L - runs_end_from 0 F) with true by lia.
    f_equal. lia.
  Qed.

  Lemma sz_past k : L - rones F <= k -> runs_select_zero F L k = None.
  Proof.
    intros H. pose proof (F_end v BS L Hok) as He. fold F in He.
    unfold runs_select_zero. apply (sz_none F true 0 L k F_ok); [exact He|lia].
  Qed.

  (* a ZeroIter whose next item has rank k *)
  Definition ZI (s : zeroiter) (k : N) : Prop :=
    fst (zi_pos s) = k /\
    exists dn todo, Abs (zi_iter s) dn todo /\
      ((zi_got_none s = false /\ exists dn' r, dn = dn' ++ [r] /\ zb dn' <= k /\ k <= zb dn /\
                                              (k < zb dn -> snd (zi_pos s) = k + rones dn')) \/
       (zi_got_none s = true /\ todo = [] /\ zb dn <= k /\ snd (zi_pos s) = k + rones dn)).

  Lemma zb_snoc dn' r : runs_ok true 0 (dn' ++ [r]) -> zb (dn' ++ [r]) = fst r - rones dn'.
  Proof.
    intros H. unfold zb. rewrite runs_end_from_app, rones_app. cbn [runs_end_from rones].
    apply runs_ok_app in H. destruct H as [Hd Hr]. pose proof (rones_le_end _ _ _ Hd).
    cbn [runs_ok] in Hr. assert (runs_end_from 0 dn' <= fst r) by (destruct dn'; lia). lia.
  Qed.

  Lemma zi_next_spec s k : ZI s k ->
    exists s', zi_next m v s = Ok (s', zitem k) /\ (zitem k <> None -> ZI s' (k + 1)).
  Proof.
    intros (Hk & dn & todo & Ha & Hcase).
    destruct (abs_ok _ _ _ Ha) as (HF & Hr & Ho & Hdn & Htd). fold F in HF.
    pose proof (rones_le_end _ _ _ Hdn) as Hle.
    assert (Hrz : ri_rank_zero (zi_iter s) = zb dn) by (unfold ri_rank_zero, zb; rewrite Hr, Ho; reflexivity).
    unfold zi_next. rewrite Hrz, Hk. unfold rl_count_zeros. rewrite (ones_F v BS L Hok), (len_L v BS L Hok). fold F.
    destruct Hcase as [(Hg & dn' & r & Hdn' & Hlo & Hhi & Hpos)|(Hg & Htodo & Hlo & Hpos)]; rewrite Hg; cbn [negb andb].
    - (* live *)
      destruct (N.leb_spec (zb dn) k) as [Hfetch|Hin].
      + (* k = zb dn: fetch the next run *)
        assert (Hkz : k = zb dn) by lia.
        destruct todo as [|r2 t].
        * rewrite (next_spec m v BS L Hok _ dn [] Ha). cbn [bind zi_got_none zi_pos fst snd zi_iter].
          rewrite app_nil_r in HF.
          destruct (N.leb_spec (L - rones F) k) as [Hend|Hmore].
          -- eexists. split; [|unfold zitem; rewrite sz_past by lia; congruence].
             unfold zitem. rewrite sz_past by lia. reflexivity.
          -- eexists. split.
             ++ assert (Hz1 : zb F <= k) by (rewrite HF; lia).
                unfold zitem. rewrite sz_trailing by assumption. rewrite HF, Ho.
                replace (runs_end_from 0 dn) with (k + rones dn) by (unfold zb in Hkz; lia). reflexivity.
             ++ intros _. split; [reflexivity|]. cbn [zi_iter zi_got_none zi_pos fst snd].
                exists dn, []. split; [exact Ha|]. right. split; [reflexivity|]. split; [reflexivity|].
                split; lia.
        * destruct (next_spec m v BS L Hok _ dn (r2 :: t) Ha) as (it' & Ha' & Hn). rewrite Hn.
          cbn [bind zi_got_none zi_pos fst snd zi_iter].
          destruct (abs_ok _ _ _ Ha') as (_ & _ & _ & Hdn2 & _).
          pose proof (zb_snoc dn r2 Hdn2) as Hz2.
          cbn [runs_ok] in Htd. rewrite Hdn' in Htd.
          replace (match dn' ++ [r] with [] => true | _ :: _ => false end) with false in Htd by (destruct dn'; reflexivity).
          rewrite <- Hdn' in Htd. destruct Htd as (Hgap & Hl2 & _).
          pose proof (runs_bound v BS L Hok dn r2 t) as Hb. fold F in Hb. specialize (Hb HF). destruct Hb as (_ & _ & Hb3 & _).
          assert (Hzl : k < L - rones F).
          { rewrite HF, rones_app. cbn [rones]. unfold zb in Hkz.
            assert (fst r2 + snd r2 + rones t <= L).
            { pose proof F_ok as Hf. fold F in Hf. rewrite HF in Hf. apply runs_ok_app in Hf. destruct Hf as [_ Hf].
              cbn [runs_ok] in Hf. destruct Hf as (_ & _ & Hf). pose proof (rones_le_end _ _ _ Hf).
              pose proof (F_end v BS L Hok) as He. fold F in He. rewrite HF, runs_end_from_app in He.
              cbn [runs_end_from] in He. lia. }
            lia. }
          replace (L - rones F <=? k) with false by lia.
          eexists. split.
          -- unfold zitem. rewrite (sz_in_gap dn r2 t k HF) by (unfold zb in *; lia). rewrite Ho.
             replace (runs_end_from 0 dn) with (k + rones dn) by (unfold zb in Hkz; lia). reflexivity.
          -- intros _. split; [reflexivity|]. cbn [zi_iter zi_got_none zi_pos fst snd].
             exists (dn ++ [r2]), t. split; [exact Ha'|]. left. split; [reflexivity|].
             exists dn, r2. split; [reflexivity|]. rewrite Hz2. unfold zb in *.
             split; [lia|]. split; [lia|]. intros _. lia.
      + (* inside the gap before r *)
        cbn [bind]. rewrite Hk. specialize (Hpos Hin).
        rewrite Hdn' in Hdn. pose proof (zb_snoc dn' r Hdn) as Hz. rewrite <- Hdn' in Hz.
        assert (HF2 : F = dn' ++ r :: todo) by (rewrite HF, Hdn', <- app_assoc; reflexivity).
        assert (Hzl : k < L - rones F).
        { rewrite HF2, rones_app. cbn [rones].
          pose proof F_ok as Hf. fold F in Hf. rewrite HF2 in Hf. apply runs_ok_app in Hf. destruct Hf as [_ Hf].
          cbn [runs_ok] in Hf. destruct Hf as (_ & _ & Hf). pose proof (rones_le_end _ _ _ Hf).
          pose proof (F_end v BS L Hok) as He. fold F in He. rewrite HF2, runs_end_from_app in He.
          cbn [runs_end_from] in He. lia. }
        replace (L - rones F <=? k) with false by lia.
        eexists. split.
        * unfold zitem. rewrite (sz_in_gap dn' r todo k HF2) by lia.
          rewrite <- Hpos, <- Hk. rewrite <- surjective_pairing. reflexivity.
        * intros _. split; [cbn [zi_pos fst]; lia|]. cbn [zi_iter zi_got_none zi_pos fst snd].
          exists dn, todo. split; [exact Ha|]. left. split; [exact Hg|].
          exists dn', r. split; [exact Hdn'|]. split; [lia|]. split; [lia|]. intros _. lia.
    - (* the run iterator is exhausted: trailing zeros *)
      cbn [bind]. rewrite Hk. subst todo. rewrite app_nil_r in HF.
      destruct (N.leb_spec (L - rones F) k) as [Hend|Hmore].
      + eexists. split; [|unfold zitem; rewrite sz_past by lia; congruence].
        unfold zitem. rewrite sz_past by lia. reflexivity.
      + eexists. split.
        * assert (Hz1 : zb F <= k) by (rewrite HF; lia).
          unfold zitem. rewrite sz_trailing by assumption. rewrite HF, <- Hpos, <- Hk.
          rewrite <- surjective_pairing. reflexivity.
        * intros _. split; [cbn [zi_pos fst]; lia|]. cbn [zi_iter zi_got_none zi_pos fst snd].
          exists dn, []. split; [exact Ha|]. right. split; [exact Hg|]. split; [reflexivity|]. split; lia.
  Qed.

  Lemma zi_take_spec : forall n s k, ZI s k -> zi_take n m v s = Ok (zeros_from_rank n F L k).
  Proof.
    induction n as [|n IH]; intros s k Hs; [reflexivity|]. cbn [zi_take zeros_from_rank].
    destruct (zi_next_spec s k Hs) as (s' & Hn & Hnext). rewrite Hn. cbn [bind].
    unfold zitem in *. destruct (runs_select_zero F L k) as [p|]; [|reflexivity].
    rewrite (IH s' (k + 1)) by (apply Hnext; discriminate). reflexivity.
  Qed.

  Lemma zero_iter_spec n : (let* s := rl_zero_iter m v in zi_take n m v s) = Ok (zeros_from_rank n F L 0).
  Proof.
    unfold rl_zero_iter. destruct (run_iter_spec v BS L Hok) as (it & Hit & Ha). rewrite Hit. cbn [bind].
    assert (Hc : forall T : list run, T = [] \/ exists r t, T = r :: t)
      by (intros T; destruct T as [|r t]; [left; reflexivity|right; exists r, t; reflexivity]).
    destruct (Hc (concat BS)) as [E|(r & t & E)]; rewrite E in Ha.
    - rewrite (next_spec m v BS L Hok it [] [] Ha). cbn [bind].
      apply zi_take_spec. split; [reflexivity|]. cbn [zi_iter zi_got_none zi_pos fst snd].
      exists [], []. split; [exact Ha|]. right. unfold zb. cbn [runs_end_from rones].
      split; [reflexivity|]. split; [reflexivity|]. split; [lia|reflexivity].
    - destruct (next_spec m v BS L Hok it [] (r :: t) Ha) as (it' & Ha' & Hn).
      rewrite Hn. cbn [bind]. apply zi_take_spec. split; [reflexivity|].
      cbn [zi_iter zi_got_none zi_pos fst snd]. exists ([] ++ [r]), t. split; [exact Ha'|]. left.
      split; [reflexivity|]. exists [], r. split; [reflexivity|].
      destruct (abs_ok _ _ _ Ha') as (_ & _ & _ & Hd & _). rewrite (zb_snoc [] r Hd).
      unfold zb. cbn [runs_end_from rones]. split; [lia|]. split; [lia|]. intros _. lia.
  Qed.

  (* the structure of the loop shared by select_zero and select_zero_iter *)
  Lemma sz_loop_struct rank : forall todo fuel it dn,
    Abs it dn todo -> (length todo < fuel)%nat -> zb dn <= rank ->
    exists it' gn ones dn2 todo2,
      rl_sz_loop fuel m v it (rones dn) rank = Ok (it', gn, ones) /\ Abs it' dn2 todo2 /\
      ((gn = false /\ exists dn' r, dn2 = dn' ++ [r] /\ ones = rones dn' /\ zb dn' <= rank < zb dn2) \/
       (gn = true /\ todo2 = [] /\ ones = rones dn2 /\ zb dn2 <= rank)).
  Proof.
    induction todo as [|r t IH]; intros fuel it dn Ha Hf Hz; (destruct fuel as [|k]; [cbn [length] in Hf; lia|]).
    - cbn [rl_sz_loop]. rewrite (next_spec m v BS L Hok it dn [] Ha). cbn [bind].
      exists it, true, (rones dn), dn, []. split; [reflexivity|]. split; [exact Ha|]. right. repeat split; assumption.
    - cbn [rl_sz_loop]. destruct (next_spec m v BS L Hok it dn (r :: t) Ha) as (it' & Ha' & Hn).
      rewrite Hn. cbn [bind].
      destruct (abs_ok _ _ _ Ha') as (_ & Hr' & Ho' & Hdn' & _).
      assert (Hrz : ri_rank_zero it' = zb (dn ++ [r])) by (unfold ri_rank_zero, zb; rewrite Hr', Ho'; reflexivity).
      rewrite Hrz. destruct (N.ltb_spec rank (zb (dn ++ [r]))) as [Hin|Hout].
      + exists it', false, (rones dn), (dn ++ [r]), t. split; [reflexivity|]. split; [exact Ha'|]. left.
        split; [reflexivity|]. exists dn, r. repeat split; assumption.
      + cbn [length] in Hf. rewrite Hr'. apply (IH k it' (dn ++ [r]) Ha'); [lia|assumption].
  Qed.

  Lemma select_zero_iter_spec rank n :
    (let* s := rl_select_zero_iter m v rank in zi_take n m v s) = Ok (zeros_from_rank n F L rank).
  Proof.
    unfold rl_select_zero_iter, rl_count_zeros. rewrite (ones_F v BS L Hok), (len_L v BS L Hok). fold F.
    destruct (N.leb_spec (L - rones F) rank) as [Hge|Hlt].
    - cbn [bind]. destruct n as [|n]; [reflexivity|]. cbn [zi_take zeros_from_rank zi_next zi_got_none negb andb bind zi_pos fst].
      unfold rl_count_zeros. rewrite (ones_F v BS L Hok), (len_L v BS L Hok). fold F.
      replace (L - rones F <=? L - rones F) with true by lia. cbn [bind].
      rewrite sz_past by lia. reflexivity.
    - destruct (iter_for_zero_spec m v BS L Hok rank Hlt) as (it & dn & todo & Hit & Ha & Hd).
      rewrite Hit. cbn [bind]. destruct (abs_ok _ _ _ Ha) as (_ & Hr & _). rewrite Hr.
      destruct (sz_loop_struct rank todo _ it dn Ha (fuel_ok _ _ _ Ha) Hd) as (it' & gn & ones & dn2 & todo2 & Hl & Ha' & Hc).
      rewrite Hl. cbn [bind]. pose proof (L_lt v BS L Hok) as HL.
      destruct (abs_ok _ _ _ Ha') as (HF2 & _ & _ & Hdn2 & _). fold F in HF2.
      pose proof (ones_le_L v BS L Hok) as HoL. fold F in HoL.
      assert (Hones : ones <= rones F).
      { destruct Hc as [(_ & dn' & r & -> & -> & _)|(_ & -> & -> & _)].
        - rewrite HF2, <- app_assoc, rones_app. lia.
        - rewrite HF2, app_nil_r. lia. }
      rewrite uadd_ok by lia. cbn [bind]. apply zi_take_spec. split; [reflexivity|].
      cbn [zi_iter zi_got_none zi_pos fst snd]. exists dn2, todo2. split; [exact Ha'|].
      destruct Hc as [(-> & dn' & r & Hd2 & Ho & Hz1 & Hz2)|(-> & Ht2 & Ho & Hz)].
      + left. split; [reflexivity|]. exists dn', r. split; [exact Hd2|]. split; [lia|]. split; [lia|].
        intros _. rewrite Ho. reflexivity.
      + right. split; [reflexivity|]. split; [exact Ht2|]. split; [lia|]. rewrite Ho. reflexivity.
  Qed.

  (* ---- Iter: all bits ---- *)

  Definition BI (s : bititer) (p : N) : Prop :=
    bi_pos s = p /\
    exists dn todo, Abs (bi_iter s) dn todo /\
      ((bi_run s = Some (0, 0) /\ dn = [] /\ p = 0) \/
       (exists dn' r, bi_run s = Some r /\ dn = dn' ++ [r] /\ runs_end_from 0 dn' <= p <= fst r + snd r) \/
       (bi_run s = None /\ todo = [] /\ runs_end_from 0 dn <= p)).

  Definition bitem (p : N) : option bool := if p <? L then Some (runs_get F p) else None.

  Lemma get_in_run dn' r rest p :
    F = dn' ++ r :: rest -> runs_end_from 0 dn' <= p < fst r + snd r -> runs_get F p = (fst r <=? p).
  Proof.
    intros HF Hp. pose proof F_ok as Hf. fold F in Hf. rewrite HF in Hf.
    apply runs_ok_app in Hf. destruct Hf as [Hd Hr]. cbn [runs_ok] in Hr. destruct Hr as (_ & _ & Hr).
    rewrite HF, runs_get_app. rewrite (runs_get_above _ _ _ _ Hd) by lia.
    unfold runs_get. cbn [existsb orb]. fold (runs_get rest p).
    rewrite (runs_get_below _ _ _ _ Hr) by lia. unfold in_run.
    replace (p <? fst r + snd r) with true by lia. rewrite andb_true_r, orb_false_r. reflexivity.
  Qed.

  Lemma get_after p : runs_end_from 0 F <= p -> runs_get F p = false.
  Proof. intros H. apply (runs_get_above _ _ _ _ F_ok). exact H. Qed.

  Lemma bi_step_some s p dn' r todo :
    bi_pos s = p -> bi_run s = Some r -> Abs (bi_iter s) (dn' ++ [r]) todo ->
    runs_end_from 0 dn' <= p < fst r + snd r ->
    exists s', (let pos := bi_pos s + 1 in Ok (mkbi (bi_iter s) (bi_run s) pos, Some (fst r <? pos))) = Ok (s', bitem p) /\
               BI s' (p + 1).
  Proof.
    intros Hp Hrun Ha Hin. destruct (abs_ok _ _ _ Ha) as (HF & _). fold F in HF. rewrite <- app_assoc in HF. cbn [app] in HF.
    pose proof (runs_bound v BS L Hok dn' r todo) as Hb. fold F in Hb. specialize (Hb HF). destruct Hb as (_ & _ & Hb3 & _).
    eexists. split.
    - unfold bitem. replace (p <? L) with true by lia. rewrite (get_in_run dn' r todo p HF Hin). rewrite Hp.
      replace (fst r <? p + 1) with (fst r <=? p) by lia. reflexivity.
    - split; [cbn [bi_pos]; lia|]. cbn [bi_iter bi_run]. exists (dn' ++ [r]), todo. split; [exact Ha|].
      right. left. exists dn', r. split; [exact Hrun|]. split; [reflexivity|lia].
  Qed.

  Lemma bi_step_none s p dn :
    bi_pos s = p -> bi_run s = None -> Abs (bi_iter s) dn [] -> runs_end_from 0 dn <= p ->
    exists s', (if L <=? bi_pos s then Ok (s, None)
                else Ok (mkbi (bi_iter s) (bi_run s) (bi_pos s + 1), Some false)) = Ok (s', bitem p) /\
               (bitem p <> None -> BI s' (p + 1)).
  Proof.
    intros Hp Hrun Ha Hin. destruct (abs_ok _ _ _ Ha) as (HF & _). fold F in HF. rewrite app_nil_r in HF.
    rewrite Hp. unfold bitem. destruct (N.leb_spec L p) as [Hend|Hmore].
    - replace (p <? L) with false by lia. exists s. split; [reflexivity|congruence].
    - replace (p <? L) with true by lia. eexists. split.
      + rewrite get_after by (rewrite HF; exact Hin). reflexivity.
      + intros _. split; [cbn [bi_pos]; lia|]. cbn [bi_iter bi_run]. exists dn, []. split; [exact Ha|].
        right. right. split; [exact Hrun|]. split; [reflexivity|lia].
  Qed.

  Lemma bi_next_spec s p : BI s p ->
    exists s', bi_next m v s = Ok (s', bitem p) /\ (bitem p <> None -> BI s' (p + 1)).
  Proof.
    intros (Hp & dn & todo & Ha & Hcase).
    destruct (abs_ok _ _ _ Ha) as (HF & _ & _ & Hdn & Htd). fold F in HF.
    unfold bi_next. rewrite (len_L v BS L Hok).
    destruct Hcase as [(Hrun & Hdn0 & Hp0)|[(dn' & r & Hrun & Hdn' & Hin)|(Hrun & Htodo & Hin)]].
    - (* the initial state: fetch the first run *)
      subst dn. rewrite Hrun, Hp, Hp0. replace (0 + 0 <=? 0) with true by lia.
      destruct todo as [|r t].
      + rewrite (next_spec m v BS L Hok _ [] [] Ha). cbn [bind bi_run].
        destruct (bi_step_none (mkbi (bi_iter s) None 0) 0 [] eq_refl eq_refl Ha) as (s' & Hs' & HB); [cbn [runs_end_from]; lia|].
        exists s'. rewrite <- Hp0. cbn [bi_pos bi_iter bi_run] in Hs'. rewrite <- Hp0 in Hs'. split; [exact Hs'|]. rewrite Hp0. exact HB.
      + destruct (next_spec m v BS L Hok _ [] (r :: t) Ha) as (it' & Ha' & Hn). rewrite Hn. cbn [bind bi_run].
        cbn [runs_ok] in Htd. destruct Htd as (_ & Hl & _).
        destruct (bi_step_some (mkbi it' (Some r) 0) 0 [] r t eq_refl eq_refl Ha') as (s' & Hs' & HB); [cbn [runs_end_from]; lia|].
        exists s'. cbn [bi_pos bi_iter bi_run] in Hs'. destruct r as [st ln]. cbn [fst] in Hs'.
        rewrite <- Hp0. rewrite <- Hp0 in Hs'. split; [exact Hs'|]. intros _. rewrite Hp0. exact HB.
    - (* a current run *)
      rewrite Hrun. destruct r as [st ln] eqn:Er. cbn [fst snd] in Hin. rewrite Hp.
      destruct (N.leb_spec (st + ln) p) as [Hpast|Hinside].
      + (* it has been passed: fetch the next one *)
        assert (Hpe : p = st + ln) by lia.
        assert (Hdne : runs_end_from 0 dn = p).
        { rewrite Hdn', runs_end_from_app. cbn [runs_end_from fst snd]. lia. }
        destruct todo as [|r2 t].
        * rewrite (next_spec m v BS L Hok _ dn [] Ha). cbn [bind bi_run].
          destruct (bi_step_none (mkbi (bi_iter s) None p) p dn eq_refl eq_refl Ha) as (s' & Hs' & HB); [lia|].
          exists s'. split; [exact Hs'|exact HB].
        * destruct (next_spec m v BS L Hok _ dn (r2 :: t) Ha) as (it' & Ha' & Hn). rewrite Hn. cbn [bind bi_run].
          cbn [runs_ok] in Htd. rewrite Hdn' in Htd.
          replace (match dn' ++ [(st, ln)] with [] => true | _ :: _ => false end) with false in Htd by (destruct dn'; reflexivity).
          rewrite <- Hdn' in Htd. destruct Htd as (Hgap & Hl2 & _).
          destruct (bi_step_some (mkbi it' (Some r2) p) p dn r2 t eq_refl eq_refl Ha') as (s' & Hs' & HB); [lia|].
          exists s'. destruct r2 as [st2 ln2]. split; [exact Hs'|intros _; exact HB].
      + cbn [bind]. rewrite Hrun. rewrite Hdn' in Ha.
        destruct (bi_step_some s p dn' (st, ln) todo Hp Hrun Ha) as (s' & Hs' & HB); [cbn [fst snd]; lia|].
        exists s'. rewrite Hrun in Hs'. cbn [fst] in Hs'. split; [exact Hs'|intros _; exact HB].
    - (* trailing zeros *)
      rewrite Hrun. cbn [bind]. rewrite Hrun. subst todo.
      destruct (bi_step_none s p dn Hp Hrun Ha Hin) as (s' & Hs' & HB). rewrite Hrun in Hs'. exists s'. split; assumption.
  Qed.

  Lemma bi_take_spec : forall n s p, BI s p -> bi_take n m v s = Ok (bits_from n F L p).
  Proof.
    induction n as [|n IH]; intros s p Hs; [reflexivity|]. cbn [bi_take bits_from].
    destruct (bi_next_spec s p Hs) as (s' & Hn & Hnext). rewrite Hn. cbn [bind].
    unfold bitem in *. destruct (p <? L); [|reflexivity].
    rewrite (IH s' (p + 1)) by (apply Hnext; discriminate). reflexivity.
  Qed.

  Lemma iter_spec n : (let* s := rl_iter v in bi_take n m v s) = Ok (bits_from n F L 0).
  Proof.
    unfold rl_iter. destruct (run_iter_spec v BS L Hok) as (it & Hit & Ha). rewrite Hit. cbn [bind].
    apply bi_take_spec. split; [reflexivity|]. cbn [bi_iter bi_run]. exists [], (concat BS). split; [exact Ha|].
    left. repeat split.
  Qed.
End Query4.
