(* The builder of the sparse vector establishes the representation used by Proofs/SparseProof.v:
   SparseBuilder::new / multiset, set_unchecked, try_set, TryFrom, try_from_iter. *)
From Coq Require Import NArith List Lia ZArith Bool.
Require Import SDS.Model.Mach SDS.Model.Bits SDS.Model.Raw SDS.Model.IntVec SDS.Model.BitVec SDS.Model.Sparse.
Require Import SDS.Spec.BitSeq SDS.Spec.ValSeq SDS.Proofs.BitsProof SDS.Proofs.BVCommon SDS.Proofs.SparseSeq.
Require Import SDS.Proofs.SparseProof SDS.gen.Consts.
Import ListNotations.
Open Scope N_scope.
Require Import ZifyBool ZifyN ZifyNat.
Ltac Zify.zify_post_hook ::= Z.div_mod_to_equations.
Arguments N.add : simpl never. Arguments N.sub : simpl never. Arguments N.mul : simpl never.
Arguments N.eqb : simpl never. Arguments N.ltb : simpl never. Arguments N.leb : simpl never.
Arguments N.pow : simpl never. Arguments N.shiftl : simpl never. Arguments N.shiftr : simpl never.
Arguments N.land : simpl never. Arguments N.lor : simpl never. Arguments N.div : simpl never.
Arguments N.modulo : simpl never. Arguments N.ones : simpl never. Arguments N.testbit : simpl never.

(* ---------------------------------------------------------------- bits of a word array as a list *)

Lemma getb_app l1 l2 p : getb (l1 ++ l2) p = if p <? lenB l1 then getb l1 p else getb l2 (p - lenB l1).
Proof.
  revert p. unfold lenB. induction l1 as [|b t IH]; intros p; cbn [app getb length].
  - replace (p <? N.of_nat 0) with false by lia. f_equal. lia.
  - destruct (N.eqb_spec p 0) as [E|E]; [subst p; reflexivity|].
    rewrite IH. destruct (N.ltb_spec (p - 1) (N.of_nat (length t))), (N.ltb_spec p (N.of_nat (S (length t)))); try lia; try reflexivity.
    f_equal. lia.
Qed.

Lemma getb_bits_n k x q : q < N.of_nat k -> getb (bits_n k x) q = Some (N.testbit x q).
Proof.
  revert x q. induction k as [|k IH]; intros x q Hq; [lia|].
  rewrite bits_n_S. cbn [getb]. destruct (N.eqb_spec q 0) as [E|E].
  - subst q. rewrite N.bit0_odd. reflexivity.
  - rewrite IH by lia. rewrite N.div2_spec, N.shiftr_spec'. do 2 f_equal. lia.
Qed.

Lemma getb_firstn (l : list bool) k q : q < N.of_nat k -> getb (firstn k l) q = getb l q.
Proof.
  revert l q. induction k as [|k IH]; intros l q Hq; [lia|].
  destruct l as [|b t]; [reflexivity|]. cbn [firstn getb]. destruct (q =? 0) eqn:E; [reflexivity|]. apply IH. lia.
Qed.

Lemma getb_bits_of_words ws q : q < 64 * lenN ws -> getb (bits_of_words ws) q = Some (bit ws q).
Proof.
  unfold bits_of_words. revert q. induction ws as [|x t IH]; intros q Hq; [unfold lenN in Hq; cbn in Hq; lia|].
  rewrite lenN_cons in Hq. cbn [flat_map]. rewrite getb_app. unfold lenB. rewrite wbits_length.
  unfold bit, getw. rewrite nthN_cons.
  destruct (N.ltb_spec q (N.of_nat 64)) as [Hlt|Hge].
  - replace (q / 64 =? 0) with true by lia. rewrite wbits_bits_n, getb_bits_n by exact Hlt.
    do 2 f_equal. lia.
  - replace (q / 64 =? 0) with false by lia. rewrite IH by lia. unfold bit, getw.
    replace ((q - N.of_nat 64) / 64) with (q / 64 - 1) by lia. replace ((q - N.of_nat 64) mod 64) with (q mod 64) by lia.
    reflexivity.
Qed.

Lemma getb_bits_of len ws q : q < len -> len <= 64 * lenN ws -> getb (bits_of len ws) q = Some (bit ws q).
Proof.
  intros Hq Hl. unfold bits_of. rewrite getb_firstn by lia. apply getb_bits_of_words. lia.
Qed.

(* ---------------------------------------------------------------- RawVector::with_len(len, false) and set_bit *)

Lemma wf_repeatN k : wf (repeatN 0 k).
Proof. unfold wf. induction k; cbn [repeatN]; constructor; [lia|assumption]. Qed.
Lemma lenN_repeatN {A} (x : A) k : lenN (repeatN x k) = N.of_nat k.
Proof. unfold lenN. induction k; cbn [repeatN length]; [reflexivity|]. lia. Qed.
Lemma nthN_repeatN {A} (x : A) k i : i < N.of_nat k -> nthN (repeatN x k) i = Some x.
Proof.
  revert i. induction k as [|k IH]; intros i Hi; [lia|]. cbn [repeatN nthN].
  destruct (N.eqb_spec i 0); [reflexivity|]. apply IH. lia.
Qed.
Lemma getw_repeatN k i : getw (repeatN 0 k) i = 0.
Proof.
  unfold getw. destruct (N.lt_ge_cases i (N.of_nat k)) as [H|H].
  - rewrite nthN_repeatN by exact H. reflexivity.
  - replace (nthN (repeatN 0 k) i) with (@None N); [reflexivity|]. symmetry. apply nthN_None_ge. rewrite lenN_repeatN. exact H.
Qed.

Definition all_zero (a : list N) : Prop := forall i, getw a i = 0.

Lemma all_zero_setN a i : all_zero a -> all_zero (setN a i 0).
Proof.
  intros Hz j. destruct (N.eq_dec i j) as [<-|Hne].
  - destruct (N.lt_ge_cases i (lenN a)) as [Hl|Hl]; [apply getw_setN_eq; exact Hl|].
    unfold getw. replace (nthN (setN a i 0) i) with (@None N); [reflexivity|].
    symmetry. apply nthN_None_ge. rewrite lenN_setN. exact Hl.
  - rewrite getw_setN_neq by exact Hne. apply Hz.
Qed.

Lemma all_zero_bit a p : all_zero a -> bit a p = false.
Proof. intros Hz. unfold bit. rewrite Hz. apply N.bits_0. Qed.

Lemma raw_with_len_false len : len < 2 ^ 64 ->
  exists r, raw_with_len len false = Ok r /\ raw_wf r /\ rlen r = len /\ all_zero (rdata r).
Proof.
  intros Hlen. unfold raw_with_len, set_unused_bits, filler_value. cbn [rlen rdata].
  rewrite split_offset_spec. unfold bits_to_words. change bits_WORD_BITS with 64.
  replace (len + (64 - 1)) with (len + 63) by lia.
  set (k := N.to_nat ((len + 63) / 64)).
  assert (Hk : N.of_nat k = (len + 63) / 64) by (unfold k; lia).
  destruct (N.ltb_spec 0 (len mod 64)) as [Hpos|Hz].
  - rewrite low_set_ok by lia. cbn [bind].
    rewrite idx_getw by (rewrite lenN_repeatN; lia). cbn [bind]. rewrite getw_repeatN.
    rewrite N.land_0_l. rewrite upd_ok by (rewrite lenN_repeatN; lia). cbn [bind].
    eexists. split; [reflexivity|]. cbn [rlen rdata].
    assert (Hz : all_zero (setN (repeatN 0 k) (len / 64) 0)) by (apply all_zero_setN; intros i; apply getw_repeatN).
    split; [|split; [reflexivity|exact Hz]]. unfold raw_wf. cbn [rlen rdata].
    split; [rewrite lenN_setN, lenN_repeatN; exact Hk|]. split; [apply wf_setN; [apply wf_repeatN|lia]|].
    split; [intros p _; apply all_zero_bit; exact Hz|exact Hlen].
  - eexists. split; [reflexivity|]. cbn [rlen rdata].
    assert (Hz0 : all_zero (repeatN 0 k)) by (intros i; apply getw_repeatN).
    split; [|split; [reflexivity|exact Hz0]]. unfold raw_wf. cbn [rlen rdata].
    split; [rewrite lenN_repeatN; exact Hk|]. split; [apply wf_repeatN|].
    split; [intros p _; apply all_zero_bit; exact Hz0|exact Hlen].
Qed.

Lemma testbit_1 j : N.testbit 1 j = (j =? 0).
Proof. destruct j as [|p]; [reflexivity|destruct p; reflexivity]. Qed.

Lemma raw_set_bit_true r p : raw_wf r -> p < rlen r ->
  exists r', raw_set_bit r p true = Ok r' /\ raw_wf r' /\ rlen r' = rlen r /\
    forall q, bit (rdata r') q = if q =? p then true else bit (rdata r) q.
Proof.
  intros Hwf Hp. destruct Hwf as [Hl [Hw [Hu Hlt]]].
  unfold raw_set_bit. replace (p <? rlen r) with true by lia. unfold raw_set_bit_body. rewrite split_offset_spec.
  assert (Hi : p / 64 < lenN (rdata r)) by (rewrite Hl; lia).
  rewrite idx_getw by exact Hi. cbn [bind]. rewrite upd_ok by exact Hi. cbn [bind].
  eexists. split; [reflexivity|]. cbn [rlen rdata].
  set (w0 := getw (rdata r) (p / 64)). set (off := p mod 64).
  set (w2 := N.lor (N.land w0 (wnot (N.shiftl 1 off))) (N.shiftl 1 off)).
  assert (Hw0 : w0 < 2 ^ 64) by (apply getw_lt; exact Hw).
  assert (Hbits : forall k, N.testbit w2 k = if k =? off then true else N.testbit w0 k).
  { intros k. unfold w2, wnot. rewrite N.lor_spec, N.land_spec, N.lxor_spec, testbit_ones, testbit_shiftl, testbit_1.
    destruct (N.eqb_spec k off) as [->|Hne].
    - replace (off <=? off) with true by lia. replace (off - off =? 0) with true by lia. cbn [andb]. apply orb_true_r.
    - destruct (N.leb_spec off k) as [Hle|Hgt].
      + replace (k - off =? 0) with false by lia. cbn [andb xorb orb].
        destruct (N.ltb_spec k 64) as [Hk|Hk]; [rewrite andb_true_r, orb_false_r; reflexivity|].
        rewrite (testbit_high w0 k Hw0 Hk). reflexivity.
      + cbn [andb xorb orb]. destruct (N.ltb_spec k 64) as [Hk|Hk]; [rewrite andb_true_r, orb_false_r; reflexivity|].
        rewrite (testbit_high w0 k Hw0 Hk). reflexivity. }
  assert (Hw2 : w2 < 2 ^ 64).
  { apply lt_pow2_of_bits. intros k Hk. rewrite Hbits. replace (k =? off) with false by (unfold off; lia).
    apply testbit_high; [exact Hw0|exact Hk]. }
  assert (Hbit : forall q, bit (setN (rdata r) (p / 64) w2) q = if q =? p then true else bit (rdata r) q).
  { intros q. unfold bit. destruct (N.eq_dec (q / 64) (p / 64)) as [Heq|Hne].
    - rewrite Heq, getw_setN_eq by exact Hi. rewrite Hbits. fold w0. unfold off.
      destruct (N.eqb_spec (q mod 64) (p mod 64)) as [Hm|Hm].
      + replace (q =? p) with true by lia. reflexivity.
      + replace (q =? p) with false by lia. reflexivity.
    - rewrite getw_setN_neq by lia. replace (q =? p) with false by lia. reflexivity. }
  split; [|split; [reflexivity|exact Hbit]]. unfold raw_wf. cbn [rlen rdata].
  split; [rewrite lenN_setN; exact Hl|]. split; [apply wf_setN; assumption|].
  split; [|exact Hlt]. intros q Hq. rewrite Hbit. replace (q =? p) with false by lia. apply Hu. exact Hq.
Qed.

(* ---------------------------------------------------------------- contracts of the embedded structures *)

(* BitVector::from(raw) + enable_select + enable_select_zero answers get / select / select_zero exactly
   (established by the C01 theorems) *)
Definition high_contract (sp : selpath) (md : mode) : Prop := forall r, raw_wf r ->
  exists b1 b, bv_enable_select_t sp md Identity (bv_from_raw r) = Ok b1 /\
               bv_enable_select_t sp md Complement b1 = Ok b /\
               bv_select_ok sp md b (bits_of (rlen r) (rdata r)).

(* IntVector::with_len / set / get behave as a sequence of w-bit values (established by the C05 theorems) *)
Definition low_contract : Prop := exists R : intvec -> N -> list N -> Prop,
  (forall len w, 1 <= w <= 64 ->
     exists v, iv_with_len len w 0 = Some (Ok v) /\ R v w (repeatN 0 (N.to_nat len))) /\
  (forall v w L i x, R v w L -> i < lenN L -> x < 2 ^ w ->
     exists v', iv_set v i x = Ok v' /\ R v' w (setN L i x)) /\
  (forall v w L, R v w L -> low_ok v w L).

Lemma nthd_setN_eq L i x : i < lenN L -> nthd (setN L i x) i = x.
Proof. intros H. unfold nthd. rewrite nthN_setN_eq by exact H. reflexivity. Qed.
Lemma nthd_setN_neq L i j x : i <> j -> nthd (setN L i x) j = nthd L j.
Proof. intros H. unfold nthd. rewrite nthN_setN_neq by exact H. reflexivity. Qed.

Section Builder.
Variables (sp : selpath) (md : mode) (n w inc : N) (Vs : list N).
Variable R : intvec -> N -> list N -> Prop.
Hypothesis Rset : forall v w L i x, R v w L -> i < lenN L -> x < 2 ^ w ->
     exists v', iv_set v i x = Ok v' /\ R v' w (setN L i x).
Hypothesis Rget : forall v w L, R v w L -> low_ok v w L.
Hypothesis Hn : n < 2 ^ 64.
Hypothesis Hw : 1 <= w <= 63.
(* the first K values are in order and inside the universe *)
Variable K : N.
Hypothesis HK : K <= lenN Vs.
Hypothesis Hbound : forall i, i < K -> nthd Vs i < n.
Hypothesis Hinc : inc <= 1.
Hypothesis Hord : forall k, 0 < k -> k < K -> nthd Vs (k - 1) + inc <= nthd Vs k.
Hypothesis Hfit : lenN Vs + buckets_of n w < 2 ^ 64.

Local Notation m := (lenN Vs).
Local Notation nb := (buckets_of n w).
Local Notation V := (nthd Vs).
Local Notation op := (one_pos Vs w).

Lemma b_sorted : K = m -> sorted_le Vs.
Proof.
  intros HKm i j Hij Hj. remember (N.to_nat (j - i)) as d eqn:Hd. revert j Hij Hj Hd.
  induction d as [|d IH]; intros j Hij Hj Hd.
  - replace j with i by lia. lia.
  - specialize (IH (j - 1) ltac:(lia) ltac:(lia) ltac:(lia)). specialize (Hord j ltac:(lia) ltac:(lia)). lia.
Qed.

(* the builder after k values *)
Definition b_inv (k : N) (b : builder) : Prop :=
  b_universe b = n /\ b_len b = k /\ b_inc b = inc /\
  b_next b = (if k =? 0 then 0 else V (k - 1) + inc) /\
  (exists L, R (b_low b) w L /\ lenN L = m /\ forall i, i < k -> nthd L i = V i mod 2 ^ w) /\
  raw_wf (b_high b) /\ rlen (b_high b) = m + nb /\
  (forall q, bit (rdata (b_high b)) q = true <-> exists i, i < k /\ q = op i).

Lemma b_op_lt k : k < K -> op k < m + nb.
Proof. intros Hk. pose proof (hi_lt_nb_val n w Hw (V k) (Hbound k Hk)). unfold one_pos. lia. Qed.

Lemma b_step k b : b_inv k b -> k < K ->
  exists b', sb_try_set md b (V k) = Ok (inl b') /\ b_inv (k + 1) b'.
Proof.
  intros [Hu [Hl [Hi [Hnx [[L [HR [HLm HL]]] [Hwf [Hrl Hbits]]]]]]] Hk.
  destruct (Rget _ _ _ HR) as [Hilen [Hiw _]].
  pose proof (Hbound k Hk) as Hv. pose proof (b_op_lt k Hk) as Hop.
  unfold sb_try_set. rewrite Hl, Hilen, HLm, Hnx, Hu.
  replace (k =? m) with false by lia.
  assert (Hge : (V k <? (if k =? 0 then 0 else V (k - 1) + inc)) = false).
  { destruct (N.eqb_spec k 0) as [E|E]; [lia|]. specialize (Hord k ltac:(lia) Hk). lia. }
  rewrite Hge. replace (n <=? V k) with false by lia.
  unfold sb_set_unchecked. rewrite Hiw, split_w_ok by lia. cbn [bind]. rewrite Hl.
  rewrite uadd_ok by (unfold one_pos in Hop; lia). cbn [bind].
  destruct (raw_set_bit_true (b_high b) (op k) Hwf ltac:(rewrite Hrl; exact Hop)) as [r' [Hset [Hwf' [Hrl' Hbit']]]].
  unfold one_pos in Hset. rewrite Hset. cbn [bind].
  assert (HP : 0 < 2 ^ w) by (apply N.neq_0_lt_0, N.pow_nonzero; lia).
  destruct (Rset _ _ _ k (V k mod 2 ^ w) HR ltac:(lia) ltac:(apply N.mod_lt; lia)) as [v' [Hivs HR']].
  rewrite Hivs. cbn [bind]. rewrite uadd_ok by lia. cbn [bind]. rewrite Hi. rewrite uadd_ok by lia. cbn [bind].
  eexists. split; [reflexivity|]. unfold b_inv. cbn [b_universe b_len b_inc b_next b_low b_high].
  split; [exact Hu|]. split; [reflexivity|]. split; [first [exact Hi|reflexivity]|].
  split; [replace (k + 1 =? 0) with false by lia; replace (k + 1 - 1) with k by lia; reflexivity|].
  split.
  - exists (setN L k (V k mod 2 ^ w)). split; [exact HR'|]. split; [rewrite lenN_setN; exact HLm|].
    intros i Hik. destruct (N.eq_dec i k) as [->|Hne]; [apply nthd_setN_eq; lia|].
    rewrite nthd_setN_neq by lia. apply HL. lia.
  - split; [exact Hwf'|]. split; [rewrite Hrl'; exact Hrl|].
    intros q. rewrite Hbit'. fold (one_pos Vs w k). destruct (N.eqb_spec q (op k)) as [Heq|Hne].
    + split; [intros _; exists k; split; [lia|exact Heq]|reflexivity].
    + rewrite Hbits. split; intros [i [Hik Hq]].
      * exists i. split; [lia|exact Hq].
      * exists i. split; [|exact Hq]. destruct (N.eq_dec i k) as [->|]; [contradiction|lia].
Qed.

Lemma b_all xs : forall k b, b_inv k b -> k + lenN xs = K -> (forall i, i < lenN xs -> nthd xs i = V (k + i)) ->
  exists b', sb_try_set_all md b xs = Ok (inl b') /\ b_inv K b'.
Proof.
  induction xs as [|x t IH]; intros k b Hb Hlen Hxs.
  - change (lenN (@nil N)) with 0 in Hlen. exists b. split; [reflexivity|]. replace K with k by lia. exact Hb.
  - rewrite lenN_cons in *. cbn [sb_try_set_all].
    assert (Hx : x = V k). { specialize (Hxs 0 ltac:(lia)). rewrite nthd_cons in Hxs. replace (k + 0) with k in Hxs by lia. exact Hxs. }
    subst x. destruct (b_step k b Hb ltac:(lia)) as [b' [Hs Hb']]. rewrite Hs. cbn [bind].
    apply (IH (k + 1) b' Hb'); [lia|]. intros i Hi. specialize (Hxs (i + 1) ltac:(lia)).
    rewrite nthd_cons in Hxs. replace (i + 1 =? 0) with false in Hxs by lia. replace (i + 1 - 1) with i in Hxs by lia.
    rewrite Hxs. f_equal. lia.
Qed.

(* a full builder converts into a well-formed vector *)
Lemma b_finish b : high_contract sp md -> K = m -> b_inv m b ->
  exists sv H, sv_try_from sp md b = Ok (inl sv) /\ sv_ok sp md sv n w Vs H.
Proof.
  intros Hhc HKm [Hu [Hl [Hi [Hnx [[L [HR [HLm HL]]] [Hwf [Hrl Hbits]]]]]]].
  destruct (Rget _ _ _ HR) as [Hilen [Hiw Hig]].
  unfold sv_try_from. rewrite Hl, Hilen, HLm. replace (m =? m) with true by lia. cbn [negb].
  destruct (Hhc (b_high b) Hwf) as [b1 [hb [He1 [He2 Hok]]]]. rewrite He1. cbn [bind]. rewrite He2. cbn [bind].
  eexists. exists (bits_of (rlen (b_high b)) (rdata (b_high b))). split; [reflexivity|].
  unfold sv_ok. cbn [sv_len sv_high sv_low].
  split; [exact Hn|]. split; [exact Hw|]. split; [exact (b_sorted HKm)|]. split; [intros i Hi'; apply Hbound; lia|]. split; [exact Hu|].
  destruct (raw_wf_room _ Hwf) as [Hroom _].
  split; [|split; [exact Hok|]].
  - (* the bits of high are the unary code *)
    unfold ef_high_ok. rewrite bits_of_lenB by exact Hroom. split; [exact Hrl|]. split.
    + intros i Him. rewrite getb_bits_of by (try exact Hroom; rewrite Hrl; apply b_op_lt; lia).
      f_equal. apply Hbits. exists i. split; [exact Him|reflexivity].
    + intros p Hp Hno. rewrite getb_bits_of by (try exact Hroom; exact Hp). f_equal.
      destruct (bit (rdata (b_high b)) p) eqn:E; [|reflexivity].
      apply Hbits in E. destruct E as [i [Him Hq]]. exfalso. apply (Hno i Him Hq).
  - unfold low_ok. rewrite lenN_map. split; [rewrite Hilen; exact HLm|]. split; [exact Hiw|].
    intros i Him. rewrite Hig by (rewrite HLm; exact Him). rewrite nthd_map by exact Him. f_equal. apply HL. exact Him.
Qed.

End Builder.

(* ---------------------------------------------------------------- the construction routes *)

(* the low width get_params uses when the f64 rule yields w' *)
Definition eff_width (w' n m : N) : N := if (0 <? m) && (m <=? n) then w' else 1.

Lemma eff_width_range w' n m : 1 <= w' <= 63 -> 1 <= eff_width w' n m <= 63.
Proof. intros H. unfold eff_width. destruct ((0 <? m) && (m <=? n)); lia. Qed.

Lemma removelast_app_last (xs : list N) x : xs <> [] -> last xs 0 = x -> xs = removelast xs ++ [x].
Proof. intros Hne Hl. rewrite <- Hl. apply app_removelast_last. exact Hne. Qed.

Lemma try_set_all_app md b xs ys :
  sb_try_set_all md b (xs ++ ys) =
  (let* r := sb_try_set_all md b xs in
   match r with inl b' => sb_try_set_all md b' ys | inr e => Ok (inr e) end).
Proof.
  revert b. induction xs as [|x t IH]; intros b; cbn [app sb_try_set_all bind]; [reflexivity|].
  destruct (sb_try_set md b x) as [[b'|e]|k|s]; cbn [bind]; [apply IH|reflexivity|reflexivity|reflexivity].
Qed.

Section Top.
Variables (sp : selpath) (md : mode).
Hypothesis Hhigh : high_contract sp md.
Variable R : intvec -> N -> list N -> Prop.
Hypothesis Rnew : forall len w, 1 <= w <= 64 ->
     exists v, iv_with_len len w 0 = Some (Ok v) /\ R v w (repeatN 0 (N.to_nat len)).
Hypothesis Rset : forall v w L i x, R v w L -> i < lenN L -> x < 2 ^ w ->
     exists v', iv_set v i x = Ok v' /\ R v' w (setN L i x).
Hypothesis Rget : forall v w L, R v w L -> low_ok v w L.

(* the state right after SparseBuilder::new / multiset *)
Lemma init_ok w' n inc Vs : n < 2 ^ 64 -> 1 <= w' <= 63 ->
  let w := eff_width w' n (lenN Vs) in
  lenN Vs + buckets_of n w < 2 ^ 64 ->
  exists low high,
    get_params md w' n (lenN Vs) = Ok (w, lenN Vs + buckets_of n w) /\
    iv_with_len (lenN Vs) w 0 = Some (Ok low) /\
    raw_with_len (lenN Vs + buckets_of n w) false = Ok high /\
    b_inv n w inc Vs R 0 (mkb n low high 0 0 inc).
Proof.
  intros Hn Hw' w Hfit. pose proof (eff_width_range w' n (lenN Vs) Hw') as Hw. fold w in Hw.
  destruct (Rnew (lenN Vs) w ltac:(lia)) as [low [Hlow HR]].
  destruct (raw_with_len_false (lenN Vs + buckets_of n w) Hfit) as [high [Hhi [Hwf [Hrl Hz]]]].
  exists low, high. split; [|split; [exact Hlow|split; [exact Hhi|]]].
  - unfold get_params. fold (eff_width w' n (lenN Vs)). fold w. rewrite get_buckets_spec by exact Hw. cbn [bind].
    fold (buckets_of n w). rewrite uadd_ok by exact Hfit. reflexivity.
  - unfold b_inv. cbn [b_universe b_len b_inc b_next b_low b_high].
    split; [reflexivity|]. split; [reflexivity|]. split; [reflexivity|]. split; [reflexivity|].
    split; [exists (repeatN 0 (N.to_nat (lenN Vs))); split; [exact HR|split; [rewrite lenN_repeatN; lia|intros i Hi; lia]]|].
    split; [exact Hwf|]. split; [exact Hrl|]. intros q. rewrite (all_zero_bit _ q Hz).
    split; [discriminate|intros [i [Hi _]]; lia].
Qed.

(* every route builds a well-formed vector from a sorted list inside the universe *)
Lemma build_core w' n inc Vs b0 : n < 2 ^ 64 -> 1 <= w' <= 63 -> inc <= 1 ->
  let w := eff_width w' n (lenN Vs) in
  bounded n Vs ->
  (forall k, 0 < k -> k < lenN Vs -> nthd Vs (k - 1) + inc <= nthd Vs k) ->
  lenN Vs + buckets_of n w < 2 ^ 64 ->
  b_inv n w inc Vs R 0 b0 ->
  exists sv H,
    (let* r' := sb_try_set_all md b0 Vs in
     match r' with inr e => Ok (inr e) | inl b' => sv_try_from sp md b' end) = Ok (inl sv) /\
    sv_ok sp md sv n w Vs H.
Proof.
  intros Hn Hw' Hinc w Hb Hord Hfit Hb0. pose proof (eff_width_range w' n (lenN Vs) Hw') as Hw. fold w in Hw.
  destruct (b_all md n w inc Vs R Rset Rget Hn Hw (lenN Vs) ltac:(lia) Hb Hinc Hord Hfit Vs 0 b0 Hb0 ltac:(lia))
    as [b' [Hall Hb']]; [intros i Hi; f_equal; lia|].
  rewrite Hall. cbn [bind].
  apply (b_finish sp md n w inc Vs R Rset Rget Hn Hw (lenN Vs) ltac:(lia) Hb Hinc Hord Hfit b' Hhigh eq_refl Hb').
Qed.

Lemma ord_of_sorted_lt Vs : sorted_lt Vs -> forall k, 0 < k -> k < lenN Vs -> nthd Vs (k - 1) + 1 <= nthd Vs k.
Proof. intros Hs k Hk0 Hk. specialize (Hs (k - 1) k ltac:(lia) Hk). lia. Qed.
Lemma ord_of_sorted_le Vs : sorted_le Vs -> forall k, 0 < k -> k < lenN Vs -> nthd Vs (k - 1) + 0 <= nthd Vs k.
Proof. intros Hs k Hk0 Hk. specialize (Hs (k - 1) k ltac:(lia) Hk). lia. Qed.

Theorem build_set_ok w' n Vs : n < 2 ^ 64 -> 1 <= w' <= 63 ->
  increasing Vs = true -> all_below n Vs = true ->
  let w := eff_width w' n (lenN Vs) in
  lenN Vs + buckets_of n w < 2 ^ 64 ->
  exists sv H, sv_build_set sp md w' n Vs = Ok (inl sv) /\ sv_ok sp md sv n w Vs H.
Proof.
  intros Hn Hw' Hinc Hbel w Hfit. subst w.
  pose proof (increasing_sorted _ Hinc) as Hs. pose proof (all_below_bounded _ _ Hbel) as Hb.
  pose proof (sorted_lt_len_le Vs n Hs Hb) as Hmn.
  destruct (init_ok w' n 1 Vs Hn Hw' Hfit) as [low [high [Hgp [Hiv [Hraw Hinv]]]]].
  unfold sv_build_set, sb_new. replace (n <? lenN Vs) with false by lia.
  rewrite Hgp. cbn [bind]. rewrite Hiv. cbn [unwrap_iv bind]. rewrite Hraw. cbn [bind].
  apply (build_core w' n 1 Vs _ Hn Hw' ltac:(lia) Hb (ord_of_sorted_lt Vs Hs) Hfit Hinv).
Qed.

Theorem build_multiset_ok w' n Vs : n < 2 ^ 64 -> 1 <= w' <= 63 ->
  nondecreasing Vs = true -> all_below n Vs = true ->
  let w := eff_width w' n (lenN Vs) in
  lenN Vs + buckets_of n w < 2 ^ 64 ->
  exists sv H, sv_build_multiset sp md w' n Vs = Ok (inl sv) /\ sv_ok sp md sv n w Vs H.
Proof.
  intros Hn Hw' Hnd Hbel w Hfit. subst w.
  pose proof (nondecreasing_sorted _ Hnd) as Hs. pose proof (all_below_bounded _ _ Hbel) as Hb.
  destruct (init_ok w' n 0 Vs Hn Hw' Hfit) as [low [high [Hgp [Hiv [Hraw Hinv]]]]].
  unfold sv_build_multiset, sb_multiset.
  rewrite Hgp. cbn [bind]. rewrite Hiv. cbn [unwrap_iv bind]. rewrite Hraw. cbn [bind].
  apply (build_core w' n 0 Vs _ Hn Hw' ltac:(lia) Hb (ord_of_sorted_le Vs Hs) Hfit Hinv).
Qed.

(* ---- try_from_iter *)

Lemma nthN_app_last {A} (pre : list A) x : nthN (pre ++ [x]) (lenN pre) = Some x.
Proof.
  induction pre as [|a t IH]; [reflexivity|]. rewrite lenN_cons. cbn [app nthN].
  replace (lenN t + 1 =? 0) with false by lia. replace (lenN t + 1 - 1) with (lenN t) by lia. exact IH.
Qed.
Lemma lenN_app_last {A} (pre : list A) x : lenN (pre ++ [x]) = lenN pre + 1.
Proof. unfold lenN. rewrite app_length. cbn [length]. lia. Qed.

Lemma try_from_iter_unfold w' pre lst : lst + 1 < 2 ^ 64 ->
  sv_try_from_iter sp md w' (pre ++ [lst]) =
  (let* b := sb_multiset md w' (lst + 1) (lenN (pre ++ [lst])) in
   let* r' := sb_try_set_all md b (pre ++ [lst]) in
   match r' with inr e => Ok (inr e) | inl b' => sv_try_from sp md b' end).
Proof.
  intros Hl. unfold sv_try_from_iter. rewrite rev_unit, removelast_last. rewrite uadd_ok by exact Hl. cbn [bind].
  destruct (sb_multiset md w' (lst + 1) (lenN (pre ++ [lst]))) as [b|k|s]; cbn [bind]; [|reflexivity|reflexivity].
  rewrite try_set_all_app. destruct (sb_try_set_all md b pre) as [[b1|e]|k|s]; cbn [bind]; try reflexivity.
  replace (0 <? lst + 1) with true by lia. replace (lst + 1 - 1) with lst by lia. cbn [sb_try_set_all].
  destruct (sb_try_set md b1 lst) as [[b2|e]|k|s]; reflexivity.
Qed.

Theorem try_from_iter_ok w' Vs : 1 <= w' <= 63 -> nondecreasing Vs = true ->
  (forall v, last_opt Vs = Some v -> v + 1 < 2 ^ 64) ->
  let n := match last_opt Vs with Some v => v + 1 | None => 0 end in
  let w := eff_width w' n (lenN Vs) in
  lenN Vs + buckets_of n w < 2 ^ 64 ->
  exists sv H, sv_try_from_iter sp md w' Vs = Ok (inl sv) /\ sv_ok sp md sv n w Vs H.
Proof.
  intros Hw' Hnd Hlast n w Hfit. pose proof (nondecreasing_sorted _ Hnd) as Hs.
  assert (Hcase : Vs = [] \/ Vs <> []) by (destruct Vs; [left; reflexivity|right; discriminate]).
  destruct Hcase as [Hnil|Hne].
  - (* empty: universe 0 *)
    subst Vs. subst n w. cbn [last_opt rev hd_error] in *.
    destruct (init_ok w' 0 0 [] ltac:(lia) Hw' Hfit) as [low [high [Hgp [Hiv [Hraw Hinv]]]]].
    unfold sv_try_from_iter. cbn [rev bind removelast]. unfold sb_multiset.
    rewrite Hgp. cbn [bind]. rewrite Hiv. cbn [unwrap_iv bind]. rewrite Hraw. cbn [bind sb_try_set_all].
    replace (0 <? 0) with false by lia. cbn [bind].
    apply (build_core w' 0 0 [] _ ltac:(lia) Hw' ltac:(lia)); [intros i Hi; unfold lenN in Hi; cbn in Hi; lia|intros k Hk1 Hk2; unfold lenN in Hk2; cbn in Hk2; lia|exact Hfit|exact Hinv].
  - destruct (exists_last Hne) as [pre [lst Heq]].
    assert (Hlo : last_opt Vs = Some lst) by (unfold last_opt; rewrite Heq, rev_unit; reflexivity).
    subst n w. rewrite Hlo in *. specialize (Hlast lst eq_refl).
    assert (Hb : bounded (lst + 1) Vs).
    { intros i Hi. specialize (Hs i (lenN pre)). rewrite Heq, lenN_app_last in *.
      unfold nthd in Hs at 2. rewrite nthN_app_last in Hs. specialize (Hs ltac:(lia) ltac:(lia)). lia. }
    destruct (init_ok w' (lst + 1) 0 Vs Hlast Hw' Hfit) as [low [high [Hgp [Hiv [Hraw Hinv]]]]].
    replace (sv_try_from_iter sp md w' Vs) with (sv_try_from_iter sp md w' (pre ++ [lst])) by (rewrite <- Heq; reflexivity).
    rewrite try_from_iter_unfold by exact Hlast. rewrite <- Heq.
    unfold sb_multiset. rewrite Hgp. cbn [bind]. rewrite Hiv. cbn [unwrap_iv bind]. rewrite Hraw. cbn [bind].
    apply (build_core w' (lst + 1) 0 Vs _ Hlast Hw' ltac:(lia) Hb (ord_of_sorted_le Vs Hs) Hfit Hinv).
Qed.

(* ---- try_set never panics: a value out of order or outside the universe is reported as Err *)

Definition good_prefix (n inc : N) (Vs : list N) (k : N) : Prop :=
  (forall i, i < k -> nthd Vs i < n) /\ (forall j, 0 < j -> j < k -> nthd Vs (j - 1) + inc <= nthd Vs j).

Lemma try_all_total n w inc Vs : n < 2 ^ 64 -> 1 <= w <= 63 -> inc <= 1 ->
  lenN Vs + buckets_of n w < 2 ^ 64 ->
  forall xs k b, b_inv n w inc Vs R k b -> good_prefix n inc Vs k -> k + lenN xs = lenN Vs ->
  (forall i, i < lenN xs -> nthd xs i = nthd Vs (k + i)) ->
  exists r, sb_try_set_all md b xs = Ok r /\
    match r with inl b' => b_inv n w inc Vs R (lenN Vs) b' /\ good_prefix n inc Vs (lenN Vs) | inr _ => True end.
Proof.
  intros Hn Hw Hinc Hfit xs. induction xs as [|x t IH]; intros k b Hb Hg Hlen Hxs.
  - change (lenN (@nil N)) with 0 in Hlen. exists (inl b). split; [reflexivity|]. replace (lenN Vs) with k by lia. split; assumption.
  - rewrite lenN_cons in *. cbn [sb_try_set_all].
    assert (Hx : x = nthd Vs k). { specialize (Hxs 0 ltac:(lia)). rewrite nthd_cons in Hxs. replace (k + 0) with k in Hxs by lia. exact Hxs. }
    subst x.
    (* the three tests of try_set *)
    destruct Hb as [Hu [Hl [Hi [Hnx Hrest]]]].
    destruct Hrest as [[L [HR [HLm HL]]] Hhigh']. destruct (Rget _ _ _ HR) as [Hilen [Hiw _]].
    assert (Hb : b_inv n w inc Vs R k b).
    { unfold b_inv. split; [exact Hu|]. split; [exact Hl|]. split; [exact Hi|]. split; [exact Hnx|]. split; [exists L; auto|exact Hhigh']. }
    destruct (N.ltb_spec (nthd Vs k) (b_next b)) as [Hlow|Hok1].
    { exists (inr ERR_ORDER). split; [|exact I]. unfold sb_try_set. rewrite Hl, Hilen, HLm.
      replace (k =? lenN Vs) with false by lia. replace (nthd Vs k <? b_next b) with true by lia. reflexivity. }
    destruct (N.leb_spec n (nthd Vs k)) as [Hbig|Hok2].
    { exists (inr ERR_UNIVERSE). split; [|exact I]. unfold sb_try_set. rewrite Hl, Hilen, HLm, Hu.
      replace (k =? lenN Vs) with false by lia. replace (nthd Vs k <? b_next b) with false by lia.
      replace (n <=? nthd Vs k) with true by lia. reflexivity. }
    assert (Hg' : good_prefix n inc Vs (k + 1)).
    { destruct Hg as [Hg1 Hg2]. split.
      - intros i Hik. destruct (N.eq_dec i k) as [->|]; [exact Hok2|apply Hg1; lia].
      - intros j Hj0 Hjk. destruct (N.eq_dec j k) as [->|]; [|apply Hg2; lia].
        rewrite Hnx in Hok1. replace (k =? 0) with false in Hok1 by lia. exact Hok1. }
    destruct Hg' as [Hg1' Hg2'].
    destruct (b_step md n w inc Vs R Rset Rget Hn Hw (k + 1) ltac:(lia) Hg1' Hinc Hg2' Hfit k b Hb ltac:(lia)) as [b' [Hs Hb']].
    rewrite Hs. cbn [bind]. apply (IH (k + 1) b' Hb'); [split; assumption|lia|].
    intros i Hi'. specialize (Hxs (i + 1) ltac:(lia)).
    rewrite nthd_cons in Hxs. replace (i + 1 =? 0) with false in Hxs by lia. replace (i + 1 - 1) with i in Hxs by lia.
    rewrite Hxs. f_equal. lia.
Qed.

Theorem try_from_iter_rejects w' Vs : 1 <= w' <= 63 -> nondecreasing Vs = false ->
  (forall v, last_opt Vs = Some v -> v + 1 < 2 ^ 64) ->
  let n := match last_opt Vs with Some v => v + 1 | None => 0 end in
  lenN Vs + buckets_of n (eff_width w' n (lenN Vs)) < 2 ^ 64 ->
  exists e, sv_try_from_iter sp md w' Vs = Ok (inr e).
Proof.
  intros Hw' Hnd Hlast n Hfit.
  assert (Hne : Vs <> []) by (intros ->; discriminate).
  destruct (exists_last Hne) as [pre [lst Heq]].
  assert (Hlo : last_opt Vs = Some lst) by (unfold last_opt; rewrite Heq, rev_unit; reflexivity).
  subst n. rewrite Hlo in *. specialize (Hlast lst eq_refl).
  pose proof (eff_width_range w' (lst + 1) (lenN Vs) Hw') as Hw.
  destruct (init_ok w' (lst + 1) 0 Vs Hlast Hw' Hfit) as [low [high [Hgp [Hiv [Hraw Hinv]]]]].
  replace (sv_try_from_iter sp md w' Vs) with (sv_try_from_iter sp md w' (pre ++ [lst])) by (rewrite <- Heq; reflexivity).
  rewrite try_from_iter_unfold by exact Hlast. rewrite <- Heq.
  unfold sb_multiset. rewrite Hgp. cbn [bind]. rewrite Hiv. cbn [unwrap_iv bind]. rewrite Hraw. cbn [bind].
  destruct (try_all_total (lst + 1) _ 0 Vs Hlast Hw ltac:(lia) Hfit Vs 0 _ Hinv) as [r [Hr Hres]];
    [split; intros; lia|lia|intros i Hi; f_equal; lia|].
  rewrite Hr. cbn [bind]. destruct r as [b'|e]; [|exists e; reflexivity].
  (* accepted: then the list was sorted after all *)
  exfalso. destruct Hres as [_ [_ Hord]].
  assert (Hs : sorted_le Vs).
  { intros i j Hij Hj. remember (N.to_nat (j - i)) as d eqn:Hd. revert j Hij Hj Hd.
    induction d as [|d IH]; intros j Hij Hj Hd.
    - replace j with i by lia. lia.
    - specialize (IH (j - 1) ltac:(lia) ltac:(lia) ltac:(lia)). specialize (Hord j ltac:(lia) Hj). lia. }
  rewrite (sorted_nondecreasing Vs Hs) in Hnd. discriminate.
Qed.

End Top.
