(* Proofs for property C11: conversions between the bitvector types preserve (len, set positions), and the
   target's structure depends only on (len, set positions).
   Part 1: run lists are determined by their bit sets; every presentation of a bit set as RLBuilder calls reaches
           the same final state (over Model/Builders.v); RLVector::copy_bit_vec.
   Part 2: BitVector::copy_bit_vec / from bits / from a raw vector build the same structure.
   Part 3: SparseVector::copy_bit_vec over the abstract builder.
   Part 4: chains of conversions.
   (Concrete models: Proofs/ConvertSparse.v for Model/Sparse.v, Proofs/ConvertRL.v for Model/RL.v.) *)
From Coq Require Import NArith List Lia ZArith Bool.
Require Import SDS.Model.Mach SDS.Model.Bits SDS.Model.Raw SDS.Model.IntVec SDS.Model.BitVec SDS.Model.SerBV.
Require Import SDS.Model.Builders SDS.Model.Convert.
Require Import SDS.Spec.BitSeq SDS.Spec.SeqSpec SDS.Spec.BuilderSpec.
Require Import SDS.Proofs.BitsProof SDS.Proofs.RawProof SDS.Proofs.BVCommon SDS.Proofs.RankProof SDS.Proofs.OneIterProof.
Require Import SDS.Proofs.BuildersProof.
Import ListNotations.
Open Scope N_scope.
Require Import ZifyBool ZifyN ZifyNat.
Ltac Zify.zify_post_hook ::= Z.div_mod_to_equations.
Arguments N.add : simpl never. Arguments N.sub : simpl never. Arguments N.mul : simpl never.
Arguments N.eqb : simpl never. Arguments N.ltb : simpl never. Arguments N.leb : simpl never.
Arguments N.pow : simpl never. Arguments N.div : simpl never. Arguments N.modulo : simpl never.
Arguments N.shiftl : simpl never. Arguments N.shiftr : simpl never. Arguments N.land : simpl never.
Arguments N.lor : simpl never. Arguments N.testbit : simpl never. Arguments N.min : simpl never.

(* lenL of Spec/BuilderSpec.v and of Spec/SeqSpec.v are the same function; below, lenL is BuilderSpec's *)
Notation lenLs := SDS.Spec.SeqSpec.lenL.

(* ================================================================== Part 1: run lists *)

Lemma chain_cons_inv {A} (R : A -> A -> Prop) a t :
  chain R (a :: t) -> chain R t /\ match t with b :: _ => R a b | [] => True end.
Proof. destruct t as [|b t']; cbn; tauto. Qed.

Lemma in_runs_cons r t p : in_runs (r :: t) p = in_run p r || in_runs t p.
Proof. reflexivity. Qed.

(* below the first start nothing is set *)
Lemma in_runs_before rs : forall p, chain gap rs -> Forall (fun r => 0 < snd r) rs ->
  match rs with [] => True | r :: _ => p < fst r end -> in_runs rs p = false.
Proof.
  induction rs as [|r t IH]; intros p Hc Hp Hlt; [reflexivity|].
  apply chain_cons_inv in Hc. destruct Hc as [Hc Hg]. apply Forall_tail in Hp. destruct Hp as [Hr Hp].
  rewrite in_runs_cons. unfold in_run at 1. replace (fst r <=? p) with false by lia. cbn [andb orb].
  apply IH; [exact Hc|exact Hp|]. destruct t as [|q t']; [exact I|]. unfold gap in Hg. lia.
Qed.

(* a list of separated non-empty runs is determined by the set of positions it covers *)
Lemma runs_canonical rs1 : forall rs2,
  chain gap rs1 -> Forall (fun r => 0 < snd r) rs1 ->
  chain gap rs2 -> Forall (fun r => 0 < snd r) rs2 ->
  (forall p, in_runs rs1 p = in_runs rs2 p) -> rs1 = rs2.
Proof.
  induction rs1 as [|[s1 l1] t1 IH]; intros [|[s2 l2] t2] Hc1 Hp1 Hc2 Hp2 Hb.
  - reflexivity.
  - exfalso. specialize (Hb s2). apply Forall_tail in Hp2. destruct Hp2 as [Hl _]. cbn [snd] in Hl.
    rewrite in_runs_cons in Hb. unfold in_run in Hb. cbn [fst snd in_runs existsb] in Hb.
    replace ((s2 <=? s2) && (s2 <? s2 + l2)) with true in Hb by lia. discriminate.
  - exfalso. specialize (Hb s1). apply Forall_tail in Hp1. destruct Hp1 as [Hl _]. cbn [snd] in Hl.
    rewrite in_runs_cons in Hb. unfold in_run in Hb. cbn [fst snd in_runs existsb] in Hb.
    replace ((s1 <=? s1) && (s1 <? s1 + l1)) with true in Hb by lia. discriminate.
  - pose proof Hc1 as Hc1'. pose proof Hc2 as Hc2'. pose proof Hp1 as Hp1'. pose proof Hp2 as Hp2'.
    apply chain_cons_inv in Hc1. destruct Hc1 as [Hc1 Hg1]. apply chain_cons_inv in Hc2. destruct Hc2 as [Hc2 Hg2].
    apply Forall_tail in Hp1. destruct Hp1 as [Hl1 Hp1]. apply Forall_tail in Hp2. destruct Hp2 as [Hl2 Hp2].
    cbn [snd] in Hl1, Hl2.
    assert (Hbef1 : forall p, p <= s1 + l1 -> in_runs t1 p = false).
    { intros p Hle. apply in_runs_before; [exact Hc1|exact Hp1|]. destruct t1 as [|q t']; [exact I|].
      unfold gap in Hg1. cbn [fst snd] in Hg1. lia. }
    assert (Hbef2 : forall p, p <= s2 + l2 -> in_runs t2 p = false).
    { intros p Hle. apply in_runs_before; [exact Hc2|exact Hp2|]. destruct t2 as [|q t']; [exact I|].
      unfold gap in Hg2. cbn [fst snd] in Hg2. lia. }
    assert (Hs : s1 = s2).
    { destruct (N.lt_trichotomy s1 s2) as [Hlt|[E|Hlt]]; [exfalso|exact E|exfalso].
      - specialize (Hb s1). rewrite (in_runs_before _ s1 Hc2' Hp2') in Hb by (cbn [fst]; lia).
        rewrite in_runs_cons in Hb. unfold in_run in Hb. cbn [fst snd] in Hb.
        replace ((s1 <=? s1) && (s1 <? s1 + l1)) with true in Hb by lia. discriminate.
      - specialize (Hb s2). rewrite (in_runs_before _ s2 Hc1' Hp1') in Hb by (cbn [fst]; lia).
        rewrite in_runs_cons in Hb. unfold in_run in Hb. cbn [fst snd] in Hb.
        replace ((s2 <=? s2) && (s2 <? s2 + l2)) with true in Hb by lia. discriminate. }
    subst s2.
    assert (Hl : l1 = l2).
    { destruct (N.lt_trichotomy l1 l2) as [Hlt|[E|Hlt]]; [exfalso|exact E|exfalso].
      - specialize (Hb (s1 + l1)). rewrite !in_runs_cons in Hb. rewrite Hbef1 in Hb by lia.
        unfold in_run in Hb. cbn [fst snd] in Hb.
        replace ((s1 <=? s1 + l1) && (s1 + l1 <? s1 + l1)) with false in Hb by lia.
        replace ((s1 <=? s1 + l1) && (s1 + l1 <? s1 + l2)) with true in Hb by lia. discriminate.
      - specialize (Hb (s1 + l2)). rewrite !in_runs_cons in Hb. rewrite Hbef2 in Hb by lia.
        unfold in_run in Hb. cbn [fst snd] in Hb.
        replace ((s1 <=? s1 + l2) && (s1 + l2 <? s1 + l2)) with false in Hb by lia.
        replace ((s1 <=? s1 + l2) && (s1 + l2 <? s1 + l1)) with true in Hb by lia. discriminate. }
    subst l2. f_equal. apply IH; [exact Hc1|exact Hp1|exact Hc2|exact Hp2|].
    intros p. destruct (N.le_gt_cases p (s1 + l1)) as [Hle|Hgt].
    + rewrite Hbef1, Hbef2 by exact Hle. reflexivity.
    + specialize (Hb p). rewrite !in_runs_cons in Hb. unfold in_run in Hb. cbn [fst snd] in Hb.
      replace ((s1 <=? p) && (p <? s1 + l1)) with false in Hb by lia. exact Hb.
Qed.

(* ---- the set positions of a bit sequence ---- *)

(* increasing, at or after [cur], the last one below [hi] *)
Fixpoint incr_below (cur hi : N) (ps : list N) : Prop :=
  match ps with
  | [] => cur <= hi
  | p :: t => cur <= p /\ incr_below (p + 1) hi t
  end.

Lemma incr_below_weaken cur cur' hi ps : cur' <= cur -> incr_below cur hi ps -> incr_below cur' hi ps.
Proof. destruct ps as [|p t]; cbn [incr_below]; intros; [lia|]. split; [lia|tauto]. Qed.

Lemma incr_below_le cur hi ps : incr_below cur hi ps -> cur <= hi.
Proof.
  revert cur. induction ps as [|p t IH]; intros cur H; cbn [incr_below] in H; [exact H|].
  destruct H as [H1 H2]. apply IH in H2. lia.
Qed.

Lemma incr_below_hi cur hi hi' ps : hi <= hi' -> incr_below cur hi ps -> incr_below cur hi' ps.
Proof.
  revert cur. induction ps as [|p t IH]; intros cur Hh H; cbn [incr_below] in *; [lia|].
  destruct H as [H1 H2]. split; [exact H1|]. apply IH; assumption.
Qed.

Lemma lenB_cons b t : lenB (b :: t) = lenB t + 1.
Proof. unfold lenB. cbn [length]. lia. Qed.

Lemma ones_from_incr B : forall pos, incr_below pos (pos + lenB B) (ones_from B pos).
Proof.
  induction B as [|b t IH]; intros pos; cbn [ones_from].
  - cbn [incr_below]. unfold lenB. cbn [length]. lia.
  - rewrite lenB_cons. specialize (IH (pos + 1)). replace (pos + (lenB t + 1)) with (pos + 1 + lenB t) by lia.
    destruct b.
    + cbn [incr_below]. split; [lia|exact IH].
    + apply (incr_below_weaken (pos + 1)); [lia|exact IH].
Qed.

Lemma ones_from_len B : forall pos, lenL (ones_from B pos) = count B.
Proof.
  induction B as [|b t IH]; intros pos; cbn [ones_from count]; [reflexivity|].
  destruct b; cbn [b2n]; [|rewrite IH; lia].
  unfold lenL in *. cbn [length]. rewrite Nat2N.inj_succ, IH. lia.
Qed.

Lemma bitB_nil p : bitB [] p = false.
Proof. reflexivity. Qed.
Lemma bitB_cons b t p : bitB (b :: t) p = if p =? 0 then b else bitB t (p - 1).
Proof. unfold bitB. cbn [getb]. destruct (p =? 0); reflexivity. Qed.

Lemma bitB_beyond B : forall p, lenB B <= p -> bitB B p = false.
Proof.
  induction B as [|b t IH]; intros p H; [reflexivity|]. rewrite lenB_cons in H. rewrite bitB_cons.
  replace (p =? 0) with false by lia. apply IH. lia.
Qed.

(* membership in the list of set positions is the bit *)
Lemma existsb_ones_from B : forall pos p,
  existsb (N.eqb p) (ones_from B pos) = (pos <=? p) && bitB B (p - pos).
Proof.
  induction B as [|b t IH]; intros pos p; cbn [ones_from].
  - cbn [existsb]. rewrite bitB_nil, andb_false_r. reflexivity.
  - rewrite bitB_cons. destruct (N.lt_trichotomy p pos) as [Hlt|[E|Hgt]].
    + replace (pos <=? p) with false by lia. cbn [andb].
      destruct b; cbn [existsb]; rewrite ?IH; replace (pos + 1 <=? p) with false by lia;
        [replace (p =? pos) with false by lia|]; reflexivity.
    + subst p. replace (pos <=? pos) with true by lia. replace (pos - pos =? 0) with true by lia. cbn [andb].
      destruct b; cbn [existsb]; rewrite ?IH.
      * replace (pos =? pos) with true by lia. reflexivity.
      * replace (pos + 1 <=? pos) with false by lia. reflexivity.
    + replace (pos <=? p) with true by lia. replace (p - pos =? 0) with false by lia. cbn [andb].
      replace (p - pos - 1) with (p - (pos + 1)) by lia.
      destruct b; cbn [existsb]; rewrite IH; replace (pos + 1 <=? p) with true by lia; cbn [andb];
        [replace (p =? pos) with false by lia|]; reflexivity.
Qed.

Lemma existsb_ones B p : existsb (N.eqb p) (ones B) = bitB B p.
Proof. unfold ones. rewrite existsb_ones_from. replace (0 <=? p) with true by lia. rewrite N.sub_0_r. reflexivity. Qed.

Lemma in_runs_units ps p : in_runs (map (fun q => (q, 1)) ps) p = existsb (N.eqb p) ps.
Proof.
  induction ps as [|q t IH]; [reflexivity|]. cbn [map]. rewrite in_runs_cons, IH. cbn [existsb]. f_equal.
  unfold in_run. cbn [fst snd]. lia.
Qed.

(* ---- folding bit-at-a-time calls through the specification ---- *)

Notation set1 := (fun p : N => TrySet p 1).

Lemma spec_bits_fold ps : forall st hi, incr_below (snd st) hi ps -> hi <= MAXW ->
  let st' := fold_left rl_spec_step (map set1 ps) st in
  (forall p, in_runs (fst st') p = in_runs (fst st) p || existsb (N.eqb p) ps) /\
  run_sum (fst st') = run_sum (fst st) + lenL ps /\
  snd st <= snd st' /\ snd st' <= hi /\
  rl_accepted st (map set1 ps) = map (fun q => (q, 1)) ps.
Proof.
  induction ps as [|q t IH]; intros st hi Hi Hh; cbv zeta.
  - cbn [map fold_left existsb rl_accepted incr_below] in *. unfold lenL. cbn [length].
    repeat split; [intros p; rewrite orb_false_r; reflexivity|lia|lia|lia].
  - cbn [incr_below] in Hi. destruct Hi as [Hq Hi]. pose proof (incr_below_le _ _ _ Hi) as Hqh.
    cbn [map fold_left rl_accepted].
    assert (Ea : rl_spec_accepts st (TrySet q 1) = true).
    { unfold rl_spec_accepts. lia. }
    assert (Es : rl_spec_step st (TrySet q 1) = (add_run (fst st) q 1, q + 1)).
    { unfold rl_spec_step. rewrite Ea. replace (1 =? 0) with false by lia. reflexivity. }
    rewrite Ea. replace (1 =? 0) with false by lia. cbn [negb andb]. rewrite Es.
    specialize (IH (add_run (fst st) q 1, q + 1) hi Hi Hh). cbv zeta in IH. cbn [fst snd] in IH.
    destruct IH as (I1 & I2 & I3 & I4 & I5).
    split; [|split; [|split; [|split]]].
    + intros p. rewrite I1, in_runs_add_run. cbn [existsb]. rewrite <- orb_assoc. f_equal. f_equal.
      unfold in_run. cbn [fst snd]. lia.
    + rewrite I2, run_sum_add_run. unfold lenL. cbn [length]. lia.
    + lia.
    + exact I4.
    + rewrite I5. reflexivity.
Qed.

Lemma fold_left_app_step ops1 ops2 st :
  fold_left rl_spec_step (ops1 ++ ops2) st = fold_left rl_spec_step ops2 (fold_left rl_spec_step ops1 st).
Proof. apply fold_left_app. Qed.

Lemma rl_accepted_app ops1 : forall ops2 st,
  rl_accepted st (ops1 ++ ops2) = rl_accepted st ops1 ++ rl_accepted (fold_left rl_spec_step ops1 st) ops2.
Proof.
  induction ops1 as [|o t IH]; intros ops2 st; [reflexivity|].
  cbn [app rl_accepted fold_left]. destruct o as [s l|k].
  - destruct (rl_spec_accepts st (TrySet s l) && negb (l =? 0)); rewrite IH; reflexivity.
  - rewrite IH. reflexivity.
Qed.

(* the specification state after presenting B bit by bit and setting the length *)
Lemma spec_ops_bits B : lenB B <= MAXW ->
  let st := fold_left rl_spec_step (ops_bits B) rl_spec_init in
  (forall p, in_runs (fst st) p = bitB B p) /\ run_sum (fst st) = count B /\ snd st = lenB B /\
  (forall p, in_runs (rl_accepted rl_spec_init (ops_bits B)) p = bitB B p).
Proof.
  intros Hlen. cbv zeta. unfold ops_bits. rewrite fold_left_app_step.
  pose proof (ones_from_incr B 0) as Hi. rewrite N.add_0_l in Hi. fold (ones B) in Hi.
  destruct (spec_bits_fold (ones B) rl_spec_init (lenB B) Hi Hlen) as (H1 & H2 & H3 & H4 & H5).
  set (st1 := fold_left rl_spec_step (map set1 (ones B)) rl_spec_init) in *.
  cbn [fold_left rl_spec_step]. cbn [rl_spec_init fst snd in_runs existsb run_sum] in H1, H2.
  split; [|split; [|split]].
  - intros p. destruct (snd st1 <? lenB B); cbn [fst]; rewrite H1; cbn [orb]; apply existsb_ones.
  - destruct (snd st1 <? lenB B); cbn [fst]; rewrite H2. unfold ones. rewrite ones_from_len. lia.
    unfold ones. rewrite ones_from_len. lia.
  - destruct (N.ltb_spec (snd st1) (lenB B)); cbn [snd]; lia.
  - intros p. rewrite rl_accepted_app, H5. cbn [rl_accepted]. rewrite app_nil_r, in_runs_units. apply existsb_ones.
Qed.

(* ---- the unchecked calls of copy_bit_vec are the accepted checked calls ---- *)

Lemma rl_set_run_next m b p l : RLInv b -> blen b <= p -> p + l <= MAXW ->
  rl_set_run m b p l = Ok (rl_next b (TrySet p l)).
Proof.
  intros H Hp Hl.
  assert (Hw : rlop_wf (TrySet p l)) by (cbn [rlop_wf]; lia).
  pose proof (rl_step_eq m b (TrySet p l) H Hw) as E.
  unfold rl_step, rl_step_with, rl_try_set in E. replace (p <? blen b) with false in E by lia.
  rewrite MAXU_val, (usub_ok m MAXW l) in E by lia. cbn [bind] in E.
  replace (MAXW - l <? p) with false in E by lia.
  destruct (rl_set_run m b p l) as [b'| |]; cbn [bind] in E; congruence.
Qed.

Lemma rl_run_cons m b o t : rl_run m b (o :: t) = let* (b', _) := rl_step m b o in rl_run m b' t.
Proof. reflexivity. Qed.

Lemma rl_run_app m ops1 : forall b ops2,
  rl_run m b (ops1 ++ ops2) = let* b' := rl_run m b ops1 in rl_run m b' ops2.
Proof.
  induction ops1 as [|o t IH]; intros b ops2; [reflexivity|].
  cbn [app]. rewrite !rl_run_cons. destruct (rl_step m b o) as [[b' out]| |]; cbn [bind]; [apply IH|reflexivity|reflexivity].
Qed.

Lemma blen_next_set1 b p : RLInv b -> blen b <= p -> p + 1 <= MAXW -> blen (rl_next b (TrySet p 1)) = p + 1.
Proof.
  intros H Hp Hl. unfold rl_next. unfold rl_spec_accepts, rl_abs. cbn [snd].
  replace ((blen b <=? p) && (p + 1 <=? MAXW)) with true by lia. replace (1 =? 0) with false by lia. cbn [negb andb].
  destruct (N.eqb_spec p (blen b)) as [E|E]; cbn [blen]; lia.
Qed.

Lemma rl_set_bits_run m ps : forall b, RLInv b -> incr_below (blen b) MAXW ps ->
  rl_set_bits m b ps = rl_run m b (map set1 ps).
Proof.
  induction ps as [|p t IH]; intros b H Hi; [reflexivity|].
  cbn [incr_below] in Hi. destruct Hi as [Hp Hi]. pose proof (incr_below_le _ _ _ Hi) as Hl.
  cbn [rl_set_bits map]. rewrite rl_run_cons.
  assert (Hw : rlop_wf (TrySet p 1)) by (cbn [rlop_wf]; unfold MAXW in *; lia).
  rewrite (rl_set_run_next m b p 1 H Hp Hl), (rl_step_eq m b _ H Hw). cbn [bind].
  apply IH; [exact (rl_next_inv b _ H Hw)|]. rewrite (blen_next_set1 b p H Hp Hl). exact Hi.
Qed.

(* RLVector::copy_bit_vec replays exactly the history [ops_bits] *)
Lemma rl_copy_abs_run m B : lenB B <= MAXW ->
  rl_copy_abs m (ones B) (lenB B) = let* b := rl_run m rl_init (ops_bits B) in rl_finish m b.
Proof.
  intros Hlen. unfold rl_copy_abs, ops_bits. rewrite rl_run_app.
  pose proof (ones_from_incr B 0) as Hi. rewrite N.add_0_l in Hi. fold (ones B) in Hi.
  rewrite (rl_set_bits_run m (ones B) rl_init rl_inv_init) by (apply (incr_below_hi _ (lenB B)); assumption).
  destruct (rl_run m rl_init (map set1 (ones B))) as [b| |]; cbn [bind]; [|reflexivity|reflexivity].
  rewrite rl_run_cons. unfold rl_step, rl_step_with. destruct (rl_set_len m b (lenB B)) as [b'| |]; reflexivity.
Qed.

Lemma Forall_wf_set1 ps hi : hi <= MAXW -> forall cur, incr_below cur hi ps -> Forall rlop_wf (map set1 ps).
Proof.
  intros Hh. induction ps as [|p t IH]; intros cur Hi; [constructor|].
  cbn [incr_below] in Hi. destruct Hi as [Hp Hi]. pose proof (incr_below_le _ _ _ Hi) as Hl.
  cbn [map]. constructor; [cbn [rlop_wf]; unfold MAXW in *; lia|exact (IH _ Hi)].
Qed.

Lemma ops_bits_wf B : lenB B <= MAXW -> Forall rlop_wf (ops_bits B).
Proof.
  intros Hlen. unfold ops_bits. apply Forall_app. split.
  - pose proof (ones_from_incr B 0) as Hi. rewrite N.add_0_l in Hi. exact (Forall_wf_set1 _ _ Hlen _ Hi).
  - constructor; [exact Hlen|constructor].
Qed.

(* C11, RL target: copy_bit_vec from (len, ones) of B yields a vector whose run list is separated, non-empty,
   within len and covers exactly the set bits of B, with length |B| and count_ones = count B *)
Theorem rl_copy_abs_repr : forall (m : mode) (B : list bool), lenB B <= MAXW ->
  exists rs, rl_copy_abs m (ones B) (lenB B) = Ok (rs, lenB B, count B) /\
    chain (fun r q => fst r + snd r < fst q) rs /\
    Forall (fun r => 0 < snd r /\ fst r + snd r <= lenB B) rs /\
    (forall p, in_runs rs p = bitB B p) /\ run_sum rs = count B.
Proof.
  intros m B Hlen. rewrite (rl_copy_abs_run m B Hlen).
  destruct (rl_builder_history_full m (ops_bits B) (ops_bits_wf B Hlen))
    as (b & tr & Hr & _ & _ & Hf & _ & _ & Hc & Hw & _ & _ & _).
  destruct (spec_ops_bits B Hlen) as (S1 & S2 & S3 & _).
  set (st := fold_left rl_spec_step (ops_bits B) rl_spec_init) in *.
  exists (fst st). rewrite Hr. cbn [bind]. rewrite Hf, S2, S3. split; [reflexivity|].
  split; [exact Hc|]. split; [rewrite <- S3; exact Hw|]. split; [exact S1|reflexivity].
Qed.

(* every presentation of a bit set as builder calls reaches the same final state:
   two histories (accepted and refused calls, zero-length runs, set_len anywhere) whose accepted runs cover
   the same positions and that end at the same length convert to the same (runs, len, ones) *)
Theorem rl_builder_decomposition : forall (m : mode) (ops1 ops2 : list rlop),
  Forall rlop_wf ops1 -> Forall rlop_wf ops2 ->
  (forall p, in_runs (rl_accepted rl_spec_init ops1) p = in_runs (rl_accepted rl_spec_init ops2) p) ->
  snd (fold_left rl_spec_step ops1 rl_spec_init) = snd (fold_left rl_spec_step ops2 rl_spec_init) ->
  exists b1 b2 r,
    rl_run m rl_init ops1 = Ok b1 /\ rl_run m rl_init ops2 = Ok b2 /\
    rl_finish m b1 = Ok r /\ rl_finish m b2 = Ok r /\
    blen b1 = blen b2 /\ bones b1 = bones b2.
Proof.
  intros m ops1 ops2 Hw1 Hw2 Hbits Hlen.
  destruct (rl_builder_history_full m ops1 Hw1) as (b1 & _ & Hr1 & _ & _ & Hf1 & Hn1 & Ho1 & Hc1 & Hp1 & _ & _ & Hb1).
  destruct (rl_builder_history_full m ops2 Hw2) as (b2 & _ & Hr2 & _ & _ & Hf2 & Hn2 & Ho2 & Hc2 & Hp2 & _ & _ & Hb2).
  set (st1 := fold_left rl_spec_step ops1 rl_spec_init) in *.
  set (st2 := fold_left rl_spec_step ops2 rl_spec_init) in *.
  assert (E : fst st1 = fst st2).
  { apply runs_canonical; [exact Hc1| |exact Hc2| |].
    - eapply Forall_impl; [|exact Hp1]. cbn beta. intros r Hr. tauto.
    - eapply Forall_impl; [|exact Hp2]. cbn beta. intros r Hr. tauto.
    - intros p. rewrite Hb1, Hb2. apply Hbits. }
  exists b1, b2, (fst st1, snd st1, run_sum (fst st1)).
  split; [exact Hr1|]. split; [exact Hr2|]. split; [exact Hf1|]. split; [rewrite Hf2, E, Hlen; reflexivity|].
  split; [congruence|]. rewrite Ho1, Ho2, E. reflexivity.
Qed.

(* ---- the maximal runs of a bit sequence, computed directly ---- *)

Lemma bit_shift b t pos p :
  (pos <=? p) && bitB (b :: t) (p - pos) = ((p =? pos) && b) || ((pos + 1 <=? p) && bitB t (p - (pos + 1))).
Proof.
  rewrite bitB_cons. destruct (N.lt_trichotomy p pos) as [Hlt|[E|Hgt]].
  - replace (pos <=? p) with false by lia. replace (p =? pos) with false by lia.
    replace (pos + 1 <=? p) with false by lia. reflexivity.
  - subst p. replace (pos <=? pos) with true by lia. replace (pos =? pos) with true by lia.
    replace (pos - pos =? 0) with true by lia. replace (pos + 1 <=? pos) with false by lia.
    cbn [andb]. rewrite orb_false_r. reflexivity.
  - replace (pos <=? p) with true by lia. replace (p =? pos) with false by lia.
    replace (p - pos =? 0) with false by lia. replace (pos + 1 <=? p) with true by lia.
    replace (p - pos - 1) with (p - (pos + 1)) by lia. reflexivity.
Qed.

Lemma runs_of_bits_from_ok B : forall pos,
  let rs := runs_of_bits_from B pos in
  chain gap rs /\ Forall (fun r => 0 < snd r) rs /\
  (forall p, in_runs rs p = (pos <=? p) && bitB B (p - pos)) /\
  match rs with [] => True | r :: _ => pos <= fst r end.
Proof.
  induction B as [|b t IH]; intros pos; cbv zeta.
  - cbn [runs_of_bits_from]. split; [exact I|]. split; [constructor|]. split; [|exact I].
    intros p. rewrite bitB_nil, andb_false_r. reflexivity.
  - specialize (IH (pos + 1)). cbv zeta in IH. destruct IH as (Ic & Ip & Ib & Ih).
    cbn [runs_of_bits_from]. destruct b.
    + destruct (runs_of_bits_from t (pos + 1)) as [|[s l] rest] eqn:E.
      * split; [exact I|]. split; [constructor; [cbn [snd]; lia|constructor]|]. split; [|cbn [fst]; lia].
        intros p. rewrite bit_shift, <- Ib. rewrite in_runs_cons. unfold in_run. cbn [fst snd in_runs existsb].
        rewrite andb_true_r. f_equal. lia.
      * cbn [fst] in Ih. apply Forall_tail in Ip. destruct Ip as [Hl Ip]. cbn [snd] in Hl.
        pose proof Ic as Ic'. apply chain_cons_inv in Ic. destruct Ic as [Ic Hg].
        destruct (N.eqb_spec s (pos + 1)) as [Es|Es].
        -- subst s. split; [|split; [|split]].
           ++ destruct rest as [|q rest']; [exact I|]. cbn [chain] in Ic' |- *. unfold gap in *. cbn [fst snd] in *.
              split; [lia|tauto].
           ++ constructor; [cbn [snd]; lia|exact Ip].
           ++ intros p. rewrite bit_shift, <- Ib. rewrite !in_runs_cons, andb_true_r, orb_assoc. f_equal.
              unfold in_run. cbn [fst snd]. lia.
           ++ cbn [fst]. lia.
        -- split; [|split; [|split]].
           ++ change (chain gap ((pos, 1) :: (s, l) :: rest)) with (gap (pos, 1) (s, l) /\ chain gap ((s, l) :: rest)).
              split; [unfold gap; cbn [fst snd]; lia|exact Ic'].
           ++ constructor; [cbn [snd]; lia|]. constructor; [exact Hl|exact Ip].
           ++ intros p. rewrite bit_shift, <- Ib. rewrite (in_runs_cons (pos, 1)), andb_true_r. f_equal.
              unfold in_run. cbn [fst snd]. lia.
           ++ cbn [fst]. lia.
    + split; [exact Ic|]. split; [exact Ip|]. split.
      * intros p. rewrite bit_shift, <- Ib. rewrite andb_false_r. reflexivity.
      * destruct (runs_of_bits_from t (pos + 1)) as [|r rest]; [exact I|]. lia.
Qed.

Lemma runs_of_bits_ok B :
  chain gap (runs_of_bits B) /\ Forall (fun r => 0 < snd r) (runs_of_bits B) /\
  (forall p, in_runs (runs_of_bits B) p = bitB B p).
Proof.
  destruct (runs_of_bits_from_ok B 0) as (H1 & H2 & H3 & _). split; [exact H1|]. split; [exact H2|].
  intros p. unfold runs_of_bits. rewrite H3. replace (0 <=? p) with true by lia. rewrite N.sub_0_r. reflexivity.
Qed.

(* the run list that copy_bit_vec builds IS the list of maximal runs *)
Theorem rl_copy_abs_runs : forall (m : mode) (B : list bool), lenB B <= MAXW ->
  rl_copy_abs m (ones B) (lenB B) = Ok (runs_of_bits B, lenB B, count B).
Proof.
  intros m B Hlen. destruct (rl_copy_abs_repr m B Hlen) as (rs & E & Hc & Hw & Hb & _).
  destruct (runs_of_bits_ok B) as (R1 & R2 & R3). rewrite E. do 3 f_equal.
  apply runs_canonical; [exact Hc| |exact R1|exact R2|].
  - eapply Forall_impl; [|exact Hw]. cbn beta. intros r Hr. tauto.
  - intros p. rewrite Hb, R3. reflexivity.
Qed.

(* any history that presents B (its accepted runs cover exactly the set bits of B, its final length is |B|)
   converts to the maximal runs of B *)
Theorem rl_builder_presents : forall (m : mode) (B : list bool) (ops : list rlop),
  Forall rlop_wf ops ->
  (forall p, in_runs (rl_accepted rl_spec_init ops) p = bitB B p) ->
  snd (fold_left rl_spec_step ops rl_spec_init) = lenB B ->
  exists b, rl_run m rl_init ops = Ok b /\ rl_finish m b = Ok (runs_of_bits B, lenB B, count B) /\
            blen b = lenB B /\ bones b = count B.
Proof.
  intros m B ops Hw Hbits Hlen.
  assert (HB : lenB B <= MAXW).
  { destruct (rl_builder_history_full m ops Hw) as (b & _ & _ & _ & _ & _ & _ & _ & _ & _ & _ & Hm & _). lia. }
  destruct (spec_ops_bits B HB) as (_ & S2 & S3 & S4).
  destruct (rl_builder_decomposition m ops (ops_bits B) Hw (ops_bits_wf B HB)) as (b1 & b2 & r & R1 & R2 & F1 & F2 & N1 & N2).
  - intros p. rewrite Hbits, S4. reflexivity.
  - rewrite Hlen, S3. reflexivity.
  - pose proof (rl_copy_abs_runs m B HB) as E. rewrite (rl_copy_abs_run m B HB), R2 in E. cbn [bind] in E.
    exists b1. split; [exact R1|]. split; [congruence|].
    destruct (rl_builder_history_full m (ops_bits B) (ops_bits_wf B HB)) as (b2' & _ & R2' & _ & _ & _ & Hn & Ho & _).
    assert (b2' = b2) by congruence. subst b2'. split; [congruence|]. rewrite N2, Ho. exact S2.
Qed.

(* ---- presentations in which every call is accepted ---- *)

(* every call is accepted when the builder's length is [cur]: runs start at or after the current length (so a
   set_len never exceeds the start of the next run) and end within a usize *)
Fixpoint pres_ok (cur : N) (ops : list rlop) : Prop :=
  match ops with
  | [] => True
  | TrySet s l :: t => cur <= s /\ s + l <= MAXW /\ pres_ok (if l =? 0 then cur else s + l) t
  | SetLen n :: t => n <= MAXW /\ pres_ok (N.max cur n) t
  end.
(* the non-empty pieces, in call order *)
Fixpoint pieces (ops : list rlop) : list (N * N) :=
  match ops with
  | [] => []
  | TrySet s l :: t => if l =? 0 then pieces t else (s, l) :: pieces t
  | SetLen _ :: t => pieces t
  end.
(* the length after the calls *)
Fixpoint pres_len (cur : N) (ops : list rlop) : N :=
  match ops with
  | [] => cur
  | TrySet s l :: t => pres_len (if l =? 0 then cur else s + l) t
  | SetLen n :: t => pres_len (N.max cur n) t
  end.

Lemma pres_accepted ops : forall st, pres_ok (snd st) ops ->
  rl_accepted st ops = pieces ops /\
  snd (fold_left rl_spec_step ops st) = pres_len (snd st) ops /\
  (snd st <= MAXW -> Forall rlop_wf ops).
Proof.
  induction ops as [|o t IH]; intros st H.
  - cbn. auto.
  - destruct o as [s l|n]; cbn [pres_ok] in H.
    + destruct H as (H1 & H2 & H3).
      assert (Ea : rl_spec_accepts st (TrySet s l) = true) by (unfold rl_spec_accepts; lia).
      cbn [rl_accepted pieces fold_left pres_len]. rewrite Ea. cbn [andb].
      assert (Es : snd (rl_spec_step st (TrySet s l)) = if l =? 0 then snd st else s + l).
      { unfold rl_spec_step. rewrite Ea. destruct (l =? 0); reflexivity. }
      rewrite <- Es in H3. destruct (IH _ H3) as (I1 & I2 & I3). rewrite I1, I2, Es.
      split; [destruct (l =? 0); reflexivity|]. split; [reflexivity|].
      intros Hm. constructor; [cbn [rlop_wf]; lia|]. apply I3. rewrite Es. destruct (l =? 0); lia.
    + destruct H as (H1 & H3).
      cbn [rl_accepted pieces fold_left pres_len].
      assert (Es : snd (rl_spec_step st (SetLen n)) = N.max (snd st) n).
      { unfold rl_spec_step. destruct (N.ltb_spec (snd st) n); cbn [snd]; lia. }
      rewrite <- Es in H3. destruct (IH _ H3) as (I1 & I2 & I3). rewrite I1, I2, Es.
      split; [reflexivity|]. split; [reflexivity|].
      intros Hm. constructor; [exact H1|]. apply I3. rewrite Es. lia.
Qed.

(* bit at a time, by maximal runs, by arbitrary splits of the runs into adjacent pieces, with zero-length
   runs, with set_len calls wherever they are accepted: all the same vector *)
Theorem rl_presentation_canonical : forall (m : mode) (B : list bool) (ops : list rlop),
  pres_ok 0 ops ->
  (forall p, in_runs (pieces ops) p = bitB B p) ->
  pres_len 0 ops = lenB B ->
  exists b, rl_run m rl_init ops = Ok b /\ rl_finish m b = Ok (runs_of_bits B, lenB B, count B) /\
            blen b = lenB B /\ bones b = count B.
Proof.
  intros m B ops Hok Hbits Hlen.
  destruct (pres_accepted ops rl_spec_init Hok) as (A1 & A2 & A3).
  apply rl_builder_presents.
  - apply A3. cbn. unfold MAXW. lia.
  - intros p. rewrite A1. apply Hbits.
  - rewrite A2. exact Hlen.
Qed.

(* the builder's own route "one call per maximal run, then set_len" is such a presentation *)
Lemma runs_within B : Forall (fun r => fst r + snd r <= lenB B) (runs_of_bits B).
Proof.
  destruct (runs_of_bits_ok B) as (_ & R2 & R3). apply Forall_forall. intros r Hin.
  pose proof (proj1 (Forall_forall _ _) R2 r Hin) as Hl. cbn beta in Hl.
  destruct (N.le_gt_cases (fst r + snd r) (lenB B)) as [Hle|Hgt]; [exact Hle|exfalso].
  assert (Hb : in_runs (runs_of_bits B) (fst r + snd r - 1) = true).
  { unfold in_runs. apply existsb_exists. exists r. split; [exact Hin|]. unfold in_run. lia. }
  rewrite R3, bitB_beyond in Hb by lia. discriminate.
Qed.

Lemma pres_runs rs hi : hi <= MAXW -> forall cur,
  chain gap rs -> Forall (fun r => 0 < snd r) rs -> Forall (fun r => fst r + snd r <= hi) rs ->
  match rs with [] => cur <= hi | r :: _ => cur <= fst r end ->
  let ops := map (fun r => TrySet (fst r) (snd r)) rs ++ [SetLen hi] in
  pres_ok cur ops /\ pieces ops = rs /\ pres_len cur ops = hi.
Proof.
  intros Hh. induction rs as [|[s l] t IH]; intros cur Hc Hp He Hcur; cbv zeta.
  - cbn [map app pres_ok pieces pres_len]. repeat split; lia.
  - apply chain_cons_inv in Hc. destruct Hc as [Hc Hg]. apply Forall_tail in Hp. destruct Hp as [Hl Hp].
    apply Forall_tail in He. destruct He as [He1 He]. cbn [fst snd] in *.
    cbn [map app pres_ok pieces pres_len fst snd]. replace (l =? 0) with false by lia.
    assert (Hn : match t with [] => s + l <= hi | r :: _ => s + l <= fst r end).
    { destruct t as [|q t']; [exact He1|]. unfold gap in Hg. cbn [fst snd] in Hg. lia. }
    specialize (IH (s + l) Hc Hp He Hn). cbv zeta in IH. destruct IH as (I1 & I2 & I3).
    split; [split; [lia|split; [lia|exact I1]]|]. split; [rewrite I2; reflexivity|exact I3].
Qed.

Theorem rl_by_maximal_runs : forall (m : mode) (B : list bool), lenB B <= MAXW ->
  exists b, rl_run m rl_init (ops_runs B) = Ok b /\ rl_finish m b = Ok (runs_of_bits B, lenB B, count B).
Proof.
  intros m B HB. destruct (runs_of_bits_ok B) as (R1 & R2 & R3).
  destruct (pres_runs (runs_of_bits B) (lenB B) HB 0 R1 R2 (runs_within B)) as (P1 & P2 & P3).
  { destruct (runs_of_bits B); lia. }
  destruct (rl_presentation_canonical m B (ops_runs B) P1) as (b & Hr & Hf & _).
  - intros p. unfold ops_runs. rewrite P2. apply R3.
  - exact P3.
  - exists b. split; assumption.
Qed.

(* ================================================================== Part 2: BitVector *)

Lemma nthb_bitB B : forall p, nthb B p = bitB B p.
Proof.
  induction B as [|b t IH]; intros p; [rewrite nthb_nil; reflexivity|].
  rewrite nthb_cons, bitB_cons, IH. reflexivity.
Qed.

Lemma raw_wf_of_inv r : raw_inv r -> rlen r < 2 ^ 64 -> raw_wf r.
Proof. intros (H1 & H2 & H3) H4. repeat split; assumption. Qed.
Lemma raw_inv_of_wf r : raw_wf r -> raw_inv r.
Proof. intros (H1 & H2 & H3 & H4). repeat split; assumption. Qed.

(* set_bit(p, true) for every p of a list of valid positions: the bits at those positions are set, the others kept *)
Lemma set_positions_ok ps : forall r, raw_inv r -> Forall (fun p => p < rlen r) ps ->
  exists r', set_positions r ps = Ok r' /\ raw_inv r' /\ rlen r' = rlen r /\
             forall i, nthb (abs_raw r') i = nthb (abs_raw r) i || existsb (N.eqb i) ps.
Proof.
  induction ps as [|p t IH]; intros r Hinv Hp.
  - exists r. cbn [set_positions existsb]. split; [reflexivity|]. split; [exact Hinv|]. split; [reflexivity|].
    intros i. rewrite orb_false_r. reflexivity.
  - apply Forall_tail in Hp. destruct Hp as [Hp Ht].
    destruct (raw_set_bit_ok r p true Hinv Hp) as (r1 & E1 & Hinv1 & Habs1).
    pose proof (abs_len r Hinv) as HL. pose proof (abs_len r1 Hinv1) as HL1.
    assert (Hlen1 : rlen r1 = rlen r).
    { rewrite <- HL1, Habs1. cbn [app]. rewrite lenL_app, lenL_takeN, lenL_cons, lenL_dropN, HL. lia. }
    rewrite <- Hlen1 in Ht. destruct (IH r1 Hinv1 Ht) as (r' & E' & Hinv' & Hlen' & Hb').
    exists r'. cbn [set_positions]. rewrite E1. cbn [bind]. split; [exact E'|]. split; [exact Hinv'|].
    split; [congruence|]. intros i. rewrite Hb', Habs1. cbn [existsb app].
    rewrite nthb_app, lenL_takeN, nthb_takeN, nthb_cons, nthb_dropN, HL.
    replace (N.min p (rlen r)) with p by lia.
    destruct (N.ltb_spec i p) as [Hi|Hi]; cbn [andb].
    + replace (i =? p) with false by lia. reflexivity.
    + destruct (N.eqb_spec (i - p) 0) as [E0|E0].
      * replace (i =? p) with true by lia. rewrite orb_true_r. reflexivity.
      * replace (i =? p) with false by lia. replace (p + 1 + (i - p - 1)) with i by lia. reflexivity.
Qed.

Lemma ones_below B : Forall (fun p => p < lenB B) (ones B).
Proof.
  apply Forall_forall. intros p Hin.
  destruct (N.lt_ge_cases p (lenB B)) as [Hlt|Hge]; [exact Hlt|exfalso].
  assert (E : existsb (N.eqb p) (ones B) = true) by (apply existsb_exists; exists p; split; [exact Hin|lia]).
  rewrite existsb_ones, bitB_beyond in E by exact Hge. discriminate.
Qed.

(* C11, BitVector target: copy_bit_vec from (len, ones) of B represents B, carries no support structure *)
Theorem bv_copy_repr : forall B : list bool, lenB B < 2 ^ 64 ->
  exists b, bv_copy (lenB B) (ones B) = Ok b /\ bv_repr b B /\
            bv_rank b = None /\ bv_select b = None /\ bv_select_zero b = None.
Proof.
  intros B Hlen. unfold bv_copy.
  destruct (raw_with_len_ok (lenB B) false) as (r0 & E0 & Hinv0 & Habs0). rewrite E0. cbn [bind].
  assert (Hl0 : rlen r0 = lenB B) by (rewrite <- (abs_len r0 Hinv0), Habs0, lenL_repN; reflexivity).
  pose proof (ones_below B) as Hp. rewrite <- Hl0 in Hp.
  destruct (set_positions_ok (ones B) r0 Hinv0 Hp) as (r & E & Hinv & Hl & Hb). rewrite E. cbn [bind].
  exists (bv_from_raw r). split; [reflexivity|]. split; [|repeat split].
  assert (HB : abs_raw r = B).
  { apply list_ext_nthb.
    - rewrite (abs_len r Hinv), Hl, Hl0. reflexivity.
    - intros i. rewrite Hb, Habs0, nthb_repN, andb_false_r, existsb_ones, nthb_bitB. reflexivity. }
  rewrite <- HB. apply bv_from_raw_repr. apply raw_wf_of_inv; [exact Hinv|]. rewrite Hl, Hl0. exact Hlen.
Qed.

(* FromIterator<bool>: push every bit *)
Lemma push_bits_ok bs : forall r, raw_inv r ->
  exists r', push_bits r bs = Ok r' /\ raw_inv r' /\ abs_raw r' = abs_raw r ++ bs.
Proof.
  induction bs as [|b t IH]; intros r Hinv.
  - exists r. cbn [push_bits]. rewrite app_nil_r. auto.
  - destruct (raw_push_bit_ok r b Hinv) as (r1 & E1 & Hinv1 & Habs1).
    destruct (IH r1 Hinv1) as (r' & E' & Hinv' & Habs'). exists r'. cbn [push_bits]. rewrite E1. cbn [bind].
    split; [exact E'|]. split; [exact Hinv'|]. rewrite Habs', Habs1, <- app_assoc. reflexivity.
Qed.

Theorem bv_from_bits_repr : forall B : list bool, lenB B < 2 ^ 64 ->
  exists b, bv_from_bits B = Ok b /\ bv_repr b B /\
            bv_rank b = None /\ bv_select b = None /\ bv_select_zero b = None.
Proof.
  intros B Hlen. unfold bv_from_bits. destruct raw_new_ok as [Hinv0 Habs0].
  destruct (push_bits_ok B raw_new Hinv0) as (r & E & Hinv & Habs). rewrite E. cbn [bind].
  rewrite Habs0 in Habs. cbn [app] in Habs.
  exists (bv_from_raw r). split; [reflexivity|]. split; [|repeat split].
  rewrite <- Habs. apply bv_from_raw_repr. apply raw_wf_of_inv; [exact Hinv|].
  rewrite <- (abs_len r Hinv), Habs. exact Hlen.
Qed.

(* a plain bitvector without supports is determined by the bit sequence it represents *)
Theorem bv_repr_canonical : forall b1 b2 B, bv_repr b1 B -> bv_repr b2 B ->
  bv_rank b1 = bv_rank b2 -> bv_select b1 = bv_select b2 -> bv_select_zero b1 = bv_select_zero b2 ->
  b1 = b2.
Proof.
  intros [o1 d1 r1 s1 z1] [o2 d2 r2 s2 z2] B (W1 & E1 & C1) (W2 & E2 & C2) Hr Hs Hz.
  cbn [bv_data bv_ones bv_rank bv_select bv_select_zero] in *. unfold bv_len in *. cbn [bv_data] in *.
  assert (d1 = d2).
  { apply raw_canonical; [apply raw_inv_of_wf; exact W1|apply raw_inv_of_wf; exact W2|].
    unfold abs_raw. congruence. }
  congruence.
Qed.

(* what a conversion reads from a BitVector source that represents B: len = |B|, one_iter = ones B *)
Lemma map_snd_index_from {A} (l : list A) : forall i, map snd (index_from l i) = l.
Proof. induction l as [|x t IH]; intros i; cbn [index_from map snd]; [reflexivity|]. rewrite IH. reflexivity. Qed.

Theorem bv_source_content : forall b B, bv_repr b B ->
  bv_len b = lenB B /\ bv_count_ones b = count B /\ bv_one_positions b = Ok (ones B).
Proof.
  intros b B Hrep. pose proof Hrep as (W & E & C).
  assert (Hlen : bv_len b = lenB B).
  { pose proof (abs_len (bv_data b) (raw_inv_of_wf _ W)) as HL. unfold abs_raw in HL. unfold bv_len in *.
    rewrite <- E in HL. symmetry. exact HL. }
  split; [exact Hlen|]. split; [exact C|].
  unfold bv_one_positions. rewrite (oi_collect_all Identity b B _ Hrep).
  - cbn [bind]. unfold oi_R. cbn [t_bits]. rewrite map_snd_index_from. reflexivity.
  - pose proof (lenN_index_from (ones B) 0) as H1. pose proof (lenN_ones B) as H2.
    unfold oi_R. cbn [t_bits]. unfold lenN in *. unfold bv_count_ones. rewrite C. lia.
Qed.

(* ================================================================== Part 3: SparseVector (abstract builder) *)

Definition setP (u cap : N) : sparams := (u, cap, false).

Lemma sp_next_snoc u cap acc i : sp_next (setP u cap) (acc ++ [i]) = i + 1.
Proof. unfold sp_next, setP, p_multi. cbn [snd]. rewrite lastO_snoc. reflexivity. Qed.

Lemma sp_accepts_incr u cap acc i :
  lenL acc < cap -> i < u -> sp_next (setP u cap) acc <= i -> sp_accepts (setP u cap) acc i = true.
Proof.
  intros H1 H2 H3. unfold sp_accepts, sp_next, setP, p_cap, p_univ, p_multi in *. cbn [fst snd] in *.
  destruct (lastO acc) as [p|]; lia.
Qed.

(* set_unchecked on a position the rule accepts: exactly what the checked calls do *)
Lemma sb_set_unchecked_accepted m u cap acc i : u <= MAXW -> cap <= MAXW ->
  sp_accepts (setP u cap) acc i = true ->
  Builders.sb_set_unchecked m (sb_of (setP u cap) acc) i = (sb_of (setP u cap) (acc ++ [i]), Ok tt).
Proof.
  intros Hu Hc Ha. unfold sp_accepts, setP, p_cap, p_univ, p_multi in Ha. cbn [fst snd] in Ha.
  apply andb_prop in Ha. destruct Ha as [Ha _]. apply andb_prop in Ha. destruct Ha as [H1 H2].
  unfold Builders.sb_set_unchecked, sb_of, setP, p_univ, p_cap, p_multi. cbn [fst snd suniv scap sincr slen snext spos].
  rewrite (uadd_ok m (lenL acc) 1) by lia. rewrite (uadd_ok m i 1) by lia.
  f_equal. rewrite lenL_snoc. f_equal. fold (setP u cap). rewrite sp_next_snoc. reflexivity.
Qed.

Lemma lenL_cons' {A} (x : A) l : lenL (x :: l) = lenL l + 1.
Proof. unfold lenL. cbn [length]. lia. Qed.

(* the unchecked loop of copy_bit_vec, the checked set() calls and extend() reach the same builder state *)
Lemma sb_routes m u cap : u <= MAXW -> cap <= MAXW -> forall ps acc,
  pos_ok (setP u cap) acc -> incr_below (sp_next (setP u cap) acc) u ps -> lenL acc + lenL ps <= cap ->
  sb_set_all_unchecked m (sb_of (setP u cap) acc) ps = (sb_of (setP u cap) (acc ++ ps), Ok tt) /\
  sb_run m (sb_of (setP u cap) acc) (map SetS ps) = sb_of (setP u cap) (acc ++ ps) /\
  sb_extend m (sb_of (setP u cap) acc) ps = (sb_of (setP u cap) (acc ++ ps), Ok Accepted) /\
  pos_ok (setP u cap) (acc ++ ps).
Proof.
  intros Hu Hc. assert (Hw : sparams_wf (setP u cap)) by (split; assumption).
  induction ps as [|i t IH]; intros acc Hp Hi Hl.
  - cbn [sb_set_all_unchecked map sb_run sb_extend]. rewrite app_nil_r. auto.
  - cbn [incr_below] in Hi. destruct Hi as [Hi1 Hi2]. pose proof (incr_below_le _ _ _ Hi2) as Hiu.
    rewrite lenL_cons' in Hl.
    assert (Ha : sp_accepts (setP u cap) acc i = true) by (apply sp_accepts_incr; lia).
    pose proof (pos_ok_accept _ _ _ Hp Ha) as Hp'.
    rewrite <- (sp_next_snoc u cap acc i) in Hi2.
    assert (Hl' : lenL (acc ++ [i]) + lenL t <= cap) by (rewrite lenL_snoc; lia).
    destruct (IH (acc ++ [i]) Hp' Hi2 Hl') as (I1 & I2 & I3 & I4). rewrite <- app_assoc in I1, I2, I3, I4. cbn [app] in *.
    cbn [sb_set_all_unchecked map sb_run sb_extend sb_step].
    rewrite (sb_set_unchecked_accepted m u cap acc i Hu Hc Ha). cbn [fst snd].
    rewrite (sb_set_ok m _ acc i Hw Hp), Ha. cbn [fst snd]. auto.
Qed.

Lemma count_le_lenB B : count B <= lenB B.
Proof. apply count_le_length. Qed.

(* C11, sparse target: copy_bit_vec from (len, count_ones, ones) of B is accepted position by position and
   converts to the vector with exactly those positions; SparseBuilder::new + set per position and + extend
   reach the same builder state *)
Theorem sp_copy_abs_repr : forall (m : mode) (B : list bool), lenB B <= MAXW ->
  sp_copy_abs m (ones B) (lenB B) (count B) = Ok (lenB B, count B, ones B) /\
  exists b0, sb_make (NewS (lenB B) (count B)) = Some b0 /\
    fst (sb_set_all_unchecked m b0 (ones B)) = sb_run m b0 (map SetS (ones B)) /\
    fst (sb_set_all_unchecked m b0 (ones B)) = sb_run m b0 [ExtendS (ones B)] /\
    sb_finish (sb_run m b0 (map SetS (ones B))) = Some (lenB B, count B, ones B).
Proof.
  intros m B Hlen. pose proof (count_le_lenB B) as Hc.
  set (u := lenB B) in *. set (cap := count B) in *.
  assert (Hmk : sb_make (NewS u cap) = Some (sb_of (setP u cap) [])).
  { rewrite sb_make_ok. cbn [sp_params]. replace (u <? cap) with false by lia. reflexivity. }
  pose proof (ones_from_incr B 0) as Hi. rewrite N.add_0_l in Hi. fold (ones B) in Hi. fold u in Hi.
  assert (Hcnt : lenL (ones B) = cap) by (unfold ones; apply ones_from_len).
  destruct (sb_routes m u cap Hlen ltac:(lia) (ones B) [] (pos_ok_nil _)) as (R1 & R2 & R3 & R4).
  { exact Hi. }
  { unfold lenL at 1. cbn [length]. lia. }
  cbn [app] in *.
  assert (Hfin : sb_finish (sb_of (setP u cap) (ones B)) = Some (u, cap, ones B)).
  { rewrite sb_finish_ok. unfold sp_finish, setP, p_cap, p_univ. cbn [fst snd]. rewrite Hcnt.
    replace (cap =? cap) with true by lia. reflexivity. }
  split.
  - unfold sp_copy_abs. rewrite Hmk, R1. cbn [fst snd]. rewrite Hfin. reflexivity.
  - exists (sb_of (setP u cap) []). split; [exact Hmk|]. rewrite R1, R2. cbn [fst sb_run sb_step]. rewrite R3. cbn [fst].
    split; [reflexivity|]. split; [reflexivity|exact Hfin].
Qed.

(* ================================================================== Part 4: chains of conversions *)

(* x stores the bit sequence B (a BitVector may carry any supports; the abstract sparse / run-length vectors
   are the ones their builders produce for B) *)
Definition represents (x : vec) (B : list bool) : Prop :=
  match x with
  | VB b => bv_repr b B
  | VS v => v = (lenB B, count B, ones B)
  | VR v => v = (runs_of_bits B, lenB B, count B)
  end.

Lemma existsb_above l : forall p, chain N.lt l -> match l with [] => True | a :: _ => p < a end ->
  existsb (N.eqb p) l = false.
Proof.
  induction l as [|a t IH]; intros p Hc Hlt; [reflexivity|].
  apply chain_cons_inv in Hc. destruct Hc as [Hc Hg]. cbn [existsb]. replace (p =? a) with false by lia. cbn [orb].
  apply IH; [exact Hc|]. destruct t as [|q t']; [exact I|]. lia.
Qed.

(* an increasing list is determined by its members *)
Lemma sorted_canonical l1 : forall l2, chain N.lt l1 -> chain N.lt l2 ->
  (forall p, existsb (N.eqb p) l1 = existsb (N.eqb p) l2) -> l1 = l2.
Proof.
  induction l1 as [|a1 t1 IH]; intros [|a2 t2] Hc1 Hc2 Hb.
  - reflexivity.
  - specialize (Hb a2). cbn [existsb] in Hb. replace (a2 =? a2) with true in Hb by lia. discriminate.
  - specialize (Hb a1). cbn [existsb] in Hb. replace (a1 =? a1) with true in Hb by lia. discriminate.
  - pose proof Hc1 as Hc1'. pose proof Hc2 as Hc2'.
    apply chain_cons_inv in Hc1. destruct Hc1 as [Hc1 Hg1]. apply chain_cons_inv in Hc2. destruct Hc2 as [Hc2 Hg2].
    assert (Ha : a1 = a2).
    { destruct (N.lt_trichotomy a1 a2) as [Hlt|[E|Hlt]]; [exfalso|exact E|exfalso].
      - specialize (Hb a1). rewrite (existsb_above (a2 :: t2) a1 Hc2') in Hb by exact Hlt.
        cbn [existsb] in Hb. replace (a1 =? a1) with true in Hb by lia. discriminate.
      - specialize (Hb a2). rewrite (existsb_above (a1 :: t1) a2 Hc1') in Hb by exact Hlt.
        cbn [existsb] in Hb. replace (a2 =? a2) with true in Hb by lia. discriminate. }
    subst a2. f_equal. apply IH; [exact Hc1|exact Hc2|]. intros p.
    destruct (N.le_gt_cases p a1) as [Hle|Hgt].
    + rewrite (existsb_above t1 p Hc1), (existsb_above t2 p Hc2); [reflexivity| |].
      * destruct t2 as [|q t']; [exact I|]. lia.
      * destruct t1 as [|q t']; [exact I|]. lia.
    + specialize (Hb p). cbn [existsb] in Hb. replace (p =? a1) with false in Hb by lia. exact Hb.
Qed.

Lemma incr_chain ps : forall cur hi, incr_below cur hi ps ->
  chain N.lt ps /\ match ps with [] => True | a :: _ => cur <= a end.
Proof.
  induction ps as [|a t IH]; intros cur hi H; [split; exact I|].
  cbn [incr_below] in H. destruct H as [H1 H2]. destruct (IH _ _ H2) as [I1 I2]. split; [|exact H1].
  destruct t as [|q t']; [exact I|]. change (a < q /\ chain N.lt (q :: t')). split; [lia|exact I1].
Qed.

Lemma ones_sorted B : chain N.lt (ones B).
Proof. exact (proj1 (incr_chain _ _ _ (ones_from_incr B 0))). Qed.

(* what a conversion reads from a source that represents B: exactly (|B|, count B, ones B) *)
Lemma reads_of_represents x B : represents x B -> reads x (lenB B) (count B) (ones B).
Proof.
  destruct x as [b|v|v]; cbn [represents reads].
  - intros H. destruct (bv_source_content b B H) as (H1 & H2 & H3). auto.
  - auto.
  - intros ->. cbn [fst snd]. split; [reflexivity|]. split; [reflexivity|]. split; [apply ones_sorted|].
    intros p. rewrite existsb_ones. symmetry. apply runs_of_bits_ok.
Qed.

Lemma reads_unique x B n o ps : represents x B -> reads x n o ps ->
  n = lenB B /\ o = count B /\ ps = ones B.
Proof.
  destruct x as [b|v|v]; cbn [represents reads].
  - intros H (R1 & R2 & R3). destruct (bv_source_content b B H) as (H1 & H2 & H3).
    split; [congruence|]. split; [congruence|]. congruence.
  - intros -> E. inversion E. auto.
  - intros -> (R1 & R2 & R3 & R4). cbn [fst snd] in *. split; [auto|]. split; [auto|].
    apply sorted_canonical; [exact R3|apply ones_sorted|].
    intros p. rewrite R4, existsb_ones. apply runs_of_bits_ok.
Qed.

(* every target's copy_bit_vec on (|B|, count B, ones B) succeeds and represents B *)
Lemma copy_to_represents m t B : lenB B < 2 ^ 64 ->
  exists y, copy_to m t (lenB B) (count B) (ones B) = Ok y /\ represents y B /\ type_of y = t /\
    match y with VB b => bv_rank b = None /\ bv_select b = None /\ bv_select_zero b = None | _ => True end.
Proof.
  intros Hlen. assert (HM : lenB B <= MAXW) by (unfold MAXW; lia). destruct t; cbn [copy_to].
  - destruct (bv_copy_repr B Hlen) as (b & E & Hr & Hs). exists (VB b). rewrite E. cbn [rmap bind]. auto.
  - destruct (sp_copy_abs_repr m B HM) as (E & _). exists (VS (lenB B, count B, ones B)). rewrite E.
    cbn [rmap bind represents type_of]. auto.
  - rewrite (rl_copy_abs_runs m B HM). exists (VR (runs_of_bits B, lenB B, count B)).
    cbn [rmap bind represents type_of]. auto.
Qed.

(* one conversion step: possible, preserves the represented sequence, and its result does not depend on the source *)
Lemma converts_step m t x B : lenB B < 2 ^ 64 -> represents x B ->
  (exists y, converts m t x y) /\
  (forall y, converts m t x y -> represents y B /\ type_of y = t /\
             copy_to m t (lenB B) (count B) (ones B) = Ok y).
Proof.
  intros Hlen Hrep. destruct (copy_to_represents m t B Hlen) as (y0 & E0 & R0 & T0 & _). split.
  - exists y0, (lenB B), (count B), (ones B). split; [apply reads_of_represents; exact Hrep|exact E0].
  - intros y (n & o & ps & Hr & E). destruct (reads_unique x B n o ps Hrep Hr) as (-> & -> & ->).
    assert (y = y0) by congruence. subst y. auto.
Qed.

(* C11: any chain of conversions can be carried out and preserves the represented bit sequence *)
Theorem chain_preserves : forall (m : mode) (B : list bool) (ts : list vtype) (x : vec),
  lenB B < 2 ^ 64 -> represents x B ->
  (exists y, chain_conv m ts x y) /\
  (forall y, chain_conv m ts x y -> represents y B /\ reads y (lenB B) (count B) (ones B)).
Proof.
  intros m B ts. induction ts as [|t ts IH]; intros x Hlen Hrep.
  - split; [exists x; constructor|]. intros y Hc. inversion Hc; subst. split; [exact Hrep|apply reads_of_represents; exact Hrep].
  - destruct (converts_step m t x B Hlen Hrep) as [(y1 & C1) Hall]. split.
    + destruct (Hall y1 C1) as (R1 & _). destruct (IH y1 Hlen R1) as [(z & Cz) _]. exists z. econstructor; eassumption.
    + intros z Hc. inversion Hc as [|t' ts' x' y z' Hcv Hrest]; subst.
      destruct (Hall y Hcv) as (R1 & _). exact (proj2 (IH y Hlen R1) z Hrest).
Qed.

(* the result of a chain depends only on the represented sequence and the LAST target type: it is the
   structure that the target's copy_bit_vec builds from (|B|, ones B), whatever the source type, the source's
   support structures and the intermediate types *)
Theorem chain_canonical : forall (m : mode) (B : list bool) (ts : list vtype) (t : vtype) (x y : vec),
  lenB B < 2 ^ 64 -> represents x B -> chain_conv m (ts ++ [t]) x y ->
  copy_to m t (lenB B) (count B) (ones B) = Ok y /\ type_of y = t.
Proof.
  intros m B ts. induction ts as [|t0 ts IH]; intros t x y Hlen Hrep Hc.
  - cbn [app] in Hc. inversion Hc as [|t' ts' x' y1 z' Hcv Hrest]; subst. inversion Hrest; subst.
    destruct (proj2 (converts_step m t x B Hlen Hrep) y Hcv) as (_ & T & E). auto.
  - cbn [app] in Hc. inversion Hc as [|t' ts' x' y1 z' Hcv Hrest]; subst.
    destruct (proj2 (converts_step m t0 x B Hlen Hrep) y1 Hcv) as (R1 & _). exact (IH t y1 y Hlen R1 Hrest).
Qed.

Corollary chain_route_independent : forall (m : mode) (B : list bool) (ts1 ts2 : list vtype) (t : vtype) (x1 x2 y1 y2 : vec),
  lenB B < 2 ^ 64 -> represents x1 B -> represents x2 B ->
  chain_conv m (ts1 ++ [t]) x1 y1 -> chain_conv m (ts2 ++ [t]) x2 y2 -> y1 = y2.
Proof.
  intros m B ts1 ts2 t x1 x2 y1 y2 Hlen H1 H2 C1 C2.
  destruct (chain_canonical m B ts1 t x1 y1 Hlen H1 C1) as [E1 _].
  destruct (chain_canonical m B ts2 t x2 y2 Hlen H2 C2) as [E2 _]. congruence.
Qed.

(* ---- BitVector: every construction route gives the same structure, hence the same serialization ---- *)

Theorem bv_routes_equal : forall (B : list bool) (r : raw),
  lenB B < 2 ^ 64 -> raw_wf r -> bits_of (rlen r) (rdata r) = B ->
  exists b, bv_copy (lenB B) (ones B) = Ok b /\ bv_from_bits B = Ok b /\ bv_from_raw r = b /\
            bv_repr b B /\ bv_serialize (bv_from_raw r) = bv_serialize b.
Proof.
  intros B r Hlen Hwf HB.
  destruct (bv_copy_repr B Hlen) as (b1 & E1 & R1 & S1 & S2 & S3).
  destruct (bv_from_bits_repr B Hlen) as (b2 & E2 & R2 & T1 & T2 & T3).
  pose proof (bv_from_raw_repr r Hwf) as R3. rewrite HB in R3.
  assert (b2 = b1) by (apply (bv_repr_canonical b2 b1 B); congruence).
  assert (bv_from_raw r = b1) by (apply (bv_repr_canonical _ b1 B); [exact R3|exact R1| | |]; cbn; congruence).
  subst b2. exists b1. rewrite H0. auto.
Qed.

(* ---- what the theorems exclude: the set_len of before the repair of finding F5 ---- *)

(* with the old set_len two presentations of the same 15 bits (10 unset, 5 set) give different vectors *)
Lemma rl_decomposition_old_refuted :
  exists ops1 ops2, Forall rlop_wf ops1 /\ Forall rlop_wf ops2 /\
    (forall p, in_runs (rl_accepted rl_spec_init ops1) p = in_runs (rl_accepted rl_spec_init ops2) p) /\
    snd (fold_left rl_spec_step ops1 rl_spec_init) = snd (fold_left rl_spec_step ops2 rl_spec_init) /\
    forall m, exists b1 b2, rl_run_with rl_set_len_old m rl_init ops1 = Ok b1 /\
                            rl_run_with rl_set_len_old m rl_init ops2 = Ok b2 /\
                            rl_finish m b1 <> rl_finish m b2.
Proof.
  exists [SetLen 10; TrySet 10 5], [TrySet 10 5].
  split; [repeat constructor; cbn; unfold MAXW; lia|]. split; [repeat constructor; cbn; unfold MAXW; lia|].
  split; [intros p; reflexivity|]. split; [reflexivity|].
  intros m. destruct m; eexists; eexists; (split; [vm_compute; reflexivity|]); (split; [vm_compute; reflexivity|]);
    vm_compute; discriminate.
Qed.
