(* Proofs for property C11: conversions between the bitvector types preserve (len, set positions), and the
   target's structure depends only on (len, set positions).
   Part 1: run lists are determined by their bit sets; every presentation of a bit set as RLBuilder calls reaches
           the same final state (over Model/Builders.v); RLVector::copy_bit_vec.
   Part 2: BitVector::copy_bit_vec / from bits / from a raw vector build the same structure.
   Part 3: SparseVector::copy_bit_vec over the abstract builder, and copy_bit_vec = the checked builder route
           in the concrete model.
   Part 4: chains of conversions. *)
From Coq Require Import NArith List Lia ZArith Bool.
Require Import SDS.Model.Mach SDS.Model.Builders SDS.Model.Convert SDS.Spec.BuilderSpec SDS.Spec.BitSeq.
Require Import SDS.Proofs.BuildersProof.
Import ListNotations.
Open Scope N_scope.
Require Import ZifyBool ZifyN ZifyNat.
Ltac Zify.zify_post_hook ::= Z.div_mod_to_equations.
Arguments N.add : simpl never. Arguments N.sub : simpl never. Arguments N.mul : simpl never.
Arguments N.eqb : simpl never. Arguments N.ltb : simpl never. Arguments N.leb : simpl never.
Arguments N.pow : simpl never. Arguments N.div : simpl never. Arguments N.modulo : simpl never.

(* bit p of a sequence, false beyond its end *)
Definition bitB (B : list bool) (p : N) : bool := match getb B p with Some x => x | None => false end.

(* ================================================================== Part 1: run lists *)

Lemma chain_cons_inv {A} (R : A -> A -> Prop) a t :
  chain R (a :: t) -> chain R t /\ match t with b :: _ => R a b | [] => True end.
Proof. destruct t as [|b t']; cbn; tauto. Qed.

Lemma in_runs_cons r t p : in_runs (r :: t) p = in_run p r || in_runs t p.
Proof. reflexivity. Qed.

(* below the first start nothing is set *)
Lemma in_runs_before rs : forall p, chain gap rs -> Forall (fun r => 0 < snd r) rs ->
  match rs with [] => True | r :: _ => p < fst r end -> in_runs rs p = false.
Proof.
  induction rs as [|r t IH]; intros p Hc Hp Hlt; [reflexivity|].
  apply chain_cons_inv in Hc. destruct Hc as [Hc Hg]. apply Forall_tail in Hp. destruct Hp as [Hr Hp].
  rewrite in_runs_cons. unfold in_run at 1. replace (fst r <=? p) with false by lia. cbn [andb orb].
  apply IH; [exact Hc|exact Hp|]. destruct t as [|q t']; [exact I|]. unfold gap in Hg. lia.
Qed.

(* a list of separated non-empty runs is determined by the set of positions it covers *)
Lemma runs_canonical rs1 : forall rs2,
  chain gap rs1 -> Forall (fun r => 0 < snd r) rs1 ->
  chain gap rs2 -> Forall (fun r => 0 < snd r) rs2 ->
  (forall p, in_runs rs1 p = in_runs rs2 p) -> rs1 = rs2.
Proof.
  induction rs1 as [|[s1 l1] t1 IH]; intros [|[s2 l2] t2] Hc1 Hp1 Hc2 Hp2 Hb.
  - reflexivity.
  - exfalso. specialize (Hb s2). apply Forall_tail in Hp2. destruct Hp2 as [Hl _]. cbn [snd] in Hl.
    rewrite in_runs_cons in Hb. unfold in_run in Hb. cbn [fst snd in_runs existsb] in Hb.
    replace ((s2 <=? s2) && (s2 <? s2 + l2)) with true in Hb by lia. discriminate.
  - exfalso. specialize (Hb s1). apply Forall_tail in Hp1. destruct Hp1 as [Hl _]. cbn [snd] in Hl.
    rewrite in_runs_cons in Hb. unfold in_run in Hb. cbn [fst snd in_runs existsb] in Hb.
    replace ((s1 <=? s1) && (s1 <? s1 + l1)) with true in Hb by lia. discriminate.
  - pose proof Hc1 as Hc1'. pose proof Hc2 as Hc2'. pose proof Hp1 as Hp1'. pose proof Hp2 as Hp2'.
    apply chain_cons_inv in Hc1. destruct Hc1 as [Hc1 Hg1]. apply chain_cons_inv in Hc2. destruct Hc2 as [Hc2 Hg2].
    apply Forall_tail in Hp1. destruct Hp1 as [Hl1 Hp1]. apply Forall_tail in Hp2. destruct Hp2 as [Hl2 Hp2].
    cbn [snd] in Hl1, Hl2.
    assert (Hbef1 : forall p, p <= s1 + l1 -> in_runs t1 p = false).
    { intros p Hle. apply in_runs_before; [exact Hc1|exact Hp1|]. destruct t1 as [|q t']; [exact I|].
      unfold gap in Hg1. cbn [fst snd] in Hg1. lia. }
    assert (Hbef2 : forall p, p <= s2 + l2 -> in_runs t2 p = false).
    { intros p Hle. apply in_runs_before; [exact Hc2|exact Hp2|]. destruct t2 as [|q t']; [exact I|].
      unfold gap in Hg2. cbn [fst snd] in Hg2. lia. }
    assert (Hs : s1 = s2).
    { destruct (N.lt_trichotomy s1 s2) as [Hlt|[E|Hlt]]; [exfalso|exact E|exfalso].
      - specialize (Hb s1). rewrite (in_runs_before _ s1 Hc2' Hp2') in Hb by (cbn [fst]; lia).
        rewrite in_runs_cons in Hb. unfold in_run in Hb. cbn [fst snd] in Hb.
        replace ((s1 <=? s1) && (s1 <? s1 + l1)) with true in Hb by lia. discriminate.
      - specialize (Hb s2). rewrite (in_runs_before _ s2 Hc1' Hp1') in Hb by (cbn [fst]; lia).
        rewrite in_runs_cons in Hb. unfold in_run in Hb. cbn [fst snd] in Hb.
        replace ((s2 <=? s2) && (s2 <? s2 + l2)) with true in Hb by lia. discriminate. }
    subst s2.
    assert (Hl : l1 = l2).
    { destruct (N.lt_trichotomy l1 l2) as [Hlt|[E|Hlt]]; [exfalso|exact E|exfalso].
      - specialize (Hb (s1 + l1)). rewrite !in_runs_cons in Hb. rewrite Hbef1 in Hb by lia.
        unfold in_run in Hb. cbn [fst snd] in Hb.
        replace ((s1 <=? s1 + l1) && (s1 + l1 <? s1 + l1)) with false in Hb by lia.
        replace ((s1 <=? s1 + l1) && (s1 + l1 <? s1 + l2)) with true in Hb by lia. discriminate.
      - specialize (Hb (s1 + l2)). rewrite !in_runs_cons in Hb. rewrite Hbef2 in Hb by lia.
        unfold in_run in Hb. cbn [fst snd] in Hb.
        replace ((s1 <=? s1 + l2) && (s1 + l2 <? s1 + l2)) with false in Hb by lia.
        replace ((s1 <=? s1 + l2) && (s1 + l2 <? s1 + l1)) with true in Hb by lia. discriminate. }
    subst l2. f_equal. apply IH; [exact Hc1|exact Hp1|exact Hc2|exact Hp2|].
    intros p. destruct (N.le_gt_cases p (s1 + l1)) as [Hle|Hgt].
    + rewrite Hbef1, Hbef2 by exact Hle. reflexivity.
    + specialize (Hb p). rewrite !in_runs_cons in Hb. unfold in_run in Hb. cbn [fst snd] in Hb.
      replace ((s1 <=? p) && (p <? s1 + l1)) with false in Hb by lia. exact Hb.
Qed.

(* ---- the set positions of a bit sequence ---- *)

(* increasing, at or after [cur], the last one below [hi] *)
Fixpoint incr_below (cur hi : N) (ps : list N) : Prop :=
  match ps with
  | [] => cur <= hi
  | p :: t => cur <= p /\ incr_below (p + 1) hi t
  end.

Lemma incr_below_weaken cur cur' hi ps : cur' <= cur -> incr_below cur hi ps -> incr_below cur' hi ps.
Proof. destruct ps as [|p t]; cbn [incr_below]; intros; [lia|]. split; [lia|tauto]. Qed.

Lemma incr_below_le cur hi ps : incr_below cur hi ps -> cur <= hi.
Proof.
  revert cur. induction ps as [|p t IH]; intros cur H; cbn [incr_below] in H; [exact H|].
  destruct H as [H1 H2]. apply IH in H2. lia.
Qed.

Lemma incr_below_hi cur hi hi' ps : hi <= hi' -> incr_below cur hi ps -> incr_below cur hi' ps.
Proof.
  revert cur. induction ps as [|p t IH]; intros cur Hh H; cbn [incr_below] in *; [lia|].
  destruct H as [H1 H2]. split; [exact H1|]. apply IH; assumption.
Qed.

Lemma lenB_cons b t : lenB (b :: t) = lenB t + 1.
Proof. unfold lenB. cbn [length]. lia. Qed.

Lemma ones_from_incr B : forall pos, incr_below pos (pos + lenB B) (ones_from B pos).
Proof.
  induction B as [|b t IH]; intros pos; cbn [ones_from].
  - cbn [incr_below]. unfold lenB. cbn [length]. lia.
  - rewrite lenB_cons. specialize (IH (pos + 1)). replace (pos + (lenB t + 1)) with (pos + 1 + lenB t) by lia.
    destruct b.
    + cbn [incr_below]. split; [lia|exact IH].
    + apply (incr_below_weaken (pos + 1)); [lia|exact IH].
Qed.

Lemma ones_from_len B : forall pos, lenL (ones_from B pos) = count B.
Proof.
  induction B as [|b t IH]; intros pos; cbn [ones_from count]; [reflexivity|].
  destruct b; cbn [b2n]; [|rewrite IH; lia].
  unfold lenL in *. cbn [length]. rewrite Nat2N.inj_succ, IH. lia.
Qed.

Lemma bitB_nil p : bitB [] p = false.
Proof. reflexivity. Qed.
Lemma bitB_cons b t p : bitB (b :: t) p = if p =? 0 then b else bitB t (p - 1).
Proof. unfold bitB. cbn [getb]. destruct (p =? 0); reflexivity. Qed.

Lemma bitB_beyond B : forall p, lenB B <= p -> bitB B p = false.
Proof.
  induction B as [|b t IH]; intros p H; [reflexivity|]. rewrite lenB_cons in H. rewrite bitB_cons.
  replace (p =? 0) with false by lia. apply IH. lia.
Qed.

(* membership in the list of set positions is the bit *)
Lemma existsb_ones_from B : forall pos p,
  existsb (N.eqb p) (ones_from B pos) = (pos <=? p) && bitB B (p - pos).
Proof.
  induction B as [|b t IH]; intros pos p; cbn [ones_from].
  - cbn [existsb]. rewrite bitB_nil, andb_false_r. reflexivity.
  - rewrite bitB_cons. destruct (N.lt_trichotomy p pos) as [Hlt|[E|Hgt]].
    + replace (pos <=? p) with false by lia. cbn [andb].
      destruct b; cbn [existsb]; rewrite ?IH; replace (pos + 1 <=? p) with false by lia;
        [replace (p =? pos) with false by lia|]; reflexivity.
    + subst p. replace (pos <=? pos) with true by lia. replace (pos - pos =? 0) with true by lia. cbn [andb].
      destruct b; cbn [existsb]; rewrite ?IH.
      * replace (pos =? pos) with true by lia. reflexivity.
      * replace (pos + 1 <=? pos) with false by lia. reflexivity.
    + replace (pos <=? p) with true by lia. replace (p - pos =? 0) with false by lia. cbn [andb].
      replace (p - pos - 1) with (p - (pos + 1)) by lia.
      destruct b; cbn [existsb]; rewrite IH; replace (pos + 1 <=? p) with true by lia; cbn [andb];
        [replace (p =? pos) with false by lia|]; reflexivity.
Qed.

Lemma existsb_ones B p : existsb (N.eqb p) (ones B) = bitB B p.
Proof. unfold ones. rewrite existsb_ones_from. replace (0 <=? p) with true by lia. rewrite N.sub_0_r. reflexivity. Qed.

Lemma in_runs_units ps p : in_runs (map (fun q => (q, 1)) ps) p = existsb (N.eqb p) ps.
Proof.
  induction ps as [|q t IH]; [reflexivity|]. cbn [map]. rewrite in_runs_cons, IH. cbn [existsb]. f_equal.
  unfold in_run. cbn [fst snd]. lia.
Qed.

(* ---- folding bit-at-a-time calls through the specification ---- *)

Definition set1 (p : N) : rlop := TrySet p 1.

Lemma spec_bits_fold ps : forall st hi, incr_below (snd st) hi ps -> hi <= MAXW ->
  let st' := fold_left rl_spec_step (map set1 ps) st in
  (forall p, in_runs (fst st') p = in_runs (fst st) p || existsb (N.eqb p) ps) /\
  run_sum (fst st') = run_sum (fst st) + lenL ps /\
  snd st <= snd st' /\ snd st' <= hi /\
  rl_accepted st (map set1 ps) = map (fun q => (q, 1)) ps.
Proof.
  induction ps as [|q t IH]; intros st hi Hi Hh; cbv zeta.
  - cbn [map fold_left existsb rl_accepted incr_below] in *. unfold lenL. cbn [length].
    repeat split; [intros p; rewrite orb_false_r; reflexivity|lia|lia|lia].
  - cbn [incr_below] in Hi. destruct Hi as [Hq Hi]. pose proof (incr_below_le _ _ _ Hi) as Hqh.
    cbn [map fold_left rl_accepted]. unfold set1 at 1 3.
    assert (Ea : rl_spec_accepts st (TrySet q 1) = true).
    { unfold rl_spec_accepts. lia. }
    assert (Es : rl_spec_step st (TrySet q 1) = (add_run (fst st) q 1, q + 1)).
    { unfold rl_spec_step. rewrite Ea. replace (1 =? 0) with false by lia. reflexivity. }
    rewrite Ea. replace (1 =? 0) with false by lia. cbn [negb andb]. rewrite Es.
    specialize (IH (add_run (fst st) q 1, q + 1) hi Hi Hh). cbv zeta in IH. cbn [fst snd] in IH.
    destruct IH as (I1 & I2 & I3 & I4 & I5).
    split; [|split; [|split; [|split]]].
    + intros p. rewrite I1, in_runs_add_run. cbn [existsb]. rewrite <- orb_assoc. f_equal. f_equal.
      unfold in_run. cbn [fst snd]. lia.
    + rewrite I2, run_sum_add_run. unfold lenL. cbn [length]. lia.
    + lia.
    + exact I4.
    + rewrite I5. reflexivity.
Qed.

Lemma fold_left_app_step ops1 ops2 st :
  fold_left rl_spec_step (ops1 ++ ops2) st = fold_left rl_spec_step ops2 (fold_left rl_spec_step ops1 st).
Proof. apply fold_left_app. Qed.

Lemma rl_accepted_app ops1 : forall ops2 st,
  rl_accepted st (ops1 ++ ops2) = rl_accepted st ops1 ++ rl_accepted (fold_left rl_spec_step ops1 st) ops2.
Proof.
  induction ops1 as [|o t IH]; intros ops2 st; [reflexivity|].
  cbn [app rl_accepted fold_left]. destruct o as [s l|k].
  - destruct (rl_spec_accepts st (TrySet s l) && negb (l =? 0)); rewrite IH; reflexivity.
  - rewrite IH. reflexivity.
Qed.

(* the specification state after presenting B bit by bit and setting the length *)
Lemma spec_ops_bits B : lenB B <= MAXW ->
  let st := fold_left rl_spec_step (ops_bits B) rl_spec_init in
  (forall p, in_runs (fst st) p = bitB B p) /\ run_sum (fst st) = count B /\ snd st = lenB B /\
  (forall p, in_runs (rl_accepted rl_spec_init (ops_bits B)) p = bitB B p).
Proof.
  intros Hlen. cbv zeta. unfold ops_bits. rewrite fold_left_app_step.
  pose proof (ones_from_incr B 0) as Hi. rewrite N.add_0_l in Hi. fold (ones B) in Hi.
  destruct (spec_bits_fold (ones B) rl_spec_init (lenB B) Hi Hlen) as (H1 & H2 & H3 & H4 & H5).
  fold set1. set (st1 := fold_left rl_spec_step (map set1 (ones B)) rl_spec_init) in *.
  cbn [fold_left rl_spec_step]. cbn [rl_spec_init fst snd in_runs existsb run_sum] in H1, H2.
  split; [|split; [|split]].
  - intros p. destruct (snd st1 <? lenB B); cbn [fst]; rewrite H1; cbn [orb]; apply existsb_ones.
  - destruct (snd st1 <? lenB B); cbn [fst]; rewrite H2. unfold ones. rewrite ones_from_len. lia.
    unfold ones. rewrite ones_from_len. lia.
  - destruct (N.ltb_spec (snd st1) (lenB B)); cbn [snd]; lia.
  - intros p. rewrite rl_accepted_app, H5. cbn [rl_accepted]. rewrite app_nil_r, in_runs_units. apply existsb_ones.
Qed.

(* ---- the unchecked calls of copy_bit_vec are the accepted checked calls ---- *)

Lemma rl_set_run_next m b p l : RLInv b -> blen b <= p -> p + l <= MAXW ->
  rl_set_run m b p l = Ok (rl_next b (TrySet p l)).
Proof.
  intros H Hp Hl.
  assert (Hw : rlop_wf (TrySet p l)) by (cbn [rlop_wf]; lia).
  pose proof (rl_step_eq m b (TrySet p l) H Hw) as E.
  unfold rl_step, rl_step_with, rl_try_set in E. replace (p <? blen b) with false in E by lia.
  rewrite MAXU_val, (usub_ok m MAXW l) in E by lia. cbn [bind] in E.
  replace (MAXW - l <? p) with false in E by lia.
  destruct (rl_set_run m b p l) as [b'| |]; cbn [bind] in E; congruence.
Qed.

Lemma rl_run_cons m b o t : rl_run m b (o :: t) = let* (b', _) := rl_step m b o in rl_run m b' t.
Proof. reflexivity. Qed.

Lemma rl_run_app m ops1 : forall b ops2,
  rl_run m b (ops1 ++ ops2) = let* b' := rl_run m b ops1 in rl_run m b' ops2.
Proof.
  induction ops1 as [|o t IH]; intros b ops2; [reflexivity|].
  cbn [app]. rewrite !rl_run_cons. destruct (rl_step m b o) as [[b' out]| |]; cbn [bind]; [apply IH|reflexivity|reflexivity].
Qed.

Lemma blen_next_set1 b p : RLInv b -> blen b <= p -> p + 1 <= MAXW -> blen (rl_next b (TrySet p 1)) = p + 1.
Proof.
  intros H Hp Hl. unfold rl_next. unfold rl_spec_accepts, rl_abs. cbn [snd].
  replace ((blen b <=? p) && (p + 1 <=? MAXW)) with true by lia. replace (1 =? 0) with false by lia. cbn [negb andb].
  destruct (N.eqb_spec p (blen b)) as [E|E]; cbn [blen]; lia.
Qed.

Lemma rl_set_bits_run m ps : forall b, RLInv b -> incr_below (blen b) MAXW ps ->
  rl_set_bits m b ps = rl_run m b (map set1 ps).
Proof.
  induction ps as [|p t IH]; intros b H Hi; [reflexivity|].
  cbn [incr_below] in Hi. destruct Hi as [Hp Hi]. pose proof (incr_below_le _ _ _ Hi) as Hl.
  cbn [rl_set_bits map]. rewrite rl_run_cons. unfold set1 at 1.
  assert (Hw : rlop_wf (TrySet p 1)) by (cbn [rlop_wf]; unfold MAXW in *; lia).
  rewrite (rl_set_run_next m b p 1 H Hp Hl), (rl_step_eq m b _ H Hw). cbn [bind].
  apply IH; [exact (rl_next_inv b _ H Hw)|]. rewrite (blen_next_set1 b p H Hp Hl). exact Hi.
Qed.

(* RLVector::copy_bit_vec replays exactly the history [ops_bits] *)
Lemma rl_copy_abs_run m B : lenB B <= MAXW ->
  rl_copy_abs m (ones B) (lenB B) = let* b := rl_run m rl_init (ops_bits B) in rl_finish m b.
Proof.
  intros Hlen. unfold rl_copy_abs, ops_bits. rewrite rl_run_app.
  pose proof (ones_from_incr B 0) as Hi. rewrite N.add_0_l in Hi. fold (ones B) in Hi.
  rewrite (rl_set_bits_run m (ones B) rl_init rl_inv_init) by (apply (incr_below_hi _ (lenB B)); assumption).
  fold set1. destruct (rl_run m rl_init (map set1 (ones B))) as [b| |]; cbn [bind]; [|reflexivity|reflexivity].
  rewrite rl_run_cons. unfold rl_step, rl_step_with. destruct (rl_set_len m b (lenB B)) as [b'| |]; reflexivity.
Qed.

Lemma Forall_wf_set1 ps hi : hi <= MAXW -> forall cur, incr_below cur hi ps -> Forall rlop_wf (map set1 ps).
Proof.
  intros Hh. induction ps as [|p t IH]; intros cur Hi; [constructor|].
  cbn [incr_below] in Hi. destruct Hi as [Hp Hi]. pose proof (incr_below_le _ _ _ Hi) as Hl.
  cbn [map]. constructor; [cbn [set1 rlop_wf]; unfold MAXW in *; lia|exact (IH _ Hi)].
Qed.

Lemma ops_bits_wf B : lenB B <= MAXW -> Forall rlop_wf (ops_bits B).
Proof.
  intros Hlen. unfold ops_bits. apply Forall_app. split.
  - pose proof (ones_from_incr B 0) as Hi. rewrite N.add_0_l in Hi. exact (Forall_wf_set1 _ _ Hlen _ Hi).
  - constructor; [exact Hlen|constructor].
Qed.

(* C11, RL target: copy_bit_vec from (len, ones) of B yields a vector whose run list is separated, non-empty,
   within len and covers exactly the set bits of B, with length |B| and count_ones = count B *)
Theorem rl_copy_abs_repr : forall (m : mode) (B : list bool), lenB B <= MAXW ->
  exists rs, rl_copy_abs m (ones B) (lenB B) = Ok (rs, lenB B, count B) /\
    chain (fun r q => fst r + snd r < fst q) rs /\
    Forall (fun r => 0 < snd r /\ fst r + snd r <= lenB B) rs /\
    (forall p, in_runs rs p = bitB B p) /\ run_sum rs = count B.
Proof.
  intros m B Hlen. rewrite (rl_copy_abs_run m B Hlen).
  destruct (rl_builder_history_full m (ops_bits B) (ops_bits_wf B Hlen))
    as (b & tr & Hr & _ & _ & Hf & _ & _ & Hc & Hw & _ & _ & _).
  destruct (spec_ops_bits B Hlen) as (S1 & S2 & S3 & _).
  set (st := fold_left rl_spec_step (ops_bits B) rl_spec_init) in *.
  exists (fst st). rewrite Hr. cbn [bind]. rewrite Hf, S2, S3. split; [reflexivity|].
  split; [exact Hc|]. split; [rewrite <- S3; exact Hw|]. split; [exact S1|exact S2].
Qed.

(* every presentation of a bit set as builder calls reaches the same final state:
   two histories (accepted and refused calls, zero-length runs, set_len anywhere) whose accepted runs cover
   the same positions and that end at the same length convert to the same (runs, len, ones) *)
Theorem rl_builder_decomposition : forall (m : mode) (ops1 ops2 : list rlop),
  Forall rlop_wf ops1 -> Forall rlop_wf ops2 ->
  (forall p, in_runs (rl_accepted rl_spec_init ops1) p = in_runs (rl_accepted rl_spec_init ops2) p) ->
  snd (fold_left rl_spec_step ops1 rl_spec_init) = snd (fold_left rl_spec_step ops2 rl_spec_init) ->
  exists b1 b2 r,
    rl_run m rl_init ops1 = Ok b1 /\ rl_run m rl_init ops2 = Ok b2 /\
    rl_finish m b1 = Ok r /\ rl_finish m b2 = Ok r /\
    blen b1 = blen b2 /\ bones b1 = bones b2.
Proof.
  intros m ops1 ops2 Hw1 Hw2 Hbits Hlen.
  destruct (rl_builder_history_full m ops1 Hw1) as (b1 & _ & Hr1 & _ & _ & Hf1 & Hn1 & Ho1 & Hc1 & Hp1 & _ & _ & Hb1).
  destruct (rl_builder_history_full m ops2 Hw2) as (b2 & _ & Hr2 & _ & _ & Hf2 & Hn2 & Ho2 & Hc2 & Hp2 & _ & _ & Hb2).
  set (st1 := fold_left rl_spec_step ops1 rl_spec_init) in *.
  set (st2 := fold_left rl_spec_step ops2 rl_spec_init) in *.
  assert (E : fst st1 = fst st2).
  { apply runs_canonical; [exact Hc1| |exact Hc2| |].
    - eapply Forall_impl; [|exact Hp1]. cbn beta. intros r Hr. tauto.
    - eapply Forall_impl; [|exact Hp2]. cbn beta. intros r Hr. tauto.
    - intros p. rewrite Hb1, Hb2. apply Hbits. }
  exists b1, b2, (fst st1, snd st1, run_sum (fst st1)).
  split; [exact Hr1|]. split; [exact Hr2|]. split; [exact Hf1|]. split; [rewrite Hf2, E, Hlen; reflexivity|].
  split; [congruence|]. rewrite Ho1, Ho2, E. reflexivity.
Qed.
