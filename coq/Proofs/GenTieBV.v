(* Tie lemmas, src/bit_vector/rank_support.rs and select_support.rs: the block-count helpers translated from the
   CURRENT source (gen/Funs2.v), as functions of the lengths of the fields they read, are the functions of
   Model/BitVec.v. The model computes the two rounded-up divisions in exact N; the hypotheses are exactly the
   bounds under which the machine addition does not overflow. *)
From Coq Require Import NArith List Lia ZArith Bool.
Require Import ZifyBool ZifyN ZifyNat.
Ltac Zify.zify_post_hook ::= Z.div_mod_to_equations.
Arguments N.add : simpl never.
Arguments N.sub : simpl never.
Arguments N.mul : simpl never.
Arguments N.div : simpl never.
Arguments N.modulo : simpl never.
Arguments N.pow : simpl never.
Arguments N.eqb : simpl never.
Arguments N.ltb : simpl never.
Arguments N.leb : simpl never.
Arguments N.shiftl : simpl never.
Arguments N.shiftr : simpl never.
Arguments N.land : simpl never.
Arguments N.lor : simpl never.
Open Scope N_scope.

Require Import SDS.Model.Mach SDS.Model.Bits SDS.Model.IntVec SDS.Model.BitVec.
Require Import SDS.gen.Consts SDS.gen.Funs SDS.gen.Funs2.

(* RankSupport::blocks = samples.len() *)
Theorem tie_rs_blocks : forall m rs, f2_rs_blocks m (lenN (rs_samples rs)) = Ok (rs_blocks rs).
Proof. reflexivity. Qed.

(* SelectSupport::superblocks = samples.len() / 2 *)
Theorem tie_ss_superblocks : forall m s, f2_ss_superblocks m (ilen (ss_samples s)) = Ok (ss_superblocks s).
Proof. reflexivity. Qed.

(* SelectSupport::long_superblocks = (long.len() + SUPERBLOCK_SIZE - 1) / SUPERBLOCK_SIZE *)
Theorem tie_ss_long_superblocks : forall m s, ilen (ss_long s) + select_SUPERBLOCK_SIZE < 2 ^ 64 ->
  f2_ss_long_superblocks m (ilen (ss_long s)) = Ok (ss_long_superblocks s).
Proof.
  intros m s. unfold f2_ss_long_superblocks, ss_long_superblocks, uadd, usub, udiv.
  change select_SUPERBLOCK_SIZE with 4096. intros H.
  replace (ilen (ss_long s) + 4096 <? 2 ^ 64) with true by lia. cbn [bind].
  replace (1 <=? ilen (ss_long s) + 4096) with true by lia. cbn [bind]. reflexivity.
Qed.

(* SelectSupport::short_superblocks = (short.len() + BLOCKS_IN_SUPERBLOCK - 1) / BLOCKS_IN_SUPERBLOCK *)
Theorem tie_ss_short_superblocks : forall m s, ilen (ss_short s) + select_BLOCKS_IN_SUPERBLOCK < 2 ^ 64 ->
  f2_ss_short_superblocks m (ilen (ss_short s)) = Ok (ss_short_superblocks s).
Proof.
  intros m s. unfold f2_ss_short_superblocks, ss_short_superblocks, uadd, usub, udiv.
  change select_BLOCKS_IN_SUPERBLOCK with 64. intros H.
  replace (ilen (ss_short s) + 64 <? 2 ^ 64) with true by lia. cbn [bind].
  replace (1 <=? ilen (ss_short s) + 64) with true by lia. cbn [bind]. reflexivity.
Qed.
