(* Rank half of C01: the rank9-style support of Model/BitVec.v (rank_words / rank_blocks / rank_new /
   rank_unchecked) and the wrappers bv_rank_q, bv_rank_zero, bv_get, counts answer exactly what the naive
   specification Spec/BitSeq.v says, for every represented bit sequence and every argument. *)
From Coq Require Import NArith List Lia ZArith Bool.
Require Import SDS.Model.Mach SDS.Model.Bits SDS.Model.Raw SDS.Model.IntVec SDS.Model.BitVec SDS.gen.Consts.
Require Import SDS.Spec.BitSeq SDS.Proofs.BitsProof SDS.Proofs.BVCommon.
Import ListNotations.
Open Scope N_scope.
Require Import ZifyBool ZifyN ZifyNat.
Ltac Zify.zify_post_hook ::= Z.div_mod_to_equations.
Arguments N.add : simpl never. Arguments N.sub : simpl never. Arguments N.mul : simpl never.
Arguments N.eqb : simpl never. Arguments N.ltb : simpl never. Arguments N.leb : simpl never.
Arguments N.pow : simpl never. Arguments N.shiftl : simpl never. Arguments N.shiftr : simpl never.
Arguments N.land : simpl never. Arguments N.lor : simpl never. Arguments N.div : simpl never.
Arguments N.modulo : simpl never. Arguments N.ones : simpl never. Arguments N.testbit : simpl never.
Arguments N.min : simpl never.

(* ---- the constants this file relies on (any retuning of rank_support.rs shows up here first) ---- *)
Lemma consts_rank_ok :
  rank_BLOCK_SIZE = 512 /\ rank_RELATIVE_RANK_BITS = 9 /\ rank_RELATIVE_RANK_MASK = 511 /\
  rank_WORDS_PER_BLOCK = 8 /\ rank_WORD_MASK = 7.
Proof. repeat split; reflexivity. Qed.

(* ================================================================ 1. the specification side *)

Lemma rank1_firstn B i : rank1 B i = count (firstn (N.to_nat i) B).
Proof.
  revert i. induction B as [|b t IH]; intros i; cbn [rank1].
  - destruct (N.to_nat i); reflexivity.
  - destruct (N.eqb_spec i 0) as [->|Hn]; [reflexivity|].
    replace (N.to_nat i) with (S (N.to_nat (i - 1))) by lia. cbn [firstn count]. rewrite IH. reflexivity.
Qed.

Lemma rank1_le_index B i : rank1 B i <= i.
Proof.
  revert i. induction B as [|b t IH]; intros i; cbn [rank1]; [lia|].
  destruct (N.eqb_spec i 0) as [->|Hn]; [lia|]. specialize (IH (i - 1)). destruct b; cbn [b2n]; lia.
Qed.

(* zeros before i = i - ones before i *)
Lemma rank1_negb B i : i <= lenB B -> rank1 (map negb B) i = i - rank1 B i.
Proof.
  unfold lenB. revert i. induction B as [|b t IH]; intros i Hi; cbn [rank1 map length] in *; [lia|].
  destruct (N.eqb_spec i 0) as [->|Hn]; [reflexivity|].
  rewrite IH by lia. pose proof (rank1_le_index t (i - 1)). destruct b; cbn [negb b2n]; lia.
Qed.

Lemma rank1_firstn_below B n i : i <= N.of_nat n -> rank1 (firstn n B) i = rank1 B i.
Proof. intros H. rewrite !rank1_firstn, firstn_firstn. f_equal. f_equal. lia. Qed.

Lemma getb_nth_error B i : getb B i = nth_error B (N.to_nat i).
Proof.
  revert i. induction B as [|b t IH]; intros i; cbn [getb].
  - destruct (N.to_nat i); reflexivity.
  - destruct (N.eqb_spec i 0) as [->|Hn]; [reflexivity|].
    rewrite IH. replace (N.to_nat i) with (S (N.to_nat (i - 1))) by lia. reflexivity.
Qed.

Lemma getb_firstn B : forall n i, i < N.of_nat n -> getb (firstn n B) i = getb B i.
Proof.
  induction B as [|b t IH]; intros n i H; destruct n as [|n]; cbn [firstn getb]; try reflexivity; [lia|].
  destruct (N.eqb_spec i 0); [reflexivity|]. apply IH. lia.
Qed.

Lemma bits_of_words_length ws : length (bits_of_words ws) = (64 * length ws)%nat.
Proof.
  induction ws as [|w t IH]; cbn [bits_of_words flat_map length]; [reflexivity|].
  rewrite app_length, wbits_length. unfold bits_of_words in IH. rewrite IH. lia.
Qed.

Lemma lenB_bits_of len ws : len <= 64 * lenN ws -> lenB (bits_of len ws) = len.
Proof.
  intros H. unfold lenB, bits_of. rewrite firstn_length, bits_of_words_length. unfold lenN in H. lia.
Qed.

(* prefix of the bit sequence = whole words, then a prefix of one word *)
Lemma firstn_bits_of_words ws : forall (k o : nat),
  (k < length ws)%nat -> (o <= 64)%nat ->
  firstn (64 * k + o) (bits_of_words ws) =
  bits_of_words (firstn k ws) ++ firstn o (wbits (nth k ws 0)).
Proof.
  induction ws as [|w t IH]; intros k o Hk Ho; cbn [length] in Hk; [lia|].
  destruct k as [|k].
  - cbn [firstn bits_of_words flat_map app nth]. replace (64 * 0 + o)%nat with o by lia.
    unfold bits_of_words. cbn [flat_map]. rewrite firstn_app, wbits_length.
    replace (o - 64)%nat with 0%nat by lia. cbn [firstn]. rewrite app_nil_r. reflexivity.
  - cbn [firstn nth]. unfold bits_of_words. cbn [flat_map]. fold (bits_of_words t). fold (bits_of_words (firstn k t)).
    replace (64 * S k + o)%nat with (64 + (64 * k + o))%nat by lia.
    rewrite <- (wbits_length w) at 1. rewrite firstn_app_2. rewrite IH by lia.
    rewrite app_assoc. reflexivity.
Qed.

Lemma sum_pop_nil : sum_pop [] = 0. Proof. reflexivity. Qed.
Lemma sum_pop_cons w t : sum_pop (w :: t) = popcount w + sum_pop t. Proof. reflexivity. Qed.
Lemma sum_pop_app l1 l2 : sum_pop (l1 ++ l2) = sum_pop l1 + sum_pop l2.
Proof. induction l1 as [|w t IH]; cbn [app]; rewrite ?sum_pop_cons, ?sum_pop_nil; [lia|rewrite IH; lia]. Qed.

Lemma wf_cons w t : wf (w :: t) <-> w < 2 ^ 64 /\ wf t.
Proof. unfold wf. split; [intros H; inversion H; auto|intros [H1 H2]; constructor; auto]. Qed.
Lemma wf_app l1 l2 : wf (l1 ++ l2) <-> wf l1 /\ wf l2.
Proof. unfold wf. apply Forall_app. Qed.
Lemma wf_firstn n l : wf l -> wf (firstn n l).
Proof. intros H. rewrite <- (firstn_skipn n l) in H. apply wf_app in H. tauto. Qed.
Lemma wf_skipn n l : wf l -> wf (skipn n l).
Proof. intros H. rewrite <- (firstn_skipn n l) in H. apply wf_app in H. tauto. Qed.

Lemma count_bits_of_words ws : wf ws -> count (bits_of_words ws) = sum_pop ws.
Proof.
  induction ws as [|w t IH]; intros Hwf; cbn [bits_of_words flat_map count]; [reflexivity|].
  apply wf_cons in Hwf. destruct Hwf as [Hw Ht].
  rewrite count_app. fold (bits_of_words t). rewrite IH by assumption.
  rewrite sum_pop_cons, popcount_wbits by assumption. reflexivity.
Qed.

Lemma sum_pop_bound ws : wf ws -> sum_pop ws <= 64 * N.of_nat (length ws).
Proof.
  induction ws as [|w t IH]; intros Hwf; [cbn [length]; rewrite sum_pop_nil; lia|].
  apply wf_cons in Hwf. destruct Hwf as [Hw Ht]. specialize (IH Ht).
  rewrite sum_pop_cons. cbn [length]. pose proof (popcount_le_64 w Hw). lia.
Qed.

(* masking a word with the o low bits = taking the first o bits *)
Lemma count_masked_high w o n s : (o <= s)%nat ->
  count (map (fun j => N.testbit (N.land w (N.ones (N.of_nat o))) (N.of_nat j)) (seq s n)) = 0.
Proof.
  revert s. induction n as [|n IHn]; intros s Hs; cbn [seq map count]; [reflexivity|].
  rewrite N.land_spec, N.ones_spec_high by lia. rewrite andb_false_r. cbn [b2n].
  rewrite IHn by lia. reflexivity.
Qed.

Lemma firstn_seq n : forall s len, firstn n (seq s len) = seq s (Nat.min n len).
Proof.
  induction n as [|n IH]; intros s len; [reflexivity|].
  destruct len as [|len]; [reflexivity|]. cbn [seq firstn Nat.min]. rewrite IH. reflexivity.
Qed.

Lemma land_ones_lt w o : o <= 64 -> N.land w (N.ones o) < 2 ^ 64.
Proof.
  intros Ho. apply lt_pow2_of_bits. intros k Hk. rewrite N.land_spec, testbit_ones.
  replace (k <? o) with false by lia. apply andb_false_r.
Qed.

Lemma count_firstn_wbits w (o : nat) : (o <= 64)%nat ->
  count (firstn o (wbits w)) = popcount (N.land w (N.ones (N.of_nat o))).
Proof.
  intros Ho. rewrite popcount_wbits by (apply land_ones_lt; lia). unfold wbits.
  rewrite firstn_map, firstn_seq. rewrite Nat.min_l by lia.
  replace (seq 0 64) with (seq 0 (o + (64 - o))) by (f_equal; lia).
  rewrite seq_app, map_app, count_app.
  rewrite (count_masked_high w o (64 - o) (0 + o)) by lia.
  rewrite N.add_0_r. f_equal. apply map_ext_in. intros j Hj. apply in_seq in Hj.
  rewrite N.land_spec, N.ones_spec_low by lia. symmetry. apply andb_true_r.
Qed.

Lemma getw_nth a i : getw a i = nth (N.to_nat i) a 0.
Proof.
  unfold getw. rewrite nthN_nth_error. destruct (nth_error a (N.to_nat i)) as [x|] eqn:E.
  - symmetry. apply nth_error_nth. exact E.
  - apply nth_error_None in E. symmetry. apply nth_overflow. exact E.
Qed.

(* the word-level decomposition every rank structure relies on *)
Theorem rank1_words ws (k o : N) :
  wf ws -> k < lenN ws -> o < 64 ->
  rank1 (bits_of_words ws) (64 * k + o) =
  sum_pop (firstn (N.to_nat k) ws) + popcount (N.land (getw ws k) (N.ones o)).
Proof.
  intros Hwf Hk Ho. unfold lenN in Hk. rewrite rank1_firstn.
  replace (N.to_nat (64 * k + o)) with (64 * N.to_nat k + N.to_nat o)%nat by lia.
  rewrite firstn_bits_of_words by lia.
  rewrite count_app, count_bits_of_words by (apply wf_firstn; assumption).
  rewrite count_firstn_wbits by lia.
  rewrite N2Nat.id, getw_nth. reflexivity.
Qed.

(* the same for the sequence stored in (len, words), below len *)
Lemma rank1_bits_of len ws i :
  wf ws -> lenN ws = (len + 63) / 64 -> i < len ->
  rank1 (bits_of len ws) i =
  sum_pop (firstn (N.to_nat (i / 64)) ws) + popcount (N.land (getw ws (i / 64)) (N.ones (i mod 64))).
Proof.
  intros Hwf Hlen Hi. unfold bits_of. rewrite rank1_firstn_below by lia.
  replace i with (64 * (i / 64) + i mod 64) at 1 by lia.
  apply rank1_words; [assumption|lia|lia].
Qed.

Lemma nth_error_bits_of_words ws : forall (k o : nat), (k < length ws)%nat -> (o < 64)%nat ->
  nth_error (bits_of_words ws) (64 * k + o) = Some (N.testbit (nth k ws 0) (N.of_nat o)).
Proof.
  induction ws as [|w t IH]; intros k o Hk Ho; cbn [length] in Hk; [lia|].
  unfold bits_of_words. cbn [flat_map]. fold (bits_of_words t). destruct k as [|k].
  - rewrite nth_error_app1 by (rewrite wbits_length; lia). replace (64 * 0 + o)%nat with o by lia.
    cbn [nth]. unfold wbits. apply (map_nth_error (fun j => N.testbit w (N.of_nat j)) o (seq 0 64)).
    rewrite (nth_error_nth' (seq 0 64) 0%nat) by (rewrite seq_length; lia).
    rewrite seq_nth by lia. reflexivity.
  - rewrite nth_error_app2 by (rewrite wbits_length; lia). rewrite wbits_length.
    replace (64 * S k + o - 64)%nat with (64 * k + o)%nat by lia. cbn [nth]. apply IH; lia.
Qed.

Lemma getb_bits_of_words ws p : p / 64 < lenN ws -> getb (bits_of_words ws) p = Some (bit ws p).
Proof.
  intros H. unfold lenN in H. rewrite getb_nth_error.
  replace (N.to_nat p) with (64 * N.to_nat (p / 64) + N.to_nat (p mod 64))%nat by lia.
  rewrite nth_error_bits_of_words by lia. unfold bit. rewrite getw_nth, N2Nat.id. reflexivity.
Qed.

Lemma getb_bits_of len ws p :
  lenN ws = (len + 63) / 64 -> p < len -> getb (bits_of len ws) p = Some (bit ws p).
Proof.
  intros Hlen Hp. unfold bits_of. rewrite getb_firstn by lia. apply getb_bits_of_words. lia.
Qed.

(* ================================================================ 2. one block: packing and unpacking *)

(* rank_support.rs, the inner loop over the words of one block:
     block_ones += word.count_ones(); relative_ranks |= (block_ones << (word * 9)) as u64;
   followed by  relative_ranks &= low_set(7 * 9). *)
Fixpoint rel_loop (bws : list N) (j bo rel : N) : N * N :=
  match bws with
  | [] => (bo, rel)
  | w :: t => let bo' := bo + popcount w in
              rel_loop t (j + 1) bo' (N.lor rel (wrap (N.shiftl bo' (j * 9))))
  end.
Definition block_rel (bws : list N) : N := N.land (snd (rel_loop bws 0 0 0)) (N.ones 63).

Lemma rel_loop_fst bws : forall j bo rel, fst (rel_loop bws j bo rel) = bo + sum_pop bws.
Proof.
  induction bws as [|w t IH]; intros j bo rel; cbn [rel_loop fst].
  - rewrite sum_pop_nil. lia.
  - rewrite IH, sum_pop_cons. lia.
Qed.

(* running prefix sums of the popcounts, starting from [bo] *)
Fixpoint prefixes (bo : N) (bws : list N) : list N :=
  match bws with [] => [] | w :: t => (bo + popcount w) :: prefixes (bo + popcount w) t end.

(* which bits the loop sets *)
Fixpoint rel_bit (ps : list N) (j k : N) : bool :=
  match ps with
  | [] => false
  | p :: t => ((k <? 64) && (j * 9 <=? k) && N.testbit p (k - j * 9)) || rel_bit t (j + 1) k
  end.

Lemma rel_loop_bits bws : forall j bo rel k,
  N.testbit (snd (rel_loop bws j bo rel)) k = N.testbit rel k || rel_bit (prefixes bo bws) j k.
Proof.
  induction bws as [|w t IH]; intros j bo rel k; cbn [rel_loop prefixes rel_bit snd].
  - rewrite orb_false_r. reflexivity.
  - rewrite IH, N.lor_spec, testbit_wrap. rewrite <- orb_assoc. f_equal. f_equal.
    destruct (N.leb_spec (j * 9) k) as [Hle|Hlt].
    + rewrite N.shiftl_spec_high' by lia. rewrite andb_true_r. reflexivity.
    + rewrite N.shiftl_spec_low by lia. rewrite !andb_false_r. reflexivity.
Qed.

Lemma testbit_above w m k : w < 2 ^ m -> m <= k -> N.testbit w k = false.
Proof.
  intros Hw Hk. destruct (N.eq_dec w 0) as [->|Hz]; [apply N.bits_0|].
  apply N.bits_above_log2. apply N.log2_lt_pow2 in Hw; lia.
Qed.

Lemma small_bits_high p b : p < 512 -> 9 <= b -> N.testbit p b = false.
Proof. intros Hp Hb. apply (testbit_above p 9); [exact Hp|exact Hb]. Qed.

(* below bit 63 the loop's bits are exactly "field k/9, bit k mod 9", provided the
   fields that land below bit 63 (indices <= 6) are < 512 *)
Lemma rel_bit_fields ps : forall j k,
  k < 63 -> (forall i p, nth_error ps i = Some p -> j + N.of_nat i <= 6 -> p < 512) ->
  rel_bit ps j k =
  (j * 9 <=? k) && N.testbit (nth (N.to_nat ((k - j * 9) / 9)) ps 0) ((k - j * 9) mod 9).
Proof.
  induction ps as [|p t IH]; intros j k Hk Hf; cbn [rel_bit].
  - destruct (N.to_nat ((k - j * 9) / 9)); cbn [nth]; rewrite N.bits_0, andb_false_r; reflexivity.
  - assert (Hf' : forall i q, nth_error t i = Some q -> (j + 1) + N.of_nat i <= 6 -> q < 512).
    { intros i q Hq Hi. apply (Hf (S i) q); [exact Hq|lia]. }
    rewrite (IH (j + 1) k Hk Hf').
    replace (k <? 64) with true by lia. cbn [andb].
    destruct (N.leb_spec (j * 9) k) as [Hle|Hlt]; cbn [andb].
    + destruct (N.ltb_spec (k - j * 9) 9) as [Hlow|Hhigh].
      * (* the bit belongs to this field *)
        replace ((j + 1) * 9 <=? k) with false by lia. cbn [andb]. rewrite orb_false_r.
        replace ((k - j * 9) / 9) with 0 by lia. cbn [N.to_nat nth].
        replace ((k - j * 9) mod 9) with (k - j * 9) by lia. reflexivity.
      * (* it belongs to a later field; this one is < 512 *)
        assert (Hp : p < 512) by (apply (Hf 0%nat p); [reflexivity|lia]).
        rewrite (small_bits_high p (k - j * 9) Hp) by lia.
        cbn [orb]. replace ((j + 1) * 9 <=? k) with true by lia. cbn [andb].
        replace (N.to_nat ((k - j * 9) / 9)) with (S (N.to_nat ((k - (j + 1) * 9) / 9))) by lia.
        cbn [nth]. f_equal. lia.
    + replace ((j + 1) * 9 <=? k) with false by lia. reflexivity.
Qed.

Lemma prefixes_length bws : forall bo, length (prefixes bo bws) = length bws.
Proof. induction bws as [|w t IH]; intros bo; cbn [prefixes length]; [reflexivity|rewrite IH; reflexivity]. Qed.

Lemma prefixes_nth bws : forall bo i p, nth_error (prefixes bo bws) i = Some p ->
  p = bo + sum_pop (firstn (S i) bws) /\ (i < length bws)%nat.
Proof.
  induction bws as [|w t IH]; intros bo i p H; cbn [prefixes] in H.
  - destruct i; discriminate.
  - destruct i as [|i]; cbn [nth_error] in H.
    + inversion H; subst. cbn [firstn length]. rewrite sum_pop_cons, sum_pop_nil. split; lia.
    + apply IH in H. destruct H as [-> Hl]. cbn [firstn length]. rewrite (sum_pop_cons w). split; lia.
Qed.

(* unpacking: field r (r <= 6) of the masked word is the number of ones in words 0..r
   of the block; field 7 (what a query in word 0 reads) is 0 *)
Theorem block_rel_unpack bws r :
  wf bws -> (length bws <= 8)%nat -> r <= 7 ->
  N.land (N.shiftr (block_rel bws) (r * 9)) 511 =
  if r <? 7 then (if r <? N.of_nat (length bws) then sum_pop (firstn (S (N.to_nat r)) bws) else 0) else 0.
Proof.
  intros Hwf Hlen Hr.
  assert (Hsb : forall n, sum_pop (firstn n bws) <= 64 * N.of_nat (Nat.min n (length bws))).
  { intros n. pose proof (sum_pop_bound (firstn n bws) (wf_firstn n bws Hwf)) as Hb.
    rewrite firstn_length in Hb. exact Hb. }
  assert (Hfields : forall i p, nth_error (prefixes 0 bws) i = Some p -> 0 + N.of_nat i <= 6 -> p < 512).
  { intros i p Hp Hi. apply prefixes_nth in Hp. destruct Hp as [-> Hl]. specialize (Hsb (S i)). lia. }
  apply N.bits_inj. intros b.
  change 511 with (N.ones 9). rewrite N.land_spec, N.shiftr_spec', testbit_ones.
  unfold block_rel. rewrite N.land_spec, testbit_ones, rel_loop_bits, N.bits_0. cbn [orb].
  destruct (N.ltb_spec b 9) as [Hb|Hb]; [|rewrite andb_false_r].
  2:{ (* the right-hand side is < 512 as well *)
      symmetry. destruct (N.ltb_spec r 7); [|apply N.bits_0].
      destruct (N.ltb_spec r (N.of_nat (length bws))); [|apply N.bits_0].
      apply small_bits_high; [|exact Hb]. specialize (Hsb (S (N.to_nat r))). lia. }
  rewrite andb_true_r.
  destruct (N.ltb_spec r 7) as [Hr7|Hr7].
  - (* a real field *)
    replace (b + r * 9 <? 63) with true by lia. rewrite andb_true_r.
    rewrite (rel_bit_fields _ 0 (b + r * 9)) by (try lia; exact Hfields).
    replace (0 * 9 <=? b + r * 9) with true by lia. cbn [andb].
    replace ((b + r * 9 - 0 * 9) / 9) with r by lia.
    replace ((b + r * 9 - 0 * 9) mod 9) with b by lia.
    destruct (N.ltb_spec r (N.of_nat (length bws))) as [Hin|Hout].
    + destruct (nth_error (prefixes 0 bws) (N.to_nat r)) as [p|] eqn:E.
      * rewrite (nth_error_nth _ _ 0 E). apply prefixes_nth in E. destruct E as [-> _].
        rewrite N.add_0_l. reflexivity.
      * apply nth_error_None in E. rewrite prefixes_length in E. lia.
    + rewrite nth_overflow; [reflexivity|]. rewrite prefixes_length. lia.
  - (* r = 7: everything at or above bit 63 was masked away *)
    replace (b + r * 9 <? 63) with false by lia. rewrite andb_false_r. symmetry. apply N.bits_0.
Qed.

(* ================================================================ 3. the builder *)

Lemma skipn_cons_nth {A} (l : list A) : forall n, (n < length l)%nat ->
  exists w, nth_error l n = Some w /\ skipn n l = w :: skipn (S n) l.
Proof.
  induction l as [|x t IH]; intros n H; cbn [length] in H; [lia|].
  destruct n as [|n].
  - exists x. split; reflexivity.
  - destruct (IH n) as (w & E1 & E2); [lia|]. exists w. split; [exact E1|exact E2].
Qed.

(* the inner loop of the model is [rel_loop] over the words it reads; it never misses *)
Lemma rank_words_spec data base : forall n j bo rel,
  base + j + N.of_nat n <= lenN data ->
  rank_words data base n j bo rel = Ok (rel_loop (firstn n (skipn (N.to_nat (base + j)) data)) j bo rel).
Proof.
  induction n as [|n IH]; intros j bo rel H; cbn [rank_words firstn rel_loop]; [reflexivity|].
  destruct (skipn_cons_nth data (N.to_nat (base + j))) as (w & E1 & E2); [unfold lenN in H; lia|].
  unfold idx. rewrite nthN_nth_error, E1. cbn [bind]. rewrite E2. cbn [firstn rel_loop].
  change rank_RELATIVE_RANK_BITS with 9.
  rewrite IH by lia. replace (N.to_nat (base + (j + 1))) with (S (N.to_nat (base + j))) by lia. reflexivity.
Qed.

(* the words of block [block] *)
Definition blk (data : list N) (block : N) : list N :=
  firstn (N.to_nat (N.min 8 (lenN data - block * 8))) (skipn (N.to_nat (block * 8)) data).

Lemma blk_length data block : N.of_nat (length (blk data block)) = N.min 8 (lenN data - block * 8).
Proof. unfold blk, lenN. rewrite firstn_length, skipn_length. lia. Qed.

Lemma wf_blk data block : wf data -> wf (blk data block).
Proof. intros H. unfold blk. apply wf_firstn, wf_skipn, H. Qed.

Lemma sum_pop_firstn_add (l : list N) : forall s j,
  sum_pop (firstn (s + j) l) = sum_pop (firstn s l) + sum_pop (firstn j (skipn s l)).
Proof.
  induction l as [|x t IH]; intros s j.
  - rewrite skipn_nil, !firstn_nil, sum_pop_nil. reflexivity.
  - destruct s as [|s]; [cbn [Nat.add firstn skipn]; rewrite sum_pop_nil; lia|].
    cbn [Nat.add firstn skipn]. rewrite !sum_pop_cons, IH. lia.
Qed.

(* ones before block n + ones of block n = ones before block n+1 *)
Lemma sum_pop_blk data block :
  block * 8 <= lenN data ->
  sum_pop (firstn (N.to_nat (8 * block)) data) + sum_pop (blk data block) =
  sum_pop (firstn (N.to_nat (8 * (block + 1))) data).
Proof.
  intros H. unfold blk. replace (N.to_nat (block * 8)) with (N.to_nat (8 * block)) by lia.
  rewrite <- sum_pop_firstn_add. unfold lenN in *.
  destruct (N.le_gt_cases 8 (N.of_nat (length data) - block * 8)) as [Hfull|Hpart].
  - f_equal. f_equal. lia.
  - rewrite !firstn_all2 by lia. reflexivity.
Qed.

(* prefix of a block added to the ones before the block *)
Lemma sum_pop_blk_prefix data block j :
  j <= N.min 8 (lenN data - block * 8) ->
  sum_pop (firstn (N.to_nat (8 * block)) data) + sum_pop (firstn (N.to_nat j) (blk data block)) =
  sum_pop (firstn (N.to_nat (8 * block + j)) data).
Proof.
  intros H. unfold blk. rewrite firstn_firstn. rewrite Nat.min_l by lia.
  replace (N.to_nat (block * 8)) with (N.to_nat (8 * block)) by lia.
  rewrite <- sum_pop_firstn_add. f_equal. f_equal. lia.
Qed.

(* sample t of the outer loop: (ones before block t, packed prefix counts of block t) *)
Definition sample_of (data : list N) (t : N) : N * N :=
  (sum_pop (firstn (N.to_nat (8 * t)) data), block_rel (blk data t)).

Lemma rank_blocks_spec data : forall n block ones,
  8 * (block + N.of_nat n) <= lenN data + 7 ->
  ones = sum_pop (firstn (N.to_nat (8 * block)) data) ->
  exists ls, rank_blocks data (lenN data) n block ones = Ok ls /\ length ls = n /\
    forall t, t < N.of_nat n -> nthN ls t = Some (sample_of data (block + t)).
Proof.
  induction n as [|n IH]; intros block ones Hb Hones; cbn [rank_blocks].
  - exists []. split; [reflexivity|]. split; [reflexivity|]. intros t Ht. lia.
  - change rank_WORDS_PER_BLOCK with 8. change rank_RELATIVE_RANK_BITS with 9.
    rewrite rank_words_spec by lia. cbn [bind]. rewrite N.add_0_r. fold (blk data block).
    pose proof (rel_loop_fst (blk data block) 0 0 0) as Hfst.
    destruct (rel_loop (blk data block) 0 0 0) as [bo rel] eqn:E. cbn [fst] in Hfst.
    change ((8 - 1) * 9) with 63. rewrite low_set_ok by lia. cbn [bind].
    destruct (IH (block + 1) (ones + bo)) as (rest & Hrest & Hlen & Hnth); [lia| |].
    { rewrite Hfst, Hones, N.add_0_l. apply sum_pop_blk. lia. }
    rewrite Hrest. cbn [bind]. eexists. split; [reflexivity|]. split; [cbn [length]; rewrite Hlen; reflexivity|].
    intros t Ht. cbn [nthN]. destruct (N.eqb_spec t 0) as [->|Hn0].
    + rewrite N.add_0_r. unfold sample_of, block_rel. rewrite E. cbn [snd]. rewrite Hones. reflexivity.
    + rewrite Hnth by lia. f_equal. f_equal. lia.
Qed.

(* ================================================================ 4. rank_new and rank_unchecked *)

Lemma rank_new_spec b B : bv_repr b B ->
  exists ls, rank_new b = Ok (mkrs ls) /\ lenN ls = (bv_len b + 511) / 512 /\
    forall t, t < (bv_len b + 511) / 512 -> nthN ls t = Some (sample_of (rdata (bv_data b)) t).
Proof.
  intros ((Hlen & Hwf & Hun & Hlt) & HB & Hones). unfold rank_new.
  change rank_BLOCK_SIZE with 512.
  replace (bits_to_words (bv_len b)) with (lenN (rdata (bv_data b)))
    by (unfold bits_to_words, bv_len; change bits_WORD_BITS with 64; lia).
  destruct (rank_blocks_spec (rdata (bv_data b)) (N.to_nat ((bv_len b + 512 - 1) / 512)) 0 0)
    as (ls & Hls & Hl & Hnth); [unfold bv_len; lia|reflexivity|].
  rewrite Hls. cbn [bind]. exists ls. split; [reflexivity|]. split; [unfold lenN; lia|].
  intros t Ht. rewrite Hnth by lia. rewrite N.add_0_l. reflexivity.
Qed.

Lemma land7 x : N.land x 7 = x mod 8.
Proof. change 7 with (N.ones 3). apply N.land_ones. Qed.

(* the query: block sample + unpacked in-block prefix + popcount of the masked word *)
Theorem rank_unchecked_correct b B rs i :
  bv_repr b B -> rank_new b = Ok rs -> i < bv_len b -> rank_unchecked rs b i = Ok (rank1 B i).
Proof.
  intros Hrepr Hnew Hi.
  destruct (rank_new_spec b B Hrepr) as (ls & Hls & Hlenls & Hnth).
  destruct Hrepr as ((Hlen & Hwf & Hun & Hlt) & HB & Hones).
  rewrite Hls in Hnew. inversion Hnew; subst rs. clear Hnew.
  unfold bv_len in *. set (data := rdata (bv_data b)) in *. set (len := rlen (bv_data b)) in *.
  unfold rank_unchecked. rewrite split_offset_spec.
  change rank_BLOCK_SIZE with 512. change rank_WORD_MASK with 7. change rank_WORDS_PER_BLOCK with 8.
  change rank_RELATIVE_RANK_BITS with 9. change rank_RELATIVE_RANK_MASK with 511.
  cbn [rs_samples]. unfold idx_unchecked. rewrite Hnth by lia. cbn [bind]. unfold sample_of.
  unfold raw_word_unchecked, idx_unchecked. fold data.
  destruct (nthN_lt_Some data (i / 64)) as [w Hw]; [lia|]. rewrite Hw. cbn [bind].
  rewrite low_set_unchecked_ok by lia. cbn [bind]. f_equal.
  rewrite HB. fold data len. rewrite rank1_bits_of by assumption.
  assert (Hgw : getw data (i / 64) = w) by (unfold getw; rewrite Hw; reflexivity). rewrite Hgw.
  f_equal. rewrite !land7.
  set (block := i / 512). set (j := (i / 64) mod 8).
  assert (Hword : i / 64 = 8 * block + j) by (subst block j; lia).
  assert (Hjb : j < N.min 8 (lenN data - block * 8)) by (subst block j; lia).
  pose proof (blk_length data block) as Hbl.
  rewrite block_rel_unpack; [|apply wf_blk; assumption|lia|lia].
  destruct (N.eq_dec j 0) as [Hj0|Hj0].
  - rewrite Hj0. replace ((0 + 8 - 1) mod 8 <? 7) with false by lia.
    rewrite Hword, Hj0, N.add_0_r, N.add_0_r. reflexivity.
  - replace ((j + 8 - 1) mod 8) with (j - 1) by lia.
    replace (j - 1 <? 7) with true by lia.
    replace (j - 1 <? N.of_nat (length (blk data block))) with true by lia.
    replace (S (N.to_nat (j - 1))) with (N.to_nat j) by lia.
    rewrite Hword. apply sum_pop_blk_prefix. lia.
Qed.

(* ================================================================ 5. the public interface *)

(* the stored support is the one the builder produces (a foreign, loaded support is C19's business) *)
Definition rank_ok (b : bitvec) (B : list bool) : Prop :=
  exists rs, bv_rank b = Some rs /\ rank_new b = Ok rs.

Lemma bv_len_lenB b B : bv_repr b B -> bv_len b = lenB B.
Proof.
  intros ((Hlen & Hwf & Hun & Hlt) & HB & Hones). rewrite HB. symmetry. apply lenB_bits_of. unfold bv_len. lia.
Qed.

(* building never fails and yields one sample per 512-bit block *)
Theorem rank_new_ok : forall b B, bv_repr b B ->
  exists rs, rank_new b = Ok rs /\ rs_blocks rs = (bv_len b + 511) / 512.
Proof.
  intros b B H. destruct (rank_new_spec b B H) as (ls & Hls & Hl & _).
  exists (mkrs ls). split; [exact Hls|exact Hl].
Qed.

(* unchecked accesses of a query with a valid index stay inside their buffers *)
Theorem rank_unchecked_no_oob : forall b B rs i,
  bv_repr b B -> rank_new b = Ok rs -> i < bv_len b -> exists v, rank_unchecked rs b i = Ok v.
Proof. intros b B rs i H1 H2 H3. eexists. apply (rank_unchecked_correct b B rs i H1 H2 H3). Qed.

(* the wrapper: every index, clamped beyond the end *)
Theorem bv_rank_q_correct : forall b B, bv_repr b B -> rank_ok b B ->
  forall i, bv_rank_q b i = Ok (rank1 B i).
Proof.
  intros b B Hrepr (rs & Hrs & Hnew) i. unfold bv_rank_q.
  destruct (N.leb_spec (bv_len b) i) as [Hge|Hlt].
  - unfold bv_count_ones. pose proof (bv_len_lenB b B Hrepr) as Hl.
    destruct Hrepr as (Hraw & HB & Hones). rewrite Hones. f_equal. symmetry.
    apply rank1_all. rewrite <- Hl. exact Hge.
  - rewrite Hrs. apply (rank_unchecked_correct b B rs i Hrepr Hnew Hlt).
Qed.

Lemma bv_repr_same_data b b' B :
  bv_data b' = bv_data b -> bv_ones b' = bv_ones b -> bv_repr b B -> bv_repr b' B.
Proof. unfold bv_repr, bv_len. intros -> ->. tauto. Qed.

Lemma rank_new_same_data b b' : bv_data b' = bv_data b -> rank_new b' = rank_new b.
Proof. unfold rank_new, bv_len. intros ->. reflexivity. Qed.

(* enable_rank always succeeds, changes nothing but the rank support, and establishes rank_ok *)
Theorem bv_enable_rank_ok : forall b B, bv_repr b B -> (bv_rank b <> None -> rank_ok b B) ->
  exists b', bv_enable_rank b = Ok b' /\ bv_repr b' B /\ rank_ok b' B /\
    bv_ones b' = bv_ones b /\ bv_data b' = bv_data b /\
    bv_select b' = bv_select b /\ bv_select_zero b' = bv_select_zero b.
Proof.
  intros b B Hrepr Hpre. unfold bv_enable_rank. destruct (bv_rank b) as [rs0|] eqn:E.
  - exists b. split; [reflexivity|]. split; [exact Hrepr|]. split; [apply Hpre; discriminate|].
    repeat split; reflexivity.
  - destruct (rank_new_ok b B Hrepr) as (rs & Hnew & _). rewrite Hnew. cbn [bind].
    eexists. split; [reflexivity|]. split; [|split].
    + apply (bv_repr_same_data b); [reflexivity|reflexivity|exact Hrepr].
    + exists rs. split; [reflexivity|]. rewrite <- Hnew. apply rank_new_same_data. reflexivity.
    + repeat split; reflexivity.
Qed.

Theorem bv_rank_correct : forall b B, bv_repr b B -> (bv_rank b <> None -> rank_ok b B) ->
  exists b', bv_enable_rank b = Ok b' /\ bv_repr b' B /\ rank_ok b' B /\
    bv_data b' = bv_data b /\ bv_select b' = bv_select b /\ bv_select_zero b' = bv_select_zero b /\
    forall i, bv_rank_q b' i = Ok (rank1 B i).
Proof.
  intros b B Hrepr Hpre.
  destruct (bv_enable_rank_ok b B Hrepr Hpre) as (b' & He & Hr' & Hok & _ & Hd & Hs & Hz).
  exists b'. repeat (split; [assumption|]). apply bv_rank_q_correct; assumption.
Qed.

(* rank_zero(i) = i - rank(i) with no overflow in either build mode; beyond the end the default method of the
   trait still returns i - count_ones, which is what [i - rank1 B i] is there *)
Theorem bv_rank_zero_value : forall m b B, bv_repr b B -> rank_ok b B ->
  forall i, bv_rank_zero m b i = Ok (i - rank1 B i).
Proof.
  intros m b B Hrepr Hok i. unfold bv_rank_zero. rewrite (bv_rank_q_correct b B Hrepr Hok). cbn [bind].
  unfold usub. pose proof (rank1_le_index B i). replace (rank1 B i <=? i) with true by lia. reflexivity.
Qed.

(* ... and for i <= len that is the number of unset bits among the first i *)
Theorem bv_rank_zero_correct : forall m b B, bv_repr b B -> rank_ok b B ->
  forall i, i <= bv_len b ->
    bv_rank_zero m b i = Ok (i - rank1 B i) /\ i - rank1 B i = rank1 (map negb B) i.
Proof.
  intros m b B Hrepr Hok i Hi. split; [apply bv_rank_zero_value; assumption|].
  symmetry. apply rank1_negb. rewrite <- (bv_len_lenB b B Hrepr). exact Hi.
Qed.

Lemma land1_testbit x : (N.land x 1 =? 1) = N.testbit x 0.
Proof.
  replace (N.land x 1) with (x mod 2) by (change 1 with (N.ones 1); symmetry; apply N.land_ones).
  rewrite <- N.bit0_mod. destruct (N.testbit x 0); reflexivity.
Qed.

(* access *)
Theorem bv_get_correct : forall b B i, bv_repr b B -> i < bv_len b ->
  exists x, bv_get b i = Ok x /\ getb B i = Some x.
Proof.
  intros b B i ((Hlen & Hwf & Hun & Hlt) & HB & Hones) Hi. unfold bv_len in Hi.
  unfold bv_get, raw_bit. rewrite split_offset_spec.
  rewrite idx_getw by lia. cbn [bind]. eexists. split; [reflexivity|].
  rewrite HB. unfold bv_len. rewrite getb_bits_of by assumption. f_equal. unfold bit.
  rewrite land1_testbit, N.shiftr_spec'. f_equal.
Qed.

(* len, count_ones, count_zeros *)
Theorem bv_counts_correct : forall b B, bv_repr b B ->
  bv_len b = lenB B /\ bv_count_ones b = count B /\ bv_count_zeros b = lenB B - count B.
Proof.
  intros b B Hrepr. pose proof (bv_len_lenB b B Hrepr) as Hl.
  destruct Hrepr as (_ & _ & Hones). unfold bv_count_zeros, bv_count_ones. rewrite Hl, Hones. auto.
Qed.

(* ================================================================ 6. From<RawVector> gives a representation *)

Lemma nth_error_skipn_add {A} n : forall (l : list A) k, nth_error (skipn n l) k = nth_error l (n + k).
Proof.
  induction n as [|n IH]; intros l k; [reflexivity|].
  destruct l as [|x t]; [destruct k; reflexivity|]. cbn [skipn Nat.add nth_error]. apply IH.
Qed.

Lemma count_all_false l : (forall k x, nth_error l k = Some x -> x = false) -> count l = 0.
Proof.
  induction l as [|x t IH]; intros H; cbn [count]; [reflexivity|].
  rewrite (H 0%nat x eq_refl). rewrite IH; [reflexivity|]. intros k y Hy. apply (H (S k) y Hy).
Qed.

(* the stored sequence has exactly the ones of the word array when the unused bits are clear *)
Lemma count_bits_of_raw r : raw_wf r -> count (bits_of (rlen r) (rdata r)) = sum_pop (rdata r).
Proof.
  intros (Hlen & Hwf & Hun & Hlt). rewrite <- count_bits_of_words by assumption. unfold bits_of.
  rewrite <- (firstn_skipn (N.to_nat (rlen r)) (bits_of_words (rdata r))) at 2.
  rewrite count_app. rewrite (count_all_false (skipn _ _)); [lia|].
  intros k x Hx. rewrite nth_error_skipn_add in Hx. set (q := (N.to_nat (rlen r) + k)%nat) in *.
  assert (Hq : (q < 64 * length (rdata r))%nat).
  { rewrite <- bits_of_words_length. apply nth_error_Some. congruence. }
  set (kw := N.to_nat (N.of_nat q / 64)). set (o := N.to_nat (N.of_nat q mod 64)).
  replace q with (64 * kw + o)%nat in Hx by (subst kw o; lia).
  rewrite nth_error_bits_of_words in Hx by (subst kw o; lia).
  assert (Hx' : x = bit (rdata r) (N.of_nat q)).
  { unfold bit. rewrite getw_nth. fold kw. replace (N.of_nat q mod 64) with (N.of_nat o) by (subst o; lia).
    congruence. }
  rewrite Hx'. apply Hun. subst q. lia.
Qed.

Theorem bv_from_raw_repr : forall r, raw_wf r -> bv_repr (bv_from_raw r) (bits_of (rlen r) (rdata r)).
Proof.
  intros r H. unfold bv_repr, bv_from_raw, bv_len. cbn [bv_data bv_ones].
  split; [exact H|]. split; [reflexivity|]. unfold raw_count_ones. symmetry. apply count_bits_of_raw, H.
Qed.

(* a decidable sufficient condition for raw_wf (used by examples) *)
Definition raw_wfb (r : raw) : bool :=
  (lenN (rdata r) =? (rlen r + 63) / 64) &&
  forallb (fun w => w <? 2 ^ 64) (rdata r) &&
  ((rlen r mod 64 =? 0) || (getw (rdata r) (rlen r / 64) <? 2 ^ (rlen r mod 64))) &&
  (rlen r <? 2 ^ 64).

Lemma raw_wfb_ok r : raw_wfb r = true -> raw_wf r.
Proof.
  unfold raw_wfb. intros H. apply andb_prop in H. destruct H as [H H4].
  apply andb_prop in H. destruct H as [H H3]. apply andb_prop in H. destruct H as [H1 H2].
  apply N.eqb_eq in H1. apply N.ltb_lt in H4.
  assert (Hwf : wf (rdata r)).
  { unfold wf. apply Forall_forall. intros w Hw. rewrite forallb_forall in H2. apply N.ltb_lt, H2, Hw. }
  split; [exact H1|]. split; [exact Hwf|]. split; [|exact H4].
  intros p Hp. unfold bit.
  destruct (N.lt_ge_cases (p / 64) (lenN (rdata r))) as [Hin|Hout].
  - assert (Hrem : rlen r mod 64 <> 0) by lia.
    replace (rlen r mod 64 =? 0) with false in H3 by lia. cbn [orb] in H3. apply N.ltb_lt in H3.
    replace (p / 64) with (rlen r / 64) by lia.
    apply (testbit_above _ (rlen r mod 64)); [exact H3|lia].
  - unfold getw. apply nthN_None_ge in Hout. rewrite Hout. apply N.bits_0.
Qed.
