(* C07, write direction for WMCore and WaveletMatrix: the element lists [wc_serialize core] / [wm_serialize w] that the
   model of the crate writes for a built core / matrix are accepted by the reader written from SERIALIZATION.md
   (Spec/Format.v: p_wmcore, p_wm) and decode to (width, V): the document's level mapping (rank_zero /
   count_zeros + rank, summing the bit values of the set bits) walks every position of the levels the model wrote
   back to its item, `first` holds for every value of the alphabet 0..=max the position of its first occurrence
   in the reordered vector (len if absent), and `first` is packed with the minimal width.
   Bridges between the C04 description of a built matrix (levels represent the ideal columns [wm_columns V]; the
   offsets are [less_v] / len; position of item i in the reordered vector = less_v + rank_v) and the document's
   own reader. *)
From Coq Require Import NArith List Lia ZArith Bool.
Require Import SDS.Model.Mach SDS.Model.Bits SDS.Model.Raw SDS.Model.IntVec SDS.Model.BitVec SDS.Model.Ser SDS.Model.SerBV.
Require Import SDS.Model.WM SDS.Model.SerComposite SDS.Model.SerWM.
Require Import SDS.Spec.BitSeq SDS.Spec.SeqSpec SDS.Spec.Seq.
Require Import SDS.Proofs.BitsProof SDS.Proofs.RawProof SDS.Proofs.IntVecProof SDS.Proofs.BVCommon SDS.Proofs.BVFull.
Require Import SDS.Proofs.WMSeq SDS.Proofs.WMSpec SDS.Proofs.WMLevels SDS.Proofs.WMOffsets SDS.Proofs.WMProof
               SDS.Proofs.WMClosed SDS.Proofs.WMTotal.
Require Import SDS.Proofs.SerProof SDS.Proofs.SerTypes SDS.Proofs.SerWM.
Require SDS.Spec.Format SDS.Proofs.FormatProof SDS.Proofs.FormatRL SDS.Proofs.FormatWM SDS.Proofs.FormatConform.
Import ListNotations.
Open Scope N_scope.
Require Import ZifyBool ZifyN ZifyNat.
Ltac Zify.zify_post_hook ::= Z.div_mod_to_equations.
Arguments N.add : simpl never. Arguments N.sub : simpl never. Arguments N.mul : simpl never.
Arguments N.eqb : simpl never. Arguments N.ltb : simpl never. Arguments N.leb : simpl never.
Arguments N.pow : simpl never. Arguments N.shiftl : simpl never. Arguments N.shiftr : simpl never.
Arguments N.land : simpl never. Arguments N.lor : simpl never. Arguments N.div : simpl never.
Arguments N.modulo : simpl never. Arguments N.ones : simpl never. Arguments N.testbit : simpl never.
Arguments N.min : simpl never. Arguments N.max : simpl never. Arguments N.log2 : simpl never.

Module F := SDS.Spec.Format.
Module FP := SDS.Proofs.FormatProof.
Module FR := SDS.Proofs.FormatRL.
Module FW := SDS.Proofs.FormatWM.

(* ================================================================ 1. the document's walk over ideal columns *)

Lemma count_negb B : count (map negb B) = lenB B - count B.
Proof.
  induction B as [|b t IH]; [reflexivity|]. cbn [map count]. unfold lenB in *. cbn [length].
  pose proof (count_le_length t). destruct b; cbn [negb b2n]; lia.
Qed.

Lemma getb_lt B i c : getb B i = Some c -> i < lenB B.
Proof. rewrite getb_nth_opt. apply nth_opt_Some_lt. Qed.

(* one level: the document's mapping is the step of C04 *)
Lemma wm_map_step B i c : getb B i = Some c -> F.wm_map B i = step_down B c i /\ F.getbit B i = c.
Proof.
  intros H. unfold F.wm_map, F.getbit, F.rank0, step_down. rewrite H. split; [|reflexivity]. destruct c.
  - rewrite count_negb. reflexivity.
  - apply rank1_negb. apply getb_lt in H. lia.
Qed.

(* all levels: the walk returns the position and the accumulated value of C04's [cmd] *)
Lemma walk_cmd k : forall cols i v0 p v, cmd k cols i v0 = Some (p, v) -> length cols = k ->
  exists u, F.wm_walk cols (N.of_nat k) i = (u, p) /\ v = v0 + u.
Proof.
  induction k as [|j IH]; intros cols i v0 p v H Hl.
  - destruct cols; [|discriminate]. cbn [cmd] in H. injection H as <- <-. exists 0. cbn [F.wm_walk]. split; [reflexivity|lia].
  - destruct cols as [|B t]; [discriminate|]. cbn [cmd] in H. destruct (getb B i) as [c|] eqn:Eg; [|discriminate].
    destruct (wm_map_step B i c Eg) as [Em Eb].
    destruct (IH t _ _ p v H ltac:(cbn [length] in Hl; lia)) as (u & Ew & Ev).
    cbn [F.wm_walk]. replace (N.of_nat (S j) - 1) with (N.of_nat j) by lia. rewrite Em, Ew, Eb.
    exists ((if c then N.shiftl 1 (N.of_nat j) else 0) + u). split; [reflexivity|].
    rewrite N.shiftl_1_l. destruct c; lia.
Qed.

Section Walk.
Variable V : list N.
Hypothesis HV : Forall (fun x => x < 2 ^ 64) V.
Hypothesis Hn : lenN V < 2 ^ 64.

Let width := bit_len (list_max V).
Let w := N.to_nat width.

Lemma width_range : 1 <= width <= 64 /\ N.of_nat w = width.
Proof.
  assert (Hm : list_max V < 2 ^ 64) by (apply list_max_lt; [lia|exact HV]).
  pose proof (bit_len_range _ Hm) as [H _]. fold width in H. split; [exact H|]. unfold w. lia.
Qed.

(* the document's walk from position i of level 0: the item, and its position in the reordered vector *)
Lemma walk_ok i x : nth_opt V i = Some x ->
  F.wm_walk (wm_columns V) width i = (x, less_v V x + rank_v V i x).
Proof.
  intros Hx. destruct width_range as [Hw Hwn].
  pose proof (mdk_spec snd w (index_from V 0) i 0 (i, x) (L0_nth V i x Hx)) as Hm.
  rewrite mdk_cmd in Hm. unfold w, width in Hm. rewrite <- (core_columns V HV Hn) in Hm. fold width in Hm. fold w in Hm.
  cbn [snd] in Hm.
  destruct (walk_cmd w (wm_columns V) i 0 _ _ Hm) as (u & Ew & Eu).
  { rewrite (core_columns V HV Hn). apply colsk_length. }
  rewrite Hwn in Ew. rewrite Ew. f_equal.
  - pose proof (core_values_small V HV Hn) as Hs. rewrite Forall_forall in Hs.
    specialize (Hs x (nth_opt_in _ _ _ Hx)). fold width w in Hs. rewrite N.mod_small in Eu by exact Hs. lia.
  - pose proof (down_spec V HV Hn i x Hx) as H1. rewrite (map_down_v_pos V HV Hn i x Hx) in H1.
    injection H1 as H1. fold width w in H1. symmetry. exact H1.
Qed.

Lemma columns_shape : length (wm_columns V) = w /\ Forall (fun B => F.lenN B = lenN V) (wm_columns V).
Proof.
  split; [rewrite (core_columns V HV Hn); apply colsk_length|].
  pose proof (wm_columns_lens V HV) as H. eapply Forall_impl; [|exact H]. cbv beta. intros B HB. exact HB.
Qed.

Lemma nthd_nth_opt (l : list N) i x : nth_opt l i = Some x -> FW.nthd l i = x.
Proof. rewrite WMSeq.nth_opt_nth_error. unfold FW.nthd. intros H. apply nth_error_nth. exact H. Qed.

Lemma lt_nth_opt (l : list N) i : i < F.lenN l -> exists x, nth_opt l i = Some x.
Proof. intros H. apply nth_opt_lt_Some. exact H. Qed.

(* the items the document reads out of the levels *)
Lemma core_items_ok : F.core_items width (wm_columns V) = V.
Proof.
  destruct columns_shape as [Hl Hlen]. destruct width_range as [Hw Hwn].
  unfold F.core_items.
  assert (Hhd : length (hd [] (wm_columns V)) = length V).
  { destruct (wm_columns V) as [|B0 t]; [cbn [length] in Hl; lia|]. inversion Hlen; subst. cbn [hd].
    unfold F.lenN, lenN in *. lia. }
  rewrite Hhd. apply FW.nrange_map_nthd. intros i Hi. destruct (lt_nth_opt V i Hi) as [x Hx].
  rewrite (walk_ok i x Hx), (nthd_nth_opt V i x Hx). reflexivity.
Qed.

(* (value, position) of every item, as the matrix reader computes them *)
Lemma walk_all :
  map (F.wm_walk (wm_columns V) width) (F.nrange (length V) 0) =
  map (fun i => (FW.nthd V i, less_v V (FW.nthd V i) + rank_v V i (FW.nthd V i))) (F.nrange (length V) 0).
Proof.
  apply map_ext_in. intros i Hi. apply FW.in_nrange in Hi. destruct (lt_nth_opt V i) as [x Hx]; [unfold F.lenN; lia|].
  rewrite (walk_ok i x Hx), (nthd_nth_opt V i x Hx). reflexivity.
Qed.

Lemma walk_items : map fst (map (F.wm_walk (wm_columns V) width) (F.nrange (length V) 0)) = V.
Proof.
  rewrite walk_all, map_map. cbn [fst]. apply FW.nrange_map_nthd. intros i _. reflexivity.
Qed.

(* the document's first[]: first occurrence in the reordered vector, or len *)
Lemma first_pos_ok v :
  F.first_pos (map (F.wm_walk (wm_columns V) width) (F.nrange (length V) 0)) (lenN V) v =
  if contains_v V v then less_v V v else lenN V.
Proof.
  rewrite walk_all. set (vp := map _ _).
  assert (Hin : forall y, In y vp -> exists i, i < lenN V /\ nth_opt V i = Some (fst y) /\ snd y = less_v V (fst y) + rank_v V i (fst y)).
  { intros y Hy. unfold vp in Hy. apply in_map_iff in Hy. destruct Hy as (i & <- & Hi). apply FW.in_nrange in Hi.
    assert (Hi' : i < lenN V) by (unfold lenN; lia). destruct (lt_nth_opt V i Hi') as [x Hx].
    exists i. cbn [fst snd]. rewrite (nthd_nth_opt V i x Hx). auto. }
  destruct (contains_v V v) eqn:Ec.
  - (* present: the first occurrence has rank 0 *)
    apply contains_v_in in Ec. pose proof (less_v_lt V v Ec) as Hlt.
    destruct (in_nth_opt V v Ec) as [i0 Hi0].
    assert (Hsel : exists p, select_v V 0 v = Some p).
    { apply spec_select_within. pose proof (select_v_complete V v i0 Hi0) as Hc.
      destruct (N.ltb_spec 0 (count_v V v)) as [Hpos|Hz]; [exact Hpos|].
      rewrite spec_select_beyond in Hc by lia. discriminate. }
    destruct Hsel as [p Hp]. apply select_v_sound in Hp. destruct Hp as [Hp1 Hp2].
    assert (Hmem : In (v, less_v V v + 0) vp).
    { unfold vp. apply in_map_iff. exists p. split.
      - rewrite (nthd_nth_opt V p v Hp1), Hp2. reflexivity.
      - apply FW.in_nrange. apply nth_opt_Some_lt in Hp1. lia. }
    pose proof (FW.first_pos_lower vp (lenN V) v _ Hmem eq_refl) as Hup. cbn [snd] in Hup.
    destruct (FW.first_pos_witness vp (lenN V) v) as [E|(y & Hy & Hf & Hs)].
    + unfold lenS, lenN in *. lia.
    + destruct (Hin y Hy) as (i & _ & _ & Hsnd). rewrite Hf in Hsnd. lia.
  - (* absent: no entry has this value *)
    destruct (FW.first_pos_witness vp (lenN V) v) as [E|(y & Hy & Hf & Hs)]; [exact E|].
    destruct (Hin y Hy) as (i & _ & Hnth & _). rewrite Hf in Hnth. apply nth_opt_in in Hnth.
    apply contains_v_in in Hnth. congruence.
Qed.

End Walk.

(* ================================================================ 2. the levels the model wrote *)

Lemma reads_repeat2 {A B} (p : F.parser B) (enc : A -> list N) (xs : list A) (ys : list B) :
  Forall2 (fun x y => FP.reads p (enc x) y) xs ys -> FP.reads (F.p_repeat (length xs) p) (flat_map enc xs) ys.
Proof.
  induction 1 as [|x y xs ys Hxy Ht IH]; cbn [length F.p_repeat flat_map]; [apply FP.reads_ret|].
  eapply FP.reads_bind; [exact Hxy|]. rewrite <- (app_nil_r (flat_map enc xs)).
  eapply FP.reads_bind; [exact IH|]. apply FP.reads_ret.
Qed.

Lemma file_ok_levels (ls : list bitvec) : Forall bv_ok ls -> F.file_ok (flat_map bv_serialize ls) = true.
Proof.
  induction 1 as [|b t Hb Ht IH]; [reflexivity|]. cbn [flat_map].
  rewrite FP.file_ok_app, (FormatConform.file_ok_bv_model b Hb), IH. reflexivity.
Qed.

Lemma reads_levels (levels : list bitvec) (cols : list (list bool)) :
  Forall2 bv_repr levels cols -> FP.reads (F.p_repeat (length levels) F.p_bv) (flat_map bv_serialize levels) cols.
Proof.
  intros H. apply reads_repeat2. induction H as [|b col levels cols Hb Ht IH]; constructor; [|exact IH].
  destruct (bv_repr_abs b col Hb) as (Hinv & Habs & _). rewrite <- Habs.
  apply FormatConform.reads_bv_model; [exact Hinv|]. rewrite Habs. apply Hb.
Qed.

Section Model.
Variables (V : list N) (levels : list bitvec).
Hypothesis HV : Forall (fun x => x < 2 ^ 64) V.
Hypothesis Hn : lenN V < 2 ^ 64.
Hypothesis Hok : Forall bv_ok levels.
Hypothesis Hrep : Forall2 bv_repr levels (wm_columns V).
Hypothesis Hwd : wc_width (mkcore levels) = bit_len (list_max V).

Lemma reads_core_raw :
  FP.reads F.p_wmcore_raw (wc_serialize (mkcore levels)) (bit_len (list_max V), wm_columns V).
Proof.
  destruct (width_range V HV Hn) as [Hw _]. destruct (columns_shape V HV Hn) as [_ Hlens].
  unfold wc_serialize, F.p_wmcore_raw. rewrite Hwd. cbn [wc_levels].
  change (bit_len (list_max V) :: ?b) with ([bit_len (list_max V)] ++ b).
  eapply FP.reads_bind; [apply FP.reads_elem|]. apply FP.reads_must; [lia|].
  rewrite <- (app_nil_r (flat_map bv_serialize levels)). eapply FP.reads_bind.
  { assert (E : N.to_nat (bit_len (list_max V)) = length levels).
    { rewrite <- Hwd. unfold wc_width, lenN. cbn [wc_levels]. apply Nat2N.id. }
    rewrite E. apply reads_levels. exact Hrep. }
  apply FP.reads_must; [apply (FW.Forall_same_len _ _ Hlens)|]. apply FP.reads_ret.
Qed.

Lemma file_ok_core : F.file_ok (wc_serialize (mkcore levels)) = true.
Proof.
  destruct (width_range V HV Hn) as [Hw _]. unfold wc_serialize. rewrite Hwd. cbn [wc_levels].
  rewrite FP.file_ok_cons, FP.elem_ok_lt by lia. cbn [andb]. apply file_ok_levels. exact Hok.
Qed.

(* the core: the document reads (width, V) *)
Lemma reads_core : FP.reads F.p_wmcore (wc_serialize (mkcore levels)) (bit_len (list_max V), V).
Proof.
  unfold F.p_wmcore. rewrite <- (app_nil_r (wc_serialize _)). eapply FP.reads_bind; [apply reads_core_raw|].
  cbn [fst snd]. rewrite (core_items_ok V HV Hn). apply FP.reads_ret.
Qed.

(* the matrix *)
Variables (first : intvec) (Fo : list N).
Hypothesis Hmax : list_max V + 1 < 2 ^ 64.
Hypothesis HFo : first_offsets Debug V (lenN V) (list_max V) = Ok Fo.
Hypothesis Hinv : iv_inv first.
Hypothesis Habs : abs_iv first = Fo.
Hypothesis Hfw : iwidth first = digits (list_maxN Fo).
Hypothesis Hfok : iv_ok first.

Let g (v : N) : N := if contains_v V v then less_v V v else lenN V.

Lemma offsets_map : Fo = map g (F.nrange (N.to_nat (list_max V + 1)) 0).
Proof.
  destruct (first_offsets_ok Debug V HV Hmax) as (F' & H1 & H2 & H3). rewrite HFo in H1. injection H1 as <-.
  assert (E : N.to_nat (list_max V + 1) = length Fo) by (unfold lenN in H2; lia). rewrite E. symmetry.
  apply FW.nrange_map_nthd. intros i Hi. unfold F.lenN in Hi. specialize (H3 i ltac:(unfold lenN in H2; lia)).
  rewrite nthN_nth_error in H3. unfold FW.nthd, g. symmetry. apply nth_error_nth. exact H3.
Qed.

Lemma reads_wm :
  FP.reads F.p_wm (wm_serialize (mkwm (lenN V) (mkcore levels) first)) (bit_len (list_max V), V).
Proof.
  destruct (columns_shape V HV Hn) as [Hcl Hlens]. destruct (width_range V HV Hn) as [Hw _].
  unfold wm_serialize, F.p_wm. cbn [wm_len wm_data wm_first].
  change (lenN V :: ?b) with ([lenN V] ++ b). eapply FP.reads_bind; [apply FP.reads_elem|].
  eapply FP.reads_bind; [apply reads_core_raw|].
  rewrite <- (app_nil_r (iv_serialize first)). eapply FP.reads_bind; [apply FormatConform.reads_int_model; exact Hinv|].
  unfold abs_is. rewrite Habs. cbv beta iota zeta.
  apply FP.reads_must.
  { unfold F.core_len. destruct (wm_columns V) as [|B0 t]; [cbn [length] in Hcl; lia|].
    rewrite (Forall_inv Hlens). apply N.eqb_refl. }
  replace (N.to_nat (lenN V)) with (length V) by (unfold lenN; lia).
  rewrite (walk_items V HV Hn).
  apply FP.reads_must.
  { destruct (N.eqb_spec (lenN V) 0) as [H0|Hn0].
    - rewrite offsets_map. assert (V = []) by (destruct V; [reflexivity|unfold lenN in H0; cbn [length] in H0; lia]). subst V.
      rewrite forallb_forall. intros x Hx. apply in_map_iff in Hx. destruct Hx as (v & <- & _). reflexivity.
    - replace (F.doc_first _ _ _) with Fo; [apply FR.nlist_eq_refl|].
      rewrite offsets_map at 1. unfold F.doc_first, F.alphabet_size.
      change (F.list_max V) with (list_max V). apply map_ext. intros v. unfold g. symmetry.
      apply (first_pos_ok V HV Hn). }
  apply FP.reads_must; [rewrite Hfw; apply N.eqb_refl|]. apply FP.reads_ret.
Qed.

Lemma file_ok_wm : F.file_ok (wm_serialize (mkwm (lenN V) (mkcore levels) first)) = true.
Proof.
  unfold wm_serialize. cbn [wm_len wm_data wm_first].
  rewrite FP.file_ok_cons, FP.file_ok_app, FP.elem_ok_lt by exact Hn. cbn [andb].
  rewrite file_ok_core. cbn [andb]. apply FormatConform.file_ok_iv_model. exact Hfok.
Qed.

End Model.

(* ================================================================ 3. assembled over From<Vec<T>> *)

Theorem wmcore_conform sp m V :
  Forall (fun x => x < 2 ^ 64) V -> lenN V + 4096 < 2 ^ 64 ->
  exists core, wm_core_from sp m V = Ok core /\ wc_width core = width_v V /\
    F.elems_of_bytes (c_enc (wmcore_codec sp m) core) = Some (wc_serialize core) /\
    F.doc_valid_wmcore (wc_serialize core) = true /\ F.doc_content_wmcore (wc_serialize core) = Some (wc_width core, V).
Proof.
  intros HV Hn. assert (Hn' : lenN V < 2 ^ 64) by lia.
  destruct (wmcore_built sp m V HV Hn) as (levels & Hc & Hok & Hrep & _ & Hcw & _).
  assert (Hwd : wc_width (mkcore levels) = bit_len (list_max V)) by (rewrite Hcw; apply (width_v_bit_len V HV)).
  exists (mkcore levels). split; [exact Hc|]. split; [exact Hcw|].
  pose proof (file_ok_core V levels HV Hn' Hok Hwd) as Hf.
  split.
  - cbn [c_enc wmcore_codec]. rewrite (wmcore_enc_elems m (mkcore levels) Hok).
    apply FormatConform.elems_of_le64. apply FormatConform.Forall_of_file_ok. exact Hf.
  - rewrite Hwd. apply FP.roundtrip_of; [apply (reads_core V levels HV Hn' Hrep Hwd)|exact Hf].
Qed.

Theorem wm_conform sp m V :
  Forall (fun x => x < 2 ^ 64) V -> lenN V + 4096 < 2 ^ 64 -> list_max V + 1 < 2 ^ 58 ->
  exists w, wm_from sp m V = Ok w /\ wm_width w = width_v V /\
    F.elems_of_bytes (c_enc (wm_codec sp m) w) = Some (wm_serialize w) /\
    F.doc_valid_wm (wm_serialize w) = true /\ F.doc_content_wm (wm_serialize w) = Some (wm_width w, V).
Proof.
  intros HV Hn Hmax. assert (Hn' : lenN V < 2 ^ 64) by lia. assert (Hmax' : list_max V + 1 < 2 ^ 64) by lia.
  destruct (wmcore_built sp m V HV Hn) as (levels & Hc & Hok & Hrep & _ & Hcw & _).
  destruct (wm_built sp m V HV Hn Hmax) as (levels' & first & Hw & Hc' & _ & Hfok & _).
  assert (levels' = levels) by congruence. subst levels'.
  destruct (wm_from_closed sp m V HV Hn' Hmax') as (levels' & first' & Fo & Hw' & _ & _ & HFo & _ & Hinv & Habs & HFl & (iv & E1 & E2)).
  assert (first' = first) by congruence. subst first'. clear levels' Hw'.
  assert (Hwd : wc_width (mkcore levels) = bit_len (list_max V)) by (rewrite Hcw; apply (width_v_bit_len V HV)).
  assert (Hfw : iwidth first = digits (list_maxN Fo)).
  { destruct (first_built Fo) as (iv' & first' & E1' & E2' & _ & _ & _ & Hwid).
    { destruct (offsets_bounded Debug V Fo HV Hn' Hmax' (HFo Debug)) as [_ Hb]. rewrite Forall_forall in *. intros x Hx.
      specialize (Hb x Hx). lia. }
    assert (iv' = iv) by congruence. subst iv'. assert (first' = first) by congruence. subst first'.
    rewrite Hwid. replace (lenL Fo =? 0) with false; [reflexivity|]. unfold lenL, lenN in *. lia. }
  exists (mkwm (lenN V) (mkcore levels) first). split; [exact Hw|]. split; [exact Hcw|].
  pose proof (file_ok_wm V levels HV Hn' Hok Hwd first Hfok) as Hf.
  split.
  - cbn [c_enc wm_codec]. rewrite (wm_enc_elems m (mkwm (lenN V) (mkcore levels) first) Hok).
    apply FormatConform.elems_of_le64. apply FormatConform.Forall_of_file_ok. exact Hf.
  - unfold wm_width. cbn [wm_data]. rewrite Hwd. apply FP.roundtrip_of; [|exact Hf].
    exact (reads_wm V levels HV Hn' Hrep Hwd first Fo Hmax' (HFo Debug) Hinv Habs Hfw).
Qed.
