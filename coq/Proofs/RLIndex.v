(* SampleIndex (src/rl_vector/index.rs) for NON-DECREASING values, and the binary search block_for.
   parameters: no overflow for any universe <= 2^64-1, (num_samples-1)*divisor < universe <= num_samples*divisor;
   new: returns Ok (no assertion fails) when values[0] = 0 and the values are non-decreasing;
   range x: returns start < end <= num_values with values[start] <= x (for x < universe);
   block_for: terminates within its fuel and returns an index in the range whose key is <= x. *)
From Coq Require Import NArith List Lia ZArith Bool.
Require Import SDS.Model.Mach SDS.Model.Bits SDS.Model.Raw SDS.Model.IntVec SDS.Model.RL SDS.gen.Consts SDS.gen.Funs.
Require Import SDS.Proofs.BitsProof SDS.Proofs.RLIntVec SDS.Proofs.RLVarint.
Import ListNotations.
Open Scope N_scope.
Require Import ZifyBool ZifyN ZifyNat.
Ltac Zify.zify_post_hook ::= Z.div_mod_to_equations.
Arguments N.add : simpl never. Arguments N.sub : simpl never. Arguments N.mul : simpl never.
Arguments N.eqb : simpl never. Arguments N.ltb : simpl never. Arguments N.leb : simpl never.
Arguments N.pow : simpl never. Arguments N.shiftl : simpl never. Arguments N.shiftr : simpl never.
Arguments N.land : simpl never. Arguments N.lor : simpl never. Arguments N.div : simpl never.
Arguments N.modulo : simpl never. Arguments N.ones : simpl never. Arguments N.testbit : simpl never.

(* ---- rounding division without overflow ---- *)

Definition cdiv (a b : N) : N := a / b + (if a mod b =? 0 then 0 else 1).

Lemma cdiv_spec a b : 1 <= b -> 1 <= a ->
  1 <= cdiv a b /\ (cdiv a b - 1) * b < a /\ a <= cdiv a b * b /\ cdiv a b <= a.
Proof.
  intros Hb Ha. unfold cdiv.
  pose proof (N.div_mod a b ltac:(lia)) as E. pose proof (N.mod_lt a b ltac:(lia)) as Hm.
  destruct (N.eqb_spec (a mod b) 0) as [Hz|Hz].
  - rewrite Hz in E. rewrite N.add_0_r in *.
    assert (1 <= a / b) by (destruct (N.eq_dec (a / b) 0) as [Z|Z]; [rewrite Z in E; lia|lia]).
    repeat split; try lia; try nia.
  - repeat split; try lia; try nia.
Qed.

Lemma cdiv_le a b c : 1 <= b -> 1 <= a -> a <= c * b -> cdiv a b <= c.
Proof.
  intros Hb Ha Hc. destruct (cdiv_spec a b Hb Ha) as (H1 & H2 & _).
  destruct (N.le_gt_cases (cdiv a b) c) as [|Hgt]; [assumption|].
  assert (c * b <= (cdiv a b - 1) * b) by (apply N.mul_le_mono_r; lia). lia.
Qed.

Lemma si_parameters_spec m values universe :
  1 <= values -> values + 8 < 2 ^ 64 -> 1 <= universe < 2 ^ 64 ->
  exists ns d, si_parameters m values universe = Ok (ns, d) /\
    1 <= d /\ 1 <= ns /\ (ns - 1) * d < universe /\ universe <= ns * d /\ ns <= values /\ d <= universe.
Proof.
  intros Hv Hv8 Hu. unfold si_parameters. change index_RATIO with 8.
  destruct (div_round_up_spec m values 8) as (E & _); [lia|lia|]. rewrite E. cbn [bind].
  set (ns0 := (values + 8 - 1) / 8). assert (Hns0 : 1 <= ns0 <= values) by (subst ns0; lia).
  rewrite udiv_ok by lia. cbn [bind].
  destruct (cdiv_spec universe ns0) as (Hd1 & Hd2 & Hd3 & Hd4); [lia|lia|].
  unfold cdiv in Hd1, Hd2, Hd3, Hd4.
  set (d := universe / ns0 + (if universe mod ns0 =? 0 then 0 else 1)) in *.
  assert (Hq : universe / ns0 + (if universe mod ns0 =? 0 then 0 else 1) < 2 ^ 64) by (fold d; lia).
  rewrite uadd_ok by exact Hq. cbn [bind]. fold d.
  rewrite udiv_ok by lia. cbn [bind].
  destruct (cdiv_spec universe d) as (Hn1 & Hn2 & Hn3 & Hn4); [lia|lia|].
  unfold cdiv in Hn1, Hn2, Hn3, Hn4.
  set (ns := universe / d + (if universe mod d =? 0 then 0 else 1)) in *.
  rewrite uadd_ok by lia. cbn [bind].
  exists ns, d. split; [reflexivity|].
  assert (ns <= ns0) by (apply (cdiv_le universe d ns0); try lia; rewrite N.mul_comm; lia).
  repeat split; lia.
Qed.

(* ---- non-decreasing lists ---- *)

Fixpoint nondec (l : list N) : Prop :=
  match l with
  | [] => True
  | x :: t => match t with [] => True | y :: _ => x <= y end /\ nondec t
  end.

Lemma last_cons_default {A} (a : A) l d : last (a :: l) d = last l a.
Proof.
  revert a d. induction l as [|b t IH]; intros a d; [reflexivity|].
  change (last (a :: b :: t) d) with (last (b :: t) d). rewrite (IH b d), (IH b a). reflexivity.
Qed.
Lemma last_app_default {A} (l1 l2 : list A) d : last (l1 ++ l2) d = last l2 (last l1 d).
Proof.
  revert d. induction l1 as [|a t IH]; intros d; [reflexivity|].
  cbn [app]. rewrite !last_cons_default. apply IH.
Qed.
Lemma last_Forall {A} (P : A -> Prop) l d : Forall P l -> P d -> P (last l d).
Proof.
  revert d. induction l as [|a t IH]; intros d Hl Hd; [exact Hd|].
  rewrite last_cons_default. inversion Hl; subst. apply IH; assumption.
Qed.
Lemma nthN_last {A} (l : list A) d : l <> [] -> nthN l (lenN l - 1) = Some (last l d).
Proof.
  induction l as [|a t IH]; intros Hne; [congruence|].
  rewrite lenN_cons. cbn [nthN]. destruct t as [|b t'].
  - reflexivity.
  - rewrite lenN_cons in *. replace (1 + (1 + lenN t') - 1 =? 0) with false by lia.
    replace (1 + (1 + lenN t') - 1 - 1) with (1 + lenN t' - 1) by lia.
    rewrite IH by congruence. rewrite !last_cons_default. reflexivity.
Qed.
Lemma nthN_repeatN_lt {A} (x : A) n i : i < N.of_nat n -> nthN (repeatN x n) i = Some x.
Proof.
  intros Hi. destruct (nthN_lt_Some (repeatN x n) i) as [y Hy]; [rewrite lenN_repeatN; assumption|].
  rewrite Hy. f_equal. eapply nthN_repeatN; eauto.
Qed.

(* ---- SampleIndex::new ---- *)

Lemma si_inner_spec t offset prev rest :
  nondec (prev :: rest) ->
  exists taken rest', rest = taken ++ rest' /\
    si_inner t offset prev rest = Ok (offset + lenN taken, last taken prev, rest') /\
    Forall (fun x => x <= t) taken /\ nondec (last taken prev :: rest') /\
    match rest' with [] => True | z :: _ => t < z end.
Proof.
  revert offset prev. induction rest as [|value r IH]; intros offset prev Hnd.
  - exists [], []. cbn [si_inner app last]. rewrite lenN_nil, N.add_0_r.
    split; [reflexivity|]. split; [reflexivity|]. split; [constructor|]. split; [exact Hnd|exact I].
  - cbn [si_inner]. destruct (N.ltb_spec t value) as [Hgt|Hle].
    + exists [], (value :: r). cbn [app last]. rewrite lenN_nil, N.add_0_r.
      split; [reflexivity|]. split; [reflexivity|]. split; [constructor|]. split; [exact Hnd|exact Hgt].
    + destruct Hnd as [Hpv Hnd]. replace (prev <=? value) with true by lia.
      destruct (IH (offset + 1) value Hnd) as (taken & rest' & -> & Hi & Hall & Hnd' & Hup).
      exists (value :: taken), rest'. rewrite last_cons_default, lenN_cons. split; [reflexivity|].
      split; [rewrite Hi; f_equal; f_equal; f_equal; lia|]. split; [constructor; assumption|].
      split; assumption.
Qed.

Lemma nthN_mid {A} (l1 l2 : list A) x : nthN (l1 ++ x :: l2) (lenN l1) = Some x.
Proof. rewrite nthN_app_r by lia. replace (lenN l1 - lenN l1) with 0 by lia. reflexivity. Qed.

Section New.
  Variable V : list N.        (* the values *)
  Variables d ns w : N.       (* divisor, number of samples, width of the sample vector *)

  (* the first j samples are in place: each is the index of a value <= i * d, they do not exceed [off],
     and they are non-decreasing *)
  Definition Sgood (j : N) (S : list N) (off : N) : Prop :=
    (forall i, i < j -> exists x y, nthN S i = Some x /\ x <= off /\ nthN V x = Some y /\ y <= i * d) /\
    (forall i1 i2 x1 x2, i1 <= i2 -> i2 < j -> nthN S i1 = Some x1 -> nthN S i2 = Some x2 -> x1 <= x2) /\
    (forall i x, 1 <= i -> i < j -> nthN S i = Some x ->
       x + 1 = lenN V \/ exists z, nthN V (x + 1) = Some z /\ i * d < z).

  Lemma si_outer_spec m count : forall j sv S offset prev done rest,
    V = done ++ rest -> done <> [] -> lenN done = offset + 1 -> last done 0 = prev ->
    nondec (prev :: rest) ->
    iv_rep sv w S -> lenN S = ns -> j + N.of_nat count = ns -> 1 <= j ->
    prev <= (j - 1) * d -> Sgood j S offset ->
    (ns - 1) * d < 2 ^ 64 -> lenN V <= 2 ^ w ->
    exists sv' S' prev',
      si_outer m count j d sv offset prev rest = Ok (sv', prev') /\
      iv_rep sv' w S' /\ lenN S' = ns /\ prev' <= (ns - 1) * d /\ Sgood ns S' (lenN V - 1).
  Proof.
    induction count as [|k IH]; intros j sv S offset prev done rest HV Hne Hlen Hlast Hnd Hr HlS Hj Hj1 Hprev Hgood Hfit Hw.
    - cbn [si_outer]. exists sv, S, prev. replace ns with j by lia.
      split; [reflexivity|]. split; [assumption|]. split; [lia|]. split; [assumption|].
      destruct Hgood as (G1 & G2 & G3). split; [|split; [exact G2|exact G3]].
      intros i Hi. destruct (G1 i Hi) as (x & y & Hx & Hxo & Hy & Hyi). exists x, y.
      repeat split; try assumption. rewrite HV, lenN_app. lia.
    - cbn [si_outer].
      assert (Hjd : j * d <= (ns - 1) * d) by (apply N.mul_le_mono_r; lia).
      rewrite umul_ok by lia. cbn [bind].
      destruct (si_inner_spec (j * d) offset prev rest Hnd) as (taken & rest' & Hrest & Hin & Hall & Hnd' & Hup).
      rewrite Hin. cbn [bind].
      set (offset' := offset + lenN taken). set (prev' := last taken prev).
      assert (Hoff' : offset' + 1 <= lenN V).
      { subst offset'. rewrite HV, Hrest, !lenN_app. lia. }
      destruct (iv_set_rep_small sv w S j offset' Hr) as (sv1 & Hset & Hr1); [lia|lia|].
      rewrite Hset. cbn [bind].
      assert (Hprev' : prev' <= j * d).
      { subst prev'. apply last_Forall; [assumption|].
        assert ((j - 1) * d <= j * d) by (apply N.mul_le_mono_r; lia). lia. }
      assert (HnV : nthN V offset' = Some prev').
      { replace offset' with (lenN (done ++ taken) - 1) by (rewrite lenN_app; subst offset'; lia).
        rewrite HV, Hrest, app_assoc, nthN_app_l by (rewrite lenN_app; lia).
        rewrite (nthN_last _ 0) by (destruct done; [congruence|discriminate]).
        rewrite last_app_default, Hlast. reflexivity. }
      apply (IH (j + 1) sv1 (setN S j offset') offset' prev' (done ++ taken) rest'); try lia; try assumption.
      + rewrite HV, Hrest, app_assoc. reflexivity.
      + destruct done; [congruence|discriminate].
      + rewrite lenN_app. subst offset'. lia.
      + rewrite last_app_default, Hlast. reflexivity.
      + rewrite lenN_setN. assumption.
      + destruct Hgood as (G1 & G2 & G3). split; [|split].
        * intros i Hi. rewrite nthN_setN_any.
          destruct (N.eqb_spec i j) as [->|Hne']; cbn [andb].
          -- replace (j <? lenN S) with true by lia. exists offset', prev'. repeat split; try assumption; lia.
          -- destruct (G1 i ltac:(lia)) as (x & y & Hx & Hxo & Hy & Hyi). exists x, y.
             repeat split; try assumption. subst offset'. lia.
        * intros i1 i2 x1 x2 H12 H2 Hx1 Hx2. rewrite nthN_setN_any in Hx1, Hx2.
          destruct (N.eqb_spec i2 j) as [->|Hne2]; cbn [andb] in Hx2.
          -- replace (j <? lenN S) with true in Hx2 by lia. injection Hx2 as <-.
             destruct (N.eqb_spec i1 j) as [->|Hne1]; cbn [andb] in Hx1.
             ++ replace (j <? lenN S) with true in Hx1 by lia. injection Hx1 as <-. lia.
             ++ destruct (G1 i1 ltac:(lia)) as (x & y & Hx & Hxo & _). assert (x = x1) by congruence. subst offset'. lia.
          -- destruct (N.eqb_spec i1 j) as [->|Hne1]; cbn [andb] in Hx1; [lia|].
             eapply (G2 i1 i2); eauto. lia.
        * intros i x Hi1 Hi Hx. rewrite nthN_setN_any in Hx.
          destruct (N.eqb_spec i j) as [->|Hne']; cbn [andb] in Hx.
          -- replace (j <? lenN S) with true in Hx by lia. injection Hx as <-.
             destruct rest' as [|z rest''].
             ++ left. rewrite HV, Hrest, app_nil_r, !lenN_app. subst offset'. lia.
             ++ right. exists z. split; [|exact Hup].
                replace (offset' + 1) with (lenN (done ++ taken)) by (rewrite lenN_app; subst offset'; lia).
                rewrite HV, Hrest, app_assoc. apply nthN_mid.
          -- eapply G3; eauto. lia.
  Qed.
End New.

(* what the queries need from an index over the values V with universe U *)
Definition si_ok (si : sindex) (V : list N) (U : N) : Prop :=
  exists S d w,
    si_num_values si = lenN V /\ si_divisor si = d /\ iv_rep (si_samples si) w S /\
    1 <= d /\ U <= lenN S * d /\
    (forall i, i < lenN S -> exists x y, nthN S i = Some x /\ nthN V x = Some y /\ y <= i * d) /\
    (forall i1 i2 x1 x2, i1 <= i2 -> nthN S i1 = Some x1 -> nthN S i2 = Some x2 -> x1 <= x2) /\
    (forall i x, 1 <= i -> nthN S i = Some x ->
       x + 1 = lenN V \/ exists z, nthN V (x + 1) = Some z /\ i * d < z).

(* the index built for no values or an empty universe *)
Definition si_is_empty (si : sindex) : Prop :=
  si_num_values si = 0 /\ si_divisor si = MAXU /\ iv_rep (si_samples si) 1 [0].

Lemma si_new_empty m V U : V = [] \/ U = 0 -> exists si, si_new m V U = Ok si /\ si_is_empty si.
Proof.
  intros H. unfold si_new.
  assert (E : (lenN V =? 0) || (U =? 0) = true).
  { destruct H as [->| ->]; [reflexivity|]. rewrite orb_true_r. reflexivity. }
  rewrite E. destruct (iv_with_len_zeros 1 1) as (v & Hv & Hr); [lia|].
  rewrite Hv. cbn [unwrap_opt bind]. eexists. split; [reflexivity|].
  unfold si_is_empty. cbn [si_num_values si_divisor si_samples].
  split; [reflexivity|]. split; [reflexivity|]. exact Hr.
Qed.

Lemma si_new_spec m V U :
  V <> [] -> nthN V 0 = Some 0 -> nondec V -> 1 <= U < 2 ^ 64 -> lenN V + 8 < 2 ^ 64 ->
  exists si, si_new m V U = Ok si /\ si_ok si V U.
Proof.
  intros Hne H0 Hnd HU HV8. unfold si_new.
  assert (HlV : 1 <= lenN V) by (destruct V; [congruence|rewrite lenN_cons; lia]).
  replace (lenN V =? 0) with false by lia. replace (U =? 0) with false by lia. cbn [orb].
  destruct (si_parameters_spec m (lenN V) U) as (ns & d & Hp & Hd & Hns & Hlo & Hhi & HnsV & HdU); try lia.
  rewrite Hp. cbn [bind].
  set (w := bit_len (lenN V - 1)).
  assert (Hw : 1 <= w <= 64) by (subst w; apply bit_len_le_64; lia).
  assert (HVw : lenN V <= 2 ^ w).
  { subst w. destruct (N.eq_dec (lenN V - 1) 0) as [Z|Z].
    - rewrite Z. change (2 ^ bit_len 0) with 2. lia.
    - pose proof (bit_len_bounds (lenN V - 1)). lia. }
  destruct (iv_with_len_zeros ns w Hw) as (sv & Hsv & Hr). rewrite Hsv. cbn [unwrap_opt bind].
  destruct V as [|prev rest]; [congruence|]. cbn [nthN] in H0. change (0 =? 0) with true in H0. injection H0 as ->.
  change (negb (0 =? 0)) with false. cbn iota.
  rewrite (iv_rep_ilen _ _ _ Hr), lenN_repeatN, N2Nat.id.
  destruct (si_outer_spec (0 :: rest) d ns w m (N.to_nat ns - 1) 1 sv (repeatN 0 (N.to_nat ns)) 0 0 [0] rest)
    as (sv' & S' & prev' & Ho & Hr' & HlS' & Hprev' & G1 & G2 & G3); try assumption; try reflexivity; try lia.
  - discriminate.
  - rewrite lenN_repeatN. lia.
  - split; [|split].
    + intros i Hi. exists 0, 0. assert (i = 0) by lia. subst i.
      split; [apply nthN_repeatN_lt; lia|]. split; [lia|]. split; [reflexivity|lia].
    + intros i1 i2 x1 x2 _ Hi2 Hx1 Hx2. apply nthN_repeatN in Hx1. apply nthN_repeatN in Hx2. lia.
    + intros i x Hi1 Hi2. lia.
  - rewrite Ho. cbn [bind]. replace (prev' <? U) with true by lia.
    eexists. split; [reflexivity|]. exists S', d, w. cbn [si_num_values si_divisor si_samples].
    split; [reflexivity|]. split; [reflexivity|]. split; [assumption|]. split; [assumption|].
    split; [rewrite HlS'; assumption|]. split; [|split].
    + intros i Hi. destruct (G1 i ltac:(lia)) as (x & y & Hx & _ & Hy & Hyi). exists x, y. auto.
    + intros i1 i2 x1 x2 H12 Hx1 Hx2. eapply (G2 i1 i2); eauto.
      pose proof (nthN_Some_lt _ _ _ Hx2). lia.
    + intros i x Hi1 Hx. eapply (G3 i x); eauto. pose proof (nthN_Some_lt _ _ _ Hx). lia.
Qed.

(* ---- range ---- *)

Lemma si_range_full m si V U x :
  si_ok si V U -> x < U -> U < 2 ^ 64 ->
  exists s e y, si_range m si x = Ok (s, e) /\ s < e /\ e <= lenN V /\ nthN V s = Some y /\ y <= x /\
    (e = lenN V \/ exists z, nthN V e = Some z /\ x < z).
Proof.
  intros (S & d & w & Hnv & Hdv & Hr & Hd & HU & G1 & G2 & G3) Hx HU64.
  unfold si_range. rewrite Hdv, Hnv. rewrite udiv_ok by lia. cbn [bind].
  set (o := x / d).
  assert (Ho : o < lenN S) by (subst o; apply N.div_lt_upper_bound; [lia|]; rewrite N.mul_comm; lia).
  assert (Hod : o * d <= x) by (subst o; rewrite N.mul_comm; apply N.mul_div_le; lia).
  destruct (G1 o Ho) as (s & y & Hs & Hy & Hyo).
  rewrite (iv_get_or_rep _ _ _ o (lenN V) Hr), Hs. cbn [bind].
  assert (o <= x) by (subst o; apply N.div_le_upper_bound; [lia|]; nia).
  rewrite uadd_ok by lia. cbn [bind].
  rewrite (iv_get_or_rep _ _ _ (o + 1) (lenN V) Hr). cbn [bind].
  pose proof (nthN_Some_lt _ _ _ Hy) as HsV.
  destruct (nthN S (o + 1)) as [s1|] eqn:Hs1.
  - destruct (G1 (o + 1)) as (s1' & y1 & Hs1' & Hy1 & _); [apply (nthN_Some_lt _ _ _ Hs1)|].
    assert (s1' = s1) by congruence. subst s1'.
    pose proof (nthN_Some_lt _ _ _ Hy1) as Hs1V.
    replace (s1 <? lenN V) with true by lia.
    assert (s <= s1) by (eapply (G2 o (o + 1)); eauto; lia).
    assert (Hlt : x < (o + 1) * d).
    { subst o. pose proof (N.div_mod x d ltac:(lia)). pose proof (N.mod_lt x d ltac:(lia)). nia. }
    exists s, (s1 + 1), y. split; [reflexivity|]. split; [lia|]. split; [lia|]. split; [assumption|].
    split; [lia|].
    destruct (G3 (o + 1) s1 ltac:(lia) Hs1) as [He|(z & Hz & Hzd)]; [left; exact He|right].
    exists z. split; [exact Hz|lia].
  - replace (lenN V <? lenN V) with false by lia.
    exists s, (lenN V), y. split; [reflexivity|]. split; [lia|]. split; [lia|]. split; [assumption|].
    split; [lia|left; reflexivity].
Qed.

Lemma si_range_spec m si V U x :
  si_ok si V U -> x < U -> U < 2 ^ 64 ->
  exists s e y, si_range m si x = Ok (s, e) /\ s < e /\ e <= lenN V /\ nthN V s = Some y /\ y <= x.
Proof.
  intros H1 H2 H3. destruct (si_range_full m si V U x H1 H2 H3) as (s & e & y & A & B & C & D & E & _).
  exists s, e, y. auto.
Qed.

Lemma si_range_empty m si x : si_is_empty si -> x < MAXU -> si_range m si x = Ok (0, 0).
Proof.
  intros (Hnv & Hdv & Hr) Hx. unfold si_range. rewrite Hdv, Hnv.
  rewrite udiv_ok by (unfold MAXU; lia). cbn [bind].
  replace (x / MAXU) with 0 by (symmetry; apply N.div_small; assumption).
  rewrite (iv_get_or_rep _ _ _ 0 0 Hr). cbn [nthN]. change (0 =? 0) with true. cbn iota. cbn [bind].
  rewrite uadd_ok by lia. cbn [bind].
  rewrite (iv_get_or_rep _ _ _ (0 + 1) 0 Hr). cbn [bind]. reflexivity.
Qed.

(* ---- block_for ---- *)

Lemma block_for_spec fuel m x f g : forall low high,
  (forall i, low <= i < high -> f i = Ok (g i)) ->
  low <= high -> high - low <= 2 ^ (N.of_nat fuel - 1) -> (1 <= fuel)%nat ->
  exists i, rl_block_for fuel m low high x f = Ok i /\
            low <= i /\ (i < high \/ i = low) /\ (i = low \/ g i <= x).
Proof.
  induction fuel as [|k IH]; intros low high Hf Hle Hd Hk; [lia|].
  cbn [rl_block_for]. rewrite usub_ok by lia. cbn [bind].
  destruct (N.ltb_spec 1 (high - low)) as [Hgt|Hsmall].
  - set (mid := low + (high - low) / 2).
    assert (Hmid : low < mid < high) by (subst mid; lia).
    rewrite Hf by lia. cbn [bind].
    assert (Hk1 : (1 <= k)%nat).
    { destruct k; [|lia]. change (2 ^ (N.of_nat 1 - 1)) with 1 in Hd. lia. }
    assert (Hpow : 2 ^ (N.of_nat (S k) - 1) = 2 * 2 ^ (N.of_nat k - 1)).
    { replace (N.of_nat (S k) - 1) with (N.succ (N.of_nat k - 1)) by lia. apply N.pow_succ_r'. }
    rewrite Hpow in Hd.
    destruct (N.leb_spec (g mid) x) as [Hc|Hc].
    + destruct (IH mid high) as (i & Hi & H1 & H2 & H3); try lia.
      { intros i Hi. apply Hf. lia. }
      exists i. split; [assumption|]. split; [lia|]. split; [lia|].
      right. destruct H3 as [->|H3]; assumption.
    + destruct (IH low mid) as (i & Hi & H1 & H2 & H3); try lia.
      { intros i Hi. apply Hf. lia. }
      exists i. split; [assumption|]. split; [lia|]. split; [lia|]. assumption.
  - exists low. split; [reflexivity|]. split; [lia|]. split; [right; reflexivity|left; reflexivity].
Qed.

(* for a monotone key the LAST index of the range with key <= x is returned *)
Lemma block_for_last fuel m x f g low0 high0 : forall low high,
  (forall i, low0 <= i < high0 -> f i = Ok (g i)) ->
  (forall i j, low0 <= i -> i <= j -> j < high0 -> g i <= g j) ->
  low0 <= low -> low < high -> high <= high0 ->
  g low <= x -> (high = high0 \/ x < g high) ->
  high - low <= 2 ^ (N.of_nat fuel - 1) -> (1 <= fuel)%nat ->
  exists i, rl_block_for fuel m low high x f = Ok i /\ low <= i < high /\ g i <= x /\
            forall j, i < j -> j < high0 -> x < g j.
Proof.
  induction fuel as [|k IH]; intros low high Hf Hmono Hl0 Hlt Hh0 Hg Hup Hd Hk; [lia|].
  cbn [rl_block_for]. rewrite usub_ok by lia. cbn [bind].
  destruct (N.ltb_spec 1 (high - low)) as [Hgt|Hsmall].
  - set (mid := low + (high - low) / 2).
    assert (Hmid : low < mid < high) by (subst mid; lia).
    rewrite Hf by lia. cbn [bind].
    assert (Hk1 : (1 <= k)%nat).
    { destruct k; [|lia]. change (2 ^ (N.of_nat 1 - 1)) with 1 in Hd. lia. }
    assert (Hpow : 2 ^ (N.of_nat (S k) - 1) = 2 * 2 ^ (N.of_nat k - 1)).
    { replace (N.of_nat (S k) - 1) with (N.succ (N.of_nat k - 1)) by lia. apply N.pow_succ_r'. }
    rewrite Hpow in Hd.
    destruct (N.leb_spec (g mid) x) as [Hc|Hc].
    + destruct (IH mid high) as (i & Hi & H1 & H2 & H3); try assumption; try lia.
      exists i. split; [assumption|]. split; [lia|]. split; assumption.
    + destruct (IH low mid) as (i & Hi & H1 & H2 & H3); try assumption; try lia.
      exists i. split; [assumption|]. split; [lia|]. split; assumption.
  - exists low. split; [reflexivity|]. split; [lia|]. split; [assumption|].
    intros j Hj1 Hj2. assert (high <= j) by lia.
    destruct Hup as [->|Hup]; [lia|].
    assert (g high <= g j) by (apply Hmono; lia). lia.
Qed.
