(* The builder packs GREEDILY: RLBuilder::flush opens a new 64-unit block only when the code of the run does not fit
   into the room left in the last block. [rl_ok] (RLRep.v, C03) describes the blocks but not this choice; the file
   format (Spec/Format.v, C07) demands it ("If there is not enough space left for encoding the next (n0, n1), we pad
   the block ... and move to the next block"). This file carries the extra invariant [Gr] through the builder:
   the lemmas flush_spec / try_set_spec / build_runs / set_len_spec / rl_from_spec / rl_build_ok of RLBuild.v are
   repeated with [Gr BS] added to hypothesis and conclusion (same proof scripts, one more conjunct). *)
From Coq Require Import NArith List Lia ZArith Bool.
Require Import SDS.Model.Mach SDS.Model.Bits SDS.Model.Raw SDS.Model.IntVec SDS.Model.RL SDS.gen.Consts SDS.gen.Funs.
Require Import SDS.Spec.Runs.
Require Import SDS.Proofs.BitsProof SDS.Proofs.RLIntVec SDS.Proofs.RLVarint SDS.Proofs.RLIndex SDS.Proofs.RLRep
               SDS.Proofs.RunsLemmas SDS.Proofs.RLBuild.
Import ListNotations.
Open Scope N_scope.
Require Import ZifyBool ZifyN ZifyNat.
Ltac Zify.zify_post_hook ::= Z.div_mod_to_equations.
Arguments N.add : simpl never. Arguments N.sub : simpl never. Arguments N.mul : simpl never.
Arguments N.eqb : simpl never. Arguments N.ltb : simpl never. Arguments N.leb : simpl never.
Arguments N.pow : simpl never. Arguments N.shiftl : simpl never. Arguments N.shiftr : simpl never.
Arguments N.land : simpl never. Arguments N.lor : simpl never. Arguments N.div : simpl never.
Arguments N.modulo : simpl never. Arguments N.ones : simpl never. Arguments N.testbit : simpl never.

(* the first run of the next block did not fit into the block before it; [t] = position where the block starts *)
Definition next_too_long (t : N) (bl : list run) (rest : list (list run)) : Prop :=
  match rest with
  | (r2 :: _) :: _ =>
      64 < lenN (enc_runs t bl) + (lenN (enc (fst r2 - runs_end_from t bl)) + lenN (enc (snd r2 - 1)))
  | _ => True
  end.
Fixpoint Gr_from (t : N) (BS : list (list run)) : Prop :=
  match BS with
  | [] => True
  | bl :: rest => next_too_long t bl rest /\ Gr_from (runs_end_from t bl) rest
  end.
Definition Gr (BS : list (list run)) : Prop := Gr_from 0 BS.

Lemma Gr_from_snoc_new : forall BS0 t bl r,
  Gr_from t (BS0 ++ [bl]) ->
  64 < lenN (enc_runs (runs_end_from t (concat BS0)) bl) +
       (lenN (enc (fst r - runs_end_from (runs_end_from t (concat BS0)) bl)) + lenN (enc (snd r - 1))) ->
  Gr_from t ((BS0 ++ [bl]) ++ [[r]]).
Proof.
  induction BS0 as [|x BS0 IH]; intros t bl r HG Hlong.
  - cbn [app concat runs_end_from] in *. cbn [Gr_from next_too_long]. auto.
  - cbn [app] in *. cbn [Gr_from] in *. destruct HG as [Hn HG]. split.
    + destruct BS0 as [|y BS0']; cbn [app] in *; exact Hn.
    + apply IH; [exact HG|]. cbn [concat] in Hlong. rewrite runs_end_from_app in Hlong. exact Hlong.
Qed.

Lemma Gr_from_snoc_ext : forall BS0 t bl r,
  Gr_from t (BS0 ++ [bl]) -> bl <> [] -> Gr_from t (BS0 ++ [bl ++ [r]]).
Proof.
  induction BS0 as [|x BS0 IH]; intros t bl r HG Hne.
  - cbn [app Gr_from next_too_long]. auto.
  - cbn [app] in *. cbn [Gr_from] in *. destruct HG as [Hn HG]. split.
    + destruct BS0 as [|y BS0']; cbn [app] in *; [|exact Hn].
      destruct bl as [|r0 bl']; [congruence|]. cbn [app next_too_long] in *. exact Hn.
    + apply IH; assumption.
Qed.

Lemma Gr_snoc_new BS0 bl r :
  Gr (BS0 ++ [bl]) ->
  64 < lenN (enc_runs (runs_end_from 0 (concat BS0)) bl) +
       (lenN (enc (fst r - runs_end_from (runs_end_from 0 (concat BS0)) bl)) + lenN (enc (snd r - 1))) ->
  Gr ((BS0 ++ [bl]) ++ [[r]]).
Proof. apply Gr_from_snoc_new. Qed.
Lemma Gr_snoc_ext BS0 bl r : Gr (BS0 ++ [bl]) -> bl <> [] -> Gr (BS0 ++ [bl ++ [r]]).
Proof. apply Gr_from_snoc_ext. Qed.

(* ---- the lemmas of RLBuild.v with [Gr] ---- *)

Lemma flush_spec_g m b BS :
  SInv b BS -> PInv b BS -> Gr BS -> snd (b_run b) <> 0 ->
  exists b' BS', rlb_flush m b = Ok b' /\ Gr BS' /\ SInv b' BS' /\ concat BS' = concat BS ++ [b_run b] /\
    b_len b' = b_len b /\ b_ones b' = b_ones b /\ b_run b' = (b_len b, 0).
Proof.
  intros (Hne & Hu & Hok & Htail & Hsam & Hdata) (Hones & Hrun & Hlen & Htr & Hgap) HG Hr1.
  remember (rlb_flush m b) as E eqn:HE. unfold rlb_flush in HE.
  set (s := fst (b_run b)) in *. set (l := snd (b_run b)) in *.
  replace (l <=? 0) with false in HE by lia.
  rewrite usub_ok in HE by lia. cbn [bind] in HE. rewrite usub_ok in HE by lia. cbn [bind] in HE.
  rewrite !rl_code_len_spec in HE by lia. cbn [bind] in HE.
  set (u1 := enc (s - b_tail b)) in *. set (u2 := enc (l - 1)) in *.
  pose proof (enc_two_len (s - b_tail b) (l - 1)) as Hneed. fold u1 u2 in Hneed.
  change rl_BLOCK_SIZE with 64 in HE. unfold rlb_blocks in HE. rewrite Hsam, lenN_pair_samples, annot_lenN in HE.
  rewrite (iv_rep_ilen _ _ _ Hdata) in HE.
  assert (Hr_eq : b_run b = (s, l)) by (subst s l; destruct (b_run b); reflexivity).
  assert (Hrl : rones (concat BS) <= b_ones b /\ b_ones b - l = rones (concat BS)) by lia.
  assert (Hokr : runs_ok true 0 (concat BS ++ [(s, l)])).
  { apply runs_ok_app. split; [assumption|]. cbn [runs_ok fst snd]. rewrite <- Htail.
    destruct (concat BS) as [|r0 F0] eqn:EF.
    - repeat split; lia.
    - assert (b_tail b < s) by (apply Hgap; discriminate). repeat split; lia. }
  assert (Hend : s + l = runs_end_from 0 (concat BS ++ [(s, l)])).
  { rewrite runs_end_from_app. reflexivity. }
  destruct (list_snoc_case BS) as [->|(BS0 & bl & ->)].
  - (* no block yet *)
    unfold data_of in *. cbn [annot map layout concat rones runs_end_from] in *.
    match type of HE with context [?a <? ?c] => destruct (N.ltb_spec a c) as [Hnew|Hfit] end;
      [|exfalso; unfold lenN in *; cbn [length] in *; lia].
    rewrite (iv_resize_same _ _ _ _ Hdata) in HE by (unfold lenN; cbn [length]; lia). cbn [bind] in HE.
    rewrite usub_ok in HE by lia. cbn [bind] in HE.
    destruct (rl_encode_spec (b_data b) [] (s - b_tail b) Hdata) as (d1 & He1 & Hd1); [lia|].
    rewrite He1 in HE. cbn [bind] in HE.
    destruct (rl_encode_spec d1 _ (l - 1) Hd1) as (d2 & He2 & Hd2); [lia|].
    rewrite He2 in HE. cbn [bind] in HE. rewrite uadd_ok in HE by lia. cbn [bind] in HE.
    rewrite HE. eexists. exists [[(s, l)]]. split; [reflexivity|]. split; [unfold Gr; cbn [Gr_from]; auto|].
    split; [|cbn [concat app b_len b_ones b_run]; rewrite Hr_eq; repeat split; reflexivity].
    unfold SInv. cbn [b_len b_ones b_tail b_run b_samples b_data concat app annot].
    split; [constructor; [discriminate|constructor]|].
    split.
    { constructor; [|constructor]. unfold ab_units, ab_tail, ab_runs. cbn [fst snd enc_runs].
      rewrite app_nil_r, lenN_app. pose proof (enc_two_len (s - 0) (l - 1)). lia. }
    split; [exact Hokr|]. split; [exact Hend|].
    split.
    { unfold pair_samples. cbn [map app]. unfold ab_ones, ab_tail. cbn [fst snd].
      rewrite Htail. f_equal. f_equal. lia. }
    unfold data_of. cbn [annot map layout]. unfold ab_units, ab_tail, ab_runs. cbn [fst snd enc_runs].
    rewrite app_nil_r. cbn [app] in Hd2. rewrite Htail in Hd2. exact Hd2.
  - (* at least one block: the last one is bl *)
    rewrite (concat_snoc BS0 bl) in Hok, Htail, Hones, Hgap, Hokr, Hend, Hrl.
    rewrite (annot_snoc BS0 bl) in Hu, Hsam, HE.
    set (o0 := rones (concat BS0)) in *. set (t0 := runs_end_from 0 (concat BS0)) in *.
    apply Forall_app in Hu. destruct Hu as [Hu0 Hul]. pose proof (Forall_inv Hul) as Hulen.
    unfold ab_units, ab_tail, ab_runs in Hulen. cbn [fst snd] in Hulen.
    assert (Hus0 : Forall (fun x => lenN x <= 64) (map ab_units (annot 0 0 BS0))).
    { apply Forall_forall. intros x Hx. apply in_map_iff in Hx. destruct Hx as (y & <- & Hy).
      rewrite Forall_forall in Hu0. apply Hu0. assumption. }
    assert (Htl : b_tail b = runs_end_from t0 bl) by (rewrite Htail, runs_end_from_app; reflexivity).
    assert (HD : data_of (BS0 ++ [bl]) = layout (map ab_units (annot 0 0 BS0) ++ [enc_runs t0 bl])).
    { unfold data_of. rewrite annot_snoc, map_app. reflexivity. }
    rewrite HD in Hdata, HE.
    set (ul := enc_runs t0 bl) in *.
    rewrite layout_snoc_len in HE by assumption. rewrite lenN_map, annot_lenN in HE.
    rewrite lenN_app in HE. change (lenN [bl]) with 1 in HE.
    apply Forall_app in Hne. destruct Hne as [Hne0 Hnel].
    destruct (N.ltb_spec ((lenN BS0 + 1) * 64) (64 * lenN BS0 + lenN ul + (lenN u1 + lenN u2))) as [Hnew|Hfit].
    + (* new block *)
      destruct (iv_resize_grow _ _ _ ((lenN BS0 + 1) * 64) Hdata) as (dp & Hrs & Hdp).
      { rewrite layout_snoc_len by assumption. rewrite lenN_map, annot_lenN. lia. }
      rewrite Hrs in HE. cbn [bind] in HE. rewrite usub_ok in HE by lia. cbn [bind] in HE.
      destruct (rl_encode_spec dp _ (s - b_tail b) Hdp) as (d1 & He1 & Hd1); [lia|].
      rewrite He1 in HE. cbn [bind] in HE.
      destruct (rl_encode_spec d1 _ (l - 1) Hd1) as (d2 & He2 & Hd2); [lia|].
      rewrite He2 in HE. cbn [bind] in HE. rewrite uadd_ok in HE by lia. cbn [bind] in HE.
      rewrite HE. eexists. exists ((BS0 ++ [bl]) ++ [[(s, l)]]). split; [reflexivity|].
      split.
      { apply Gr_snoc_new; [exact HG|]. fold t0. fold ul. cbn [fst snd]. rewrite <- Htl. fold u1 u2. lia. }
      split; [|rewrite !concat_snoc; cbn [b_len b_ones b_run]; rewrite Hr_eq; repeat split; reflexivity].
      unfold SInv. cbn [b_len b_ones b_tail b_run b_samples b_data].
      rewrite (concat_snoc (BS0 ++ [bl])), (concat_snoc BS0 bl).
      rewrite (annot_snoc (BS0 ++ [bl])), (concat_snoc BS0 bl), (annot_snoc BS0 bl).
      fold o0 t0. rewrite rones_app, runs_end_from_app. fold t0. rewrite <- Htl.
      split.
      { apply Forall_app. split; [apply Forall_app; split; assumption|]. constructor; [discriminate|constructor]. }
      split.
      { apply Forall_app. split; [apply Forall_app; split; assumption|]. constructor; [|constructor].
        unfold ab_units, ab_tail, ab_runs. cbn [fst snd enc_runs]. rewrite app_nil_r, lenN_app.
        pose proof (enc_two_len (s - b_tail b) (l - 1)). lia. }
      split; [exact Hokr|]. split; [rewrite <- Hend; reflexivity|].
      split.
      { rewrite !pair_samples_app. f_equal. unfold pair_samples. cbn [map].
        unfold ab_ones, ab_tail. cbn [fst snd]. f_equal. f_equal. rewrite rones_app in Hrl. lia. }
      unfold data_of. rewrite (annot_snoc (BS0 ++ [bl])), (concat_snoc BS0 bl), (annot_snoc BS0 bl). fold o0 t0.
      rewrite (map_app ab_units (annot 0 0 BS0 ++ [(o0, t0, bl)])). cbn [map].
      rewrite layout_snoc_new.
      * rewrite map_app. cbn [map]. change (ab_units (o0, t0, bl)) with ul.
        rewrite runs_end_from_app. fold t0. rewrite <- Htl.
        change (ab_units (rones (concat BS0 ++ bl), b_tail b, [(s, l)])) with (enc (s - b_tail b) ++ enc (l - 1) ++ []).
        rewrite lenN_app, lenN_map, annot_lenN. change (lenN [ul]) with 1. rewrite app_nil_r.
        replace (64 * (lenN BS0 + 1)) with ((lenN BS0 + 1) * 64) by lia.
        rewrite <- ?app_assoc in Hd2. rewrite <- ?app_assoc. exact Hd2.
      * destruct (annot 0 0 BS0); discriminate.
      * rewrite map_app. apply Forall_app. split; [assumption|]. constructor; [|constructor].
        unfold ab_units, ab_tail, ab_runs. cbn [fst snd]. assumption.
    + (* the run fits into the last block *)
      replace ((lenN BS0 + 1) * 64 <? 64 * lenN BS0 + lenN ul + (lenN u1 + lenN u2)) with false in HE by lia.
      cbn [bind] in HE.
      destruct (rl_encode_spec (b_data b) _ (s - b_tail b) Hdata) as (d1 & He1 & Hd1); [lia|].
      rewrite He1 in HE. cbn [bind] in HE.
      destruct (rl_encode_spec d1 _ (l - 1) Hd1) as (d2 & He2 & Hd2); [lia|].
      rewrite He2 in HE. cbn [bind] in HE. rewrite uadd_ok in HE by lia. cbn [bind] in HE.
      rewrite HE. eexists. exists (BS0 ++ [bl ++ [(s, l)]]). split; [reflexivity|].
      split; [apply Gr_snoc_ext; [exact HG|exact (Forall_inv Hnel)]|].
      split; [|rewrite !concat_snoc, <- app_assoc; cbn [b_len b_ones b_run]; rewrite Hr_eq; repeat split; reflexivity].
      unfold SInv. cbn [b_len b_ones b_tail b_run b_samples b_data].
      rewrite (concat_snoc BS0), (annot_snoc BS0). fold o0 t0. rewrite app_assoc.
      assert (Hul' : enc_runs t0 (bl ++ [(s, l)]) = ul ++ u1 ++ u2).
      { rewrite enc_runs_app. cbn [enc_runs fst snd]. rewrite <- Htl. rewrite app_nil_r. reflexivity. }
      split.
      { apply Forall_app. split; [assumption|]. constructor; [|constructor]. destruct bl; discriminate. }
      split.
      { apply Forall_app. split; [assumption|]. constructor; [|constructor].
        unfold ab_units, ab_tail, ab_runs. cbn [fst snd]. rewrite Hul', !lenN_app. lia. }
      split; [exact Hokr|]. split; [rewrite <- Hend; reflexivity|].
      split.
      { rewrite !pair_samples_app. reflexivity. }
      unfold data_of. rewrite (annot_snoc BS0). fold o0 t0. rewrite map_app. cbn [map].
      unfold ab_units at 2. unfold ab_tail, ab_runs. cbn [fst snd]. rewrite Hul'.
      rewrite layout_snoc_ext. rewrite <- app_assoc in Hd2. exact Hd2.
Qed.

Lemma try_set_spec_g m b BS s l :
  SInv b BS -> PInv b BS -> Gr BS -> b_len b <= s -> 1 <= l -> s + l < 2 ^ 64 ->
  exists b' BS', rlb_try_set m b s l = Ok (b', true) /\ Gr BS' /\ SInv b' BS' /\ PInv b' BS' /\
    snd (b_run b') <> 0 /\ b_len b' = s + l /\
    (if snd (b_run b) =? 0 then BS' = BS /\ b_run b' = (s, l)
     else if s =? b_len b then BS' = BS /\ b_run b' = (fst (b_run b), snd (b_run b) + l)
     else concat BS' = concat BS ++ [b_run b] /\ b_run b' = (s, l)).
Proof.
  intros HS HP HG Hs Hl Hfit. pose proof (ones_le_len b BS HS HP) as Hol.
  destruct HP as (Hones & Hrun & Hlen & Htr & Hgap).
  unfold rlb_try_set. replace (s <? b_len b) with false by lia.
  rewrite usub_ok by (unfold MAXU; lia). cbn [bind].
  replace (MAXU - l <? s) with false by (unfold MAXU; lia).
  unfold rlb_set_run_unchecked. replace (l <=? 0) with false by lia.
  destruct (N.eqb_spec s (b_len b)) as [Heq|Hneq].
  - (* extend the pending run *)
    rewrite !uadd_ok by lia. cbn [bind].
    eexists. exists BS. split; [reflexivity|]. split; [exact HG|].
    split; [exact HS|]. destruct HS as (_ & _ & _ & Htail & _).
    split; [unfold PInv; cbn [b_len b_ones b_tail b_run fst snd]; repeat split; try lia; assumption|].
    cbn [b_len b_run fst snd]. split; [lia|]. split; [lia|].
    destruct (N.eqb_spec (snd (b_run b)) 0) as [Hz|Hnz].
    + split; [reflexivity|]. f_equal; lia.
    + split; reflexivity.
  - (* flush, then a new pending run *)
    destruct (N.eqb_spec (snd (b_run b)) 0) as [Hz|Hnz].
    + rewrite flush_noop by assumption. cbn [bind]. rewrite !uadd_ok by lia. cbn [bind].
      eexists. exists BS. split; [reflexivity|]. split; [exact HG|].
      destruct HS as (H1 & H2 & H3 & Htail & H5 & H6).
      split; [unfold SInv; cbn [b_tail b_samples b_data]; exact (conj H1 (conj H2 (conj H3 (conj Htail (conj H5 H6)))))|].
      split.
      { unfold PInv. cbn [b_len b_ones b_tail b_run fst snd]. repeat split; lia. }
      cbn [b_len b_run fst snd]. split; [lia|]. split; [reflexivity|]. split; reflexivity.
    + destruct (flush_spec_g m b BS HS (conj Hones (conj Hrun (conj Hlen (conj Htr Hgap)))) HG Hnz)
        as (b1 & BS1 & Hf & HG1 & HS1 & Hc & Hl1 & Ho1 & Hr1).
      rewrite Hf. cbn [bind]. rewrite Ho1. rewrite !uadd_ok by lia. cbn [bind].
      eexists. exists BS1. split; [reflexivity|]. split; [exact HG1|].
      destruct HS1 as (H1 & H2 & H3 & Htail1 & H5 & H6).
      split; [unfold SInv; cbn [b_tail b_samples b_data]; exact (conj H1 (conj H2 (conj H3 (conj Htail1 (conj H5 H6)))))|].
      assert (Ht1 : b_tail b1 = b_len b).
      { rewrite Htail1, Hc, runs_end_from_app. cbn [runs_end_from]. exact Hrun. }
      split.
      { unfold PInv. cbn [b_len b_ones b_tail b_run fst snd]. rewrite Hc, rones_app. cbn [rones].
        repeat split; lia. }
      cbn [b_len b_run fst snd]. split; [lia|]. split; [reflexivity|]. split; [exact Hc|reflexivity].
Qed.

Lemma build_runs_g m : forall rest b BS,
  SInv b BS -> PInv b BS -> Gr BS -> snd (b_run b) <> 0 ->
  runs_srt (b_len b) rest -> runs_end_from (b_len b) rest < 2 ^ 64 ->
  exists b' BS', rlb_run m b (try_ops rest) = Ok (b', all_true rest) /\ Gr BS' /\ SInv b' BS' /\ PInv b' BS' /\
    snd (b_run b') <> 0 /\
    concat BS' ++ [b_run b'] = concat BS ++ maximal_from (b_run b) rest /\
    b_len b' = runs_end_from (b_len b) rest.
Proof.
  induction rest as [|[s l] rest IH]; intros b BS HS HP HG Hp Hsrt Hend.
  - cbn [try_ops map rlb_run all_true maximal_from runs_end_from]. exists b, BS.
    split; [reflexivity|]. split; [assumption|]. split; [assumption|]. split; [assumption|]. split; [assumption|]. split; reflexivity.
  - cbn [runs_srt fst snd] in Hsrt. destruct Hsrt as (Hs & Hl & Hsrt). cbn [runs_end_from fst snd] in Hend.
    pose proof (runs_srt_end _ _ Hsrt) as Hge.
    destruct (try_set_spec_g m b BS s l HS HP HG Hs Hl ltac:(lia)) as (b1 & BS1 & Ht & HG1 & HS1 & HP1 & Hp1 & Hl1 & Hcase).
    replace (snd (b_run b) =? 0) with false in Hcase by lia.
    cbn [try_ops map rlb_run fst snd]. rewrite Ht. cbn [bind].
    rewrite <- Hl1 in Hsrt, Hend.
    destruct (IH b1 BS1 HS1 HP1 HG1 Hp1 Hsrt Hend) as (b2 & BS2 & Hr & HG2 & HS2 & HP2 & Hp2 & Hc2 & Hl2).
    fold (try_ops rest). rewrite Hr. cbn [bind].
    exists b2, BS2. split; [reflexivity|]. split; [assumption|]. split; [assumption|]. split; [assumption|]. split; [assumption|].
    split; [|rewrite Hl2, Hl1; reflexivity].
    rewrite Hc2. cbn [maximal_from].
    destruct HP as (_ & Hrun & _).
    destruct (N.eqb_spec s (b_len b)) as [Heq|Hneq].
    + destruct Hcase as [-> ->]. replace (fst (b_run b) + snd (b_run b) =? s) with true by lia. reflexivity.
    + destruct Hcase as [Hc ->]. replace (fst (b_run b) + snd (b_run b) =? s) with false by lia.
      rewrite Hc, <- app_assoc. reflexivity.
Qed.

Lemma set_len_spec_g m b BS L :
  SInv b BS -> PInv b BS -> Gr BS -> b_len b <= L -> L < 2 ^ 64 ->
  exists b' BS', rlb_set_len m b L = Ok b' /\ Gr BS' /\ SInv b' BS' /\ PInv b' BS' /\ b_len b' = L /\
    concat BS' ++ (if snd (b_run b') =? 0 then [] else [b_run b']) =
    concat BS ++ (if snd (b_run b) =? 0 then [] else [b_run b]).
Proof.
  intros HS HP HG HL HL64. pose proof HP as (Hones & Hrun & Hlen & Htr & Hgap).
  unfold rlb_set_len. destruct (N.ltb_spec (b_len b) L) as [Hlt|Hge].
  - destruct (N.eqb_spec (snd (b_run b)) 0) as [Hz|Hnz].
    + rewrite flush_noop by assumption. cbn [bind]. eexists. exists BS. split; [reflexivity|]. split; [exact HG|].
      destruct HS as (H1 & H2 & H3 & Htail & H5 & H6).
      split; [unfold SInv; cbn [b_tail b_samples b_data]; exact (conj H1 (conj H2 (conj H3 (conj Htail (conj H5 H6)))))|].
      split; [unfold PInv; cbn [b_len b_ones b_tail b_run fst snd]; repeat split; lia|].
      cbn [b_len b_run snd]. split; [reflexivity|]. reflexivity.
    + destruct (flush_spec_g m b BS HS HP HG Hnz) as (b1 & BS1 & Hf & HG1 & HS1 & Hc & Hl1 & Ho1 & Hr1).
      rewrite Hf. cbn [bind]. eexists. exists BS1. split; [reflexivity|]. split; [exact HG1|].
      destruct HS1 as (H1 & H2 & H3 & Htail1 & H5 & H6).
      split; [unfold SInv; cbn [b_tail b_samples b_data]; exact (conj H1 (conj H2 (conj H3 (conj Htail1 (conj H5 H6)))))|].
      assert (Ht1 : b_tail b1 = b_len b).
      { rewrite Htail1, Hc, runs_end_from_app. cbn [runs_end_from]. exact Hrun. }
      split.
      { unfold PInv. cbn [b_len b_ones b_tail b_run fst snd]. rewrite Ho1, Hones, Hc, rones_app. cbn [rones].
        repeat split; lia. }
      cbn [b_len b_run snd]. split; [reflexivity|]. change (0 =? 0) with true. cbn iota.
      rewrite app_nil_r. exact Hc.
  - exists b, BS. split; [reflexivity|]. split; [assumption|]. split; [assumption|]. split; [assumption|]. split; [lia|reflexivity].
Qed.

(* ---- the width of the packed samples ---- *)

Ltac inv_bind H :=
  match type of H with
  | bind ?e _ = Ok _ => let E := fresh "E" in destruct e eqn:E; cbn [bind] in H; [|discriminate H|discriminate H]
  end.

Lemma iv_push_width v x v' : iv_push v x = Ok v' -> iwidth v' = iwidth v.
Proof. unfold iv_push. intros H. inv_bind H. inversion H; subst. reflexivity. Qed.

Lemma push_samples_width : forall l v v', push_samples v l = Ok v' -> iwidth v' = iwidth v.
Proof.
  induction l as [|[o t] l IH]; intros v v' H; cbn [push_samples] in H; [inversion H; subst; reflexivity|].
  inv_bind H. inv_bind H. rewrite (IH _ _ H), (iv_push_width _ _ _ E0), (iv_push_width _ _ _ E). reflexivity.
Qed.

(* `IntVector::with_capacity(2 * blocks, bit_len(max_value))`: the width From chooses, read off the definition *)
Lemma rl_from_width m b v : snd (b_run b) = 0 -> rl_from m b = Ok v ->
  iwidth (rl_samples v) = bit_len (snd (last (b_samples b) (0, 0))).
Proof.
  intros H0 H. unfold rl_from in H. rewrite (flush_noop m b H0) in H. cbn [bind] in H.
  inv_bind H. inv_bind H. inv_bind H. inv_bind H. inv_bind H. inversion H; subst. cbn [rl_samples].
  rewrite (push_samples_width _ _ _ E3).
  unfold iv_with_capacity in E2. destruct (width_ok (bit_len (snd (last (b_samples b) (0, 0))))); [|discriminate].
  cbn [unwrap_opt] in E2. inversion E2; subst. reflexivity.
Qed.

Definition samples_width (v : rlvec) (BS : list (list run)) : Prop :=
  iwidth (rl_samples v) = bit_len (last (map ab_tail (annot 0 0 BS)) 0).

Lemma rl_from_flushed_w m b BS L :
  SInv b BS -> snd (b_run b) = 0 -> b_ones b = rones (concat BS) -> b_len b = L ->
  b_tail b <= L -> L < 2 ^ 64 -> lenN (concat BS) < 2 ^ 56 ->
  exists v, rl_from m b = Ok v /\ rl_ok v BS L /\ samples_width v BS.
Proof.
  intros HS Hr0 Hones HlenL HtL HL Hcnt.
  destruct (rl_from_flushed m b BS L HS Hr0 Hones HlenL HtL HL Hcnt) as (v & Hv & Hok).
  exists v. split; [exact Hv|]. split; [exact Hok|].
  unfold samples_width. rewrite (rl_from_width m b v Hr0 Hv).
  destruct HS as (_ & _ & _ & _ & Hsam & _). rewrite Hsam.
  exact (f_equal bit_len (last_pair_samples (annot 0 0 BS) (0, 0, []))).
Qed.

Lemma rl_from_spec_g m b BS L :
  SInv b BS -> PInv b BS -> Gr BS -> b_len b = L ->
  lenN (concat BS ++ (if snd (b_run b) =? 0 then [] else [b_run b])) < 2 ^ 56 ->
  exists v BS', rl_from m b = Ok v /\ rl_ok v BS' L /\ Gr BS' /\ samples_width v BS' /\
    concat BS' = concat BS ++ (if snd (b_run b) =? 0 then [] else [b_run b]).
Proof.
  intros HS HP HG HL Hcnt. pose proof HP as (Hones & Hrun & Hlen & Htr & Hgap).
  destruct (N.eqb_spec (snd (b_run b)) 0) as [Hz|Hnz].
  - rewrite app_nil_r in Hcnt. destruct (rl_from_flushed_w m b BS L HS Hz) as (v & Hv & Hok & Hw); try lia.
    exists v, BS. rewrite app_nil_r. auto.
  - destruct (flush_spec_g m b BS HS HP HG Hnz) as (b1 & BS1 & Hf & HG1 & HS1 & Hc & Hl1 & Ho1 & Hr1).
    rewrite (rl_from_after_flush m b b1 Hf) by (rewrite Hr1; reflexivity).
    pose proof HS1 as (_ & _ & _ & Htail1 & _).
    destruct (rl_from_flushed_w m b1 BS1 L HS1) as (v & Hv & Hok & Hw); try lia.
    + rewrite Hr1. reflexivity.
    + rewrite Ho1, Hones, Hc, rones_app. cbn [rones]. lia.
    + rewrite Htail1, Hc, runs_end_from_app. cbn [runs_end_from]. lia.
    + rewrite Hc. exact Hcnt.
    + exists v, BS1. auto.
Qed.

Theorem rl_build_g m R L :
  runs_srt 0 R -> runs_end_from 0 R <= L -> L < 2 ^ 64 -> lenN R < 2 ^ 56 ->
  exists v BS, rl_build m (build_ops R L) = Ok (v, all_true R ++ [true]) /\ rl_ok v BS L /\ Gr BS /\
               samples_width v BS /\ concat BS = maximal R.
Proof.
  intros Hsrt Hend HL Hcnt. unfold rl_build, rlb_new, build_ops.
  destruct (iv_rep_new 4 ltac:(lia)) as (Hnew & _). change rl_CODE_SIZE with 4. rewrite Hnew.
  cbn [unwrap_opt bind]. rewrite rlb_run_app.
  set (b0 := mkrlb 0 0 0 (0, 0) [] (mkiv 0 4 raw_new)).
  assert (HG0 : Gr []) by exact I.
  assert (Hmid : exists b1 BS1, rlb_run m b0 (try_ops R) = Ok (b1, all_true R) /\ Gr BS1 /\ SInv b1 BS1 /\ PInv b1 BS1 /\
            b_len b1 = runs_end_from 0 R /\
            concat BS1 ++ (if snd (b_run b1) =? 0 then [] else [b_run b1]) = maximal R).
  { destruct R as [|[s l] rest].
    - exists b0, []. cbn [try_ops map rlb_run all_true]. split; [reflexivity|]. split; [exact HG0|].
      split; [apply SInv_init|]. split; [apply PInv_init|]. split; reflexivity.
    - cbn [runs_srt fst snd] in Hsrt. destruct Hsrt as (Hs & Hl & Hsrt). cbn [runs_end_from fst snd] in Hend.
      pose proof (runs_srt_end _ _ Hsrt) as Hge.
      destruct (try_set_spec_g m b0 [] s l SInv_init PInv_init HG0) as (b1 & BS1 & Ht & HG1 & HS1 & HP1 & Hp1 & Hl1 & Hcase);
        [cbn [b_len b0]; lia|lia|lia|].
      cbn [b_run b0 snd] in Hcase. change (0 =? 0) with true in Hcase. cbn iota in Hcase.
      destruct Hcase as [-> Hr1].
      rewrite <- Hl1 in Hsrt.
      destruct (build_runs_g m rest b1 [] HS1 HP1 HG1 Hp1 Hsrt) as (b2 & BS2 & Hr & HG2 & HS2 & HP2 & Hp2 & Hc2 & Hl2); [rewrite Hl1; lia|].
      exists b2, BS2. cbn [try_ops map rlb_run fst snd]. rewrite Ht. cbn [bind].
      fold (try_ops rest). rewrite Hr. cbn [bind].
      split; [reflexivity|]. split; [assumption|]. split; [assumption|]. split; [assumption|].
      split; [rewrite Hl2, Hl1; reflexivity|].
      replace (snd (b_run b2) =? 0) with false by lia. rewrite Hc2, Hr1. reflexivity. }
  destruct Hmid as (b1 & BS1 & Hrun1 & HG1 & HS1 & HP1 & Hl1 & Hc1). rewrite Hrun1. cbn [bind].
  destruct (set_len_spec_g m b1 BS1 L HS1 HP1 HG1 ltac:(lia) HL) as (b2 & BS2 & Hsl & HG2 & HS2 & HP2 & Hl2 & Hc2).
  cbn [rlb_run]. rewrite Hsl. cbn [bind].
  assert (Hmax : lenN (maximal R) <= lenN R).
  { destruct R as [|r rest]; [cbn [maximal]; lia|]. cbn [maximal]. rewrite lenN_cons. apply maximal_from_len. }
  destruct (rl_from_spec_g m b2 BS2 L HS2 HP2 HG2 Hl2) as (v & BS3 & Hv & Hok & HG3 & Hw3 & Hc3).
  { rewrite Hc2, Hc1. lia. }
  rewrite Hv. cbn [bind]. exists v, BS3. split; [reflexivity|]. split; [assumption|]. split; [assumption|].
  split; [assumption|]. rewrite Hc3, Hc2, Hc1. reflexivity.
Qed.
