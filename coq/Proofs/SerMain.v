(* The statements of C06 / C14 / C19 in their final form, assembled from SerProof / SerTypes / SerSupports.
   Props/C06.v, C14.v, C19.v restate them and close each with [exact]. *)
From Coq Require Import NArith List Lia ZArith Bool.
Require Import SDS.Model.Mach SDS.Model.Bits SDS.Model.Raw SDS.Model.IntVec SDS.Model.BitVec SDS.Model.Ser.
Require Import SDS.gen.Consts SDS.Spec.Stream SDS.Proofs.BitsProof.
Require Import SDS.Proofs.SerProof SDS.Proofs.SerTypes SDS.Proofs.SerSupports.
Import ListNotations.
Open Scope list_scope.
Open Scope N_scope.
Require Import ZifyBool ZifyN ZifyNat.
Ltac Zify.zify_post_hook ::= Z.div_mod_to_equations.
Arguments N.add : simpl never. Arguments N.sub : simpl never. Arguments N.mul : simpl never.
Arguments N.div : simpl never. Arguments N.modulo : simpl never. Arguments N.pow : simpl never.
Arguments N.leb : simpl never. Arguments N.ltb : simpl never. Arguments N.eqb : simpl never.

(* round trip + exact size + exactly the serialization is consumed (whatever follows is left in the reader) *)
Definition roundtrip {A} (c : codec A) (x : A) : Prop :=
  (forall rest, c_dec c (c_enc c x ++ rest) = IoOk (x, rest)) /\ lenN (c_enc c x) = 8 * c_size c x.

(* every strict prefix of the serialization is an I/O error: not a value, not a panic *)
Definition truncation_safe {A} (c : codec A) (x : A) : Prop :=
  forall k, (k < length (c_enc c x))%nat -> exists e, c_dec c (firstn k (c_enc c x)) = IoErr e.

Lemma ok_roundtrip {A} (c : codec A) x : codec_ok c -> c_wf c x -> roundtrip c x.
Proof. intros Hc W. split; [intros rest; now apply (ok_rt c Hc)|now apply (ok_size c Hc)]. Qed.

Lemma ok_truncation {A} (c : codec A) x : codec_ok c -> c_wf c x -> truncation_safe c x.
Proof. intros Hc W. exact (ok_prefix c Hc x W). Qed.

(* ------------------------------------------------------------------ C06 *)

Lemma rt_u64 x : x < 2 ^ 64 -> roundtrip u64_codec x.
Proof. intros. apply ok_roundtrip; [exact u64_codec_ok|assumption]. Qed.
Lemma rt_usize x : x < 2 ^ 64 -> roundtrip usize_codec x.
Proof. exact (rt_u64 x). Qed.
Lemma rt_pair a b : a < 2 ^ 64 -> b < 2 ^ 64 -> roundtrip pair_codec (a, b).
Proof. intros. apply ok_roundtrip; [exact pair_codec_ok|split; assumption]. Qed.
Lemma rt_vec_u64 l : Forall (fun x => x < 2 ^ 64) l -> lenN l * 8 < 2 ^ 63 -> roundtrip vec_u64_codec l.
Proof.
  intros Hl Hn. apply ok_roundtrip; [exact vec_u64_codec_ok|]. split; [exact Hl|].
  unfold ISIZE_MAX. change bits_WORD_BYTES with 8. lia.
Qed.
Lemma rt_vec_pair l : Forall (fun p => fst p < 2 ^ 64 /\ snd p < 2 ^ 64) l -> lenN l * 16 < 2 ^ 63 -> roundtrip vec_pair_codec l.
Proof.
  intros Hl Hn. apply ok_roundtrip; [exact vec_pair_codec_ok|]. split; [exact Hl|].
  unfold ISIZE_MAX. change bits_WORD_BYTES with 8. lia.
Qed.
Lemma rt_bytes m l : Forall (fun b => b < 256) l -> lenN l < 2 ^ 63 -> roundtrip (bytes_codec m) l.
Proof.
  intros Hl Hn. apply ok_roundtrip; [exact (bytes_codec_ok m)|]. split; [exact Hl|]. unfold ISIZE_MAX. lia.
Qed.
Lemma rt_string m l : Forall (fun b => b < 256) l -> lenN l < 2 ^ 63 -> utf8_valid l = true -> roundtrip (string_codec m) l.
Proof.
  intros Hl Hn Hu. apply ok_roundtrip; [exact (string_codec_ok m)|]. split; [|exact Hu]. split; [exact Hl|].
  unfold ISIZE_MAX. lia.
Qed.
Lemma rt_option {A} (c : codec A) o : codec_ok c ->
  match o with None => True | Some x => c_wf c x /\ 0 < c_size c x < 2 ^ 61 end -> roundtrip (option_codec c) o.
Proof. intros Hc W. apply ok_roundtrip; [now apply option_codec_ok|exact W]. Qed.
Lemma rt_raw m r : raw_ok r -> roundtrip (raw_codec m) r.
Proof. intros. apply ok_roundtrip; [exact (raw_codec_ok m)|assumption]. Qed.
Lemma rt_iv m v : iv_ok v -> roundtrip (iv_codec m) v.
Proof. intros. apply ok_roundtrip; [exact (iv_codec_ok m)|assumption]. Qed.
Lemma rt_rs r : rs_ok r -> roundtrip rs_codec r.
Proof. intros. apply ok_roundtrip; [exact rs_codec_ok|assumption]. Qed.
Lemma rt_ss m s : ss_ok s -> roundtrip (ss_codec m) s.
Proof. intros. apply ok_roundtrip; [exact (ss_codec_ok m)|assumption]. Qed.
Lemma rt_bv m b : bv_ok b -> roundtrip (bv_codec m) b.
Proof. intros. apply ok_roundtrip; [exact (bv_codec_ok m)|assumption]. Qed.
Lemma rt_universe m t x : c_wf (codec_of m t) x -> roundtrip (codec_of m t) x.
Proof. intros. apply ok_roundtrip; [exact (codec_of_ok m t)|assumption]. Qed.

(* the sizes, written out *)
Lemma size_formulas m :
  (forall x, c_size u64_codec x = 1) /\ (forall p, c_size pair_codec p = 2) /\
  (forall l, c_size vec_u64_codec l = 1 + lenN l) /\ (forall l, c_size vec_pair_codec l = 1 + lenN l * 2) /\
  (forall l, c_size (bytes_codec m) l = 1 + (lenN l + 7) / 8) /\ (forall l, c_size (string_codec m) l = 1 + (lenN l + 7) / 8) /\
  (forall A (c : codec A) o, c_size (option_codec c) o = match o with None => 1 | Some x => 1 + c_size c x end) /\
  (forall r, c_size (raw_codec m) r = 2 + lenN (rdata r)) /\
  (forall v, c_size (iv_codec m) v = 4 + lenN (rdata (idata v))) /\
  (forall r, c_size rs_codec r = 1 + lenN (rs_samples r) * 2) /\
  (forall s, c_size (ss_codec m) s = c_size (iv_codec m) (ss_samples s) + c_size (iv_codec m) (ss_long s) + c_size (iv_codec m) (ss_short s)) /\
  (forall b, c_size (bv_codec m) b = 1 + c_size (raw_codec m) (bv_data b) + c_size (option_codec rs_codec) (bv_rank b)
                                     + c_size (option_codec (ss_codec m)) (bv_select b)
                                     + c_size (option_codec (ss_codec m)) (bv_select_zero b)).
Proof.
  repeat split; intros; try reflexivity.
  - cbn. lia.
  - apply raw_size.
  - apply iv_size.
  - cbn. lia.
Qed.

Lemma concat_roundtrip (l : list tval) rest :
  Forall tval_ok l ->
  dec_all l (enc_all l ++ rest) = IoOk (l, rest) /\
  lenN (enc_all l) = 8 * fold_right (fun t acc => match t with TV _ c x => c_size c x end + acc) 0 l.
Proof. intros H. split; [now apply dec_all_app|now apply enc_all_size]. Qed.

Lemma size_by_params_ok m :
  (forall r, raw_ok r -> raw_size_by_params (rlen r) = c_size (raw_codec m) r) /\
  (forall v, iv_ok v -> iv_size_by_params (ilen v) (iwidth v) = c_size (iv_codec m) v).
Proof. split; intros; [now apply raw_size_by_params_ok|now apply iv_size_by_params_ok]. Qed.

(* ------------------------------------------------------------------ C14 *)

Lemma sink_budget (chunks : list (list byte)) (room : N) (err : ekind) :
  room < lenN (concat chunks) ->
  write_seq chunks (mksink [] room err) = (mksink (firstn (N.to_nat room) (concat chunks)) 0 err, IoErr err).
Proof. intros H. now rewrite write_seq_short. Qed.

Lemma sink_fits (chunks : list (list byte)) (room : N) (err : ekind) :
  lenN (concat chunks) <= room ->
  write_seq chunks (mksink [] room err) = (mksink (concat chunks) (room - lenN (concat chunks)) err, IoOk tt).
Proof. intros H. now rewrite write_seq_fits. Qed.

(* ------------------------------------------------------------------ C19 *)

Lemma supports_roundtrip sp m b0 bf s rest :
  no_supports b0 -> bv_enable_all sp m b0 = Ok bf -> bv_ok bf -> s < 8 ->
  c_dec (bv_codec m) (c_enc (bv_codec m) (bv_restrict s bf) ++ rest) = IoOk (bv_restrict s bf, rest) /\
  bv_supports (bv_restrict s bf) = s.
Proof.
  intros H0 E W Hs. destruct (enable_all_full sp m b0 bf H0 E) as [Hf _].
  split; [|now apply (restrict_sub sp m s bf Hf)].
  apply (ok_rt _ (bv_codec_ok m)). now apply restrict_ok.
Qed.

Lemma supports_rebuild sp m b0 bf s ops :
  no_supports b0 -> bv_enable_all sp m b0 = Ok bf -> s < 8 -> Forall (fun op => op < 3) ops ->
  exists b', bv_enable_ops sp m ops (bv_restrict s bf) = Ok b' /\
             bv_supports b' = ops_flags ops s /\ same_core b' bf /\
             (ops_flags ops s = 7 -> b' = bf).
Proof.
  intros H0 E Hs Hops. destruct (enable_all_full sp m b0 bf H0 E) as [Hf _].
  destruct (restrict_sub sp m s bf Hf Hs) as [Sub F].
  destruct (enable_ops_sub sp m ops _ bf Hf Sub Hops) as [b' [E' [S' F']]].
  exists b'. rewrite F in F'. repeat split; auto; try apply S'.
  intros H7. apply (sub_of_full sp m b' bf Hf S'). congruence.
Qed.

(* a round trip in the middle of the enabling changes nothing (needs the loader's checks to pass) *)
Lemma supports_roundtrip_sub sp m b0 bf b rest :
  no_supports b0 -> bv_enable_all sp m b0 = Ok bf -> bv_ok bf -> sub_of b bf ->
  c_dec (bv_codec m) (c_enc (bv_codec m) b ++ rest) = IoOk (b, rest).
Proof. intros H0 E W S. apply (ok_rt _ (bv_codec_ok m)). now apply (sub_ok b bf). Qed.

Lemma enable_commute sp m b0 bf b op1 op2 :
  no_supports b0 -> bv_enable_all sp m b0 = Ok bf -> sub_of b bf -> op1 < 3 -> op2 < 3 ->
  exists b', bv_enable_ops sp m [op1; op2] b = Ok b' /\ bv_enable_ops sp m [op2; op1] b = Ok b'.
Proof.
  intros H0 E S H1 H2. destruct (enable_all_full sp m b0 bf H0 E) as [Hf _].
  destruct (enable_ops_sub sp m [op1; op2] b bf Hf S) as [x [Ex [Sx Fx]]]; [repeat constructor; assumption|].
  destruct (enable_ops_sub sp m [op2; op1] b bf Hf S) as [y [Ey [Sy Fy]]]; [repeat constructor; assumption|].
  exists x. split; [exact Ex|]. rewrite Ey. f_equal. apply (sub_of_eq y x bf Sy Sx).
  rewrite Fx, Fy. unfold ops_flags. cbn [fold_left]. rewrite <- !N.lor_assoc. f_equal. apply N.lor_comm.
Qed.

(* answers: bits always; rank / select / select_zero whenever the vector has the support *)
Lemma answers_neutral sp m b bf :
  sub_of b bf ->
  bv_len b = bv_len bf /\ bv_count_ones b = bv_count_ones bf /\
  (forall i, bv_get b i = bv_get bf i) /\
  (bv_rank b <> None -> forall i, bv_rank_q b i = bv_rank_q bf i) /\
  (bv_select b <> None -> forall r, bv_select_t sp m Identity b r = bv_select_t sp m Identity bf r) /\
  (bv_select_zero b <> None -> forall r, bv_select_t sp m Complement b r = bv_select_t sp m Complement bf r).
Proof.
  intros [C [R [S Z]]]. split; [apply (core_len b bf C)|]. split; [apply C|].
  split; [intros i; apply (core_get b bf C)|].
  split; [|split].
  - intros Hn i. apply (core_rank_q b bf C). destruct R; congruence.
  - intros Hn r. apply (core_select_q b bf C). cbn [t_support]. destruct S; congruence.
  - intros Hn r. apply (core_select_q b bf C). cbn [t_support]. destruct Z; congruence.
Qed.

Lemma builders_read_bits_only sp m b b' :
  bv_ones b = bv_ones b' -> bv_data b = bv_data b' ->
  rank_new b = rank_new b' /\ (forall t, select_new sp m t b = select_new sp m t b').
Proof.
  intros Ho Hd. assert (C : same_core b b') by (split; assumption).
  split; [apply (core_rank_new b b' C)|intros t; apply (core_select_new b b' C)].
Qed.

(* each enable_* writes only its own field *)
Lemma enable_writes_own_field sp m op b b' :
  op < 3 -> bv_enable_op sp m op b = Ok b' ->
  bv_ones b' = bv_ones b /\ bv_data b' = bv_data b /\
  (op <> 0 -> bv_rank b' = bv_rank b) /\ (op <> 1 -> bv_select b' = bv_select b) /\
  (op <> 2 -> bv_select_zero b' = bv_select_zero b).
Proof.
  intros Hop E. assert (Cs : op = 0 \/ op = 1 \/ op = 2) by lia.
  unfold bv_enable_op, bv_enable_rank, bv_enable_select_t in E.
  destruct Cs as [->|[->| ->]]; cbn [N.eqb Pos.eqb t_support] in E.
  - change (0 =? 0) with true in E. cbv iota in E.
    destruct (bv_rank b) eqn:Eb; [injection E as <-; rewrite ?Eb; repeat split; reflexivity|].
    destruct (rank_new b); cbn [bind] in E; try discriminate. injection E as <-.
    cbn [bv_ones bv_data bv_rank bv_select bv_select_zero]. repeat split; try reflexivity. intros X. now elim X.
  - change (1 =? 0) with false in E. change (1 =? 1) with true in E. cbv iota in E.
    destruct (bv_select b) eqn:Eb; [injection E as <-; rewrite ?Eb; repeat split; reflexivity|].
    destruct (select_new sp m Identity b); cbn [bind] in E; try discriminate. injection E as <-.
    cbn [bv_ones bv_data bv_rank bv_select bv_select_zero]. repeat split; try reflexivity. intros X. now elim X.
  - change (2 =? 0) with false in E. change (2 =? 1) with false in E. cbv iota in E.
    destruct (bv_select_zero b) eqn:Eb; [injection E as <-; rewrite ?Eb; repeat split; reflexivity|].
    destruct (select_new sp m Complement b); cbn [bind] in E; try discriminate. injection E as <-.
    cbn [bv_ones bv_data bv_rank bv_select bv_select_zero]. repeat split; try reflexivity. intros X. now elim X.
Qed.
