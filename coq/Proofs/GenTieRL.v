(* Tie lemmas, src/rl_vector.rs and src/rl_vector/index.rs: the definitions translated from the CURRENT source
   (gen/Funs2.v) are the functions the model of Model/RL.v uses, for every argument and both build modes. *)
From Coq Require Import NArith List Lia ZArith Bool.
Require Import ZifyBool ZifyN ZifyNat.
Ltac Zify.zify_post_hook ::= Z.div_mod_to_equations.
Arguments N.add : simpl never.
Arguments N.sub : simpl never.
Arguments N.mul : simpl never.
Arguments N.div : simpl never.
Arguments N.modulo : simpl never.
Arguments N.pow : simpl never.
Arguments N.eqb : simpl never.
Arguments N.ltb : simpl never.
Arguments N.leb : simpl never.
Arguments N.shiftl : simpl never.
Arguments N.shiftr : simpl never.
Arguments N.land : simpl never.
Arguments N.lor : simpl never.
Open Scope N_scope.

Require Import SDS.Model.Mach SDS.Model.Bits SDS.Model.IntVec SDS.Model.RL.
Require Import SDS.gen.Consts SDS.gen.Funs SDS.gen.Funs2 SDS.Proofs.GenTieBits.

(* RLBuilder::code_len(value) = div_round_up(bit_len(value), CODE_SHIFT) *)
Theorem tie_rl_code_len : forall m v, f2_rl_code_len m v = rl_code_len m v.
Proof. intros m v. unfold f2_rl_code_len, rl_code_len. rewrite tie_bit_len. reflexivity. Qed.

(* RLVector::blocks = samples.len() / 2 *)
Theorem tie_rl_blocks : forall m v, f2_rl_blocks m (ilen (rl_samples v)) = Ok (rl_blocks v).
Proof. reflexivity. Qed.

(* RLBuilder::blocks = samples.len() *)
Theorem tie_rlb_blocks : forall m b, f2_rlb_blocks m (lenN (b_samples b)) = Ok (rlb_blocks b).
Proof. reflexivity. Qed.

(* SampleIndex::parameters(values, universe): same panics (division by zero, overflow) and same pair *)
Theorem tie_si_parameters : forall m values universe,
  f2_si_parameters m values universe = si_parameters m values universe.
Proof.
  intros m values universe. unfold f2_si_parameters, si_parameters.
  destruct (f_div_round_up m values index_RATIO) as [ns| |]; cbn [bind]; try reflexivity.
  unfold udiv at 1 3, f2_urem at 1.
  destruct (ns =? 0) eqn:Ens; cbn [bind]; try reflexivity.
  replace (if negb (universe mod ns =? 0) then 1 else 0) with (if universe mod ns =? 0 then 0 else 1)
    by (destruct (universe mod ns =? 0); reflexivity).
  destruct (uadd m (universe / ns) (if universe mod ns =? 0 then 0 else 1)) as [d| |]; cbn [bind]; try reflexivity.
  unfold udiv, f2_urem.
  destruct (d =? 0) eqn:Ed; cbn [bind]; try reflexivity.
  replace (if negb (universe mod d =? 0) then 1 else 0) with (if universe mod d =? 0 then 0 else 1)
    by (destruct (universe mod d =? 0); reflexivity).
  reflexivity.
Qed.
