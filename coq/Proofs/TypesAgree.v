(* C09, agreement of the three bitvector types: for one bit sequence B the plain BitVector (C01: bv_plain_exact),
   the SparseVector built from (|B|, ones B) (C02: the builder and the query theorems over [sv_ok]) and the RLVector
   built from the maximal runs of B (C03: rl_exact) answer every query with the value of the SAME bit-list
   specification (Spec/BitSeq.v); Proofs/SpecBridge.v turns the value-list and run-list specifications into it.
   Hence any two of the types return equal answers for equal arguments, for every argument below 2^64. *)
From Coq Require Import NArith List Lia ZArith Bool.
Require Import SDS.Model.Mach SDS.Model.Bits SDS.Model.Raw SDS.Model.IntVec SDS.Model.BitVec SDS.Model.Convert.
Require Import SDS.Model.Sparse.
Require SDS.Model.RL.
Require Import SDS.Spec.BitSeq SDS.Spec.ValSeq SDS.Spec.BuilderSpec.
Require SDS.Spec.Runs.
Require Import SDS.Proofs.BitsProof SDS.Proofs.BVCommon SDS.Proofs.BVFull SDS.Proofs.SparseSeq SDS.Proofs.SparseProof.
Require Import SDS.Proofs.SparseBuild SDS.Proofs.SparseMain SDS.Proofs.SparseHigh SDS.Proofs.SpecBridge.
Require SDS.Proofs.RLProof SDS.Proofs.ConvertSparseSide.
Import ListNotations.
Open Scope N_scope.
Require Import ZifyBool ZifyN ZifyNat.
Ltac Zify.zify_post_hook ::= Z.div_mod_to_equations.
Arguments N.add : simpl never. Arguments N.sub : simpl never. Arguments N.mul : simpl never.
Arguments N.eqb : simpl never. Arguments N.ltb : simpl never. Arguments N.leb : simpl never.
Arguments N.pow : simpl never. Arguments N.div : simpl never. Arguments N.modulo : simpl never.

Lemma bitB_getb B i x : getb B i = Some x -> bitB B i = x.
Proof. intros H. unfold bitB. rewrite H. reflexivity. Qed.

Theorem types_agree : forall (sp : selpath) (m : mode) (w' : N) (B : list bool),
  lenB B < 2 ^ 64 -> 1 <= w' <= 63 ->
  count B + (lenB B + 2 ^ w' - 1) / 2 ^ w' < 2 ^ 64 ->
  lenN (runs_of_bits B) < 2 ^ 56 ->
  exists b0 b sv v,
    bv_from_bits B = Ok b0 /\ bv_enable_all sp m b0 = Ok b /\
    sv_build_set sp m w' (lenB B) (ones B) = Ok (inl sv) /\
    RL.rl_build m (map (fun r => RL.BTrySet (fst r) (snd r)) (runs_of_bits B) ++ [RL.BSetLen (lenB B)])
      = Ok (v, map (fun _ => true) (runs_of_bits B) ++ [true]) /\
    (bv_len b = lenB B /\ sv_len sv = lenB B /\ RL.rl_len v = lenB B) /\
    (bv_count_ones b = count B /\ sv_count_ones sv = count B /\ RL.rl_ones v = count B) /\
    (forall i, i < lenB B ->
       bv_get b i = Ok (bitB B i) /\ sv_get sp m sv i = Ok (bitB B i) /\ RL.rl_get m v i = Ok (bitB B i)) /\
    (forall i, i < 2 ^ 64 ->
       bv_rank_q b i = Ok (rank1 B i) /\ sv_rank sp m sv i = Ok (rank1 B i) /\ RL.rl_rank m v i = Ok (rank1 B i)) /\
    (forall i, i < 2 ^ 64 ->
       bv_rank_zero m b i = Ok (i - rank1 B i) /\ sv_rank_zero sp m sv i = Ok (i - rank1 B i) /\
       RL.rl_rank_zero m v i = Ok (i - rank1 B i)) /\
    (forall r, r < 2 ^ 64 ->
       bv_select_t sp m Identity b r = Ok (select1 B r) /\ sv_select sp m sv r = Ok (select1 B r) /\
       RL.rl_select m v r = Ok (select1 B r)) /\
    (forall r, r < 2 ^ 64 ->
       bv_select_t sp m Complement b r = Ok (select0 B r) /\ sv_select_zero sp m sv r = Ok (select0 B r) /\
       RL.rl_select_zero m v r = Ok (select0 B r)) /\
    (forall x, x < 2 ^ 64 ->
       rmap snd (let* it := bv_predecessor sp m b x in oi_next_f Identity b it) = Ok (pred1 B x) /\
       it_first m sv (sv_predecessor sp m sv x) = Ok (pred1 B x) /\
       RL.oi_first m v (RL.rl_predecessor m v x) = Ok (pred1 B x)) /\
    (forall x, x < 2 ^ 64 ->
       rmap snd (let* it := bv_successor sp m b x in oi_next_f Identity b it) = Ok (succ1 B x) /\
       it_first m sv (sv_successor sp m sv x) = Ok (succ1 B x) /\
       RL.oi_first m v (RL.rl_successor m v x) = Ok (succ1 B x)).
Proof.
  intros sp m w' B HL Hw Hfit Hruns.
  (* the plain bitvector *)
  destruct (bv_from_bits_ok B HL) as (b0 & Eb0 & _).
  destruct (bv_plain_exact sp m sp m B HL b0 (or_introl Eb0))
    as (b & Eb & Bl & Bc & _ & Bget & Brk & Brz & Bs1 & Bs0 & Bsucc & Bpred).
  (* the sparse vector *)
  destruct (ones_admissible B) as [Hinc Hbel].
  destruct (build_set_ok_closed sp m w' (lenB B) (ones B) HL Hw Hinc Hbel
              (ConvertSparseSide.fit_eff_width w' B HL Hw Hfit)) as (sv & H & Esv & Hok).
  destruct (sv_ok_present sp m sv _ _ _ H Hok) as (Sl & So & _ & Sget & Srk & Ssel & Spred & Ssucc & _).
  destruct (sv_ok_zero sp m sv _ _ _ H Hok (ones_sorted_lt B)) as (Srz & Ssz & _).
  (* the run-length vector *)
  destruct (runs_of_bits_valid B) as (Rs & Re & Rmax).
  destruct (RLProof.rl_exact m (runs_of_bits B) (lenB B) Rs Re ltac:(lia) Hruns)
    as (v & Ev & Rl & Ro & _ & _ & Rget & Rrk & Rrz & Rsel & Rsz & Rpred & Rsucc).
  rewrite Rmax in *.
  exists b0, b, sv, v. split; [exact Eb0|]. split; [exact Eb|]. split; [exact Esv|]. split; [exact Ev|].
  split; [auto|]. split; [split; [exact Bc|split; [rewrite So; apply ones_lenN|rewrite Ro; apply runs_ones_bits]]|].
  split.
  { intros i Hi. destruct (Bget i Hi) as (x & Ex & Hx). split; [rewrite Ex, (bitB_getb B i x Hx); reflexivity|].
    split; [rewrite (Sget i Hi), vs_get_ones; reflexivity|rewrite (Rget i Hi), runs_get_bits; reflexivity]. }
  split.
  { intros i Hi. split; [apply Brk|]. split; [rewrite Srk, vs_rank_ones; reflexivity|rewrite (Rrk i Hi), runs_rank_bits; reflexivity]. }
  split.
  { intros i Hi. split; [apply Brz|]. split; [rewrite Srz, vs_rank_ones; reflexivity|rewrite (Rrz i Hi), runs_rank_bits; reflexivity]. }
  split.
  { intros r Hr. split; [apply Bs1|]. split; [rewrite Ssel; reflexivity|rewrite (Rsel r Hr), runs_select_bits; reflexivity]. }
  split.
  { intros r Hr. split; [apply Bs0|]. split; [rewrite Ssz, vs_select_zero_ones; reflexivity|rewrite (Rsz r Hr), runs_select_zero_bits; reflexivity]. }
  split.
  - intros x Hx. destruct (Bpred x Hx) as (it & it' & E1 & E2). split; [rewrite E1; cbn [bind]; rewrite E2; reflexivity|].
    split; [rewrite Spred; reflexivity|rewrite (Rpred x Hx), runs_pred_bits; reflexivity].
  - intros x Hx. destruct (Bsucc x Hx) as (it & it' & E1 & E2). split; [rewrite E1; cbn [bind]; rewrite E2; reflexivity|].
    split; [rewrite Ssucc; reflexivity|rewrite (Rsucc x Hx), runs_succ_bits; reflexivity].
Qed.
