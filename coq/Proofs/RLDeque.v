(* C10 for the run-length vector: RunIter, Iter, OneIter (from one_iter / select_iter / predecessor / successor) and
   ZeroIter (from zero_iter / select_zero_iter) refine the deque specification over their reference sequences
   (Spec/RunsIter.v) for every finite sequence of next / nth(k) / len calls: every call returns Ok, next pops the
   head, the inherited nth(k) skips k items and pops (or empties the iterator), size_hint is the exact number of
   items left, and an exhausted iterator stays exhausted.
   Built on the one-step lemmas of RLIter.v (next_spec), RLQuery3.v (oi_next_spec), RLQuery4.v (zi_next_spec,
   bi_next_spec) and the generic std_nth_ok / lifting_rel of IterProof.v / Spec/Deque.v. *)
From Coq Require Import NArith List Lia ZArith Bool.
Require Import SDS.Model.Mach SDS.Model.Bits SDS.Model.Raw SDS.Model.IntVec SDS.gen.Consts SDS.gen.Funs.
Require Import SDS.Spec.Deque SDS.Spec.IterRefs SDS.Model.Iters SDS.Proofs.IterProof.
Require Import SDS.Model.RL SDS.Model.RLIters.
Require Import SDS.Spec.Runs SDS.Spec.RunsIter.
Require Import SDS.Proofs.BitsProof SDS.Proofs.RLIntVec SDS.Proofs.RLVarint SDS.Proofs.RLIndex SDS.Proofs.RLRep
               SDS.Proofs.RunsLemmas SDS.Proofs.RLBuild SDS.Proofs.RLIter SDS.Proofs.RLQuery SDS.Proofs.RLQuery2
               SDS.Proofs.RLQuery3 SDS.Proofs.RLQuery4 SDS.Proofs.RLProof.
Import ListNotations.
Open Scope N_scope.
Require Import ZifyBool ZifyN ZifyNat.
Ltac Zify.zify_post_hook ::= Z.div_mod_to_equations.
Arguments N.add : simpl never. Arguments N.sub : simpl never. Arguments N.mul : simpl never.
Arguments N.eqb : simpl never. Arguments N.ltb : simpl never. Arguments N.leb : simpl never.
Arguments N.pow : simpl never. Arguments N.min : simpl never.

(* ================================================================ 1. a forward iterator in general *)

Section Fwd.
Context {St A : Type}.
Variable nx : St -> res (St * option A).
Variable fuel : St -> nat.
Variable rep : St -> list A -> Prop.
Hypothesis Hnx : forall s l, rep s l -> exists s', nx s = Ok (s', hd_error l) /\ rep s' (tl l).
Hypothesis Hfuel : forall s l, rep s l -> (length l < fuel s)%nat.

(* without an advertised size: next and nth *)
Theorem fwd_step_refines_nolen :
  step_refines_rel (fwd_step nx fuel None) rep (fun c => call_fwd c /\ c <> Len).
Proof.
  intros s l c Hr [Hc Hl]. destruct c as [| |k|k|]; cbn [call_fwd] in Hc; try contradiction; try congruence;
    cbn [fwd_step dq_step].
  - destruct (Hnx s l Hr) as (s' & E & Hr'). rewrite E. cbn [bind]. rewrite dq_front_0. cbn [fst snd]. eauto.
  - destruct (std_nth_ok nx rep Hnx (fuel s) s l k Hr (Hfuel s l Hr)) as (s' & E & Hr').
    rewrite E. cbn [bind]. destruct (dq_front l k) as [l' o]. cbn [fst snd] in *. eauto.
Qed.

(* with the exact size *)
Variable hint : St -> N.
Hypothesis Hhint : forall s l, rep s l -> hint s = lenA l.

Theorem fwd_step_refines : step_refines_rel (fwd_step nx fuel (Some hint)) rep call_fwd.
Proof.
  intros s l c Hr Hc. destruct c as [| |k|k|]; cbn [call_fwd] in Hc; try contradiction; cbn [fwd_step dq_step].
  - destruct (Hnx s l Hr) as (s' & E & Hr'). rewrite E. cbn [bind]. rewrite dq_front_0. cbn [fst snd]. eauto.
  - destruct (std_nth_ok nx rep Hnx (fuel s) s l k Hr (Hfuel s l Hr)) as (s' & E & Hr').
    rewrite E. cbn [bind]. destruct (dq_front l k) as [l' o]. cbn [fst snd] in *. eauto.
  - exists s. rewrite (Hhint s l Hr). auto.
Qed.
End Fwd.

(* ================================================================ 2. the reference sequences *)

Lemma runs_select_some : forall R k, k < rones R -> exists p, runs_select R k = Some p.
Proof.
  induction R as [|[s l] R IH]; intros k Hk; cbn [rones snd] in Hk; [lia|].
  cbn [runs_select]. destruct (N.ltb_spec k l) as [H|H]; [eauto|]. apply IH. lia.
Qed.

Lemma ones_all_some F k p : runs_select F k = Some p -> ones_all F k = (k, p) :: ones_all F (k + 1).
Proof.
  intros H. assert (Hk : k < runs_ones F).
  { destruct (N.lt_ge_cases k (runs_ones F)) as [Hlt|Hge]; [exact Hlt|].
    rewrite runs_select_none in H by (rewrite rones_spec; exact Hge). discriminate. }
  unfold ones_all. replace (N.to_nat (runs_ones F - k)) with (S (N.to_nat (runs_ones F - (k + 1)))) by lia.
  cbn [ones_from_rank]. rewrite H. reflexivity.
Qed.

Lemma ones_all_none F k : runs_select F k = None -> ones_all F k = [].
Proof. intros H. unfold ones_all. destruct (N.to_nat (runs_ones F - k)); [reflexivity|]. cbn [ones_from_rank]. rewrite H. reflexivity. Qed.

Lemma ones_all_beyond F k : runs_ones F <= k -> ones_all F k = [].
Proof. intros H. apply ones_all_none, runs_select_none. rewrite rones_spec. exact H. Qed.

Lemma ones_from_rank_len F : forall n k, N.of_nat n <= runs_ones F - k -> lenA (ones_from_rank n F k) = N.of_nat n.
Proof.
  induction n as [|n IH]; intros k Hn; [reflexivity|]. cbn [ones_from_rank].
  destruct (runs_select_some F k) as [p Hp]; [rewrite rones_spec; lia|]. rewrite Hp, lenA_cons, IH by lia. lia.
Qed.
Lemma ones_all_len F k : lenA (ones_all F k) = runs_ones F - k.
Proof. unfold ones_all. rewrite ones_from_rank_len by lia. lia. Qed.

Lemma sz_some : forall R first prev L k,
  runs_ok first prev R -> runs_end_from prev R <= L -> k < L - prev - rones R ->
  exists p, runs_select_zero_from prev R L k = Some p.
Proof.
  induction R as [|r R IH]; intros first prev L k Hok Hend Hk.
  - cbn [runs_select_zero_from rones runs_end_from] in *. replace (k <? L - prev) with true by lia. eauto.
  - cbn [runs_ok runs_end_from rones] in *. destruct Hok as (H0 & H1 & H2).
    pose proof (rones_le_end _ _ _ H2). pose proof (runs_ok_end _ _ _ H2).
    assert (prev <= fst r) by (destruct first; lia).
    rewrite sz_cons. destruct (N.ltb_spec k (fst r - prev)) as [Hlt|Hge]; [eauto|].
    apply (IH false); try assumption. lia.
Qed.

Section ZerosRef.
  Variables (F : list run) (L : N).
  Hypothesis HF : runs_ok true 0 F.
  Hypothesis HL : runs_end_from 0 F <= L.

  Lemma select_zero_some k : k < L - runs_ones F -> exists p, runs_select_zero F L k = Some p.
  Proof. intros H. apply (sz_some F true 0 L k HF HL). rewrite rones_spec. lia. Qed.
  Lemma select_zero_none k : L - runs_ones F <= k -> runs_select_zero F L k = None.
  Proof. intros H. apply (sz_none F true 0 L k HF HL). rewrite rones_spec. lia. Qed.

  Lemma zeros_all_some k p : runs_select_zero F L k = Some p -> zeros_all F L k = (k, p) :: zeros_all F L (k + 1).
  Proof.
    intros H. assert (Hk : k < L - runs_ones F).
    { destruct (N.lt_ge_cases k (L - runs_ones F)) as [Hlt|Hge]; [exact Hlt|].
      rewrite select_zero_none in H by exact Hge. discriminate. }
    unfold zeros_all. replace (N.to_nat (L - runs_ones F - k)) with (S (N.to_nat (L - runs_ones F - (k + 1)))) by lia.
    cbn [zeros_from_rank]. rewrite H. reflexivity.
  Qed.
  Lemma zeros_all_none k : runs_select_zero F L k = None -> zeros_all F L k = [].
  Proof.
    intros H. unfold zeros_all. destruct (N.to_nat (L - runs_ones F - k)); [reflexivity|].
    cbn [zeros_from_rank]. rewrite H. reflexivity.
  Qed.
  Lemma zeros_from_rank_len : forall n k, N.of_nat n <= L - runs_ones F - k -> lenA (zeros_from_rank n F L k) = N.of_nat n.
  Proof.
    induction n as [|n IH]; intros k Hn; [reflexivity|]. cbn [zeros_from_rank].
    destruct (select_zero_some k) as [p Hp]; [lia|]. rewrite Hp, lenA_cons, IH by lia. lia.
  Qed.
  Lemma zeros_all_len k : lenA (zeros_all F L k) = L - runs_ones F - k.
  Proof. unfold zeros_all. rewrite zeros_from_rank_len by lia. lia. Qed.
End ZerosRef.

Lemma bits_all_some F L p : p < L -> bits_all F L p = runs_get F p :: bits_all F L (p + 1).
Proof.
  intros H. unfold bits_all. replace (N.to_nat (L - p)) with (S (N.to_nat (L - (p + 1)))) by lia.
  cbn [bits_from]. replace (p <? L) with true by lia. reflexivity.
Qed.
Lemma bits_all_none F L p : L <= p -> bits_all F L p = [].
Proof. intros H. unfold bits_all. replace (N.to_nat (L - p)) with O by lia. reflexivity. Qed.
Lemma bits_from_len F L : forall n p, N.of_nat n <= L - p -> lenA (bits_from n F L p) = N.of_nat n.
Proof.
  induction n as [|n IH]; intros p Hn; [reflexivity|]. cbn [bits_from].
  replace (p <? L) with true by lia. rewrite lenA_cons, IH by lia. lia.
Qed.
Lemma bits_all_len F L p : lenA (bits_all F L p) = L - p.
Proof. unfold bits_all. rewrite bits_from_len by lia. lia. Qed.

(* ================================================================ 3. the four iterators on a built vector *)

(* pure facts about one call (no invariant needed): what a None answer leaves behind *)
Lemma oi_next_none_state m v s s' : oi_next m v s = Ok (s', None) -> oi_got_none s' = true /\ oi_rank s' = oi_rank s.
Proof.
  unfold oi_next. destruct (negb (oi_got_none s) && (ri_rank (oi_iter s) <=? oi_rank s)).
  - destruct (ri_next m v (oi_iter s)) as [[it' r]| |]; cbn [bind]; try discriminate.
    cbn [oi_got_none oi_rank oi_iter]. destruct r; cbn iota; intros H; inversion H; subst; cbn [oi_got_none oi_rank]; auto.
  - cbn [bind]. destruct (oi_got_none s) eqn:E; intros H; inversion H; subst; auto.
Qed.

Lemma oi_exhausted_next m v s : oi_got_none s = true -> oi_next m v s = Ok (s, None).
Proof. intros H. unfold oi_next. rewrite H. cbn [negb andb bind]. rewrite H. reflexivity. Qed.

Lemma bi_next_none_state m v s s' : bi_next m v s = Ok (s', None) -> bi_run s' = None /\ rl_len v <= bi_pos s'.
Proof.
  unfold bi_next.
  assert (G : forall s1, match bi_run s1 with
                         | Some (start, _) => Ok (mkbi (bi_iter s1) (bi_run s1) (bi_pos s1 + 1), Some (start <? bi_pos s1 + 1))
                         | None => if rl_len v <=? bi_pos s1 then Ok (s1, None)
                                   else Ok (mkbi (bi_iter s1) (bi_run s1) (bi_pos s1 + 1), Some false)
                         end = Ok (s', None) -> bi_run s' = None /\ rl_len v <= bi_pos s').
  { intros s1. destruct (bi_run s1) as [[st ln]|] eqn:E; [discriminate|].
    destruct (N.leb_spec (rl_len v) (bi_pos s1)) as [Hle|Hgt]; [|discriminate].
    intros H. inversion H; subst. auto. }
  destruct (bi_run s) as [[st ln]|] eqn:E.
  - destruct (st + ln <=? bi_pos s).
    + destruct (ri_next m v (bi_iter s)) as [[it' r]| |]; cbn [bind]; try discriminate. apply G.
    + cbn [bind]. apply G.
  - cbn [bind]. apply G.
Qed.

Lemma bi_exhausted_next m v s : bi_run s = None -> rl_len v <= bi_pos s -> bi_next m v s = Ok (s, None).
Proof.
  intros H1 H2. unfold bi_next. rewrite H1. cbn [bind]. rewrite H1.
  replace (rl_len v <=? bi_pos s) with true by lia. reflexivity.
Qed.

Section Deque.
  Variable m : mode.
  Variable v : rlvec.
  Variable BS : list (list run).
  Variable L : N.
  Hypothesis Hok : rl_ok v BS L.

  Let F := concat BS.
  Notation Abs := (RLIter.Abs BS).
  Local Notation abs_ok := (abs_ok v BS L Hok).
  Local Notation fuel_ok := (fuel_ok v BS L Hok).
  Local Notation OI := (OI BS).
  Local Notation ZI := (ZI BS).
  Local Notation BI := (BI BS).

  Lemma Fok : runs_ok true 0 F. Proof. exact (ok_runs _ _ _ Hok). Qed.
  Lemma Fend : runs_end_from 0 F <= L. Proof. exact (ok_end _ _ _ Hok). Qed.
  Lemma ones_eq : rl_ones v = runs_ones F. Proof. rewrite (ones_F v BS L Hok). apply rones_spec. Qed.
  Lemma len_eq : rl_len v = L. Proof. exact (len_L v BS L Hok). Qed.
  Lemma zeros_eq' : rl_count_zeros v = L - runs_ones F.
  Proof. unfold rl_count_zeros. rewrite ones_eq, len_eq. reflexivity. Qed.

  (* ---- RunIter ---- *)

  Definition ri_rep (it : runiter) (l : list (N * N)) : Prop := exists dn, Abs it dn l.

  Lemma ri_rep_next it l : ri_rep it l -> exists it', ri_next m v it = Ok (it', hd_error l) /\ ri_rep it' (tl l).
  Proof.
    intros (dn & Ha). pose proof (next_spec m v BS L Hok it dn l Ha) as H. destruct l as [|r t].
    - exists it. split; [exact H|]. exists dn. exact Ha.
    - destruct H as (it' & Ha' & Hn). exists it'. split; [exact Hn|]. exists (dn ++ [r]). exact Ha'.
  Qed.

  Lemma ri_rep_fuel it l : ri_rep it l -> (length l < rl_fuel v)%nat.
  Proof. intros (dn & Ha). exact (fuel_ok _ _ _ Ha). Qed.

  Lemma ri_start : exists it, rl_run_iter v = Ok it /\ ri_rep it F.
  Proof. destruct (run_iter_spec v BS L Hok) as (it & H1 & H2). exists it. split; [exact H1|]. exists []. exact H2. Qed.

  (* ---- OneIter ---- *)

  Definition oi_rep (s : oneiter) (l : list (N * N)) : Prop :=
    (exists k, OI s k /\ l = ones_all F k) \/ (oi_got_none s = true /\ rl_ones v <= oi_rank s /\ l = []).

  Lemma OI_le s k : OI s k -> k <= runs_ones F.
  Proof.
    intros (_ & _ & dn & todo & Ha & Hc). destruct (abs_ok _ _ _ Ha) as (HF & _). fold F in HF.
    rewrite <- rones_spec, HF, rones_app. destruct Hc as [->|(dn' & r & -> & H)]; lia.
  Qed.

  Lemma oi_rep_next s l : oi_rep s l -> exists s', oi_next m v s = Ok (s', hd_error l) /\ oi_rep s' (tl l).
  Proof.
    intros [(k & Hs & ->)|(Hg & Hr & ->)].
    - destruct (oi_next_spec m v BS L Hok s k Hs) as (s' & Hn & Hnext). fold F in Hn, Hnext.
      unfold sel_item in Hn, Hnext. fold F in Hn, Hnext. exists s'.
      destruct (runs_select F k) as [p|] eqn:E.
      + rewrite (ones_all_some F k p E). cbn [hd_error tl]. split; [exact Hn|].
        left. exists (k + 1). split; [apply Hnext; discriminate|reflexivity].
      + rewrite (ones_all_none F k E). cbn [hd_error tl]. split; [exact Hn|].
        destruct (oi_next_none_state m v s s' Hn) as [H1 H2]. right. split; [exact H1|]. split; [|reflexivity].
        destruct Hs as (_ & Hk & _). rewrite H2, Hk, ones_eq.
        destruct (N.lt_ge_cases k (runs_ones F)) as [Hlt|Hge]; [|exact Hge].
        destruct (runs_select_some F k) as [p Hp]; [rewrite rones_spec; exact Hlt|]. congruence.
    - exists s. cbn [hd_error tl]. split; [apply oi_exhausted_next; exact Hg|]. right. auto.
  Qed.

  Lemma oi_rep_hint s l : oi_rep s l -> oi_size_hint v s = lenA l.
  Proof.
    intros [(k & Hs & ->)|(Hg & Hr & ->)]; unfold oi_size_hint.
    - rewrite ones_all_len, ones_eq. destruct Hs as (_ & -> & _). reflexivity.
    - rewrite lenA_nil. lia.
  Qed.

  Lemma oi_rep_fuel s l : oi_rep s l -> (length l < of_hint (oi_size_hint v s))%nat.
  Proof. intros H. rewrite (oi_rep_hint s l H). unfold of_hint, lenA. lia. Qed.

  Lemma oi_empty_rep : oi_rep (oi_empty v) [].
  Proof. right. cbn [oi_empty oi_got_none oi_rank]. split; [reflexivity|]. split; [lia|reflexivity]. Qed.

  (* a OneIter positioned inside the run just consumed *)
  Lemma OI_inside it dn r todo rank :
    Abs it (dn ++ [r]) todo -> rones dn <= rank < rones dn + snd r -> OI (mkoi it false rank) rank.
  Proof.
    intros Ha Hr. split; [reflexivity|]. split; [reflexivity|]. cbn [oi_iter].
    exists (dn ++ [r]), todo. split; [exact Ha|]. right. exists dn, r. split; [reflexivity|].
    rewrite rones_app. cbn [rones]. lia.
  Qed.

  Lemma one_iter_entry : exists s, rl_one_iter v = Ok s /\ oi_rep s (ones_all F 0).
  Proof.
    unfold rl_one_iter. destruct (run_iter_spec v BS L Hok) as (it & Hit & Ha). rewrite Hit. cbn [bind].
    eexists. split; [reflexivity|]. left. exists 0. split; [|reflexivity].
    split; [reflexivity|]. split; [reflexivity|]. cbn [oi_iter].
    exists [], (concat BS). split; [exact Ha|left; reflexivity].
  Qed.

  Lemma select_iter_entry rank : exists s, rl_select_iter m v rank = Ok s /\ oi_rep s (ones_all F rank).
  Proof.
    unfold rl_select_iter. rewrite (ones_F v BS L Hok). fold F.
    destruct (N.leb_spec (rones F) rank) as [Hge|Hlt].
    - exists (oi_empty v). split; [reflexivity|]. rewrite ones_all_beyond by (rewrite <- rones_spec; exact Hge).
      exact oi_empty_rep.
    - destruct (iter_for_one_spec m v BS L Hok rank Hlt) as (it & dn & todo & Hit & Ha & Hd).
      rewrite Hit. cbn [bind]. destruct (abs_ok _ _ _ Ha) as (HF & _). fold F in HF.
      destruct (skip_strict_spec m v BS L Hok rank todo _ it dn Ha (fuel_ok _ _ _ Ha)) as (it' & dn2 & todo2 & Hs & Ha' & Hc).
      { rewrite HF, rones_app in Hlt. lia. }
      { destruct (N.eq_dec rank (rones dn)) as [E|NE]; [left; left; exact E|right; lia]. }
      rewrite Hs. cbn [bind]. eexists. split; [reflexivity|]. left. exists rank. split; [|reflexivity].
      split; [reflexivity|]. split; [reflexivity|]. cbn [oi_iter]. exists dn2, todo2. split; assumption.
  Qed.

  (* ---- ZeroIter ---- *)

  (* the run iterator inside is in a reachable state (or will not be asked again) *)
  Definition ZV (s : zeroiter) : Prop := zi_got_none s = true \/ exists dn todo, Abs (zi_iter s) dn todo.
  (* exhausted: the rank has reached count_zeros *)
  Definition ZX (s : zeroiter) : Prop := ZV s /\ rl_count_zeros v <= fst (zi_pos s).

  Lemma zi_valid_next s : ZV s ->
    exists s1, ZV s1 /\ fst (zi_pos s1) = fst (zi_pos s) /\
      zi_next m v s =
        (if rl_count_zeros v <=? fst (zi_pos s1) then Ok (s1, None)
         else Ok (mkzi (zi_iter s1) (zi_got_none s1) (fst (zi_pos s1) + 1, snd (zi_pos s1) + 1), Some (zi_pos s1))).
  Proof.
    intros Hv. unfold zi_next.
    destruct (negb (zi_got_none s) && (ri_rank_zero (zi_iter s) <=? fst (zi_pos s))) eqn:Ec.
    - apply andb_prop in Ec. destruct Ec as [Eg _]. apply negb_true_iff in Eg.
      destruct Hv as [Hv|(dn & todo & Ha)]; [congruence|].
      pose proof (next_spec m v BS L Hok _ dn todo Ha) as Hn. destruct todo as [|r t].
      + rewrite Hn. cbn [bind]. eexists. split; [|split]. 3: reflexivity.
        * left. reflexivity.
        * reflexivity.
      + destruct Hn as (it' & Ha' & Hn). rewrite Hn. cbn [bind]. eexists. split; [|split]. 3: reflexivity.
        * right. exists (dn ++ [r]), t. exact Ha'.
        * reflexivity.
    - cbn [bind]. exists s. split; [exact Hv|]. split; reflexivity.
  Qed.

  Lemma ZX_next s : ZX s -> exists s', zi_next m v s = Ok (s', None) /\ ZX s'.
  Proof.
    intros [Hv Hc]. destruct (zi_valid_next s Hv) as (s1 & Hv1 & Hp & E). exists s1.
    rewrite E, Hp. replace (rl_count_zeros v <=? fst (zi_pos s)) with true by lia.
    split; [reflexivity|]. split; [exact Hv1|]. rewrite Hp. exact Hc.
  Qed.

  Lemma ZV_none s s' : ZV s -> zi_next m v s = Ok (s', None) -> ZX s'.
  Proof.
    intros Hv Hn. destruct (zi_valid_next s Hv) as (s1 & Hv1 & Hp & E). rewrite E in Hn.
    destruct (N.leb_spec (rl_count_zeros v) (fst (zi_pos s1))) as [Hle|Hgt]; [|discriminate].
    inversion Hn; subst. split; assumption.
  Qed.

  Lemma ZI_valid s k : ZI s k -> ZV s.
  Proof. intros (_ & dn & todo & Ha & _). right. exists dn, todo. exact Ha. Qed.

  Definition zi_rep (s : zeroiter) (l : list (N * N)) : Prop :=
    (exists k, ZI s k /\ l = zeros_all F L k) \/ (ZX s /\ l = []).

  Lemma zi_rep_next s l : zi_rep s l -> exists s', zi_next m v s = Ok (s', hd_error l) /\ zi_rep s' (tl l).
  Proof.
    intros [(k & Hs & ->)|(Hx & ->)].
    - destruct (zi_next_spec m v BS L Hok s k Hs) as (s' & Hn & Hnext).
      unfold zitem in Hn, Hnext. fold F in Hn, Hnext. exists s'.
      destruct (runs_select_zero F L k) as [p|] eqn:E.
      + rewrite (zeros_all_some F L Fok Fend k p E). cbn [hd_error tl]. split; [exact Hn|].
        left. exists (k + 1). split; [apply Hnext; discriminate|reflexivity].
      + rewrite (zeros_all_none F L k E). cbn [hd_error tl]. split; [exact Hn|].
        right. split; [|reflexivity]. exact (ZV_none s s' (ZI_valid s k Hs) Hn).
    - destruct (ZX_next s Hx) as (s' & Hn & Hx'). exists s'. cbn [hd_error tl]. split; [exact Hn|]. right. auto.
  Qed.

  Lemma zi_rep_hint s l : zi_rep s l -> zi_size_hint v s = lenA l.
  Proof.
    intros [(k & Hs & ->)|([_ Hc] & ->)]; unfold zi_size_hint.
    - rewrite (zeros_all_len F L Fok Fend), zeros_eq'. destruct Hs as (-> & _). reflexivity.
    - rewrite lenA_nil. lia.
  Qed.

  Lemma zi_rep_fuel s l : zi_rep s l -> (length l < of_hint (zi_size_hint v s))%nat.
  Proof. intros H. rewrite (zi_rep_hint s l H). unfold of_hint, lenA. lia. Qed.

  Lemma zero_iter_entry : exists s, rl_zero_iter m v = Ok s /\ zi_rep s (zeros_all F L 0).
  Proof.
    unfold rl_zero_iter. destruct (run_iter_spec v BS L Hok) as (it & Hit & Ha). rewrite Hit. cbn [bind].
    assert (Hc : forall T : list run, T = [] \/ exists r t, T = r :: t)
      by (intros T; destruct T as [|r t]; [left; reflexivity|right; exists r, t; reflexivity]).
    destruct (Hc (concat BS)) as [E|(r & t & E)]; rewrite E in Ha.
    - rewrite (next_spec m v BS L Hok it [] [] Ha). cbn [bind].
      eexists. split; [reflexivity|]. left. exists 0. split; [|reflexivity].
      split; [reflexivity|]. cbn [zi_iter zi_got_none zi_pos fst snd].
      exists [], []. split; [exact Ha|]. right. unfold zb. cbn [runs_end_from rones].
      split; [reflexivity|]. split; [reflexivity|]. split; [lia|reflexivity].
    - destruct (next_spec m v BS L Hok it [] (r :: t) Ha) as (it' & Ha' & Hn).
      rewrite Hn. cbn [bind]. eexists. split; [reflexivity|]. left. exists 0. split; [|reflexivity].
      split; [reflexivity|].
      cbn [zi_iter zi_got_none zi_pos fst snd]. exists ([] ++ [r]), t. split; [exact Ha'|]. left.
      split; [reflexivity|]. exists [], r. split; [reflexivity|].
      destruct (abs_ok _ _ _ Ha') as (_ & _ & _ & Hd & _). rewrite (zb_snoc [] r Hd).
      unfold zb. cbn [runs_end_from rones]. split; [lia|]. split; [lia|]. intros _. lia.
  Qed.

  Lemma select_zero_iter_entry rank : exists s, rl_select_zero_iter m v rank = Ok s /\ zi_rep s (zeros_all F L rank).
  Proof.
    unfold rl_select_zero_iter. rewrite zeros_eq'.
    destruct (N.leb_spec (L - runs_ones F) rank) as [Hge|Hlt].
    - eexists. split; [reflexivity|]. right. split.
      + split; [left; reflexivity|]. cbn [zi_pos fst]. rewrite zeros_eq'. lia.
      + apply (zeros_all_none F L), (select_zero_none F L Fok Fend). exact Hge.
    - rewrite <- rones_spec in Hlt.
      destruct (iter_for_zero_spec m v BS L Hok rank Hlt) as (it & dn & todo & Hit & Ha & Hd).
      rewrite Hit. cbn [bind]. destruct (abs_ok _ _ _ Ha) as (_ & Hr & _). rewrite Hr.
      destruct (sz_loop_struct m v BS L Hok rank todo _ it dn Ha (fuel_ok _ _ _ Ha) Hd) as (it' & gn & ones & dn2 & todo2 & Hl & Ha' & Hc).
      rewrite Hl. cbn [bind]. pose proof (L_lt v BS L Hok) as HL.
      destruct (abs_ok _ _ _ Ha') as (HF2 & _ & _ & Hdn2 & _). fold F in HF2.
      pose proof (ones_le_L v BS L Hok) as HoL. fold F in HoL.
      assert (Hones : ones <= rones F).
      { destruct Hc as [(_ & dn' & r & -> & -> & _)|(_ & -> & -> & _)].
        - rewrite HF2, <- app_assoc, rones_app. lia.
        - rewrite HF2, app_nil_r. lia. }
      rewrite uadd_ok by lia. cbn [bind]. eexists. split; [reflexivity|]. left. exists rank. split; [|reflexivity].
      split; [reflexivity|].
      cbn [zi_iter zi_got_none zi_pos fst snd]. exists dn2, todo2. split; [exact Ha'|].
      destruct Hc as [(-> & dn' & r & Hd2 & Ho & Hz1 & Hz2)|(-> & Ht2 & Ho & Hz)].
      + left. split; [reflexivity|]. exists dn', r. split; [exact Hd2|]. split; [lia|]. split; [lia|].
        intros _. rewrite Ho. reflexivity.
      + right. split; [reflexivity|]. split; [exact Ht2|]. split; [lia|]. rewrite Ho. reflexivity.
  Qed.

  (* ---- Iter ---- *)

  Definition bi_rep (s : bititer) (l : list bool) : Prop :=
    (exists p, BI s p /\ l = bits_all F L p) \/ (bi_run s = None /\ rl_len v <= bi_pos s /\ l = []).

  Lemma bi_rep_next s l : bi_rep s l -> exists s', bi_next m v s = Ok (s', hd_error l) /\ bi_rep s' (tl l).
  Proof.
    intros [(p & Hs & ->)|(H1 & H2 & ->)].
    - destruct (bi_next_spec m v BS L Hok s p Hs) as (s' & Hn & Hnext).
      unfold bitem in Hn, Hnext. fold F in Hn, Hnext. exists s'.
      destruct (N.ltb_spec p L) as [Hlt|Hge].
      + rewrite (bits_all_some F L p Hlt). cbn [hd_error tl]. split; [exact Hn|].
        left. exists (p + 1). split; [apply Hnext; discriminate|reflexivity].
      + rewrite (bits_all_none F L p Hge). cbn [hd_error tl]. split; [exact Hn|].
        destruct (bi_next_none_state m v s s' Hn) as [G1 G2]. right. auto.
    - exists s. cbn [hd_error tl]. split; [apply bi_exhausted_next; assumption|]. right. auto.
  Qed.

  Lemma bi_rep_hint s l : bi_rep s l -> bi_size_hint v s = lenA l.
  Proof.
    intros [(p & Hs & ->)|(H1 & H2 & ->)]; unfold bi_size_hint.
    - rewrite bits_all_len, len_eq. destruct Hs as (-> & _). reflexivity.
    - rewrite lenA_nil. lia.
  Qed.

  Lemma bi_rep_fuel s l : bi_rep s l -> (length l < of_hint (bi_size_hint v s))%nat.
  Proof. intros H. rewrite (bi_rep_hint s l H). unfold of_hint, lenA. lia. Qed.

  Lemma iter_entry : exists s, rl_iter v = Ok s /\ bi_rep s (bits_all F L 0).
  Proof.
    unfold rl_iter. destruct (run_iter_spec v BS L Hok) as (it & Hit & Ha). rewrite Hit. cbn [bind].
    eexists. split; [reflexivity|]. left. exists 0. split; [|reflexivity].
    split; [reflexivity|]. cbn [bi_iter bi_run]. exists [], (concat BS). split; [exact Ha|]. left. repeat split.
  Qed.

  (* ---- successor / predecessor hand out a OneIter at the right rank ---- *)

  Lemma succ_loop_oi value : forall todo fuel it dn,
    Abs it dn todo -> (length todo < fuel)%nat -> runs_end_from 0 dn <= value ->
    exists res, rl_succ_loop fuel m v it value = Ok res /\
      match res with
      | None => runs_rank todo value = rones todo
      | Some (it', rank) => rank = rones dn + runs_rank todo value /\ OI (mkoi it' false rank) rank
      end.
  Proof.
    induction todo as [|r t IH]; intros fuel it dn Ha Hf Hd; (destruct fuel as [|k]; [cbn [length] in Hf; lia|]).
    - cbn [rl_succ_loop]. rewrite (next_spec m v BS L Hok it dn [] Ha). cbn [bind].
      exists None. split; reflexivity.
    - cbn [rl_succ_loop]. destruct (next_spec m v BS L Hok it dn (r :: t) Ha) as (it' & Ha' & Hn).
      rewrite Hn. cbn [bind].
      destruct (abs_ok _ _ _ Ha) as (_ & _ & _ & _ & Hrt).
      destruct (abs_ok _ _ _ Ha') as (_ & Hr' & Ho' & _ & Ht').
      rewrite runs_end_from_app in Ho', Ht'. cbn [runs_end_from] in Ho', Ht'. rewrite rones_app in Hr'. cbn [rones] in Hr'.
      replace (match dn ++ [r] with [] => true | _ :: _ => false end) with false in Ht' by (destruct dn; reflexivity).
      cbn [runs_ok] in Hrt. destruct Hrt as (Hs & Hl & _).
      assert (Hge : runs_end_from 0 dn <= fst r) by (destruct dn; lia).
      cbn [runs_rank]. unfold overlap. unfold ri_rank_at. rewrite Hr', Ho'.
      destruct r as [s l]. cbn [fst snd] in *.
      destruct (N.ltb_spec value s) as [Hlt|Hge2].
      + eexists. split; [reflexivity|]. cbn iota beta.
        rewrite (runs_rank_below _ _ _ _ Ht') by lia.
        split; [lia|]. apply (OI_inside it' dn (s, l) t); [exact Ha'|]. cbn [snd]. lia.
      + destruct (N.ltb_spec value (s + l)) as [Hin|Hout].
        * eexists. split; [reflexivity|]. cbn iota beta.
          rewrite (runs_rank_below _ _ _ _ Ht') by lia.
          split; [lia|]. apply (OI_inside it' dn (s, l) t); [exact Ha'|]. cbn [snd]. lia.
        * cbn [length] in Hf.
          destruct (IH k it' (dn ++ [(s, l)]) Ha') as (res & Hl2 & Hf2); [lia| |].
          { rewrite runs_end_from_app. cbn [runs_end_from fst snd]. lia. }
          exists res. split; [exact Hl2|]. rewrite rones_app in Hf2. cbn [rones snd] in Hf2.
          destruct res as [[it2 rank]|].
          -- destruct Hf2 as [E HOI]. split; [lia|exact HOI].
          -- cbn [rones snd]. lia.
  Qed.

  Lemma successor_entry x : exists s, rl_successor m v x = Ok s /\ oi_rep s (ones_all F (runs_rank F x)).
  Proof.
    unfold rl_successor. rewrite len_eq. pose proof Fend as He. pose proof Fok as HFok.
    destruct (N.leb_spec L x) as [Hge|Hlt].
    - exists (oi_empty v). split; [reflexivity|].
      rewrite (runs_rank_above _ _ _ _ HFok) by lia. rewrite ones_all_beyond by (pose proof (rones_spec F); lia).
      exact oi_empty_rep.
    - destruct (iter_for_bit_spec m v BS L Hok x Hlt) as (it & dn & todo & Hit & Ha & Hd).
      rewrite Hit. cbn [bind].
      destruct (succ_loop_oi x todo _ it dn Ha (fuel_ok _ _ _ Ha) Hd) as (res & Hl & Hres).
      rewrite Hl. cbn [bind].
      destruct (abs_ok _ _ _ Ha) as (HF & _ & _ & Hdn & _). fold F in HF.
      assert (Hrk : runs_rank F x = rones dn + runs_rank todo x).
      { rewrite HF, runs_rank_app, (runs_rank_above _ _ _ _ Hdn Hd). reflexivity. }
      destruct res as [[it' rank]|].
      + destruct Hres as [E HOI]. eexists. split; [reflexivity|]. left. exists rank. split; [exact HOI|].
        rewrite Hrk, E. reflexivity.
      + exists (oi_empty v). split; [reflexivity|].
        assert (Hq : rones F = rones dn + rones todo) by (rewrite HF, rones_app; reflexivity).
        rewrite ones_all_beyond by (pose proof (rones_spec F); lia). exact oi_empty_rep.
  Qed.

  Lemma rank_before_first first from R x :
    runs_ok first from R -> match R with [] => True | r :: _ => x < fst r end -> runs_rank R (x + 1) = 0.
  Proof.
    intros HR Hx. destruct R as [|r t]; [reflexivity|]. cbn [runs_ok] in HR. destruct HR as (H0 & H1 & H2).
    cbn [runs_rank]. rewrite (runs_rank_below false (fst r + snd r) t) by (try assumption; lia).
    unfold overlap. lia.
  Qed.

  Lemma predecessor_entry x : exists s, rl_predecessor m v x = Ok s /\
    oi_rep s (let k := runs_rank F (x + 1) in if k =? 0 then [] else ones_all F (k - 1)).
  Proof.
    unfold rl_predecessor. rewrite len_eq. pose proof Fend as He. pose proof Fok as HFok. cbn zeta.
    destruct (N.eqb_spec L 0) as [HL0|HL0].
    - exists (oi_empty v). split; [reflexivity|].
      assert (HFnil : F = []).
      { destruct F as [|r t] eqn:EF; [reflexivity|]. cbn [runs_ok runs_end_from] in *.
        destruct HFok as (_ & H1 & H2). pose proof (runs_ok_end _ _ _ H2). lia. }
      rewrite HFnil. cbn [runs_rank]. change (0 =? 0) with true. cbn iota. exact oi_empty_rep.
    - set (y := N.min x (L - 1)).
      assert (Hy : y < L) by (subst y; lia).
      assert (Hclamp : runs_rank F (x + 1) = runs_rank F (y + 1)).
      { subst y. destruct (N.le_gt_cases x (L - 1)) as [Hv|Hv].
        - replace (N.min x (L - 1)) with x by lia. reflexivity.
        - replace (N.min x (L - 1)) with (L - 1) by lia.
          rewrite !(runs_rank_above _ _ _ _ HFok) by lia. reflexivity. }
      rewrite Hclamp.
      destruct (iter_for_bit_spec m v BS L Hok y Hy) as (it & dn & todo & Hit & Ha & Hd).
      rewrite Hit. cbn [bind].
      destruct (pred_loop_spec m v BS L Hok y todo _ it dn Ha (fuel_ok _ _ _ Ha)) as (it' & taken & rest & Hl & Ht & Ha' & Hall & Hrest).
      rewrite Hl. cbn [bind].
      destruct (abs_ok _ _ _ Ha') as (HF & Hr' & Ho' & Hdn' & Hrst). fold F in HF.
      destruct (abs_ok _ _ _ Ha) as (_ & _ & _ & Hdn & _).
      rewrite Hr'.
      destruct (list_last_case (dn ++ taken)) as [Hnil|(pre & r & Hlast)].
      + rewrite Hnil in *. cbn [rones]. change (0 =? 0) with true. cbn iota.
        exists (oi_empty v). split; [reflexivity|]. cbn [app] in HF. rewrite HF.
        rewrite (rank_before_first _ _ rest y Hrst Hrest). change (0 =? 0) with true. cbn iota. exact oi_empty_rep.
      + rewrite Hlast in *.
        assert (Hpos : 1 <= snd r).
        { apply runs_ok_app in Hdn'. destruct Hdn' as [_ Hq]. cbn [runs_ok] in Hq. lia. }
        rewrite rones_app in *. cbn [rones] in *.
        replace (rones pre + (snd r + 0) =? 0) with false by lia.
        rewrite runs_end_from_app in Ho'. cbn [runs_end_from] in Ho'.
        assert (Hrx : fst r <= y).
        { destruct (list_last_case taken) as [Htn|(tk & r2 & Htk)].
          - rewrite Htn, app_nil_r in Hlast. rewrite Hlast in Hd, Hdn.
            rewrite runs_end_from_app in Hd. cbn [runs_end_from] in Hd. lia.
          - rewrite Htk, app_assoc in Hlast. apply app_inj_tail in Hlast. destruct Hlast as [_ <-].
            rewrite Htk in Hall. apply Forall_app in Hall. destruct Hall as [_ Hall].
            inversion Hall; subst. assumption. }
        rewrite <- app_assoc in HF. cbn [app] in HF.
        (* rank(y + 1) over F = pre ++ r :: rest *)
        assert (Hpre : runs_ok true 0 pre /\ runs_end_from 0 pre <= fst r).
        { apply runs_ok_app in Hdn'. destruct Hdn' as [Hp Hq]. split; [exact Hp|].
          cbn [runs_ok] in Hq. destruct pre; lia. }
        destruct Hpre as [Hpre Hpe].
        replace (match pre ++ [r] with [] => true | _ :: _ => false end) with false in Hrst by (destruct pre; reflexivity).
        rewrite runs_end_from_app in Hrst. cbn [runs_end_from] in Hrst.
        assert (Hrk : runs_rank F (y + 1) = rones pre + (N.min (y + 1) (fst r + snd r) - fst r)).
        { rewrite HF, runs_rank_app. cbn [runs_rank].
          rewrite (runs_rank_above _ _ _ _ Hpre) by lia.
          rewrite (rank_before_first _ _ rest y Hrst Hrest). unfold overlap. lia. }
        rewrite Hrk.
        replace (rones pre + (N.min (y + 1) (fst r + snd r) - fst r) =? 0) with false by lia.
        unfold ri_rank_at. rewrite Ho', Hr'.
        eexists. split; [reflexivity|]. left. eexists. split.
        * apply (OI_inside it' pre r rest); [exact Ha'|].
          destruct (N.ltb_spec y (fst r + snd r)); lia.
        * f_equal. destruct (N.ltb_spec y (fst r + snd r)); lia.
  Qed.

  (* ---- every call sequence ---- *)

  Definition fwd_nolen (c : call) : Prop := call_fwd c /\ c <> Len.

  Theorem run_iter_refines cs : Forall fwd_nolen cs ->
    exists it it', rl_run_iter v = Ok it /\ it_run (rl_ri_step m v) it cs = Ok (it', snd (dq_run F cs)).
  Proof.
    intros Hcs. destruct ri_start as (it & E & Hr).
    destruct (lifting_rel (rl_ri_step m v) ri_rep fwd_nolen
                (fwd_step_refines_nolen (ri_next m v) (fun _ => rl_fuel v) ri_rep ri_rep_next ri_rep_fuel) cs it F Hr Hcs)
      as (it' & E' & _).
    exists it, it'. split; assumption.
  Qed.

  Lemma oi_all cs s l : oi_rep s l -> Forall call_fwd cs ->
    exists s', it_run (rl_oi_step m v) s cs = Ok (s', snd (dq_run l cs)).
  Proof.
    intros Hr Hcs.
    destruct (lifting_rel (rl_oi_step m v) oi_rep call_fwd
                (fwd_step_refines (oi_next m v) (fun s => of_hint (oi_size_hint v s)) oi_rep oi_rep_next oi_rep_fuel
                                  (oi_size_hint v) oi_rep_hint) cs s l Hr Hcs) as (s' & E & _).
    exists s'. exact E.
  Qed.

  Lemma zi_all cs s l : zi_rep s l -> Forall call_fwd cs ->
    exists s', it_run (rl_zi_step m v) s cs = Ok (s', snd (dq_run l cs)).
  Proof.
    intros Hr Hcs.
    destruct (lifting_rel (rl_zi_step m v) zi_rep call_fwd
                (fwd_step_refines (zi_next m v) (fun s => of_hint (zi_size_hint v s)) zi_rep zi_rep_next zi_rep_fuel
                                  (zi_size_hint v) zi_rep_hint) cs s l Hr Hcs) as (s' & E & _).
    exists s'. exact E.
  Qed.

  Theorem iter_refines cs : Forall call_fwd cs ->
    exists s s', rl_iter v = Ok s /\ it_run (rl_bi_step m v) s cs = Ok (s', snd (dq_run (bits_all F L 0) cs)).
  Proof.
    intros Hcs. destruct iter_entry as (s & E & Hr).
    destruct (lifting_rel (rl_bi_step m v) bi_rep call_fwd
                (fwd_step_refines (bi_next m v) (fun s => of_hint (bi_size_hint v s)) bi_rep bi_rep_next bi_rep_fuel
                                  (bi_size_hint v) bi_rep_hint) cs s _ Hr Hcs) as (s' & E' & _).
    exists s, s'. split; assumption.
  Qed.

  Theorem one_iters_refine e l cs : rl_ref F L e = Some l -> Forall call_fwd cs ->
    match rl_oi_entry m v e with
    | Some start => exists s s', start = Ok s /\ it_run (rl_oi_step m v) s cs = Ok (s', snd (dq_run l cs))
    | None => True
    end.
  Proof.
    intros Hl Hcs. destruct e; cbn [rl_oi_entry]; try exact I; cbn [rl_ref] in Hl; injection Hl as <-.
    - destruct one_iter_entry as (s & E & Hr). destruct (oi_all cs s _ Hr Hcs) as (s' & E'). eauto.
    - destruct (select_iter_entry r) as (s & E & Hr). destruct (oi_all cs s _ Hr Hcs) as (s' & E'). eauto.
    - destruct (predecessor_entry v0) as (s & E & Hr). destruct (oi_all cs s _ Hr Hcs) as (s' & E'). eauto.
    - destruct (successor_entry v0) as (s & E & Hr). destruct (oi_all cs s _ Hr Hcs) as (s' & E'). eauto.
  Qed.

  Theorem zero_iters_refine e l cs : rl_ref F L e = Some l -> Forall call_fwd cs ->
    match rl_zi_entry m v e with
    | Some start => exists s s', start = Ok s /\ it_run (rl_zi_step m v) s cs = Ok (s', snd (dq_run l cs))
    | None => True
    end.
  Proof.
    intros Hl Hcs. destruct e; cbn [rl_zi_entry]; try exact I; cbn [rl_ref] in Hl; injection Hl as <-.
    - destruct zero_iter_entry as (s & E & Hr). destruct (zi_all cs s _ Hr Hcs) as (s' & E'). eauto.
    - destruct (select_zero_iter_entry r) as (s & E & Hr). destruct (zi_all cs s _ Hr Hcs) as (s' & E'). eauto.
  Qed.
End Deque.

(* ================================================================ 4. assembled over the builder, as in C03 *)

Theorem rl_run_iter_deque m R L cs :
  runs_sorted 0 R -> runs_end R <= L -> L <= 2 ^ 64 - 1 -> lenN R < 2 ^ 56 ->
  Forall (fun c => call_fwd c /\ c <> Len) cs ->
  exists v it it',
    rl_build m (rl_ops R L) = Ok (v, map (fun _ => true) R ++ [true]) /\
    rl_run_iter v = Ok it /\ it_run (rl_ri_step m v) it cs = Ok (it', snd (dq_run (maximal R) cs)).
Proof.
  intros Hs He HL Hn Hcs. apply runs_srt_sorted in Hs. rewrite runs_end_spec in He.
  destruct (rl_build_ok m R L Hs He ltac:(lia) Hn) as (v & BS & Hb & Hok & HF).
  destruct (run_iter_refines m v BS L Hok cs Hcs) as (it & it' & E1 & E2).
  exists v, it, it'. rewrite <- HF. auto.
Qed.

Theorem rl_iters_deque m R L :
  runs_sorted 0 R -> runs_end R <= L -> L <= 2 ^ 64 - 1 -> lenN R < 2 ^ 56 ->
  exists v,
    rl_build m (rl_ops R L) = Ok (v, map (fun _ => true) R ++ [true]) /\
    (forall cs, Forall call_fwd cs ->
       exists s s', rl_iter v = Ok s /\
         it_run (rl_bi_step m v) s cs = Ok (s', snd (dq_run (bits_all (maximal R) L 0) cs))) /\
    (forall e l cs, rl_ref (maximal R) L e = Some l -> Forall call_fwd cs ->
       match rl_oi_entry m v e with
       | Some start => exists s s', start = Ok s /\ it_run (rl_oi_step m v) s cs = Ok (s', snd (dq_run l cs))
       | None => True
       end) /\
    (forall e l cs, rl_ref (maximal R) L e = Some l -> Forall call_fwd cs ->
       match rl_zi_entry m v e with
       | Some start => exists s s', start = Ok s /\ it_run (rl_zi_step m v) s cs = Ok (s', snd (dq_run l cs))
       | None => True
       end).
Proof.
  intros Hs He HL Hn. apply runs_srt_sorted in Hs. rewrite runs_end_spec in He.
  destruct (rl_build_ok m R L Hs He ltac:(lia) Hn) as (v & BS & Hb & Hok & HF).
  exists v. split; [exact Hb|]. rewrite <- HF.
  split; [intros cs Hcs; exact (iter_refines m v BS L Hok cs Hcs)|].
  split; [intros e l cs Hl Hcs; exact (one_iters_refine m v BS L Hok e l cs Hl Hcs)|].
  intros e l cs Hl Hcs; exact (zero_iters_refine m v BS L Hok e l cs Hl Hcs).
Qed.

(* the references are what they should be: exact lengths, consecutive ranks, the first item of predecessor / successor *)
Theorem rl_ref_facts F L : runs_maximal true 0 F -> runs_end F <= L ->
  (forall k, lenA (ones_all F k) = runs_ones F - k) /\
  (forall k, lenA (zeros_all F L k) = L - runs_ones F - k) /\
  (forall p, lenA (bits_all F L p) = L - p) /\
  (forall k, hd_error (ones_all F k) = match runs_select F k with Some p => Some (k, p) | None => None end) /\
  (forall k, hd_error (zeros_all F L k) = match runs_select_zero F L k with Some p => Some (k, p) | None => None end) /\
  (forall x, match rl_ref F L (ESucc x) with Some l => hd_error l = runs_succ F x | None => False end) /\
  (forall x, match rl_ref F L (EPred x) with Some l => hd_error l = runs_pred F x | None => False end).
Proof.
  intros HF He. apply runs_ok_maximal in HF. rewrite runs_end_spec in He.
  split; [exact (ones_all_len F)|]. split; [exact (zeros_all_len F L HF He)|]. split; [exact (bits_all_len F L)|].
  assert (H1 : forall k, hd_error (ones_all F k) = match runs_select F k with Some p => Some (k, p) | None => None end).
  { intros k. destruct (runs_select F k) as [p|] eqn:E.
    - rewrite (ones_all_some F k p E). reflexivity.
    - rewrite (ones_all_none F k E). reflexivity. }
  split; [exact H1|]. split.
  { intros k. destruct (runs_select_zero F L k) as [p|] eqn:E.
    - rewrite (zeros_all_some F L HF He k p E). reflexivity.
    - rewrite (zeros_all_none F L k E). reflexivity. }
  split.
  - intros x. cbn [rl_ref]. rewrite H1. reflexivity.
  - intros x. cbn [rl_ref]. unfold runs_pred. cbn zeta. destruct (runs_rank F (x + 1) =? 0); [reflexivity|]. apply H1.
Qed.

(* ================================================================ 5. nth beyond what is left (C09) *)

(* after ANY history, nth(n) with n >= the number of items left answers None, the following next() answers None and
   the length is 0 - in the specification, hence (rl_iters_deque) in the three iterators *)
Lemma dq_nth_beyond {A} (l : list A) cs n : lenA (fst (dq_run l cs)) <= n ->
  snd (dq_run l (cs ++ [Nth n; Next; Len])) = snd (dq_run l cs) ++ [Item None; Item None; Count 0].
Proof.
  intros H. rewrite dq_run_app. cbn [snd]. f_equal.
  rewrite !dq_run_cons. cbn [dq_run snd fst].
  rewrite (dq_step_nth_none _ n H). cbn [fst snd]. rewrite !dq_step_nil. reflexivity.
Qed.

Lemma fwd_app_tail cs n : Forall call_fwd cs -> Forall call_fwd (cs ++ [Nth n; Next; Len]).
Proof. intros H. apply Forall_app. split; [exact H|]. repeat constructor. Qed.

Theorem rl_nth_beyond m R L :
  runs_sorted 0 R -> runs_end R <= L -> L <= 2 ^ 64 - 1 -> lenN R < 2 ^ 56 ->
  exists v,
    rl_build m (rl_ops R L) = Ok (v, map (fun _ => true) R ++ [true]) /\
    (forall cs n, Forall call_fwd cs -> lenA (fst (dq_run (ones_all (maximal R) 0) cs)) <= n ->
       exists s s', rl_one_iter v = Ok s /\
         it_run (rl_oi_step m v) s (cs ++ [Nth n; Next; Len]) =
           Ok (s', snd (dq_run (ones_all (maximal R) 0) cs) ++ [Item None; Item None; Count 0])) /\
    (forall cs n, Forall call_fwd cs -> lenA (fst (dq_run (zeros_all (maximal R) L 0) cs)) <= n ->
       exists s s', rl_zero_iter m v = Ok s /\
         it_run (rl_zi_step m v) s (cs ++ [Nth n; Next; Len]) =
           Ok (s', snd (dq_run (zeros_all (maximal R) L 0) cs) ++ [Item None; Item None; Count 0])) /\
    (forall cs n, Forall call_fwd cs -> lenA (fst (dq_run (bits_all (maximal R) L 0) cs)) <= n ->
       exists s s', rl_iter v = Ok s /\
         it_run (rl_bi_step m v) s (cs ++ [Nth n; Next; Len]) =
           Ok (s', snd (dq_run (bits_all (maximal R) L 0) cs) ++ [Item None; Item None; Count 0])).
Proof.
  intros Hs He HL Hn. destruct (rl_iters_deque m R L Hs He HL Hn) as (v & Hb & Hbi & Hoi & Hzi).
  exists v. split; [exact Hb|]. split; [|split].
  - intros cs n Hcs Hlen.
    pose proof (Hoi EOne _ (cs ++ [Nth n; Next; Len]) eq_refl (fwd_app_tail cs n Hcs)) as H.
    cbn [rl_oi_entry] in H. destruct H as (s & s' & E1 & E2). exists s, s'. split; [exact E1|].
    rewrite E2, (dq_nth_beyond _ cs n Hlen). reflexivity.
  - intros cs n Hcs Hlen.
    pose proof (Hzi EZero _ (cs ++ [Nth n; Next; Len]) eq_refl (fwd_app_tail cs n Hcs)) as H.
    cbn [rl_zi_entry] in H. destruct H as (s & s' & E1 & E2). exists s, s'. split; [exact E1|].
    rewrite E2, (dq_nth_beyond _ cs n Hlen). reflexivity.
  - intros cs n Hcs Hlen.
    destruct (Hbi (cs ++ [Nth n; Next; Len]) (fwd_app_tail cs n Hcs)) as (s & s' & E1 & E2). exists s, s'.
    split; [exact E1|]. rewrite E2, (dq_nth_beyond _ cs n Hlen). reflexivity.
Qed.
