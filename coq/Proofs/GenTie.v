(* Tie lemmas between the Gallina that tools/gen.py translates from the CURRENT Rust source (gen/Funs2.v) and the
   hand-written model functions. One file per group of source files, so that a change to one function breaks
   only the properties anchored at its source file:
     GenTieBits   src/bits.rs                                  (C17)
     GenTieRL     src/rl_vector.rs, src/rl_vector/index.rs     (C03)
     GenTieSparse src/sparse_vector.rs                         (C02)
     GenTieSer    src/raw_vector.rs, int_vector.rs, serialize.rs (C06)
     GenTieBV     src/bit_vector/rank_support.rs, select_support.rs (C01)
   This file only collects them (make Proofs/GenTie.vo checks every tie). *)
Require Export SDS.Proofs.GenTieBits SDS.Proofs.GenTieRL SDS.Proofs.GenTieSparse SDS.Proofs.GenTieSer SDS.Proofs.GenTieBV.
