(* Proofs about Model/IntVec.v: the invariant of IntVector, its abstraction to (width, list N), every operation
   against the list specification of Spec/SeqSpec.v, canonical form, pack, and operation histories.
   Everything is reduced to the RawVector results of Proofs/RawProof.v through [bits_of_items]. *)
From Coq Require Import NArith List Lia ZArith Bool.
Require Import SDS.Model.Mach SDS.Model.Bits SDS.Model.Raw SDS.Model.IntVec SDS.Model.Hist SDS.gen.Consts.
Require Import SDS.Spec.BitSeq SDS.Spec.SeqSpec SDS.Proofs.BitsProof SDS.Proofs.RawProof.
Import ListNotations.
Open Scope N_scope.
Require Import ZifyBool ZifyN ZifyNat.
Ltac Zify.zify_post_hook ::= Z.div_mod_to_equations.
Arguments N.add : simpl never. Arguments N.sub : simpl never. Arguments N.mul : simpl never.
Arguments N.eqb : simpl never. Arguments N.ltb : simpl never. Arguments N.leb : simpl never.
Arguments N.pow : simpl never. Arguments N.shiftl : simpl never. Arguments N.shiftr : simpl never.
Arguments N.land : simpl never. Arguments N.lor : simpl never. Arguments N.div : simpl never.
Arguments N.modulo : simpl never. Arguments N.ones : simpl never. Arguments N.testbit : simpl never.
Arguments N.lxor : simpl never. Arguments N.min : simpl never. Arguments N.max : simpl never.

(* ---- abstraction and invariant ---- *)

Definition iv_inv (v : intvec) : Prop :=
  1 <= iwidth v <= 64 /\ rlen (idata v) = ilen v * iwidth v /\ raw_inv (idata v).

(* the items: consecutive fields of [iwidth] bits of the raw content *)
Definition abs_iv (v : intvec) : list N := items_of (iwidth v) (N.to_nat (ilen v)) (abs_raw (idata v)).
(* the abstract state: width and items *)
Definition abs_is (v : intvec) : N * list N := (iwidth v, abs_iv v).

Definition fits (w : N) (xs : list N) : Prop := Forall (fun x => x < 2 ^ w) xs.

(* ---- bits <-> items ---- *)

Lemma vbits_bits_val l w : w <= 64 -> lenL l = w -> vbits (bits_val l) w = l.
Proof.
  intros Hw Hl. apply list_ext_nthb; [rewrite lenL_vbits by assumption; lia|].
  intros i. rewrite nthb_vbits, bits_val_testbit by assumption.
  destruct (N.ltb_spec i w) as [H|H]; cbn [andb]; [reflexivity|].
  symmetry. apply nthb_beyond. lia.
Qed.

Lemma items_of_repr w n : forall l,
  w <= 64 -> lenL l = N.of_nat n * w ->
  l = bits_of_items w (items_of w n l) /\ length (items_of w n l) = n /\ fits w (items_of w n l).
Proof.
  induction n as [|n IH]; intros l Hw Hl.
  - cbn [items_of]. split; [|split; [reflexivity|constructor]].
    rewrite boi_nil. apply lenL_0. lia.
  - cbn [items_of].
    assert (Hl1 : lenL (dropN w l) = N.of_nat n * w) by (rewrite lenL_dropN; lia).
    assert (Hl2 : lenL (takeN w l) = w) by (rewrite lenL_takeN; nia).
    destruct (IH (dropN w l) Hw Hl1) as (E & Hlen & Hf).
    split; [|split].
    + rewrite boi_cons, <- E, vbits_bits_val by assumption. symmetry. apply takeN_dropN.
    + cbn [length]. congruence.
    + constructor; [|exact Hf]. rewrite <- Hl2 at 2. apply bits_val_lt.
Qed.

Lemma iv_repr v :
  iv_inv v ->
  abs_raw (idata v) = bits_of_items (iwidth v) (abs_iv v) /\ lenL (abs_iv v) = ilen v /\ fits (iwidth v) (abs_iv v).
Proof.
  intros (Hw & Hl & Hinv). unfold abs_iv.
  destruct (items_of_repr (iwidth v) (N.to_nat (ilen v)) (abs_raw (idata v))) as (E & Hlen & Hf).
  - lia.
  - rewrite abs_len by assumption. rewrite Hl. lia.
  - split; [exact E|]. split; [unfold lenL; lia|exact Hf].
Qed.

(* a state whose raw content spells the items xs is valid and abstracts to xs *)
Lemma iv_of_bits len w d xs :
  1 <= w <= 64 -> raw_inv d -> abs_raw d = bits_of_items w xs -> fits w xs -> lenL xs = len ->
  iv_inv (mkiv len w d) /\ abs_iv (mkiv len w d) = xs.
Proof.
  intros Hw Hinv E Hf Hl. split.
  - split; [exact Hw|]. split; [|exact Hinv]. cbn [idata ilen iwidth].
    rewrite <- (abs_len d Hinv), E, lenL_boi by lia. lia.
  - unfold abs_iv. cbn [idata ilen iwidth]. rewrite E.
    replace (N.to_nat len) with (length xs) by (unfold lenL in Hl; lia).
    apply items_of_boi; [lia|exact Hf].
Qed.

Lemma fits_nthn w xs i : fits w xs -> i < lenL xs -> nthn xs i < 2 ^ w.
Proof.
  intros Hf Hi. pose proof (Forall_dropN _ i xs Hf) as H. rewrite dropN_nthn in H by assumption.
  inversion H; assumption.
Qed.

Lemma fits_app w l1 l2 : fits w l1 -> fits w l2 -> fits w (l1 ++ l2).
Proof. intros H1 H2. apply Forall_app. split; assumption. Qed.

Lemma map_trunc_fits w xs : fits w xs -> map (trunc w) xs = xs.
Proof.
  induction xs as [|x t IH]; intros H; [reflexivity|]. inversion H; subst. cbn [map].
  rewrite trunc_small by assumption. f_equal. apply IH. assumption.
Qed.

(* the field of item i *)
Lemma field_of_item w xs i :
  w <= 64 -> fits w xs -> i < lenL xs ->
  bits_val (takeN w (dropN (i * w) (bits_of_items w xs))) = nthn xs i.
Proof.
  intros Hw Hf Hi. rewrite dropN_boi by lia. rewrite dropN_nthn by assumption.
  rewrite boi_cons, takeN_app_exact by (apply lenL_vbits; assumption).
  rewrite bits_val_vbits by assumption. apply N.mod_small. apply fits_nthn; assumption.
Qed.

(* ---- constructors ---- *)

Lemma width_ok_true w : 1 <= w <= 64 -> width_ok w = true.
Proof. intros H. unfold width_ok. change bits_WORD_BITS with 64. lia. Qed.

Lemma iv_empty_ok w : 1 <= w <= 64 -> iv_inv (mkiv 0 w raw_new) /\ abs_iv (mkiv 0 w raw_new) = [].
Proof.
  intros Hw. destruct raw_new_ok as [Hinv Habs].
  apply iv_of_bits; [exact Hw|exact Hinv|rewrite Habs; reflexivity|constructor|reflexivity].
Qed.

Theorem iv_new_ok w :
  1 <= w <= 64 -> exists v, iv_new w = Some v /\ iv_inv v /\ abs_is v = (w, []).
Proof.
  intros Hw. unfold iv_new. rewrite width_ok_true by assumption. eexists. split; [reflexivity|].
  destruct (iv_empty_ok w Hw) as [Hi Ha]. split; [exact Hi|]. unfold abs_is. rewrite Ha. reflexivity.
Qed.

Theorem iv_new_rejects w : ~ (1 <= w <= 64) -> iv_new w = None.
Proof. intros H. unfold iv_new, width_ok. change bits_WORD_BITS with 64. replace ((w =? 0) || (64 <? w)) with true by lia. reflexivity. Qed.

(* ---- push and everything built from it ---- *)

Theorem iv_push_ok v x :
  iv_inv v ->
  exists v', iv_push v x = Ok v' /\ iv_inv v' /\ iwidth v' = iwidth v /\
             abs_iv v' = abs_iv v ++ [trunc (iwidth v) x].
Proof.
  intros Hinv. pose proof Hinv as (Hw & Hl & Hr). destruct (iv_repr v Hinv) as (E & Hlen & Hf).
  unfold iv_push. destruct (raw_push_int_ok (idata v) x (iwidth v) Hr ltac:(lia)) as (d' & Ed & Hr' & Ha').
  rewrite Ed. cbn [bind]. eexists. split; [reflexivity|].
  assert (H : iv_inv (mkiv (ilen v + 1) (iwidth v) d') /\
              abs_iv (mkiv (ilen v + 1) (iwidth v) d') = abs_iv v ++ [trunc (iwidth v) x]).
  { apply iv_of_bits; [exact Hw|exact Hr'| | |].
    - rewrite Ha', E, boi_app, boi_single, vbits_trunc by lia. reflexivity.
    - apply fits_app; [exact Hf|]. constructor; [apply trunc_lt|constructor].
    - rewrite lenL_app, Hlen. reflexivity. }
  destruct H as [H1 H2]. split; [exact H1|]. split; [reflexivity|exact H2].
Qed.

Theorem iv_push_all_ok ys : forall v,
  iv_inv v ->
  exists v', iv_push_all v ys = Ok v' /\ iv_inv v' /\ iwidth v' = iwidth v /\
             abs_iv v' = abs_iv v ++ map (trunc (iwidth v)) ys.
Proof.
  induction ys as [|y t IH]; intros v Hinv.
  - exists v. cbn [iv_push_all map]. rewrite app_nil_r. auto.
  - cbn [iv_push_all map]. destruct (iv_push_ok v y Hinv) as (v1 & E1 & Hi1 & Hw1 & Ha1).
    rewrite E1. cbn [bind]. destruct (IH v1 Hi1) as (v2 & E2 & Hi2 & Hw2 & Ha2).
    exists v2. split; [exact E2|]. split; [exact Hi2|]. split; [congruence|].
    rewrite Ha2, Ha1, Hw1, <- app_assoc. reflexivity.
Qed.

Lemma map_repeatN {A B} (f : A -> B) x n : map f (repeatN x n) = repeat (f x) n.
Proof. induction n; cbn [repeatN repeat map]; congruence. Qed.

Lemma push_n_ok n : forall r v w,
  raw_inv r -> w <= 64 ->
  exists r', push_n r n v w = Ok r' /\ raw_inv r' /\
             abs_raw r' = abs_raw r ++ bits_of_items w (repeat (trunc w v) n).
Proof.
  induction n as [|n IH]; intros r v w Hinv Hw.
  - exists r. cbn [push_n repeat]. rewrite boi_nil, app_nil_r. auto.
  - cbn [push_n repeat]. destruct (raw_push_int_ok r v w Hinv Hw) as (r1 & E1 & Hi1 & Ha1).
    rewrite E1. cbn [bind]. destruct (IH r1 v w Hi1 Hw) as (r2 & E2 & Hi2 & Ha2).
    exists r2. split; [exact E2|]. split; [exact Hi2|].
    rewrite Ha2, Ha1, boi_cons, vbits_trunc, <- app_assoc by assumption. reflexivity.
Qed.

Theorem iv_with_len_ok len w value :
  1 <= w <= 64 ->
  exists v, iv_with_len len w value = Some (Ok v) /\ iv_inv v /\ abs_is v = (w, repN (trunc w value) len).
Proof.
  intros Hw. unfold iv_with_len. rewrite width_ok_true by assumption.
  destruct raw_new_ok as [Hinv0 Habs0].
  destruct (push_n_ok (N.to_nat len) raw_new value w Hinv0 ltac:(lia)) as (d & E & Hi & Ha).
  rewrite E. cbn [bind]. eexists. split; [reflexivity|].
  assert (H : iv_inv (mkiv len w d) /\ abs_iv (mkiv len w d) = repN (trunc w value) len).
  { apply iv_of_bits; [exact Hw|exact Hi| | |].
    - rewrite Ha, Habs0. reflexivity.
    - apply Forall_repN. apply trunc_lt.
    - apply lenL_repN. }
  destruct H as [H1 H2]. split; [exact H1|]. unfold abs_is. rewrite H2. reflexivity.
Qed.

Theorem iv_from_ok w xs :
  1 <= w <= 64 ->
  exists v, iv_from w xs = Ok v /\ iv_inv v /\ abs_is v = (w, map (trunc w) xs).
Proof.
  intros Hw. unfold iv_from. destruct (iv_empty_ok w Hw) as [Hi Ha].
  destruct (iv_push_all_ok xs _ Hi) as (v & E & Hi' & Hw' & Ha').
  exists v. split; [exact E|]. split; [exact Hi'|]. unfold abs_is. rewrite Hw', Ha', Ha. reflexivity.
Qed.

(* ---- get / set / pop ---- *)

Theorem iv_get_ok v i : iv_inv v -> i < ilen v -> iv_get v i = Ok (nthn (abs_iv v) i).
Proof.
  intros Hinv Hi. pose proof Hinv as (Hw & Hl & Hr). destruct (iv_repr v Hinv) as (E & Hlen & Hf).
  unfold iv_get. replace (i <? ilen v) with true by lia.
  rewrite raw_int_ok by (try assumption; nia). rewrite E.
  rewrite field_of_item by (try assumption; lia). reflexivity.
Qed.

Theorem iv_get_rejects v i : ilen v <= i -> iv_get v i = Panic PAssert.
Proof. intros H. unfold iv_get. replace (i <? ilen v) with false by lia. reflexivity. Qed.

Theorem iv_set_rejects v i x : ilen v <= i -> iv_set v i x = Panic PAssert.
Proof. intros H. unfold iv_set. replace (i <? ilen v) with false by lia. reflexivity. Qed.

Theorem iv_set_ok v i x :
  iv_inv v -> i < ilen v ->
  exists v', iv_set v i x = Ok v' /\ iv_inv v' /\ iwidth v' = iwidth v /\
             abs_iv v' = takeN i (abs_iv v) ++ [trunc (iwidth v) x] ++ dropN (i + 1) (abs_iv v).
Proof.
  intros Hinv Hi. pose proof Hinv as (Hw & Hl & Hr). destruct (iv_repr v Hinv) as (E & Hlen & Hf).
  unfold iv_set. replace (i <? ilen v) with true by lia.
  destruct (raw_set_int_ok (idata v) (i * iwidth v) x (iwidth v) Hr ltac:(lia) ltac:(nia)) as (d' & Ed & Hr' & Ha').
  rewrite Ed. cbn [bind]. eexists. split; [reflexivity|].
  assert (H : iv_inv (mkiv (ilen v) (iwidth v) d') /\
              abs_iv (mkiv (ilen v) (iwidth v) d') =
              takeN i (abs_iv v) ++ [trunc (iwidth v) x] ++ dropN (i + 1) (abs_iv v)).
  { apply iv_of_bits; [exact Hw|exact Hr'| | |].
    - rewrite Ha', E. replace (i * iwidth v + iwidth v) with ((i + 1) * iwidth v) by lia.
      rewrite takeN_boi, dropN_boi by lia.
      rewrite !boi_app, boi_single, vbits_trunc by lia. reflexivity.
    - apply fits_app; [apply Forall_takeN; exact Hf|].
      apply fits_app; [constructor; [apply trunc_lt|constructor]|apply Forall_dropN; exact Hf].
    - rewrite !lenL_app, lenL_takeN, lenL_dropN, Hlen. change (lenL [trunc (iwidth v) x]) with 1. lia. }
  destruct H as [H1 H2]. split; [exact H1|]. split; [reflexivity|exact H2].
Qed.

Theorem iv_pop_ok v :
  iv_inv v ->
  exists v', iv_pop v = Ok (v', if lenL (abs_iv v) =? 0 then None
                                else Some (nthn (abs_iv v) (lenL (abs_iv v) - 1))) /\
             iv_inv v' /\ iwidth v' = iwidth v /\
             abs_iv v' = if lenL (abs_iv v) =? 0 then abs_iv v else takeN (lenL (abs_iv v) - 1) (abs_iv v).
Proof.
  intros Hinv. pose proof Hinv as (Hw & Hl & Hr). destruct (iv_repr v Hinv) as (E & Hlen & Hf).
  pose proof (abs_len _ Hr) as HL.
  unfold iv_pop. destruct (raw_pop_int_ok (idata v) (iwidth v) Hr ltac:(lia)) as (d' & Ed & Hr' & Ha').
  rewrite Ed. cbn [bind]. rewrite Hlen. rewrite HL in *.
  destruct (N.eqb_spec (ilen v) 0) as [Hz|Hnz].
  - replace (iwidth v <=? rlen (idata v)) with false in * by nia.
    replace (0 <? ilen v) with false by lia.
    assert (d' = idata v) by (apply raw_canonical; assumption). subst d'.
    exists v. destruct v as [n w d]. cbn [ilen iwidth idata] in *. auto.
  - replace (iwidth v <=? rlen (idata v)) with true in * by nia.
    replace (0 <? ilen v) with true by lia.
    assert (Hoff : rlen (idata v) - iwidth v = (ilen v - 1) * iwidth v) by nia.
    rewrite Hoff in *.
    eexists. split; [|].
    + do 3 f_equal. rewrite E, dropN_boi by lia.
      rewrite dropN_nthn by lia. replace (ilen v - 1 + 1) with (ilen v) by lia.
      rewrite (dropN_all (ilen v)) by lia. rewrite boi_single, bits_val_vbits by lia.
      apply N.mod_small. apply fits_nthn; [exact Hf|lia].
    + assert (H : iv_inv (mkiv (ilen v - 1) (iwidth v) d') /\
                  abs_iv (mkiv (ilen v - 1) (iwidth v) d') = takeN (ilen v - 1) (abs_iv v)).
      { apply iv_of_bits; [exact Hw|exact Hr'| | |].
        - rewrite Ha', E, takeN_boi by lia. reflexivity.
        - apply Forall_takeN. exact Hf.
        - rewrite lenL_takeN, Hlen. lia. }
      destruct H as [H1 H2]. split; [exact H1|]. split; [reflexivity|exact H2].
Qed.

(* ---- resize / clear / reserve / extend ---- *)

Theorem iv_resize_ok v n x :
  iv_inv v ->
  exists v', iv_resize v n x = Ok v' /\ iv_inv v' /\ iwidth v' = iwidth v /\
             abs_iv v' = takeN n (abs_iv v) ++ repN (trunc (iwidth v) x) (n - lenL (abs_iv v)).
Proof.
  intros Hinv. pose proof Hinv as (Hw & Hl & Hr). destruct (iv_repr v Hinv) as (E & Hlen & Hf).
  pose proof (abs_len _ Hr) as HL.
  unfold iv_resize. rewrite Hlen. destruct (N.ltb_spec (ilen v) n) as [Hgrow|Hnot].
  - destruct (iv_push_all_ok (repeatN x (N.to_nat (n - ilen v))) v Hinv) as (v' & E' & Hi' & Hw' & Ha').
    exists v'. split; [exact E'|]. split; [exact Hi'|]. split; [exact Hw'|].
    rewrite Ha', map_repeatN, takeN_all by lia. reflexivity.
  - destruct (N.ltb_spec n (ilen v)) as [Hshrink|Hsame].
    + destruct (raw_resize_ok (idata v) (n * iwidth v) false Hr) as (d' & Ed & Hr' & Ha').
      rewrite Ed. cbn [bind]. eexists. split; [reflexivity|].
      assert (H : iv_inv (mkiv n (iwidth v) d') /\ abs_iv (mkiv n (iwidth v) d') = takeN n (abs_iv v)).
      { apply iv_of_bits; [exact Hw|exact Hr'| | |].
        - rewrite Ha', HL. replace (n * iwidth v - rlen (idata v)) with 0 by nia.
          rewrite repN_0, app_nil_r, E, takeN_boi by lia. reflexivity.
        - apply Forall_takeN. exact Hf.
        - rewrite lenL_takeN, Hlen. lia. }
      destruct H as [H1 H2]. split; [exact H1|]. split; [reflexivity|].
      rewrite H2. replace (n - ilen v) with 0 by lia. rewrite repN_0, app_nil_r. reflexivity.
    + exists v. split; [reflexivity|]. split; [exact Hinv|]. split; [reflexivity|].
      replace (n - ilen v) with 0 by lia. rewrite repN_0, app_nil_r, takeN_all by lia. reflexivity.
Qed.

Theorem iv_clear_ok v : iv_inv v -> iv_inv (iv_clear v) /\ abs_is (iv_clear v) = (iwidth v, []).
Proof.
  intros (Hw & _ & _). unfold iv_clear. destruct (iv_empty_ok (iwidth v) Hw) as [Hi Ha].
  split; [exact Hi|]. unfold abs_is. rewrite Ha. reflexivity.
Qed.

Theorem iv_extend_ok v ys :
  iv_inv v ->
  exists v', iv_extend v ys = Ok v' /\ iv_inv v' /\ iwidth v' = iwidth v /\
             abs_iv v' = abs_iv v ++ map (trunc (iwidth v)) ys.
Proof. intros H. apply iv_push_all_ok. exact H. Qed.

(* ---- iteration and pack ---- *)

Lemma iv_items_aux_ok v n : forall i,
  iv_inv v -> i + N.of_nat n <= ilen v ->
  iv_items_aux v i n = Ok (takeN (N.of_nat n) (dropN i (abs_iv v))).
Proof.
  induction n as [|n IH]; intros i Hinv Hi.
  - reflexivity.
  - cbn [iv_items_aux]. rewrite iv_get_ok by (assumption || lia). cbn [bind].
    rewrite IH by (assumption || lia). cbn [bind]. f_equal.
    destruct (iv_repr v Hinv) as (_ & Hlen & _).
    rewrite (dropN_nthn i) by lia. unfold takeN.
    replace (N.to_nat (N.of_nat (S n))) with (S (N.to_nat (N.of_nat n))) by lia. reflexivity.
Qed.

Theorem iv_items_ok v : iv_inv v -> iv_items v = Ok (abs_iv v).
Proof.
  intros Hinv. unfold iv_items. rewrite iv_items_aux_ok by (assumption || lia).
  destruct (iv_repr v Hinv) as (_ & Hlen & _). rewrite dropN_0, takeN_all by lia. reflexivity.
Qed.

Lemma digits_bounds m : m < 2 ^ 64 -> 1 <= digits m <= 64 /\ m < 2 ^ digits m.
Proof.
  intros Hm. unfold digits. destruct (N.eqb_spec m 0) as [->|Hz]; [cbn; lia|].
  assert (N.log2 m < 64) by (apply N.log2_lt_pow2; lia).
  split; [lia|]. rewrite N.add_1_r. apply N.log2_spec. lia.
Qed.

Lemma digits_least m w : 0 < m -> m < 2 ^ w -> digits m <= w.
Proof.
  intros Hm Hw. unfold digits. replace (m =? 0) with false by lia.
  assert (N.log2 m < w) by (apply N.log2_lt_pow2; assumption). lia.
Qed.

Lemma list_maxN_fits w xs : fits w xs -> list_maxN xs < 2 ^ w.
Proof.
  intros H. induction xs as [|x t IH]; cbn [list_maxN fold_right].
  - apply N.neq_0_lt_0, N.pow_nonzero. lia.
  - inversion H; subst. fold (list_maxN t). specialize (IH ltac:(assumption)). lia.
Qed.

(* pack: the items are kept; the new width is the number of binary digits of the largest item *)
Theorem iv_pack_ok v :
  iv_inv v ->
  exists v', iv_pack v = Ok v' /\ iv_inv v' /\ abs_iv v' = abs_iv v /\
             iwidth v' = if lenL (abs_iv v) =? 0 then iwidth v else digits (list_maxN (abs_iv v)).
Proof.
  intros Hinv. pose proof Hinv as (Hw & Hl & Hr). destruct (iv_repr v Hinv) as (E & Hlen & Hf).
  unfold iv_pack. rewrite Hlen. destruct (N.eqb_spec (ilen v) 0) as [Hz|Hnz].
  - exists v. auto.
  - rewrite iv_items_ok by assumption. cbn [bind].
    change (list_max (abs_iv v)) with (list_maxN (abs_iv v)).
    set (m := list_maxN (abs_iv v)).
    assert (Hm : m < 2 ^ 64).
    { pose proof (list_maxN_fits _ _ Hf) as H1. fold m in H1.
      assert (2 ^ iwidth v <= 2 ^ 64) by (apply N.pow_le_mono_r; lia). lia. }
    rewrite bit_len_spec by assumption. fold (digits m).
    destruct (digits_bounds m Hm) as (Hd & Hlt).
    destruct (N.eqb_spec (digits m) (iwidth v)) as [Heq|Hne].
    + exists v. split; [reflexivity|]. split; [exact Hinv|]. split; [reflexivity|]. congruence.
    + destruct (iv_empty_ok (digits m) Hd) as [Hi0 Ha0].
      destruct (iv_push_all_ok (abs_iv v) _ Hi0) as (v' & E' & Hi' & Hw' & Ha').
      rewrite E'. cbn [bind]. exists v'. split; [reflexivity|]. split; [exact Hi'|].
      cbn [iwidth] in *. split; [|exact Hw'].
      rewrite Ha', Ha0. cbn [app]. apply map_trunc_fits.
      unfold fits. rewrite Forall_forall. intros x Hx.
      pose proof (list_maxN_ge _ _ Hx) as Hle. fold m in Hle. lia.
Qed.

(* the selected width is the least one that holds every item *)
Theorem pack_width_least xs w :
  xs <> [] -> 1 <= w -> fits w xs -> digits (list_maxN xs) <= w.
Proof.
  intros Hne Hw Hf. pose proof (list_maxN_fits _ _ Hf) as Hm.
  destruct (N.eq_dec (list_maxN xs) 0) as [Hz|Hz]; [rewrite Hz; change (digits 0) with 1; lia|].
  apply digits_least; [lia|exact Hm].
Qed.

(* ---- canonical form ---- *)

Theorem iv_canonical v1 v2 :
  iv_inv v1 -> iv_inv v2 -> abs_is v1 = abs_is v2 -> v1 = v2.
Proof.
  intros H1 H2 E. unfold abs_is in E. injection E as Ew Ea.
  destruct (iv_repr v1 H1) as (E1 & L1 & _). destruct (iv_repr v2 H2) as (E2 & L2 & _).
  assert (Hd : idata v1 = idata v2).
  { apply raw_canonical; [apply H1|apply H2|]. rewrite E1, E2, Ew, Ea. reflexivity. }
  assert (Hn : ilen v1 = ilen v2) by (rewrite <- L1, <- L2, Ea; reflexivity).
  destruct v1 as [n1 w1 d1], v2 as [n2 w2 d2]. cbn [ilen iwidth idata] in *. subst. reflexivity.
Qed.

Lemma iv_eqb_eq a b : iv_eqb a b = true <-> a = b.
Proof.
  unfold iv_eqb. split.
  - intros H. apply andb_true_iff in H. destruct H as [H Hd]. apply andb_true_iff in H. destruct H as [Hn Hw].
    apply N.eqb_eq in Hn, Hw. apply raw_eqb_eq in Hd. destruct a as [n1 w1 d1], b as [n2 w2 d2]. cbn [ilen iwidth idata] in *. subst. reflexivity.
  - intros ->. rewrite !N.eqb_refl, raw_eqb_refl. reflexivity.
Qed.

Theorem iv_count_ones_spec v :
  iv_inv v -> raw_count_ones (idata v) = count (bits_of_items (iwidth v) (abs_iv v)).
Proof.
  intros Hinv. destruct (iv_repr v Hinv) as (E & _ & _). rewrite <- E.
  apply raw_count_ones_spec. apply Hinv.
Qed.

Corollary iv_observers_canonical v1 v2 :
  iv_inv v1 -> iv_inv v2 -> abs_is v1 = abs_is v2 ->
  iv_eqb v1 v2 = true /\ iv_serialize v1 = iv_serialize v2 /\
  raw_count_ones (idata v1) = raw_count_ones (idata v2).
Proof.
  intros H1 H2 E. rewrite (iv_canonical v1 v2 H1 H2 E).
  split; [apply iv_eqb_eq; reflexivity|]. split; reflexivity.
Qed.

(* every stored item is below 2^width *)
Theorem iv_items_fit v : iv_inv v -> fits (iwidth v) (abs_iv v).
Proof. intros H. apply iv_repr. exact H. Qed.

(* ---- one step, then whole histories ---- *)

Theorem istep_refines v o :
  iv_inv v -> iop_pre (abs_is v) o ->
  exists v', istep v o = Ok (v', snd (ispec_step (abs_is v) o)) /\ iv_inv v' /\
             abs_is v' = fst (ispec_step (abs_is v) o).
Proof.
  intros Hinv Hpre. destruct (iv_repr v Hinv) as (_ & Hlen & _).
  unfold abs_is in *.
  destruct o as [len w value|w xs|i|i x|x| |n x| |a| |ys| ];
    cbn [istep ispec_step iop_pre fst snd] in *.
  - destruct (iv_with_len_ok len w value Hpre) as (v' & E & Hi & Ha). rewrite E. cbn [bind]. eauto.
  - destruct (iv_from_ok w xs Hpre) as (v' & E & Hi & Ha). rewrite E. cbn [bind]. eauto.
  - rewrite iv_get_ok by (assumption || lia). cbn [bind]. eauto.
  - destruct (iv_set_ok v i x Hinv ltac:(lia)) as (v' & E & Hi & Hw & Ha). rewrite E. cbn [bind].
    exists v'. rewrite Hw, Ha. auto.
  - destruct (iv_push_ok v x Hinv) as (v' & E & Hi & Hw & Ha). rewrite E. cbn [bind].
    exists v'. rewrite Hw, Ha. auto.
  - destruct (iv_pop_ok v Hinv) as (v' & E & Hi & Hw & Ha). rewrite E. cbn [bind].
    exists v'. rewrite Hw, Ha. destruct (lenL (abs_iv v) =? 0); cbn [fst snd]; auto.
  - destruct (iv_resize_ok v n x Hinv) as (v' & E & Hi & Hw & Ha). rewrite E. cbn [bind].
    exists v'. rewrite Hw, Ha. auto.
  - exists (iv_clear v). destruct (iv_clear_ok v Hinv) as [Hi Ha]. auto.
  - exists v. auto.
  - destruct (iv_pack_ok v Hinv) as (v' & E & Hi & Ha & Hw). rewrite E. cbn [bind].
    exists v'. rewrite Hw, Ha. auto.
  - destruct (iv_extend_ok v ys Hinv) as (v' & E & Hi & Hw & Ha). rewrite E. cbn [bind].
    exists v'. rewrite Hw, Ha. auto.
  - rewrite iv_count_ones_spec by assumption. eauto.
Qed.

Theorem irun_refines ops : forall v,
  iv_inv v -> ipre_all (abs_is v) ops ->
  exists v', irun v ops = Ok (v', snd (ispec_run (abs_is v) ops)) /\ iv_inv v' /\
             abs_is v' = fst (ispec_run (abs_is v) ops).
Proof.
  induction ops as [|o t IH]; intros v Hinv Hpre.
  - exists v. cbn [irun ispec_run fst snd]. auto.
  - destruct Hpre as [Hp Ht]. cbn [irun ispec_run].
    destruct (istep_refines v o Hinv Hp) as (v1 & E1 & Hinv1 & Ha1). rewrite E1. cbn [bind].
    destruct (ispec_step (abs_is v) o) as [s1 x] eqn:Es. cbn [fst snd] in *.
    rewrite <- Ha1 in Ht. destruct (IH v1 Hinv1 Ht) as (v2 & E2 & Hinv2 & Ha2). rewrite E2. cbn [bind].
    rewrite Ha1 in *. destruct (ispec_run s1 t) as [s2 xs]. cbn [fst snd] in *. eauto.
Qed.
