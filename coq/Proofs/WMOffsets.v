(* The offset table of the wavelet matrix (WaveletMatrix::start_offsets, before it is stored in an
   IntVector): entry v is the number of items that sort before v in reversed-bit order if v occurs,
   and the length of the vector otherwise. *)
From Coq Require Import NArith List Lia ZArith Bool Permutation Sorted.
Require Import SDS.Model.Mach SDS.Model.Bits SDS.Model.IntVec SDS.Model.WM.
Require Import SDS.Spec.BitSeq SDS.Spec.Seq SDS.Proofs.BitsProof SDS.Proofs.WMSeq SDS.Proofs.WMLevels SDS.Proofs.WMSpec.
Import ListNotations.
Open Scope N_scope.
Require Import ZifyBool ZifyN ZifyNat.
Ltac Zify.zify_post_hook ::= Z.div_mod_to_equations.
Arguments N.add : simpl never. Arguments N.sub : simpl never. Arguments N.mul : simpl never.
Arguments N.eqb : simpl never. Arguments N.ltb : simpl never. Arguments N.leb : simpl never.
Arguments N.pow : simpl never. Arguments N.div : simpl never. Arguments N.modulo : simpl never.
Arguments N.testbit : simpl never. Arguments N.div2 : simpl never. Arguments N.odd : simpl never.

(* ---------------------------------------------------------------- the model's bit reversal is the spec's key *)

Lemma rev_bits_aux_krev fuel w acc : rev_bits_aux fuel w acc = krev_from fuel w acc.
Proof.
  revert w acc. induction fuel as [|k IH]; intros w acc; cbn [rev_bits_aux krev_from]; [reflexivity|].
  rewrite IH. unfold N.b2n. reflexivity.
Qed.

Lemma reverse_bits_revkey w : reverse_bits w = revkey w.
Proof. unfold reverse_bits, revkey, krev. apply rev_bits_aux_krev. Qed.

Lemma revkey_inj64 x y : x < 2 ^ 64 -> y < 2 ^ 64 -> revkey x = revkey y -> x = y.
Proof. intros Hx Hy H. apply (revkey_eq_small 64 x y); [lia|exact Hx|exact Hy|exact H]. Qed.

(* keep the unifier from unfolding 64 levels of bit reversal when it compares two keys *)
Local Opaque reverse_bits revkey.

(* ---------------------------------------------------------------- sequences and sums *)

Lemma seq_from_length i n : length (seq_from i n) = n.
Proof. revert i. induction n as [|k IH]; intros i; cbn [seq_from length]; [reflexivity|rewrite IH; reflexivity]. Qed.

Lemma seq_from_in i n x : In x (seq_from i n) <-> i <= x < i + N.of_nat n.
Proof.
  revert i. induction n as [|k IH]; intros i; cbn [seq_from In]; [lia|]. rewrite IH. lia.
Qed.

Lemma seq_from_nth i n x : x < N.of_nat n -> nthN (seq_from i n) x = Some (i + x).
Proof.
  revert i x. induction n as [|k IH]; intros i x Hx; [lia|]. cbn [seq_from nthN].
  destruct (N.eqb_spec x 0) as [->|Hn]; [f_equal; lia|]. rewrite IH by lia. f_equal. lia.
Qed.

Lemma seq_from_sorted i n : StronglySorted N.lt (seq_from i n).
Proof.
  revert i. induction n as [|k IH]; intros i; cbn [seq_from]; constructor; [apply IH|].
  rewrite Forall_forall. intros x Hx. apply seq_from_in in Hx. lia.
Qed.

Lemma seq_from_nodup i n : NoDup (seq_from i n).
Proof.
  revert i. induction n as [|k IH]; intros i; cbn [seq_from]; constructor; [|apply IH].
  rewrite seq_from_in. lia.
Qed.

Fixpoint sumN (l : list N) : N := match l with [] => 0 | x :: t => x + sumN t end.
Lemma sumN_app l1 l2 : sumN (l1 ++ l2) = sumN l1 + sumN l2.
Proof. induction l1 as [|x t IH]; cbn [app sumN]; [lia|]. rewrite IH. lia. Qed.
Lemma sumN_perm l1 l2 : Permutation l1 l2 -> sumN l1 = sumN l2.
Proof.
  intros H. induction H as [|x l l' H IH|x y l|l l' l'' H1 IH1 H2 IH2]; cbn [sumN] in *; lia.
Qed.

(* summing, over distinct candidate values, the occurrences of those that satisfy P counts the items satisfying P *)
Lemma sum_counts (P : N -> bool) (S V : list N) :
  NoDup S -> (forall x, In x V -> In x S) ->
  sumN (map (fun u => cnt (fun x => x =? u) V) (filter P S)) = cnt P V.
Proof.
  intros HS. induction V as [|x t IH]; intros Hin.
  - cbn [cnt filter length]. induction (filter P S) as [|u r IHr]; [reflexivity|]. cbn [map sumN]. rewrite IHr. reflexivity.
  - rewrite cnt_cons, <- IH by (intros y Hy; apply Hin; right; exact Hy).
    assert (Hx : In x S) by (apply Hin; left; reflexivity). clear IH Hin.
    induction S as [|u r IHr]; [destruct Hx|]. inversion HS as [|? ? Hnu Hr]; subst.
    cbn [filter]. destruct (N.eq_dec u x) as [->|Hne].
    + destruct (P x) eqn:EP.
      * cbn [map sumN]. rewrite cnt_cons, N.eqb_refl.
        assert (E : map (fun u : N => cnt (fun x0 : N => x0 =? u) (x :: t)) (filter P r)
                    = map (fun u : N => cnt (fun x0 : N => x0 =? u) t) (filter P r)).
        { apply map_ext_in. intros u Hu. apply filter_In in Hu. rewrite cnt_cons.
          destruct (N.eqb_spec x u) as [->|]; [tauto|lia]. }
        rewrite E. lia.
      * assert (E : map (fun u : N => cnt (fun x0 : N => x0 =? u) (x :: t)) (filter P r)
                    = map (fun u : N => cnt (fun x0 : N => x0 =? u) t) (filter P r)).
        { apply map_ext_in. intros u Hu. apply filter_In in Hu. rewrite cnt_cons.
          destruct (N.eqb_spec x u) as [->|]; [tauto|lia]. }
        rewrite E. lia.
    + destruct Hx as [Hx|Hx]; [congruence|]. specialize (IHr Hr Hx).
      destruct (P u); [|exact IHr]. cbn [map sumN].
      rewrite cnt_cons. replace (x =? u) with false by lia. lia.
Qed.

(* ---------------------------------------------------------------- counting loop *)

Definition tab (c : N -> N) (S : list N) : list (N * N) := map (fun i => (i, c i)) S.

Lemma inc_count_tab c s n x :
  x < N.of_nat n ->
  inc_count (tab c (seq_from s n)) x = Ok (tab (fun i => c i + (if i =? s + x then 1 else 0)) (seq_from s n)).
Proof.
  revert s x. induction n as [|k IH]; intros s x Hx; [lia|]. unfold tab. cbn [seq_from map inc_count].
  destruct (N.eqb_spec x 0) as [->|Hn].
  - f_equal. f_equal.
    + replace (s =? s + 0) with true by lia. reflexivity.
    + apply map_ext_in. intros i Hi. apply seq_from_in in Hi. replace (i =? s + 0) with false by lia. f_equal. lia.
  - fold (tab c (seq_from (s + 1) k)). rewrite (IH (s + 1) (x - 1)) by lia. cbn [bind]. f_equal. unfold tab. f_equal.
    + replace (s =? s + x) with false by lia. f_equal. lia.
    + apply map_ext. intros i. replace (s + 1 + (x - 1)) with (s + x) by lia. reflexivity.
Qed.

Lemma count_values_tab c n V :
  (forall x, In x V -> x < N.of_nat n) ->
  count_values (tab c (seq_from 0 n)) V = Ok (tab (fun i => c i + cnt (fun x => x =? i) V) (seq_from 0 n)).
Proof.
  revert c. induction V as [|x t IH]; intros c Hin; cbn [count_values].
  - f_equal. unfold tab. apply map_ext. intros i. cbn. f_equal. lia.
  - rewrite inc_count_tab by (apply Hin; left; reflexivity). cbn [bind].
    rewrite IH by (intros y Hy; apply Hin; right; exact Hy). f_equal. unfold tab. apply map_ext. intros i.
    rewrite cnt_cons. f_equal. rewrite (N.eqb_sym x i). replace (0 + x) with x by lia. lia.
Qed.

(* ---------------------------------------------------------------- sort_by_key *)

Lemma sort_by_key_ext k1 k2 l : (forall p, k1 p = k2 p) -> sort_by_key k1 l = sort_by_key k2 l.
Proof. intros H. unfold sort_by_key. f_equal. f_equal. apply map_ext. intros p. rewrite H. reflexivity. Qed.

Lemma sort_by_key_perm key l : Permutation (sort_by_key key l) l.
Proof.
  unfold sort_by_key. eapply Permutation_trans.
  - apply Permutation_map. apply Permutation_sym. apply KeySort.Permuted_sort.
  - rewrite map_map. cbn [snd]. rewrite map_id. apply Permutation_refl.
Qed.

Lemma sort_by_key_sorted key l : StronglySorted (fun a b => key a <= key b) (sort_by_key key l).
Proof.
  unfold sort_by_key. set (E := map (fun p => (key p, p)) l). apply SS_map.
  eapply SS_impl_in; [|apply (KeySort.StronglySorted_sort E)].
  - intros x y Hx Hy Hxy.
    assert (Hkey : forall z, In z (KeySort.sort E) -> fst z = key (snd z)).
    { intros z Hz. apply (Permutation_in _ (Permutation_sym (KeySort.Permuted_sort E))) in Hz. unfold E in Hz.
      apply in_map_iff in Hz. destruct Hz as (p & <- & _). reflexivity. }
    rewrite <- !Hkey by assumption. unfold is_true in Hxy. lia.
  - intros x y z Hxy Hyz. unfold is_true in *. lia.
Qed.

Lemma SS_app_inv {A} (R : A -> A -> Prop) l1 l2 :
  StronglySorted R (l1 ++ l2) -> forall a b, In a l1 -> In b l2 -> R a b.
Proof.
  induction l1 as [|x t IH]; intros H a b Ha Hb; [destruct Ha|]. cbn [app] in H.
  apply StronglySorted_inv in H. destruct H as [Ht Hx]. destruct Ha as [<-|Ha].
  - rewrite Forall_forall in Hx. apply Hx. apply in_or_app. right. exact Hb.
  - apply IH; assumption.
Qed.

Lemma NoDup_app_r {A} (l1 l2 : list A) : NoDup (l1 ++ l2) -> NoDup l2.
Proof. induction l1 as [|x t IH]; intros H; [exact H|]. cbn [app] in H. inversion H; subst. apply IH. assumption. Qed.

(* in a list sorted by distinct keys, the items before an item are exactly those with a smaller key *)
Lemma sorted_prefix_filter {A} (key : A -> N) l1 e l2 :
  StronglySorted (fun a b => key a <= key b) (l1 ++ e :: l2) -> NoDup (map key (l1 ++ e :: l2)) ->
  filter (fun a => key a <? key e) (l1 ++ e :: l2) = l1.
Proof.
  intros HS HN.
  assert (H1 : forall a, In a l1 -> key a < key e).
  { intros a Ha. assert (key a <= key e) by (apply (SS_app_inv _ _ _ HS); [exact Ha|left; reflexivity]).
    assert (key a <> key e); [|lia]. rewrite map_app in HN. cbn [map] in HN. intros E.
    apply NoDup_remove_2 in HN. apply HN. apply in_or_app. left. rewrite <- E. apply in_map. exact Ha. }
  assert (H2 : forall b, In b l2 -> key e < key b).
  { intros b Hb. assert (HS2 : StronglySorted (fun a b => key a <= key b) (e :: l2)).
    { clear - HS. induction l1 as [|x t IH]; [exact HS|]. cbn [app] in HS. apply StronglySorted_inv in HS. apply IH. tauto. }
    apply StronglySorted_inv in HS2. destruct HS2 as [_ HS2]. rewrite Forall_forall in HS2. specialize (HS2 b Hb).
    assert (key e <> key b); [|lia]. rewrite map_app in HN. cbn [map] in HN. apply NoDup_app_r in HN.
    inversion HN as [|? ? Hn _]; subst. intros E. apply Hn. rewrite E. apply in_map. exact Hb. }
  rewrite filter_app. cbn [filter]. rewrite N.ltb_irrefl.
  assert (E1 : filter (fun a => key a <? key e) l1 = l1).
  { clear - H1. induction l1 as [|x t IH]; [reflexivity|]. cbn [filter].
    replace (key x <? key e) with true by (specialize (H1 x (or_introl eq_refl)); lia).
    rewrite IH; [reflexivity|]. intros a Ha. apply H1. right. exact Ha. }
  assert (E2 : filter (fun a => key a <? key e) l2 = []).
  { clear - H2. induction l2 as [|x t IH]; [reflexivity|]. cbn [filter].
    replace (key x <? key e) with false by (specialize (H2 x (or_introl eq_refl)); lia).
    apply IH. intros a Ha. apply H2. right. exact Ha. }
  rewrite E1, E2. apply app_nil_r.
Qed.

(* ---------------------------------------------------------------- prefix pass *)

Lemma prefix_pass_fst len cs cum : map fst (prefix_pass len cs cum) = map fst cs.
Proof.
  revert cum. induction cs as [|[v c] t IH]; intros cum; cbn [prefix_pass map]; [reflexivity|].
  destruct (c =? 0); cbn [map fst]; rewrite IH; reflexivity.
Qed.

Lemma prefix_pass_in len cs cum v x :
  NoDup (map fst cs) -> In (v, x) (prefix_pass len cs cum) ->
  exists l1 c l2, cs = l1 ++ (v, c) :: l2 /\ x = if c =? 0 then len else cum + sumN (map snd l1).
Proof.
  revert cum. induction cs as [|[u c] t IH]; intros cum HN Hin; cbn [prefix_pass] in Hin; [destruct Hin|].
  cbn [map fst] in HN. inversion HN as [|? ? Hnu Ht]; subst.
  assert (Hcase : (v, x) = (u, if c =? 0 then len else cum) \/
                  In (v, x) (prefix_pass len t (if c =? 0 then cum else cum + c))).
  { destruct (c =? 0); destruct Hin as [E|Hin]; [left; congruence|right; exact Hin|left; congruence|right; exact Hin]. }
  destruct Hcase as [E|Hin'].
  - injection E as -> ->. exists [], c, t. split; [reflexivity|]. cbn [map sumN]. destruct (c =? 0); [reflexivity|lia].
  - apply IH in Hin'; [|exact Ht]. destruct Hin' as (l1 & c' & l2 & -> & Hx).
    exists ((u, c) :: l1), c', l2. split; [reflexivity|]. rewrite Hx. cbn [map snd sumN].
    destruct (c' =? 0); [reflexivity|]. destruct (N.eqb_spec c 0) as [->|]; lia.
Qed.

(* ---------------------------------------------------------------- the table *)

Lemma sorted_le_nodup_unique (l1 l2 : list N) :
  StronglySorted N.le l1 -> NoDup l1 -> StronglySorted N.lt l2 -> Permutation l1 l2 -> l1 = l2.
Proof.
  intros H1 HN H2 HP. apply (SS_unique N.lt); [intros a; lia|intros a b c; lia| |exact H2|exact HP].
  clear - H1 HN. induction l1 as [|x t IH]; [constructor|].
  apply StronglySorted_inv in H1. destruct H1 as [Ht Hx]. inversion HN as [|? ? Hn HNt]; subst.
  constructor; [apply IH; assumption|]. rewrite Forall_forall in *. intros y Hy. specialize (Hx y Hy).
  assert (x <> y) by (intros ->; contradiction). lia.
Qed.

Lemma list_max_ge V x : In x V -> x <= list_max V.
Proof.
  induction V as [|y t IH]; intros Hx; [destruct Hx|]. unfold list_max in *. cbn [fold_right].
  destruct Hx as [<-|Hx]; [lia|]. specialize (IH Hx). lia.
Qed.

Theorem first_offsets_ok m V :
  Forall (fun x => x < 2 ^ 64) V -> list_max V + 1 < 2 ^ 64 ->
  exists F, first_offsets m V (lenN V) (list_max V) = Ok F /\ lenN F = list_max V + 1 /\
    forall v, v <= list_max V ->
      nthN F v = Some (if contains_v V v then less_v V v else lenN V).
Proof.
  intros HV Hmx. set (mx := list_max V) in *. set (n := N.to_nat (mx + 1)).
  assert (Hle : forall x, In x V -> x <= mx).
  { intros x Hx. apply list_max_ge. exact Hx. }
  unfold first_offsets. unfold uadd. replace (mx + 1 <? 2 ^ 64) with true by lia. cbn [bind].
  fold n. set (S := seq_from 0 n). change (map (fun i => (i, 0)) S) with (tab (fun _ => 0) S).
  unfold S. rewrite count_values_tab by (intros x Hx; apply Hle in Hx; unfold n; lia). cbn [bind]. fold S.
  set (C := tab (fun i => 0 + cnt (fun x => x =? i) V) S).
  rewrite (sort_by_key_ext (fun p => reverse_bits (fst p)) (fun p => revkey (fst p))) by (intros p; apply reverse_bits_revkey).
  set (rk := fun p : N * N => revkey (fst p)).
  set (sorted := sort_by_key rk C). set (sums := prefix_pass (lenN V) sorted 0). set (back := sort_by_key fst sums).
  assert (HCfst : map fst C = S) by (unfold C, tab; rewrite map_map; cbn [fst]; apply map_id).
  assert (Hsorted_perm : Permutation sorted C) by apply sort_by_key_perm.
  assert (Hsums_fst : map fst sums = map fst sorted) by apply prefix_pass_fst.
  assert (Hback_perm : Permutation back sums) by apply sort_by_key_perm.
  assert (HpermS : Permutation (map fst back) S).
  { eapply Permutation_trans; [apply Permutation_map; exact Hback_perm|]. rewrite Hsums_fst, <- HCfst.
    apply Permutation_map. exact Hsorted_perm. }
  assert (Hbackfst : map fst back = S).
  { apply sorted_le_nodup_unique.
    - apply SS_map. apply sort_by_key_sorted.
    - eapply Permutation_NoDup; [apply Permutation_sym; exact HpermS|apply seq_from_nodup].
    - apply seq_from_sorted.
    - exact HpermS. }
  exists (map snd back). split; [reflexivity|]. split.
  { unfold lenN. rewrite map_length, <- (map_length fst), Hbackfst. unfold S. rewrite seq_from_length. unfold n. lia. }
  intros v Hv.
  (* the entry at index v carries the value v *)
  assert (Hnth : exists x, nthN back v = Some (v, x)).
  { assert (Hs : nthN (map fst back) v = Some v).
    { rewrite Hbackfst. unfold S. rewrite seq_from_nth by (unfold n; lia). f_equal; lia. }
    rewrite nthN_nth_error, nth_error_map in Hs. destruct (nth_error back (N.to_nat v)) as [[u x]|] eqn:E; [|discriminate].
    cbn [option_map fst] in Hs. injection Hs as ->. exists x. rewrite nthN_nth_error. exact E. }
  destruct Hnth as [x Hx]. rewrite nthN_nth_error, nth_error_map. rewrite nthN_nth_error in Hx. rewrite Hx. cbn [option_map snd]. f_equal.
  assert (Hin : In (v, x) sums).
  { eapply Permutation_in; [exact Hback_perm|]. eapply nth_error_In. exact Hx. }
  assert (HNsorted : NoDup (map fst sorted)).
  { eapply Permutation_NoDup; [apply Permutation_map; apply Permutation_sym; exact Hsorted_perm|]. rewrite HCfst. apply seq_from_nodup. }
  apply prefix_pass_in in Hin; [|exact HNsorted]. destruct Hin as (l1 & c & l2 & Hsplit & ->).
  (* the count paired with v *)
  assert (Hc : c = cnt (fun y => y =? v) V).
  { assert (HinC : In (v, c) C).
    { eapply Permutation_in; [exact Hsorted_perm|]. rewrite Hsplit. apply in_or_app. right. left. reflexivity. }
    unfold C, tab in HinC. apply in_map_iff in HinC. destruct HinC as (i & E & _). injection E as -> <-. lia. }
  assert (Hcont : contains_v V v = negb (c =? 0)).
  { rewrite Hc. destruct (contains_v V v) eqn:Ec.
    - apply contains_v_in in Ec. apply in_split in Ec. destruct Ec as (a & b & ->). rewrite cnt_app, cnt_cons, N.eqb_refl.
      symmetry. apply negb_true_iff. lia.
    - symmetry. apply negb_false_iff. apply N.eqb_eq. apply cnt_false. intros y Hy.
      destruct (N.eqb_spec y v) as [->|]; [|reflexivity]. apply contains_v_in in Hy. congruence. }
  rewrite Hcont. destruct (N.eqb_spec c 0) as [Hz|Hz]; cbn [negb]; [reflexivity|].
  replace (0 + sumN (map snd l1)) with (sumN (map snd l1)) by lia.
  (* the items before v in the sorted table are those with a smaller reversed key *)
  assert (Hvals : forall p, In p sorted -> fst p < 2 ^ 64).
  { intros p Hp. apply (Permutation_in _ Hsorted_perm) in Hp. apply (in_map fst) in Hp. rewrite HCfst in Hp.
    apply seq_from_in in Hp. unfold n in Hp. lia. }
  assert (HNrk : NoDup (map rk sorted)).
  { clear - HNsorted Hvals. induction sorted as [|p t IH]; [constructor|]. cbn [map] in *.
    inversion HNsorted as [|? ? Hn Ht]; subst. constructor.
    - intros Hin. apply in_map_iff in Hin. destruct Hin as (q & E & Hq). apply Hn. unfold rk in E.
      apply revkey_inj64 in E; [|apply Hvals; right; exact Hq|apply Hvals; left; reflexivity]. rewrite <- E. apply in_map. exact Hq.
    - apply IH; [exact Ht|]. intros q Hq. apply Hvals. right. exact Hq. }
  assert (Hl1 : filter (fun a => rk a <? rk (v, c)) sorted = l1).
  { rewrite Hsplit. apply sorted_prefix_filter; rewrite <- Hsplit; [apply sort_by_key_sorted|exact HNrk]. }
  rewrite <- Hl1.
  assert (HsumP : sumN (map snd (filter (fun a => rk a <? rk (v, c)) sorted)) = sumN (map snd (filter (fun a => rk a <? rk (v, c)) C))).
  { apply sumN_perm. apply Permutation_map.
    clear - Hsorted_perm. induction Hsorted_perm as [|y l l' H IH|y z l|l l' l'' H1 IH1 H2 IH2]; cbn [filter].
    - constructor.
    - destruct (rk y <? rk (v, c)); [constructor|]; exact IH.
    - destruct (rk y <? rk (v, c)), (rk z <? rk (v, c)); try apply Permutation_refl. apply perm_swap.
    - eapply Permutation_trans; eassumption. }
  rewrite HsumP. unfold C, tab. rewrite less_v_cnt.
  set (P := fun u => revkey u <? revkey v).
  assert (Hf : filter (fun a => rk a <? rk (v, c)) (map (fun i => (i, 0 + cnt (fun y => y =? i) V)) S)
               = map (fun i => (i, 0 + cnt (fun y => y =? i) V)) (filter P S)).
  { clear. induction S as [|i t IH]; [reflexivity|]. cbn [map filter]. rewrite IH. unfold rk, P. cbn [fst].
    destruct (revkey i <? revkey v); reflexivity. }
  rewrite Hf, map_map. cbn [snd].
  rewrite (map_ext _ (fun u => cnt (fun y => y =? u) V)) by (intros u; lia).
  apply sum_counts; [apply seq_from_nodup|]. intros y Hy. apply seq_from_in. apply Hle in Hy. unfold n. lia.
Qed.
