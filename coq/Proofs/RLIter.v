(* RunIter on a vector satisfying [rl_ok]: the position invariant, one step of advance_if / next,
   the iterators returned by run_iter / iter_for_block, and the block lookup of iter_for_bit/one/zero. *)
From Coq Require Import NArith List Lia ZArith Bool.
Require Import SDS.Model.Mach SDS.Model.Bits SDS.Model.Raw SDS.Model.IntVec SDS.Model.RL SDS.gen.Consts SDS.gen.Funs.
Require Import SDS.Spec.Runs.
Require Import SDS.Proofs.BitsProof SDS.Proofs.RLIntVec SDS.Proofs.RLVarint SDS.Proofs.RLIndex SDS.Proofs.RLRep.
Import ListNotations.
Open Scope N_scope.
Require Import ZifyBool ZifyN ZifyNat.
Ltac Zify.zify_post_hook ::= Z.div_mod_to_equations.
Arguments N.add : simpl never. Arguments N.sub : simpl never. Arguments N.mul : simpl never.
Arguments N.eqb : simpl never. Arguments N.ltb : simpl never. Arguments N.leb : simpl never.
Arguments N.pow : simpl never. Arguments N.shiftl : simpl never. Arguments N.shiftr : simpl never.
Arguments N.land : simpl never. Arguments N.lor : simpl never. Arguments N.div : simpl never.
Arguments N.modulo : simpl never. Arguments N.ones : simpl never. Arguments N.testbit : simpl never.

Lemma concat_nonempty_nil (BS : list (list run)) :
  Forall (fun bl : list run => bl <> []) BS -> concat BS = [] -> BS = [].
Proof.
  intros Hall Hc. destruct BS as [|bl t]; [reflexivity|]. inversion Hall; subst.
  cbn [concat] in Hc. destruct bl; [congruence|discriminate].
Qed.

Lemma if_pair_ok {A B} (c : bool) (a b : A) (x : B) :
  (if c then Ok (a, x) else Ok (b, x)) = Ok (if c then a else b, x).
Proof. destruct c; reflexivity. Qed.

Section Iter.
  Variable m : mode.
  Variable v : rlvec.
  Variable BS : list (list run).
  Variable L : N.
  Hypothesis Hok : rl_ok v BS L.

  Let D := data_of BS.
  Let AB := annot 0 0 BS.

  (* ---- where block [lenN Bpre] sits ---- *)

  Lemma split_annot Bpre bl Bpost :
    BS = Bpre ++ bl :: Bpost ->
    AB = annot 0 0 Bpre ++
         (rones (concat Bpre), runs_end_from 0 (concat Bpre), bl) ::
         annot (rones (concat Bpre) + rones bl) (runs_end_from (runs_end_from 0 (concat Bpre)) bl) Bpost.
  Proof. intros E. subst AB. rewrite E, annot_app. cbn [annot]. rewrite N.add_0_l. reflexivity. Qed.

  Lemma nth_AB Bpre bl Bpost :
    BS = Bpre ++ bl :: Bpost ->
    nthN AB (lenN Bpre) = Some (rones (concat Bpre), runs_end_from 0 (concat Bpre), bl).
  Proof.
    intros E. rewrite (split_annot _ _ _ E). rewrite <- (annot_lenN 0 0 Bpre). apply nthN_middle.
  Qed.

  Lemma units_ok : Forall (fun x => lenN x <= 64) (map ab_units AB).
  Proof.
    apply Forall_forall. intros x Hx. apply in_map_iff in Hx. destruct Hx as (y & <- & Hy).
    pose proof (ok_units _ _ _ Hok) as Hu. rewrite Forall_forall in Hu. apply Hu. assumption.
  Qed.

  Lemma units_at Bpre bl Bpost :
    BS = Bpre ++ bl :: Bpost ->
    exists P Q, D = P ++ enc_runs (runs_end_from 0 (concat Bpre)) bl ++ Q /\ lenN P = 64 * lenN Bpre /\
                lenN (enc_runs (runs_end_from 0 (concat Bpre)) bl) <= 64.
  Proof.
    intros E. pose proof (nth_AB _ _ _ E) as Hn.
    assert (Hu : nthN (map ab_units AB) (lenN Bpre) = Some (enc_runs (runs_end_from 0 (concat Bpre)) bl)).
    { rewrite nthN_map, Hn. reflexivity. }
    destruct (layout_block _ _ _ units_ok Hu) as (P & Q & HD & HP).
    exists P, Q. split; [exact HD|]. split; [exact HP|].
    pose proof units_ok as Hall. rewrite Forall_forall in Hall. apply Hall. eapply nthN_In; eauto.
  Qed.

  Lemma data_len_last Bpre bl :
    BS = Bpre ++ [bl] -> lenN D = 64 * lenN Bpre + lenN (enc_runs (runs_end_from 0 (concat Bpre)) bl).
  Proof.
    intros E. subst D. unfold data_of. fold AB. rewrite (split_annot _ _ _ E). cbn [annot].
    rewrite map_app. cbn [map]. rewrite layout_snoc_len.
    - rewrite lenN_map, annot_lenN. reflexivity.
    - pose proof units_ok as Hall. rewrite (split_annot _ _ _ E), map_app in Hall.
      apply Forall_app in Hall. apply Hall.
  Qed.

  Lemma blocks_len : rl_blocks v = lenN BS.
  Proof.
    unfold rl_blocks. destruct (ok_samples _ _ _ Hok) as (w & Hs).
    rewrite (iv_rep_ilen _ _ _ Hs), lenN_flat_samples, annot_lenN.
    rewrite N.mul_comm. apply N.div_mul. lia.
  Qed.

  Lemma sample_get k x :
    nthN AB k = Some x ->
    iv_get (rl_samples v) (2 * k) = Ok (ab_ones x) /\ iv_get (rl_samples v) (2 * k + 1) = Ok (ab_tail x).
  Proof.
    intros Hn. destruct (ok_samples _ _ _ Hok) as (w & Hs).
    destruct (nthN_flat_samples _ _ _ Hn) as [H1 H2].
    split; eapply iv_get_rep; eauto.
  Qed.

  Lemma ones_after_spec Bpre bl Bpost :
    BS = Bpre ++ bl :: Bpost -> rl_ones_after v (lenN Bpre) = Ok (rones (concat Bpre) + rones bl).
  Proof.
    intros E. unfold rl_ones_after. rewrite blocks_len. rewrite E at 1. rewrite lenN_app, lenN_cons.
    destruct Bpost as [|b2 Bpost'].
    - replace (lenN Bpre + 1 <? lenN Bpre + (1 + lenN (@nil (list run)))) with false
        by (unfold lenN at 3; cbn [length]; lia).
      rewrite (ok_ones _ _ _ Hok), E, concat_app. cbn [concat]. rewrite app_nil_r, rones_app. reflexivity.
    - rewrite lenN_cons. replace (lenN Bpre + 1 <? lenN Bpre + (1 + (1 + lenN Bpost'))) with true by lia.
      assert (E2 : BS = (Bpre ++ [bl]) ++ b2 :: Bpost') by (rewrite E, <- app_assoc; reflexivity).
      pose proof (nth_AB _ _ _ E2) as Hn. rewrite lenN_app in Hn. change (lenN [bl]) with 1 in Hn.
      destruct (sample_get _ _ Hn) as [H1 _]. rewrite H1. unfold ab_ones. cbn [fst].
      rewrite concat_app. cbn [concat]. rewrite app_nil_r, rones_app. reflexivity.
  Qed.

  (* ---- the position invariant ---- *)

  Definition ri_at (it : runiter) (Bpre : list (list run)) (done rest : list run) : Prop :=
    ri_offset it = 64 * lenN Bpre + lenN (enc_runs (runs_end_from 0 (concat Bpre)) done) /\
    ri_pos it = (rones (concat Bpre) + rones done, runs_end_from (runs_end_from 0 (concat Bpre)) done) /\
    ri_limit it = rones (concat Bpre) + rones (done ++ rest).

  (* the iterator has yielded the runs [dn] and will yield the runs [todo] *)
  Definition Abs (it : runiter) (dn todo : list run) : Prop :=
    concat BS = dn ++ todo /\ ri_rank it = rones dn /\ ri_off it = runs_end_from 0 dn /\
    ((todo = [] /\ lenN D <= ri_offset it) \/
     exists Bpre done rest Bpost,
       BS = Bpre ++ (done ++ rest) :: Bpost /\ ri_at it Bpre done rest /\
       dn = concat Bpre ++ done /\ todo = rest ++ concat Bpost).

  Lemma data_ilen : ilen (rl_data v) = lenN D.
  Proof. apply (iv_rep_ilen _ _ _ (ok_data _ _ _ Hok)). Qed.

  (* decoding one run whose units sit at [off] *)
  Lemma decode_run P Q t r :
    D = P ++ (enc (fst r - t) ++ enc (snd r - 1)) ++ Q -> fst r < 2 ^ 64 -> snd r < 2 ^ 64 ->
    rl_decode m v (lenN P) = Ok (fst r - t, lenN P + lenN (enc (fst r - t))) /\
    rl_decode m v (lenN P + lenN (enc (fst r - t))) =
      Ok (snd r - 1, lenN P + lenN (enc (fst r - t)) + lenN (enc (snd r - 1))).
  Proof.
    intros HD Hs Hl. pose proof (ok_data _ _ _ Hok) as Hd. fold D in Hd. split.
    - eapply rl_decode_spec; [exact Hd| |lia]. rewrite HD, <- app_assoc. reflexivity.
    - rewrite <- lenN_app. eapply rl_decode_spec; [exact Hd| |lia].
      rewrite HD, <- !app_assoc. reflexivity.
  Qed.

  Lemma runs_bound dn r t : concat BS = dn ++ r :: t ->
    runs_end_from 0 dn <= fst r /\ 1 <= snd r /\ fst r + snd r <= L /\
    (dn <> [] -> runs_end_from 0 dn < fst r).
  Proof.
    intros E. pose proof (ok_runs _ _ _ Hok) as Hr. pose proof (ok_end _ _ _ Hok) as He.
    rewrite E in Hr, He. apply runs_ok_app in Hr. destruct Hr as [Hdn Hr].
    rewrite runs_end_from_app in He. cbn [runs_ok runs_end_from] in Hr, He.
    destruct Hr as (H1 & H2 & H3). pose proof (runs_ok_end _ _ _ H3).
    split; [destruct dn; lia|]. split; [lia|]. split; [lia|].
    intros Hne. destruct dn; [congruence|lia].
  Qed.

  (* ---- one step ---- *)

  Lemma advance_spec it dn todo adv :
    Abs it dn todo ->
    match todo with
    | [] => ri_advance_if m v it adv = Ok (it, None)
    | r :: t => exists it', Abs it' (dn ++ [r]) t /\
                 ri_advance_if m v it adv = Ok (if adv (Some r) then it' else it, Some r)
    end.
  Proof.
    intros (HF & Hrank & Hoff & Hcase).
    pose proof (ok_L _ _ _ Hok) as HL. pose proof (ok_datalen _ _ _ Hok) as Hdl. fold D in Hdl.
    destruct Hcase as [[-> Hend]|(Bpre & done & rest & Bpost & EBS & (Hio & Hip & Hil) & Hdn & Htodo)].
    { unfold ri_advance_if. rewrite data_ilen. replace (lenN D <=? ri_offset it) with true by lia. reflexivity. }
    set (o := rones (concat Bpre)) in *. set (t0 := runs_end_from 0 (concat Bpre)) in *.
    assert (Hrk : ri_rank it = o + rones done) by (unfold ri_rank; rewrite Hip; reflexivity).
    assert (Hof : ri_off it = runs_end_from t0 done) by (unfold ri_off; rewrite Hip; reflexivity).
    destruct (units_at _ _ _ EBS) as (P & Q & HD & HP & Hulen). fold t0 in HD, Hulen.
    rewrite enc_runs_app in HD, Hulen.
    destruct rest as [|r rest'].
    - (* the block is exhausted *)
      cbn [app] in Htodo. rewrite app_nil_r in *.
      destruct Bpost as [|bl' Bpost'].
      + (* it was the last block *)
        cbn [concat] in Htodo. subst todo.
        unfold ri_advance_if. rewrite data_ilen. rewrite (data_len_last _ _ EBS). fold t0.
        replace (64 * lenN Bpre + lenN (enc_runs t0 done) <=? ri_offset it) with true by lia. reflexivity.
      + (* move to the next block *)
        pose proof (ok_nonempty _ _ _ Hok) as Hne. rewrite EBS in Hne.
        apply Forall_app in Hne. destruct Hne as [_ Hne]. pose proof (Forall_inv Hne) as Hdne.
        pose proof (Forall_inv (Forall_inv_tail Hne)) as Hblne. cbn beta in Hdne, Hblne.
        destruct bl' as [|r rest']; [congruence|]. cbn [concat app] in Htodo. subst todo. cbn iota.
        assert (E2 : BS = (Bpre ++ [done]) ++ (r :: rest') :: Bpost') by (rewrite EBS, <- app_assoc; reflexivity).
        destruct (units_at _ _ _ E2) as (P2 & Q2 & HD2 & HP2 & Hulen2).
        rewrite concat_app in HD2, Hulen2. cbn [concat] in HD2, Hulen2. rewrite app_nil_r in HD2, Hulen2.
        rewrite runs_end_from_app in HD2, Hulen2. fold t0 in HD2, Hulen2.
        rewrite lenN_app in HP2. change (lenN [done]) with 1 in HP2.
        cbn [enc_runs] in HD2, Hulen2.
        assert (Hnb : lenN BS = lenN Bpre + 2 + lenN Bpost').
        { rewrite EBS, lenN_app, !lenN_cons. lia. }
        assert (HF' : concat BS = dn ++ r :: (rest' ++ concat Bpost')).
        { rewrite HF. reflexivity. }
        destruct (runs_bound _ _ _ HF') as (Hb1 & Hb2 & Hb3 & _).
        assert (Hdnend : runs_end_from 0 dn = runs_end_from t0 done).
        { rewrite Hdn, runs_end_from_app. reflexivity. }
        assert (Hdlen : 1 <= lenN (enc_runs t0 done)).
        { pose proof (enc_runs_len_lower t0 done). destruct done; [congruence|]. rewrite lenN_cons in *. lia. }
        pose proof (enc_len (fst r - runs_end_from t0 done)) as Hl1.
        assert (HDlen : lenN P2 + 1 <= lenN D).
        { rewrite HD2, !lenN_app. lia. }
        assert (Hlim : rl_ones_after v (lenN Bpre + 1) = Ok (o + rones done + rones (r :: rest'))).
        { pose proof (ones_after_spec _ _ _ E2) as H. rewrite lenN_app in H. change (lenN [done]) with 1 in H.
          rewrite H, concat_app. cbn [concat]. rewrite app_nil_r, rones_app. reflexivity. }
        destruct (decode_run (P2) (enc_runs (fst r + snd r) rest' ++ Q2) (runs_end_from t0 done) r) as [Hd1 Hd2].
        { rewrite HD2, <- !app_assoc. reflexivity. } { lia. } { lia. }
        eexists. split; [|].
        2:{ unfold ri_advance_if. rewrite data_ilen.
            replace (lenN D <=? ri_offset it) with false by lia.
            rewrite Hil, Hrk. replace (o + rones done <=? o + rones done) with true by lia.
            change rl_BLOCK_SIZE with 64.
            destruct (div_round_up_spec m (ri_offset it) 64) as (Edr & _); [lia|lia|].
            rewrite Edr. cbn [bind].
            replace ((ri_offset it + 64 - 1) / 64) with (lenN Bpre + 1) by (rewrite Hio; lia).
            rewrite blocks_len, Hnb.
            replace (lenN Bpre + 2 + lenN Bpost' <=? lenN Bpre + 1) with false by lia.
            rewrite Hlim. cbn [bind].
            replace ((lenN Bpre + 1) * 64) with (lenN P2) by lia.
            rewrite Hd1. cbn [bind]. rewrite Hd2. cbn [bind].
            rewrite Hof, ?Hrk.
            replace (runs_end_from t0 done + (fst r - runs_end_from t0 done)) with (fst r) by lia.
            replace (snd r - 1 + 1) with (snd r) by lia.
            replace (fst r + (snd r - 1) + 1) with (fst r + snd r) by lia.
            rewrite <- (surjective_pairing r). rewrite if_pair_ok. reflexivity. }
        (* the new state *)
        split; [rewrite HF, <- app_assoc; reflexivity|].
        split; [unfold ri_rank; cbn [ri_pos fst]; rewrite Hdn, !rones_app; cbn [rones]; fold o; lia|].
        split; [unfold ri_off; cbn [ri_pos snd]; rewrite runs_end_from_app; cbn [runs_end_from]; lia|].
        right. exists (Bpre ++ [done]), [r], rest', Bpost'.
        split; [exact E2|]. split.
        { unfold ri_at. cbn [ri_offset ri_pos ri_limit].
          rewrite concat_app. cbn [concat]. rewrite app_nil_r, rones_app, runs_end_from_app. fold o t0.
          rewrite lenN_app. change (lenN [done]) with 1. cbn [enc_runs rones runs_end_from app].
          rewrite app_nil_r, lenN_app.
          split; [lia|]. split; [f_equal; lia|reflexivity]. }
        split; [rewrite Hdn, concat_app; cbn [concat]; rewrite app_nil_r, <- app_assoc; reflexivity|reflexivity].
    - (* next run of the same block *)
      cbn [app] in Htodo. subst todo.
      destruct (runs_bound _ _ _ HF) as (Hb1 & Hb2 & Hb3 & _).
      assert (Hdnend : runs_end_from 0 dn = runs_end_from t0 done).
      { rewrite Hdn, runs_end_from_app. reflexivity. }
      cbn [enc_runs] in HD, Hulen.
      pose proof (enc_len (fst r - runs_end_from t0 done)) as Hl1.
      destruct (decode_run (P ++ enc_runs t0 done) (enc_runs (fst r + snd r) rest' ++ Q) (runs_end_from t0 done) r) as [Hd1 Hd2].
      { rewrite HD, <- !app_assoc. reflexivity. } { lia. } { lia. }
      rewrite lenN_app, HP, <- Hio in Hd1, Hd2.
      assert (HDlen : ri_offset it + 1 <= lenN D).
      { rewrite HD, !lenN_app. lia. }
      eexists. split; [|].
      2:{ unfold ri_advance_if. rewrite data_ilen.
          replace (lenN D <=? ri_offset it) with false by lia.
          rewrite Hil, Hrk, rones_app. cbn [rones].
          replace (o + (rones done + (snd r + rones rest')) <=? o + rones done) with false by lia.
          cbn [bind]. rewrite Hd1. cbn [bind]. rewrite Hd2. cbn [bind].
          rewrite Hof, ?Hrk.
          replace (runs_end_from t0 done + (fst r - runs_end_from t0 done)) with (fst r) by lia.
          replace (snd r - 1 + 1) with (snd r) by lia.
          replace (fst r + (snd r - 1) + 1) with (fst r + snd r) by lia.
          rewrite <- (surjective_pairing r). rewrite if_pair_ok. reflexivity. }
      split; [rewrite HF, <- app_assoc; reflexivity|].
      split; [unfold ri_rank; cbn [ri_pos fst]; rewrite Hdn, !rones_app; cbn [rones]; fold o; lia|].
      split; [unfold ri_off; cbn [ri_pos snd]; rewrite runs_end_from_app; cbn [runs_end_from]; lia|].
      right. exists Bpre, (done ++ [r]), rest', Bpost.
      split; [rewrite EBS, <- app_assoc; reflexivity|]. split.
      { unfold ri_at. cbn [ri_offset ri_pos ri_limit]. fold o t0.
        rewrite enc_runs_app, !rones_app, runs_end_from_app, !lenN_app. cbn [enc_runs rones runs_end_from].
        rewrite app_nil_r, lenN_app, Hio.
        split; [lia|]. split; [f_equal; lia|lia]. }
      split; [rewrite Hdn, <- app_assoc; reflexivity|reflexivity].
  Qed.

  Lemma next_spec it dn todo :
    Abs it dn todo ->
    match todo with
    | [] => ri_next m v it = Ok (it, None)
    | r :: t => exists it', Abs it' (dn ++ [r]) t /\ ri_next m v it = Ok (it', Some r)
    end.
  Proof. intros H. exact (advance_spec it dn todo (fun _ => true) H). Qed.

  (* ---- the iterators the queries start from ---- *)

  Lemma iter_for_block_spec Bpre bl Bpost :
    BS = Bpre ++ bl :: Bpost ->
    exists it, rl_iter_for_block v (lenN Bpre) = Ok it /\ Abs it (concat Bpre) (bl ++ concat Bpost).
  Proof.
    intros E. unfold rl_iter_for_block.
    destruct (ok_samples _ _ _ Hok) as (w & Hs).
    assert (Hnb : lenN BS = lenN Bpre + 1 + lenN Bpost) by (rewrite E, lenN_app, lenN_cons; lia).
    rewrite (iv_rep_ilen _ _ _ Hs), lenN_flat_samples, annot_lenN, Hnb.
    replace (2 * (lenN Bpre + 1 + lenN Bpost) =? 0) with false by lia.
    destruct (sample_get _ _ (nth_AB _ _ _ E)) as [H1 H2]. rewrite H1, H2. cbn [bind].
    rewrite (ones_after_spec _ _ _ E). cbn [bind]. eexists. split; [reflexivity|].
    unfold ab_ones, ab_tail. cbn [fst snd].
    split; [rewrite E, concat_app; reflexivity|].
    split; [reflexivity|]. split; [reflexivity|].
    right. exists Bpre, [], bl, Bpost. split; [exact E|]. split.
    { unfold ri_at. cbn [ri_offset ri_pos ri_limit enc_runs rones runs_end_from app].
      change rl_BLOCK_SIZE with 64. change (lenN (@nil N)) with 0.
      split; [lia|]. split; [f_equal; lia|reflexivity]. }
    split; [rewrite app_nil_r; reflexivity|reflexivity].
  Qed.

  Lemma run_iter_spec : exists it, rl_run_iter v = Ok it /\ Abs it [] (concat BS).
  Proof.
    assert (Hc : forall B : list (list run), B = [] \/ exists bl Bpost, B = [] ++ bl :: Bpost).
    { intros B. destruct B as [|bl Bpost]; [left; reflexivity|right; exists bl, Bpost; reflexivity]. }
    destruct (Hc BS) as [HBS|(bl & Bpost & E)].
    - unfold rl_run_iter, rl_ones_after. rewrite blocks_len, HBS.
      replace (0 + 1 <? lenN (@nil (list run))) with false by (unfold lenN; cbn [length]; lia).
      cbn [bind]. eexists. split; [reflexivity|]. unfold Abs. rewrite ?HBS.
      split; [reflexivity|]. split; [reflexivity|]. split; [reflexivity|].
      left. split; [reflexivity|]. unfold D, data_of. rewrite ?HBS. unfold lenN. cbn [annot map layout length ri_offset]. lia.
    - unfold rl_run_iter.
      pose proof (ones_after_spec [] bl Bpost E) as H1. change (lenN (@nil (list run))) with 0 in H1.
      rewrite H1. cbn [bind concat rones]. eexists. split; [reflexivity|].
      split; [reflexivity|]. split; [reflexivity|]. split; [reflexivity|].
      right. exists [], [], bl, Bpost. split; [exact E|]. split.
      { unfold ri_at. cbn [ri_offset ri_pos ri_limit enc_runs rones runs_end_from app concat].
        unfold lenN. cbn [length]. split; [lia|]. split; [f_equal; lia|reflexivity]. }
      split; [reflexivity|]. rewrite E. reflexivity.
  Qed.

  Lemma empty_iter_abs : Abs (ri_empty v) (concat BS) [] -> True.
  Proof. trivial. Qed.

  Lemma ri_empty_next : ri_next m v (ri_empty v) = Ok (ri_empty v, None).
  Proof.
    unfold ri_next, ri_advance_if, ri_empty. cbn [ri_offset].
    replace (ilen (rl_data v) <=? ilen (rl_data v)) with true by lia. reflexivity.
  Qed.
End Iter.
