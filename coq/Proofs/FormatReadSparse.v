(* C07, READ direction for SparseVector: a file written from the document alone - universe n, ANY low width w in
   1..63 (not only the one the crate's f64 rule would choose), the high bitvector WITHOUT support structures - is
   loaded by the model of SparseVector::load into a vector that satisfies C02's representation invariant [sv_ok] for
   (n, items, w), hence answers every query exactly (Props/C02.v, C02_queries_of_representation).
   No builder of the crate is involved: the document's high bitvector F.high_bits is shown to be the unary bucket
   code [ef_high_ok] directly (positions of its set bits = (v_i >> w) + i), the loader's two enables are the ones of
   BVFull.bv_enable_selects_ok, its two sanity checks are discharged from the counts of F.high_bits. *)
From Coq Require Import NArith List Lia ZArith Bool.
Require Import SDS.Model.Mach SDS.Model.Bits SDS.Model.Raw SDS.Model.IntVec SDS.Model.BitVec SDS.Model.Ser SDS.Model.SerBV.
Require Import SDS.Model.Sparse SDS.Model.SerComposite SDS.Model.SerSparse SDS.gen.Consts.
Require Import SDS.Spec.BitSeq SDS.Spec.ValSeq SDS.Spec.SeqSpec SDS.Spec.Stream.
Require Import SDS.Proofs.BitsProof SDS.Proofs.RawProof SDS.Proofs.IntVecProof SDS.Proofs.BVCommon SDS.Proofs.BVFull.
Require Import SDS.Proofs.SelectProof.
Require Import SDS.Proofs.SerProof SDS.Proofs.SerTypes SDS.Proofs.SerSupports SDS.Proofs.SerComposite SDS.Proofs.SerSparse.
Require Import SDS.Proofs.SparseSeq SDS.Proofs.SparseProof.
Require Import SDS.Proofs.FormatRead.
Require SDS.Spec.Format SDS.Proofs.FormatProof SDS.Proofs.FormatConform.
Import ListNotations.
Open Scope N_scope.
Require Import ZifyBool ZifyN ZifyNat.
Ltac Zify.zify_post_hook ::= Z.div_mod_to_equations.
Arguments N.add : simpl never. Arguments N.sub : simpl never. Arguments N.mul : simpl never.
Arguments N.eqb : simpl never. Arguments N.ltb : simpl never. Arguments N.leb : simpl never.
Arguments N.pow : simpl never. Arguments N.shiftl : simpl never. Arguments N.shiftr : simpl never.
Arguments N.land : simpl never. Arguments N.lor : simpl never. Arguments N.div : simpl never.
Arguments N.modulo : simpl never. Arguments N.ones : simpl never. Arguments N.testbit : simpl never.

Module F := SDS.Spec.Format.
Module FP := SDS.Proofs.FormatProof.
Module FC := SDS.Proofs.FormatConform.

(* ================================================================ 1. the document's high bitvector is the unary code *)

(* positions of the set bits: item k of the list sits at (x_k >> w) + (i + k) *)
Fixpoint hi_pos (w i : N) (items : list N) : list N :=
  match items with [] => [] | x :: t => N.shiftr x w + i :: hi_pos w (i + 1) t end.

Lemma ones_from_all_false k pos : ones_from (repeat false k) pos = [].
Proof. rewrite <- (app_nil_r (repeat false k)), FP.ones_from_repeat_false. reflexivity. Qed.

Lemma ones_high_bits w items B : forall b i, FP.chain w b items B ->
  ones_from (F.high_bits w b items B) (b + i) = hi_pos w i items.
Proof.
  induction items as [|x t IH]; intros b i Hc; cbn [F.high_bits FP.chain hi_pos] in *.
  - apply ones_from_all_false.
  - destruct Hc as (H1 & H2 & H3). rewrite FP.ones_from_repeat_false. cbn [ones_from]. f_equal; [lia|].
    replace (b + i + N.of_nat (N.to_nat (N.shiftr x w - b)) + 1) with (N.shiftr x w + (i + 1)) by lia.
    apply IH. exact H3.
Qed.

Lemma In_hi_pos w items : forall i p,
  In p (hi_pos w i items) <-> exists k, k < lenN items /\ p = nthd items k / 2 ^ w + (i + k).
Proof.
  induction items as [|x t IH]; intros i p; cbn [hi_pos In].
  - split; [intros []|]. intros (k & Hk & _). unfold lenN in Hk. cbn [length] in Hk. lia.
  - rewrite IH. split.
    + intros [E|(k & Hk & E)].
      * exists 0. rewrite SparseSeq.lenN_cons, nthd_cons. change (0 =? 0) with true. cbv iota.
        rewrite N.shiftr_div_pow2 in E. split; [lia|]. rewrite <- E. f_equal. lia.
      * exists (k + 1). rewrite SparseSeq.lenN_cons, nthd_cons. replace (k + 1 =? 0) with false by lia.
        replace (k + 1 - 1) with k by lia. split; [lia|]. rewrite E. f_equal. lia.
    + intros (k & Hk & E). rewrite SparseSeq.lenN_cons in Hk. rewrite nthd_cons in E.
      destruct (N.eqb_spec k 0) as [->|Hne].
      * left. rewrite N.shiftr_div_pow2, E. f_equal. lia.
      * right. exists (k - 1). split; [lia|]. rewrite E. f_equal. lia.
Qed.

Lemma high_bits_ef w n items : nondecreasing items = true -> Forall (fun x => x < n) items ->
  ef_high_ok (F.high_bits w 0 items (F.doc_buckets n w)) items w (buckets_of n w).
Proof.
  intros Hs Hn.
  assert (Hc : FP.chain w 0 items (F.doc_buckets n w)).
  { apply FP.chain_of_sorted; try assumption. destruct items; lia. }
  set (H := F.high_bits w 0 items (F.doc_buckets n w)).
  assert (Hones : ones H = hi_pos w 0 items) by exact (ones_high_bits w items _ 0 0 Hc).
  unfold ef_high_ok. split; [|split].
  - change (lenB H) with (F.lenN H). unfold H. rewrite FP.high_bits_length by exact Hc.
    change (F.lenN items) with (lenN items). unfold buckets_of, F.doc_buckets. lia.
  - intros i Hi. assert (Hin : In (one_pos items w i) (ones H)).
    { rewrite Hones. apply In_hi_pos. exists i. split; [exact Hi|]. unfold one_pos. f_equal; lia. }
    apply In_ones in Hin. unfold bitB in Hin. destruct (getb H (one_pos items w i)) as [[|]|]; [reflexivity|discriminate|discriminate].
  - intros p Hp Hno. destruct (sq_getb_some H p Hp) as [x Hx]. destruct x; [exfalso|exact Hx].
    assert (Hin : In p (ones H)) by (apply In_ones; unfold bitB; rewrite Hx; reflexivity).
    rewrite Hones in Hin. apply In_hi_pos in Hin. destruct Hin as (k & Hk & E). apply (Hno k Hk). unfold one_pos. lia.
Qed.

(* ================================================================ 2. the low part *)

Lemma nthd_nth l i : nthd l i = nth (N.to_nat i) l 0.
Proof.
  unfold nthd. rewrite nthN_nth_error. destruct (nth_error l (N.to_nat i)) eqn:E.
  - symmetry. apply nth_error_nth. exact E.
  - apply nth_error_None in E. symmetry. apply nth_overflow. exact E.
Qed.

Lemma iv_of_low_ok w L : 1 <= w <= 64 -> Forall (fun v => v < 2 ^ w) L -> low_ok (iv_of w L) w L.
Proof.
  intros Hw Hf. destruct (iv_of_inv w L Hw Hf) as [Hinv Habs]. unfold low_ok. split; [reflexivity|]. split; [reflexivity|].
  intros i Hi. rewrite (iv_get_ok _ i Hinv) by exact Hi. rewrite Habs. unfold nthn. rewrite nthd_nth. reflexivity.
Qed.

Lemma lows_fit w items : Forall (fun v => v < 2 ^ w) (map (fun x => x mod 2 ^ w) items).
Proof.
  apply Forall_forall. intros v Hv. apply in_map_iff in Hv. destruct Hv as (x & <- & _).
  apply N.mod_lt. apply N.pow_nonzero. lia.
Qed.

(* ================================================================ 3. SparseVector::load on the document's bytes *)

Definition sparse_lows (w : N) (items : list N) : list N := map (fun x => x mod 2 ^ w) items.

Lemma sparse_doc_serialize w n items :
  sv_serialize (mksv n (bv_of (F.high_bits w 0 items (F.doc_buckets n w))) (iv_of w (sparse_lows w items)))
  = F.doc_encode_sparse w (n, items).
Proof. reflexivity. Qed.

Theorem read_sparse sp m w n items rest :
  n < 2 ^ 64 -> 1 <= w <= 63 -> F.sorted_le items = true -> Forall (fun x => x < n) items ->
  F.lenN items + F.doc_buckets n w + select_SUPERBLOCK_SIZE < 2 ^ 64 -> F.lenN items * w + 63 < 2 ^ 64 ->
  exists sv,
    c_dec (sparse_codec sp m) (flat_map le64 (F.doc_encode_sparse w (n, items)) ++ rest) = IoOk (sv, rest) /\
    forall sp' m', sv_ok sp' m' sv n w items (F.high_bits w 0 items (F.doc_buckets n w)).
Proof.
  intros Hn Hw Hs Hb Hfit Hbits.
  set (H := F.high_bits w 0 items (F.doc_buckets n w)).
  set (low := iv_of w (sparse_lows w items)).
  assert (Hc : FP.chain w 0 items (F.doc_buckets n w)).
  { apply FP.chain_of_sorted; try assumption. destruct items; lia. }
  assert (HlenH : F.lenN H = F.lenN items + F.doc_buckets n w).
  { unfold H. rewrite FP.high_bits_length by exact Hc. lia. }
  assert (HcntH : count H = F.lenN items) by apply FP.high_bits_count.
  change select_SUPERBLOCK_SIZE with 4096 in Hfit.
  assert (Hrep0 : bv_repr (bv_of H) H) by (apply bv_of_repr; lia).
  destruct (bv_enable_selects_ok sp m (bv_of H) H Hrep0 eq_refl eq_refl)
    as (h1 & hf & E1 & E2 & Hrep & Hsame & Hrk & _ & _ & Hsel).
  destruct (high_rebuild sp m H (bv_of H) Hrep0 (bv_of_no_supports H)) as (h1' & hf' & E1' & E2' & _ & _ & _ & _ & _ & Hdec).
  { change (lenB H) with (F.lenN H). change select_SUPERBLOCK_SIZE with 4096. lia. }
  rewrite E1 in E1'. injection E1' as <-. rewrite E2 in E2'. injection E2' as <-.
  assert (Hlowok : iv_ok low).
  { apply iv_of_ok; [lia|]. unfold sparse_lows, F.lenN. rewrite map_length. exact Hbits. }
  exists (mksv n hf low). split.
  - assert (Hsub : sub_of (bv_of H) hf).
    { destruct Hsame as [Hd Ho]. split; [split; [exact Ho|exact Hd]|]. repeat split; left; reflexivity. }
    destruct (Hdec (bv_of H) Hsub) as [_ Hd].
    specialize (Hd sp m n low (F.doc_buckets n w) rest Hn Hlowok).
    rewrite sparse_codec_dec, <- sparse_doc_serialize.
    rewrite <- (sparse_enc_elems sp m), sparse_codec_enc.
    + apply Hd.
      * rewrite HcntH. unfold low, iv_of, sparse_lows, F.lenN. cbn [ilen]. rewrite map_length. reflexivity.
      * exact (get_buckets_spec n w Hw).
      * change (lenB H) with (F.lenN H). rewrite HlenH. unfold low, iv_of, sparse_lows, F.lenN. cbn [ilen]. rewrite map_length. reflexivity.
    + cbn [sv_high]. apply bv_of_ok. pose proof HlenH as X. unfold H in X. change select_SUPERBLOCK_SIZE with 4096. lia.
  - intros sp' m'. unfold sv_ok. cbn [sv_len sv_high sv_low].
    split; [exact Hn|]. split; [exact Hw|].
    split; [apply nondecreasing_sorted; exact Hs|].
    split; [apply all_below_bounded; apply FP.Forall_lt_forallb; exact Hb|].
    split; [reflexivity|].
    split; [apply high_bits_ef; assumption|].
    split; [apply Hsel|].
    apply iv_of_low_ok; [lia|apply lows_fit].
Qed.

(* the loaded vector answers every query of C02 exactly, on every query path and in every mode: the queries about
   present values and the iterators for sets and multisets, those about unset positions for sets (as in C02) *)
Require Import SDS.Proofs.SparseMain.

Theorem read_sparse_exact sp m w n items rest :
  n < 2 ^ 64 -> 1 <= w <= 63 -> F.sorted_le items = true -> Forall (fun x => x < n) items ->
  F.lenN items + F.doc_buckets n w + select_SUPERBLOCK_SIZE < 2 ^ 64 -> F.lenN items * w + 63 < 2 ^ 64 ->
  exists sv,
    c_dec (sparse_codec sp m) (flat_map le64 (F.doc_encode_sparse w (n, items)) ++ rest) = IoOk (sv, rest) /\
    sv_len sv = n /\ iwidth (sv_low sv) = w /\
    forall sp' m',
      sv_ok sp' m' sv n w items (F.high_bits w 0 items (F.doc_buckets n w)) /\
      present_queries_ok sp' m' sv n items /\ iter_queries_ok sp' m' sv n items /\
      (F.sorted_lt items = true -> zero_queries_ok sp' m' sv n items).
Proof.
  intros Hn Hw Hs Hb Hfit Hbits. destruct (read_sparse sp m w n items rest Hn Hw Hs Hb Hfit Hbits) as (sv & Hd & Hok).
  exists sv. split; [exact Hd|]. pose proof (Hok sp m) as (_ & _ & _ & _ & Hlen & _ & _ & (_ & Hwd & _)).
  split; [exact Hlen|]. split; [exact Hwd|].
  intros sp' m'. specialize (Hok sp' m'). split; [exact Hok|].
  split; [exact (sv_ok_present _ _ _ _ _ _ _ Hok)|]. split; [exact (sv_ok_iters _ _ _ _ _ _ _ Hok)|].
  intros Hlt. apply (sv_ok_zero _ _ _ _ _ _ _ Hok). apply increasing_sorted. exact Hlt.
Qed.
