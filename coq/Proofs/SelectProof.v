(* SelectSupport<T> of src/bit_vector/select_support.rs and the select / select_iter / predecessor /
   successor wrappers of src/bit_vector.rs (Model/BitVec.v) answer exactly as the list specification.
   Contents: (1) the constants; (2) what is needed of IntVector (push / get / pack, prefix sel_);
   (3) the query-side word scan; (4) the builder: loop invariant of SelectSupport::new over long and
   short superblocks in any mixture; (5) select_unchecked; (6) wrappers; (7) predecessor / successor. *)
From Coq Require Import NArith List Lia ZArith Bool.
Require Import SDS.Model.Mach SDS.Model.Bits SDS.Model.Raw SDS.Model.IntVec SDS.Model.BitVec SDS.gen.Consts.
Require Import SDS.Spec.BitSeq SDS.Proofs.BitsProof SDS.Proofs.SelectPortable SDS.Proofs.BVCommon.
Require Import SDS.Proofs.OneIterProof.
Import ListNotations.
Open Scope N_scope.
Require Import ZifyBool ZifyN ZifyNat.
Ltac Zify.zify_post_hook ::= Z.div_mod_to_equations.
Arguments N.add : simpl never. Arguments N.sub : simpl never. Arguments N.mul : simpl never.
Arguments N.eqb : simpl never. Arguments N.ltb : simpl never. Arguments N.leb : simpl never.
Arguments N.pow : simpl never. Arguments N.shiftl : simpl never. Arguments N.shiftr : simpl never.
Arguments N.land : simpl never. Arguments N.lor : simpl never. Arguments N.div : simpl never.
Arguments N.modulo : simpl never. Arguments N.ones : simpl never. Arguments N.testbit : simpl never.

(* ================================================================ (1) constants *)

(* the generated constants of select_support.rs this proof is about; if the source changes one of
   them this lemma stops compiling *)
Lemma select_consts_ok :
  select_SUPERBLOCK_SIZE = 4096 /\ select_SUPERBLOCK_MASK = N.ones 12 /\
  select_BLOCKS_IN_SUPERBLOCK = 64 /\ select_BLOCK_SIZE = 64 /\ select_BLOCK_MASK = N.ones 6 /\
  select_SUPERBLOCK_SIZE = select_BLOCKS_IN_SUPERBLOCK * select_BLOCK_SIZE.
Proof. repeat split; reflexivity. Qed.

(* ================================================================ (2) IntVector: push / get / pack *)

Lemma nthN_nth_opt {A} (l : list A) i : nthN l i = nth_opt l i.
Proof. revert i. induction l as [|x t IH]; intros i; cbn [nthN nth_opt]; [reflexivity|]. destruct (i =? 0); [reflexivity|apply IH]. Qed.

Lemma nthN_app {A} (l1 l2 : list A) i :
  nthN (l1 ++ l2) i = if i <? lenN l1 then nthN l1 i else nthN l2 (i - lenN l1).
Proof. rewrite !nthN_nth_opt, nth_opt_app. unfold lenN. destruct (i <? N.of_nat (length l1)); rewrite ?nthN_nth_opt; reflexivity. Qed.

Lemma nthN_app_l {A} (l1 l2 : list A) i x : nthN l1 i = Some x -> nthN (l1 ++ l2) i = Some x.
Proof.
  intros H. rewrite nthN_app. pose proof (nthN_Some_lt _ _ _ H). replace (i <? lenN l1) with true by lia. exact H.
Qed.

Lemma getw_app_zero a i : getw (a ++ [0]) i = getw a i.
Proof.
  unfold getw. rewrite nthN_app. destruct (N.ltb_spec i (lenN a)) as [H|H]; [reflexivity|].
  assert (E : nthN a i = None) by (apply nthN_None_ge; exact H). rewrite E.
  cbn [nthN]. destruct (i - lenN a =? 0); reflexivity.
Qed.

Lemma bit_app_zero a p : bit (a ++ [0]) p = bit a p.
Proof. unfold bit. rewrite getw_app_zero. reflexivity. Qed.

Lemma wf_app_zero a : wf a -> wf (a ++ [0]).
Proof. intros H. unfold wf. apply Forall_app. split; [exact H|]. constructor; [reflexivity|constructor]. Qed.

Lemma testbit_above x w k : x < 2 ^ w -> w <= k -> N.testbit x k = false.
Proof.
  intros Hx Hk. destruct (N.eq_dec x 0) as [->|Hz]; [apply N.bits_0|].
  apply N.bits_above_log2. apply N.log2_lt_pow2 in Hx; lia.
Qed.

(* the integer vector v stores the list xs (each item within the width) *)
Definition sel_iv (v : intvec) (xs : list N) : Prop :=
  1 <= iwidth v <= 64 /\ ilen v = lenN xs /\ rlen (idata v) = lenN xs * iwidth v /\
  wf (rdata (idata v)) /\ (rlen (idata v) + 63) / 64 <= lenN (rdata (idata v)) /\
  forall i x, nthN xs i = Some x ->
    x < 2 ^ iwidth v /\ forall k, k < iwidth v -> bit (rdata (idata v)) (i * iwidth v + k) = N.testbit x k.

Lemma sel_iv_empty w : 1 <= w <= 64 -> sel_iv (mkiv 0 w raw_new) [].
Proof.
  intros Hw. unfold sel_iv. cbn [iwidth ilen idata raw_new rlen rdata]. split; [exact Hw|].
  split; [reflexivity|]. split; [reflexivity|]. split; [constructor|]. split; [cbn; lia|].
  intros i x H. destruct i; discriminate.
Qed.

Lemma sel_iv_default : sel_iv iv_default [].
Proof. apply sel_iv_empty. change bits_WORD_BITS with 64. lia. Qed.

Lemma sel_iv_get v xs i x : sel_iv v xs -> nthN xs i = Some x -> iv_get v i = Ok x.
Proof.
  intros (Hw & Hlen & Hrl & Hwf & Hnw & Hitems) Hx. pose proof (nthN_Some_lt _ _ _ Hx) as Hi.
  destruct (Hitems i x Hx) as [Hxlt Hbits].
  unfold iv_get, raw_int. rewrite Hlen. replace (i <? lenN xs) with true by lia.
  replace (iwidth v =? 0) with false by lia.
  set (w := iwidth v) in *.
  assert (Hmul : (i + 1) * w <= lenN xs * w) by (apply N.mul_le_mono_r; lia).
  assert (Hidx : (i * w + w - 1) / 64 < lenN (rdata (idata v))) by lia.
  destruct (read_int_bits _ (i * w) w 0 Hwf Hw Hidx) as (r & Hr & _ & _).
  rewrite Hr. f_equal. apply N.bits_inj. intros k.
  destruct (read_int_bits _ (i * w) w k Hwf Hw Hidx) as (r' & Hr' & _ & Hb).
  assert (r' = r) by congruence. subst r'. rewrite Hb.
  destruct (N.ltb_spec k w) as [Hk|Hk]; cbn [andb].
  - apply Hbits. exact Hk.
  - symmetry. apply (testbit_above x w); assumption.
Qed.

(* the data of the integer vector has exactly the words its bits need (what RawVector::load insists on) *)
Definition iv_exact (v : intvec) : Prop := lenN (rdata (idata v)) = (rlen (idata v) + 63) / 64.

Lemma iv_exact_default : iv_exact iv_default.
Proof. reflexivity. Qed.

Lemma sel_iv_push_gen v xs x : sel_iv v xs -> x < 2 ^ iwidth v ->
  exists v', iv_push v x = Ok v' /\ sel_iv v' (xs ++ [x]) /\ iwidth v' = iwidth v /\ (iv_exact v -> iv_exact v').
Proof.
  intros (Hw & Hlen & Hrl & Hwf & Hnw & Hitems) Hx.
  unfold iv_push, raw_push_int. set (w := iwidth v) in *. replace (w =? 0) with false by lia.
  unfold words_to_bits. change bits_WORD_BITS with 64.
  set (d0 := if lenN (rdata (idata v)) * 64 <? rlen (idata v) + w then rdata (idata v) ++ [0] else rdata (idata v)).
  assert (Hwf0 : wf d0) by (unfold d0; destruct (_ <? _); [apply wf_app_zero|]; exact Hwf).
  assert (Hbit0 : forall p, bit d0 p = bit (rdata (idata v)) p).
  { intros p. unfold d0. destruct (_ <? _); [apply bit_app_zero|reflexivity]. }
  assert (Hlen0 : (rlen (idata v) + w + 63) / 64 <= lenN d0).
  { unfold d0. destruct (N.ltb_spec (lenN (rdata (idata v)) * 64) (rlen (idata v) + w)); [rewrite lenN_app; change (lenN [0]) with 1|]; lia. }
  assert (Hidx : (rlen (idata v) + w - 1) / 64 < lenN d0) by lia.
  destruct (write_int_bits d0 (rlen (idata v)) x w Hwf0 Hw Hidx) as (a' & Hwr & Hwf' & Hl' & Hb').
  rewrite Hwr. cbn [bind]. eexists. split; [reflexivity|]. split; [|split; [reflexivity|]].
  2:{ unfold iv_exact. cbn [idata rlen rdata]. intros Hex.
      assert (Hl2 : lenN a' = lenN d0) by (unfold lenN; rewrite Hl'; reflexivity). rewrite Hl2.
      unfold d0. destruct (N.ltb_spec (lenN (rdata (idata v)) * 64) (rlen (idata v) + w)) as [G|G];
        [rewrite lenN_app; change (lenN [0]) with 1|]; lia. }
  unfold sel_iv. cbn [iwidth ilen idata rlen rdata]. fold w.
  split; [exact Hw|]. split; [rewrite lenN_app, Hlen; reflexivity|].
  split; [rewrite lenN_app, Hrl; change (lenN [x]) with 1; rewrite N.mul_add_distr_r; lia|]. split; [exact Hwf'|].
  split; [unfold lenN in *; rewrite Hl'; lia|].
  intros i y Hy. rewrite nthN_app in Hy. destruct (N.ltb_spec i (lenN xs)) as [Hi|Hi].
  - destruct (Hitems i y Hy) as [Hylt Hyb]. split; [exact Hylt|]. intros k Hk.
    assert (Hmul : (i + 1) * w <= lenN xs * w) by (apply N.mul_le_mono_r; lia).
    rewrite Hb'. replace ((rlen (idata v) <=? i * w + k) && (i * w + k <? rlen (idata v) + w)) with false by lia.
    rewrite Hbit0. apply Hyb. exact Hk.
  - cbn [nthN] in Hy. destruct (N.eqb_spec (i - lenN xs) 0) as [E|E]; [|destruct (i - lenN xs - 1); discriminate].
    inversion Hy; subst y. assert (i = lenN xs) by lia. subst i. split; [exact Hx|]. intros k Hk.
    rewrite Hb', Hrl. replace ((lenN xs * w <=? lenN xs * w + k) && (lenN xs * w + k <? lenN xs * w + w)) with true by lia.
    f_equal. lia.
Qed.

Lemma sel_iv_push v xs x : sel_iv v xs -> x < 2 ^ iwidth v ->
  exists v', iv_push v x = Ok v' /\ sel_iv v' (xs ++ [x]) /\ iwidth v' = iwidth v.
Proof.
  intros Hv Hx. destruct (sel_iv_push_gen v xs x Hv Hx) as (v' & E & H1 & H2 & _). exists v'. auto.
Qed.

Lemma sel_iv_push_all_gen v xs ys : sel_iv v xs -> Forall (fun y => y < 2 ^ iwidth v) ys ->
  exists v', iv_push_all v ys = Ok v' /\ sel_iv v' (xs ++ ys) /\ iwidth v' = iwidth v /\ (iv_exact v -> iv_exact v').
Proof.
  revert v xs. induction ys as [|y t IH]; intros v xs Hv Hall; cbn [iv_push_all].
  - exists v. rewrite app_nil_r. auto.
  - inversion Hall as [|? ? Hy Ht]; subst.
    destruct (sel_iv_push_gen v xs y Hv Hy) as (v1 & E1 & Hv1 & Hw1 & Hx1). rewrite E1. cbn [bind].
    destruct (IH v1 (xs ++ [y]) Hv1) as (v' & E' & Hv' & Hw' & Hx'); [rewrite Hw1; exact Ht|].
    exists v'. split; [exact E'|]. split; [rewrite <- app_assoc in Hv'; exact Hv'|]. split; [congruence|auto].
Qed.

Lemma sel_iv_push_all v xs ys : sel_iv v xs -> Forall (fun y => y < 2 ^ iwidth v) ys ->
  exists v', iv_push_all v ys = Ok v' /\ sel_iv v' (xs ++ ys) /\ iwidth v' = iwidth v.
Proof.
  revert v xs. induction ys as [|y t IH]; intros v xs Hv Hall; cbn [iv_push_all].
  - exists v. rewrite app_nil_r. auto.
  - inversion Hall as [|? ? Hy Ht]; subst.
    destruct (sel_iv_push v xs y Hv Hy) as (v1 & E1 & Hv1 & Hw1). rewrite E1. cbn [bind].
    destruct (IH v1 (xs ++ [y]) Hv1) as (v' & E' & Hv' & Hw'); [rewrite Hw1; exact Ht|].
    exists v'. split; [exact E'|]. split; [rewrite <- app_assoc in Hv'; exact Hv'|congruence].
Qed.

Lemma sel_iv_items_aux v xs : sel_iv v xs -> forall zs ys, xs = ys ++ zs ->
  iv_items_aux v (lenN ys) (length zs) = Ok zs.
Proof.
  intros Hv. induction zs as [|z t IH]; intros ys E; cbn [iv_items_aux length]; [reflexivity|].
  assert (Hz : nthN xs (lenN ys) = Some z).
  { rewrite E, nthN_app. replace (lenN ys <? lenN ys) with false by lia.
    replace (lenN ys - lenN ys) with 0 by lia. reflexivity. }
  rewrite (sel_iv_get v xs _ z Hv Hz). cbn [bind].
  specialize (IH (ys ++ [z])). rewrite lenN_app in IH. change (lenN [z]) with 1 in IH.
  rewrite IH by (rewrite <- app_assoc; exact E). reflexivity.
Qed.

Lemma sel_iv_items v xs : sel_iv v xs -> iv_items v = Ok xs.
Proof.
  intros Hv. unfold iv_items. pose proof Hv as (_ & Hlen & _).
  rewrite Hlen. unfold lenN. rewrite Nat2N.id.
  exact (sel_iv_items_aux v xs Hv xs [] eq_refl).
Qed.

Lemma list_max_ge l x : In x l -> x <= list_max l.
Proof.
  induction l as [|y t IH]; intros H; cbn [In list_max fold_right] in *; [contradiction|].
  destruct H as [->|H]; [lia|]. specialize (IH H). unfold list_max in IH. lia.
Qed.

Lemma list_max_lt l bound : 0 < bound -> Forall (fun x => x < bound) l -> list_max l < bound.
Proof.
  intros Hb H. induction H as [|y t Hy Ht IH]; cbn [list_max fold_right]; [exact Hb|]. unfold list_max in IH. lia.
Qed.

Lemma sel_iv_bounded v xs : sel_iv v xs -> Forall (fun x => x < 2 ^ 64) xs.
Proof.
  intros (Hw & _ & _ & _ & _ & Hitems). apply Forall_forall. intros x Hx.
  apply In_nth_error in Hx. destruct Hx as [n Hn].
  assert (Hx : nthN xs (N.of_nat n) = Some x) by (rewrite nthN_nth_error, Nat2N.id; exact Hn).
  destruct (Hitems _ _ Hx) as [Hlt _].
  assert (2 ^ iwidth v <= 2 ^ 64) by (apply N.pow_le_mono_r; lia). lia.
Qed.

(* pack() keeps the contents (hence the length) and the exactness of the data *)
Lemma sel_iv_pack_gen v xs : sel_iv v xs -> exists v', iv_pack v = Ok v' /\ sel_iv v' xs /\ (iv_exact v -> iv_exact v').
Proof.
  intros Hv. unfold iv_pack. destruct (ilen v =? 0); [exists v; auto|].
  rewrite (sel_iv_items v xs Hv). cbn [bind].
  destruct (bit_len (list_max xs) =? iwidth v); [exists v; auto|].
  pose proof (sel_iv_bounded v xs Hv) as Hb.
  assert (Hm : list_max xs < 2 ^ 64) by (apply list_max_lt; [reflexivity|exact Hb]).
  set (nw := bit_len (list_max xs)).
  assert (Hnw : 1 <= nw <= 64).
  { unfold nw. rewrite bit_len_spec by exact Hm. destruct (N.eqb_spec (list_max xs) 0); [lia|].
    assert (N.log2 (list_max xs) < 64) by (apply N.log2_lt_pow2; lia). lia. }
  destruct (sel_iv_push_all_gen (mkiv 0 nw raw_new) [] xs (sel_iv_empty nw Hnw)) as (v' & E & Hv' & _ & Hx').
  - cbn [iwidth]. apply Forall_forall. intros x Hx. pose proof (list_max_ge xs x Hx) as Hle.
    destruct (N.eq_dec (list_max xs) 0) as [Hz|Hz].
    + assert (x = 0) by lia. subst x. apply N.neq_0_lt_0, N.pow_nonzero. lia.
    + pose proof (bit_len_bounds (list_max xs) ltac:(lia)) as [_ Hub]. fold nw in Hub. lia.
  - rewrite E. cbn [bind]. exists v'. split; [reflexivity|]. split; [exact Hv'|]. intros _. apply Hx'. reflexivity.
Qed.

Lemma sel_iv_pack v xs : sel_iv v xs -> exists v', iv_pack v = Ok v' /\ sel_iv v' xs.
Proof. intros Hv. destruct (sel_iv_pack_gen v xs Hv) as (v' & E & H & _). exists v'. auto. Qed.

(* ================================================================ (3) the query-side scan *)

Lemma select_scan_eq sp m t b fuel word value rr :
  select_scan sp m t b fuel word value rr =
  (let* (iw, r) := scan_rank t b fuel word value rr in
   let* off := word_select sp m (snd iw) r in Ok (bit_offset (fst iw) off)).
Proof.
  revert word value rr. induction fuel as [|fuel IH]; intros word value rr; cbn [select_scan scan_rank]; [reflexivity|].
  destruct (N.ltb_spec rr (popcount value)) as [H|H].
  - replace (popcount value <=? rr) with false by lia. reflexivity.
  - replace (popcount value <=? rr) with true by lia.
    destruct (t_word_unchecked t b (word + 1)) as [w1| |]; cbn [bind]; [apply IH|reflexivity|reflexivity].
Qed.

Lemma select_scan_spec sp m t b B : bv_repr b B -> forall index lo w rr,
  index < nwords B -> wseg (t_bits t B) index lo 64 w -> lo <= 64 ->
  rank1 (t_bits t B) (64 * index + lo) + rr < count (t_bits t B) ->
  exists p, select_scan sp m t b (scan_fuel b) index w rr = Ok p /\
    bitB (t_bits t B) p = true /\ rank1 (t_bits t B) p = rank1 (t_bits t B) (64 * index + lo) + rr.
Proof.
  intros Hrep index lo w rr Hidx Hseg Hlo Htgt.
  destruct (scan_rank_select sp m t b B Hrep (scan_fuel b) index lo w rr Hidx Hseg Hlo Htgt)
    as (i' & w' & r' & off & E & Hs & Hb & Hr).
  { rewrite (scan_fuel_spec b B Hrep). lia. }
  exists (bit_offset i' off). rewrite select_scan_eq, E. cbn [bind fst snd]. rewrite Hs. cbn [bind].
  split; [reflexivity|]. split; [exact Hb|exact Hr].
Qed.

(* ================================================================ (4) the builder *)

Lemma skipN_skipN {A} (l : list A) a c : skipN (skipN l a) c = skipN l (a + c).
Proof. apply nth_opt_ext. intros i. rewrite !nth_opt_skipN. f_equal. lia. Qed.

Lemma skipN_ge {A} (l : list A) n : lenN l <= n -> skipN l n = [].
Proof. intros H. apply nth_opt_ext. intros i. rewrite nth_opt_skipN. cbn [nth_opt]. apply nth_opt_None. lia. Qed.

Lemma tl_skipN {A} (l : list A) n : tl (skipN l n) = skipN l (n + 1).
Proof. apply nth_opt_ext. intros i. rewrite nth_opt_tl, !nth_opt_skipN. f_equal. lia. Qed.

Lemma skipN_0 {A} (l : list A) : skipN l 0 = l.
Proof. destruct l; reflexivity. Qed.

Lemma nth_opt_R t B k :
  nth_opt (oi_R t B) k = option_map (fun x => (k, x)) (nth_opt (ones (t_bits t B)) k).
Proof. unfold oi_R. rewrite nth_opt_index_from. destruct (nth_opt _ k); reflexivity. Qed.

Lemma lenN_R t B : lenN (oi_R t B) = count (t_bits t B).
Proof. unfold oi_R. rewrite lenN_index_from. apply lenN_ones. Qed.

(* positions increase with the rank *)
Lemma ones_increasing B a c pa pc : nth_opt (ones B) a = Some pa -> nth_opt (ones B) c = Some pc -> a < c -> pa < pc.
Proof.
  intros Ha Hc Hlt. apply nth_opt_ones_char in Ha. apply nth_opt_ones_char in Hc.
  apply (rank1_lt_pos B). lia.
Qed.

Lemma ones_lt_len B r p : nth_opt (ones B) r = Some p -> p < lenB B.
Proof. intros H. apply nth_opt_ones_char in H. apply bitB_lt. tauto. Qed.

(* the inner loop of a long superblock: n consecutive positions relative to start1 *)
Lemma fill_long_spec t b B : bv_repr b B -> forall n k start1 long lv it,
  sel_iv long lv -> iwidth long = 64 ->
  oi_inv t B it -> oi_mid t B it = skipN (oi_R t B) (k + 1) ->
  k + N.of_nat n <= count (t_bits t B) ->
  exists long' it' lv',
    fill_long t b n start1 long it (nth_opt (oi_R t B) k) = Ok (long', it', nth_opt (oi_R t B) (k + N.of_nat n)) /\
    sel_iv long' (lv ++ lv') /\ iwidth long' = 64 /\ lenN lv' = N.of_nat n /\
    oi_inv t B it' /\ oi_mid t B it' = skipN (oi_R t B) (k + N.of_nat n + 1) /\
    (forall i x, i < N.of_nat n -> nth_opt (ones (t_bits t B)) (k + i) = Some x -> nthN lv' i = Some (x - start1)) /\
    (iv_exact long -> iv_exact long').
Proof.
  intros Hrep. destruct (repr_facts b B Hrep) as (HL & HLlt & _).
  induction n as [|n IH]; intros k start1 long lv it Hlong Hw Hinv Hmid Hk.
  - exists long, it, []. cbn [fill_long]. change (N.of_nat 0) with 0. rewrite N.add_0_r, app_nil_r.
    split; [reflexivity|]. split; [exact Hlong|]. split; [exact Hw|]. split; [reflexivity|].
    split; [exact Hinv|]. split; [exact Hmid|]. split; [intros i x Hi; lia|auto].
  - cbn [fill_long]. destruct (nth_opt_lt_Some (ones (t_bits t B)) k) as [x0 Hx0]; [rewrite lenN_ones; lia|].
    rewrite nth_opt_R, Hx0. cbn [option_map opt_unwrap bind snd].
    pose proof (ones_lt_len _ _ _ Hx0) as Hx0len. rewrite t_bits_len in Hx0len.
    destruct (sel_iv_push_gen long lv (x0 - start1) Hlong) as (long1 & E1 & Hlong1 & Hw1 & Hx1); [rewrite Hw; lia|].
    rewrite E1. cbn [bind].
    destruct (oi_next_spec t b B it Hrep Hinv) as (it1 & E2 & Hinv1 & Hmid1). rewrite E2. cbn [bind].
    rewrite Hmid, nth_opt_hd, nth_opt_skipN, N.add_0_r.
    rewrite Hmid, tl_skipN in Hmid1.
    destruct (IH (k + 1) start1 long1 (lv ++ [x0 - start1]) it1 Hlong1 ltac:(congruence) Hinv1 Hmid1 ltac:(lia))
      as (long' & it' & lv' & E3 & H1 & H2 & H3 & H4 & H5 & H6 & H7).
    rewrite E3. replace (k + 1 + N.of_nat n) with (k + N.of_nat (S n)) in * by lia.
    exists long', it', ((x0 - start1) :: lv'). split; [reflexivity|].
    split; [rewrite <- app_assoc in H1; exact H1|]. split; [exact H2|].
    split; [unfold lenN in *; cbn [length]; lia|]. split; [exact H4|]. split; [exact H5|].
    split; [|auto].
    intros i x Hi Hx. cbn [nthN]. destruct (N.eqb_spec i 0) as [->|Hi0].
    + rewrite N.add_0_r in Hx. congruence.
    + apply H6; [lia|]. replace (k + 1 + (i - 1)) with (k + i) by lia. exact Hx.
Qed.

(* the inner loop of a short superblock: every 64th position relative to start1 *)
Lemma fill_short_spec sp m t b B : bv_repr b B -> forall n k start1 short shv it,
  sel_iv short shv -> iwidth short = 64 ->
  oi_inv t B it -> oi_mid t B it = skipN (oi_R t B) (k + 1) ->
  (forall j, j < N.of_nat n -> k + 64 * j < count (t_bits t B)) ->
  exists short' it' shv',
    fill_short sp m t b n start1 short it (nth_opt (oi_R t B) k)
      = Ok (short', it', nth_opt (oi_R t B) (k + 64 * N.of_nat n)) /\
    sel_iv short' (shv ++ shv') /\ iwidth short' = 64 /\ lenN shv' = N.of_nat n /\
    oi_inv t B it' /\ oi_mid t B it' = skipN (oi_R t B) (k + 64 * N.of_nat n + 1) /\
    (forall j x, j < N.of_nat n -> nth_opt (ones (t_bits t B)) (k + 64 * j) = Some x -> nthN shv' j = Some (x - start1)) /\
    (iv_exact short -> iv_exact short').
Proof.
  intros Hrep. destruct (repr_facts b B Hrep) as (HL & HLlt & _).
  induction n as [|n IH]; intros k start1 short shv it Hshort Hw Hinv Hmid Hk.
  - exists short, it, []. cbn [fill_short]. change (N.of_nat 0) with 0. rewrite N.mul_0_r, N.add_0_r, app_nil_r.
    split; [reflexivity|]. split; [exact Hshort|]. split; [exact Hw|]. split; [reflexivity|].
    split; [exact Hinv|]. split; [exact Hmid|]. split; [intros i x Hi; lia|auto].
  - cbn [fill_short]. pose proof (Hk 0 ltac:(lia)) as Hk0. rewrite N.mul_0_r, N.add_0_r in Hk0.
    destruct (nth_opt_lt_Some (ones (t_bits t B)) k) as [x0 Hx0]; [rewrite lenN_ones; lia|].
    rewrite nth_opt_R, Hx0. cbn [option_map opt_unwrap bind snd].
    pose proof (ones_lt_len _ _ _ Hx0) as Hx0len. rewrite t_bits_len in Hx0len.
    destruct (sel_iv_push_gen short shv (x0 - start1) Hshort) as (short1 & E1 & Hshort1 & Hw1 & Hx1); [rewrite Hw; lia|].
    rewrite E1. cbn [bind]. change select_BLOCK_SIZE with 64. change (64 - 1) with 63.
    destruct (oi_nth_spec sp m t b B it 63 Hrep Hinv) as (it1 & E2 & Hinv1 & Hmid1). rewrite E2. cbn [bind].
    rewrite Hmid, nth_opt_skipN. replace (k + 1 + 63) with (k + 64) by lia.
    rewrite Hmid, skipN_skipN in Hmid1. replace (k + 1 + (63 + 1)) with (k + 64 + 1) in Hmid1 by lia.
    destruct (IH (k + 64) start1 short1 (shv ++ [x0 - start1]) it1 Hshort1 ltac:(congruence) Hinv1 Hmid1)
      as (short' & it' & shv' & E3 & H1 & H2 & H3 & H4 & H5 & H6 & H7).
    { intros j Hj. specialize (Hk (j + 1) ltac:(lia)). lia. }
    rewrite E3. replace (k + 64 + 64 * N.of_nat n) with (k + 64 * N.of_nat (S n)) in * by lia.
    exists short', it', ((x0 - start1) :: shv'). split; [reflexivity|].
    split; [rewrite <- app_assoc in H1; exact H1|]. split; [exact H2|].
    split; [unfold lenN in *; cbn [length]; lia|]. split; [exact H4|]. split; [exact H5|].
    split; [|auto].
    intros j x Hj Hx. cbn [nthN]. destruct (N.eqb_spec j 0) as [->|Hj0].
    + rewrite N.mul_0_r, N.add_0_r in Hx. congruence.
    + apply H6; [lia|]. replace (k + 64 + 64 * (j - 1)) with (k + 64 * j) by lia. exact Hx.
Qed.

(* what the arrays must say about superblock s: its first position, and either every position of
   the superblock (long) or every 64th (short), relative to the first *)
Definition sb_good (P sv lv shv : list N) (s : N) : Prop :=
  exists p0 ptr, nth_opt P (4096 * s) = Some p0 /\ nthN sv (2 * s) = Some p0 /\ nthN sv (2 * s + 1) = Some ptr /\
    ((ptr mod 2 = 0 /\ forall off x, off < 4096 -> nth_opt P (4096 * s + off) = Some x ->
                                     nthN lv (ptr / 2 + off) = Some (x - p0)) \/
     (ptr mod 2 = 1 /\ forall j x, j < 64 -> nth_opt P (4096 * s + 64 * j) = Some x ->
                                   nthN shv (ptr / 2 + j) = Some (x - p0))).

Lemma sb_good_mono P sv lv shv s a c d : sb_good P sv lv shv s -> sb_good P (sv ++ a) (lv ++ c) (shv ++ d) s.
Proof.
  intros (p0 & ptr & H1 & H2 & H3 & H4). exists p0, ptr. split; [exact H1|].
  split; [apply nthN_app_l; exact H2|]. split; [apply nthN_app_l; exact H3|].
  destruct H4 as [[E H]|[E H]]; [left|right]; (split; [exact E|]); intros; apply nthN_app_l; eapply H; eauto.
Qed.

Definition log4_of (b : bitvec) : N := let l := bit_len (bv_len b) in (l * l) * (l * l).
Definition nsb_of (t : transf) (B : list bool) : N := (count (t_bits t B) + 4095) / 4096.

(* the pointer stored for a long superblock fits a word: long superblocks are at least log4 apart *)
Lemma long_ptr_bound L c n s pos l4 :
  L < 2 ^ 64 -> c <= L -> n <= 4096 * s -> 4096 * s < c -> n * l4 <= 4096 * pos -> pos <= L ->
  l4 = (bit_len L * bit_len L) * (bit_len L * bit_len L) -> 2 * n < 2 ^ 64.
Proof.
  intros HL Hc Hn Hs Hmul Hpos Hl4.
  destruct (N.lt_ge_cases L (2 ^ 62)) as [Hsmall|Hbig]; [lia|].
  pose proof (bit_len_bounds L ltac:(lia)) as [_ Hub].
  assert (Hbl : 63 <= bit_len L).
  { destruct (N.le_gt_cases 63 (bit_len L)) as [G|G]; [exact G|].
    assert (2 ^ bit_len L <= 2 ^ 62) by (apply N.pow_le_mono_r; lia). lia. }
  assert (H2 : 63 * 63 <= bit_len L * bit_len L) by (apply N.mul_le_mono; exact Hbl).
  assert (H4 : (63 * 63) * (63 * 63) <= l4) by (rewrite Hl4; apply N.mul_le_mono; exact H2).
  assert (H5 : n * ((63 * 63) * (63 * 63)) <= n * l4) by (apply N.mul_le_mono_l; exact H4).
  lia.
Qed.

Record ss_inv (t : transf) (b : bitvec) (B : list bool) (s : N) (st : ss_build) (sv lv shv : list N) (pos : N) : Prop := {
  si_samples : sel_iv (sb_samples st) sv;
  si_samples_w : iwidth (sb_samples st) = 64;
  si_long : sel_iv (sb_long st) lv;
  si_long_w : iwidth (sb_long st) = 64;
  si_short : sel_iv (sb_short st) shv;
  si_short_w : iwidth (sb_short st) = 64;
  si_len_sv : lenN sv = 2 * s;
  si_len_shv : lenN shv <= 64 * s;
  si_len_lv : lenN lv <= 4096 * s;
  si_spread : lenN lv * log4_of b <= 4096 * pos;
  si_pos_len : pos <= lenB B;
  si_pos_sample : forall r p, sb_sample st = Some (r, p) -> pos <= p;
  si_good : forall s', s' < s -> sb_good (ones (t_bits t B)) sv lv shv s';
  si_sample : sb_sample st = nth_opt (oi_R t B) (4096 * s);
  si_sit_inv : oi_inv t B (sb_sample_iter st);
  si_sit_mid : oi_mid t B (sb_sample_iter st) = skipN (oi_R t B) (4096 * s + 1);
  si_value : sb_value st = nth_opt (oi_R t B) (4096 * s);
  si_it_inv : oi_inv t B (sb_iter st);
  si_it_mid : oi_mid t B (sb_iter st) = skipN (oi_R t B) (4096 * s + 1);
  (* the counts BitVector::load / SelectSupport::load check: every superblock before the last one adds
     exactly 4096 entries to long or exactly 64 to short, the last one between 1 and that many *)
  si_x_samples : iv_exact (sb_samples st);
  si_x_long : iv_exact (sb_long st);
  si_x_short : iv_exact (sb_short st);
  si_cnt : (lenN lv + 4095) / 4096 + (lenN shv + 63) / 64 = s;
  si_full : 4096 * s <= count (t_bits t B) -> lenN lv mod 4096 = 0 /\ lenN shv mod 64 = 0;
  si_lv_c : lenN lv <= count (t_bits t B);
  si_shv_c : 64 * lenN shv <= count (t_bits t B) + 63
}.

(* what the finished (or packed) arrays say *)
Definition ss_arrays (t : transf) (B : list bool) (samples long short : intvec) : Prop :=
  exists sv lv shv, sel_iv samples sv /\ sel_iv long lv /\ sel_iv short shv /\
    lenN sv = 2 * nsb_of t B /\ forall s, s < nsb_of t B -> sb_good (ones (t_bits t B)) sv lv shv s.

(* the sizes of the finished (or packed) arrays: exactly the words their bits need, two samples per superblock,
   long superblocks + short superblocks = superblocks in the rounded-up arithmetic of long_superblocks() /
   short_superblocks(), and the bounds that keep the three arrays below 2^64 bits *)
Definition ss_counts (t : transf) (b : bitvec) (B : list bool) (samples long short : intvec) : Prop :=
  iv_exact samples /\ iv_exact long /\ iv_exact short /\
  ilen samples = 2 * nsb_of t B /\
  (ilen long + 4095) / 4096 + (ilen short + 63) / 64 = nsb_of t B /\
  ilen long <= count (t_bits t B) /\ 64 * ilen short <= count (t_bits t B) + 63 /\
  ilen long * log4_of b <= 4096 * lenB B.

Lemma R_beyond t B a c : count (t_bits t B) <= a -> count (t_bits t B) <= c ->
  nth_opt (oi_R t B) a = nth_opt (oi_R t B) c /\ skipN (oi_R t B) (a + 1) = skipN (oi_R t B) (c + 1).
Proof.
  intros Ha Hc. rewrite !nth_opt_None by (rewrite lenN_R; lia).
  rewrite !skipN_ge by (rewrite lenN_R; lia). split; reflexivity.
Qed.

Lemma ss_loop_spec sp m t b B : bv_repr b B -> forall fuel s st sv lv shv pos,
  ss_inv t b B s st sv lv shv pos -> s <= nsb_of t B -> nsb_of t B < s + N.of_nat fuel ->
  exists st', ss_loop sp m t b fuel (log4_of b) st = Ok st' /\
              ss_arrays t B (sb_samples st') (sb_long st') (sb_short st') /\
              ss_counts t b B (sb_samples st') (sb_long st') (sb_short st').
Proof.
  intros Hrep. destruct (repr_facts b B Hrep) as (HL & HLlt & _).
  pose proof (t_count_ones_spec t b B Hrep) as Hcnt.
  set (P := ones (t_bits t B)). set (c := count (t_bits t B)).
  assert (HcL : c <= lenB B) by (unfold c; rewrite <- (t_bits_len t B); apply count_le_length).
  induction fuel as [|fuel IH]; intros s st sv lv shv pos Hinv Hs Hfuel; [lia|].
  cbn [ss_loop]. destruct Hinv as [I1 I1w I2 I2w I3 I3w I4 I5 I6 I7 I8 I9 I10 I11 I12 I13 I14 I15 I16 X1 X2 X3 C1 C2 C3 C4].
  fold c in C2, C3, C4.
  rewrite I11, nth_opt_R. fold P. destruct (nth_opt P (4096 * s)) as [p0|] eqn:Ep0; cbn [option_map].
  2:{ (* no further superblock *)
      exists st. split; [reflexivity|].
      assert (c <= 4096 * s).
      { destruct (N.le_gt_cases c (4096 * s)) as [G|G]; [exact G|].
        destruct (nth_opt_lt_Some P (4096 * s)) as [x Hx]; [unfold P; rewrite lenN_ones; exact G|]. congruence. }
      assert (Es : s = nsb_of t B) by (unfold nsb_of in *; fold c in Hs |- *; lia).
      revert C1. subst s. intros C1.
      split.
      - exists sv, lv, shv.
        split; [exact I1|]. split; [exact I2|]. split; [exact I3|]. split; [exact I4|exact I10].
      - pose proof I1 as (_ & L1 & _). pose proof I2 as (_ & L2 & _). pose proof I3 as (_ & L3 & _).
        unfold ss_counts. rewrite L1, L2, L3. fold c.
        split; [exact X1|]. split; [exact X2|]. split; [exact X3|]. split; [exact I4|]. split; [exact C1|].
        split; [exact C3|]. split; [exact C4|]. lia. }
  (* superblock s starts at rank 4096 s, position p0 *)
  assert (Hsc : 4096 * s < c) by (apply nth_opt_Some_lt in Ep0; unfold P in Ep0; rewrite lenN_ones in Ep0; exact Ep0).
  pose proof (ones_lt_len _ _ _ Ep0) as Hp0len. rewrite t_bits_len in Hp0len.
  (* all superblocks so far were full: nl long ones and ns short ones *)
  assert (Hnl : exists nl ns, lenN lv = 4096 * nl /\ lenN shv = 64 * ns /\ nl + ns = s).
  { destruct (C2 ltac:(lia)) as [M1 M2]. exists (lenN lv / 4096), (lenN shv / 64). lia. }
  destruct Hnl as (nl & ns & Enl & Ens & Ecnt). clear C1 C2.
  change select_SUPERBLOCK_SIZE with 4096. change (4096 - 1) with 4095.
  destruct (oi_nth_spec sp m t b B (sb_sample_iter st) 4095 Hrep I12) as (sit' & E1 & Hsit_inv & Hsit_mid).
  rewrite E1. cbn [bind]. rewrite I13, nth_opt_skipN. rewrite I13, skipN_skipN in Hsit_mid.
  replace (4096 * s + 1 + 4095) with (4096 * (s + 1)) by lia.
  replace (4096 * s + 1 + (4095 + 1)) with (4096 * (s + 1) + 1) in Hsit_mid by lia.
  set (next_sample := nth_opt (oi_R t B) (4096 * (s + 1))).
  set (limit := match next_sample with Some v => v | None => (t_count_ones t b, bv_len b) end).
  assert (Hlim : fst limit = N.min (4096 * (s + 1)) c /\ p0 <= snd limit <= lenB B /\
                 forall r p, next_sample = Some (r, p) -> snd limit <= p).
  { unfold limit, next_sample. rewrite nth_opt_R. fold P.
    destruct (nth_opt P (4096 * (s + 1))) as [x1|] eqn:Ex1; cbn [option_map fst snd].
    - pose proof (nth_opt_Some_lt _ _ _ Ex1) as H1. unfold P in H1. rewrite lenN_ones in H1. fold c in H1.
      pose proof (ones_increasing _ _ _ _ _ Ep0 Ex1 ltac:(lia)).
      pose proof (ones_lt_len _ _ _ Ex1) as H3. rewrite t_bits_len in H3.
      split; [lia|]. split; [lia|]. intros r p Hrp. inversion Hrp; subst. lia.
    - assert (c <= 4096 * (s + 1)).
      { destruct (N.le_gt_cases c (4096 * (s + 1))) as [G|G]; [exact G|].
        destruct (nth_opt_lt_Some P (4096 * (s + 1))) as [x Hx]; [unfold P; rewrite lenN_ones; exact G|]. congruence. }
      rewrite Hcnt. fold c. split; [lia|]. split; [lia|]. intros r p Hrp. discriminate. }
  destruct Hlim as (Hlim0 & Hlim1 & Hlim2). clearbody limit.
  cbn [snd fst].
  destruct (sel_iv_push_gen _ sv p0 I1) as (samples1 & E2 & Hs1 & Hs1w & XS1); [rewrite I1w; lia|].
  specialize (XS1 X1).
  rewrite E2. cbn [bind].
  set (values := fst limit - 4096 * s).
  assert (Hvalues : values = N.min 4096 (c - 4096 * s)) by (unfold values; lia).
  (* where the iterators stand after this superblock *)
  assert (Hafter : forall e, e = 4096 * s + values \/ (c <= e /\ values < 4096) ->
            nth_opt (oi_R t B) e = nth_opt (oi_R t B) (4096 * (s + 1)) /\
            skipN (oi_R t B) (e + 1) = skipN (oi_R t B) (4096 * (s + 1) + 1)).
  { intros e He. destruct (N.le_gt_cases 4096 (c - 4096 * s)) as [G|G].
    - assert (e = 4096 * (s + 1)) by lia. subst e. split; reflexivity.
    - apply R_beyond; fold c; lia. }
  destruct (N.leb_spec (log4_of b) (snd limit - p0)) as [Hlong|Hshort].
  - (* long superblock *)
    assert (Hptr : 2 * ilen (sb_long st) < 2 ^ 64).
    { destruct I2 as (_ & -> & _).
      apply (long_ptr_bound (lenB B) c (lenN lv) s pos (log4_of b)); try assumption; try lia.
      unfold log4_of. rewrite HL. reflexivity. }
    destruct (sel_iv_push_gen _ _ (2 * ilen (sb_long st)) Hs1) as (samples2 & E3 & Hs2 & Hs2w & XS2); [rewrite Hs1w, I1w; exact Hptr|].
    specialize (XS2 XS1).
    rewrite E3. cbn [bind]. fold values.
    destruct (fill_long_spec t b B Hrep (N.to_nat values) (4096 * s) p0 _ lv _ I2 I2w I15 I16)
      as (long' & it' & lv' & E4 & Hl1 & Hl2 & Hl3 & Hl4 & Hl5 & Hl6 & XL); [fold c; lia|].
    specialize (XL X2).
    rewrite N2Nat.id in *. rewrite I14, E4. cbn [bind].
    destruct (Hafter (4096 * s + values) (or_introl eq_refl)) as [Ha1 Ha2].
    apply (IH (s + 1) _ ((sv ++ [p0]) ++ [2 * ilen (sb_long st)]) (lv ++ lv') shv (snd limit)); [|unfold nsb_of; fold c; lia|lia].
    constructor; cbn [sb_samples sb_long sb_short sb_sample_iter sb_sample sb_iter sb_value].
    + exact Hs2.
    + congruence.
    + exact Hl1.
    + exact Hl2.
    + exact I3.
    + exact I3w.
    + rewrite !lenN_app. change (lenN [p0]) with 1. change (lenN [2 * ilen (sb_long st)]) with 1. lia.
    + lia.
    + rewrite lenN_app. lia.
    + rewrite lenN_app, N.mul_add_distr_r, Hl3.
      assert (values * log4_of b <= 4096 * log4_of b) by (apply N.mul_le_mono_r; lia).
      specialize (I9 _ _ (eq_trans I11 (eq_trans (nth_opt_R t B _) (f_equal _ Ep0)))). cbn [option_map] in I9. lia.
    + lia.
    + exact Hlim2.
    + intros s' Hs'. destruct (N.eq_dec s' s) as [->|Hne].
      * exists p0, (2 * ilen (sb_long st)). fold P. split; [exact Ep0|].
        split; [rewrite <- app_assoc, nthN_app; replace (2 * s <? lenN sv) with false by lia;
                replace (2 * s - lenN sv) with 0 by lia; reflexivity|].
        split; [rewrite <- app_assoc, nthN_app; replace (2 * s + 1 <? lenN sv) with false by lia;
                replace (2 * s + 1 - lenN sv) with 1 by lia; reflexivity|].
        left. split; [lia|]. intros off x Hoff Hx. destruct I2 as (_ & -> & _).
        replace (2 * lenN lv / 2) with (lenN lv) by lia. rewrite nthN_app.
        replace (lenN lv + off <? lenN lv) with false by lia. replace (lenN lv + off - lenN lv) with off by lia.
        apply Hl6; [|exact Hx]. apply nth_opt_Some_lt in Hx. unfold P in Hx. rewrite lenN_ones in Hx. fold c in Hx. lia.
      * rewrite <- app_assoc. rewrite <- (app_nil_r shv). apply sb_good_mono. apply I10. lia.
    + reflexivity.
    + exact Hsit_inv.
    + exact Hsit_mid.
    + exact Ha1.
    + exact Hl4.
    + rewrite Hl5. exact Ha2.
    + exact XS2.
    + exact XL.
    + exact X3.
    + rewrite lenN_app, Hl3. fold c. lia.
    + rewrite lenN_app, Hl3. fold c. lia.
    + rewrite lenN_app, Hl3. fold c. lia.
    + fold c. lia.
  - (* short superblock *)
    assert (Hptr : 2 * ilen (sb_short st) + 1 < 2 ^ 64).
    { destruct I3 as (_ & -> & _). lia. }
    destruct (sel_iv_push_gen _ _ (2 * ilen (sb_short st) + 1) Hs1) as (samples2 & E3 & Hs2 & Hs2w & XS2); [rewrite Hs1w, I1w; exact Hptr|].
    specialize (XS2 XS1).
    rewrite E3. cbn [bind]. fold values. change select_BLOCK_SIZE with 64.
    set (blocks := (values + 64 - 1) / 64).
    destruct (fill_short_spec sp m t b B Hrep (N.to_nat blocks) (4096 * s) p0 _ shv _ I3 I3w I15 I16)
      as (short' & it' & shv' & E4 & Hl1 & Hl2 & Hl3 & Hl4 & Hl5 & Hl6 & XL).
    { intros j Hj. rewrite N2Nat.id in Hj. fold c. unfold blocks in Hj. lia. }
    specialize (XL X3).
    rewrite N2Nat.id in *. rewrite I14, E4. cbn [bind].
    destruct (Hafter (4096 * s + 64 * blocks)) as [Ha1 Ha2]; [unfold blocks; lia|].
    apply (IH (s + 1) _ ((sv ++ [p0]) ++ [2 * ilen (sb_short st) + 1]) lv (shv ++ shv') pos); [|unfold nsb_of; fold c; lia|lia].
    constructor; cbn [sb_samples sb_long sb_short sb_sample_iter sb_sample sb_iter sb_value].
    + exact Hs2.
    + congruence.
    + exact I2.
    + exact I2w.
    + exact Hl1.
    + exact Hl2.
    + rewrite !lenN_app. change (lenN [p0]) with 1. change (lenN [2 * ilen (sb_short st) + 1]) with 1. lia.
    + rewrite lenN_app, Hl3. unfold blocks. lia.
    + lia.
    + exact I7.
    + exact I8.
    + intros r p Hrp. specialize (Hlim2 r p Hrp).
      specialize (I9 _ _ (eq_trans I11 (eq_trans (nth_opt_R t B _) (f_equal _ Ep0)))). cbn [option_map] in I9. lia.
    + intros s' Hs'. destruct (N.eq_dec s' s) as [->|Hne].
      * exists p0, (2 * ilen (sb_short st) + 1). fold P. split; [exact Ep0|].
        split; [rewrite <- app_assoc, nthN_app; replace (2 * s <? lenN sv) with false by lia;
                replace (2 * s - lenN sv) with 0 by lia; reflexivity|].
        split; [rewrite <- app_assoc, nthN_app; replace (2 * s + 1 <? lenN sv) with false by lia;
                replace (2 * s + 1 - lenN sv) with 1 by lia; reflexivity|].
        right. split; [lia|]. intros j x Hj Hx. destruct I3 as (_ & -> & _).
        replace ((2 * lenN shv + 1) / 2) with (lenN shv) by lia. rewrite nthN_app.
        replace (lenN shv + j <? lenN shv) with false by lia. replace (lenN shv + j - lenN shv) with j by lia.
        apply Hl6; [|exact Hx]. apply nth_opt_Some_lt in Hx. unfold P in Hx. rewrite lenN_ones in Hx. fold c in Hx.
        unfold blocks. lia.
      * rewrite <- app_assoc. rewrite <- (app_nil_r lv). apply sb_good_mono. apply I10. lia.
    + reflexivity.
    + exact Hsit_inv.
    + exact Hsit_mid.
    + exact Ha1.
    + exact Hl4.
    + rewrite Hl5. exact Ha2.
    + exact XS2.
    + exact X2.
    + exact XL.
    + rewrite lenN_app, Hl3. fold c. unfold blocks. lia.
    + rewrite lenN_app, Hl3. fold c. unfold blocks. lia.
    + fold c. lia.
    + rewrite lenN_app, Hl3. fold c. unfold blocks. lia.
Qed.

(* a select support whose three arrays describe the set bits of the transformed sequence *)
Definition ss_valid (t : transf) (B : list bool) (s : select_support) : Prop :=
  ss_arrays t B (ss_samples s) (ss_long s) (ss_short s).

(* SelectSupport::new succeeds on every vector, in both modes and on both select paths; the result is
   valid and has ceil(ones / 4096) superblocks. No case distinction on long / short superblocks. *)
Theorem select_new_counts sp m t b B : bv_repr b B ->
  exists s, select_new sp m t b = Ok s /\ ss_valid t B s /\
            ss_superblocks s = (count (t_bits t B) + 4095) / 4096 /\
            ss_counts t b B (ss_samples s) (ss_long s) (ss_short s).
Proof.
  intros Hrep. unfold select_new.
  destruct (oi_start_inv t b B Hrep) as [Hinv0 Hmid0].
  destruct (oi_next_spec t b B _ Hrep Hinv0) as (it1 & E1 & Hinv1 & Hmid1).
  rewrite E1. cbn [bind]. rewrite Hmid0 in *.
  pose proof (t_count_ones_spec t b B Hrep) as Hcnt.
  change select_SUPERBLOCK_SIZE with 4096.
  change ((bit_len (bv_len b) * bit_len (bv_len b)) * (bit_len (bv_len b) * bit_len (bv_len b))) with (log4_of b).
  destruct (ss_loop_spec sp m t b B Hrep (S (S (N.to_nat (t_count_ones t b / 4096)))) 0
              (mkssb iv_default iv_default iv_default it1 (hd_error (oi_R t B)) it1 (hd_error (oi_R t B))) [] [] [] 0)
    as (st' & E2 & (sv & lv & shv & H1 & H2 & H3 & H4 & H5) & (Y1 & Y2 & Y3 & Y4 & Y5 & Y6 & Y7 & Y8)).
  - constructor; cbn [sb_samples sb_long sb_short sb_sample_iter sb_sample sb_iter sb_value];
      try exact sel_iv_default; try reflexivity; try (cbn [lenN length]; lia).
    + rewrite nth_opt_hd. reflexivity.
    + exact Hinv1.
    + rewrite Hmid1, <- (skipN_0 (oi_R t B)) at 1. rewrite tl_skipN. reflexivity.
    + rewrite nth_opt_hd. reflexivity.
    + exact Hinv1.
    + rewrite Hmid1, <- (skipN_0 (oi_R t B)) at 1. rewrite tl_skipN. reflexivity.
    + change (lenN (@nil N)) with 0. lia.
    + change (lenN (@nil N)) with 0. lia.
  - lia.
  - unfold nsb_of. rewrite Hcnt. lia.
  - rewrite E2. cbn [bind].
    destruct (sel_iv_pack_gen _ _ H1) as (s1 & P1 & Hs1 & Z1). destruct (sel_iv_pack_gen _ _ H2) as (s2 & P2 & Hs2 & Z2).
    destruct (sel_iv_pack_gen _ _ H3) as (s3 & P3 & Hs3 & Z3). rewrite P1. cbn [bind]. rewrite P2. cbn [bind]. rewrite P3. cbn [bind].
    eexists. split; [reflexivity|]. split; [|split].
    + exists sv, lv, shv. cbn [ss_samples ss_long ss_short]. auto.
    + unfold ss_superblocks. cbn [ss_samples]. destruct Hs1 as (_ & -> & _). rewrite H4. unfold nsb_of. lia.
    + cbn [ss_samples ss_long ss_short]. unfold ss_counts.
      assert (L1 : ilen s1 = ilen (sb_samples st')) by (destruct Hs1 as (_ & -> & _), H1 as (_ & -> & _); reflexivity).
      assert (L2 : ilen s2 = ilen (sb_long st')) by (destruct Hs2 as (_ & -> & _), H2 as (_ & -> & _); reflexivity).
      assert (L3 : ilen s3 = ilen (sb_short st')) by (destruct Hs3 as (_ & -> & _), H3 as (_ & -> & _); reflexivity).
      rewrite L1, L2, L3. auto 10.
Qed.

Theorem select_new_spec sp m t b B : bv_repr b B ->
  exists s, select_new sp m t b = Ok s /\ ss_valid t B s /\
            ss_superblocks s = (count (t_bits t B) + 4095) / 4096.
Proof.
  intros Hrep. destruct (select_new_counts sp m t b B Hrep) as (s & E & V & N & _). exists s. auto.
Qed.

(* ================================================================ (5) select_unchecked *)

(* for every rank below the number of ones the query returns the position of that one, whether the
   superblock of the rank was stored long or short *)
Theorem select_unchecked_spec sp m t s b B r : bv_repr b B -> ss_valid t B s ->
  r < count (t_bits t B) ->
  exists p, select_unchecked sp m t s b r = Ok p /\ nth_opt (ones (t_bits t B)) r = Some p.
Proof.
  intros Hrep (sv & lv & shv & Hsv & Hlv & Hshv & Hlen & Hgood) Hr.
  set (B' := t_bits t B) in *. set (P := ones B') in *.
  destruct (select_exists B' r Hr) as (x & Hx & Hxbit & Hxr & Hxlen). fold P in Hx.
  unfold select_unchecked. change select_SUPERBLOCK_SIZE with 4096.
  change select_SUPERBLOCK_MASK with (N.ones 12). rewrite N.land_ones. change (2 ^ 12) with 4096.
  set (sb := r / 4096). set (off := r mod 4096).
  destruct (Hgood sb) as (p0 & ptr & Hp0 & Hs0 & Hs1 & Hreg); [unfold nsb_of, sb; fold B'; lia|]. fold P in Hp0.
  rewrite (sel_iv_get _ _ _ _ Hsv Hs0). cbn [bind].
  destruct (N.eqb_spec off 0) as [Hoff|Hoff].
  - exists p0. split; [reflexivity|]. replace r with (4096 * sb) by (unfold sb, off in *; lia). exact Hp0.
  - rewrite (sel_iv_get _ _ _ _ Hsv Hs1). cbn [bind].
    assert (Hparity : N.land ptr 1 = ptr mod 2) by (change 1 with (N.ones 1); rewrite N.land_ones; reflexivity).
    rewrite Hparity.
    assert (Hr_eq : r = 4096 * sb + off) by (unfold sb, off; lia).
    assert (Hp0x : p0 < x) by (apply (ones_increasing B' (4096 * sb) r); [exact Hp0|exact Hx|lia]).
    destruct Hreg as [[Epar Hlong]|[Epar Hshort]]; rewrite Epar.
    + (* long: the offset is stored *)
      replace (0 =? 0) with true by lia.
      rewrite (sel_iv_get _ _ _ _ Hlv (Hlong off x ltac:(unfold off; lia) ltac:(rewrite <- Hr_eq; exact Hx))). cbn [bind].
      exists x. split; [f_equal; lia|exact Hx].
    + (* short: block sample, then scan the words *)
      replace (1 =? 0) with false by lia.
      change select_BLOCK_SIZE with 64. change select_BLOCK_MASK with (N.ones 6). rewrite N.land_ones. change (2 ^ 6) with 64.
      set (block := off / 64). set (rr := off mod 64).
      assert (Hblk : 4096 * sb + 64 * block < count B') by (unfold block, off, sb in *; lia).
      destruct (select_exists B' _ Hblk) as (x0 & Hx0 & Hx0bit & Hx0r & Hx0len). fold P in Hx0.
      rewrite (sel_iv_get _ _ _ _ Hshv (Hshort block x0 ltac:(unfold block, off; lia) Hx0)). cbn [bind].
      assert (Hp0x0 : p0 <= x0).
      { destruct (N.eq_dec block 0) as [Hb0|Hb0].
        - rewrite Hb0, N.mul_0_r, N.add_0_r in Hx0. assert (x0 = p0) by congruence. lia.
        - assert (p0 < x0) by (apply (ones_increasing B' (4096 * sb) (4096 * sb + 64 * block)); [exact Hp0|exact Hx0|lia]). lia. }
      replace (p0 + (x0 - p0)) with x0 by lia.
      destruct (N.ltb_spec 0 rr) as [Hrr|Hrr].
      * rewrite split_offset_spec. unfold B' in Hx0len. rewrite t_bits_len in Hx0len.
        assert (Hidx : x0 / 64 < nwords B) by (apply nwords_lt; exact Hx0len).
        destruct (t_word_view t b B _ Hrep Hidx) as (w0 & Hw0 & Hseg0). rewrite Hw0. cbn [bind].
        rewrite low_set_unchecked_ok by lia. cbn [bind].
        pose proof (wseg_mask_low _ _ _ _ _ (x0 mod 64) Hseg0 ltac:(lia)) as Hseg.
        replace (N.max 0 (x0 mod 64)) with (x0 mod 64) in Hseg by lia.
        assert (Ex0 : 64 * (x0 / 64) + x0 mod 64 = x0) by lia.
        destruct (select_scan_spec sp m t b B Hrep (x0 / 64) (x0 mod 64) _ rr Hidx Hseg ltac:(lia)) as (p & E & Hpb & Hpr).
        { rewrite Ex0. fold B'. unfold rr, block, off, sb in *. lia. }
        exists p. split; [exact E|]. apply nth_opt_ones_char. split; [exact Hpb|].
        fold B' in Hpr. rewrite Hpr, Ex0. unfold rr, block, off, sb in *. lia.
      * exists x0. split; [reflexivity|]. replace r with (4096 * sb + 64 * block) by (unfold rr, block, off, sb in *; lia).
        exact Hx0.
Qed.

(* ================================================================ (6) the wrappers *)

(* ---- the builder and the iterator read only the data and the count of a bitvector ---- *)

Definition bv_same (b b' : bitvec) : Prop := bv_data b = bv_data b' /\ bv_ones b = bv_ones b'.

Lemma bind_ext {A C} (e : res A) (f g : A -> res C) : (forall a, f a = g a) -> bind e f = bind e g.
Proof. intros H. destruct e; cbn [bind]; auto. Qed.

Lemma same_len b b' : bv_same b b' -> bv_len b = bv_len b'.
Proof. intros [Hd _]. unfold bv_len. rewrite Hd. reflexivity. Qed.

Lemma same_count t b b' : bv_same b b' -> t_count_ones t b = t_count_ones t b'.
Proof.
  intros H. pose proof (same_len b b' H) as Hl. destruct H as [Hd Ho].
  destruct t; cbn [t_count_ones]; unfold bv_count_ones, bv_count_zeros; rewrite Ho, ?Hl; reflexivity.
Qed.

Lemma same_word t b b' k : bv_same b b' -> t_word_unchecked t b k = t_word_unchecked t b' k.
Proof.
  intros H. pose proof (same_len b b' H) as Hl. destruct H as [Hd Ho].
  destruct t; cbn [t_word_unchecked]; rewrite Hd, ?Hl; reflexivity.
Qed.

Lemma same_fuel b b' : bv_same b b' -> scan_fuel b = scan_fuel b'.
Proof. intros [Hd _]. unfold scan_fuel. rewrite Hd. reflexivity. Qed.

Lemma same_scan_fwd t b b' : bv_same b b' -> forall fuel i w, scan_fwd t b fuel i w = scan_fwd t b' fuel i w.
Proof.
  intros H. induction fuel as [|fuel IH]; intros i w; cbn [scan_fwd]; [reflexivity|].
  destruct (w =? 0); [|reflexivity]. rewrite (same_word t b b' _ H). apply bind_ext. intros a. apply IH.
Qed.

Lemma same_scan_rank t b b' : bv_same b b' -> forall fuel i w r, scan_rank t b fuel i w r = scan_rank t b' fuel i w r.
Proof.
  intros H. induction fuel as [|fuel IH]; intros i w r; cbn [scan_rank]; [reflexivity|].
  destruct (popcount w <=? r); [|reflexivity]. rewrite (same_word t b b' _ H). apply bind_ext. intros a. apply IH.
Qed.

Lemma same_next t b b' it : bv_same b b' -> oi_next_f t b it = oi_next_f t b' it.
Proof.
  intros H. unfold oi_next_f. destruct (_ <=? _); [reflexivity|].
  destruct (split_offset (snd (oi_next it))) as [index offset].
  rewrite (same_word t b b' _ H). apply bind_ext. intros w0. apply bind_ext. intros ls.
  rewrite (same_fuel b b' H), (same_scan_fwd t b b' H). reflexivity.
Qed.

Lemma same_nth sp m t b b' it n : bv_same b b' -> oi_nth sp m t b it n = oi_nth sp m t b' it n.
Proof.
  intros H. unfold oi_nth. apply bind_ext. intros rem. destruct (_ <=? _); [reflexivity|].
  destruct (split_offset (snd (oi_next it))) as [index offset].
  rewrite (same_word t b b' _ H). apply bind_ext. intros w0. apply bind_ext. intros ls.
  rewrite (same_fuel b b' H), (same_scan_rank t b b' H). reflexivity.
Qed.

Lemma same_fill_long t b b' : bv_same b b' -> forall n s1 long it v,
  fill_long t b n s1 long it v = fill_long t b' n s1 long it v.
Proof.
  intros H. induction n as [|n IH]; intros s1 long it v; cbn [fill_long]; [reflexivity|].
  apply bind_ext. intros x. apply bind_ext. intros long'. rewrite (same_next t b b' it H).
  apply bind_ext. intros [it' v']. apply IH.
Qed.

Lemma same_fill_short sp m t b b' : bv_same b b' -> forall n s1 short it v,
  fill_short sp m t b n s1 short it v = fill_short sp m t b' n s1 short it v.
Proof.
  intros H. induction n as [|n IH]; intros s1 short it v; cbn [fill_short]; [reflexivity|].
  apply bind_ext. intros x. apply bind_ext. intros short'. rewrite (same_nth sp m t b b' it _ H).
  apply bind_ext. intros [it' v']. apply IH.
Qed.

Lemma same_ss_loop sp m t b b' : bv_same b b' -> forall fuel l4 st,
  ss_loop sp m t b fuel l4 st = ss_loop sp m t b' fuel l4 st.
Proof.
  intros H. induction fuel as [|fuel IH]; intros l4 st; cbn [ss_loop]; [reflexivity|].
  destruct (sb_sample st) as [start|]; [|reflexivity].
  rewrite (same_nth sp m t b b' _ _ H). apply bind_ext. intros [sit' ns].
  rewrite (same_count t b b' H), (same_len b b' H). apply bind_ext. intros s1.
  destruct (_ <=? _).
  - apply bind_ext. intros s2. rewrite (same_fill_long t b b' H). apply bind_ext. intros [[l' i'] v']. apply IH.
  - apply bind_ext. intros s2. rewrite (same_fill_short sp m t b b' H). apply bind_ext. intros [[l' i'] v']. apply IH.
Qed.

Lemma same_select_new sp m t b b' : bv_same b b' -> select_new sp m t b = select_new sp m t b'.
Proof.
  intros H. unfold select_new, oi_start.
  rewrite (same_len b b' H), (same_count t b b' H), (same_next t b b' _ H).
  apply bind_ext. intros [sit sample]. apply bind_ext. intros [it value].
  rewrite (same_ss_loop sp m t b b' H). reflexivity.
Qed.

(* ---- select_ok: the stored support is what the builder produces ---- *)

Definition select_ok (sp : selpath) (m : mode) (t : transf) (b : bitvec) (B : list bool) : Prop :=
  exists s, t_support t b = Some s /\ select_new sp m t b = Ok s.

Lemma select_ok_valid sp m t b B : bv_repr b B -> select_ok sp m t b B ->
  exists s, t_support t b = Some s /\ ss_valid t B s.
Proof.
  intros Hrep (s & Hs & Hnew). destruct (select_new_spec sp m t b B Hrep) as (s' & E & Hv & _).
  assert (s' = s) by congruence. subst s'. exists s. auto.
Qed.

(* select_ok survives any change of the other fields *)
Lemma select_ok_same sp m t b b' B : bv_same b b' -> t_support t b' = t_support t b ->
  select_ok sp m t b B -> select_ok sp m t b' B.
Proof.
  intros H Hsup (s & Hs & Hnew). exists s. split; [congruence|]. rewrite <- (same_select_new sp m t b b' H). exact Hnew.
Qed.

Lemma bv_repr_same b b' B : bv_same b b' -> bv_repr b B -> bv_repr b' B.
Proof. intros [Hd Ho] (H1 & H2 & H3). unfold bv_repr, bv_len in *. rewrite <- Hd, <- Ho. auto. Qed.

(* enable_select / enable_select_zero: builds the support when absent, touches nothing else *)
Theorem bv_enable_select_t_spec sp m t b B : bv_repr b B ->
  exists b', bv_enable_select_t sp m t b = Ok b' /\ bv_repr b' B /\ bv_same b b' /\
    bv_rank b' = bv_rank b /\
    match t with Identity => bv_select_zero b' = bv_select_zero b | Complement => bv_select b' = bv_select b end /\
    (t_support t b = None -> select_ok sp m t b' B) /\
    (forall s0, t_support t b = Some s0 -> b' = b).
Proof.
  intros Hrep. unfold bv_enable_select_t. destruct (t_support t b) as [s0|] eqn:Es.
  - exists b. split; [reflexivity|]. split; [exact Hrep|]. split; [split; reflexivity|]. split; [reflexivity|].
    split; [destruct t; reflexivity|]. split; [discriminate|reflexivity].
  - destruct (select_new_spec sp m t b B Hrep) as (s & E & _). rewrite E. cbn [bind].
    eexists. split; [reflexivity|].
    assert (Hsame : bv_same b (match t with
                               | Identity => mkbv (bv_ones b) (bv_data b) (bv_rank b) (Some s) (bv_select_zero b)
                               | Complement => mkbv (bv_ones b) (bv_data b) (bv_rank b) (bv_select b) (Some s) end))
      by (destruct t; split; reflexivity).
    split; [exact (bv_repr_same _ _ B Hsame Hrep)|]. split; [exact Hsame|].
    split; [destruct t; reflexivity|]. split; [destruct t; reflexivity|]. split; [|discriminate].
    intros _. exists s. split; [destruct t; reflexivity|]. rewrite <- (same_select_new sp m t _ _ Hsame). exact E.
Qed.

(* select / select_zero: for EVERY rank, the position of that one, None from the count on.
   The support may have been built on either select path and in either mode (sp0, m0). *)
Theorem bv_select_t_spec sp0 m0 sp m t b B r : bv_repr b B ->
  (r < count (t_bits t B) -> select_ok sp0 m0 t b B) ->
  bv_select_t sp m t b r = Ok (nth_opt (ones (t_bits t B)) r).
Proof.
  intros Hrep Hok. unfold bv_select_t. rewrite (t_count_ones_spec t b B Hrep).
  destruct (N.leb_spec (count (t_bits t B)) r) as [Hge|Hlt].
  - rewrite select_none by exact Hge. reflexivity.
  - destruct (select_ok_valid sp0 m0 t b B Hrep (Hok Hlt)) as (s & Hs & Hv). rewrite Hs. cbn [opt_unwrap bind].
    destruct (select_unchecked_spec sp m t s b B r Hrep Hv Hlt) as (p & E & Hp). rewrite E, Hp. reflexivity.
Qed.

(* select_iter / select_zero_iter: an iterator over the ranked positions from rank r on *)
Theorem bv_select_iter_t_spec sp0 m0 sp m t b B r : bv_repr b B ->
  (r < count (t_bits t B) -> select_ok sp0 m0 t b B) ->
  exists it, bv_select_iter_t sp m t b r = Ok it /\ oi_inv t B it /\ oi_mid t B it = skipN (oi_R t B) r.
Proof.
  intros Hrep Hok. unfold bv_select_iter_t. rewrite (t_count_ones_spec t b B Hrep).
  destruct (N.leb_spec (count (t_bits t B)) r) as [Hge|Hlt].
  - destruct (oi_empty_inv t b B Hrep) as [Hi Hm]. exists (oi_empty t b). split; [reflexivity|]. split; [exact Hi|].
    rewrite Hm, skipN_ge by (rewrite lenN_R; exact Hge). reflexivity.
  - destruct (select_ok_valid sp0 m0 t b B Hrep (Hok Hlt)) as (s & Hs & Hv). rewrite Hs. cbn [opt_unwrap bind].
    destruct (select_unchecked_spec sp m t s b B r Hrep Hv Hlt) as (p & E & Hp). rewrite E. cbn [bind].
    rewrite <- (t_count_ones_spec t b B Hrep).
    destruct (oi_at_inv t b B r p Hrep Hp) as [Hi Hm]. eexists. split; [reflexivity|]. split; [exact Hi|exact Hm].
Qed.

(* ================================================================ (7) predecessor / successor *)

Lemma drop_below_from B : forall pos i v,
  drop_below (index_from (ones_from B pos) i) v = skipN (index_from (ones_from B pos) i) (rank1 B (v - pos)).
Proof.
  induction B as [|b t IH]; intros pos i v; cbn [ones_from]; [reflexivity|].
  destruct b.
  - cbn [index_from drop_below rank1 skipN b2n]. destruct (N.ltb_spec pos v) as [H|H].
    + replace (v - pos =? 0) with false by lia. rewrite IH.
      replace (1 + rank1 t (v - pos - 1) =? 0) with false by lia.
      f_equal. replace (v - (pos + 1)) with (v - pos - 1) by lia. lia.
    + replace (v - pos =? 0) with true by lia. reflexivity.
  - rewrite IH. cbn [rank1 b2n]. destruct (N.eqb_spec (v - pos) 0) as [E|E].
    + replace (v - (pos + 1)) with 0 by lia. rewrite rank1_0. reflexivity.
    + f_equal. replace (v - (pos + 1)) with (v - pos - 1) by lia. lia.
Qed.

Lemma succ_suffix_skip B v : succ_suffix B v = skipN (ranked_ones B) (rank1 B v).
Proof. unfold succ_suffix, ranked_ones, ones. rewrite drop_below_from, N.sub_0_r. reflexivity. Qed.

Lemma pred_aux_from B : forall pos i v best,
  pred_suffix_aux (index_from (ones_from B pos) i) v best =
  if rank1 B (v + 1 - pos) =? 0 then best
  else skipN (index_from (ones_from B pos) i) (rank1 B (v + 1 - pos) - 1).
Proof.
  induction B as [|b t IH]; intros pos i v best; cbn [ones_from]; [reflexivity|].
  destruct b.
  - cbn [index_from pred_suffix_aux rank1 b2n]. destruct (N.leb_spec pos v) as [H|H].
    + replace (v + 1 - pos =? 0) with false by lia. rewrite IH.
      replace (v + 1 - (pos + 1)) with (v + 1 - pos - 1) by lia.
      replace (1 + rank1 t (v + 1 - pos - 1) =? 0) with false by lia.
      replace (1 + rank1 t (v + 1 - pos - 1) - 1) with (rank1 t (v + 1 - pos - 1)) by lia.
      cbn [skipN]. destruct (rank1 t (v + 1 - pos - 1) =? 0); reflexivity.
    + replace (v + 1 - pos =? 0) with true by lia. reflexivity.
  - rewrite IH. cbn [rank1 b2n]. destruct (N.eqb_spec (v + 1 - pos) 0) as [E|E].
    + replace (v + 1 - (pos + 1)) with 0 by lia. rewrite rank1_0. reflexivity.
    + replace (v + 1 - (pos + 1)) with (v + 1 - pos - 1) by lia. rewrite N.add_0_l. reflexivity.
Qed.

Lemma pred_suffix_skip B v : pred_suffix B v =
  if rank1 B (v + 1) =? 0 then [] else skipN (ranked_ones B) (rank1 B (v + 1) - 1).
Proof. unfold pred_suffix, ranked_ones, ones. rewrite pred_aux_from, N.sub_0_r. reflexivity. Qed.

Lemma rank1_sat_add1 B v : lenB B < 2 ^ 64 -> v < 2 ^ 64 -> rank1 B (sat_add1 v) = rank1 B (v + 1) /\ sat_add1 v < 2 ^ 64.
Proof.
  intros HL Hv. unfold sat_add1. destruct (N.ltb_spec (v + 1) (2 ^ 64)) as [H|H]; [split; [reflexivity|exact H]|].
  split; [|lia]. rewrite !rank1_all by lia. reflexivity.
Qed.

Lemma ranked_ones_R B : ranked_ones B = oi_R Identity B.
Proof. reflexivity. Qed.

(* successor(v), for every v: an iterator whose remaining items are the ranked ones at positions >= v *)
Theorem bv_successor_spec sp0 m0 sp m b B v : bv_repr b B -> select_ok sp0 m0 Identity b B ->
  (forall i, i < 2 ^ 64 -> bv_rank_q b i = Ok (rank1 B i)) -> v < 2 ^ 64 ->
  exists it, bv_successor sp m b v = Ok it /\ oi_inv Identity B it /\ oi_mid Identity B it = succ_suffix B v.
Proof.
  intros Hrep Hok Hrank Hv. unfold bv_successor. rewrite (Hrank v Hv). cbn [bind].
  destruct (repr_facts b B Hrep) as (_ & _ & _ & _ & _ & Ho). unfold bv_count_ones. rewrite Ho.
  rewrite succ_suffix_skip, ranked_ones_R.
  destruct (N.leb_spec (count B) (rank1 B v)) as [Hge|Hlt].
  - destruct (oi_empty_inv Identity b B Hrep) as [Hi Hm]. exists (oi_empty Identity b). split; [reflexivity|].
    split; [exact Hi|]. rewrite Hm, skipN_ge by (rewrite lenN_R; exact Hge). reflexivity.
  - apply (bv_select_iter_t_spec sp0 m0 sp m Identity b B); [exact Hrep|intros _; exact Hok].
Qed.

(* predecessor(v), for every v including 2^64-1: the remaining items start at the last one <= v *)
Theorem bv_predecessor_spec sp0 m0 sp m b B v : bv_repr b B -> select_ok sp0 m0 Identity b B ->
  (forall i, i < 2 ^ 64 -> bv_rank_q b i = Ok (rank1 B i)) -> v < 2 ^ 64 ->
  exists it, bv_predecessor sp m b v = Ok it /\ oi_inv Identity B it /\ oi_mid Identity B it = pred_suffix B v.
Proof.
  intros Hrep Hok Hrank Hv. unfold bv_predecessor.
  destruct (repr_facts b B Hrep) as (HL & HLlt & _).
  destruct (rank1_sat_add1 B v ltac:(lia) Hv) as [Hs Hslt]. rewrite (Hrank _ Hslt), Hs. cbn [bind].
  rewrite pred_suffix_skip, ranked_ones_R.
  destruct (N.eqb_spec (rank1 B (v + 1)) 0) as [Hz|Hnz].
  - destruct (oi_empty_inv Identity b B Hrep) as [Hi Hm]. exists (oi_empty Identity b). split; [reflexivity|].
    split; [exact Hi|exact Hm].
  - apply (bv_select_iter_t_spec sp0 m0 sp m Identity b B); [exact Hrep|intros _; exact Hok].
Qed.

(* the first item the returned iterators yield *)
Corollary bv_successor_first sp0 m0 sp m b B v : bv_repr b B -> select_ok sp0 m0 Identity b B ->
  (forall i, i < 2 ^ 64 -> bv_rank_q b i = Ok (rank1 B i)) -> v < 2 ^ 64 ->
  exists it it', bv_successor sp m b v = Ok it /\ oi_next_f Identity b it = Ok (it', succ1 B v).
Proof.
  intros Hrep Hok Hrank Hv. destruct (bv_successor_spec sp0 m0 sp m b B v Hrep Hok Hrank Hv) as (it & E & Hi & Hm).
  destruct (oi_next_spec Identity b B it Hrep Hi) as (it' & E' & _). exists it, it'. split; [exact E|].
  rewrite E', Hm. reflexivity.
Qed.

Corollary bv_predecessor_first sp0 m0 sp m b B v : bv_repr b B -> select_ok sp0 m0 Identity b B ->
  (forall i, i < 2 ^ 64 -> bv_rank_q b i = Ok (rank1 B i)) -> v < 2 ^ 64 ->
  exists it it', bv_predecessor sp m b v = Ok it /\ oi_next_f Identity b it = Ok (it', pred1 B v).
Proof.
  intros Hrep Hok Hrank Hv. destruct (bv_predecessor_spec sp0 m0 sp m b B v Hrep Hok Hrank Hv) as (it & E & Hi & Hm).
  destruct (oi_next_spec Identity b B it Hrep Hi) as (it' & E' & _). exists it, it'. split; [exact E|].
  rewrite E', Hm. reflexivity.
Qed.

(* ---- both select supports in sequence (as enable_select + enable_select_zero do) ---- *)

Lemma bv_same_trans a b c : bv_same a b -> bv_same b c -> bv_same a c.
Proof. intros [H1 H2] [H3 H4]. split; congruence. Qed.

Theorem bv_enable_both_select sp m b1 B : bv_repr b1 B -> bv_select b1 = None -> bv_select_zero b1 = None ->
  exists b2 b3, bv_enable_select_t sp m Identity b1 = Ok b2 /\ bv_enable_select_t sp m Complement b2 = Ok b3 /\
    bv_repr b3 B /\ bv_same b1 b3 /\ bv_rank b3 = bv_rank b1 /\
    select_ok sp m Identity b3 B /\ select_ok sp m Complement b3 B.
Proof.
  intros Hrep Hn1 Hn0.
  destruct (bv_enable_select_t_spec sp m Identity b1 B Hrep) as (b2 & E2 & Hrep2 & Hs12 & Hr2 & Hz2 & Hok2 & _).
  destruct (bv_enable_select_t_spec sp m Complement b2 B Hrep2) as (b3 & E3 & Hrep3 & Hs23 & Hr3 & Hz3 & Hok3 & _).
  exists b2, b3. split; [exact E2|]. split; [exact E3|]. split; [exact Hrep3|].
  split; [exact (bv_same_trans _ _ _ Hs12 Hs23)|]. split; [congruence|]. split.
  - apply (select_ok_same sp m Identity b2 b3 B Hs23); [exact Hz3|]. apply Hok2. exact Hn1.
  - apply Hok3. cbn [t_support]. congruence.
Qed.
