(* List-level lemmas for the wavelet matrix proofs: rank/select algebra on [list bool], counting with
   boolean predicates, the stable partition of one wavelet level and its position maps. No model here. *)
From Coq Require Import NArith List Lia ZArith Bool Permutation Sorted.
Require Import SDS.Spec.BitSeq SDS.Spec.Seq.
Import ListNotations.
Open Scope N_scope.
Require Import ZifyBool ZifyN ZifyNat.
Ltac Zify.zify_post_hook ::= Z.div_mod_to_equations.
Arguments N.add : simpl never. Arguments N.sub : simpl never. Arguments N.mul : simpl never.
Arguments N.eqb : simpl never. Arguments N.ltb : simpl never. Arguments N.leb : simpl never.
Arguments N.pow : simpl never. Arguments N.shiftl : simpl never. Arguments N.shiftr : simpl never.
Arguments N.land : simpl never. Arguments N.lor : simpl never. Arguments N.div : simpl never.
Arguments N.modulo : simpl never. Arguments N.ones : simpl never. Arguments N.testbit : simpl never.
Arguments N.div2 : simpl never. Arguments N.odd : simpl never.

(* ---------------------------------------------------------------- N-indexed access *)

Lemma nth_opt_nth_error {A} (l : list A) i : nth_opt l i = nth_error l (N.to_nat i).
Proof.
  revert i. induction l as [|x t IH]; intros i; cbn [nth_opt].
  - destruct (N.to_nat i); reflexivity.
  - destruct (N.eqb_spec i 0) as [->|Hn]; [reflexivity|].
    rewrite IH. replace (N.to_nat i) with (S (N.to_nat (i - 1))) by lia. reflexivity.
Qed.

Lemma getb_nth_opt B i : getb B i = nth_opt B i.
Proof.
  revert i. induction B as [|b t IH]; intros i; cbn [getb nth_opt]; [reflexivity|].
  destruct (i =? 0); [reflexivity|apply IH].
Qed.

Lemma nth_opt_Some_lt {A} (l : list A) i x : nth_opt l i = Some x -> i < N.of_nat (length l).
Proof.
  rewrite nth_opt_nth_error. intros H. assert (H0 : nth_error l (N.to_nat i) <> None) by congruence.
  apply nth_error_Some in H0. lia.
Qed.

Lemma nth_opt_None {A} (l : list A) i : nth_opt l i = None <-> N.of_nat (length l) <= i.
Proof. rewrite nth_opt_nth_error, nth_error_None. lia. Qed.

Lemma nth_opt_lt_Some {A} (l : list A) i : i < N.of_nat (length l) -> exists x, nth_opt l i = Some x.
Proof. intros H. destruct (nth_opt l i) eqn:E; [eauto|]. apply nth_opt_None in E. lia. Qed.

Lemma nth_opt_map {A B} (f : A -> B) l i : nth_opt (map f l) i = option_map f (nth_opt l i).
Proof.
  revert i. induction l as [|x t IH]; intros i; cbn [map nth_opt]; [reflexivity|].
  destruct (i =? 0); [reflexivity|apply IH].
Qed.

Lemma nth_opt_app1 {A} (l1 l2 : list A) i : i < N.of_nat (length l1) -> nth_opt (l1 ++ l2) i = nth_opt l1 i.
Proof. intros H. rewrite !nth_opt_nth_error. apply nth_error_app1. lia. Qed.

Lemma nth_opt_app2 {A} (l1 l2 : list A) i :
  N.of_nat (length l1) <= i -> nth_opt (l1 ++ l2) i = nth_opt l2 (i - N.of_nat (length l1)).
Proof.
  intros H. rewrite !nth_opt_nth_error. rewrite nth_error_app2 by lia. f_equal. lia.
Qed.

(* ---------------------------------------------------------------- counting *)

(* number of elements satisfying a boolean predicate *)
Definition cnt {A} (P : A -> bool) (l : list A) : N := N.of_nat (length (filter P l)).

Lemma cnt_nil {A} (P : A -> bool) : cnt P [] = 0. Proof. reflexivity. Qed.
Lemma cnt_cons {A} (P : A -> bool) x l : cnt P (x :: l) = (if P x then 1 else 0) + cnt P l.
Proof. unfold cnt. cbn [filter]. destruct (P x); cbn [length]; lia. Qed.
Lemma cnt_app {A} (P : A -> bool) l1 l2 : cnt P (l1 ++ l2) = cnt P l1 + cnt P l2.
Proof. unfold cnt. rewrite filter_app, app_length. lia. Qed.
Lemma cnt_le {A} (P : A -> bool) l : cnt P l <= N.of_nat (length l).
Proof. induction l as [|x t IH]; [cbn; lia|]. rewrite cnt_cons. cbn [length]. destruct (P x); lia. Qed.
Lemma cnt_ext_in {A} (P Q : A -> bool) l : (forall x, In x l -> P x = Q x) -> cnt P l = cnt Q l.
Proof.
  induction l as [|x t IH]; intros H; [reflexivity|]. rewrite !cnt_cons, (H x (or_introl eq_refl)).
  rewrite IH; [reflexivity|]. intros y Hy. apply H. right. exact Hy.
Qed.
Lemma cnt_ext {A} (P Q : A -> bool) l : (forall x, P x = Q x) -> cnt P l = cnt Q l.
Proof. intros H. apply cnt_ext_in. intros x _. apply H. Qed.
Lemma cnt_filter {A} (P g : A -> bool) l : cnt P (filter g l) = cnt (fun x => g x && P x) l.
Proof.
  induction l as [|x t IH]; [reflexivity|]. cbn [filter]. rewrite cnt_cons.
  destruct (g x); cbn [andb]; [rewrite cnt_cons, IH; reflexivity|rewrite IH; lia].
Qed.
Lemma cnt_split {A} (P g : A -> bool) l :
  cnt P l = cnt (fun x => g x && P x) l + cnt (fun x => negb (g x) && P x) l.
Proof.
  induction l as [|x t IH]; [reflexivity|]. rewrite !cnt_cons, IH.
  destruct (g x), (P x); cbn [negb andb]; lia.
Qed.
Lemma cnt_map {A B} (f : A -> B) (P : B -> bool) l : cnt P (map f l) = cnt (fun x => P (f x)) l.
Proof. induction l as [|x t IH]; [reflexivity|]. cbn [map]. rewrite !cnt_cons, IH. reflexivity. Qed.
Lemma cnt_perm {A} (P : A -> bool) l1 l2 : Permutation l1 l2 -> cnt P l1 = cnt P l2.
Proof.
  intros H. induction H as [|x l l' H IH|x y l|l l' l'' H1 IH1 H2 IH2].
  - reflexivity.
  - rewrite !cnt_cons, IH. reflexivity.
  - rewrite !cnt_cons. lia.
  - congruence.
Qed.
Lemma cnt_neg {A} (P : A -> bool) l : cnt (fun x => negb (P x)) l + cnt P l = N.of_nat (length l).
Proof.
  induction l as [|x t IH]; [reflexivity|]. rewrite !cnt_cons. cbn [length]. destruct (P x); cbn [negb]; lia.
Qed.
Lemma cnt_false {A} (P : A -> bool) l : (forall x, In x l -> P x = false) -> cnt P l = 0.
Proof.
  induction l as [|x t IH]; intros H; [reflexivity|]. rewrite cnt_cons, (H x (or_introl eq_refl)), IH; [lia|].
  intros y Hy. apply H. right. exact Hy.
Qed.

(* ---------------------------------------------------------------- rank / select algebra *)

Lemma count_cnt B : count B = cnt (fun b => b) B.
Proof. induction B as [|b t IH]; [reflexivity|]. cbn [count]. rewrite cnt_cons, IH. destruct b; reflexivity. Qed.

Lemma rank1_firstn B i : rank1 B i = cnt (fun b => b) (firstn (N.to_nat i) B).
Proof.
  revert i. induction B as [|b t IH]; intros i; cbn [rank1].
  - rewrite firstn_nil. reflexivity.
  - destruct (N.eqb_spec i 0) as [->|Hn]; [reflexivity|].
    replace (N.to_nat i) with (S (N.to_nat (i - 1))) by lia. cbn [firstn]. rewrite cnt_cons, IH.
    destruct b; reflexivity.
Qed.

Lemma rank1_le_index B i : rank1 B i <= i.
Proof.
  rewrite rank1_firstn. etransitivity; [apply cnt_le|]. rewrite firstn_length. lia.
Qed.

Lemma rank1_map {A} (f : A -> bool) L i : rank1 (map f L) i = cnt f (firstn (N.to_nat i) L).
Proof. rewrite rank1_firstn, firstn_map, cnt_map. reflexivity. Qed.

Lemma count_map {A} (f : A -> bool) L : count (map f L) = cnt f L.
Proof. rewrite count_cnt, cnt_map. reflexivity. Qed.

Lemma lenB_map {A} (f : A -> bool) L : lenB (map f L) = N.of_nat (length L).
Proof. unfold lenB. rewrite map_length. reflexivity. Qed.

(* ones_from lists exactly the set positions, in order *)
Lemma ones_from_spec B pos r q :
  nth_opt (ones_from B pos) r = Some q ->
  pos <= q /\ getb B (q - pos) = Some true /\ rank1 B (q - pos) = r.
Proof.
  revert pos r. induction B as [|b t IH]; intros pos r; cbn [ones_from]; [cbn [nth_opt]; discriminate|].
  assert (Hstep : forall r', nth_opt (ones_from t (pos + 1)) r' = Some q ->
            pos <= q /\ getb (b :: t) (q - pos) = Some true /\ rank1 (b :: t) (q - pos) = b2n b + r').
  { intros r' H. apply IH in H. destruct H as (H1 & H2 & H3). cbn [getb rank1].
    replace (q - pos =? 0) with false by lia. replace (q - pos - 1) with (q - (pos + 1)) by lia.
    repeat split; [lia|exact H2|lia]. }
  destruct b.
  - cbn [nth_opt]. destruct (N.eqb_spec r 0) as [->|Hr].
    + intros H. injection H as <-. replace (pos - pos) with 0 by lia. cbn [getb rank1]. repeat split; lia.
    + intros H. apply Hstep in H. cbn [b2n] in H. destruct H as (H1 & H2 & H3). repeat split; [lia|exact H2|lia].
  - intros H. apply Hstep in H. cbn [b2n] in H. destruct H as (H1 & H2 & H3). repeat split; [lia|exact H2|lia].
Qed.

Lemma ones_from_complete B pos p :
  getb B p = Some true -> nth_opt (ones_from B pos) (rank1 B p) = Some (pos + p).
Proof.
  revert pos p. induction B as [|b t IH]; intros pos p; cbn [getb]; [discriminate|].
  destruct (N.eqb_spec p 0) as [->|Hp].
  - intros H. injection H as ->. cbn [ones_from rank1]. change (0 =? 0) with true. cbn [nth_opt]. change (0 =? 0) with true.
    cbn iota. f_equal. lia.
  - intros H. cbn [ones_from rank1]. replace (p =? 0) with false by lia.
    specialize (IH (pos + 1) (p - 1) H). destruct b; cbn [b2n].
    + cbn [nth_opt]. replace (1 + rank1 t (p - 1) =? 0) with false by lia.
      replace (1 + rank1 t (p - 1) - 1) with (rank1 t (p - 1)) by lia. rewrite IH. f_equal. lia.
    + replace (0 + rank1 t (p - 1)) with (rank1 t (p - 1)) by lia. rewrite IH. f_equal. lia.
Qed.

Lemma select1_sound B r p : select1 B r = Some p -> getb B p = Some true /\ rank1 B p = r.
Proof.
  unfold select1, ones. intros H. apply ones_from_spec in H. replace (p - 0) with p in H by lia. tauto.
Qed.
Lemma select1_complete B p : getb B p = Some true -> select1 B (rank1 B p) = Some p.
Proof. intros H. unfold select1, ones. rewrite (ones_from_complete B 0 p H). f_equal. Qed.

Lemma getb_map_negb B p : getb (map negb B) p = option_map negb (getb B p).
Proof. rewrite !getb_nth_opt. apply nth_opt_map. Qed.

Lemma getb_Some_lt B p x : getb B p = Some x -> p < lenB B.
Proof. rewrite getb_nth_opt. apply nth_opt_Some_lt. Qed.

Lemma rank1_negb B p : p <= lenB B -> rank1 (map negb B) p = p - rank1 B p.
Proof.
  intros Hp. rewrite rank1_map, rank1_firstn.
  pose proof (cnt_neg (fun b : bool => b) (firstn (N.to_nat p) B)) as H.
  cbv beta in H. change (fun x : bool => negb x) with negb in H.
  rewrite firstn_length in H. unfold lenB in Hp. lia.
Qed.

Lemma select0_sound B r p : select0 B r = Some p -> getb B p = Some false /\ p - rank1 B p = r.
Proof.
  unfold select0, zeros. intros H. apply ones_from_spec in H. replace (p - 0) with p in H by lia.
  destruct H as (_ & H1 & H2). rewrite getb_map_negb in H1.
  destruct (getb B p) as [x|] eqn:E; cbn [option_map] in H1; [|discriminate].
  assert (x = false) by (destruct x; [discriminate|reflexivity]). subst x.
  split; [reflexivity|]. rewrite <- H2. symmetry. apply rank1_negb.
  apply getb_Some_lt in E. lia.
Qed.
Lemma select0_complete B p : getb B p = Some false -> select0 B (p - rank1 B p) = Some p.
Proof.
  intros H. unfold select0, zeros. rewrite <- rank1_negb by (apply getb_Some_lt in H; lia).
  rewrite (ones_from_complete (map negb B) 0 p); [f_equal|].
  rewrite getb_map_negb, H. reflexivity.
Qed.

(* ---------------------------------------------------------------- one level: stable partition *)

Section Level.
Context {A : Type}.
Variable f : A -> bool.

(* zeros first, then ones, each part in the original order *)
Definition part (L : list A) : list A := filter (fun x => negb (f x)) L ++ filter f L.

(* where position idx of the level goes when following a c-bit; its inverse *)
Definition step_down (B : list bool) (c : bool) (idx : N) : N :=
  if c then (lenB B - count B) + rank1 B idx else idx - rank1 B idx.
Definition step_up (B : list bool) (c : bool) (idx : N) : option N :=
  if c then (if idx <? lenB B - count B then None else select1 B (idx - (lenB B - count B)))
  else select0 B idx.

Lemma part_length L : length (part L) = length L.
Proof.
  unfold part. rewrite app_length. pose proof (cnt_neg f L) as H. unfold cnt in H. lia.
Qed.

Lemma part_perm L : Permutation (part L) L.
Proof.
  unfold part. induction L as [|x t IH]; [constructor|]. cbn [filter].
  destruct (f x); cbn [negb].
  - apply Permutation_sym. apply Permutation_cons_app. apply Permutation_sym. exact IH.
  - cbn [app]. constructor. exact IH.
Qed.

Lemma zeros_count L : lenB (map f L) - count (map f L) = cnt (fun x => negb (f x)) L.
Proof. rewrite lenB_map, count_map. pose proof (cnt_neg f L). lia. Qed.

Lemma step_down_le L c idx : idx <= N.of_nat (length L) -> step_down (map f L) c idx <= N.of_nat (length L).
Proof.
  intros Hi. unfold step_down. rewrite zeros_count, rank1_map.
  pose proof (cnt_neg f L) as H1.
  assert (H2 : cnt f (firstn (N.to_nat idx) L) <= cnt f L).
  { rewrite <- (firstn_skipn (N.to_nat idx) L) at 2. rewrite cnt_app. lia. }
  destruct c; lia.
Qed.

(* the first step_down positions of the partition, in terms of the first idx positions of the level *)
Lemma part_firstn L c idx :
  idx <= N.of_nat (length L) ->
  firstn (N.to_nat (step_down (map f L) c idx)) (part L) =
  if c then filter (fun x => negb (f x)) L ++ filter f (firstn (N.to_nat idx) L)
  else filter (fun x => negb (f x)) (firstn (N.to_nat idx) L).
Proof.
  intros Hi. unfold step_down, part. rewrite zeros_count, rank1_map.
  set (k := N.to_nat idx).
  assert (HL : forall g, filter g L = filter g (firstn k L) ++ filter g (skipn k L)).
  { intros g. rewrite <- filter_app, firstn_skipn. reflexivity. }
  assert (Hfa : forall (X Y : list A), firstn (length X) (X ++ Y) = X).
  { intros X Y. rewrite firstn_app, Nat.sub_diag, firstn_O, app_nil_r. apply firstn_all. }
  destruct c.
  - replace (N.to_nat (cnt (fun x => negb (f x)) L + cnt f (firstn k L)))
      with (length (filter (fun x => negb (f x)) L) + length (filter f (firstn k L)))%nat by (unfold cnt; lia).
    rewrite firstn_app_2. f_equal. rewrite (HL f). apply Hfa.
  - pose proof (cnt_neg f (firstn k L)) as H1. rewrite firstn_length in H1.
    replace (N.to_nat (idx - cnt f (firstn k L))) with (length (filter (fun x => negb (f x)) (firstn k L)))
      by (unfold cnt in *; lia).
    rewrite (HL (fun x => negb (f x))), <- app_assoc. apply Hfa.
Qed.

(* the element at idx is found at step_down (its own bit) idx in the partition *)
Lemma part_nth L idx a :
  nth_opt L idx = Some a -> nth_opt (part L) (step_down (map f L) (f a) idx) = Some a.
Proof.
  intros Ha. pose proof (nth_opt_Some_lt _ _ _ Ha) as Hlt.
  rewrite nth_opt_nth_error in Ha. apply nth_error_split in Ha. destruct Ha as (L1 & L2 & HL & Hlen).
  assert (Hf : firstn (N.to_nat idx) L = L1).
  { rewrite HL, <- Hlen. rewrite firstn_app, Nat.sub_diag, firstn_O, app_nil_r. apply firstn_all. }
  unfold step_down, part. rewrite zeros_count, rank1_map, Hf. subst L.
  rewrite !filter_app. unfold cnt. rewrite !filter_app, !app_length. cbn [filter].
  pose proof (cnt_neg f L1) as H1. unfold cnt in H1. destruct (f a) eqn:Efa; cbn [negb length].
  - rewrite nth_opt_app2 by (rewrite app_length; lia).
    rewrite nth_opt_app2 by (rewrite app_length; lia).
    match goal with |- nth_opt _ ?k = _ => replace k with 0 by (rewrite app_length; lia) end. reflexivity.
  - rewrite <- app_assoc. rewrite nth_opt_app2 by lia.
    match goal with |- nth_opt _ ?k = _ => replace k with 0 by lia end. reflexivity.
Qed.

(* going up is the inverse of going down, exactly on the elements whose bit is c *)
Lemma step_up_sound L c idx i :
  step_up (map f L) c idx = Some i ->
  exists a, nth_opt L i = Some a /\ f a = c /\ step_down (map f L) c i = idx.
Proof.
  unfold step_up, step_down. destruct c.
  - destruct (N.ltb_spec idx (lenB (map f L) - count (map f L))) as [Hlt|Hge]; [discriminate|].
    intros H. apply select1_sound in H. destruct H as (H1 & H2).
    rewrite getb_nth_opt, nth_opt_map in H1. destruct (nth_opt L i) as [a|] eqn:Ea; [|discriminate].
    cbn [option_map] in H1. exists a. split; [reflexivity|]. split; [congruence|]. lia.
  - intros H. apply select0_sound in H. destruct H as (H1 & H2).
    rewrite getb_nth_opt, nth_opt_map in H1. destruct (nth_opt L i) as [a|] eqn:Ea; [|discriminate].
    cbn [option_map] in H1. exists a. split; [reflexivity|]. split; [congruence|]. exact H2.
Qed.

Lemma step_up_complete L i a :
  nth_opt L i = Some a -> step_up (map f L) (f a) (step_down (map f L) (f a) i) = Some i.
Proof.
  intros Ha. assert (Hg : getb (map f L) i = Some (f a)).
  { rewrite getb_nth_opt, nth_opt_map, Ha. reflexivity. }
  unfold step_up, step_down. destruct (f a).
  - replace (_ <? _) with false by lia.
    replace (lenB (map f L) - count (map f L) + rank1 (map f L) i - (lenB (map f L) - count (map f L)))
      with (rank1 (map f L) i) by lia.
    apply select1_complete. exact Hg.
  - apply select0_complete. exact Hg.
Qed.

End Level.
