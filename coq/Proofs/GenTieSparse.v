(* Tie lemma, src/sparse_vector.rs: SparseBuilder::get_buckets as translated from the CURRENT source (gen/Funs2.v)
   is the function the model of Model/Sparse.v uses. The model writes [buckets + 1] in exact N (its comment:
   buckets <= universe / 2 when low_width >= 1); the bound that justifies it is universe < 2^64, stated here. *)
From Coq Require Import NArith List Lia ZArith Bool.
Require Import ZifyBool ZifyN ZifyNat.
Ltac Zify.zify_post_hook ::= Z.div_mod_to_equations.
Arguments N.add : simpl never.
Arguments N.sub : simpl never.
Arguments N.mul : simpl never.
Arguments N.div : simpl never.
Arguments N.modulo : simpl never.
Arguments N.pow : simpl never.
Arguments N.eqb : simpl never.
Arguments N.ltb : simpl never.
Arguments N.leb : simpl never.
Arguments N.shiftl : simpl never.
Arguments N.shiftr : simpl never.
Arguments N.land : simpl never.
Arguments N.lor : simpl never.
Open Scope N_scope.

Require Import SDS.Model.Mach SDS.Model.Bits SDS.Model.Sparse.
Require Import SDS.gen.Consts SDS.gen.Tables SDS.gen.Funs SDS.gen.Funs2 SDS.Proofs.GenTieBits.

Lemma low_set_0 : low_set 0 = Ok 0.
Proof. reflexivity. Qed.

Theorem tie_get_buckets : forall m universe low_width, universe < 2 ^ 64 ->
  f2_get_buckets m universe low_width = get_buckets universe low_width.
Proof.
  intros m u w Hu. unfold f2_get_buckets, get_buckets. rewrite tie_low_set. change bits_WORD_BITS with 64.
  destruct (w <? 64) eqn:Ew.
  - unfold ushr. rewrite Ew. cbn [bind].
    destruct (N.eq_dec w 0) as [-> | Hw0].
    + rewrite low_set_0. cbn [bind]. rewrite N.land_0_r. reflexivity.
    + destruct (low_set w) as [ls| |]; cbn [bind]; try reflexivity.
      destruct (N.land u ls =? 0); cbn [negb]; try reflexivity.
      assert (N.shiftr u w <= u / 2).
      { rewrite N.shiftr_div_pow2. replace w with (1 + (w - 1)) at 1 by lia. rewrite N.pow_add_r, N.pow_1_r.
        assert (Hk : 2 ^ (w - 1) <> 0) by (apply N.pow_nonzero; lia).
        rewrite <- N.div_div by (try exact Hk; lia). apply N.div_le_upper_bound; [ exact Hk | ].
        rewrite <- (N.mul_1_l (u / 2)) at 1. apply N.mul_le_mono_r. lia. }
      unfold uadd. replace (N.shiftr u w + 1 <? 2 ^ 64) with true by lia. reflexivity.
  - cbn [bind]. destruct (low_set w) as [ls| |]; cbn [bind]; try reflexivity.
    destruct (N.land u ls =? 0); cbn [negb]; reflexivity.
Qed.
