(* Proofs about Model/Ser.v, generic part: what it means for a codec to be correct (codec_ok: round trip,
   exact size, every strict prefix is an error) and that every combinator preserves it. Per-type instances are
   in Proofs/SerTypes.v, the bitvector supports in Proofs/SerSupports.v. *)
From Coq Require Import NArith List Lia ZArith Bool.
Require Import SDS.Model.Mach SDS.Model.Bits SDS.Model.Raw SDS.Model.IntVec SDS.Model.BitVec SDS.Model.Ser.
Require Import SDS.gen.Consts SDS.gen.Funs SDS.Spec.Stream SDS.Proofs.BitsProof.
Import ListNotations.
Open Scope N_scope.
Require Import ZifyBool ZifyN ZifyNat.
Ltac Zify.zify_post_hook ::= Z.div_mod_to_equations.
Arguments N.add : simpl never. Arguments N.sub : simpl never. Arguments N.mul : simpl never.
Arguments N.div : simpl never. Arguments N.modulo : simpl never. Arguments N.pow : simpl never.
Arguments N.leb : simpl never. Arguments N.ltb : simpl never. Arguments N.eqb : simpl never.

(* a parser fails with an I/O error on every strict prefix of [bytes] *)
Definition prefix_safe {B} (P : list byte -> io B) (bytes : list byte) : Prop :=
  forall k, (k < length bytes)%nat -> exists e, P (firstn k bytes) = IoErr e.

Record codec_ok {A} (c : codec A) : Prop := mkok {
  (* ROUND TRIP: load returns the value and leaves exactly what followed it *)
  ok_rt : forall x rest, c_wf c x -> c_dec c (c_enc c x ++ rest) = IoOk (x, rest);
  (* SIZE: size_in_bytes = 8 * size_in_elements bytes are written *)
  ok_size : forall x, c_wf c x -> lenN (c_enc c x) = 8 * c_size c x;
  (* PREFIX SAFETY: a truncated serialization is an error -- not a value, not a panic *)
  ok_prefix : forall x, c_wf c x -> prefix_safe (c_dec c) (c_enc c x)
}.

Lemma prefix_safe_nil {B} (P : list byte -> io B) : prefix_safe P [].
Proof. intros k H. cbn [length] in H. lia. Qed.

Lemma firstn_app_lt {A} (a b : list A) k : (k < length a)%nat -> firstn k (a ++ b) = firstn k a.
Proof.
  intros H. rewrite firstn_app. replace (k - length a)%nat with 0%nat by lia.
  cbn [firstn]. now rewrite app_nil_r.
Qed.
Lemma firstn_app_ge {A} (a b : list A) k : (length a <= k)%nat -> firstn k (a ++ b) = a ++ firstn (k - length a) b.
Proof. intros H. rewrite firstn_app. now rewrite firstn_all2 by lia. Qed.

(* sequencing: a field, then a continuation that is prefix safe on what follows the field *)
Lemma prefix_bind {A B} (c : codec A) (x : A) (tail : list byte) (K : A -> list byte -> io B) :
  codec_ok c -> c_wf c x ->
  prefix_safe (K x) tail ->
  prefix_safe (fun s => let+ (a, r) := c_dec c s in K a r) (c_enc c x ++ tail).
Proof.
  intros Hc Hx HK k Hk.
  destruct (Nat.lt_ge_cases k (length (c_enc c x))) as [Hlt|Hge].
  - rewrite firstn_app_lt by assumption.
    destruct (ok_prefix c Hc x Hx k Hlt) as [e He]. rewrite He. cbn [iobind]. eauto.
  - rewrite firstn_app_ge by assumption. rewrite (ok_rt c Hc) by assumption. cbn [iobind].
    apply HK. rewrite app_length in Hk. lia.
Qed.

(* the same when nothing follows the field *)
Lemma prefix_bind_last {A B} (c : codec A) (x : A) (K : A -> list byte -> io B) :
  codec_ok c -> c_wf c x ->
  prefix_safe (fun s => let+ (a, r) := c_dec c s in K a r) (c_enc c x).
Proof.
  intros Hc Hx. rewrite <- (app_nil_r (c_enc c x)). apply prefix_bind; auto. apply prefix_safe_nil.
Qed.

Lemma prefix_safe_ext {B} (P Q : list byte -> io B) bytes :
  (forall s, P s = Q s) -> prefix_safe P bytes -> prefix_safe Q bytes.
Proof. intros E H k Hk. rewrite <- E. now apply H. Qed.

(* ------------------------------------------------------------------ elements *)

Lemma dec_elem_app x rest : x < 2 ^ 64 -> dec_elem (le64 x ++ rest) = IoOk (x, rest).
Proof.
  intros H. unfold dec_elem. change bits_WORD_BYTES with 8. rewrite <- (le64_lenN x).
  rewrite read_exact_app. cbn [iobind]. now rewrite le_val_le64.
Qed.

Lemma dec_elem_short s : lenN s < 8 -> dec_elem s = IoErr UnexpectedEof.
Proof. intros H. unfold dec_elem. change bits_WORD_BYTES with 8. now rewrite read_exact_short. Qed.

Lemma u64_codec_ok : codec_ok u64_codec.
Proof.
  constructor.
  - intros x rest H. apply dec_elem_app. exact H.
  - intros x _. cbn [c_enc c_size u64_codec]. rewrite le64_lenN. lia.
  - intros x _ k Hk. cbn [c_enc c_dec u64_codec] in *. rewrite le64_length in Hk.
    exists UnexpectedEof. apply dec_elem_short. rewrite lenN_firstn. unfold lenN. rewrite le64_length. lia.
Qed.

Lemma usize_codec_ok : codec_ok usize_codec.
Proof. exact u64_codec_ok. Qed.

Lemma firstn8_le64 a b : firstn 8 (le64 a ++ b) = le64 a.
Proof. rewrite firstn_app_ge by (rewrite le64_length; lia). rewrite le64_length. cbn [Nat.sub firstn]. now rewrite app_nil_r. Qed.
Lemma skipn8_le64 a b : skipn 8 (le64 a ++ b) = b.
Proof.
  rewrite skipn_app. rewrite (skipn_all2 (le64 a)) by (rewrite le64_length; lia).
  rewrite le64_length. reflexivity.
Qed.

Lemma pair_codec_ok : codec_ok pair_codec.
Proof.
  constructor.
  - intros [a b] rest [Ha Hb]. cbn [fst snd] in *. cbn [c_enc c_dec pair_codec fst snd].
    change (2 * bits_WORD_BYTES) with 16.
    replace 16 with (lenN (le64 a ++ le64 b)) by (rewrite lenN_app, !le64_lenN; reflexivity).
    rewrite read_exact_app. cbn [iobind]. rewrite firstn8_le64, skipn8_le64, !le_val_le64 by assumption. reflexivity.
  - intros [a b] _. cbn [c_enc c_size pair_codec fst snd]. rewrite lenN_app, !le64_lenN. lia.
  - intros [a b] _ k Hk. cbn [c_enc c_dec pair_codec fst snd] in *.
    rewrite app_length, !le64_length in Hk. exists UnexpectedEof.
    change (2 * bits_WORD_BYTES) with 16. rewrite read_exact_short; [reflexivity|].
    rewrite lenN_firstn, lenN_app, !le64_lenN. lia.
Qed.

(* ------------------------------------------------------------------ combinators *)

Lemma with_wf_ok {A} (c : codec A) (P : A -> Prop) :
  codec_ok c -> (forall x, P x -> c_wf c x) -> codec_ok (with_wf c P).
Proof.
  intros Hc HP. constructor; cbn [with_wf c_enc c_dec c_size c_wf]; intros.
  - apply (ok_rt c Hc). auto.
  - apply (ok_size c Hc). auto.
  - apply (ok_prefix c Hc). auto.
Qed.

Lemma dseq_codec_ok {A B} (ca : codec A) (cb : A -> codec B) :
  codec_ok ca -> (forall a, codec_ok (cb a)) -> codec_ok (dseq_codec ca cb).
Proof.
  intros Ha Hb. constructor.
  - intros [a b] rest [Wa Wb]. cbn [fst snd] in *. cbn [c_enc c_dec dseq_codec fst snd].
    rewrite <- app_assoc. rewrite (ok_rt ca Ha) by assumption. cbn [iobind].
    rewrite (ok_rt (cb a) (Hb a)) by assumption. reflexivity.
  - intros [a b] [Wa Wb]. cbn [fst snd] in *. cbn [c_enc c_size dseq_codec fst snd].
    rewrite lenN_app, (ok_size ca Ha), (ok_size (cb a) (Hb a)) by assumption. lia.
  - intros [a b] [Wa Wb]. cbn [fst snd] in *. cbn [c_enc c_dec dseq_codec fst snd].
    apply (prefix_bind ca a (c_enc (cb a) b) (fun a r => let+ (b, r') := c_dec (cb a) r in IoOk ((a, b), r'))); auto.
    apply (prefix_bind_last (cb a) b (fun b r' => IoOk ((a, b), r'))); auto.
Qed.

Lemma seq_codec_ok {A B} (ca : codec A) (cb : codec B) :
  codec_ok ca -> codec_ok cb -> codec_ok (seq_codec ca cb).
Proof. intros Ha Hb. exact (dseq_codec_ok ca (fun _ => cb) Ha (fun _ => Hb)). Qed.

Lemma conv_codec_ok {A B} (c : codec A) (to : B -> A) (from : A -> io B) :
  codec_ok c -> codec_ok (conv_codec c to from).
Proof.
  intros Hc. constructor.
  - intros b rest [W F]. cbn [c_enc c_dec conv_codec]. rewrite (ok_rt c Hc) by assumption. cbn [iobind].
    rewrite F. reflexivity.
  - intros b [W F]. cbn [c_enc c_size conv_codec]. now apply (ok_size c Hc).
  - intros b [W F]. cbn [c_enc c_dec conv_codec].
    apply (prefix_bind_last c (to b) (fun a r => let+ b := from a in IoOk (b, r))); auto.
Qed.

(* n items of a fixed-size codec, back to back *)
Lemma dec_items_app {A} (c : codec A) (l : list A) rest :
  codec_ok c -> Forall (c_wf c) l ->
  dec_items c (length l) (flat_map (c_enc c) l ++ rest) = IoOk (l, rest).
Proof.
  intros Hc Hl. induction Hl as [|x t Hx Ht IH]; cbn [length flat_map dec_items]; [reflexivity|].
  rewrite <- app_assoc. rewrite (ok_rt c Hc) by assumption. cbn [iobind]. rewrite IH. reflexivity.
Qed.

Lemma items_size {A} (c : codec A) (l : list A) :
  codec_ok c -> Forall (c_wf c) l ->
  lenN (flat_map (c_enc c) l) = 8 * fold_right (fun x acc => c_size c x + acc) 0 l.
Proof.
  intros Hc Hl. induction Hl as [|x t Hx Ht IH]; cbn [flat_map fold_right]; [reflexivity|].
  rewrite lenN_app, IH, (ok_size c Hc) by assumption. lia.
Qed.

Lemma items_size_fixed {A} (c : codec A) (k : N) (l : list A) :
  codec_ok c -> (forall x, c_wf c x -> c_size c x = k) -> Forall (c_wf c) l ->
  lenN (flat_map (c_enc c) l) = lenN l * (k * 8).
Proof.
  intros Hc Hk Hl. induction Hl as [|x t Hx Ht IH]; cbn [flat_map]; [reflexivity|].
  rewrite lenN_app, IH, (ok_size c Hc), lenN_cons, (Hk x) by assumption. lia.
Qed.

Lemma items_prefix {A B} (c : codec A) (l : list A) (K : list A -> list byte -> io B) (acc : list A -> list A) :
  codec_ok c -> Forall (c_wf c) l ->
  prefix_safe (fun s => let+ (xs, r) := dec_items c (length l) s in K xs r) (flat_map (c_enc c) l).
Proof.
  intros Hc Hl. revert K. induction Hl as [|x t Hx Ht IH]; intros K; cbn [length flat_map dec_items].
  - apply prefix_safe_nil.
  - eapply prefix_safe_ext; [|apply (prefix_bind c x (flat_map (c_enc c) t)
        (fun a r => let+ (xs, r') := dec_items c (length t) r in K (a :: xs) r')); auto].
    + intros s. cbv beta. destruct (c_dec c s) as [[a r]|e|p]; cbn [iobind]; [|reflexivity|reflexivity].
      destruct (dec_items c (length t) r) as [[xs r']|e|p]; reflexivity.
Qed.

Lemma rep_codec_ok {A} (n : nat) (c : codec A) : codec_ok c -> codec_ok (rep_codec n c).
Proof.
  intros Hc. constructor.
  - intros l rest [Hn Hl]. cbn [c_enc c_dec rep_codec]. subst n. now apply dec_items_app.
  - intros l [Hn Hl]. cbn [c_enc c_size rep_codec]. now apply items_size.
  - intros l [Hn Hl]. cbn [c_enc c_dec rep_codec]. subst n.
    eapply prefix_safe_ext; [|apply (items_prefix c l (fun xs r => IoOk (xs, r)) (fun x => x) Hc Hl)].
    intros s. cbv beta. destruct (dec_items c (length l) s) as [[xs r]|e|p]; reflexivity.
Qed.

(* Vec<V>: length prefix, then the items *)
Lemma vec_codec_ok {A} (k : N) (c : codec A) :
  codec_ok c -> 1 <= k -> (forall x, c_wf c x -> c_size c x = k) -> codec_ok (vec_codec k c).
Proof.
  intros Hc Hk1 Hk.
  assert (B : forall l : list A, lenN l * (k * 8) <= ISIZE_MAX -> lenN l < 2 ^ 64) by (unfold ISIZE_MAX; intros; nia).
  constructor.
  - intros l rest [Hl Hcap]. cbn [c_enc c_dec vec_codec]. change bits_WORD_BYTES with 8 in *.
    rewrite <- app_assoc, dec_elem_app by auto. cbn [iobind].
    replace (ISIZE_MAX <? lenN l * (k * 8)) with false by lia.
    rewrite lenN_app, (items_size_fixed c k l) by auto.
    replace (lenN l * (k * 8) <=? lenN l * (k * 8) + lenN rest) with true by lia.
    unfold lenN at 1. rewrite Nat2N.id. now apply dec_items_app.
  - intros l [Hl Hcap]. cbn [c_enc c_size vec_codec].
    rewrite lenN_app, le64_lenN, (items_size_fixed c k l) by auto. lia.
  - intros l [Hl Hcap] j Hj. cbn [c_enc c_dec vec_codec] in *. change bits_WORD_BYTES with 8 in *.
    destruct (Nat.lt_ge_cases j 8) as [Hlt|Hge].
    + exists UnexpectedEof. rewrite dec_elem_short; [reflexivity|].
      rewrite lenN_firstn. lia.
    + rewrite firstn_app_ge by (rewrite le64_length; lia). rewrite dec_elem_app by auto. cbn [iobind].
      replace (ISIZE_MAX <? lenN l * (k * 8)) with false by lia.
      rewrite app_length, le64_length in Hj.
      assert (E := items_size_fixed c k l Hc Hk Hl).
      replace (lenN l * (k * 8) <=? lenN (firstn (j - length (le64 (lenN l))) (flat_map (c_enc c) l))) with false.
      * eauto.
      * rewrite lenN_firstn, le64_length. unfold lenN in *. lia.
Qed.

Lemma vec_u64_codec_ok : codec_ok vec_u64_codec.
Proof. apply vec_codec_ok; [exact u64_codec_ok|lia|reflexivity]. Qed.
Lemma vec_pair_codec_ok : codec_ok vec_pair_codec.
Proof. apply vec_codec_ok; [exact pair_codec_ok|lia|reflexivity]. Qed.

(* Option<V> *)
Lemma option_codec_ok {A} (c : codec A) : codec_ok c -> codec_ok (option_codec c).
Proof.
  intros Hc. constructor.
  - intros [x|] rest W; cbn [c_enc c_dec option_codec].
    + destruct W as [Wx Ws]. rewrite <- app_assoc, dec_elem_app by lia. cbn [iobind].
      replace (c_size c x =? 0) with false by lia.
      rewrite (ok_rt c Hc) by assumption. reflexivity.
    + rewrite dec_elem_app by lia. reflexivity.
  - intros [x|] W; cbn [c_enc c_size option_codec].
    + destruct W as [Wx Ws]. rewrite lenN_app, le64_lenN, (ok_size c Hc) by assumption. lia.
    + rewrite le64_lenN. lia.
  - intros [x|] W; cbn [c_enc c_dec option_codec].
    + destruct W as [Wx Ws].
      assert (Wn : c_wf u64_codec (c_size c x)) by (cbn [c_wf u64_codec]; lia).
      eapply prefix_safe_ext;
        [|apply (prefix_bind u64_codec (c_size c x) (c_enc c x)
             (fun n r => if n =? 0 then IoOk (None, r) else let+ (x, r') := c_dec c r in IoOk (Some x, r'))
             u64_codec_ok Wn)].
      * intros s. reflexivity.
      * replace (c_size c x =? 0) with false by lia.
        apply (prefix_bind_last c x (fun x r' => IoOk (Some x, r'))); auto.
    + intros k Hk. rewrite le64_length in Hk. exists UnexpectedEof. rewrite dec_elem_short; [reflexivity|].
      rewrite lenN_firstn. lia.
Qed.

(* ------------------------------------------------------------------ Vec<u8>, String *)

Lemma pad_len_spec n : pad_len n = (n + 7) / 8 * 8 - n /\ pad_len n < 8 /\ (n + pad_len n) mod 8 = 0.
Proof. unfold pad_len, bytes_to_words. change bits_WORD_BYTES with 8. change (8 - 1) with 7. lia. Qed.

Lemma padding_ok m n : n <= ISIZE_MAX -> padding m n = IoOk (pad_len n).
Proof.
  intros H. unfold padding, ISIZE_MAX in *.
  destruct (round_up_to_word_bytes_spec m n) as [r [E [B M]]]; [lia|].
  rewrite E. cbn [io_of_res iobind]. f_equal. destruct (pad_len_spec n) as [P _]. rewrite P. lia.
Qed.

Lemma lenN_repeatN {A} (x : A) n : lenN (repeatN x n) = N.of_nat n.
Proof. unfold lenN. induction n; cbn [repeatN length]; [reflexivity|]. lia. Qed.

Lemma bytes_codec_ok m : codec_ok (bytes_codec m).
Proof.
  constructor.
  - intros l rest [Hb Hcap]. cbn [c_enc c_dec bytes_codec]. unfold byte in *.
    rewrite <- app_assoc, dec_elem_app by (unfold ISIZE_MAX in *; lia). cbn [iobind].
    replace (ISIZE_MAX <? lenN l) with false by (unfold ISIZE_MAX in *; lia).
    rewrite <- app_assoc, read_exact_app. cbn [iobind]. rewrite padding_ok by assumption. cbn [iobind].
    destruct (0 <? pad_len (lenN l)) eqn:E.
    + replace (pad_len (lenN l)) with (lenN (repeatN 0 (N.to_nat (pad_len (lenN l))))) at 1
        by (rewrite lenN_repeatN; lia).
      rewrite read_exact_app. reflexivity.
    + replace (pad_len (lenN l)) with 0 by lia. reflexivity.
  - intros l [Hb Hcap]. cbn [c_enc c_size bytes_codec]. unfold byte in *.
    rewrite !lenN_app, le64_lenN, lenN_repeatN.
    destruct (pad_len_spec (lenN l)) as [P _]. unfold bytes_to_words. change bits_WORD_BYTES with 8.
    change (8 - 1) with 7. lia.
  - intros l [Hb Hcap] j Hj. cbn [c_enc c_dec bytes_codec] in *. unfold byte in *.
    rewrite !app_length, le64_length in Hj.
    assert (Hrep : length (repeatN 0 (N.to_nat (pad_len (lenN l)))) = N.to_nat (pad_len (lenN l))).
    { generalize (lenN_repeatN 0 (N.to_nat (pad_len (lenN l)))). unfold lenN. lia. }
    rewrite Hrep in Hj.
    destruct (Nat.lt_ge_cases j 8) as [Hlt|Hge].
    { exists UnexpectedEof. rewrite dec_elem_short; [reflexivity|]. rewrite lenN_firstn. lia. }
    rewrite firstn_app_ge by (rewrite le64_length; lia). rewrite le64_length.
    rewrite dec_elem_app by (unfold ISIZE_MAX in *; lia). cbn [iobind].
    replace (ISIZE_MAX <? lenN l) with false by (unfold ISIZE_MAX in *; lia).
    destruct (Nat.lt_ge_cases (j - 8) (length l)) as [Hl|Hl].
    { exists UnexpectedEof. rewrite read_exact_short; [reflexivity|].
      rewrite lenN_firstn, lenN_app. unfold lenN. lia. }
    rewrite firstn_app_ge by assumption.
    rewrite read_exact_app. cbn [iobind]. rewrite padding_ok by assumption. cbn [iobind].
    replace (0 <? pad_len (lenN l)) with true by (unfold lenN in *; lia).
    exists UnexpectedEof. rewrite read_exact_short; [reflexivity|].
    rewrite lenN_firstn, lenN_repeatN. unfold lenN in *. lia.
Qed.

Lemma string_codec_ok m : codec_ok (string_codec m).
Proof.
  pose proof (bytes_codec_ok m) as Hb. constructor.
  - intros l rest [W U]. cbn [c_enc c_dec string_codec]. rewrite (ok_rt _ Hb) by assumption. cbn [iobind].
    now rewrite U.
  - intros l [W U]. cbn [c_enc c_size string_codec]. now apply (ok_size _ Hb).
  - intros l [W U]. cbn [c_enc c_dec string_codec].
    apply (prefix_bind_last (bytes_codec m) l (fun v r => if utf8_valid v then IoOk (v, r) else IoErr InvalidData)); auto.
Qed.

(* ------------------------------------------------------------------ streams of several values *)

Definition tval_ok (t : tval) : Prop := match t with TV _ c x => codec_ok c /\ c_wf c x end.

Lemma dec_all_app (l : list tval) rest :
  Forall tval_ok l -> dec_all l (enc_all l ++ rest) = IoOk (l, rest).
Proof.
  induction 1 as [|[A c x] t [Hc Hx] Ht IH]; cbn [enc_all dec_all]; [reflexivity|].
  rewrite <- app_assoc, (ok_rt c Hc) by assumption. cbn [iobind]. rewrite IH. reflexivity.
Qed.

Lemma enc_all_size (l : list tval) :
  Forall tval_ok l ->
  lenN (enc_all l) = 8 * fold_right (fun t acc => match t with TV _ c x => c_size c x end + acc) 0 l.
Proof.
  induction 1 as [|[A c x] t [Hc Hx] Ht IH]; cbn [enc_all fold_right]; [reflexivity|].
  rewrite lenN_app, IH, (ok_size c Hc) by assumption. lia.
Qed.

Lemma dec_all_prefix (l : list tval) :
  Forall tval_ok l -> prefix_safe (dec_all l) (enc_all l).
Proof.
  induction 1 as [|[A c x] t [Hc Hx] Ht IH]; cbn [enc_all dec_all].
  - apply prefix_safe_nil.
  - apply (prefix_bind c x (enc_all t) (fun a r => let+ (xs, r') := dec_all t r in IoOk (TV A c a :: xs, r'))); auto.
    intros k Hk. destruct (IH k Hk) as [e He]. rewrite He. cbn [iobind]. eauto.
Qed.

(* ------------------------------------------------------------------ skip_option *)

Lemma skip_option_app {A} (c : codec A) m (o : option A) rest :
  codec_ok c -> c_wf (option_codec c) o ->
  skip_option m (c_enc (option_codec c) o ++ rest) = IoOk (tt, rest).
Proof.
  intros Hc W. unfold skip_option. destruct o as [x|]; cbn [c_enc option_codec c_wf] in *.
  - destruct W as [Wx Ws]. rewrite <- app_assoc, dec_elem_app by lia. cbn [iobind].
    replace (0 <? c_size c x) with true by lia.
    unfold umul. change bits_WORD_BYTES with 8. replace (c_size c x * 8 <? 2 ^ 64) with true by lia.
    cbn [io_of_res iobind]. rewrite lenN_app, (ok_size c Hc) by assumption.
    replace (N.min (c_size c x * 8) (8 * c_size c x + lenN rest)) with (c_size c x * 8) by lia.
    rewrite N.eqb_refl. cbn [negb]. do 2 f_equal.
    replace (N.to_nat (c_size c x * 8)) with (length (c_enc c x)).
    + rewrite skipn_app, Nat.sub_diag, skipn_all. reflexivity.
    + generalize (ok_size c Hc x Wx). unfold lenN. lia.
  - rewrite dec_elem_app by lia. reflexivity.
Qed.

Lemma skip_option_prefix {A} (c : codec A) m (o : option A) :
  codec_ok c -> c_wf (option_codec c) o ->
  prefix_safe (skip_option m) (c_enc (option_codec c) o).
Proof.
  intros Hc W j Hj. unfold skip_option.
  destruct (Nat.lt_ge_cases j 8) as [Hlt|Hge].
  { exists UnexpectedEof. rewrite dec_elem_short; [reflexivity|]. rewrite lenN_firstn. lia. }
  destruct o as [x|]; cbn [c_enc option_codec c_wf] in *.
  - destruct W as [Wx Ws]. rewrite app_length, le64_length in Hj.
    rewrite firstn_app_ge by (rewrite le64_length; lia). rewrite le64_length.
    rewrite dec_elem_app by lia. cbn [iobind].
    replace (0 <? c_size c x) with true by lia.
    unfold umul. change bits_WORD_BYTES with 8. replace (c_size c x * 8 <? 2 ^ 64) with true by lia.
    cbn [io_of_res iobind]. exists UnexpectedEof.
    generalize (ok_size c Hc x Wx). intros E.
    replace (N.min (c_size c x * 8) (lenN (firstn (j - 8) (c_enc c x))) =? c_size c x * 8) with false.
    + reflexivity.
    + rewrite lenN_firstn. unfold lenN in *. lia.
  - rewrite le64_length in Hj. lia.
Qed.
