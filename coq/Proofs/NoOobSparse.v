(* C08 for the Elias-Fano sparse vector: corollaries of the exactness theorems of C02 / C15.
   Those state `= Ok (reference answer)` for every argument; here only "returns" is kept, which is what C08 needs
   (an [OOB] or a panic is not [Ok]).  The contract on the embedded high bitvector ([high_contract]) is discharged
   with Proofs/BVFull.v: From<RawVector> + enable_select + enable_select_zero on any well-formed raw vector
   return and answer get / select / select_zero as the bits stored, on both select paths and in both modes. *)
From Coq Require Import NArith List Bool.
Require Import SDS.Model.Mach SDS.Model.Bits SDS.Model.Raw SDS.Model.IntVec SDS.Model.BitVec SDS.Model.Sparse.
Require Import SDS.Spec.BitSeq SDS.Spec.ValSeq SDS.Proofs.BVCommon SDS.Proofs.RankProof SDS.Proofs.BVFull.
Require Import SDS.Proofs.SparseSeq SDS.Proofs.SparseProof SDS.Proofs.SparseBuild SDS.Proofs.SparseMain.
Import ListNotations.
Open Scope N_scope.

Theorem high_contract_holds : forall sp md, high_contract sp md.
Proof.
  intros sp md r Hwf. pose proof (bv_from_raw_repr r Hwf) as Hr.
  destruct (bv_enable_selects_ok sp md (bv_from_raw r) _ Hr eq_refl eq_refl)
    as (b1 & b' & E1 & E2 & _ & _ & _ & _ & _ & Hsel).
  exists b1, b'. split; [exact E1|]. split; [exact E2|]. apply Hsel.
Qed.

(* every present-value query and every iterator over set bits / all bits, driven by any sequence of next (false)
   and next_back (true) calls, returns *)
Definition present_returns (sp : selpath) (md : mode) (sv : sparse) (n : N) : Prop :=
  (forall i, i < n -> exists x, sv_get sp md sv i = Ok x) /\
  (forall i, exists x, sv_rank sp md sv i = Ok x) /\
  (forall r, exists x, sv_select sp md sv r = Ok x) /\
  (exists x, sv_is_multiset md sv = Ok x) /\
  (forall pat, exists x, (let* s := sv_iter_new md sv in sbi_drive md sv pat s) = Ok x) /\
  (forall pat, exists x, it_drive md sv pat (sv_one_iter sv) = Ok x) /\
  (forall r pat, exists x, (let* it := sv_select_iter sp md sv r in it_drive md sv pat it) = Ok x) /\
  (forall v pat, exists x, (let* it := sv_predecessor sp md sv v in it_drive md sv pat it) = Ok x) /\
  (forall v pat, exists x, (let* it := sv_successor sp md sv v in it_drive md sv pat it) = Ok x).

(* the queries about unset bits (sets only) *)
Definition zero_returns (sp : selpath) (md : mode) (sv : sparse) : Prop :=
  (forall i, exists x, sv_rank_zero sp md sv i = Ok x) /\
  (forall r, exists x, sv_select_zero sp md sv r = Ok x) /\
  (forall k, exists x, (let* z := sv_zero_iter md sv in zi_take md sv k z) = Ok x) /\
  (forall r k, exists x, (let* z := sv_select_zero_iter sp md sv r in zi_take md sv k z) = Ok x).

Lemma present_queries_return sp md sv n Vs :
  present_queries_ok sp md sv n Vs -> iter_queries_ok sp md sv n Vs -> present_returns sp md sv n.
Proof.
  intros (_ & _ & _ & Hget & Hrank & Hsel & _ & _ & Hmulti) (Hb & Ho & Hsi & Hp & Hs).
  unfold present_returns.
  split; [intros i Hi; eexists; apply (Hget i Hi)|].
  split; [intros i; eexists; apply Hrank|].
  split; [intros r; eexists; apply Hsel|].
  split; [eexists; apply Hmulti|].
  split; [intros pat; eexists; apply Hb|].
  split; [intros pat; eexists; apply Ho|].
  split; [intros r pat; eexists; apply Hsi|].
  split; [intros v pat; eexists; apply Hp|].
  intros v pat; eexists; apply Hs.
Qed.

Lemma zero_queries_return sp md sv n P : zero_queries_ok sp md sv n P -> zero_returns sp md sv.
Proof.
  intros (Hrz & Hsz & Hzi & Hszi & _). unfold zero_returns.
  split; [intros i; eexists; apply Hrz|].
  split; [intros r; eexists; apply Hsz|].
  split; [intros k; eexists; apply Hzi|].
  intros r k; eexists; apply Hszi.
Qed.

Theorem sparse_set_returns sp md w' n P :
  n < 2 ^ 64 -> 1 <= w' <= 63 -> increasing P = true -> all_below n P = true ->
  lenN P + buckets_of n (eff_width w' n (lenN P)) < 2 ^ 64 ->
  exists sv, sv_build_set sp md w' n P = Ok (inl sv) /\ present_returns sp md sv n /\ zero_returns sp md sv.
Proof.
  intros Hn Hw Hinc Hb Hfit.
  destruct (sparse_set_exact sp md w' n P (high_contract_holds sp md) Hn Hw Hinc Hb Hfit)
    as (sv & H & E & _ & Hp & Hz & Hi).
  exists sv. split; [exact E|]. split; [exact (present_queries_return sp md sv n P Hp Hi)|].
  exact (zero_queries_return sp md sv n P Hz).
Qed.

Theorem sparse_multiset_returns sp md w' n Vs :
  n < 2 ^ 64 -> 1 <= w' <= 63 -> nondecreasing Vs = true -> all_below n Vs = true ->
  lenN Vs + buckets_of n (eff_width w' n (lenN Vs)) < 2 ^ 64 ->
  exists sv, sv_build_multiset sp md w' n Vs = Ok (inl sv) /\ present_returns sp md sv n.
Proof.
  intros Hn Hw Hinc Hb Hfit.
  destruct (sparse_multiset_exact sp md w' n Vs (high_contract_holds sp md) Hn Hw Hinc Hb Hfit)
    as (sv & H & E & _ & Hp & Hi).
  exists sv. split; [exact E|]. exact (present_queries_return sp md sv n Vs Hp Hi).
Qed.

(* any vector that represents (n, P) - e.g. a loaded one whose supports were rebuilt *)
Theorem sparse_repr_returns sp md sv n w P H :
  sv_ok sp md sv n w P H ->
  present_returns sp md sv n /\ (sorted_lt P -> zero_returns sp md sv).
Proof.
  intros Hok. split.
  - exact (present_queries_return sp md sv n P (sv_ok_present _ _ _ _ _ _ _ Hok) (sv_ok_iters _ _ _ _ _ _ _ Hok)).
  - intros Hs. exact (zero_queries_return sp md sv n P (sv_ok_zero _ _ _ _ _ _ _ Hok Hs)).
Qed.
