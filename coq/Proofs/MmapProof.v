(* Proofs about Model/Mmap.v over Spec/AddrSpace.v. *)
From Coq Require Import NArith List Lia ZArith Bool.
Require Import SDS.Model.Mach SDS.gen.Consts SDS.gen.Funs SDS.Spec.AddrSpace SDS.gen.MmapCfg SDS.Model.Mmap.
Import ListNotations.
Open Scope N_scope.
Require Import ZifyBool ZifyN ZifyNat.
Ltac Zify.zify_post_hook ::= Z.div_mod_to_equations.
Arguments N.add : simpl never. Arguments N.sub : simpl never. Arguments N.mul : simpl never.
Arguments N.eqb : simpl never. Arguments N.ltb : simpl never. Arguments N.leb : simpl never.
Arguments N.pow : simpl never. Arguments N.div : simpl never. Arguments N.modulo : simpl never.
Arguments N.max : simpl never.

(* ---- the generated helpers on the sizes a file can have ---- *)

Lemma bytes_to_words_ok m n : n + 7 < 2 ^ 64 -> f_bytes_to_words m n = Ok ((n + 7) / 8).
Proof.
  intros H. unfold f_bytes_to_words, uadd, usub, udiv. change bits_WORD_BYTES with 8. cbn [bind].
  change (1 <=? 8) with true. cbn [bind]. change (8 - 1) with 7.
  replace (n + 7 <? 2 ^ 64) with true by lia. cbn [bind]. change (8 =? 0) with false. cbv iota. reflexivity.
Qed.

Lemma words_to_bytes_ok m n : n * 8 < 2 ^ 64 -> f_words_to_bytes m n = Ok (n * 8).
Proof.
  intros H. unfold f_words_to_bytes, umul. change bits_WORD_BYTES with 8. cbn [bind].
  replace (n * 8 <? 2 ^ 64) with true by lia. reflexivity.
Qed.

Lemma round_up_ok m n : n + 7 < 2 ^ 64 -> f_round_up_to_word_bytes m n = Ok ((n + 7) / 8 * 8).
Proof.
  intros H. unfold f_round_up_to_word_bytes. cbn [bind]. rewrite bytes_to_words_ok by assumption. cbn [bind].
  apply words_to_bytes_ok. lia.
Qed.

(* ---- regions ---- *)

Lemma top_ge : forall a r, In r a -> r_end r <= top a.
Proof.
  induction a as [|x a IH]; intros r Hin; [destruct Hin|].
  cbn [top fold_right]. fold (top a). destruct Hin as [->|Hin]; [lia|]. specialize (IH r Hin). lia.
Qed.

Lemma top_ge16 : forall a, 16 <= top a.
Proof. induction a as [|x a IH]; cbn [top fold_right]; [lia|]. fold (top a). lia. Qed.

Lemma lookup_above_top : forall a p, top a <= p -> lookup a p = None.
Proof.
  induction a as [|x a IH]; intros p Hp; cbn [lookup]; [reflexivity|].
  cbn [top fold_right] in Hp. fold (top a) in Hp.
  replace ((r_first x <=? p) && (p <? r_end x)) with false by (unfold r_end in *; lia).
  apply IH. lia.
Qed.

(* unmapping a range at or above every region of [a] leaves [a] as it is *)
Lemma cut_all_below : forall a lo hi, (forall r, In r a -> r_end r <= lo) -> flat_map (cut lo hi) a = a.
Proof.
  induction a as [|x a IH]; intros lo hi H; cbn [flat_map]; [reflexivity|].
  unfold cut at 1. replace (r_end x <=? lo) with true by (specialize (H x (or_introl eq_refl)); lia).
  cbn [orb app]. f_equal. apply IH. intros r Hr. apply H. right. exact Hr.
Qed.

(* ---- mmap of a non-empty file when there is room ---- *)

Definition room (a : aspace) (len : N) : Prop := top a + pages_of len <= SPACE_PAGES.

Lemma mmap_ok : forall a len, 0 < len -> room a len ->
  mmap a len = (top a * PAGE, mkR (top a) (pages_of len) 0 :: a).
Proof.
  intros a len Hl Hr. unfold mmap, room in *.
  replace (len =? 0) with false by lia. replace (SPACE_PAGES <? top a + pages_of len) with false by lia.
  reflexivity.
Qed.

Lemma mmap_fail : forall a len, len = 0 \/ ~ room a len -> mmap a len = (MAP_FAILED, a).
Proof.
  intros a len H. unfold mmap, room in *. destruct (N.eqb_spec len 0) as [|Hn]; [reflexivity|].
  replace (SPACE_PAGES <? top a + pages_of len) with true by lia. reflexivity.
Qed.

Lemma space_facts : SPACE_PAGES * PAGE = 2 ^ 64 /\ MAP_FAILED = 2 ^ 64 - 1 /\ PAGE = 4096.
Proof. repeat split; reflexivity. Qed.

(* a successful mmap returns neither NULL nor MAP_FAILED *)
Lemma mmap_ptr_valid : forall a len, 0 < len -> room a len ->
  (top a * PAGE =? 0) = false /\ (top a * PAGE =? MAP_FAILED) = false.
Proof.
  intros a len Hl Hr. pose proof (top_ge16 a) as H16. unfold room in Hr.
  destruct space_facts as [_ [-> ->]].
  assert (Hs : SPACE_PAGES = 4503599627370496) by reflexivity. rewrite Hs in Hr.
  assert (1 <= pages_of len) by (unfold pages_of; lia).
  split; lia.
Qed.

(* ---- element access inside a fresh mapping ---- *)

Lemma elem_index_fresh : forall a b n i,
  8 * i < n * 4096 ->
  elem_index (mkR b n 0 :: a) (b * PAGE + 8 * i) = Ok i.
Proof.
  intros a b n i Hi. unfold elem_index, PAGE.
  replace ((b * 4096 + 8 * i) mod 8 =? 0) with true by lia. cbn [negb].
  cbn [lookup r_first r_off]. unfold r_end. cbn [r_first r_pages].
  replace ((b <=? (b * 4096 + 8 * i) / 4096) && ((b * 4096 + 8 * i) / 4096 <? b + n)) with true by lia.
  f_equal. lia.
Qed.

(* ---- MemoryMap::new ---- *)

Lemma map_new_missing : forall cmp m mm a, map_new cmp m mm None a = Ok (a, Failed ErrOpen).
Proof. reflexivity. Qed.

Lemma map_new_bad_size : forall cmp m mm a len, len < 2 ^ 63 -> len mod 8 <> 0 ->
  map_new cmp m mm (Some len) a = Ok (a, Failed ErrSize).
Proof.
  intros cmp m mm a len Hl Hm. unfold map_new. rewrite round_up_ok by lia. cbn [bind].
  replace (len =? (len + 7) / 8 * 8) with false by lia. reflexivity.
Qed.

Lemma map_new_refused : forall m mm a len, len < 2 ^ 63 -> len mod 8 = 0 -> len = 0 \/ ~ room a len ->
  map_new CmpMapFailed m mm (Some len) a = Ok (a, Failed ErrMmap).
Proof.
  intros m mm a len Hl Hm Hf. unfold map_new. rewrite round_up_ok by lia. cbn [bind].
  replace (len =? (len + 7) / 8 * 8) with true by lia. cbn [negb].
  rewrite (mmap_fail a len Hf). cbn [fst snd]. rewrite N.eqb_refl. reflexivity.
Qed.

Lemma map_new_mapped : forall cmp m mm a len, len < 2 ^ 63 -> len mod 8 = 0 -> 0 < len -> room a len ->
  map_new cmp m mm (Some len) a =
  Ok (mkR (top a) (pages_of len) 0 :: a, Mapped (mkM mm (top a * PAGE) (len / 8))).
Proof.
  intros cmp m mm a len Hl Hm H0 Hr. unfold map_new. rewrite round_up_ok by lia. cbn [bind].
  replace (len =? (len + 7) / 8 * 8) with true by lia. cbn [negb].
  rewrite (mmap_ok a len H0 Hr). cbn [fst snd].
  destruct (mmap_ptr_valid a len H0 Hr) as [E0 E1].
  replace (match cmp with CmpNull => top a * PAGE =? 0 | CmpMapFailed => top a * PAGE =? MAP_FAILED end) with false
    by (destruct cmp; symmetry; assumption).
  rewrite bytes_to_words_ok by lia. cbn [bind].
  replace ((len + 7) / 8) with (len / 8) by lia. reflexivity.
Qed.

(* ---- Drop ---- *)

Lemma munmap_fresh : forall a len, 0 < len ->
  munmap (mkR (top a) (pages_of len) 0 :: a) (top a * PAGE) len = (true, a).
Proof.
  intros a len H0. unfold munmap, PAGE.
  replace (len =? 0) with false by lia. replace ((top a * 4096) mod 4096 =? 0) with true by lia.
  cbn [negb orb]. f_equal. cbn [flat_map].
  assert (Hlo : top a * 4096 / 4096 = top a) by lia.
  assert (Hhi : (top a * 4096 + len + 4095) / 4096 = top a + pages_of len) by (unfold pages_of; lia).
  rewrite Hlo, Hhi.
  assert (Hp : 1 <= pages_of len) by (unfold pages_of; lia).
  unfold cut at 1. unfold r_end. cbn [r_first r_pages r_off].
  replace (top a + pages_of len <=? top a) with false by lia.
  replace (top a + pages_of len <=? top a) with false by lia. cbn [orb].
  replace (top a <? top a) with false by lia.
  replace (top a + pages_of len <? top a + pages_of len) with false by lia. cbn [app].
  apply cut_all_below. intros r Hr. apply top_ge. exact Hr.
Qed.

Lemma map_drop_bytes : forall m mm a len, len < 2 ^ 63 -> len mod 8 = 0 -> 0 < len ->
  map_drop UnmapBytes m (mkM mm (top a * PAGE) (len / 8)) (mkR (top a) (pages_of len) 0 :: a) = Ok a.
Proof.
  intros m mm a len Hl Hm H0. unfold map_drop. cbn [mm_len mm_ptr].
  rewrite words_to_bytes_ok by lia. cbn [bind].
  replace (len / 8 * 8) with len by lia. rewrite munmap_fresh by assumption. reflexivity.
Qed.

(* with the length in elements only the pages covering the first len/8 BYTES go away *)
Lemma munmap_elements : forall a len, 8 <= len -> len mod 8 = 0 ->
  exists rest,
  munmap (mkR (top a) (pages_of len) 0 :: a) (top a * PAGE) (len / 8) = (true, rest ++ a) /\
  (4096 < len ->
   rest = [mkR (top a + pages_of (len / 8)) (pages_of len - pages_of (len / 8)) (pages_of (len / 8))]) /\
  (len <= 4096 -> rest = []).
Proof.
  intros a len H8 Hm. unfold munmap, PAGE.
  replace (len / 8 =? 0) with false by lia. replace ((top a * 4096) mod 4096 =? 0) with true by lia.
  cbn [negb orb flat_map].
  assert (Hlo : top a * 4096 / 4096 = top a) by lia.
  assert (Hhi : (top a * 4096 + len / 8 + 4095) / 4096 = top a + pages_of (len / 8)) by (unfold pages_of; lia).
  rewrite Hlo, Hhi.
  assert (Hp : 1 <= pages_of (len / 8)) by (unfold pages_of; lia).
  assert (Hpp : pages_of (len / 8) <= pages_of len) by (unfold pages_of; lia).
  rewrite (cut_all_below a) by (intros r Hr; apply top_ge; exact Hr).
  unfold cut. unfold r_end. cbn [r_first r_pages r_off].
  replace (top a + pages_of len <=? top a) with false by lia.
  replace (top a + pages_of (len / 8) <=? top a) with false by lia. cbn [orb].
  replace (top a <? top a) with false by lia. cbn [app].
  eexists. split; [reflexivity|]. split; intro Hc.
  - assert (pages_of (len / 8) < pages_of len) by (unfold pages_of; lia).
    replace (top a + pages_of (len / 8) <? top a + pages_of len) with true by lia.
    f_equal. f_equal; lia.
  - assert (pages_of (len / 8) = pages_of len) by (unfold pages_of; lia).
    replace (top a + pages_of (len / 8) <? top a + pages_of len) with false by lia. reflexivity.
Qed.

(* ---- the life cycle of one map, current source ---- *)

Lemma nthN_lt {A} : forall (l : list A) i, i < lenN l -> exists x, nthN l i = Some x.
Proof.
  induction l as [|y l IH]; intros i H; unfold lenN in H; cbn [length] in H; [lia|].
  cbn [nthN]. destruct (N.eqb_spec i 0) as [|Hn]; [eexists; reflexivity|].
  apply IH. unfold lenN. lia.
Qed.

Definition size_ok (fsize : option N) : Prop := forall sz, fsize = Some sz -> sz < 2 ^ 63.

(* what the caller of MemoryMap::new gets, for every file size below 2^63, every build mode and mapping mode *)
Definition lifecycle_post (m : mode) (mm : mapping_mode) (fsize : option N) (a0 a1 : aspace) (out : outcome) : Prop :=
  match out with
  | Failed e =>
      a1 = a0 /\
      match e with
      | ErrOpen => fsize = None
      | ErrSize => exists sz, fsize = Some sz /\ sz mod 8 <> 0
      | ErrMmap => exists sz, fsize = Some sz /\ sz mod 8 = 0 /\ (sz = 0 \/ ~ room a0 sz)
      end
  | Mapped mp =>
      exists sz, fsize = Some sz /\ sz mod 8 = 0 /\ 0 < sz /\
        mm_mode mp = mm /\ mm_len mp * 8 = sz /\ mm_ptr mp mod PAGE = 0 /\
        (* the slice shows the file: element i of the map is element i of the file, for its whole length *)
        (forall file i, lenN file = mm_len mp -> i < mm_len mp ->
           exists x, nthN file i = Some x /\ map_get a1 file mp i = Ok x) /\
        (* a store through the slice lands in the file, at that element and nowhere else *)
        (forall file i v, i < mm_len mp -> map_set a1 file mp i v = Ok (setN file i v)) /\
        (* the mapping occupies pages_of sz pages that were free before *)
        (forall p, mm_ptr mp / PAGE <= p < mm_ptr mp / PAGE + pages_of sz ->
           lookup a0 p = None /\ lookup a1 p <> None) /\
        mapped_pages a1 = mapped_pages a0 + pages_of sz /\
        (* drop gives every one of them back: the address space is the one before new *)
        map_drop cur_unmap m mp a1 = Ok a0
  end.

Lemma lifecycle_one : forall m mm a0 fsize, size_ok fsize ->
  exists a1 out, map_new cur_cmp m mm fsize a0 = Ok (a1, out) /\ lifecycle_post m mm fsize a0 a1 out.
Proof.
  intros m mm a0 fsize Hs. destruct fsize as [sz|].
  2:{ exists a0, (Failed ErrOpen). split; [reflexivity|]. cbn. split; reflexivity. }
  specialize (Hs sz eq_refl).
  destruct (N.eq_dec (sz mod 8) 0) as [Hm|Hm].
  2:{ exists a0, (Failed ErrSize). split; [apply map_new_bad_size; assumption|].
      cbn. split; [reflexivity|]. exists sz. split; [reflexivity|assumption]. }
  assert (Hdec : (sz = 0 \/ ~ room a0 sz) \/ (0 < sz /\ room a0 sz)).
  { unfold room. destruct (N.eq_dec sz 0); [left; left; assumption|].
    destruct (N.le_gt_cases (top a0 + pages_of sz) SPACE_PAGES); [right; split; [lia|assumption]|left; right; lia]. }
  destruct Hdec as [Hf|[H0 Hr]].
  { exists a0, (Failed ErrMmap). split; [apply map_new_refused; assumption|].
    cbn. split; [reflexivity|]. exists sz. repeat split; assumption. }
  eexists. eexists. split; [apply map_new_mapped; assumption|].
  unfold lifecycle_post. exists sz. cbn [mm_mode mm_len mm_ptr].
  split; [reflexivity|]. split; [assumption|]. split; [assumption|]. split; [reflexivity|].
  split; [lia|]. split; [unfold PAGE; lia|].
  assert (Hpg : sz <= pages_of sz * 4096) by (unfold pages_of; lia).
  split; [|split; [|split; [|split]]].
  - intros file i Hlen Hi. destruct (nthN_lt file i) as [x Hx]; [lia|]. exists x. split; [exact Hx|].
    unfold map_get. cbn [mm_len mm_ptr]. replace (i <? sz / 8) with true by lia.
    unfold read_elem. rewrite elem_index_fresh by lia. rewrite Hx. reflexivity.
  - intros file i v Hi. unfold map_set. cbn [mm_len mm_ptr]. replace (i <? sz / 8) with true by lia.
    unfold write_elem. rewrite elem_index_fresh by lia. reflexivity.
  - intros p Hp. unfold PAGE in Hp. replace (top a0 * 4096 / 4096) with (top a0) in Hp by lia.
    split; [apply lookup_above_top; lia|].
    cbn [lookup]. unfold r_end. cbn [r_first r_pages r_off].
    replace ((top a0 <=? p) && (p <? top a0 + pages_of sz)) with true by lia. discriminate.
  - cbn [mapped_pages fold_right r_pages]. fold (mapped_pages a0). lia.
  - unfold cur_unmap. apply map_drop_bytes; assumption.
Qed.

(* any number of new/drop cycles over any files: the address space ends as it started *)
Lemma cycles_restore : forall m files a0,
  Forall (fun f => size_ok (snd f)) files ->
  cycles cur_cmp cur_unmap m files a0 = Ok a0.
Proof.
  intros m files. induction files as [|[mm fsize] rest IH]; intros a0 HF; cbn [cycles]; [reflexivity|].
  inversion HF as [|? ? Hs HF']; subst. cbn [snd] in Hs.
  destruct (lifecycle_one m mm a0 fsize Hs) as [a1 [out [Hn Hpost]]]. rewrite Hn. cbn [bind fst snd].
  destruct out as [mp|e].
  - destruct Hpost as [sz [_ [_ [_ [_ [_ [_ [_ [_ [_ [_ Hd]]]]]]]]]]]. rewrite Hd. cbn [bind]. apply IH. exact HF'.
  - destruct Hpost as [-> _]. apply IH. exact HF'.
Qed.

(* ---- the two former behaviours ---- *)

(* munmap with the length in elements: for every file larger than a page, pages stay mapped after drop *)
Lemma leak_elements : forall cmp m mm a0 sz,
  4096 < sz -> sz < 2 ^ 63 -> sz mod 8 = 0 -> room a0 sz ->
  exists a1 mp a2 p,
    map_new cmp m mm (Some sz) a0 = Ok (a1, Mapped mp) /\
    map_drop UnmapElements m mp a1 = Ok a2 /\
    lookup a0 p = None /\ lookup a2 p <> None /\
    mapped_pages a2 = mapped_pages a0 + (pages_of sz - pages_of (sz / 8)) /\
    0 < pages_of sz - pages_of (sz / 8).
Proof.
  intros cmp m mm a0 sz H1 H2 Hm Hr.
  destruct (munmap_elements a0 sz) as [rest [Hmu [Hbig _]]]; [lia|assumption|].
  specialize (Hbig H1). subst rest.
  eexists. eexists. eexists. exists (top a0 + pages_of (sz / 8)).
  split; [apply map_new_mapped; try assumption; lia|].
  split; [unfold map_drop; cbn [mm_len mm_ptr bind]; rewrite Hmu; reflexivity|].
  assert (pages_of (sz / 8) < pages_of sz) by (unfold pages_of; lia).
  split; [apply lookup_above_top; lia|]. split; [|split; [|lia]].
  - cbn [app lookup snd]. unfold r_end. cbn [r_first r_pages r_off].
    replace ((top a0 + pages_of (sz / 8) <=? top a0 + pages_of (sz / 8)) &&
             (top a0 + pages_of (sz / 8) <? top a0 + pages_of (sz / 8) + (pages_of sz - pages_of (sz / 8))))
      with true by lia. discriminate.
  - cbn [app snd mapped_pages fold_right r_pages]. fold (mapped_pages a0). lia.
Qed.

(* ... while a file of at most one page is released completely even then *)
Lemma small_no_leak : forall cmp m mm a0 sz,
  8 <= sz -> sz <= 4096 -> sz mod 8 = 0 -> room a0 sz ->
  exists a1 mp, map_new cmp m mm (Some sz) a0 = Ok (a1, Mapped mp) /\ map_drop UnmapElements m mp a1 = Ok a0.
Proof.
  intros cmp m mm a0 sz H1 H2 Hm Hr.
  destruct (munmap_elements a0 sz) as [rest [Hmu [_ Hsmall]]]; [lia|assumption|].
  specialize (Hsmall H2). subst rest.
  eexists. eexists. split; [apply map_new_mapped; try assumption; lia|].
  unfold map_drop; cbn [mm_len mm_ptr bind]. rewrite Hmu. reflexivity.
Qed.

(* comparing the mmap result with null: the refused mapping of an empty file is taken for a success;
   the "map" holds the error value as its pointer, nothing is mapped there, and drop does nothing *)
Lemma empty_null : forall m mm um a0,
  map_new CmpNull m mm (Some 0) a0 = Ok (a0, Mapped (mkM mm MAP_FAILED 0)) /\
  map_drop um m (mkM mm MAP_FAILED 0) a0 = Ok a0.
Proof.
  intros m mm um a0. split.
  - unfold map_new. rewrite round_up_ok by lia. cbn [bind].
    change ((0 + 7) / 8 * 8) with 0. change (0 =? 0) with true. cbn [negb].
    rewrite (mmap_fail a0 0) by (left; reflexivity). cbn [fst snd].
    change (MAP_FAILED =? 0) with false. cbv iota.
    rewrite bytes_to_words_ok by lia. reflexivity.
  - unfold map_drop. cbn [mm_len mm_ptr].
    assert (E : match um with UnmapBytes => f_words_to_bytes m 0 | UnmapElements => Ok 0 end = Ok 0).
    { destruct um; [reflexivity|]. rewrite words_to_bytes_ok by lia. reflexivity. }
    rewrite E. cbn [bind]. unfold munmap. change (0 =? 0) with true. reflexivity.
Qed.
