(* Proofs about Spec/Sched.v: for the one-instruction program [fetch_add 1] every schedule returns
   pairwise distinct counts (they are exactly the first values of the wrapping counter, each once);
   for the program [load; store(+1)] a two-thread schedule returns the same count twice. *)
From Coq Require Import String NArith List Lia ZArith Bool Permutation.
Require Import SDS.gen.TempName SDS.Spec.Sched.
Import ListNotations.
Open Scope N_scope.
Require Import ZifyBool ZifyN ZifyNat.
Ltac Zify.zify_post_hook ::= Z.div_mod_to_equations.
Arguments N.add : simpl never. Arguments N.sub : simpl never. Arguments N.mul : simpl never.
Arguments N.eqb : simpl never. Arguments N.ltb : simpl never. Arguments N.leb : simpl never.
Arguments N.pow : simpl never. Arguments N.div : simpl never. Arguments N.modulo : simpl never.

(* ---- the thread table ---- *)

Lemma flat_rets_upd_push : forall l t ts v p r c,
  nth_error l t = Some ts ->
  Permutation (flat_map rets (upd l t (mkT p r c (v :: rets ts)))) (v :: flat_map rets l).
Proof.
  induction l as [|h l IH]; intros t ts v p r c Hn.
  - destruct t; discriminate.
  - destruct t as [|t]; cbn [nth_error] in Hn.
    + injection Hn as ->. cbn [upd flat_map rets app]. reflexivity.
    + cbn [upd flat_map].
      eapply Permutation_trans; [apply Permutation_app_head; exact (IH t ts v p r c Hn)|].
      apply Permutation_sym, Permutation_middle.
Qed.

Lemma Forall_upd {A} (P : A -> Prop) : forall l t x, Forall P l -> P x -> Forall P (upd l t x).
Proof.
  induction l as [|h l IH]; intros t x Hl Hx; [constructor|].
  inversion Hl as [|? ? Hh Ht]; subst.
  destruct t; cbn [upd]; constructor; auto.
Qed.

Lemma flat_rets_repeat : forall n ts, rets ts = [] -> flat_map rets (repeat ts n) = [].
Proof. induction n as [|n IH]; intros ts H; cbn [repeat flat_map]; [reflexivity|]. rewrite H, IH; auto. Qed.

Lemma NoDup_map_inj_in {A B} (f : A -> B) : forall l,
  (forall x y, In x l -> In y l -> f x = f y -> x = y) -> NoDup l -> NoDup (map f l).
Proof.
  induction l as [|a l IH]; intros Hinj Hnd; cbn [map]; [constructor|].
  inversion Hnd as [|? ? Hna Hnd']; subst. constructor.
  - intro Hin. apply in_map_iff in Hin. destruct Hin as [b [Hfb Hb]].
    assert (b = a) by (apply Hinj; [right; exact Hb|left; reflexivity|exact Hfb]). subst. contradiction.
  - apply IH; [|exact Hnd']. intros x y Hx Hy. apply Hinj; right; assumption.
Qed.

(* ---- the invariant of the fetch_add program ---- *)

Definition inv (init : N) (st : state) : Prop :=
  counter st = nth_count init (completed st) /\
  Permutation (all_counts st) (map (nth_count init) (seq 0 (completed st))) /\
  Forall (fun ts => pc ts = 0%nat) (threads st).

Lemma nth_count_succ : forall init c, (nth_count init c + 1) mod 2 ^ 64 = nth_count init (S c).
Proof. intros init c. unfold nth_count. lia. Qed.

Lemma inv_init : forall init n, init < 2 ^ 64 -> inv init (init_state init n).
Proof.
  intros init n Hi. unfold inv, init_state, completed, all_counts. cbn [counter threads].
  rewrite flat_rets_repeat by reflexivity. cbn [length seq map]. repeat split.
  - unfold nth_count. cbn [N.of_nat]. lia.
  - constructor.
  - apply Forall_forall. intros x Hx. apply repeat_spec in Hx. subst. reflexivity.
Qed.

Lemma step_rmw : forall init st t, inv init st ->
  exists st', step [Rmw_add 1] "fetch_add" st t = Some st' /\ inv init st'.
Proof.
  intros init st t [Hc [Hp Hpc]]. unfold step.
  destruct (nth_error (threads st) t) as [ts|] eqn:Hn.
  2:{ exists st. split; [reflexivity|]. repeat split; assumption. }
  assert (Hpc0 : pc ts = 0%nat).
  { rewrite Forall_forall in Hpc. apply Hpc. eapply nth_error_In; exact Hn. }
  rewrite Hpc0. cbn [nth_error exec_op op_name length Nat.eqb].
  replace (String.eqb "fetch_add" "fetch_add") with true by reflexivity.
  eexists. split; [reflexivity|].
  assert (Hperm : Permutation (all_counts (mkS ((counter st + 1) mod 2 ^ 64)
                     (upd (threads st) t (mkT 0 (counter st) None (counter st :: rets ts)))))
                   (counter st :: all_counts st)).
  { unfold all_counts. cbn [threads]. apply flat_rets_upd_push. exact Hn. }
  assert (Hlen : completed (mkS ((counter st + 1) mod 2 ^ 64)
                     (upd (threads st) t (mkT 0 (counter st) None (counter st :: rets ts))))
                 = S (completed st)).
  { unfold completed. rewrite (Permutation_length Hperm). reflexivity. }
  unfold inv. rewrite Hlen. cbn [counter threads]. repeat split.
  - rewrite Hc. apply nth_count_succ.
  - eapply Permutation_trans; [exact Hperm|].
    rewrite seq_S, map_app. cbn [map plus].
    eapply Permutation_trans; [|apply Permutation_cons_append].
    rewrite Hc. apply perm_skip. exact Hp.
  - apply Forall_upd; [exact Hpc|reflexivity].
Qed.

Lemma run_from_rmw : forall init sched st, inv init st ->
  exists st', run_from [Rmw_add 1] "fetch_add" st sched = Some st' /\ inv init st'.
Proof.
  intros init sched. induction sched as [|t rest IH]; intros st Hinv; cbn [run_from].
  - exists st. split; [reflexivity|exact Hinv].
  - destruct (step_rmw init st t Hinv) as [st1 [Hs Hinv1]]. rewrite Hs. apply IH. exact Hinv1.
Qed.

Lemma nth_count_inj : forall init x y,
  N.of_nat x < 2 ^ 64 -> N.of_nat y < 2 ^ 64 -> nth_count init x = nth_count init y -> x = y.
Proof. intros init x y Hx Hy. unfold nth_count. intro H. lia. Qed.

Lemma inv_nodup : forall init st, inv init st -> N.of_nat (completed st) <= 2 ^ 64 -> NoDup (all_counts st).
Proof.
  intros init st [_ [Hp _]] Hb.
  eapply Permutation_NoDup; [apply Permutation_sym; exact Hp|].
  apply NoDup_map_inj_in; [|apply seq_NoDup].
  intros x y Hx Hy. apply in_seq in Hx. apply in_seq in Hy.
  apply nth_count_inj; lia.
Qed.

(* every schedule of the fetch_add program runs to a state; the counter equals its start plus the number of
   completed calls (mod 2^64); the returned counts are exactly the first [completed] values of the counter,
   each once; with at most 2^64 completed calls they are pairwise distinct *)
Lemma rmw_unique : forall init nthreads sched, init < 2 ^ 64 ->
  exists st, run [Rmw_add 1] "fetch_add" init nthreads sched = Some st /\
    counter st = nth_count init (completed st) /\
    Permutation (all_counts st) (map (nth_count init) (seq 0 (completed st))) /\
    (N.of_nat (completed st) <= 2 ^ 64 -> NoDup (all_counts st)).
Proof.
  intros init n sched Hi. unfold run.
  destruct (run_from_rmw init sched (init_state init n) (inv_init init n Hi)) as [st [Hr Hinv]].
  exists st. split; [exact Hr|]. destruct Hinv as [Hc [Hp Hpc]]. repeat split; try assumption.
  intro Hb. apply (inv_nodup init); [repeat split; assumption|exact Hb].
Qed.

(* in that program every valid scheduler step is one completed call *)
Lemma rmw_completed_le : forall init nthreads sched st,
  init < 2 ^ 64 -> run [Rmw_add 1] "fetch_add" init nthreads sched = Some st ->
  (completed st <= length sched)%nat.
Proof.
  intros init n sched st Hi. unfold run.
  assert (G : forall sched s0 s1, inv init s0 -> run_from [Rmw_add 1] "fetch_add" s0 sched = Some s1 ->
              (completed s1 <= completed s0 + length sched)%nat).
  { clear. induction sched as [|t rest IH]; intros s0 s1 Hinv Hr; cbn [run_from] in Hr.
    - injection Hr as <-. cbn [length]. lia.
    - destruct (step [Rmw_add 1] "fetch_add" s0 t) as [s|] eqn:Hs; [|discriminate].
      destruct (step_rmw init s0 t Hinv) as [s' [Hs' Hinv']]. rewrite Hs in Hs'. injection Hs' as <-.
      specialize (IH s s1 Hinv' Hr). cbn [length].
      assert (completed s <= S (completed s0))%nat.
      { clear - Hs Hinv. unfold step in Hs.
        destruct (nth_error (threads s0) t) as [ts|] eqn:Hn; [|injection Hs as <-; lia].
        destruct Hinv as [_ [_ Hpc]]. rewrite Forall_forall in Hpc.
        rewrite (Hpc ts (nth_error_In _ _ Hn)) in Hs. cbn [nth_error exec_op op_name length Nat.eqb] in Hs.
        replace (String.eqb "fetch_add" "fetch_add") with true in Hs by reflexivity.
        injection Hs as <-. unfold completed, all_counts. cbn [threads].
        rewrite (Permutation_length (flat_rets_upd_push _ _ _ _ _ _ _ Hn)). cbn [length]. lia. }
      lia. }
  intro Hr. specialize (G sched _ _ (inv_init init n Hi) Hr).
  assert (completed (init_state init n) = 0%nat).
  { unfold completed, all_counts, init_state. cbn [threads]. rewrite flat_rets_repeat; reflexivity. }
  lia.
Qed.

Lemma rmw_unique_sched : forall init nthreads sched st,
  init < 2 ^ 64 -> N.of_nat (List.length sched) < 2 ^ 64 ->
  run [Rmw_add 1] "fetch_add" init nthreads sched = Some st -> NoDup (all_counts st).
Proof.
  intros init n sched st Hi Hlen Hrun.
  destruct (rmw_unique init n sched Hi) as [st' [Hr' [_ [_ Hnd]]]].
  rewrite Hrun in Hr'. injection Hr' as <-. apply Hnd.
  pose proof (rmw_completed_le init n sched st Hi Hrun) as Hle. lia.
Qed.

(* ---- what the theorem excludes: a load followed by a store ---- *)

Lemma load_store_duplicate :
  exists sched st, run [Load; Store_plus 1] "load" 0 2 sched = Some st /\ ~ NoDup (all_counts st).
Proof.
  exists [0; 1; 0; 1]%nat. eexists. split; [vm_compute; reflexivity|].
  cbv [all_counts threads flat_map rets app]. intro H. inversion H as [|x l Hni Hnd]; subst.
  apply Hni. left. reflexivity.
Qed.
