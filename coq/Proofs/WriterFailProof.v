(* Proofs about Model/WriterFail.v (property C14, last clause): a buffered file writer over a file with a
   persistent size limit (or one that refuses every write) never reports success for an incomplete file.

   Method: every operation of the failing model either does exactly what the always-succeeding model of
   Model/Writer.v does (then the theorems of Proofs/WriterProof.v - property C12 - apply), or it stops at the
   first write that does not fit and reports it (Err from the constructor or from close, the documented panic
   from a push). A failure is sticky: the writer is left with a non-empty buffer at a position where nothing
   fits any more, so every later close returns the error again. *)
From Coq Require Import NArith List Lia ZArith Bool.
Require Import SDS.Model.Mach SDS.Model.Bits SDS.Model.Raw SDS.Model.IntVec SDS.Model.Writer SDS.Model.WriterFail.
Require Import SDS.gen.Consts SDS.gen.Funs SDS.Proofs.BitsProof SDS.Proofs.WriterProof.
Import ListNotations.
Open Scope N_scope.
Require Import ZifyBool ZifyN ZifyNat.
Ltac Zify.zify_post_hook ::= Z.div_mod_to_equations.
Arguments N.add : simpl never. Arguments N.sub : simpl never. Arguments N.mul : simpl never.
Arguments N.eqb : simpl never. Arguments N.ltb : simpl never. Arguments N.leb : simpl never.
Arguments N.pow : simpl never. Arguments N.shiftl : simpl never. Arguments N.shiftr : simpl never.
Arguments N.land : simpl never. Arguments N.lor : simpl never. Arguments N.div : simpl never.
Arguments N.modulo : simpl never. Arguments N.ones : simpl never. Arguments N.testbit : simpl never.
Arguments N.max : simpl never. Arguments N.min : simpl never.

(* ---- the sink ---- *)

Lemma wfp_fits_limit L p k : fs_fits (Limit L) p k = true <-> k = 0 \/ 8 * (p + k) <= L.
Proof. unfold fs_fits. lia. Qed.

Lemma wfp_fits_full p k : fs_fits Full p k = true <-> k = 0.
Proof. unfold fs_fits. lia. Qed.

Lemma wfp_nofit_nonzero s p k : fs_fits s p k = false -> k <> 0.
Proof. unfold fs_fits. destruct s; lia. Qed.

(* no room for a whole element: nothing but the empty write fits *)
Lemma wfp_room0_nofit s p k : fs_room s p = 0 -> k <> 0 -> fs_fits s p k = false.
Proof. unfold fs_room, fs_fits. destruct s as [L|]; intros H Hk; [|lia]. lia. Qed.

(* "a single write of p elements from the start fits": the position is within the limit *)
Lemma wfp_fits_within s p k : fs_fits s 0 p = true -> fs_fits s p k = true -> fs_fits s 0 (p + k) = true.
Proof. unfold fs_fits. destruct s as [L|]; lia. Qed.

Lemma wfp_fwrite_fits s disk pos ws : fs_fits s pos (lenN ws) = true ->
  fwrite s disk pos ws = (file_write disk pos ws, true).
Proof. intros H. unfold fwrite. rewrite H. reflexivity. Qed.

Lemma wfp_file_write_pos disk pos ws : snd (file_write disk pos ws) = pos + lenN ws.
Proof. reflexivity. Qed.

(* after a failed write_all the handle is where nothing fits any more *)
Lemma wfp_fail_pos s disk pos ws : fs_fits s pos (lenN ws) = false ->
  fwrite s disk pos ws = (fst (fwrite s disk pos ws), false) /\
  fs_room s (snd (fst (fwrite s disk pos ws))) = 0.
Proof.
  intros Hf. unfold fwrite. rewrite Hf. cbn [fst snd]. split; [reflexivity|].
  destruct s as [L|]; [|destruct (firstn _ ws); reflexivity].
  unfold fs_fits in Hf. unfold fs_room.
  set (n := N.min (L / 8 - pos) (lenN ws)).
  destruct (firstn (N.to_nat n) ws) as [|x t] eqn:Ep.
  - cbn [snd]. assert (Hl : length (firstn (N.to_nat n) ws) = 0%nat) by (rewrite Ep; reflexivity).
    rewrite firstn_length in Hl. unfold lenN in *. lia.
  - rewrite <- Ep, wfp_file_write_pos. unfold lenN. rewrite firstn_length. unfold lenN in *. lia.
Qed.

(* ---- a failed writer ---- *)

(* open, something in the buffer, no room: the state every failure leaves behind *)
Definition stuck (s : fsink) (w : writer) : Prop :=
  exists p, wpos w = Some p /\ rdata (wbuf w) <> [] /\ fs_room s p = 0.

Lemma wfp_lenN_nonzero {A} (l : list A) : l <> [] <-> lenN l <> 0.
Proof. destruct l; unfold lenN; cbn [length]; split; intros H; try congruence; try lia. Qed.

Lemma wfp_stuck_open s w : stuck s w -> w_is_open w = true.
Proof. intros (p & Hp & _). unfold w_is_open. rewrite Hp. reflexivity. Qed.

Lemma wfp_stuck_flush s w : stuck s w -> wf_flush s false w = Ok (WErr (fs_err s) w).
Proof.
  intros (p & Hp & Hne & Hroom). unfold wf_flush, flush_prefix. rewrite Hp. cbn [andb bind].
  unfold fwrite. rewrite (wfp_room0_nofit s p _ Hroom) by (apply wfp_lenN_nonzero; exact Hne).
  rewrite Hroom, N.min_0_l. cbn [N.to_nat firstn].
  destruct w as [l bl b po d]. cbn [wpos wlen wbuf_len wbuf wdisk] in *. subst po. reflexivity.
Qed.

(* the failure is sticky: close returns the error again and changes nothing, however often it is called *)
Lemma wfp_stuck_close s w h : stuck s w -> wf_close_with_header s w h = Ok (WErr (fs_err s) w).
Proof.
  intros H. unfold wf_close_with_header. rewrite (wfp_stuck_open s w H), (wfp_stuck_flush s w H). reflexivity.
Qed.

Lemma wfp_stuck_drop s w : stuck s w -> wf_drop s w = Ok w.
Proof. intros H. unfold wf_drop, wf_close. rewrite (wfp_stuck_close s w [] H). reflexivity. Qed.

(* ---- flush: the failing model follows the succeeding one up to the first write that does not fit ---- *)

Lemma wfp_w_flush_eq safe w : w_flush safe w =
  match wpos w with
  | None => Ok w
  | Some pos =>
      let* (ov, buf1) := flush_prefix safe w in
      let '(d, p) := file_write (wdisk w) pos (rdata buf1) in
      let buf2 := raw_clear buf1 in
      let* buf3 := if safe && (0 <? snd ov) then raw_push_int buf2 (fst ov) (snd ov) else Ok buf2 in
      Ok (mkw (wlen w) (wbuf_len w) buf3 (Some p) d)
  end.
Proof. reflexivity. Qed.

(* what a failure tells: a write of k elements at p, which the succeeding model performs, does not fit *)
Definition nofit (s : fsink) (p k : N) : Prop := fs_fits s p k = false.

Lemma wfp_flush_sim s safe w w' : w_flush safe w = Ok w' ->
  wf_flush s safe w = Ok (WOk w') \/
  exists w'', wf_flush s safe w = Ok (WErr (fs_err s) w'') /\ stuck s w'' /\
    exists p k, wpos w = Some p /\ wpos w' = Some (p + k) /\ nofit s p k.
Proof.
  rewrite wfp_w_flush_eq. unfold wf_flush. destruct (wpos w) as [pos|] eqn:Hp.
  2:{ intros [= <-]. left. reflexivity. }
  destruct (flush_prefix safe w) as [[ov buf1]|k|s0]; cbn [bind]; try discriminate.
  destruct (fs_fits s pos (lenN (rdata buf1))) eqn:Hf.
  - rewrite (wfp_fwrite_fits _ _ _ _ Hf). destruct (file_write (wdisk w) pos (rdata buf1)) as [d p].
    destruct (if safe && (0 <? snd ov) then _ else _) as [buf3|k|s0]; cbn [bind]; try discriminate.
    intros [= <-]. left. reflexivity.
  - intros H. right. destruct (wfp_fail_pos s (wdisk w) pos (rdata buf1) Hf) as (E & Hroom).
    rewrite E. destruct (fst (fwrite s (wdisk w) pos (rdata buf1))) as [d'' p'']. cbn [snd] in Hroom.
    eexists. split; [reflexivity|]. split.
    + exists p''. cbn [wpos wbuf]. split; [reflexivity|]. split; [|exact Hroom].
      apply wfp_lenN_nonzero. exact (wfp_nofit_nonzero _ _ _ Hf).
    + exists pos, (lenN (rdata buf1)). split; [reflexivity|]. split; [|exact Hf].
      unfold file_write in H.
      destruct (if safe && (0 <? snd ov) then _ else _) as [buf3|k|s0]; cbn [bind] in H; try discriminate.
      injection H as <-. reflexivity.
Qed.

Lemma wfp_flush_within s safe w w' : wf_flush s safe w = Ok (WOk w') ->
  (forall p, wpos w = Some p -> fs_fits s 0 p = true) -> forall p', wpos w' = Some p' -> fs_fits s 0 p' = true.
Proof.
  unfold wf_flush. destruct (wpos w) as [pos|] eqn:Hp.
  2:{ intros [= <-] Hw p' Hp'. apply Hw. rewrite <- Hp'. symmetry. exact Hp. }
  destruct (flush_prefix safe w) as [[ov buf1]|k|s0]; cbn [bind]; try discriminate.
  destruct (fs_fits s pos (lenN (rdata buf1))) eqn:Hf.
  - rewrite (wfp_fwrite_fits _ _ _ _ Hf). unfold file_write.
    destruct (if safe && (0 <? snd ov) then _ else _) as [buf3|k|s0]; cbn [bind]; try discriminate.
    intros [= <-] Hw p' [= <-]. apply wfp_fits_within; [apply Hw; reflexivity|exact Hf].
  - destruct (wfp_fail_pos s (wdisk w) pos (rdata buf1) Hf) as (E & _). rewrite E.
    destruct (fst (fwrite s (wdisk w) pos (rdata buf1))) as [d'' p'']. discriminate.
Qed.

(* a Final flush never fails in the buffer operations *)
Lemma wfp_flush_final_total s w : exists o, wf_flush s false w = Ok o /\ forall k x, o <> WPanic k x.
Proof.
  unfold wf_flush, flush_prefix. destruct (wpos w) as [pos|]; [|eexists; split; [reflexivity|discriminate]].
  cbn [andb bind]. destruct (fwrite s (wdisk w) pos (rdata (wbuf w))) as [[d p] [|]];
    eexists; (split; [reflexivity|discriminate]).
Qed.

(* ---- pushes ---- *)

Lemma wfp_after_push_sim s w1 w' :
  (if wbuf_len w1 <=? rlen (wbuf w1) then w_flush true w1 else Ok w1) = Ok w' ->
  (if wbuf_len w1 <=? rlen (wbuf w1) then let* r := wf_flush s true w1 in Ok (unwrap_flush r) else Ok (WOk w1))
    = Ok (WOk w') \/
  exists w'', (if wbuf_len w1 <=? rlen (wbuf w1) then let* r := wf_flush s true w1 in Ok (unwrap_flush r) else Ok (WOk w1))
    = Ok (WPanic PUnwrap w'') /\ stuck s w'' /\
    exists p k, wpos w1 = Some p /\ wpos w' = Some (p + k) /\ nofit s p k.
Proof.
  destruct (wbuf_len w1 <=? rlen (wbuf w1)).
  - intros H. destruct (wfp_flush_sim s true w1 w' H) as [E|(w'' & E & Hs & Hn)]; rewrite E; cbn [bind unwrap_flush].
    + left. reflexivity.
    + right. exists w''. split; [reflexivity|]. split; assumption.
  - intros [= <-]. left. reflexivity.
Qed.

Lemma wfp_step_sim s w o w' : w_step w o = Ok w' ->
  wf_step s w o = Ok (WOk w') \/
  exists w'', wf_step s w o = Ok (WPanic PUnwrap w'') /\ stuck s w'' /\
    exists p k, wpos w = Some p /\ wpos w' = Some (p + k) /\ nofit s p k.
Proof.
  destruct o as [b|v width]; cbn [w_step wf_step].
  - unfold w_push_bit, wf_push_bit. destruct (raw_push_bit (wbuf w) b) as [b'|k|s0]; cbn [bind]; try discriminate.
    intros H. exact (wfp_after_push_sim s _ w' H).
  - unfold w_push_int, wf_push_int. destruct (width =? 0).
    + intros [= <-]. left. reflexivity.
    + destruct (raw_push_int (wbuf w) v width) as [b'|k|s0]; cbn [bind]; try discriminate.
      intros H. exact (wfp_after_push_sim s _ w' H).
Qed.

Lemma wfp_after_push_within s w1 w' :
  (if wbuf_len w1 <=? rlen (wbuf w1) then let* r := wf_flush s true w1 in Ok (unwrap_flush r) else Ok (WOk w1))
    = Ok (WOk w') ->
  (forall p, wpos w1 = Some p -> fs_fits s 0 p = true) -> forall p', wpos w' = Some p' -> fs_fits s 0 p' = true.
Proof.
  destruct (wbuf_len w1 <=? rlen (wbuf w1)).
  - destruct (wf_flush s true w1) as [[x|e x|k x]|k|s0] eqn:E; cbn [bind unwrap_flush]; try discriminate.
    intros [= <-]. exact (wfp_flush_within s true w1 x E).
  - intros [= <-] H. exact H.
Qed.

Lemma wfp_step_within s w o w' : wf_step s w o = Ok (WOk w') ->
  (forall p, wpos w = Some p -> fs_fits s 0 p = true) -> forall p', wpos w' = Some p' -> fs_fits s 0 p' = true.
Proof.
  destruct o as [b|v width]; cbn [wf_step].
  - unfold wf_push_bit. destruct (raw_push_bit (wbuf w) b) as [b'|k|s0]; cbn [bind]; try discriminate.
    intros H. exact (wfp_after_push_within s _ w' H).
  - unfold wf_push_int. destruct (width =? 0).
    + intros [= <-] H. exact H.
    + destruct (raw_push_int (wbuf w) v width) as [b'|k|s0]; cbn [bind]; try discriminate.
      intros H. exact (wfp_after_push_within s _ w' H).
Qed.

(* ---- a run of pushes ---- *)

Definition within (s : fsink) (w : writer) : Prop := forall p, wpos w = Some p -> fs_fits s 0 p = true.

(* Either every push returns and the failing model has done what the succeeding one does, or push number j
   panics in unwrap() and leaves a stuck writer; the write that did not fit ends at most where the data pushed so
   far ends in the complete file. *)
Lemma wfp_run s hd ops : forall F w i, sync hd F w -> Forall op_ok ops -> within s w ->
  (exists F' w1, wf_run s w ops i = Ok (i + lenN ops, WOk w1) /\ w_run w ops = Ok w1 /\ sync hd F' w1 /\ within s w1)
  \/ (exists j w'', wf_run s w ops i = Ok (j, WPanic PUnwrap w'') /\ i <= j < i + lenN ops /\ stuck s w'' /\
        exists p k q, nofit s p k /\ p + k = lenN hd + q /\ 64 * q <= wlen w + ops_bits ops).
Proof.
  induction ops as [|o t IH]; intros F w i Hs Hok Hw.
  - left. exists F, w. cbn [wf_run w_run]. change (lenN (@nil wop)) with 0. rewrite N.add_0_r. auto.
  - inversion Hok as [|? ? Ho Ht]; subst.
    destruct (w12_step hd F w o Hs Ho) as (F1 & w1 & E1 & Hs1 & _ & _ & L1).
    change (ops_bits (o :: t)) with (op_bits o + ops_bits t). rewrite w12_lenN_cons.
    destruct (wfp_step_sim s w o w1 E1) as [E|(w'' & E & Hst & p & k & Hp & Hp' & Hn)].
    + assert (Hw1 : within s w1) by exact (wfp_step_within s w o w1 E Hw).
      cbn [wf_run w_run]. rewrite E, E1. cbn [bind].
      destruct (IH F1 w1 (i + 1) Hs1 Ht Hw1) as [(F2 & w2 & R & Rw & Hs2 & Hw2)|(j & w'' & R & Hj & Hst & p & k & q & Hn & Hq & Hb)].
      * left. exists F2, w2. rewrite R. split; [f_equal; f_equal; lia|]. auto.
      * right. exists j, w''. rewrite R. split; [reflexivity|]. split; [lia|]. split; [exact Hst|].
        exists p, k, q. split; [exact Hn|]. split; [exact Hq|]. lia.
    + right. exists i, w''. cbn [wf_run]. rewrite E. cbn [bind]. split; [reflexivity|]. split; [lia|].
      split; [exact Hst|]. exists p, k, (lenN F1). split; [exact Hn|].
      pose proof (sy_pos _ _ _ Hs1) as P1. rewrite Hp' in P1. injection P1 as P1.
      pose proof (sy_len _ _ _ Hs1) as Q1. split; [exact P1|]. lia.
Qed.

(* ---- close ---- *)

Lemma wfp_close_total s w h : exists o, wf_close_with_header s w h = Ok o.
Proof.
  unfold wf_close_with_header. destruct (w_is_open w); [|eexists; reflexivity].
  destruct (wfp_flush_final_total s w) as (o & E & _). rewrite E. cbn [bind].
  destruct o as [w1|e w1|k w1]; [destruct (wf_write_header s w1 h)|..]; eexists; reflexivity.
Qed.

Lemma wfp_drop_total s w : exists w', wf_drop s w = Ok w'.
Proof. unfold wf_drop, wf_close. destruct (wfp_close_total s w []) as (o & E). rewrite E. cbn [bind]. eexists. reflexivity. Qed.

Lemma wfp_lenN_header {A} (h : list A) a b : lenN (h ++ [a; b]) = lenN h + 2.
Proof. rewrite w12_lenN_app. reflexivity. Qed.

Lemma wfp_btw_add a r : bits_to_words (64 * a + r) = a + bits_to_words r.
Proof. rewrite !w12_btw. lia. Qed.

Lemma wfp_close_sync s h0 a b F w h1 :
  sync (h0 ++ [a; b]) F w -> length h1 = length h0 -> fs_fits s 0 (lenN h0 + 2) = true -> within s w ->
  (exists w2, wf_close_with_header s w h1 = Ok (WOk w2) /\ w_close_with_header w h1 = Ok w2 /\
      fs_fits s 0 (lenN (wdisk w2)) = true /\ lenN (wdisk w2) = lenN h0 + 2 + bits_to_words (wlen w))
  \/ (exists w'', wf_close_with_header s w h1 = Ok (WErr (fs_err s) w'') /\ stuck s w'' /\
      exists p k, nofit s p k /\ p + k = lenN h0 + 2 + bits_to_words (wlen w)).
Proof.
  intros [Hpos Hdisk Hinv Hlt Hmod Hlen] Hh Hhd Hw.
  assert (Hh' : lenN h1 = lenN h0) by (unfold lenN; rewrite Hh; reflexivity).
  destruct Hinv as (_ & Hl & _).
  assert (Htot : lenN (h0 ++ [a; b]) + lenN F + lenN (rdata (wbuf w)) = lenN h0 + 2 + bits_to_words (wlen w)).
  { rewrite Hlen, wfp_btw_add, wfp_lenN_header, Hl. lia. }
  unfold wf_close_with_header, w_close_with_header, w_is_open. rewrite Hpos.
  rewrite wfp_w_flush_eq. unfold wf_flush, flush_prefix. rewrite Hpos. cbn [andb bind fst snd].
  assert (Hend : lenN (h0 ++ [a; b]) + lenN F = lenN (wdisk w)) by (rewrite Hdisk; symmetry; apply w12_lenN_app).
  destruct (fs_fits s (lenN (h0 ++ [a; b]) + lenN F) (lenN (rdata (wbuf w)))) eqn:Hf.
  - left. rewrite (wfp_fwrite_fits _ _ _ _ Hf). rewrite Hend, w12_file_write_end. cbn [bind].
    unfold wf_write_header, w_write_header. cbn [wpos wlen wdisk wbuf wbuf_len].
    rewrite wfp_fwrite_fits by (rewrite wfp_lenN_header, Hh'; exact Hhd).
    rewrite Hdisk, <- app_assoc.
    rewrite w12_file_write_start by (rewrite !app_length, Hh; reflexivity).
    eexists. split; [reflexivity|]. split; [reflexivity|]. cbn [wdisk].
    assert (Hsz : lenN ((h1 ++ [wlen w; bits_to_words (wlen w)]) ++ F ++ rdata (wbuf w))
                  = lenN (h0 ++ [a; b]) + lenN F + lenN (rdata (wbuf w))).
    { rewrite (w12_lenN_app (h1 ++ _)), (w12_lenN_app F), !wfp_lenN_header, Hh'. lia. }
    rewrite Hsz. split; [|exact Htot].
    rewrite <- N.add_assoc in Hsz |- *. rewrite N.add_assoc.
    apply wfp_fits_within; [apply Hw; exact Hpos|exact Hf].
  - right. destruct (wfp_fail_pos s (wdisk w) _ (rdata (wbuf w)) Hf) as (E & Hroom).
    rewrite E. destruct (fst (fwrite s (wdisk w) _ (rdata (wbuf w)))) as [d'' p'']. cbn [snd] in Hroom.
    eexists. split; [reflexivity|]. split.
    + exists p''. cbn [wpos wbuf]. split; [reflexivity|]. split; [|exact Hroom].
      apply wfp_lenN_nonzero. exact (wfp_nofit_nonzero _ _ _ Hf).
    + eexists. eexists. split; [exact Hf|exact Htot].
Qed.

(* ---- creation ---- *)

Lemma wfp_create s bl h0 :
  (wf_create s bl h0 = Ok (WOk (w_create bl h0)) /\ fs_fits s 0 (lenN h0 + 2) = true)
  \/ (exists w', wf_create s bl h0 = Ok (WErr (fs_err s) w') /\ nofit s 0 (lenN h0 + 2)).
Proof.
  unfold wf_create, wf_write_header, w_create, w_write_header. cbn [wpos wlen wdisk wbuf wbuf_len].
  destruct (fs_fits s 0 (lenN h0 + 2)) eqn:Hf.
  - left. split; [|reflexivity]. rewrite wfp_fwrite_fits by (rewrite wfp_lenN_header; exact Hf).
    destruct (file_write [] 0 _) as [d p]. reflexivity.
  - right. rewrite <- (wfp_lenN_header h0 0 (bits_to_words 0)) in Hf.
    destruct (wfp_fail_pos s [] 0 _ Hf) as (E & _). rewrite E.
    destruct (fst (fwrite s [] 0 _)) as [d'' p''].
    match goal with |- context [wf_drop s ?x] => destruct (wfp_drop_total s x) as (w' & Ed) end.
    rewrite Ed. cbn [bind]. exists w'. split; [reflexivity|]. rewrite wfp_lenN_header in Hf. exact Hf.
Qed.

Lemma wfp_within_create s bl h0 : fs_fits s 0 (lenN h0 + 2) = true -> within s (w_create bl h0).
Proof.
  intros Hf p. unfold w_create, w_write_header, file_write. cbn [wpos fst]. intros [= <-].
  rewrite wfp_lenN_header, N.add_0_l. exact Hf.
Qed.

(* ---- one whole session of a RawVectorWriter: create, pushes, close ---- *)

(* the ways a session can go; [tot] = elements of the complete file *)
Definition raw_session (s : fsink) (c : res (wout writer)) (w0 : writer) (h1 : list N) (ops : list wop) (tot : N) : Prop :=
  (* the constructor returns the error *)
  (exists w', c = Ok (WErr (fs_err s) w') /\ exists p k, nofit s p k /\ p + k <= tot)
  \/ (c = Ok (WOk w0) /\
      ( (* push number j panics; the writer stays stuck *)
        (exists j w'', wf_run s w0 ops 0 = Ok (j, WPanic PUnwrap w'') /\ j < lenN ops /\ stuck s w'' /\
           exists p k, nofit s p k /\ p + k <= tot)
        \/ (exists w1, wf_run s w0 ops 0 = Ok (lenN ops, WOk w1) /\
             ( (* close returns the error; the writer stays stuck *)
               (exists w'', wf_close_with_header s w1 h1 = Ok (WErr (fs_err s) w'') /\ stuck s w'' /\
                  exists p k, nofit s p k /\ p + k <= tot)
               \/ (* success: the complete file *)
               (exists w2 mem, wf_close_with_header s w1 h1 = Ok (WOk w2) /\ mem_run raw_new ops = Ok mem /\
                  wdisk w2 = h1 ++ raw_serialize mem /\ w_is_open w2 = false /\ wlen w2 = ops_bits ops /\
                  fs_fits s 0 (lenN (wdisk w2)) = true /\ lenN (wdisk w2) = tot))))).

Lemma wfp_btw_mono a b : a <= b -> bits_to_words a <= bits_to_words b.
Proof. rewrite !w12_btw. intros H. apply N.div_le_mono; lia. Qed.

Lemma wfp_session_create s bl h0 h1 ops : bl mod 64 = 0 -> 0 < bl -> length h1 = length h0 -> Forall op_ok ops ->
  raw_session s (wf_create s bl h0) (w_create bl h0) h1 ops (lenN h0 + 2 + bits_to_words (ops_bits ops)).
Proof.
  intros Hmod Hbl Hh Hok. unfold raw_session.
  destruct (wfp_create s bl h0) as [(Ec & Hhd)|(w' & Ec & Hn)].
  2:{ left. exists w'. split; [exact Ec|]. exists 0, (lenN h0 + 2). split; [exact Hn|lia]. }
  right. split; [exact Ec|].
  destruct (w12_create_sync bl h0 Hmod Hbl) as (Hs & Hb & Hl & _).
  destruct (w12_exact_create bl h0 h1 ops Hmod Hbl Hh Hok) as (r & w1' & w2' & Em & Er & Ecl & Hd & Ho & _ & Hl2 & _).
  destruct (wfp_run s _ ops [] _ 0 Hs Hok (wfp_within_create s bl h0 Hhd))
    as [(F' & w1 & R & Rw & Hs1 & Hw1)|(j & w'' & R & Hj & Hst & p & k & q & Hn & Hq & Hb')].
  - right. exists w1. rewrite N.add_0_l in R. split; [exact R|].
    rewrite Er in Rw. injection Rw as <-.
    assert (Hwl : wlen w1' = ops_bits ops).
    { destruct (w12_run _ ops [] _ Hs Hok) as (F2 & w3 & E3 & _ & _ & _ & L3). rewrite Er in E3. injection E3 as <-. lia. }
    destruct (wfp_close_sync s h0 0 0 F' w1' h1 Hs1 Hh Hhd Hw1) as [(w2 & C & Cw & Hfit & Hsz)|(w'' & C & Hst & p & k & Hn & Hq)].
    + right. rewrite Ecl in Cw. injection Cw as <-. exists w2', r. rewrite Hwl in Hsz. auto 10.
    + left. exists w''. split; [exact C|]. split; [exact Hst|]. exists p, k. split; [exact Hn|]. rewrite Hq, Hwl. lia.
  - left. exists j, w''. split; [exact R|]. split; [lia|]. split; [exact Hst|]. exists p, k. split; [exact Hn|].
    rewrite Hq, wfp_lenN_header. rewrite Hl, N.add_0_l in Hb'.
    assert (q <= bits_to_words (ops_bits ops)) by (rewrite w12_btw; lia). lia.
Qed.

Lemma wfp_session_with_buf_len m s h0 h1 buf_len w0 ops :
  w_with_buf_len m h0 buf_len = Ok w0 -> length h1 = length h0 -> Forall op_ok ops ->
  raw_session s (wf_with_buf_len m s h0 buf_len) w0 h1 ops (lenN h0 + 2 + bits_to_words (ops_bits ops)).
Proof.
  intros Hc Hh Hok. destruct (w12_with_buf_len_shape _ _ _ _ Hc) as (bl & -> & Hmod & Hbl).
  assert (E : wf_with_buf_len m s h0 buf_len = wf_create s bl h0).
  { unfold w_with_buf_len in Hc. unfold wf_with_buf_len.
    destruct (f_round_up_to_word_bits m buf_len) as [r|k|s0]; cbn [bind] in *; try discriminate.
    destruct (uadd m (N.max r bits_WORD_BITS) bits_WORD_BITS) as [c|k|s0]; cbn [bind] in *; try discriminate.
    injection Hc as Hc. unfold w_create in Hc. cbn [w_write_header wpos wlen wbuf_len wbuf wdisk] in Hc.
    unfold file_write in Hc. cbn [fst] in Hc. rewrite Hc. reflexivity. }
  rewrite E. apply wfp_session_create; (assumption || lia).
Qed.

Lemma wfp_session_new s h0 h1 ops : length h1 = length h0 -> Forall op_ok ops ->
  raw_session s (wf_new s h0) (w_new h0) h1 ops (lenN h0 + 2 + bits_to_words (ops_bits ops)).
Proof. intros Hh Hok. apply wfp_session_create; (assumption || reflexivity). Qed.

(* ---- the statements of property C14 for the raw writer ---- *)

Lemma wfp_nofit_small L p k tot : nofit (Limit L) p k -> p + k <= tot -> 8 * tot <= L -> False.
Proof. unfold nofit, fs_fits. lia. Qed.

Lemma wfp_fits_size s n : fs_fits s 0 n = true -> n <> 0 -> match s with Limit L => 8 * n <= L | Full => False end.
Proof. unfold fs_fits. destruct s as [L|]; lia. Qed.

Definition raw_verdict (s : fsink) (c : wout writer) (w0 : writer) (h1 : list N) (ops : list wop) : Prop :=
  match c with
  | WErr e _ => e = fs_err s
  | WPanic _ _ => False
  | WOk w0' => w0' = w0 /\
     exists i r, wf_run s w0 ops 0 = Ok (i, r) /\
     match r with
     | WPanic k wp => k = PUnwrap /\ i < lenN ops /\
          forall h, wf_close_with_header s wp h = Ok (WErr (fs_err s) wp)
     | WErr _ _ => False
     | WOk w1 => i = lenN ops /\
          exists c2, wf_close_with_header s w1 h1 = Ok c2 /\
          match c2 with
          | WErr e we => e = fs_err s /\ w_is_open we = true /\
               forall h, wf_close_with_header s we h = Ok (WErr (fs_err s) we)
          | WPanic _ _ => False
          | WOk w2 => exists mem, mem_run raw_new ops = Ok mem /\ wdisk w2 = h1 ++ raw_serialize mem /\
               w_is_open w2 = false /\ wlen w2 = ops_bits ops /\
               match s with Limit L => 8 * lenN (wdisk w2) <= L | Full => False end
          end
     end
  end.

Lemma wfp_verdict_of_session s c w0 h1 ops tot : raw_session s c w0 h1 ops tot -> 2 <= tot ->
  exists o, c = Ok o /\ raw_verdict s o w0 h1 ops.
Proof.
  intros [(w' & -> & _)|(-> & S)] Ht.
  - eexists. split; [reflexivity|]. reflexivity.
  - eexists. split; [reflexivity|]. cbn [raw_verdict]. split; [reflexivity|].
    destruct S as [(j & w'' & R & Hj & Hst & _)|(w1 & R & S)].
    + exists j, (WPanic PUnwrap w''). split; [exact R|]. split; [reflexivity|]. split; [exact Hj|].
      intros h. exact (wfp_stuck_close s w'' h Hst).
    + exists (lenN ops), (WOk w1). split; [exact R|]. split; [reflexivity|].
      destruct S as [(w'' & C & Hst & _)|(w2 & mem & C & Em & Hd & Ho & Hl & Hfit & Hsz)].
      * exists (WErr (fs_err s) w''). split; [exact C|]. split; [reflexivity|].
        split; [exact (wfp_stuck_open s w'' Hst)|]. intros h. exact (wfp_stuck_close s w'' h Hst).
      * exists (WOk w2). split; [exact C|]. exists mem. repeat (split; [assumption|]).
        apply wfp_fits_size; [exact Hfit|lia].
Qed.

Theorem wfp_writer_limit_raw m s h0 h1 buf_len w0 ops :
  w_with_buf_len m h0 buf_len = Ok w0 -> length h1 = length h0 ->
  (forall v width, In (PInt v width) ops -> width <= 64) ->
  exists c, wf_with_buf_len m s h0 buf_len = Ok c /\ raw_verdict s c w0 h1 ops.
Proof.
  intros Hc Hh Hok. eapply wfp_verdict_of_session.
  - exact (wfp_session_with_buf_len m s h0 h1 buf_len w0 ops Hc Hh (w12_ops_ok_of_in ops Hok)).
  - lia.
Qed.

Theorem wfp_writer_limit_raw_new s h0 h1 ops :
  length h1 = length h0 -> (forall v width, In (PInt v width) ops -> width <= 64) ->
  exists c, wf_new s h0 = Ok c /\ raw_verdict s c (w_new h0) h1 ops.
Proof.
  intros Hh Hok. eapply wfp_verdict_of_session.
  - exact (wfp_session_new s h0 h1 ops Hh (w12_ops_ok_of_in ops Hok)).
  - lia.
Qed.

(* if the complete file is within the limit, nothing fails *)
Lemma wfp_session_fits L c w0 h1 ops tot : raw_session (Limit L) c w0 h1 ops tot -> 8 * tot <= L ->
  exists w1 w2 mem, c = Ok (WOk w0) /\ wf_run (Limit L) w0 ops 0 = Ok (lenN ops, WOk w1) /\
    wf_close_with_header (Limit L) w1 h1 = Ok (WOk w2) /\
    mem_run raw_new ops = Ok mem /\ wdisk w2 = h1 ++ raw_serialize mem /\ w_is_open w2 = false.
Proof.
  intros [(w' & _ & p & k & Hn & Hq)|(-> & S)] HL; [exfalso; exact (wfp_nofit_small L p k tot Hn Hq HL)|].
  destruct S as [(j & w'' & _ & _ & _ & p & k & Hn & Hq)|(w1 & R & S)]; [exfalso; exact (wfp_nofit_small L p k tot Hn Hq HL)|].
  destruct S as [(w'' & _ & _ & p & k & Hn & Hq)|(w2 & mem & C & Em & Hd & Ho & _)]; [exfalso; exact (wfp_nofit_small L p k tot Hn Hq HL)|].
  exists w1, w2, mem. auto 10.
Qed.

Theorem wfp_writer_fits_raw m L h0 h1 buf_len w0 ops :
  w_with_buf_len m h0 buf_len = Ok w0 -> length h1 = length h0 ->
  (forall v width, In (PInt v width) ops -> width <= 64) ->
  8 * (lenN h0 + 2 + bits_to_words (ops_bits ops)) <= L ->
  exists w1 w2 mem, wf_with_buf_len m (Limit L) h0 buf_len = Ok (WOk w0) /\
    wf_run (Limit L) w0 ops 0 = Ok (lenN ops, WOk w1) /\
    wf_close_with_header (Limit L) w1 h1 = Ok (WOk w2) /\
    mem_run raw_new ops = Ok mem /\ wdisk w2 = h1 ++ raw_serialize mem /\ w_is_open w2 = false.
Proof.
  intros Hc Hh Hok HL. eapply wfp_session_fits; [|exact HL].
  exact (wfp_session_with_buf_len m (Limit L) h0 h1 buf_len w0 ops Hc Hh (w12_ops_ok_of_in ops Hok)).
Qed.

(* /dev/full: no writer is ever created *)
Theorem wfp_full_never_created m h0 buf_len w0 :
  w_with_buf_len m h0 buf_len = Ok w0 -> exists w', wf_with_buf_len m Full h0 buf_len = Ok (WErr ENOSPC w').
Proof.
  intros Hc. destruct (wfp_session_with_buf_len m Full h0 h0 buf_len w0 [] Hc eq_refl (Forall_nil _))
    as [(w' & E & _)|(E & S)]; [exists w'; exact E|exfalso].
  destruct S as [(j & w'' & _ & Hj & _)|(w1 & R & S)]; [change (lenN (@nil wop)) with 0 in Hj; lia|].
  cbn [wf_run] in R. injection R as <-.
  destruct (w12_with_buf_len_shape _ _ _ _ Hc) as (bl & -> & _).
  destruct (wfp_create Full bl h0) as [(_ & Hf)|(w' & _ & Hn)].
  - apply wfp_fits_full in Hf. lia.
  - destruct S as [(w'' & _ & _ & p & k & _ & _)|(w2 & mem & _ & _ & _ & _ & _ & Hfit & Hsz)].
    + (* the header did not fit at creation, yet the session says creation succeeded: look at creation again *)
      clear - E Hn. unfold wf_with_buf_len in E.
      destruct (f_round_up_to_word_bits m buf_len) as [r|k0|s0]; cbn [bind] in E; try discriminate.
      destruct (uadd m (N.max r bits_WORD_BITS) bits_WORD_BITS) as [c|k0|s0]; cbn [bind] in E; try discriminate.
      destruct (wfp_create Full (N.max r bits_WORD_BITS) h0) as [(_ & Hf)|(w' & E' & _)].
      * unfold nofit in Hn. congruence.
      * congruence.
    + apply wfp_fits_full in Hfit. lia.
Qed.

(* ---- IntVectorWriter ---- *)

Lemma wfp_lenN_int_ops width xs : lenN (int_ops width xs) = lenN xs.
Proof. unfold lenN, int_ops. rewrite map_length. reflexivity. Qed.

Lemma wfp_iw_extend s xs : forall iw i,
  match wf_run s (iww iw) (int_ops (iwwidth iw) xs) i with
  | Ok (j, WOk w1) => wf_iw_extend s iw xs i = Ok (j, WOk (mkiw (iwlen iw + lenN xs) (iwwidth iw) w1))
  | Ok (j, WErr e w1) => exists l, wf_iw_extend s iw xs i = Ok (j, WErr e (mkiw l (iwwidth iw) w1))
  | Ok (j, WPanic k w1) => exists l, wf_iw_extend s iw xs i = Ok (j, WPanic k (mkiw l (iwwidth iw) w1))
  | Panic k => wf_iw_extend s iw xs i = Panic k
  | OOB k => wf_iw_extend s iw xs i = OOB k
  end.
Proof.
  induction xs as [|x t IH]; intros iw i.
  - cbn [int_ops map wf_run wf_iw_extend]. destruct iw as [l wd w]. cbn [iwlen iwwidth iww].
    change (lenN (@nil N)) with 0. rewrite N.add_0_r. reflexivity.
  - cbn [int_ops map wf_run wf_iw_extend wf_step]. unfold wf_iw_push.
    destruct (wf_push_int s (iww iw) x (iwwidth iw)) as [[w'|e w'|k w']|k|s0]; cbn [bind wout_map]; try reflexivity.
    + specialize (IH (mkiw (iwlen iw + 1) (iwwidth iw) w') (i + 1)). cbn [iww iwwidth iwlen] in IH.
      fold (int_ops (iwwidth iw) t).
      destruct (wf_run s w' (int_ops (iwwidth iw) t) (i + 1)) as [[j [w1|e w1|k w1]]|k|s0]; try exact IH.
      rewrite IH, w12_lenN_cons. f_equal. f_equal. f_equal. f_equal. lia.
    + eexists. reflexivity.
    + eexists. reflexivity.
Qed.

Lemma wfp_stuck_iw_close s iw : stuck s (iww iw) -> wf_iw_close s iw = Ok (WErr (fs_err s) iw).
Proof.
  intros H. unfold wf_iw_close. rewrite (wfp_stuck_close s _ _ H). cbn [bind wout_map]. destruct iw; reflexivity.
Qed.

(* a dropped stuck writer: both closes fail again, nothing is reported, nothing changes *)
Lemma wfp_stuck_iw_drop s iw : stuck s (iww iw) -> wf_iw_drop s iw = Ok iw.
Proof.
  intros H. unfold wf_iw_drop. rewrite (wfp_stuck_iw_close s iw H). cbn [bind wout_state].
  rewrite (wfp_stuck_drop s _ H). cbn [bind]. destruct iw; reflexivity.
Qed.

Definition int_verdict (s : fsink) (c : wout iwriter) (iw0 : iwriter) (width : N) (xs : list N) : Prop :=
  match c with
  | WErr e _ => e = fs_err s
  | WPanic _ _ => False
  | WOk iw0' => iw0' = iw0 /\
     exists i r, wf_iw_extend s iw0 xs 0 = Ok (i, r) /\
     match r with
     | WPanic k iwp => k = PUnwrap /\ i < lenN xs /\ wf_iw_close s iwp = Ok (WErr (fs_err s) iwp)
     | WErr _ _ => False
     | WOk iw1 => i = lenN xs /\
          exists c2, wf_iw_close s iw1 = Ok c2 /\
          match c2 with
          | WErr e iwe => e = fs_err s /\ w_is_open (iww iwe) = true /\
               wf_iw_close s iwe = Ok (WErr (fs_err s) iwe)
          | WPanic _ _ => False
          | WOk iw2 => exists v0 v, iv_new width = Some v0 /\ iv_push_all v0 xs = Ok v /\
               wdisk (iww iw2) = iv_serialize v /\ w_is_open (iww iw2) = false /\ iwlen iw2 = lenN xs /\
               match s with Limit L => 8 * lenN (wdisk (iww iw2)) <= L | Full => False end
          end
     end
  end.

Lemma wfp_int_of_raw s width w0 xs c :
  1 <= width <= 64 ->
  raw_session s c w0 [lenN xs; width] (int_ops width xs) (4 + bits_to_words (lenN xs * width)) ->
  exists o, (let* r := c in Ok (wout_map (mkiw 0 width) (mkiw 0 width) r)) = Ok o /\
            int_verdict s o (mkiw 0 width w0) width xs.
Proof.
  intros Hw [(w' & -> & _)|(-> & S)]; cbn [bind wout_map].
  - eexists. split; [reflexivity|]. reflexivity.
  - eexists. split; [reflexivity|]. cbn [int_verdict]. split; [reflexivity|].
    pose proof (wfp_iw_extend s xs (mkiw 0 width w0) 0) as X. cbn [iww iwwidth iwlen] in X.
    rewrite wfp_lenN_int_ops in S.
    destruct S as [(j & w'' & R & Hj & Hst & _)|(w1 & R & S)]; rewrite R in X.
    + destruct X as (l & X). exists j, (WPanic PUnwrap (mkiw l width w'')). split; [exact X|].
      split; [reflexivity|]. split; [exact Hj|]. apply wfp_stuck_iw_close. exact Hst.
    + rewrite N.add_0_l in X. exists (lenN xs), (WOk (mkiw (lenN xs) width w1)). split; [exact X|]. split; [reflexivity|].
      unfold wf_iw_close at 1. cbn [iww iwlen iwwidth].
      destruct S as [(w'' & C & Hst & _)|(w2 & mem & C & Em & Hd & Ho & Hl & Hfit & Hsz)]; rewrite C; cbn [bind wout_map].
      * eexists. split; [reflexivity|]. split; [reflexivity|]. cbn [iww].
        split; [exact (wfp_stuck_open s w'' Hst)|]. apply wfp_stuck_iw_close. exact Hst.
      * eexists. split; [reflexivity|]. cbn [iww iwlen].
        unfold iv_new, width_ok. apply w12_width_ok in Hw. rewrite Hw. cbn [negb].
        eexists. eexists. split; [reflexivity|]. rewrite w12_iv_push_all. cbn [ilen iwidth idata].
        rewrite Em. cbn [rmap bind]. split; [reflexivity|].
        split; [rewrite Hd; unfold iv_serialize; cbn [ilen iwidth idata app]; rewrite N.add_0_l; reflexivity|].
        split; [exact Ho|]. split; [reflexivity|]. apply wfp_fits_size; [exact Hfit|lia].
Qed.

Theorem wfp_writer_limit_int m s width buf_len iw0 xs :
  iw_with_buf_len m width buf_len = Some (Ok iw0) ->
  exists c, wf_iw_with_buf_len m s width buf_len = Some (Ok c) /\ int_verdict s c iw0 width xs.
Proof.
  unfold iw_with_buf_len, wf_iw_with_buf_len.
  destruct ((width =? 0) || (bits_WORD_BITS <? width)) eqn:Ew; [discriminate|].
  pose proof Ew as Hw. apply w12_width_ok in Hw. intros [= H].
  destruct (umul m buf_len width) as [bits|k|s0]; cbn [bind] in *; try discriminate.
  destruct (w_with_buf_len m [0; 0] bits) as [w0|k|s0] eqn:Ec; cbn [bind] in H; try discriminate.
  injection H as <-.
  destruct (wfp_int_of_raw s width w0 xs (wf_with_buf_len m s [0; 0] bits) Hw) as (o & Eo & V).
  - rewrite <- w12_int_ops_bits.
    exact (wfp_session_with_buf_len m s [0; 0] [lenN xs; width] bits w0 (int_ops width xs) Ec eq_refl
             (w12_int_ops_ok width xs (proj2 Hw))).
  - exists o. split; [f_equal; exact Eo|exact V].
Qed.

Theorem wfp_writer_limit_int_new s width iw0 xs :
  iw_new width = Some iw0 ->
  exists c, wf_iw_new s width = Some (Ok c) /\ int_verdict s c iw0 width xs.
Proof.
  unfold iw_new, wf_iw_new.
  destruct ((width =? 0) || (bits_WORD_BITS <? width)) eqn:Ew; [discriminate|].
  pose proof Ew as Hw. apply w12_width_ok in Hw. intros [= <-].
  destruct (wfp_int_of_raw s width (w_new [0; 0]) xs (wf_new s [0; 0]) Hw) as (o & Eo & V).
  - rewrite <- w12_int_ops_bits.
    exact (wfp_session_new s [0; 0] [lenN xs; width] (int_ops width xs) eq_refl (w12_int_ops_ok width xs (proj2 Hw))).
  - exists o. split; [f_equal; exact Eo|exact V].
Qed.

Theorem wfp_writer_fits_int m L width buf_len iw0 xs :
  iw_with_buf_len m width buf_len = Some (Ok iw0) ->
  8 * (4 + bits_to_words (lenN xs * width)) <= L ->
  exists iw1 iw2 v0 v, wf_iw_with_buf_len m (Limit L) width buf_len = Some (Ok (WOk iw0)) /\
    wf_iw_extend (Limit L) iw0 xs 0 = Ok (lenN xs, WOk iw1) /\ wf_iw_close (Limit L) iw1 = Ok (WOk iw2) /\
    iv_new width = Some v0 /\ iv_push_all v0 xs = Ok v /\
    wdisk (iww iw2) = iv_serialize v /\ w_is_open (iww iw2) = false.
Proof.
  intros Hc HL. pose proof Hc as Hc'. revert Hc'. unfold iw_with_buf_len, wf_iw_with_buf_len.
  destruct ((width =? 0) || (bits_WORD_BITS <? width)) eqn:Ew; [discriminate|].
  pose proof Ew as Hw. apply w12_width_ok in Hw. intros [= H].
  destruct (umul m buf_len width) as [bits|k|s0]; cbn [bind] in *; try discriminate.
  destruct (w_with_buf_len m [0; 0] bits) as [w0|k|s0] eqn:Ec; cbn [bind] in H; try discriminate.
  injection H as <-.
  destruct (wfp_session_fits L (wf_with_buf_len m (Limit L) [0; 0] bits) w0 [lenN xs; width] (int_ops width xs)
              (4 + bits_to_words (lenN xs * width))) as (w1 & w2 & mem & E & R & C & Em & Hd & Ho).
  - rewrite <- w12_int_ops_bits.
    exact (wfp_session_with_buf_len m (Limit L) [0; 0] [lenN xs; width] bits w0 (int_ops width xs) Ec eq_refl
             (w12_int_ops_ok width xs (proj2 Hw))).
  - exact HL.
  - rewrite E. cbn [bind wout_map].
    pose proof (wfp_iw_extend (Limit L) xs (mkiw 0 width w0) 0) as X. cbn [iww iwwidth iwlen] in X.
    rewrite R, N.add_0_l, wfp_lenN_int_ops in X.
    exists (mkiw (lenN xs) width w1), (mkiw (lenN xs) width w2).
    unfold iv_new, width_ok. rewrite Ew. cbn [negb]. eexists. eexists.
    split; [reflexivity|]. split; [exact X|]. unfold wf_iw_close. cbn [iww iwlen iwwidth]. rewrite C. cbn [bind wout_map].
    split; [reflexivity|]. split; [reflexivity|]. rewrite w12_iv_push_all. cbn [ilen iwidth idata].
    rewrite Em. cbn [rmap bind]. split; [reflexivity|]. cbn [iww]. split; [|exact Ho].
    rewrite Hd. unfold iv_serialize. cbn [ilen iwidth idata app]. rewrite N.add_0_l. reflexivity.
Qed.
