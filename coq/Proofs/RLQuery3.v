(* The iterators over set bits: one_iter and select_iter yield exactly the ranked set positions from their
   starting rank on. *)
From Coq Require Import NArith List Lia ZArith Bool.
Require Import SDS.Model.Mach SDS.Model.Bits SDS.Model.Raw SDS.Model.IntVec SDS.Model.RL SDS.gen.Consts SDS.gen.Funs.
Require Import SDS.Spec.Runs.
Require Import SDS.Proofs.BitsProof SDS.Proofs.RLIntVec SDS.Proofs.RLVarint SDS.Proofs.RLIndex SDS.Proofs.RLRep
               SDS.Proofs.RunsLemmas SDS.Proofs.RLIter SDS.Proofs.RLQuery SDS.Proofs.RLQuery2.
Import ListNotations.
Open Scope N_scope.
Require Import ZifyBool ZifyN ZifyNat.
Ltac Zify.zify_post_hook ::= Z.div_mod_to_equations.
Arguments N.add : simpl never. Arguments N.sub : simpl never. Arguments N.mul : simpl never.
Arguments N.eqb : simpl never. Arguments N.ltb : simpl never. Arguments N.leb : simpl never.
Arguments N.pow : simpl never. Arguments N.min : simpl never.

Section Query3.
  Variable m : mode.
  Variable v : rlvec.
  Variable BS : list (list run).
  Variable L : N.
  Hypothesis Hok : rl_ok v BS L.

  Let F := concat BS.
  Notation Abs := (RLIter.Abs BS).
  Local Notation abs_ok := (abs_ok v BS L Hok).
  Local Notation fuel_ok := (fuel_ok v BS L Hok).

  (* a live OneIter whose next item has rank k: either k is the rank reached by the run iterator (the next run
     must be fetched), or k lies inside the run just consumed *)
  Definition OI (s : oneiter) (k : N) : Prop :=
    oi_got_none s = false /\ oi_rank s = k /\
    exists dn todo, Abs (oi_iter s) dn todo /\
      (k = rones dn \/ exists dn' r, dn = dn' ++ [r] /\ rones dn' <= k < rones dn).

  Definition sel_item (k : N) : option (N * N) :=
    match runs_select F k with Some p => Some (k, p) | None => None end.

  Lemma oi_next_spec s k : OI s k ->
    exists s', oi_next m v s = Ok (s', sel_item k) /\ (sel_item k <> None -> OI s' (k + 1)).
  Proof.
    intros (Hg & Hk & dn & todo & Ha & Hcase).
    destruct (abs_ok _ _ _ Ha) as (HF & Hr & Ho & Hdn & Htd). fold F in HF.
    unfold oi_next. rewrite Hg, Hk, Hr. cbn [negb andb].
    destruct Hcase as [Hb|(dn' & r & Hdn' & Hin)].
    - (* the next run is needed *)
      replace (rones dn <=? k) with true by lia.
      destruct todo as [|r t].
      + rewrite (next_spec m v BS L Hok _ dn [] Ha). cbn [bind oi_got_none].
        eexists. split; [|].
        * unfold sel_item. rewrite HF, app_nil_r, runs_select_none by lia. reflexivity.
        * unfold sel_item. rewrite HF, app_nil_r, runs_select_none by lia. congruence.
      + destruct (next_spec m v BS L Hok _ dn (r :: t) Ha) as (it' & Ha' & Hn). rewrite Hn.
        cbn [bind oi_got_none oi_iter oi_rank].
        destruct (abs_ok _ _ _ Ha') as (_ & Hr' & Ho' & _).
        rewrite rones_app in Hr'. rewrite runs_end_from_app in Ho'. cbn [rones runs_end_from] in Hr', Ho'.
        cbn [runs_ok] in Htd. destruct Htd as (_ & Hl & _).
        eexists. split.
        * unfold sel_item, ri_offset_for. rewrite Hr', Ho', HF, runs_select_app_r by lia.
          rewrite runs_select_head by lia.
          match goal with |- Ok (_, Some (_, ?a)) = Ok (_, Some (_, ?b)) => replace a with b by lia end. reflexivity.
        * intros _. split; [reflexivity|]. split; [reflexivity|]. cbn [oi_iter].
          exists (dn ++ [r]), t. split; [exact Ha'|].
          rewrite rones_app. cbn [rones].
          destruct (N.eq_dec (k + 1) (rones dn + (snd r + 0))) as [E|NE]; [left; exact E|right].
          exists dn, r. split; [reflexivity|lia].
    - (* inside the current run *)
      replace (rones dn <=? k) with false by lia. cbn [bind]. rewrite Hg.
      rewrite Hdn' in *. rewrite rones_app in *. rewrite runs_end_from_app in Ho. cbn [rones runs_end_from] in *.
      eexists. split.
      + unfold sel_item, ri_offset_for. rewrite Hk, Hr, Ho, HF, <- app_assoc, runs_select_app_r by lia.
        cbn [app]. rewrite runs_select_head by lia.
        match goal with |- Ok (_, Some (_, ?a)) = Ok (_, Some (_, ?b)) => replace a with b by lia end. reflexivity.
      + intros _. split; [reflexivity|]. split; [reflexivity|]. cbn [oi_iter].
        exists (dn' ++ [r]), todo. split; [exact Ha|]. rewrite rones_app. cbn [rones].
        destruct (N.eq_dec (k + 1) (rones dn' + (snd r + 0))) as [E|NE]; [left; exact E|right].
        exists dn', r. split; [reflexivity|lia].
  Qed.

  Lemma oi_take_spec : forall n s k, OI s k -> oi_take n m v s = Ok (ones_from_rank n F k).
  Proof.
    induction n as [|n IH]; intros s k Hs; [reflexivity|]. cbn [oi_take ones_from_rank].
    destruct (oi_next_spec s k Hs) as (s' & Hn & Hnext). rewrite Hn. cbn [bind].
    unfold sel_item in *. destruct (runs_select F k) as [p|]; [|reflexivity].
    rewrite (IH s' (k + 1)) by (apply Hnext; discriminate). reflexivity.
  Qed.

  Lemma one_iter_spec n : (let* s := rl_one_iter v in oi_take n m v s) = Ok (ones_from_rank n F 0).
  Proof.
    unfold rl_one_iter. destruct (run_iter_spec v BS L Hok) as (it & Hit & Ha). rewrite Hit. cbn [bind].
    apply oi_take_spec. split; [reflexivity|]. split; [reflexivity|]. cbn [oi_iter].
    exists [], (concat BS). split; [exact Ha|left; reflexivity].
  Qed.

  (* `while iter.rank() < rank { iter.next(); }` *)
  Lemma skip_strict_spec rank : forall todo fuel it dn,
    Abs it dn todo -> (length todo < fuel)%nat -> rank <= rones dn + rones todo ->
    (rank = rones dn \/ exists dn' r, dn = dn' ++ [r] /\ rones dn' <= rank < rones dn) \/ rones dn < rank ->
    exists it' dn2 todo2,
      rl_skip_loop fuel m v it rank true = Ok it' /\ Abs it' dn2 todo2 /\
      (rank = rones dn2 \/ exists dn' r, dn2 = dn' ++ [r] /\ rones dn' <= rank < rones dn2).
  Proof.
    induction todo as [|r t IH]; intros fuel it dn Ha Hf Hhi Hcase;
      (destruct fuel as [|k]; [cbn [length] in Hf; lia|]); cbn [rl_skip_loop];
      destruct (abs_ok _ _ _ Ha) as (HF & Hr & _ & _ & Htd); rewrite Hr.
    - cbn [rones] in Hhi. destruct Hcase as [Hc|Hc]; [|lia].
      replace (rones dn <? rank) with false by (destruct Hc as [->|(? & ? & ? & ?)]; lia).
      exists it, dn, []. split; [reflexivity|]. split; [exact Ha|exact Hc].
    - destruct Hcase as [Hc|Hc].
      + replace (rones dn <? rank) with false by (destruct Hc as [->|(? & ? & ? & ?)]; lia).
        exists it, dn, (r :: t). split; [reflexivity|]. split; [exact Ha|exact Hc].
      + replace (rones dn <? rank) with true by lia.
        destruct (next_spec m v BS L Hok it dn (r :: t) Ha) as (it' & Ha' & Hn). rewrite Hn. cbn [bind].
        cbn [rones] in Hhi. cbn [length] in Hf. cbn [runs_ok] in Htd. destruct Htd as (_ & Hl & _).
        apply (IH k it' (dn ++ [r]) Ha'); [lia|rewrite rones_app; cbn [rones]; lia|].
        rewrite rones_app. cbn [rones].
        destruct (N.lt_ge_cases (rones dn + (snd r + 0)) rank) as [Hlt|Hge]; [right; exact Hlt|left].
        destruct (N.eq_dec rank (rones dn + (snd r + 0))) as [E|NE]; [left; exact E|right].
        exists dn, r. split; [reflexivity|lia].
  Qed.

  Lemma select_iter_spec rank n :
    (let* s := rl_select_iter m v rank in oi_take n m v s) = Ok (ones_from_rank n F rank).
  Proof.
    unfold rl_select_iter. rewrite (ones_F v BS L Hok). fold F.
    destruct (N.leb_spec (rones F) rank) as [Hge|Hlt].
    - cbn [bind]. destruct n as [|n]; [reflexivity|]. cbn [oi_take ones_from_rank].
      rewrite runs_select_none by assumption. reflexivity.
    - destruct (iter_for_one_spec m v BS L Hok rank Hlt) as (it & dn & todo & Hit & Ha & Hd).
      rewrite Hit. cbn [bind]. destruct (abs_ok _ _ _ Ha) as (HF & _). fold F in HF.
      destruct (skip_strict_spec rank todo _ it dn Ha (fuel_ok _ _ _ Ha)) as (it' & dn2 & todo2 & Hs & Ha' & Hc).
      { rewrite HF, rones_app in Hlt. lia. }
      { destruct (N.eq_dec rank (rones dn)) as [E|NE]; [left; left; exact E|right; lia]. }
      rewrite Hs. cbn [bind]. apply oi_take_spec.
      split; [reflexivity|]. split; [reflexivity|]. cbn [oi_iter]. exists dn2, todo2. split; assumption.
  Qed.
End Query3.
